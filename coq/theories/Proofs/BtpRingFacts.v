(** The ring buffer with start / end indices, wrap-around and the non_empty
    flag refines the byte queue the BTP model uses: as long as nothing is
    pushed beyond the capacity (which [accept_incoming] checks first), a push
    appends, a pop takes from the front, [len] is the length of the queue. *)
From RsM Require Import Lib.MachInt Model.Btp Model.BtpRing.
From Coq Require Import Lia.
Open Scope nat_scope.

(** * slices of a list *)

Lemma skipn_skipn_nat {A} (a b : nat) (l : list A) : skipn a (skipn b l) = skipn (a + b) l.
Proof.
  revert l. induction b as [|b IH]; intro l.
  - rewrite Nat.add_0_r. reflexivity.
  - rewrite Nat.add_succ_r. destruct l as [|x l]; cbn [skipn]; [destruct a; reflexivity|apply IH].
Qed.

Lemma skipn_firstn_nat {A} (a e : nat) (l : list A) : skipn a (firstn e l) = firstn (e - a) (skipn a l).
Proof. apply skipn_firstn_comm. Qed.

Lemma firstn_firstn_le {A} (a b : nat) (l : list A) : a <= b -> firstn a (firstn b l) = firstn a l.
Proof. intro H. rewrite firstn_firstn. f_equal. lia. Qed.

Lemma slice_length l a b : b <= length l -> length (slice l a b) = b - a.
Proof. intro H. unfold slice. rewrite firstn_length, skipn_length. lia. Qed.

Lemma slice_split l a b c : a <= b -> b <= c -> slice l a c = slice l a b ++ slice l b c.
Proof.
  intros H1 H2. unfold slice.
  replace (c - a) with ((b - a) + (c - b)) by lia.
  rewrite <- (firstn_skipn (b - a) (firstn (b - a + (c - b)) (skipn a l))).
  rewrite firstn_firstn_le by lia. f_equal.
  rewrite skipn_firstn_nat, skipn_skipn_nat. f_equal; [lia|f_equal; lia].
Qed.

Lemma slice_nil l a : slice l a a = [].
Proof. unfold slice. rewrite Nat.sub_diag. reflexivity. Qed.

(** writing a block of [len] bytes at index [e] *)
Definition blit (buf chunk : bytes) (e : nat) : bytes :=
  firstn e buf ++ chunk ++ skipn (e + length chunk) buf.

Lemma blit_length buf chunk e :
  e + length chunk <= length buf -> length (blit buf chunk e) = length buf.
Proof. intro H. unfold blit. rewrite !app_length, firstn_length, skipn_length. lia. Qed.

Lemma blit_before buf chunk e a b :
  e + length chunk <= length buf -> a <= b -> b <= e -> slice (blit buf chunk e) a b = slice buf a b.
Proof.
  intros H Hab Hbe. unfold slice, blit.
  rewrite skipn_app, firstn_length. replace (a - Nat.min e (length buf)) with 0 by lia.
  cbn [skipn]. rewrite firstn_app, skipn_length, firstn_length.
  replace (b - a - (Nat.min e (length buf) - a)) with 0 by lia. cbn [firstn]. rewrite app_nil_r.
  rewrite skipn_firstn_nat, firstn_firstn_le by lia. reflexivity.
Qed.

Lemma blit_at buf chunk e :
  e + length chunk <= length buf -> slice (blit buf chunk e) e (e + length chunk) = chunk.
Proof.
  intro H. unfold slice, blit.
  rewrite skipn_app, firstn_length. replace (e - Nat.min e (length buf)) with 0 by lia.
  rewrite skipn_all2 by (rewrite firstn_length; lia). cbn [skipn app].
  replace (e + length chunk - e) with (length chunk) by lia.
  rewrite firstn_app, Nat.sub_diag, firstn_all. cbn [firstn]. apply app_nil_r.
Qed.

Lemma blit_after buf chunk e a b :
  e + length chunk <= length buf -> e + length chunk <= a ->
  slice (blit buf chunk e) a b = slice buf a b.
Proof.
  intros H Ha. unfold slice, blit. f_equal.
  rewrite app_assoc, skipn_app.
  rewrite skipn_all2 by (rewrite app_length, firstn_length; lia). cbn [app].
  rewrite app_length, firstn_length, skipn_skipn_nat. f_equal. lia.
Qed.

Section RingFacts.
Variable cap : nat.
Hypothesis Hcap : 1 <= cap.

(** a ring the Rust code can be in: never used yet, or a buffer of full length
    with both indices inside it; when it is empty the indices coincide *)
Definition ring_wf (r : ring) : Prop :=
  (g_buf r = [] /\ g_start r = 0 /\ g_end r = 0 /\ g_ne r = false) \/
  (length (g_buf r) = cap /\ g_start r < cap /\ g_end r < cap /\ (g_ne r = false -> g_start r = g_end r)).

Lemma ring_len_contents r : ring_wf r -> ring_len r = length (ring_contents r).
Proof.
  intros [(Hb & Hs & He & Hn)|(Hl & Hs & He & Hn)]; unfold ring_len, ring_contents.
  - rewrite Hn. reflexivity.
  - destruct (g_ne r); cbn [negb]; [|reflexivity].
    destruct (Nat.ltb_spec (g_start r) (g_end r)).
    + rewrite slice_length by lia. reflexivity.
    + rewrite app_length, !slice_length by lia. lia.
Qed.

Lemma resize_wf r :
  ring_wf r ->
  let r0 := mkRing (g_resize cap (g_buf r)) (g_start r) (g_end r) (g_ne r) in
  length (g_buf r0) = cap /\ g_start r0 < cap /\ g_end r0 < cap /\ (g_ne r0 = false -> g_start r0 = g_end r0) /\
  ring_contents r0 = ring_contents r.
Proof.
  intros [(Hb & Hs & He & Hn)|(Hl & Hs & He & Hn)]; cbv zeta; cbn [g_buf g_start g_end g_ne]; unfold g_resize.
  - rewrite Hb, Hs, He, Hn. cbn [length]. destruct (Nat.ltb_spec 0 cap); [|lia].
    cbn [app]. rewrite repeat_length. unfold ring_contents. cbn [g_ne]. rewrite Hn. repeat split; lia.
  - rewrite Hl. destruct (Nat.ltb_spec cap cap); [lia|].
    rewrite firstn_all2 by lia. unfold ring_contents. cbn [g_buf g_start g_end g_ne]. repeat split; try assumption.
Qed.

(** one block copy of a push that does not overrun what is stored *)
Lemma push_turn_fits r data :
  length (g_buf r) = cap -> g_start r < cap -> g_end r < cap -> (g_ne r = false -> g_start r = g_end r) ->
  data <> [] -> length (ring_contents r) + length data <= cap ->
  let r1 := fst (push_turn r data) in
  let len := Nat.min (cap - g_end r) (length data) in
  length (g_buf r1) = cap /\ g_start r1 < cap /\ g_end r1 < cap /\ g_ne r1 = true /\
  snd (push_turn r data) = skipn len data /\
  ring_contents r1 = ring_contents r ++ firstn len data /\ 1 <= len.
Proof.
  intros Hl Hs He Hn Hd Hfit. cbv zeta. unfold push_turn. rewrite Hl.
  set (len := Nat.min (cap - g_end r) (length data)).
  assert (Hlen1 : 1 <= len) by (destruct data; [congruence|cbn [length] in *; unfold len; lia]).
  set (chunk := firstn len data).
  assert (Hcl : length chunk = len) by (unfold chunk; rewrite firstn_length; unfold len; lia).
  fold (blit (g_buf r) chunk (g_end r)).
  replace (g_end r + len) with (g_end r + length chunk) by lia.
  fold (blit (g_buf r) chunk (g_end r)).
  assert (Hbl : length (blit (g_buf r) chunk (g_end r)) = cap) by (rewrite blit_length; lia).
  cbn [fst snd g_wrap g_buf g_start g_end g_ne]. rewrite Hbl.
  (* nothing stored is overwritten *)
  assert (Hnodrop : (g_ne r && Nat.leb (g_end r) (g_start r) && Nat.ltb (g_start r) (g_end r + length chunk)) = false).
  { destruct (g_ne r) eqn:En; [|reflexivity]. cbn [andb].
    destruct (Nat.leb_spec (g_end r) (g_start r)); [|reflexivity]. cbn [andb].
    destruct (Nat.ltb_spec (g_start r) (g_end r + length chunk)); [|reflexivity].
    exfalso. unfold ring_contents in Hfit. rewrite En in Hfit.
    destruct (Nat.ltb_spec (g_start r) (g_end r)); [lia|].
    rewrite app_length, !slice_length in Hfit by lia. unfold len in *. lia. }
  rewrite Hnodrop.
  split; [reflexivity|].
  assert (Hs' : (if Nat.eqb (g_start r) cap then 0 else g_start r) = g_start r)
    by (destruct (Nat.eqb_spec (g_start r) cap); lia).
  rewrite Hs'. split; [assumption|].
  split; [destruct (Nat.eqb_spec (g_end r + length chunk) cap); lia|].
  split; [reflexivity|]. split; [rewrite ?Hcl; reflexivity|]. split; [|exact Hlen1].
  unfold ring_contents. cbn [g_buf g_start g_end g_ne]. rewrite Hbl, ?Hl.
  set (B := blit (g_buf r) chunk (g_end r)).
  assert (Hfit2 : g_end r + length chunk <= cap) by (unfold len in *; lia).
  assert (Hat : slice B (g_end r) (g_end r + length chunk) = chunk) by (apply blit_at; lia).
  destruct (g_ne r) eqn:En.
  - unfold ring_contents in Hfit. rewrite En in Hfit.
    destruct (Nat.ltb_spec (g_start r) (g_end r)) as [Hse|Hse].
    + (* stored block start..end, the new block follows it *)
      rewrite slice_length in Hfit by lia.
      destruct (Nat.eqb_spec (g_end r + length chunk) cap) as [Ew|Ew].
      * destruct (Nat.ltb_spec (g_start r) 0); [lia|]. rewrite slice_nil, app_nil_r.
        rewrite (slice_split B (g_start r) (g_end r) cap) by lia.
        unfold B. rewrite blit_before by lia. rewrite <- Ew. fold B. rewrite Hat. reflexivity.
      * destruct (Nat.ltb_spec (g_start r) (g_end r + length chunk)); [|lia].
        rewrite (slice_split B (g_start r) (g_end r) (g_end r + length chunk)) by lia.
        unfold B at 1. rewrite blit_before by lia. rewrite Hat. reflexivity.
    + (* stored data wraps: start..cap then 0..end; the new block goes after end, below start *)
      rewrite app_length, !slice_length in Hfit by lia.
      assert (g_end r + length chunk <= g_start r) by (unfold len in *; lia).
      destruct (Nat.eqb_spec (g_end r + length chunk) cap); [lia|].
      destruct (Nat.ltb_spec (g_start r) (g_end r + length chunk)); [lia|].
      rewrite (slice_split B 0 (g_end r) (g_end r + length chunk)) by lia.
      unfold B at 1 2. rewrite blit_after, blit_before by lia. rewrite Hat.
      rewrite app_assoc. reflexivity.
  - (* empty ring: start = end *)
    specialize (Hn eq_refl). cbn [app].
    destruct (Nat.eqb_spec (g_end r + length chunk) cap) as [Ew|Ew].
    + destruct (Nat.ltb_spec (g_start r) 0); [lia|]. rewrite slice_nil, app_nil_r.
      rewrite Hn, <- Ew. exact Hat.
    + destruct (Nat.ltb_spec (g_start r) (g_end r + length chunk)); [|lia].
      rewrite Hn. exact Hat.
Qed.

Lemma push_loop_fits fuel : forall r data,
  length (g_buf r) = cap -> g_start r < cap -> g_end r < cap -> (g_ne r = false -> g_start r = g_end r) ->
  length data < fuel -> length (ring_contents r) + length data <= cap ->
  let r' := push_loop fuel r data in
  length (g_buf r') = cap /\ g_start r' < cap /\ g_end r' < cap /\ (g_ne r' = false -> g_start r' = g_end r') /\
  ring_contents r' = ring_contents r ++ data.
Proof.
  induction fuel as [|f IH]; intros r data Hl Hs He Hn Hf Hfit; [lia|].
  cbn [push_loop]. destruct data as [|x d].
  - cbv zeta. rewrite app_nil_r. repeat split; assumption.
  - pose proof (push_turn_fits r (x :: d) Hl Hs He Hn ltac:(discriminate) Hfit) as Ht. cbv zeta in Ht.
    destruct (push_turn r (x :: d)) as [r1 rest]. cbn [fst snd] in Ht.
    destruct Ht as (Hl1 & Hs1 & He1 & Hn1 & Hrest & Hc1 & Hlen).
    set (len := Nat.min (cap - g_end r) (length (x :: d))) in *.
    assert (Hrl : length rest = length (x :: d) - len) by (rewrite Hrest, skipn_length; reflexivity).
    assert (IHr := IH r1 rest Hl1 Hs1 He1 ltac:(intro Hx; rewrite Hn1 in Hx; discriminate Hx)).
    cbv zeta in IHr.
    destruct IHr as (A1 & A2 & A3 & A4 & A5).
    + cbn [length] in *. lia.
    + rewrite Hc1, app_length, firstn_length. cbn [length] in *. unfold len in *. lia.
    + repeat split; try assumption.
      rewrite A5, Hc1, <- app_assoc, Hrest. f_equal. apply firstn_skipn.
Qed.

(** a push that fits appends to the queue *)
Theorem ring_push_fits r data :
  ring_wf r -> length (ring_contents r) + length data <= cap ->
  ring_wf (ring_push cap r data) /\ ring_contents (ring_push cap r data) = ring_contents r ++ data.
Proof.
  intros Hwf Hfit. destruct (resize_wf r Hwf) as (Hl & Hs & He & Hn & Hc). cbv zeta in *.
  unfold ring_push.
  pose proof (push_loop_fits (S (length data)) _ data Hl Hs He Hn ltac:(lia)) as Hp. cbv zeta in Hp.
  rewrite Hc in Hp. destruct (Hp Hfit) as (A1 & A2 & A3 & A4 & A5).
  split; [right; repeat split; assumption|exact A5].
Qed.

(** one block copy of a pop *)
Lemma pop_turn_spec r want :
  length (g_buf r) = cap -> g_start r < cap -> g_end r < cap -> g_ne r = true -> 1 <= want ->
  let r1 := fst (pop_turn r want) in
  let out := snd (pop_turn r want) in
  length (g_buf r1) = cap /\ g_start r1 < cap /\ g_end r1 < cap /\ (g_ne r1 = false -> g_start r1 = g_end r1) /\
  1 <= length out /\ length out <= want /\
  ring_contents r = out ++ ring_contents r1 /\
  (length out < want -> g_ne r1 = true -> length out = cap - g_start r /\ g_start r1 = 0).
Proof.
  intros Hl Hs He Hne Hw. cbv zeta. unfold pop_turn. rewrite Hl.
  set (upto := if Nat.ltb (g_start r) (g_end r) then g_end r else cap).
  assert (Hup : g_start r < upto <= cap) by (unfold upto; destruct (Nat.ltb_spec (g_start r) (g_end r)); lia).
  set (len := Nat.min (upto - g_start r) want).
  assert (Hlen : 1 <= len <= want /\ g_start r + len <= upto) by (unfold len; lia).
  cbn [fst snd g_wrap g_buf g_start g_end g_ne]. rewrite Hl.
  assert (Hout : firstn len (skipn (g_start r) (g_buf r)) = slice (g_buf r) (g_start r) (g_start r + len)).
  { unfold slice. f_equal. lia. }
  rewrite Hout.
  assert (He' : (if Nat.eqb (g_end r) cap then 0 else g_end r) = g_end r) by (destruct (Nat.eqb_spec (g_end r) cap); lia).
  rewrite He'.
  split; [reflexivity|].
  split; [destruct (Nat.eqb_spec (g_start r + len) cap); lia|].
  split; [assumption|].
  split.
  { destruct (Nat.eqb_spec (if Nat.eqb (g_start r + len) cap then 0 else g_start r + len) (g_end r)); [auto|].
    rewrite Hne. discriminate. }
  rewrite slice_length by lia.
  split; [lia|]. split; [lia|].
  split.
  - unfold ring_contents. cbn [g_buf g_start g_end g_ne]. rewrite Hne, Hl.
    destruct (Nat.ltb_spec (g_start r) (g_end r)) as [Hse|Hse]; unfold upto in *.
    + destruct (Nat.ltb_spec (g_start r) (g_end r)); [|lia].
      destruct (Nat.eqb_spec (g_start r + len) cap); [lia|].
      destruct (Nat.eqb_spec (g_start r + len) (g_end r)) as [E|E].
      * rewrite app_nil_r, E. reflexivity.
      * destruct (Nat.ltb_spec (g_start r + len) (g_end r)); [|lia].
        apply slice_split; lia.
    + destruct (Nat.ltb_spec (g_start r) (g_end r)); [lia|].
      destruct (Nat.eqb_spec (g_start r + len) cap) as [Ew|Ew].
      * rewrite Ew. destruct (Nat.eqb_spec 0 (g_end r)) as [E0|E0].
        -- rewrite <- E0, slice_nil, !app_nil_r. reflexivity.
        -- destruct (Nat.ltb_spec 0 (g_end r)); [|lia]. reflexivity.
      * destruct (Nat.eqb_spec (g_start r + len) (g_end r)); [lia|].
        destruct (Nat.ltb_spec (g_start r + len) (g_end r)); [lia|].
        rewrite app_assoc. f_equal. apply slice_split; lia.
  - intros Hshort Hne1. unfold len, upto in *.
    destruct (Nat.ltb_spec (g_start r) (g_end r)).
    + (* the block ends at [end]: the ring would be empty *)
      exfalso. assert (E : g_start r + Nat.min (g_end r - g_start r) want = g_end r) by lia.
      rewrite E in Hne1. destruct (Nat.eqb_spec (g_end r) cap); [lia|].
      rewrite Nat.eqb_refl in Hne1. discriminate.
    + split; [lia|]. destruct (Nat.eqb_spec (g_start r + Nat.min (cap - g_start r) want) cap); [reflexivity|lia].
Qed.

Lemma pop_loop_spec fuel : forall r want,
  ring_wf r -> want < fuel ->
  let r' := fst (pop_loop fuel r want) in
  let out := snd (pop_loop fuel r want) in
  ring_wf r' /\ out = firstn want (ring_contents r) /\ ring_contents r' = skipn want (ring_contents r).
Proof.
  induction fuel as [|f IH]; intros r want Hwf Hf; [lia|].
  cbn [pop_loop]. destruct (Nat.ltb_spec 0 want) as [Hw|Hw]; cbn [andb].
  2:{ assert (want = 0) by lia. subst want. cbn [fst snd firstn skipn]. auto. }
  destruct (g_ne r) eqn:Hne.
  2:{ cbn [fst snd]. unfold ring_contents. rewrite Hne. rewrite firstn_nil, skipn_nil. auto. }
  destruct Hwf as [(Hb & _ & _ & Hn)|(Hl & Hs & He & Hn)]; [congruence|].
  pose proof (pop_turn_spec r want Hl Hs He Hne Hw) as Ht. cbv zeta in Ht.
  destruct (pop_turn r want) as [r1 out]. cbn [fst snd] in Ht.
  destruct Ht as (Hl1 & Hs1 & He1 & Hn1 & Ho1 & Ho2 & Hc & Hmore).
  assert (Hwf1 : ring_wf r1) by (right; repeat split; assumption).
  pose proof (IH r1 (want - length out) Hwf1 ltac:(lia)) as IHr. cbv zeta in IHr.
  destruct (pop_loop f r1 (want - length out)) as [r2 out2]. cbn [fst snd] in *.
  destruct IHr as (W2 & O2 & C2). split; [assumption|].
  rewrite Hc, O2, C2.
  split.
  - rewrite firstn_app. f_equal. rewrite (firstn_all2 out) by lia. reflexivity.
  - rewrite skipn_app. rewrite (skipn_all2 out) by lia. reflexivity.
Qed.

(** a pop takes from the front of the queue *)
Theorem ring_pop_spec r want :
  ring_wf r ->
  ring_wf (fst (ring_pop r want)) /\
  snd (ring_pop r want) = firstn want (ring_contents r) /\
  ring_contents (fst (ring_pop r want)) = skipn want (ring_contents r).
Proof. intro H. unfold ring_pop. apply (pop_loop_spec (S want) r want H). lia. Qed.

Lemma ring_new_wf : ring_wf ring_new /\ ring_contents ring_new = [].
Proof. split; [left; repeat split|reflexivity]. Qed.

Lemma ring_clear_spec r : ring_wf r -> ring_wf (ring_clear r) /\ ring_contents (ring_clear r) = [].
Proof.
  intros [(Hb & _)|(Hl & _)]; (split; [|reflexivity]); unfold ring_clear.
  - left. repeat split. assumption.
  - right. cbn [g_buf g_start g_end g_ne]. repeat split; try assumption; lia.
Qed.

(** [free] is what the BTP model computes on the queue *)
Lemma ring_free_spec r : ring_wf r -> ring_free cap r = cap - length (ring_contents r).
Proof. intro H. unfold ring_free. rewrite ring_len_contents by assumption. reflexivity. Qed.

End RingFacts.
