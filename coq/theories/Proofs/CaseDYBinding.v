(** C01, Dolev-Yao part: origin of the TBE2 / TBE3 ciphertexts and of the resumption MICs (the unforgeability hypotheses of the partial theorems, derived), secrecy along the run, the full binding theorems. *)
From Coq Require Import ZifyN ZifyBool.
From RsM Require Import Lib.MachInt Model.Cert Model.CertSpec Model.Case Model.CaseSpec Model.CaseDY
  Proofs.CertTheorems Proofs.CaseFacts Proofs.CaseResponder Proofs.CaseInitiator Proofs.CaseBinding Proofs.CaseDYFacts.
From RsM Require Import Proofs.CaseDYOutputs.
Open Scope N_scope.
Arguments N.eqb : simpl never.
Arguments N.add : simpl never.

Ltac split_or H tac :=
  lazymatch type of H with
  | False => destruct H
  | ?A \/ ?B => let H1 := fresh "Hs" in destruct H as [H1|H1]; [split_or H1 tac|split_or H1 tac]
  | @eq term _ _ => first [discriminate H | tac H]
  | _ => tac H
  end.

Lemma find_field_in : forall tag l f, find_field tag l = Some f -> In f l.
Proof.
  induction l as [|x r IH]; cbn; intros f H; [discriminate|].
  destruct (fd_tag x =? tag); [inversion H; auto|auto].
Qed.

Lemma get_opt_in_vals : forall m tag k v, get_opt m tag k = Ok (Some v) -> In v (msg_vals m).
Proof.
  intros m tag k v H. unfold get_opt in H. destruct (find_field tag (m_fields m)) as [f|] eqn:E; [|discriminate].
  destruct (kind_eqb (fd_kind f) k); [|discriminate]. inversion H; subst.
  unfold msg_vals. apply in_map. eapply find_field_in; eassumption.
Qed.

Lemma get_req_in_vals : forall m tag k v, get_req m tag k = Ok v -> In v (msg_vals m).
Proof.
  intros m tag k v H. unfold get_req, bind in H. destruct (get_opt m tag k) as [[x|]| |] eqn:E; try discriminate.
  inversion H; subst. eapply get_opt_in_vals; eassumption.
Qed.

Lemma parse_sigma1_vals : forall m q, parse_sigma1 m = Ok q ->
  In (g1_random q) (msg_vals m) /\ In (g1_pub q) (msg_vals m) /\
  (forall x, g1_rid q = Some x -> In x (msg_vals m)) /\ (forall x, g1_mic q = Some x -> In x (msg_vals m)).
Proof.
  intros m q H. unfold parse_sigma1, bind in H.
  destruct (get_req m 1 KBytes) eqn:E1; try discriminate.
  destruct (get_req m 2 KUint) eqn:E2; try discriminate.
  destruct (get_req m 3 KBytes) eqn:E3; try discriminate.
  destruct (get_req m 4 KBytes) eqn:E4; try discriminate.
  destruct (get_opt m 5 KStruct) eqn:E5; try discriminate.
  destruct (get_opt m 6 KBytes) eqn:E6; try discriminate.
  destruct (get_opt m 7 KBytes) eqn:E7; try discriminate.
  inversion H; subst; cbn.
  repeat split; try (eapply get_req_in_vals; eassumption).
  - intros x ->. eapply get_opt_in_vals; eassumption.
  - intros x ->. eapply get_opt_in_vals; eassumption.
Qed.

Lemma aead_ne_dh : forall k n pt sk pk, TAead k n pt <> dh sk pk.
Proof.
  intros. unfold dh. destruct sk; try discriminate. destruct pk; try discriminate. destruct pk; discriminate.
Qed.

Lemma sub_aead_dh : forall k n pt sk pk, sub (TAead k n pt) (dh sk pk) -> sub (TAead k n pt) sk \/ sub (TAead k n pt) pk.
Proof.
  intros k n pt sk pk H. apply sub_dh in H. destruct H as [H|H]; [exfalso; eapply aead_ne_dh; eassumption|exact H].
Qed.

Lemma sub_icac_term : forall c i, sub c (icac_term i) -> c = icac_term i.
Proof. intros c [i|] H; cbn in H; destruct H as [H|[]]; exact H. Qed.

Section World.
Variables (K0 : knowledge) (SK : list N) (ipk : N) (fa : fabric) (r : dy_run).
Hypothesis W : dy_world K0 SK ipk fa r.

Let a := dr_a r.
Let b := dr_b r.
Let fra := dr_fra r.
Let frb := dr_frb r.
Let SN := secret_nonces ipk r.
Let m1 := sigma1_of a fra (dr_fab r) (dr_peer r) fa.
Notation G := (guarded SN SK).

Lemma distinct_facts :
  ipk <> fr_rand fra /\ ipk <> fr_sid fra /\ ipk <> fr_rand frb /\ ipk <> fr_sid frb /\ ipk <> fr_rid frb /\
  fr_eph fra <> fr_rand fra /\ fr_eph fra <> fr_sid fra /\ fr_eph fra <> fr_rand frb /\ fr_eph fra <> fr_sid frb /\ fr_eph fra <> fr_rid frb /\
  fr_eph frb <> fr_rand fra /\ fr_eph frb <> fr_sid fra /\ fr_eph frb <> fr_rand frb /\ fr_eph frb <> fr_sid frb /\ fr_eph frb <> fr_rid frb /\
  fr_rand fra <> fr_rand frb /\ fr_sid fra <> fr_rand frb /\ fr_rand fra <> fr_sid fra.
Proof.
  pose proof (w_distinct _ _ _ _ _ W) as ND. fold fra frb in ND.
  repeat match type of ND with
         | NoDup (_ :: _) => let H := fresh "D" in let H' := fresh "ND" in
                             inversion ND as [|? ? H H']; clear ND; rename H' into ND; cbn [In] in H; subst
         end.
  repeat split; intros E; rewrite E in *; tauto.
Qed.

Lemma run_i1_out :
  io_msgs (run_i1 r) = [m1] /\
  exists c, io_state (run_i1 r) = IAwait2 c /\
    ic_fab c = dr_fab r /\ ic_peer c = dr_peer r /\ ic_eph c = TNonce (fr_eph fra) /\ ic_pub c = TPub (TNonce (fr_eph fra)) /\
    ic_rand c = TNonce (fr_rand fra) /\ ic_s1 c = msg_term m1 /\
    ic_cached c = find_by_peer (n_cache a) (dr_fab r) (dr_peer r) /\
    n_fabrics (io_node (run_i1 r)) = n_fabrics a /\ n_clock (io_node (run_i1 r)) = n_clock a.
Proof. apply init_start_out. exact (w_a_fabric _ _ _ _ _ W). Qed.

Lemma m1_vals : forall v, In v (msg_vals m1) ->
  v = TNonce (fr_rand fra) \/ v = TNonce (fr_sid fra) \/
  v = THmac (TNonce ipk) (TPair (TNonce (fr_rand fra)) (TPair (root_pub fa) (TPair (TNum (f_fid fa)) (TNum (dr_peer r))))) \/
  v = TPub (TNonce (fr_eph fra)) \/
  exists x, find_by_peer (n_cache a) (dr_fab r) (dr_peer r) = Some x /\ In x (n_cache a) /\
            (v = r_rid x \/ v = resume_mic INFO_S1RK NONCE_R1 (r_secret x) (TNonce (fr_rand fra)) (r_rid x)).
Proof.
  intros v H. unfold m1, sigma1_of, msg_vals in H. cbn [m_fields map app In] in H. unfold dest_id in H.
  rewrite (w_ipk _ _ _ _ _ W) in H.
  destruct H as [H|[H|[H|[H|H]]]]; auto.
  right. right. right. right.
  destruct (find_by_peer (n_cache a) (dr_fab r) (dr_peer r)) as [x|] eqn:E; [|destruct H].
  apply find_by_peer_in in E as E'. destruct E' as [Hin _]. exists x. split; [reflexivity|]. split; [exact Hin|].
  cbn [map In fd_val] in H. destruct H as [H|[H|[]]]; auto.
Qed.

Lemma m1_guarded : forall v, In v (msg_vals m1) -> G v.
Proof.
  intros v H. pose proof distinct_facts as D. apply m1_vals in H.
  destruct H as [->|[->|[->|[->|(x & Hfp & Hin & [->| ->])]]]]; cbn [guarded]; auto.
  - unfold SN, secret_nonces. cbn [In]. fold fra frb. intuition congruence.
  - unfold SN, secret_nonces. cbn [In]. fold fra frb. intuition congruence.
  - apply (w_a_cache _ _ _ _ _ W x Hin).
  - unfold resume_mic. cbn [guarded]. auto.
Qed.

Lemma m1_mentions_rand : mentions (fr_rand fra) (msg_term m1).
Proof.
  apply mentions_msg_term. exists (TNonce (fr_rand fra)). split; [|reflexivity].
  unfold m1, sigma1_of, msg_vals. cbn. auto.
Qed.

Lemma m1_not_mentions_randb : forall v, In v (msg_vals m1) -> ~ mentions (fr_rand frb) v.
Proof.
  intros v H. pose proof distinct_facts as D. apply m1_vals in H.
  destruct H as [->|[->|[->|[->|(x & Hfp & Hin & [->| ->])]]]]; cbn [mentions root_pub resume_mic resume_key]; try (intuition congruence).
  - apply (w_a_cache _ _ _ _ _ W x Hin).
  - destruct (w_a_cache _ _ _ _ _ W x Hin) as (_ & _ & _ & H1 & H2). intuition congruence.
Qed.

(** a ciphertext under an IPK-derived key that mentions the initiator's fresh random is in no field of
    the initiator's own Sigma1, unless it is the Resume1MIC *)
Lemma not_in_m1 : forall k n pt v, In v (msg_vals m1) -> mentions (fr_rand fra) (TAead k n pt) ->
  n <> TNum NONCE_R1 -> ~ sub (TAead k n pt) v.
Proof.
  intros k n pt v H Hm Hn Hs. apply m1_vals in H.
  destruct H as [->|[->|[->|[->|(x & Hfp & Hin & [->| ->])]]]].
  - cbn [sub] in Hs. split_or Hs ltac:(fun _ => idtac).
  - cbn [sub] in Hs. split_or Hs ltac:(fun _ => idtac).
  - unfold root_pub in Hs. cbn [sub] in Hs. split_or Hs ltac:(fun _ => idtac).
  - cbn [sub] in Hs. split_or Hs ltac:(fun _ => idtac).
  - destruct (w_a_cache _ _ _ _ _ W x Hin) as (_ & H1 & _). eapply not_sub_fresh; eassumption.
  - destruct (w_a_cache _ _ _ _ _ W x Hin) as (_ & H1 & H2 & _).
    unfold resume_mic, resume_key in Hs. cbn [sub] in Hs.
    split_or Hs ltac:(fun H => first [ (inversion H; congruence)
                                     | (eapply not_sub_fresh; [exact Hm|exact H1|exact H])
                                     | (eapply not_sub_fresh; [exact Hm|exact H2|exact H]) ]).
Qed.

Lemma know1_guarded : forall t, know1 K0 r t -> G t.
Proof.
  intros t H. unfold know1 in H. destruct run_i1_out as [E _]. rewrite E in H. cbn [msgs_vals flat_map] in H.
  rewrite app_nil_r in H. destruct H as [H|H]; [apply (w_K0_guarded _ _ _ _ _ W); exact H|apply m1_guarded; exact H].
Qed.

Lemma ipk_key_unguarded : forall x y z, ~ G (THkdf (TPair (TNonce ipk) x) y z).
Proof. intros x y z H. cbn [guarded] in H. destruct H as [[H _] _]. apply H. unfold SN, secret_nonces. left. reflexivity. Qed.

(** CLAIM: a ciphertext under an IPK-derived key that mentions the initiator's fresh random (and is not
    a Resume1MIC) occurs in nothing the attacker can derive before the responder answered *)
Lemma not_derivable_know1 : forall x y z n pt t,
  mentions (fr_rand fra) (TAead (THkdf (TPair (TNonce ipk) x) y z) n pt) -> n <> TNum NONCE_R1 ->
  derivable (know1 K0 r) t -> ~ sub (TAead (THkdf (TPair (TNonce ipk) x) y z) n pt) t.
Proof.
  intros x y z n pt t Hm Hn Hd Hs.
  destruct (aead_origin SN SK (know1 K0 r) know1_guarded t Hd _ _ _ (ipk_key_unguarded x y z) Hs) as (t0 & Hk & Hs0).
  unfold know1 in Hk. destruct run_i1_out as [E _]. rewrite E in Hk. cbn [msgs_vals flat_map] in Hk.
  rewrite app_nil_r in Hk. destruct Hk as [Hk|Hk].
  - destruct (w_K0_fresh _ _ _ _ _ W t0 Hk) as [Hf _]. eapply not_sub_fresh; eassumption.
  - eapply not_in_m1; eassumption.
Qed.

(* ---------------------------------------------------------------- the responder's first answer *)

Lemma pub_ids_not_secret :
  ~ In (fr_rand fra) SN /\ ~ In (fr_sid fra) SN /\ ~ In (fr_rand frb) SN /\ ~ In (fr_sid frb) SN /\ ~ In (fr_rid frb) SN.
Proof.
  pose proof distinct_facts as D. unfold SN, secret_nonces. cbn [In]. fold fra frb. intuition congruence.
Qed.

Lemma r1_guarded : forall b' m' L, r1_shape b' frb m' L -> forall v, In v (msgs_vals L) -> G v.
Proof.
  intros b' m' L HL v Hv. pose proof pub_ids_not_secret as (P1 & P2 & P3 & P4 & P5).
  destruct HL as [|code|q x Hq Hin Hmic1|q f Hq Hd Hp]; cbn [msgs_vals flat_map msg_vals m_fields map app In fd_val status_msg build_sigma2] in Hv.
  - destruct Hv.
  - destruct Hv as [<-|[<-|[]]]; exact I.
  - destruct Hv as [<-|[<-|[<-|[<-|[]]]]]; cbn [guarded]; auto. unfold resume_mic. cbn [guarded]. auto.
  - destruct Hv as [<-|[<-|[<-|[<-|[<-|[]]]]]]; cbn [guarded]; auto.
    intros _. unfold tbe2_plain, tbs. cbn [guarded].
    destruct (g1_pub q); try discriminate Hp. destruct (f_icac f); cbn [icac_term guarded]; auto 10.
Qed.

Lemma know2_guarded : forall t, know2 K0 r t -> G t.
Proof.
  intros t [H|H]; [apply know1_guarded; exact H|].
  eapply r1_guarded; [apply resp_first_shape|exact H].
Qed.

(** ORIGIN of a Sigma2-style ciphertext (nonce NONCE_S2) under an IPK-derived key that mentions the
    initiator's fresh random: among the responder's first answer it can only be THE TBE2 of a Sigma2. *)
Lemma r1_origin : forall L x y z pt v,
  r1_shape b frb (dr_m1 r) L -> msg_derivable (know1 K0 r) (dr_m1 r) ->
  mentions (fr_rand fra) (TAead (THkdf (TPair (TNonce ipk) x) y z) (TNum NONCE_S2) pt) ->
  In v (msgs_vals L) -> sub (TAead (THkdf (TPair (TNonce ipk) x) y z) (TNum NONCE_S2) pt) v ->
  exists q f, parse_sigma1 (dr_m1 r) = Ok q /\
    get_by_dest_id (n_fabrics b) (g1_random q) (g1_dest q) = Some f /\
    L = [build_sigma2 f frb (g1_pub q) (msg_term (dr_m1 r))] /\
    get_req (build_sigma2 f frb (g1_pub q) (msg_term (dr_m1 r))) 4 KBytes
      = Ok (TAead (THkdf (TPair (TNonce ipk) x) y z) (TNum NONCE_S2) pt).
Proof.
  intros L x y z pt v HL D1 Hm Hv Hs.
  assert (Hn : TNum NONCE_S2 <> TNum NONCE_R1) by discriminate.
  assert (Claim : forall t, derivable (know1 K0 r) t ->
            ~ sub (TAead (THkdf (TPair (TNonce ipk) x) y z) (TNum NONCE_S2) pt) t).
  { intros t Dt. apply not_derivable_know1; assumption. }
  destruct HL as [|code|q x0 Hq Hin Hmic1|q f Hq Hd Hp];
    cbn [msgs_vals flat_map msg_vals m_fields map app In fd_val status_msg build_sigma2] in Hv.
  - destruct Hv.
  - exfalso. destruct Hv as [<-|[<-|[]]]; cbn [sub] in Hs; split_or Hs ltac:(fun _ => idtac).
  - exfalso. destruct (parse_sigma1_vals _ _ Hq) as (Vr & Vp & _).
    destruct (w_b_cache _ _ _ _ _ W x0 Hin) as [Fs _].
    destruct Hv as [<-|[<-|[<-|[<-|[]]]]]; unfold resume_mic, resume_key in Hs; cbn [sub] in Hs;
      split_or Hs ltac:(fun H => first
        [ discriminate H
        | (eapply (Claim (g1_random q)); [apply D1; exact Vr|exact H])
        | (eapply not_sub_fresh; [exact Hm|exact Fs|exact H]) ]).
  - destruct (parse_sigma1_vals _ _ Hq) as (Vr & Vp & _).
    apply get_by_dest_id_in in Hd as Hd'. destruct Hd' as [Hfin _].
    destruct (w_b_fabrics _ _ _ _ _ W f Hfin) as [Ff _].
    destruct Hv as [<-|[<-|[<-|[<-|[<-|[]]]]]]; try (exfalso; cbn [sub] in Hs; split_or Hs ltac:(fun _ => idtac); fail).
    unfold s2k, tbe2_plain, tbs, h1 in Hs. cbn [sub] in Hs.
    split_or Hs ltac:(fun H => try solve
      [ discriminate H
      | (exfalso; eapply not_sub_fresh; [exact Hm|exact Ff|exact H])
      | (exfalso; apply sub_msg_term in H; destruct H as (w & Hw & Hsw); eapply (Claim w); [apply D1; exact Hw|exact Hsw])
      | (exfalso; apply sub_aead_dh in H; destruct H as [H|H];
         [cbn [sub] in H; split_or H ltac:(fun _ => idtac)|eapply (Claim (g1_pub q)); [apply D1; exact Vp|exact H]])
      | (exfalso; eapply (Claim (g1_pub q)); [apply D1; exact Vp|exact H])
      | (exfalso; apply sub_icac_term in H; destruct (f_icac f); discriminate H) ]).
    exists q, f. split; [exact Hq|]. split; [exact Hd|]. split; [reflexivity|].
    match goal with E : TAead _ _ _ = TAead _ _ _ |- _ => rewrite E end. reflexivity.
Qed.

Lemma in_know2_cases : forall t, know2 K0 r t ->
  K0 t \/ In t (msg_vals m1) \/ In t (msgs_vals (ro_msgs (run_r1 r))).
Proof.
  intros t [[H|H]|H]; auto. destruct run_i1_out as [E _]. rewrite E in H. cbn [msgs_vals flat_map] in H.
  rewrite app_nil_r in H. auto.
Qed.

(** U2, DERIVED: the TBE2 ciphertext the initiator decrypts under ITS Sigma2 key was put on the wire by the
    responder run, as the TBE2 of its Sigma2. *)
Theorem tbe2_origin : forall m2' rr rpub sh pt,
  msg_derivable (know1 K0 r) (dr_m1 r) -> msg_derivable (know2 K0 r) m2' ->
  get_req m2' 4 KBytes = Ok (TAead (s2k (TNonce ipk) rr rpub (h1 (msg_term m1)) sh) (TNum NONCE_S2) pt) ->
  exists q f, parse_sigma1 (dr_m1 r) = Ok q /\
    get_by_dest_id (n_fabrics b) (g1_random q) (g1_dest q) = Some f /\
    ro_msgs (run_r1 r) = [build_sigma2 f frb (g1_pub q) (msg_term (dr_m1 r))] /\
    get_req (build_sigma2 f frb (g1_pub q) (msg_term (dr_m1 r))) 4 KBytes
      = Ok (TAead (s2k (TNonce ipk) rr rpub (h1 (msg_term m1)) sh) (TNum NONCE_S2) pt).
Proof.
  intros m2' rr rpub sh pt D1 D2 H4. unfold s2k in *.
  assert (Hm : mentions (fr_rand fra)
                 (TAead (THkdf (TPair (TNonce ipk) (TPair rr (TPair rpub (h1 (msg_term m1))))) sh (TNum INFO_S2K)) (TNum NONCE_S2) pt)).
  { cbn [mentions]. left. left. right. right. right. unfold h1. cbn [mentions]. left. apply m1_mentions_rand. }
  assert (Dc := D2 _ (get_req_in_vals _ _ _ _ H4)).
  destruct (aead_origin SN SK _ know2_guarded _ Dc _ _ _ (ipk_key_unguarded _ _ _) (sub_refl _)) as (t0 & Hk & Hs).
  apply in_know2_cases in Hk. destruct Hk as [Hk|[Hk|Hk]].
  - exfalso. destruct (w_K0_fresh _ _ _ _ _ W t0 Hk) as [Hf _]. eapply not_sub_fresh; eassumption.
  - exfalso. eapply not_in_m1; try eassumption. discriminate.
  - eapply r1_origin; try eassumption. apply resp_first_shape.
Qed.

(* ---------------------------------------------------------------- the initiator's answer to Sigma2 *)

Lemma i2_guarded : forall st c m2 L, i2_shape st c m2 L -> (exists e, ic_pub c = TPub e) ->
  forall v, In v (msgs_vals L) -> G v.
Proof.
  intros st c m2 L HL [e He] v Hv.
  destruct HL as [|code|f rr rpub noc icac sig rid cats Hgf H1 H3 Hp H4 Hcv Hn Hc Hsig];
    cbn [msgs_vals flat_map msg_vals m_fields map app In fd_val status_msg build_sigma3] in Hv.
  - destruct Hv.
  - destruct Hv as [<-|[<-|[]]]; exact I.
  - destruct Hv as [<-|[]]. cbn [guarded]. intros _. unfold tbe3_plain, tbs. rewrite He. cbn [guarded].
    destruct rpub; try discriminate Hp. destruct (f_icac f); cbn [icac_term guarded]; auto 10.
Qed.

Lemma run_i2_shape : exists c, io_state (run_i1 r) = IAwait2 c /\
  i2_shape (io_node (run_i1 r)) c (dr_m2 r) (io_msgs (run_i2 r)) /\
  ic_fab c = dr_fab r /\ ic_peer c = dr_peer r /\ ic_eph c = TNonce (fr_eph fra) /\ ic_pub c = TPub (TNonce (fr_eph fra)) /\
  ic_s1 c = msg_term m1 /\ n_fabrics (io_node (run_i1 r)) = n_fabrics a /\ n_clock (io_node (run_i1 r)) = n_clock a.
Proof.
  destruct run_i1_out as (_ & c & Hst & Hf & Hp & He & Hpub & _ & Hs1 & _ & Hfab & Hclk).
  exists c. split; [exact Hst|]. split.
  - unfold run_i2. rewrite Hst. apply init_step_shape.
  - auto 10.
Qed.

Lemma know3_guarded : forall t, know3 K0 r t -> G t.
Proof.
  intros t [H|H]; [apply know2_guarded; exact H|].
  destruct run_i2_shape as (c & _ & Hsh & _ & _ & _ & Hpub & _).
  eapply i2_guarded; [exact Hsh|eexists; exact Hpub|exact H].
Qed.

Section Sigma3Origin.
(** a Sigma3-style ciphertext (nonce NONCE_S3) under an IPK-derived key that mentions the RESPONDER's fresh random *)
Variables (x y z pt : term).
Let c3 := TAead (THkdf (TPair (TNonce ipk) x) y z) (TNum NONCE_S3) pt.
Hypothesis Hm : mentions (fr_rand frb) c3.
Hypothesis D1 : msg_derivable (know1 K0 r) (dr_m1 r).
Hypothesis D2 : msg_derivable (know2 K0 r) (dr_m2 r).

Lemma c3_not_in_know1 : forall t, know1 K0 r t -> ~ sub c3 t.
Proof.
  intros t Hk. unfold know1 in Hk. destruct run_i1_out as [E _]. rewrite E in Hk. cbn [msgs_vals flat_map] in Hk.
  rewrite app_nil_r in Hk. destruct Hk as [Hk|Hk].
  - destruct (w_K0_fresh _ _ _ _ _ W t Hk) as [_ Hf]. eapply not_sub_fresh; eassumption.
  - eapply not_sub_fresh; [exact Hm|]. apply m1_not_mentions_randb. exact Hk.
Qed.

Lemma c3_claim1 : forall t, derivable (know1 K0 r) t -> ~ sub c3 t.
Proof.
  intros t Dt Hs.
  destruct (aead_origin SN SK _ know1_guarded t Dt _ _ _ (ipk_key_unguarded x y z) Hs) as (t0 & Hk & Hs0).
  eapply c3_not_in_know1; eassumption.
Qed.

Lemma c3_not_in_r1 : forall L v, r1_shape b frb (dr_m1 r) L -> In v (msgs_vals L) -> ~ sub c3 v.
Proof.
  intros L v HL Hv Hs. unfold c3 in Hs.
  destruct HL as [|code|q x0 Hq Hin Hmic1|q f Hq Hd Hp];
    cbn [msgs_vals flat_map msg_vals m_fields map app In fd_val status_msg build_sigma2] in Hv.
  - destruct Hv.
  - destruct Hv as [<-|[<-|[]]]; cbn [sub] in Hs; split_or Hs ltac:(fun _ => idtac).
  - destruct (parse_sigma1_vals _ _ Hq) as (Vr & Vp & _).
    destruct (w_b_cache _ _ _ _ _ W x0 Hin) as [_ Fs].
    destruct Hv as [<-|[<-|[<-|[<-|[]]]]]; unfold resume_mic, resume_key in Hs; cbn [sub] in Hs;
      split_or Hs ltac:(fun H => first
        [ discriminate H
        | (eapply (c3_claim1 (g1_random q)); [apply D1; exact Vr|exact H])
        | (eapply not_sub_fresh; [exact Hm|exact Fs|exact H]) ]).
  - destruct (parse_sigma1_vals _ _ Hq) as (Vr & Vp & _).
    apply get_by_dest_id_in in Hd as Hd'. destruct Hd' as [Hfin _].
    destruct (w_b_fabrics _ _ _ _ _ W f Hfin) as [_ Ff].
    destruct Hv as [<-|[<-|[<-|[<-|[<-|[]]]]]]; try (cbn [sub] in Hs; split_or Hs ltac:(fun _ => idtac); fail).
    unfold s2k, tbe2_plain, tbs, h1 in Hs. cbn [sub] in Hs.
    split_or Hs ltac:(fun H => solve
      [ discriminate H
      | (eapply not_sub_fresh; [exact Hm|exact Ff|exact H])
      | (apply sub_msg_term in H; destruct H as (w & Hw & Hsw); eapply (c3_claim1 w); [apply D1; exact Hw|exact Hsw])
      | (apply sub_aead_dh in H; destruct H as [H|H];
         [cbn [sub] in H; split_or H ltac:(fun _ => idtac)|eapply (c3_claim1 (g1_pub q)); [apply D1; exact Vp|exact H]])
      | (eapply (c3_claim1 (g1_pub q)); [apply D1; exact Vp|exact H])
      | (apply sub_icac_term in H; destruct (f_icac f); discriminate H) ]).
Qed.

Lemma c3_claim2 : forall t, derivable (know2 K0 r) t -> ~ sub c3 t.
Proof.
  intros t Dt Hs.
  destruct (aead_origin SN SK _ know2_guarded t Dt _ _ _ (ipk_key_unguarded x y z) Hs) as (t0 & [Hk|Hk] & Hs0).
  - eapply c3_not_in_know1; eassumption.
  - eapply c3_not_in_r1; [apply resp_first_shape|exact Hk|exact Hs0].
Qed.

(** among the initiator's answer to the second message the ciphertext can only be THE TBE3 of a Sigma3,
    which the initiator sends only after it accepted that message as Sigma2 *)
Lemma c3_in_i2 : forall c L v, i2_shape (io_node (run_i1 r)) c (dr_m2 r) L ->
  ic_fab c = dr_fab r -> ic_pub c = TPub (TNonce (fr_eph fra)) -> ic_eph c = TNonce (fr_eph fra) -> ic_s1 c = msg_term m1 ->
  n_fabrics (io_node (run_i1 r)) = n_fabrics a ->
  In v (msgs_vals L) -> sub c3 v ->
  exists rr rpub noc icac sig rid cats,
    L = [build_sigma3 fa (TPub (TNonce (fr_eph fra))) rpub (msg_term m1) (msg_term (dr_m2 r)) (dh (TNonce (fr_eph fra)) rpub)] /\
    get_req (dr_m2 r) 1 KBytes = Ok rr /\ get_req (dr_m2 r) 3 KBytes = Ok rpub /\
    get_req (dr_m2 r) 4 KBytes = Ok (TAead (s2k (TNonce ipk) rr rpub (h1 (msg_term m1)) (dh (TNonce (fr_eph fra)) rpub))
                                          (TNum NONCE_S2) (tbe2_plain noc icac sig rid)) /\
    case_valid (n_clock (io_node (run_i1 r))) (f_fid fa) (f_root fa) noc icac /\
    get_node_id noc = Some (ic_peer c) /\ cats_of noc = Ok cats /\
    sig = TSig (TKey (pubkey noc)) (tbs noc icac rpub (TPub (TNonce (fr_eph fra)))) /\
    get_req (build_sigma3 fa (TPub (TNonce (fr_eph fra))) rpub (msg_term m1) (msg_term (dr_m2 r)) (dh (TNonce (fr_eph fra)) rpub)) 1 KBytes = Ok c3.
Proof.
  intros c L v HL Hcf Hcpub Hce Hcs1 Hfab Hv Hs. unfold c3 in Hs.
  destruct HL as [|code|f rr rpub noc icac sig rid cats Hgf H1 H3 Hp H4 Hcv Hn Hc Hsig];
    cbn [msgs_vals flat_map msg_vals m_fields map app In fd_val status_msg build_sigma3] in Hv.
  - destruct Hv.
  - exfalso. destruct Hv as [<-|[<-|[]]]; cbn [sub] in Hs; split_or Hs ltac:(fun _ => idtac).
  - pose proof (w_a_fabric _ _ _ _ _ W) as Wf. fold a in Wf.
    rewrite Hcf, Hfab, Wf in Hgf. inversion Hgf; subst f; clear Hgf.
    rewrite (w_ipk _ _ _ _ _ W), Hcpub, Hce, Hcs1 in *.
    assert (Vp : In rpub (msg_vals (dr_m2 r))) by (eapply get_req_in_vals; exact H3).
    destruct Hv as [<-|[]].
    unfold s3k, tbe3_plain, tbs, h12 in Hs. cbn [sub] in Hs.
    split_or Hs ltac:(fun H => try solve
      [ discriminate H
      | (exfalso; apply sub_msg_term in H; destruct H as (w & Hw & Hsw);
         eapply not_sub_fresh; [exact Hm|apply m1_not_mentions_randb; exact Hw|exact Hsw])
      | (exfalso; apply sub_msg_term in H; destruct H as (w & Hw & Hsw); eapply (c3_claim2 w); [apply D2; exact Hw|exact Hsw])
      | (exfalso; apply sub_aead_dh in H; destruct H as [H|H];
         [cbn [sub] in H; split_or H ltac:(fun _ => idtac)|eapply (c3_claim2 rpub); [apply D2; exact Vp|exact H]])
      | (exfalso; eapply (c3_claim2 rpub); [apply D2; exact Vp|exact H])
      | (exfalso; apply sub_icac_term in H; destruct (f_icac fa); discriminate H) ]).
    exists rr, rpub, noc, icac, sig, rid, cats.
    split; [reflexivity|]. split; [exact H1|]. split; [exact H3|]. split; [exact H4|].
    split; [exact Hcv|]. split; [exact Hn|]. split; [exact Hc|]. split; [exact Hsig|].
    unfold c3. match goal with E : TAead _ _ _ = TAead _ _ _ |- _ => rewrite E end.
    rewrite build_sigma3_tbe, (w_ipk _ _ _ _ _ W). reflexivity.
Qed.

End Sigma3Origin.

Lemma in_know3_cases : forall t, know3 K0 r t ->
  know1 K0 r t \/ In t (msgs_vals (ro_msgs (run_r1 r))) \/ In t (msgs_vals (io_msgs (run_i2 r))).
Proof. intros t [[H|H]|H]; auto. Qed.

(** U3, DERIVED: the TBE3 ciphertext the responder decrypts under ITS Sigma3 key (for a fabric whose IPK is
    the secret one) was put on the wire by the initiator run, as the TBE3 of its Sigma3 - which the initiator
    sends only after it accepted the second message as a Sigma2. *)
Theorem tbe3_origin : forall fb q sh pt,
  f_ipk fb = TNonce ipk ->
  msg_derivable (know1 K0 r) (dr_m1 r) -> msg_derivable (know2 K0 r) (dr_m2 r) -> msg_derivable (know3 K0 r) (dr_m3 r) ->
  get_req (dr_m3 r) 1 KBytes =
    Ok (TAead (s3k (TNonce ipk) (h12 (msg_term (dr_m1 r)) (msg_term (build_sigma2 fb frb (g1_pub q) (msg_term (dr_m1 r))))) sh)
              (TNum NONCE_S3) pt) ->
  exists rr rpub noc icac sig rid cats,
    io_msgs (run_i2 r) = [build_sigma3 fa (TPub (TNonce (fr_eph fra))) rpub (msg_term m1) (msg_term (dr_m2 r)) (dh (TNonce (fr_eph fra)) rpub)] /\
    get_req (dr_m2 r) 1 KBytes = Ok rr /\ get_req (dr_m2 r) 3 KBytes = Ok rpub /\
    get_req (dr_m2 r) 4 KBytes = Ok (TAead (s2k (TNonce ipk) rr rpub (h1 (msg_term m1)) (dh (TNonce (fr_eph fra)) rpub))
                                          (TNum NONCE_S2) (tbe2_plain noc icac sig rid)) /\
    case_valid (n_clock a) (f_fid fa) (f_root fa) noc icac /\
    get_node_id noc = Some (dr_peer r) /\ cats_of noc = Ok cats /\
    sig = TSig (TKey (pubkey noc)) (tbs noc icac rpub (TPub (TNonce (fr_eph fra)))) /\
    get_req (build_sigma3 fa (TPub (TNonce (fr_eph fra))) rpub (msg_term m1) (msg_term (dr_m2 r)) (dh (TNonce (fr_eph fra)) rpub)) 1 KBytes
      = Ok (TAead (s3k (TNonce ipk) (h12 (msg_term (dr_m1 r)) (msg_term (build_sigma2 fb frb (g1_pub q) (msg_term (dr_m1 r))))) sh)
                  (TNum NONCE_S3) pt).
Proof.
  intros fb q sh pt Hipk D1 D2 D3 H1. unfold s3k in *.
  set (kx := h12 (msg_term (dr_m1 r)) (msg_term (build_sigma2 fb frb (g1_pub q) (msg_term (dr_m1 r))))) in *.
  assert (Hm : mentions (fr_rand frb) (TAead (THkdf (TPair (TNonce ipk) kx) sh (TNum INFO_S3K)) (TNum NONCE_S3) pt)).
  { cbn [mentions]. left. left. right. unfold kx, h12. cbn [mentions]. right. left.
    apply mentions_msg_term. exists (TNonce (fr_rand frb)). split; [|reflexivity].
    unfold build_sigma2, msg_vals. cbn. auto. }
  assert (Dc := D3 _ (get_req_in_vals _ _ _ _ H1)).
  destruct (aead_origin SN SK _ know3_guarded _ Dc _ _ _ (ipk_key_unguarded _ _ _) (sub_refl _)) as (t0 & Hk & Hs).
  apply in_know3_cases in Hk. destruct Hk as [Hk|[Hk|Hk]].
  - exfalso. eapply c3_not_in_know1; eassumption.
  - exfalso. eapply c3_not_in_r1; try eassumption. apply resp_first_shape.
  - destruct run_i2_shape as (c & Hst & Hsh & Hcf & Hcp & Hce & Hcpub & Hcs1 & Hfab & Hclk).
    destruct (c3_in_i2 _ _ _ _ Hm D1 D2 c _ t0 Hsh Hcf Hcpub Hce Hcs1 Hfab Hk Hs)
      as (rr & rpub & noc & icac & sig & rid & cats & E & A1 & A3 & A4 & Acv & An & Ac & Asig & Aout).
    exists rr, rpub, noc, icac, sig, rid, cats. rewrite Hclk in Acv. rewrite Hcp in An. auto 12.
Qed.

(* ---------------------------------------------------------------- the last two steps; secrecy of the whole run *)

Ltac break_match :=
  repeat match goal with
         | |- context [match ?x with _ => _ end] => destruct x
         | |- context [if ?x then _ else _] => destruct x
         end.

Lemma resp_sigma3_vals : forall st c m v, In v (msgs_vals (ro_msgs (resp_sigma3 st c m))) -> exists n, v = TNum n.
Proof.
  intros st c m v. unfold resp_sigma3. break_match; cbn [ro_msgs msgs_vals flat_map msg_vals status_msg m_fields map app In fd_val];
    intros H; repeat (destruct H as [<-|H]; [eexists; reflexivity|]); destruct H.
Qed.

Lemma resp_step_guarded : forall st rs m v, In v (msgs_vals (ro_msgs (resp_step st rs frb m))) -> G v.
Proof.
  intros st rs m v H. destruct rs; cbn [resp_step] in H.
  - eapply r1_guarded; [apply resp_first_shape|exact H].
  - apply resp_sigma3_vals in H. destruct H as [n ->]. exact I.
  - unfold resp_finished in H. destruct (_ && _) in H; cbn in H; destruct H.
  - cbn in H. destruct H.
Qed.

Lemma init_step_not_await2 : forall st c m, forall c', io_state (init_step st (IAwait2 c) m) <> IAwait2 c'.
Proof.
  intros st c m c'. cbn [init_step]. unfold init_resume, init_sigma2. break_match; cbn [io_state]; discriminate.
Qed.

Lemma init_step_late_silent : forall st s m, (forall c, s <> IAwait2 c) -> io_msgs (init_step st s m) = [].
Proof.
  intros st s m Hs. destruct s as [c|c2|x y|ok]; cbn [init_step].
  - exfalso. eapply Hs. reflexivity.
  - unfold init_finish. break_match; reflexivity.
  - reflexivity.
  - reflexivity.
Qed.

Lemma run_i3_silent : io_msgs (run_i3 r) = [].
Proof.
  unfold run_i3. apply init_step_late_silent. intros c' E.
  destruct run_i2_shape as (c & Hst & _). unfold run_i2 in E. rewrite Hst in E.
  eapply init_step_not_await2. exact E.
Qed.

(** SECRECY along the whole run: whatever the attacker derives at any point is [guarded] *)
Theorem run_secrecy : forall t, derivable (know5 K0 r) t -> G t.
Proof.
  apply derivable_guarded. intros t [[H|H]|H].
  - apply know3_guarded. exact H.
  - eapply resp_step_guarded. exact H.
  - rewrite run_i3_silent in H. destruct H.
Qed.

Corollary secrets_not_derivable :
  ~ derivable (know5 K0 r) (TNonce ipk) /\
  ~ derivable (know5 K0 r) (TNonce (fr_eph fra)) /\ ~ derivable (know5 K0 r) (TNonce (fr_eph frb)) /\
  (forall k, In k SK -> ~ derivable (know5 K0 r) (TKey k)) /\
  (forall x y z, ~ derivable (know5 K0 r) (THkdf (TPair (TNonce ipk) x) y z)).
Proof.
  repeat split.
  - intros H. apply run_secrecy in H. apply H. unfold SN, secret_nonces. cbn. auto.
  - intros H. apply run_secrecy in H. apply H. unfold SN, secret_nonces. cbn. auto.
  - intros H. apply run_secrecy in H. apply H. unfold SN, secret_nonces. cbn. auto.
  - intros k Hk H. apply run_secrecy in H. apply H. exact Hk.
  - intros x y z H. apply run_secrecy in H. eapply ipk_key_unguarded. exact H.
Qed.

(* ---------------------------------------------------------------- the theorems *)

Lemma app_tail_inj : forall A (l : list A) x y, l ++ [x] = l ++ [y] -> x = y.
Proof. intros A l x y H. apply app_inj_tail in H. tauto. Qed.

Lemma app_tail_neq : forall A (l : list A) x, l ++ [x] <> l.
Proof. intros A l x H. apply (f_equal (@length A)) in H. rewrite app_length in H. cbn in H. lia. Qed.

(** the responder completed by a full handshake: its session is sound in the sense of [C01_responder_sound] *)
Lemma responder_completed_sound : forall sb, node_wf b -> responder_completed r sb ->
  responder_full_sound b frb (dr_m1 r) (dr_m3 r) sb.
Proof.
  intros sb Hwf (Hop & Hs & Hres).
  assert (Hrun : exists out, resp_run b RIdle frb [dr_m1 r; dr_m3 r] = (ro_node (run_r2 r), ro_state (run_r2 r), out)).
  { eexists. reflexivity. }
  destruct Hrun as [out Hrun].
  destruct (responder_run_sound _ _ _ _ _ _ Hwf Hrun) as (_ & _ & Hc).
  destruct Hc as [(E & _)|[(x & E & Hx & _)|[(s & m1' & m3' & rest & rid & sec & f & Hms & E & _ & Hsound & _)|(s & m1' & mf & rest & x & nr & Hms & E & _ & _ & Hopf & _)]]].
  - exfalso. rewrite Hs in E. eapply app_tail_neq. exact E.
  - exfalso. rewrite Hs in E. apply app_tail_inj in E. congruence.
  - rewrite Hs in E. apply app_tail_inj in E. subst s. inversion Hms; subst. exact Hsound.
  - exfalso. inversion Hms; subst. rewrite Hop in Hopf. discriminate.
Qed.

Lemma initiator_completed_sound : node_wf a -> initiator_completed r ->
  exists sa, n_sessions (io_node (run_i3 r)) = n_sessions a ++ [sa] /\
    initiator_full_sound a fra (dr_fab r) (dr_peer r) m1 (dr_m2 r) sa.
Proof.
  intros Hwf Hdone. unfold initiator_completed in Hdone.
  assert (Hrun : exists out, init_run (io_node (init_start a fra (dr_fab r) (dr_peer r)))
                               (io_state (init_start a fra (dr_fab r) (dr_peer r))) [dr_m2 r; dr_mst r]
                             = (io_node (run_i3 r), io_state (run_i3 r), out)).
  { eexists. reflexivity. }
  destruct Hrun as [out Hrun].
  destruct (initiator_run_sound _ _ _ _ _ _ _ _ Hwf Hrun) as (_ & _ & Hc).
  destruct run_i1_out as [Em1 _]. unfold run_i1 in Em1. fold a fra in Em1.
  destruct Hc as [(_ & _ & E)|[(x & E & Hx & _ & Hab & _)|[(s & m1x & m2x & mst & rest & rid & sec & Hm1 & Hms & E & _ & Hsound & _)|(s & m2x & rest & x & nr & _ & _ & E & _)]]].
  - rewrite Hdone in E. discriminate.
  - exfalso. rewrite Hdone in Hab. cbn [init_abort] in Hab. rewrite E in Hab. eapply app_tail_neq. exact Hab.
  - exists s. split; [exact E|]. rewrite Em1 in Hm1. inversion Hm1; subst m1x. inversion Hms; subst. exact Hsound.
  - rewrite Hdone in E. discriminate.
Qed.

(** TRANSCRIPT BINDING, FULL (Dolev-Yao): no unforgeability hypothesis. *)
Theorem transcript_binding : forall sb,
  node_wf a -> node_wf b -> attacker_sends K0 r ->
  initiator_completed r -> responder_completed r sb ->
  exists sa fb q rpub,
    n_sessions (io_node (run_i3 r)) = n_sessions a ++ [sa] /\
    parse_sigma1 (dr_m1 r) = Ok q /\
    get_by_dest_id (n_fabrics b) (g1_random q) (g1_dest q) = Some fb /\
    get_req (dr_m2 r) 3 KBytes = Ok rpub /\
    let m2 := build_sigma2 fb frb (g1_pub q) (msg_term (dr_m1 r)) in
    let m3 := initiator_sigma3 fa fra rpub m1 (dr_m2 r) in
    (* what was sent is what was put on the wire by the two runs *)
    io_msgs (run_i1 r) = [m1] /\ ro_msgs (run_r1 r) = [m2] /\ io_msgs (run_i2 r) = [m3] /\
    (* both ends saw the same Sigma1 and Sigma2; Sigma3 arrived with its encrypted3 element as sent *)
    msg_term (dr_m1 r) = msg_term m1 /\ msg_term (dr_m2 r) = msg_term m2 /\
    get_req (dr_m3 r) 1 KBytes = get_req m3 1 KBytes /\
    (* the two fabrics share the secret IPK; each end is bound to the credentials the other one holds *)
    f_ipk fb = TNonce ipk /\
    s_fab sa = dr_fab r /\ s_peer sa = dr_peer r /\ get_node_id (f_noc fb) = Some (dr_peer r) /\ cats_of (f_noc fb) = Ok (s_cats sa) /\
    s_fab sb = f_idx fb /\ get_node_id (f_noc fa) = Some (s_peer sb) /\ cats_of (f_noc fa) = Ok (s_cats sb) /\
    (* same directional keys crosswise, EXCEPT in the known class: Sigma3 altered outside encrypted3 *)
    ((s_enc sa = s_dec sb /\ s_dec sa = s_enc sb) <-> msg_term (dr_m3 r) = msg_term m3) /\
    (msg_term (dr_m3 r) <> msg_term m3 -> sigma3_alt m3 (dr_m3 r) = true) /\
    (* and nobody else knows them *)
    ~ derivable (know5 K0 r) (s_enc sa) /\ ~ derivable (know5 K0 r) (s_dec sa) /\
    ~ derivable (know5 K0 r) (s_enc sb) /\ ~ derivable (know5 K0 r) (s_dec sb).
Proof.
  intros sb Hwfa Hwfb (D1 & D2 & D3 & D4) Hi Hr.
  pose proof (responder_completed_sound sb Hwfb Hr) as HR.
  destruct (initiator_completed_sound Hwfa Hi) as (sa & Esa & HI).
  pose proof HI as HI0. pose proof HR as HR0.
  destruct HI as (f & rr & rpub & noc & icac & sig & rid & cats & HI). cbn zeta in HI.
  destruct HI as (Hgfa & Hrr & Hrpub & Htbe2 & Hcv & Hnid & Hsig & Hcats & Hfa & Hpa & Hca & Hresa & Henca & Hdeca).
  pose proof (w_a_fabric _ _ _ _ _ W) as Wf. fold a in Wf. rewrite Wf in Hgfa. inversion Hgfa; subst f; clear Hgfa.
  pose proof (w_ipk _ _ _ _ _ W) as Wipk. rewrite Wipk in Htbe2.
  destruct (tbe2_origin (dr_m2 r) _ _ _ _ D1 D2 Htbe2) as (q & fb & Hq & Hdest & Er1 & Hout2).
  (* the responder's fabric carries the secret IPK *)
  assert (Hipkb : f_ipk fb = TNonce ipk).
  { rewrite build_sigma2_tbe in Hout2. unfold s2k in Hout2. congruence. }
  destruct HR as (q' & fb' & nocA & icacA & sigA & peerA & catsA & HR). cbn zeta in HR.
  destruct HR as (Hq' & Hdest' & Hinb & Htbe3 & HcvA & HsigA & HnidA & HcatsA & Hfb & Hpb & Hcb & Hresb & Hdecb & Hencb).
  rewrite Hq in Hq'. inversion Hq'; subst q'; clear Hq'.
  fold b in Hdest'. rewrite Hdest in Hdest'. inversion Hdest'; subst fb'; clear Hdest'.
  rewrite Hipkb in Htbe3.
  destruct (tbe3_origin fb q _ _ Hipkb D1 D2 D3 Htbe3)
    as (rr3 & rpub3 & noc3 & icac3 & sig3 & rid3 & cats3 & Eout & A1 & A3 & A4 & Acv & An & Ac & Asig & Aout3).
  rewrite Hrpub in A3. inversion A3; subst rpub3; clear A3.
  (* the partial theorem, its two hypotheses now proved *)
  assert (U2 : tbe2_from_responder b frb (dr_m1 r) (dr_m2 r)).
  { intros c Hc. exists q, fb. split; [exact Hq|]. split; [exact Hdest|]. congruence. }
  assert (U3 : tbe3_from_initiator a fra (dr_fab r) m1 (dr_m2 r) (dr_m3 r)).
  { intros c Hc. exists fa, rpub. split; [exact Wf|]. split; [exact Hrpub|]. unfold initiator_sigma3. congruence. }
  destruct (transcript_binding_partial a b fra frb (dr_fab r) (dr_peer r) m1 (dr_m1 r) (dr_m2 r) (dr_m3 r) sa sb HI0 HR0 U2 U3)
    as (fa' & fb' & q' & rpub' & P1 & P2 & P3 & P4 & P).
  cbn zeta in P.
  rewrite Wf in P1. inversion P1; subst fa'; clear P1.
  rewrite Hq in P2. inversion P2; subst q'; clear P2.
  rewrite Hdest in P3. inversion P3; subst fb'; clear P3.
  rewrite Hrpub in P4. inversion P4; subst rpub'; clear P4.
  destruct P as (Pm1 & Pm2 & Qfa & Qpa & Qnb & Qcb & Qfb & Qna & Qca & Pkeys).
  exists sa, fb, q, rpub. cbn zeta.
  destruct run_i1_out as [Em1 _].
  split; [exact Esa|]. split; [exact Hq|]. split; [exact Hdest|]. split; [exact Hrpub|].
  split; [exact Em1|]. split; [exact Er1|]. split; [exact Eout|].
  split; [exact Pm1|]. split; [exact Pm2|].
  split; [unfold initiator_sigma3; congruence|].
  split; [exact Hipkb|].
  split; [exact Qfa|]. split; [exact Qpa|]. split; [exact Qnb|]. split; [exact Qcb|].
  split; [exact Qfb|]. split; [exact Qna|]. split; [exact Qca|].
  split; [exact Pkeys|].
  split.
  { intros Hne. unfold sigma3_alt. destruct Hr as (Hop3 & _).
    assert (E1 : get_req (initiator_sigma3 fa fra rpub m1 (dr_m2 r)) 1 KBytes = get_req (dr_m3 r) 1 KBytes)
      by (unfold initiator_sigma3; congruence).
    rewrite E1, Hop3. rewrite Htbe3. cbn [opt_term_eqb m_op initiator_sigma3 build_sigma3].
    rewrite N.eqb_refl, term_eqb_refl. cbn [andb].
    apply negb_true_iff. apply term_eqb_neq. congruence. }
  pose proof secrets_not_derivable as (_ & _ & _ & _ & Sk).
  rewrite Henca, Hdeca, Hdecb, Hencb, Wipk, Hipkb. unfold sess_key. auto.
Qed.

(** ONE END ONLY.  The initiator completed (the final StatusReport is not authenticated: this says NOTHING
    about the responder having accepted Sigma3).  Still: the responder run answered THIS Sigma1 with its
    Sigma2 for a fabric that holds the secret IPK; the authenticated elements of Sigma2 (random, ephemeral
    key, TBE2) arrived as sent; the session is bound to the responder's installed credentials; its keys are
    the ones of the untampered run exactly when the whole Sigma2 arrived as sent (session id and session
    parameters are authenticated only by Sigma3's acceptance), and the attacker does not know them. *)
Theorem initiator_only : node_wf a ->
  msg_derivable (know1 K0 r) (dr_m1 r) -> msg_derivable (know2 K0 r) (dr_m2 r) ->
  initiator_completed r ->
  exists sa fb q rpub,
    n_sessions (io_node (run_i3 r)) = n_sessions a ++ [sa] /\ s_reserved sa = false /\
    parse_sigma1 (dr_m1 r) = Ok q /\ get_by_dest_id (n_fabrics b) (g1_random q) (g1_dest q) = Some fb /\
    get_req (dr_m2 r) 3 KBytes = Ok rpub /\
    let m2 := build_sigma2 fb frb (g1_pub q) (msg_term (dr_m1 r)) in
    let m3 := initiator_sigma3 fa fra rpub m1 (dr_m2 r) in
    ro_msgs (run_r1 r) = [m2] /\ f_ipk fb = TNonce ipk /\
    msg_term (dr_m1 r) = msg_term m1 /\
    get_req (dr_m2 r) 1 KBytes = get_req m2 1 KBytes /\ get_req (dr_m2 r) 3 KBytes = get_req m2 3 KBytes /\
    get_req (dr_m2 r) 4 KBytes = get_req m2 4 KBytes /\
    s_fab sa = dr_fab r /\ s_peer sa = dr_peer r /\ get_node_id (f_noc fb) = Some (dr_peer r) /\ cats_of (f_noc fb) = Ok (s_cats sa) /\
    s_enc sa = sess_key 0 (TNonce ipk) (h123 (msg_term m1) (msg_term (dr_m2 r)) (msg_term m3)) (dh (TNonce (fr_eph fra)) rpub) /\
    s_dec sa = sess_key 1 (TNonce ipk) (h123 (msg_term m1) (msg_term (dr_m2 r)) (msg_term m3)) (dh (TNonce (fr_eph fra)) rpub) /\
    ~ derivable (know5 K0 r) (s_enc sa) /\ ~ derivable (know5 K0 r) (s_dec sa).
Proof.
  intros Hwfa D1 D2 Hi.
  destruct (initiator_completed_sound Hwfa Hi) as (sa & Esa & HI).
  destruct HI as (f & rr & rpub & noc & icac & sig & rid & cats & HI). cbn zeta in HI.
  destruct HI as (Hgfa & Hrr & Hrpub & Htbe2 & Hcv & Hnid & Hsig & Hcats & Hfa & Hpa & Hca & Hresa & Henca & Hdeca).
  pose proof (w_a_fabric _ _ _ _ _ W) as Wf. fold a in Wf. rewrite Wf in Hgfa. inversion Hgfa; subst f; clear Hgfa.
  pose proof (w_ipk _ _ _ _ _ W) as Wipk. rewrite Wipk in Htbe2, Henca, Hdeca.
  destruct (tbe2_origin (dr_m2 r) _ _ _ _ D1 D2 Htbe2) as (q & fb & Hq & Hdest & Er1 & Hout2).
  pose proof Hout2 as Hout2'. rewrite build_sigma2_tbe in Hout2'. unfold s2k, tbe2_plain, h1 in Hout2'.
  assert (Hipkb : f_ipk fb = TNonce ipk) by congruence.
  assert (Em1 : msg_term (dr_m1 r) = msg_term m1) by congruence.
  assert (Err : rr = TNonce (fr_rand frb)) by congruence.
  assert (Erp : rpub = TPub (TNonce (fr_eph frb))) by congruence.
  assert (Enoc : f_noc fb = noc) by congruence.
  exists sa, fb, q, rpub. cbn zeta.
  split; [exact Esa|]. split; [exact Hresa|]. split; [exact Hq|]. split; [exact Hdest|]. split; [exact Hrpub|].
  split; [exact Er1|]. split; [exact Hipkb|]. split; [exact Em1|].
  split; [rewrite Hrr, Err; reflexivity|]. split; [rewrite Hrpub, Erp; reflexivity|].
  split; [congruence|].
  split; [exact Hfa|]. split; [exact Hpa|]. split; [rewrite Enoc; exact Hnid|]. split; [rewrite Enoc, Hca; exact Hcats|].
  split; [exact Henca|]. split; [exact Hdeca|].
  pose proof secrets_not_derivable as (_ & _ & _ & _ & Sk).
  rewrite Henca, Hdeca. unfold sess_key. auto.
Qed.

(** The responder completed.  Then the initiator run DID accept the second message as a Sigma2 and sent its
    Sigma3 (so it holds, or will hold as soon as a success status reaches it, the session [sa']); both saw the
    same Sigma1 and Sigma2; the responder's session is bound to the initiator's installed credentials; its keys
    are the untampered ones (= crosswise those of [sa']) exactly when Sigma3 arrived as sent, else the run is in
    the known class; the attacker does not know them.  [fb] must be a fabric whose IPK is the secret one (a
    fabric the attacker owns on the responder admits, of course, the attacker). *)
Theorem responder_only : forall sb q fb, node_wf b ->
  msg_derivable (know1 K0 r) (dr_m1 r) -> msg_derivable (know2 K0 r) (dr_m2 r) -> msg_derivable (know3 K0 r) (dr_m3 r) ->
  responder_completed r sb ->
  parse_sigma1 (dr_m1 r) = Ok q -> get_by_dest_id (n_fabrics b) (g1_random q) (g1_dest q) = Some fb ->
  f_ipk fb = TNonce ipk ->
  exists sa' rpub,
    initiator_full_sound a fra (dr_fab r) (dr_peer r) m1 (dr_m2 r) sa' /\
    get_req (dr_m2 r) 3 KBytes = Ok rpub /\
    let m2 := build_sigma2 fb frb (g1_pub q) (msg_term (dr_m1 r)) in
    let m3 := initiator_sigma3 fa fra rpub m1 (dr_m2 r) in
    ro_msgs (run_r1 r) = [m2] /\ io_msgs (run_i2 r) = [m3] /\
    msg_term (dr_m1 r) = msg_term m1 /\ msg_term (dr_m2 r) = msg_term m2 /\
    get_req (dr_m3 r) 1 KBytes = get_req m3 1 KBytes /\
    s_fab sb = f_idx fb /\ get_node_id (f_noc fa) = Some (s_peer sb) /\ cats_of (f_noc fa) = Ok (s_cats sb) /\
    ((s_enc sa' = s_dec sb /\ s_dec sa' = s_enc sb) <-> msg_term (dr_m3 r) = msg_term m3) /\
    (msg_term (dr_m3 r) <> msg_term m3 -> sigma3_alt m3 (dr_m3 r) = true) /\
    ~ derivable (know5 K0 r) (s_enc sb) /\ ~ derivable (know5 K0 r) (s_dec sb).
Proof.
  intros sb q fb Hwfb D1 D2 D3 Hr Hq Hdest Hipkb.
  pose proof (responder_completed_sound sb Hwfb Hr) as HR. pose proof HR as HR0.
  destruct HR as (q' & fb' & nocA & icacA & sigA & peerA & catsA & HR). cbn zeta in HR.
  destruct HR as (Hq' & Hdest' & Hinb & Htbe3 & HcvA & HsigA & HnidA & HcatsA & Hfb & Hpb & Hcb & Hresb & Hdecb & Hencb).
  rewrite Hq in Hq'. inversion Hq'; subst q'; clear Hq'.
  fold b in Hdest'. rewrite Hdest in Hdest'. inversion Hdest'; subst fb'; clear Hdest'.
  rewrite Hipkb in Htbe3, Hdecb, Hencb.
  destruct (tbe3_origin fb q _ _ Hipkb D1 D2 D3 Htbe3)
    as (rr & rpub & noc & icac & sig & rid & cats & Eout & A1 & A3 & A4 & Acv & An & Ac & Asig & Aout3).
  pose proof (w_a_fabric _ _ _ _ _ W) as Wf. fold a in Wf.
  pose proof (w_ipk _ _ _ _ _ W) as Wipk.
  destruct (tbe2_origin (dr_m2 r) _ _ _ _ D1 D2 A4) as (q2 & fb2 & Hq2 & Hdest2 & Er1 & Hout2).
  rewrite Hq in Hq2. inversion Hq2; subst q2; clear Hq2.
  rewrite Hdest in Hdest2. inversion Hdest2; subst fb2; clear Hdest2.
  (* the session the initiator sets up on a success status *)
  set (hh := h123 (msg_term m1) (msg_term (dr_m2 r)) (msg_term (initiator_sigma3 fa fra rpub m1 (dr_m2 r)))).
  set (sa' := mkSession 0 false (dr_fab r) cats (dr_peer r)
                (sess_key 1 (f_ipk fa) hh (dh (TNonce (fr_eph fra)) rpub))
                (sess_key 0 (f_ipk fa) hh (dh (TNonce (fr_eph fra)) rpub)) TNil).
  assert (HI : initiator_full_sound a fra (dr_fab r) (dr_peer r) m1 (dr_m2 r) sa').
  { exists fa, rr, rpub, noc, icac, sig, rid, cats. cbn zeta. rewrite Wipk.
    split; [exact Wf|]. split; [exact A1|]. split; [exact A3|]. split; [exact A4|]. split; [exact Acv|].
    split; [exact An|]. split; [exact Asig|]. split; [exact Ac|].
    unfold sa', hh, initiator_sigma3. rewrite Wipk. cbn [s_fab s_peer s_cats s_reserved s_enc s_dec]. auto 10. }
  assert (U2 : tbe2_from_responder b frb (dr_m1 r) (dr_m2 r)).
  { intros c Hc. exists q, fb. split; [exact Hq|]. split; [exact Hdest|]. congruence. }
  assert (U3 : tbe3_from_initiator a fra (dr_fab r) m1 (dr_m2 r) (dr_m3 r)).
  { intros c Hc. exists fa, rpub. split; [exact Wf|]. split; [exact A3|]. unfold initiator_sigma3. congruence. }
  destruct (transcript_binding_partial a b fra frb (dr_fab r) (dr_peer r) m1 (dr_m1 r) (dr_m2 r) (dr_m3 r) sa' sb HI HR0 U2 U3)
    as (fa' & fb' & q' & rpub' & P1 & P2 & P3 & P4 & P).
  cbn zeta in P.
  rewrite Wf in P1. inversion P1; subst fa'; clear P1.
  rewrite Hq in P2. inversion P2; subst q'; clear P2.
  rewrite Hdest in P3. inversion P3; subst fb'; clear P3.
  rewrite A3 in P4. inversion P4; subst rpub'; clear P4.
  destruct P as (Pm1 & Pm2 & Qfa & Qpa & Qnb & Qcb & Qfb & Qna & Qca & Pkeys).
  exists sa', rpub. cbn zeta.
  split; [exact HI|]. split; [exact A3|]. split; [exact Er1|]. split; [exact Eout|].
  split; [exact Pm1|]. split; [exact Pm2|].
  assert (E1 : get_req (dr_m3 r) 1 KBytes = get_req (initiator_sigma3 fa fra rpub m1 (dr_m2 r)) 1 KBytes)
    by (unfold initiator_sigma3; congruence).
  split; [exact E1|]. split; [exact Qfb|]. split; [exact Qna|]. split; [exact Qca|].
  split; [exact Pkeys|].
  split.
  { intros Hne. unfold sigma3_alt. destruct Hr as (Hop3 & _).
    rewrite <- E1, Hop3, Htbe3. cbn [opt_term_eqb m_op initiator_sigma3 build_sigma3].
    rewrite N.eqb_refl, term_eqb_refl. cbn [andb].
    apply negb_true_iff. apply term_eqb_neq. congruence. }
  pose proof secrets_not_derivable as (_ & _ & _ & _ & Sk).
  rewrite Hdecb, Hencb. unfold sess_key. auto.
Qed.

(* ---------------------------------------------------------------- resumption *)

(** as [not_derivable_know1], for any key that is not guarded *)
Lemma not_derivable_know1_gen : forall k n pt t, ~ G k ->
  mentions (fr_rand fra) (TAead k n pt) -> n <> TNum NONCE_R1 ->
  derivable (know1 K0 r) t -> ~ sub (TAead k n pt) t.
Proof.
  intros k n pt t Hk Hm Hn Hd Hs.
  destruct (aead_origin SN SK (know1 K0 r) know1_guarded t Hd _ _ _ Hk Hs) as (t0 & Hk0 & Hs0).
  unfold know1 in Hk0. destruct run_i1_out as [E _]. rewrite E in Hk0. cbn [msgs_vals flat_map] in Hk0.
  rewrite app_nil_r in Hk0. destruct Hk0 as [Hk0|Hk0].
  - destruct (w_K0_fresh _ _ _ _ _ W t0 Hk0) as [Hf _]. eapply not_sub_fresh; eassumption.
  - eapply not_in_m1; eassumption.
Qed.

Lemma resume_key_unguarded : forall info sec irand rid, ~ G sec -> ~ G (resume_key info sec irand rid).
Proof. intros info sec irand rid Hs H. unfold resume_key in H. cbn [guarded] in H. tauto. Qed.

(** ORIGIN of a Resume2MIC-style ciphertext (nonce NONCE_R2) under an unguarded key that mentions the
    initiator's fresh random: it is THE Resume2MIC of the responder's Sigma2_Resume *)
Lemma r1_origin_mic2 : forall L k pt v, ~ G k ->
  r1_shape b frb (dr_m1 r) L -> msg_derivable (know1 K0 r) (dr_m1 r) ->
  mentions (fr_rand fra) (TAead k (TNum NONCE_R2) pt) ->
  In v (msgs_vals L) -> sub (TAead k (TNum NONCE_R2) pt) v ->
  exists q x, parse_sigma1 (dr_m1 r) = Ok q /\ In x (n_cache b) /\
    g1_mic q = Some (resume_mic INFO_S1RK NONCE_R1 (r_secret x) (g1_random q) (r_rid x)) /\
    TAead k (TNum NONCE_R2) pt = resume_mic INFO_S2RK NONCE_R2 (r_secret x) (g1_random q) (TNonce (fr_rid frb)).
Proof.
  intros L k pt v Hk HL D1 Hm Hv Hs.
  assert (Hn : TNum NONCE_R2 <> TNum NONCE_R1) by discriminate.
  assert (Claim : forall t, derivable (know1 K0 r) t -> ~ sub (TAead k (TNum NONCE_R2) pt) t).
  { intros t Dt. apply not_derivable_know1_gen; assumption. }
  destruct HL as [|code|q x0 Hq Hin Hmic1|q f Hq Hd Hp];
    cbn [msgs_vals flat_map msg_vals m_fields map app In fd_val status_msg build_sigma2] in Hv.
  - destruct Hv.
  - exfalso. destruct Hv as [<-|[<-|[]]]; cbn [sub] in Hs; split_or Hs ltac:(fun _ => idtac).
  - destruct (parse_sigma1_vals _ _ Hq) as (Vr & Vp & _).
    destruct (w_b_cache _ _ _ _ _ W x0 Hin) as [Fs _].
    destruct Hv as [<-|[<-|[<-|[<-|[]]]]]; try (exfalso; cbn [sub] in Hs; split_or Hs ltac:(fun _ => idtac); fail).
    unfold resume_mic, resume_key in Hs; cbn [sub] in Hs.
    split_or Hs ltac:(fun H => try solve
        [ discriminate H
        | (exfalso; eapply (Claim (g1_random q)); [apply D1; exact Vr|exact H])
        | (exfalso; eapply not_sub_fresh; [exact Hm|exact Fs|exact H]) ]).
    exists q, x0. split; [exact Hq|]. split; [exact Hin|]. split; [exact Hmic1|].
    match goal with E : TAead _ _ _ = TAead _ _ _ |- _ => rewrite E end. reflexivity.
  - exfalso. destruct (parse_sigma1_vals _ _ Hq) as (Vr & Vp & _).
    apply get_by_dest_id_in in Hd as Hd'. destruct Hd' as [Hfin _].
    destruct (w_b_fabrics _ _ _ _ _ W f Hfin) as [Ff _].
    destruct Hv as [<-|[<-|[<-|[<-|[<-|[]]]]]]; try (cbn [sub] in Hs; split_or Hs ltac:(fun _ => idtac); fail).
    unfold s2k, tbe2_plain, tbs, h1 in Hs. cbn [sub] in Hs.
    split_or Hs ltac:(fun H => solve
      [ discriminate H
      | (eapply not_sub_fresh; [exact Hm|exact Ff|exact H])
      | (apply sub_msg_term in H; destruct H as (w & Hw & Hsw); eapply (Claim w); [apply D1; exact Hw|exact Hsw])
      | (apply sub_aead_dh in H; destruct H as [H|H];
         [cbn [sub] in H; split_or H ltac:(fun _ => idtac)|eapply (Claim (g1_pub q)); [apply D1; exact Vp|exact H]])
      | (eapply (Claim (g1_pub q)); [apply D1; exact Vp|exact H])
      | (apply sub_icac_term in H; destruct (f_icac f); discriminate H) ]).
Qed.

(** ORIGIN of a Resume1MIC-style ciphertext (nonce NONCE_R1) under an unguarded key that mentions the
    initiator's fresh random, among what the attacker can derive before the responder answered: it is THE
    Resume1MIC of the initiator's own Sigma1 *)
Lemma mic1_origin : forall k pt t, ~ G k ->
  mentions (fr_rand fra) (TAead k (TNum NONCE_R1) pt) ->
  derivable (know1 K0 r) t -> sub (TAead k (TNum NONCE_R1) pt) t ->
  exists x, find_by_peer (n_cache a) (dr_fab r) (dr_peer r) = Some x /\
    TAead k (TNum NONCE_R1) pt = resume_mic INFO_S1RK NONCE_R1 (r_secret x) (TNonce (fr_rand fra)) (r_rid x).
Proof.
  intros k pt t Hk Hm Hd Hs.
  destruct (aead_origin SN SK (know1 K0 r) know1_guarded t Hd _ _ _ Hk Hs) as (t0 & Hk0 & Hs0).
  unfold know1 in Hk0. destruct run_i1_out as [E _]. rewrite E in Hk0. cbn [msgs_vals flat_map] in Hk0.
  rewrite app_nil_r in Hk0. destruct Hk0 as [Hk0|Hk0].
  - exfalso. destruct (w_K0_fresh _ _ _ _ _ W t0 Hk0) as [Hf _]. eapply not_sub_fresh; eassumption.
  - apply m1_vals in Hk0.
    destruct Hk0 as [->|[->|[->|[->|(x & Hfp & Hin & [->| ->])]]]];
      try (exfalso; unfold root_pub in Hs0; cbn [sub] in Hs0; split_or Hs0 ltac:(fun _ => idtac); fail).
    + exfalso. destruct (w_a_cache _ _ _ _ _ W x Hin) as (_ & H1 & _). eapply not_sub_fresh; eassumption.
    + destruct (w_a_cache _ _ _ _ _ W x Hin) as (_ & H1 & H2 & _).
      unfold resume_mic, resume_key in Hs0. cbn [sub] in Hs0.
      split_or Hs0 ltac:(fun H => try solve
        [ discriminate H
        | (exfalso; eapply not_sub_fresh; [exact Hm|exact H1|exact H])
        | (exfalso; eapply not_sub_fresh; [exact Hm|exact H2|exact H]) ]).
      exists x. split; [exact Hfp|].
      match goal with E : TAead _ _ _ = TAead _ _ _ |- _ => rewrite E end. reflexivity.
Qed.

Lemma resp_step_fin_ok : forall st rs m, ro_arm (resp_step st rs frb m) = A_R_FIN_OK ->
  exists slot x nr, rs = RAwaitStatus slot x nr /\ m_op m = OP_STATUS /\ status_is_success m = Ok true /\
    ro_node (resp_step st rs frb m) =
      set_cache (complete st slot) (insert_or_update (n_cache (complete st slot))
                                      (mkRecord (r_fab x) (r_peer x) (r_cats x) nr (r_secret x))).
Proof.
  intros st rs m H. destruct rs as [|c|slot x nr|]; cbn [resp_step] in H.
  - exfalso. revert H. unfold resp_first. destruct (reserve st) as [st1 sl].
    destruct (negb _); [discriminate|]. destruct (parse_sigma1 m) as [q| |]; try discriminate.
    destruct (resp_try_resume st1 sl frb q) as [o|] eqn:E.
    + unfold resp_try_resume in E. destruct (g1_rid q); [|discriminate]. destruct (g1_mic q); [|discriminate].
      destruct (find_by_rid _ _); [|discriminate]. destruct (negb _); [discriminate|].
      destruct (get_fabric _ _); inversion E; subst o; discriminate.
    + unfold resp_sigma1. break_match; discriminate.
  - exfalso. revert H. unfold resp_sigma3. break_match; discriminate.
  - exists slot, x, nr. split; [reflexivity|]. cbn [resp_step]. unfold resp_finished in *.
    destruct (m_op m =? OP_STATUS) eqn:Hop; cbn [andb] in *; [|discriminate].
    destruct (status_is_success m) as [[|]| |]; try discriminate.
    apply N.eqb_eq in Hop. auto.
  - discriminate.
Qed.

(** RESUMPTION BINDING, FULL.  The initiator resumed (state [IFinishing]) and the responder completed a
    resumption (arm [A_R_FIN_OK]); the secret of the initiator's cached record is not guarded (the attacker
    cannot derive it).  Then the responder saw the initiator's random unaltered and both used the same secret and
    resumption id; each session copies the identity of its record; same directional keys crosswise; not derivable. *)
Theorem resume_binding : forall ra nr,
  node_wf a -> node_wf b ->
  msg_derivable (know1 K0 r) (dr_m1 r) -> msg_derivable (know2 K0 r) (dr_m2 r) ->
  io_state (run_i2 r) = IFinishing ra nr -> ro_arm (run_r2 r) = A_R_FIN_OK ->
  ~ G (r_secret ra) ->
  exists sa sb q rb,
    n_sessions (io_node (run_i2 r)) = n_sessions a ++ [sa] /\
    n_sessions (ro_node (run_r2 r)) = n_sessions b ++ [sb] /\
    s_reserved sa = false /\ s_reserved sb = false /\
    parse_sigma1 (dr_m1 r) = Ok q /\ In rb (n_cache b) /\
    find_by_peer (n_cache a) (dr_fab r) (dr_peer r) = Some ra /\
    g1_random q = TNonce (fr_rand fra) /\ r_secret rb = r_secret ra /\ r_rid rb = r_rid ra /\
    s_fab sa = r_fab ra /\ s_peer sa = r_peer ra /\ s_cats sa = r_cats ra /\
    s_fab sb = r_fab rb /\ s_peer sb = r_peer rb /\ s_cats sb = r_cats rb /\
    s_enc sa = s_dec sb /\ s_dec sa = s_enc sb /\
    ~ derivable (know5 K0 r) (s_enc sa) /\ ~ derivable (know5 K0 r) (s_dec sa).
Proof.
  intros ra nr Hwfa Hwfb D1 D2 Hi Hr Hsec.
  (* the initiator's side *)
  assert (Hrun : exists out, init_run (io_node (init_start a fra (dr_fab r) (dr_peer r)))
                               (io_state (init_start a fra (dr_fab r) (dr_peer r))) [dr_m2 r]
                             = (io_node (run_i2 r), io_state (run_i2 r), out)).
  { eexists. reflexivity. }
  destruct Hrun as [out Hrun].
  destruct (initiator_run_sound _ _ _ _ _ _ _ _ Hwfa Hrun) as (_ & _ & Hc).
  destruct Hc as [(_ & _ & E)|[(x & E & Hx & _ & Hab & _)|[(s & m1x & m2x & mst & rest & rid & sec & _ & Hms & _)|(sa & m2x & rest & x & nrx & Hms & Esa & Est & Hfind & HI & _)]]].
  { rewrite Hi in E. discriminate. }
  { exfalso. rewrite Hi in Hab. cbn [init_abort] in Hab. rewrite E in Hab. eapply app_tail_neq. exact Hab. }
  { discriminate Hms. }
  rewrite Hi in Est. inversion Est; subst x nrx; clear Est. inversion Hms; subst m2x rest; clear Hms.
  pose proof HI as HI0.
  destruct HI as (ra' & nr' & f' & Hfind' & Hnr & Hmic2 & Hgfa & Hfa & Hrfa & Hpa & Hrpa & Hca & Hresa & Henca & Hdeca).
  rewrite Hfind in Hfind'. inversion Hfind'; subst ra'; clear Hfind'.
  (* the Resume2MIC the initiator accepted was made by the responder's run *)
  assert (Hk2 : ~ G (resume_key INFO_S2RK (r_secret ra) (TNonce (fr_rand fra)) nr')) by (apply resume_key_unguarded; exact Hsec).
  assert (Hm2 : mentions (fr_rand fra) (TAead (resume_key INFO_S2RK (r_secret ra) (TNonce (fr_rand fra)) nr') (TNum NONCE_R2) TNil)).
  { unfold resume_key. cbn [mentions]. auto. }
  unfold resume_mic in Hmic2.
  assert (Dc := D2 _ (get_req_in_vals _ _ _ _ Hmic2)).
  destruct (aead_origin SN SK _ know2_guarded _ Dc _ _ _ Hk2 (sub_refl _)) as (t0 & Hk & Hs).
  apply in_know2_cases in Hk. destruct Hk as [Hk|[Hk|Hk]].
  { exfalso. destruct (w_K0_fresh _ _ _ _ _ W t0 Hk) as [Hf _]. eapply not_sub_fresh; eassumption. }
  { exfalso. eapply not_in_m1; try eassumption. discriminate. }
  destruct (r1_origin_mic2 _ _ _ _ Hk2 (resp_first_shape b frb (dr_m1 r)) D1 Hm2 Hk Hs) as (q & xb & Hq & Hinb & Hmic1 & Emic2).
  unfold resume_mic, resume_key in Emic2.
  assert (Erand : g1_random q = TNonce (fr_rand fra)) by congruence.
  assert (Esec : r_secret xb = r_secret ra) by congruence.
  (* the Resume1MIC the responder accepted was made by the initiator's run *)
  destruct (parse_sigma1_vals _ _ Hq) as (_ & _ & _ & Vmic).
  assert (Dmic1 := D1 _ (Vmic _ Hmic1)).
  unfold resume_mic in Dmic1, Hmic1. rewrite Erand, Esec in Dmic1, Hmic1.
  assert (Hk1 : ~ G (resume_key INFO_S1RK (r_secret ra) (TNonce (fr_rand fra)) (r_rid xb))) by (apply resume_key_unguarded; exact Hsec).
  assert (Hm1 : mentions (fr_rand fra) (TAead (resume_key INFO_S1RK (r_secret ra) (TNonce (fr_rand fra)) (r_rid xb)) (TNum NONCE_R1) TNil)).
  { unfold resume_key. cbn [mentions]. auto. }
  destruct (mic1_origin _ _ _ Hk1 Hm1 Dmic1 (sub_refl _)) as (x' & Hfp & Emic1).
  fold a in Hfp. rewrite Hfind in Hfp. inversion Hfp; subst x'; clear Hfp.
  unfold resume_mic, resume_key in Emic1.
  assert (Erid : r_rid xb = r_rid ra) by congruence.
  (* the responder's side: its run took the resumption path with exactly this record's secret and id *)
  destruct (resp_step_fin_ok _ _ _ Hr) as (slot & xr & nrb & Est & Hop & Hok & Enode).
  change (ro_state (run_r1 r)) with (ro_state (resp_first b frb (dr_m1 r))) in Est.
  change (ro_node (run_r1 r)) with (ro_node (resp_first b frb (dr_m1 r))) in Enode.
  pose proof (resp_first_spec b frb (dr_m1 r)) as Hf. cbn zeta in Hf.
  destruct Hf as (_ & _ & Hcache1 & Hcases). destruct Hwfb as [Hfwfb Hswfb]. specialize (Hcases Hswfb).
  destruct Hcases as [[Hst _]|[(c & Hst & _)|(q2 & xr2 & rid2 & nr2 & f2 & Hst & Hq2 & Hrid2 & Hin2 & Hrr2 & Hmic12 & Hgf2 & Hs1)]];
    try (rewrite Hst in Est; discriminate).
  rewrite Hst in Est. inversion Est; subst slot xr nrb; clear Est.
  rewrite Hq in Hq2. inversion Hq2; subst q2; clear Hq2.
  rewrite Hmic12 in Hmic1. unfold resume_mic, resume_key in Hmic1.
  assert (Esec2 : r_secret xr2 = r_secret ra) by congruence.
  assert (Erid2 : r_rid xr2 = r_rid ra) by congruence.
  match type of Hs1 with _ = _ ++ [?x] =>
    pose proof (complete_slot (ro_node (resp_first b frb (dr_m1 r))) (n_sessions b) x Hs1) as Hcs end.
  cbn [s_id s_fab s_cats s_peer s_dec s_enc s_att] in Hcs.
  assert (Hfresh : forall s, In s (n_sessions b) -> s_id s <> n_next_id b) by (intros s Hs'; apply wf_ids_ne; assumption).
  specialize (Hcs Hfresh).
  eexists sa, _, q, xr2.
  split; [exact Esa|].
  split; [change (ro_node (run_r2 r)) with (ro_node (resp_step (ro_node (resp_first b frb (dr_m1 r))) (ro_state (run_r1 r)) frb (dr_m3 r)));
          rewrite Enode; cbn [n_sessions set_cache]; exact Hcs|].
  cbn [s_reserved s_fab s_peer s_cats s_dec s_enc].
  split; [exact Hresa|]. split; [reflexivity|]. split; [exact Hq|]. split; [exact Hin2|]. split; [exact Hfind|].
  split; [exact Erand|]. split; [exact Esec2|]. split; [exact Erid2|].
  split; [exact Hfa|]. split; [exact Hpa|]. split; [exact Hca|].
  split; [reflexivity|]. split; [reflexivity|]. split; [reflexivity|].
  rewrite Henca, Hdeca, Erand, Esec2, Erid2.
  split; [reflexivity|]. split; [reflexivity|].
  assert (Hkk : forall i, ~ derivable (know5 K0 r) (rsess_key i (r_secret ra) (TNonce (fr_rand fra)) (r_rid ra))).
  { intros i H. apply run_secrecy in H. unfold rsess_key in H. cbn [guarded] in H. tauto. }
  split; apply Hkk.
Qed.

End World.
