(** Integers of every width through the minimal-width writers and the
    typed readers, in the form the generic derive proofs need: what a
    writer produced is the encoding of a well-formed leaf, and the reader
    of the same (or a wider) type returns the value. *)
From Coq Require Import NArith ZArith List Bool Lia ZifyN ZifyBool.
From RsM Require Import Model.Tlv Model.TlvDerive Proofs.TlvFacts Proofs.TlvWriter Proofs.TlvScalar.
Import ListNotations.
Open Scope N_scope.

Definition rd_u (w : width) (el : bytes) : rres N :=
  match w with W1 => el_u8 el | W2 => el_u16 el | W4 => el_u32 el | W8 => el_u64 el end.
Definition rd_s (w : width) (el : bytes) : rres Z :=
  match w with W1 => el_i8 el | W2 => el_i16 el | W4 => el_i32 el | W8 => el_i64 el end.

Lemma w_tlv_vu t w n : w_tlv t (VU w n) = w_raw_value t (TU w) (le_bytes (wnat w) n).
Proof. rewrite w_tlv_raw. reflexivity. Qed.
Lemma w_tlv_vs t w z : w_tlv t (VS w z) = w_raw_value t (TS w) (le_bytes (wnat w) (of_signed w z)).
Proof. rewrite w_tlv_raw. reflexivity. Qed.

(** the unsigned writers: smallest width, never wider than the type *)
Lemma w_u_form W t n :
  n < wfull W ->
  exists w', widx w' <= widx W /\ n < wfull w' /\ w_op (OpU W t n) = w_tlv t (VU w' n).
Proof.
  intros Hn. destruct W; cbn [w_op]; unfold w_u64, w_u32, w_u16, w_u8; cbn [wfull] in Hn.
  - exists W1. rewrite w_tlv_vu. repeat split; cbn; lia.
  - destruct (N.leb_spec n 255).
    + exists W1. rewrite w_tlv_vu. repeat split; cbn; lia.
    + exists W2. rewrite w_tlv_vu. repeat split; cbn; lia.
  - destruct (N.leb_spec n 65535); [destruct (N.leb_spec n 255)|].
    + exists W1. rewrite w_tlv_vu. repeat split; cbn; lia.
    + exists W2. rewrite w_tlv_vu. repeat split; cbn; lia.
    + exists W4. rewrite w_tlv_vu. repeat split; cbn; lia.
  - destruct (N.leb_spec n 4294967295); [destruct (N.leb_spec n 65535); [destruct (N.leb_spec n 255)|]|].
    + exists W1. rewrite w_tlv_vu. repeat split; cbn; lia.
    + exists W2. rewrite w_tlv_vu. repeat split; cbn; lia.
    + exists W4. rewrite w_tlv_vu. repeat split; cbn; lia.
    + exists W8. rewrite w_tlv_vu. repeat split; cbn; lia.
Qed.

Lemma rd_u_leaf W w' t n rest :
  widx w' <= widx W -> n < wfull w' -> rd_u W (w_tlv t (VU w' n) ++ rest) = ROk n.
Proof.
  intros Hw Hn. rewrite w_tlv_vu.
  destruct W, w'; cbn in Hw; try lia; cbn [rd_u];
    unfold el_u64, el_u32, el_u16, el_u8;
    repeat (first [ apply (el_fixed_hit t W1); exact Hn
                  | apply (el_fixed_hit t W2); exact Hn
                  | apply (el_fixed_hit t W4); exact Hn
                  | apply (el_fixed_hit t W8); exact Hn
                  | rewrite el_fixed_miss by discriminate ]).
Qed.

Lemma s_range_half w z :
  (- Z.of_N (whalf w) <= z < Z.of_N (whalf w))%Z -> wf_val (VS w z).
Proof. intros H. exact H. Qed.

Lemma w_s_form W t z :
  (- Z.of_N (whalf W) <= z < Z.of_N (whalf W))%Z ->
  exists w', widx w' <= widx W /\ (- Z.of_N (whalf w') <= z < Z.of_N (whalf w'))%Z /\
             w_op (OpI W t z) = w_tlv t (VS w' z).
Proof.
  intros Hz. destruct W; cbn [w_op]; unfold w_i64, w_i32, w_i16, w_i8; cbn [whalf] in Hz;
    unfold two63 in Hz.
  - exists W1. rewrite w_tlv_vs. repeat split; cbn; lia.
  - destruct ((-128 <=? z) && (z <=? 127))%Z eqn:E8.
    + exists W1. rewrite w_tlv_vs. repeat split; cbn; lia.
    + exists W2. rewrite w_tlv_vs. repeat split; cbn; lia.
  - destruct ((-32768 <=? z) && (z <=? 32767))%Z eqn:E16;
      [destruct ((-128 <=? z) && (z <=? 127))%Z eqn:E8|].
    + exists W1. rewrite w_tlv_vs. repeat split; cbn; lia.
    + exists W2. rewrite w_tlv_vs. repeat split; cbn; lia.
    + exists W4. rewrite w_tlv_vs. repeat split; cbn; lia.
  - destruct ((-2147483648 <=? z) && (z <=? 2147483647))%Z eqn:E32;
      [destruct ((-32768 <=? z) && (z <=? 32767))%Z eqn:E16;
       [destruct ((-128 <=? z) && (z <=? 127))%Z eqn:E8|]|].
    + exists W1. rewrite w_tlv_vs. repeat split; cbn; lia.
    + exists W2. rewrite w_tlv_vs. repeat split; cbn; lia.
    + exists W4. rewrite w_tlv_vs. repeat split; cbn; lia.
    + exists W8. rewrite w_tlv_vs. repeat split; cbn [widx whalf]; unfold two63; lia.
Qed.

Lemma rd_s_leaf W w' t z rest :
  widx w' <= widx W -> (- Z.of_N (whalf w') <= z < Z.of_N (whalf w'))%Z ->
  rd_s W (w_tlv t (VS w' z) ++ rest) = ROk z.
Proof.
  intros Hw Hz. rewrite w_tlv_vs.
  destruct W, w'; cbn in Hw; try lia; cbn [rd_s];
    unfold el_i64, el_i32, el_i16;
    repeat (first [ apply (signed_hit t W2); exact Hz
                  | apply (signed_hit t W4); exact Hz
                  | apply (signed_hit t W8); exact Hz
                  | apply el_i8_hit; cbn [whalf] in Hz; lia
                  | rewrite signed_miss by discriminate ]).
Qed.

(** typing of integer values *)
Definition int_in_range (sg : bool) (w : width) (z : Z) : Prop :=
  if sg then (- Z.of_N (whalf w) <= z < Z.of_N (whalf w))%Z
  else (0 <= z < Z.of_N (wfull w))%Z.

Lemma w_int_form sg W t z :
  int_in_range sg W z ->
  exists v, wf_val v /\ w_int sg W t z = w_tlv t v /\
            (forall rest, dec_int sg W (w_tlv t v ++ rest) = ROk (XInt z)) /\
            vtype_of_val v <> TNull.
Proof.
  intros Hr. unfold int_in_range in Hr. destruct sg; unfold w_int, dec_int.
  - destruct (w_s_form W t z Hr) as (w' & Hw & Hz & E).
    exists (VS w' z). split; [exact Hz|]. split; [exact E|]. split; [|discriminate].
    intros rest. fold (rd_s W (w_tlv t (VS w' z) ++ rest)).
    rewrite rd_s_leaf by assumption. reflexivity.
  - assert (Hn : Z.to_N z < wfull W) by lia.
    destruct (w_u_form W t (Z.to_N z) Hn) as (w' & Hw & Hlt & E).
    exists (VU w' (Z.to_N z)). split; [exact Hlt|]. split; [exact E|]. split; [|discriminate].
    intros rest. fold (rd_u W (w_tlv t (VU w' (Z.to_N z)) ++ rest)).
    rewrite rd_u_leaf by assumption. cbn [rmap rbind]. rewrite Z2N.id by lia. reflexivity.
Qed.
