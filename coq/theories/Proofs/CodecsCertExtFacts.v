(** The extension values carry what the Matter certificate said. *)
From RsM Require Import Lib.MachInt Model.Headers Model.Codecs Model.CodecsCertExt
  Proofs.HeadersFacts Proofs.CodecsBase38 Proofs.CodecsQr.
From Coq Require Import ZifyN ZifyBool.
Open Scope N_scope.

Definition eku_legal (ids : list N) : Prop := Forall (fun i => 1 <= i <= 6) ids.

Lemma eku_arc_id (i : N) : 1 <= i <= 6 -> exists a, eku_arc i = Some a /\ eku_id a = Some i.
Proof.
  intro H.
  assert (i = 1 \/ i = 2 \/ i = 3 \/ i = 4 \/ i = 5 \/ i = 6) as [->|[->|[->|[->|[->| ->]]]]] by lia;
    eexists; split; reflexivity.
Qed.

Lemma eku_items_length (ids : list N) : eku_legal ids -> length (eku_items ids) = (10 * length ids)%nat.
Proof.
  intro H. induction H as [|i t Hi Ht IH]; [reflexivity|].
  destruct (eku_arc_id i Hi) as (a & Ha & _). cbn [eku_items]. rewrite Ha.
  rewrite app_length, IH. cbn [length der1 KP_PREFIX app]. lia.
Qed.

Lemma eku_read_items_ok (ids : list N) (fuel : nat) :
  eku_legal ids -> (length ids < fuel)%nat -> eku_read_items fuel (eku_items ids) = Some ids.
Proof.
  intro H. revert fuel. induction H as [|i t Hi Ht IH]; intros fuel Hf.
  - destruct fuel; [lia|reflexivity].
  - destruct fuel as [|fuel]; [cbn in Hf; lia|].
    destruct (eku_arc_id i Hi) as (a & Ha & Hb). cbn [eku_items]. rewrite Ha.
    cbn [der1 KP_PREFIX app length N.of_nat]. cbn [eku_read_items].
    change (N.of_nat 8) with 8. cbv iota. cbn [eku_read_items].
    rewrite Hb, IH by (cbn [length] in Hf; lia). reflexivity.
Qed.

(** every legal list of key purposes can be read back from the extension value *)
Lemma eku_roundtrip (ids : list N) : eku_legal ids -> eku_read (eku_value ids) = Some ids.
Proof.
  intro H. unfold eku_read, eku_value, der1. rewrite N.eqb_refl.
  apply eku_read_items_ok; [exact H|]. rewrite eku_items_length by exact H. lia.
Qed.

Lemma eku_value_injective (a b : list N) :
  eku_legal a -> eku_legal b -> eku_value a = eku_value b -> a = b.
Proof.
  intros Ha Hb He. pose proof (eku_roundtrip a Ha) as Ra. rewrite He, (eku_roundtrip b Hb) in Ra.
  congruence.
Qed.

(** all nine key-usage bits, in every combination (512 values, by computation) *)
Lemma ku_roundtrip (k : N) : k < 512 -> ku_read (ku_value k) = Some k.
Proof.
  intro H.
  assert (Hc : (match ku_read (ku_value k) with Some x => x =? k | None => false end) = true).
  { revert k H. apply (forall_lt_by_compute 512). vm_compute. reflexivity. }
  destruct (ku_read (ku_value k)); [|discriminate]. apply N.eqb_eq in Hc. subst. reflexivity.
Qed.

Lemma bc_roundtrip (ca : bool) (path : option N) : bc_read (bc_value ca path) = Some (ca, path).
Proof. destruct ca, path; reflexivity. Qed.

Lemma mon_certext_model (ku : N) (ids : list N) (ca : bool) (path : option N) :
  mon_certext ku ids ca path (ku_value ku) (eku_value ids) (bc_value ca path) = true.
Proof.
  unfold mon_certext. rewrite bc_roundtrip.
  destruct (ku <? 512) eqn:Ek.
  - rewrite ku_roundtrip by lia. rewrite N.eqb_refl. cbn [andb].
    assert (Hb : (match path with Some p => Some (ca, Some p) | None => Some (ca, None) end) =
                 Some (ca, path)) by (destruct path; reflexivity).
    destruct (forallb _ ids && Nat.leb (length ids) 12) eqn:El.
    + apply andb_prop in El as [El _]. rewrite forallb_forall in El.
      rewrite eku_roundtrip by (apply Forall_forall; intros x Hx; specialize (El x Hx); lia).
      cbn [optl_eqb]. rewrite list_eqb_refl. cbn [andb].
      destruct path as [p|]; [destruct (p <? 256)|]; rewrite ?Bool.eqb_reflx, ?N.eqb_refl; reflexivity.
    + cbn [andb]. destruct path as [p|]; [destruct (p <? 256)|]; rewrite ?Bool.eqb_reflx, ?N.eqb_refl; reflexivity.
  - cbn [andb].
    destruct (forallb _ ids && Nat.leb (length ids) 12) eqn:El.
    + apply andb_prop in El as [El _]. rewrite forallb_forall in El.
      rewrite eku_roundtrip by (apply Forall_forall; intros x Hx; specialize (El x Hx); lia).
      cbn [optl_eqb]. rewrite list_eqb_refl. cbn [andb].
      destruct path as [p|]; [destruct (p <? 256)|]; rewrite ?Bool.eqb_reflx, ?N.eqb_refl; reflexivity.
    + destruct path as [p|]; [destruct (p <? 256)|]; rewrite ?Bool.eqb_reflx, ?N.eqb_refl; reflexivity.
Qed.
