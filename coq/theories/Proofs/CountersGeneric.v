(** Generic part of the C12 proofs: a counter machine whose every step is
    explained by unbounded "ghost" positions that only move forward yields
    pairwise distinct values as long as the positions stay inside one
    window on which the ring map is injective; plus soundness of the
    executable monitor. *)
From RsM Require Import Lib.MachInt Lib.C12Sort Model.Counters Model.CountersSpec.
From Coq Require Import ZifyN ZifyBool Sorted Permutation.
Open Scope N_scope.

Arguments N.add : simpl never.
Arguments N.sub : simpl never.
Arguments N.mul : simpl never.
Arguments N.modulo : simpl never.
Arguments N.leb : simpl never.
Arguments N.ltb : simpl never.
Arguments N.eqb : simpl never.

(** ** lists of ghost positions *)

Lemma nodup_map_window (f : N -> N) (o W : N) (P : list N) :
  (forall a b, o <= a < o + W -> o <= b < o + W -> f a = f b -> a = b) ->
  StronglySorted N.lt P ->
  Forall (fun p => o <= p < o + W) P ->
  NoDup (map f P).
Proof.
  intros Hinj HS HF. induction HS as [|a l HS IH Ha]; cbn [map].
  - constructor.
  - inversion HF as [|a' l' Hwa HFl]; subst. constructor.
    + intro Hin. apply in_map_iff in Hin. destruct Hin as [b [Hfb Hb]].
      rewrite Forall_forall in Ha, HFl.
      assert (Hba : b = a) by (apply Hinj; auto).
      specialize (Ha b Hb). lia.
    + apply IH. exact HFl.
Qed.

Lemma yields_cons e t :
  yields (e :: t) = match e with EvYield v _ => v :: yields t | _ => yields t end.
Proof. unfold yields. cbn [flat_map]. destruct e; reflexivity. Qed.

Definition cev_cov (cov : option N -> N -> bool) (e : cev) : Prop :=
  match e with EvYield v kv => cov kv v = true | _ => True end.

Section Gen.
  Context {St Op : Type}.
  Variable step : St -> Op -> St * cev.
  Variable allowed : St -> Op -> bool.
  Variable cost : Op -> N.
  Variable ring : N -> N.
  Variable cov : option N -> N -> bool.
  (** [Live s o M T]: values have been handed out at positions in [o, M);
      everything handed out from now on sits at positions >= M; the
      machine has travelled at most T from o. *)
  Variable Live : St -> N -> N -> N -> Prop.
  (** [Fresh s cr]: nothing has been handed out in the lifetime of the
      storage (the KV cell is empty); [cr] is travel already paid for. *)
  Variable Fresh : St -> N -> Prop.

  Definition ev_ok (e : cev) (o M M' T' : N) : Prop :=
    match e with
    | EvYield v kv =>
        exists p, v = ring p /\ M <= p /\ p < M' /\ p < o + T' /\ cov kv v = true
    | _ => True
    end.

  Hypothesis live_step : forall s op o M T s' e,
    Live s o M T -> allowed s op = true -> step s op = (s', e) ->
    exists M' T', Live s' o M' T' /\ M <= M' /\ T' <= T + cost op /\ ev_ok e o M M' T'.

  Hypothesis fresh_step : forall s op cr s' e,
    Fresh s cr -> allowed s op = true -> step s op = (s', e) ->
    (exists cr', Fresh s' cr' /\ cr' <= cr + cost op /\ forall v kv, e <> EvYield v kv) \/
    (exists o M' T', Live s' o M' T' /\ o <= M' /\ T' <= cr + cost op /\ ev_ok e o o M' T').

  Lemma live_run : forall l s o M T,
    Live s o M T -> sched_ok step allowed s l = true ->
    exists P, yields (fst (run_gen step s l)) = map ring P /\
              StronglySorted N.lt P /\
              Forall (fun p => M <= p /\ p < o + T + travel_gen cost l) P /\
              Forall (cev_cov cov) (fst (run_gen step s l)).
  Proof.
    induction l as [|op t IH]; intros s o M T HL Hok.
    - exists []. cbn. repeat split; constructor.
    - cbn [sched_ok] in Hok. apply andb_prop in Hok. destruct Hok as [Hal Hok].
      cbn [run_gen travel_gen]. destruct (step s op) as [s' e] eqn:Hst.
      cbn [fst] in Hok.
      destruct (live_step _ _ _ _ _ _ _ HL Hal Hst) as [M' [T' [HL' [HMM [HT Hev]]]]].
      destruct (IH s' o M' T' HL' Hok) as [P [Hy [HS [HF HC]]]].
      destruct (run_gen step s' t) as [es sf] eqn:Hrun. cbn [fst] in *.
      rewrite yields_cons.
      destruct e as [|v kv| | | |];
        try (exists P; repeat split;
             [exact Hy | exact HS
             | eapply Forall_impl; [|exact HF]; cbn beta; intros p Hp; lia
             | constructor; [exact I|exact HC]]).
      cbn [ev_ok] in Hev. destruct Hev as [p [Hv [HMp [HpM' [HpT Hcov]]]]].
      exists (p :: P). repeat split.
      + cbn [map]. rewrite Hy, Hv. reflexivity.
      + constructor; [exact HS|]. eapply Forall_impl; [|exact HF]. cbn beta. intros q Hq. lia.
      + constructor; [lia|]. eapply Forall_impl; [|exact HF]. cbn beta. intros q Hq. lia.
      + constructor; [exact Hcov|exact HC].
  Qed.

  Lemma fresh_run : forall l s cr,
    Fresh s cr -> sched_ok step allowed s l = true ->
    exists o P, yields (fst (run_gen step s l)) = map ring P /\
                StronglySorted N.lt P /\
                Forall (fun p => o <= p /\ p < o + cr + travel_gen cost l) P /\
                Forall (cev_cov cov) (fst (run_gen step s l)).
  Proof.
    induction l as [|op t IH]; intros s cr HF Hok.
    - exists 0, []. cbn. repeat split; constructor.
    - cbn [sched_ok] in Hok. apply andb_prop in Hok. destruct Hok as [Hal Hok].
      cbn [run_gen travel_gen]. destruct (step s op) as [s' e] eqn:Hst.
      cbn [fst] in Hok.
      destruct (fresh_step _ _ _ _ _ HF Hal Hst)
        as [[cr' [HF' [Hcr Hny]]]|[o [M' [T' [HL' [HoM [HT Hev]]]]]]].
      + destruct (IH s' cr' HF' Hok) as [o [P [Hy [HS [HFa HC]]]]].
        destruct (run_gen step s' t) as [es sf] eqn:Hrun. cbn [fst] in *.
        rewrite yields_cons.
        destruct e as [|v kv| | | |]; try (exfalso; eapply Hny; reflexivity);
          (exists o, P; repeat split;
             [exact Hy | exact HS
             | eapply Forall_impl; [|exact HFa]; cbn beta; intros p Hp; lia
             | constructor; [exact I|exact HC]]).
      + destruct (live_run t s' o M' T' HL' Hok) as [P [Hy [HS [HFa HC]]]].
        destruct (run_gen step s' t) as [es sf] eqn:Hrun. cbn [fst] in *.
        rewrite yields_cons.
        destruct e as [|v kv| | | |];
          try (exists o, P; repeat split;
               [exact Hy | exact HS
               | eapply Forall_impl; [|exact HFa]; cbn beta; intros p Hp; lia
               | constructor; [exact I|exact HC]]).
        cbn [ev_ok] in Hev. destruct Hev as [p [Hv [HMp [HpM' [HpT Hcov]]]]].
        exists o, (p :: P). repeat split.
        * cbn [map]. rewrite Hy, Hv. reflexivity.
        * constructor; [exact HS|]. eapply Forall_impl; [|exact HFa]. cbn beta. intros q Hq. lia.
        * constructor; [lia|]. eapply Forall_impl; [|exact HFa]. cbn beta. intros q Hq. lia.
        * constructor; [exact Hcov|exact HC].
  Qed.

  (** one lap: the ring map is injective on every window of [W] positions *)
  Variable W : N.
  Hypothesis ring_inj : forall o a b,
    o <= a < o + W -> o <= b < o + W -> ring a = ring b -> a = b.

  Theorem gen_unique_live : forall l s o,
    Live s o o 0 -> sched_ok step allowed s l = true -> travel_gen cost l <= W ->
    NoDup (yields (fst (run_gen step s l))).
  Proof.
    intros l s o HL Hok Hb.
    destruct (live_run l s o o 0 HL Hok) as [P [Hy [HS [HF _]]]].
    rewrite Hy. apply (nodup_map_window ring o W); [apply ring_inj|exact HS|].
    eapply Forall_impl; [|exact HF]. cbn beta. intros p Hp. lia.
  Qed.

  Theorem gen_unique_fresh : forall l s,
    Fresh s 0 -> sched_ok step allowed s l = true -> travel_gen cost l <= W ->
    NoDup (yields (fst (run_gen step s l))).
  Proof.
    intros l s HF Hok Hb.
    destruct (fresh_run l s 0 HF Hok) as [o [P [Hy [HS [HFa _]]]]].
    rewrite Hy. apply (nodup_map_window ring o W); [apply ring_inj|exact HS|].
    eapply Forall_impl; [|exact HFa]. cbn beta. intros p Hp. lia.
  Qed.

  Theorem gen_covered_live : forall l s o M T,
    Live s o M T -> sched_ok step allowed s l = true ->
    Forall (cev_cov cov) (fst (run_gen step s l)).
  Proof. intros l s o M T HL Hok. destruct (live_run l s o M T HL Hok) as [P [_ [_ [_ HC]]]]. exact HC. Qed.

  Theorem gen_covered_fresh : forall l s cr,
    Fresh s cr -> sched_ok step allowed s l = true ->
    Forall (cev_cov cov) (fst (run_gen step s l)).
  Proof. intros l s cr HF Hok. destruct (fresh_run l s cr HF Hok) as [o [P [_ [_ [_ HC]]]]]. exact HC. Qed.
End Gen.

Lemma sched_ok_always {St Op : Type} (step : St -> Op -> St * cev) (s : St) (l : list Op) :
  sched_ok step (fun _ _ => true) s l = true.
Proof. revert s. induction l as [|op t IH]; intros s; cbn [sched_ok andb]; [reflexivity|apply IH]. Qed.

(** ** soundness of the executable monitor *)

Lemma strictly_increasing_sorted l :
  strictly_increasing l = true -> StronglySorted N.lt l.
Proof.
  induction l as [|a t IH]; intros H; [constructor|].
  destruct t as [|b t'].
  - constructor; constructor.
  - cbn [strictly_increasing] in H. apply andb_prop in H. destruct H as [Hab Ht].
    specialize (IH Ht). constructor; [exact IH|].
    inversion IH as [|b' t'' HSt HFb]; subst.
    constructor; [lia|]. eapply Forall_impl; [|exact HFb]. cbn beta. intros c Hc. lia.
Qed.

Lemma sorted_lt_nodup l : StronglySorted N.lt l -> NoDup l.
Proof.
  induction 1 as [|a l HS IH Ha]; constructor; [|exact IH].
  intro Hin. rewrite Forall_forall in Ha. specialize (Ha a Hin). lia.
Qed.

Lemma nodup_b_sound l : nodup_b l = true -> NoDup l.
Proof.
  unfold nodup_b. intros H.
  apply strictly_increasing_sorted, sorted_lt_nodup in H.
  eapply Permutation_NoDup; [|exact H].
  apply Permutation_sym, NSortC12.Permuted_sort.
Qed.

Lemma monitor_sound cov t :
  monitor cov t = true -> NoDup (yields t) /\ Forall (cev_cov cov) t.
Proof.
  unfold monitor. intros H. apply andb_prop in H. destruct H as [Hn Hc]. split.
  - apply nodup_b_sound. exact Hn.
  - rewrite forallb_forall in Hc. apply Forall_forall. intros e He.
    specialize (Hc e He). destruct e; cbn in *; auto.
Qed.

Lemma forall_cov_in cov t v kv :
  Forall (cev_cov cov) t -> In (EvYield v kv) t -> cov kv v = true.
Proof. intros HF Hin. rewrite Forall_forall in HF. exact (HF _ Hin). Qed.
