(** Lemmas about the receive-window model. *)
From RsM Require Import Lib.MachInt Lib.BitFacts Model.Dedup.
From Coq Require Import ZifyN ZifyBool.
Open Scope N_scope.

Arguments N.testbit : simpl never.
Arguments N.shiftl : simpl never.
Arguments N.lor : simpl never.
Arguments N.land : simpl never.
Arguments N.modulo : simpl never.
Arguments N.sub : simpl never.
Arguments N.add : simpl never.
Arguments N.leb : simpl never.
Arguments N.ltb : simpl never.
Arguments N.eqb : simpl never.

Lemma contains_spec s i : contains s i = N.testbit (bitmap s) i.
Proof. unfold contains. rewrite land_bit_eq0. apply negb_involutive. Qed.

Lemma insert_bit s i j :
  N.testbit (bitmap (insert s i)) j = N.testbit (bitmap s) j || (j =? i).
Proof. unfold insert. cbn [bitmap]. apply testbit_lor_bit. Qed.

Lemma insert_max s i : max_ctr (insert s i) = max_ctr s.
Proof. reflexivity. Qed.
Lemma insert_synced s i : synced (insert s i) = synced s.
Proof. reflexivity. Qed.

Lemma shl16_bit b d j :
  N.testbit (shl16 b d) j =
  (d <? 16) && ((j <? 16) && ((d <=? j) && N.testbit b (j - d))).
Proof.
  unfold shl16. destruct (N.ltb_spec d 16); cbn [andb].
  - rewrite two16_pow, testbit_mod_pow2, testbit_shiftl. reflexivity.
  - apply N.bits_0.
Qed.

(** ** Unicast (no roll-over) characterisation *)

Definition uni (s : rx) (c : N) (enc : bool) : rx * bool :=
  let m := max_ctr s in
  if c =? m then (s, false)
  else if c <? m then
    if m - c <=? 16 then
      if N.testbit (bitmap s) (m - c - 1) then (s, false)
      else (insert s (m - c - 1), true)
    else if enc then (s, false) else (mkRx true c 65535, true)
  else
    if c - m <=? 16 then
      (insert (mkRx true c (shl16 (bitmap s) (c - m))) (c - m - 1), true)
    else (mkRx true c 0, true).

Lemma post_recv_uni s c enc :
  synced s = true -> post_recv s c enc false = uni s c enc.
Proof.
  intros Hs. unfold post_recv, uni, absdiff, WIN. rewrite Hs. cbn [negb].
  destruct (N.eqb_spec c (max_ctr s)) as [|Hne]; [reflexivity|].
  destruct (N.ltb_spec c (max_ctr s)) as [Hlt|Hge].
  - assert (E : (max_ctr s <? c) = false) by lia. rewrite E. cbn [negb andb].
    destruct (N.leb_spec (max_ctr s - c) 16).
    + rewrite contains_spec. reflexivity.
    + destruct enc; reflexivity.
  - assert (E : (max_ctr s <? c) = true) by lia. rewrite E. cbn [negb andb].
    reflexivity.
Qed.

Lemma post_recv_unsynced s c enc roll :
  synced s = false -> post_recv s c enc roll = (mkRx true c 0, true).
Proof. intros Hs. unfold post_recv. rewrite Hs. reflexivity. Qed.

Lemma post_recv_synced s c enc roll :
  synced (fst (post_recv s c enc roll)) = true.
Proof.
  unfold post_recv.
  destruct (synced s) eqn:Hs; cbn [negb]; [|reflexivity].
  destruct (c =? max_ctr s); [assumption|].
  destruct (if roll then _ else _) as [fwd ud].
  destruct (negb fwd && (ud <=? WIN)).
  - destruct (contains s (ud - 1)); [assumption|]. cbn. assumption.
  - destruct fwd.
    + destruct (ud <=? WIN); reflexivity.
    + destruct (negb enc); [reflexivity|assumption].
Qed.

(** [Seen s v]: the state remembers [v] as not acceptable any more
    (encrypted unicast). *)
Definition Seen (s : rx) (v : N) : Prop :=
  synced s = true /\
  (v = max_ctr s \/
   (v < max_ctr s /\
    (16 < max_ctr s - v \/ N.testbit (bitmap s) (max_ctr s - v - 1) = true))).

Lemma rejects_iff_seen s v :
  snd (post_recv s v true false) = false <-> Seen s v.
Proof.
  unfold Seen. destruct (synced s) eqn:Hs.
  - rewrite post_recv_uni by assumption. unfold uni.
    destruct (N.eqb_spec v (max_ctr s)) as [->|Hne]; cbn [snd].
    { split; [intros _; split; [reflexivity|left; reflexivity]|reflexivity]. }
    destruct (N.ltb_spec v (max_ctr s)) as [Hlt|Hge].
    + destruct (N.leb_spec (max_ctr s - v) 16) as [Hle|Hgt].
      * destruct (N.testbit (bitmap s) (max_ctr s - v - 1)) eqn:Hb; cbn [snd].
        -- split; [intros _|reflexivity].
           split; [reflexivity|]. right. split; [assumption|]. right. reflexivity.
        -- split; [discriminate|]. intros [_ [H|[_ [H|H]]]]; first [lia|congruence].
      * cbn [snd]. split; [intros _|reflexivity].
        split; [reflexivity|]. right. split; [assumption|]. left. assumption.
    + destruct (N.leb_spec (v - max_ctr s) 16) as [Hq|Hq]; cbn [snd];
        (split; [discriminate|]); intros [_ [Hx|[Hx _]]]; lia.
  - rewrite post_recv_unsynced by assumption. cbn [snd].
    split; [discriminate|]. intros [H _]. discriminate.
Qed.

(** one-step facts in the [uni] form (encrypted) *)

Lemma uni_accept_then_seen s c s' :
  synced s = true -> uni s c true = (s', true) -> Seen s' c.
Proof.
  intros Hs. unfold uni, Seen.
  destruct (N.eqb_spec c (max_ctr s)) as [|Hne]; [discriminate|].
  destruct (N.ltb_spec c (max_ctr s)) as [Hlt|Hge].
  - destruct (N.leb_spec (max_ctr s - c) 16) as [Hle|Hgt]; [|discriminate].
    destruct (N.testbit (bitmap s) (max_ctr s - c - 1)) eqn:Hb; [discriminate|].
    intros H. injection H as <-. rewrite insert_synced, insert_max.
    split; [assumption|]. right. split; [assumption|]. right.
    rewrite insert_bit, N.eqb_refl. apply orb_true_r.
  - destruct (N.leb_spec (c - max_ctr s) 16) as [Hq|Hq]; intros H; injection H as <-;
      (split; [reflexivity|left; reflexivity]).
Qed.

Lemma uni_seen_stable s c v :
  Seen s v -> Seen (fst (uni s c true)) v.
Proof.
  intros [Hs Hv]. unfold uni.
  destruct (N.eqb_spec c (max_ctr s)) as [|Hne]; [split; assumption|].
  destruct (N.ltb_spec c (max_ctr s)) as [Hlt|Hge].
  - destruct (N.leb_spec (max_ctr s - c) 16) as [Hle|Hgt]; [|split; assumption].
    destruct (N.testbit (bitmap s) (max_ctr s - c - 1)) eqn:Hb; [split; assumption|].
    cbn [fst]. unfold Seen. rewrite insert_synced, insert_max.
    split; [assumption|].
    destruct Hv as [Hv|[Hv1 [Hv2|Hv2]]]; [left; assumption|right..].
    + split; [assumption|left; assumption].
    + split; [assumption|right]. rewrite insert_bit, Hv2. reflexivity.
  - assert (Hgt : max_ctr s < c) by lia.
    destruct (N.leb_spec (c - max_ctr s) 16) as [Hle|Hbig]; cbn [fst]; unfold Seen.
    + rewrite insert_synced, insert_max. cbn [synced max_ctr].
      split; [reflexivity|]. right.
      destruct Hv as [Hv|[Hv1 [Hv2|Hv2]]].
      * subst v. split; [assumption|]. right.
        rewrite insert_bit, N.eqb_refl. apply orb_true_r.
      * split; [lia|]. left. lia.
      * split; [lia|].
        destruct (N.lt_ge_cases 16 (c - v)) as [Hfar|Hnear]; [left; assumption|right].
        rewrite insert_bit. cbn [bitmap]. rewrite shl16_bit.
        replace (c - v - 1 - (c - max_ctr s)) with (max_ctr s - v - 1) by lia.
        rewrite Hv2.
        assert (E1 : (c - max_ctr s <? 16) = true) by lia.
        assert (E2 : (c - v - 1 <? 16) = true) by lia.
        assert (E3 : (c - max_ctr s <=? c - v - 1) = true) by lia.
        rewrite E1, E2, E3. reflexivity.
    + cbn [synced max_ctr bitmap]. split; [reflexivity|]. right.
      destruct Hv as [Hv|[Hv1 _]]; (split; [lia|left; lia]).
Qed.

(** ** Histories (encrypted unicast) *)

Lemma accepted_cons enc roll s c t :
  accepted enc roll s (c :: t) =
  (if snd (post_recv s c enc roll) then [c] else []) ++
  accepted enc roll (fst (post_recv s c enc roll)) t.
Proof.
  cbn [accepted]. destruct (post_recv s c enc roll) as [s' a]. cbn [fst snd].
  destruct a; reflexivity.
Qed.

Lemma final_cons enc roll s c t :
  final enc roll s (c :: t) = final enc roll (fst (post_recv s c enc roll)) t.
Proof. reflexivity. Qed.

Lemma accepted_app enc roll s h1 h2 :
  accepted enc roll s (h1 ++ h2) =
  accepted enc roll s h1 ++ accepted enc roll (final enc roll s h1) h2.
Proof.
  revert s. induction h1 as [|c t IH]; intros s; [reflexivity|].
  rewrite <- app_comm_cons, !accepted_cons, final_cons, IH, app_assoc. reflexivity.
Qed.

Lemma final_app enc roll s h1 h2 :
  final enc roll s (h1 ++ h2) = final enc roll (final enc roll s h1) h2.
Proof.
  revert s. induction h1 as [|c t IH]; intros s; [reflexivity|].
  rewrite <- app_comm_cons, !final_cons. apply IH.
Qed.

Lemma seen_stable s c v :
  Seen s v -> Seen (fst (post_recv s c true false)) v.
Proof.
  intros H. rewrite post_recv_uni by apply H. apply uni_seen_stable. assumption.
Qed.

Lemma accept_then_seen s c :
  snd (post_recv s c true false) = true ->
  Seen (fst (post_recv s c true false)) c.
Proof.
  destruct (synced s) eqn:Hs.
  - rewrite post_recv_uni by assumption.
    destruct (uni s c true) as [s' a] eqn:E. cbn [fst snd]. intros ->.
    eapply uni_accept_then_seen; eassumption.
  - rewrite post_recv_unsynced by assumption. cbn [fst snd]. intros _.
    split; [reflexivity|left; reflexivity].
Qed.

Lemma seen_not_accepted s v h :
  Seen s v -> ~ In v (accepted true false s h).
Proof.
  revert s. induction h as [|c t IH]; intros s Hv; [intros []|].
  rewrite accepted_cons. intros Hin. apply in_app_or in Hin as [Hin|Hin].
  - destruct (snd (post_recv s c true false)) eqn:Ha; [|destruct Hin].
    destruct Hin as [->|[]].
    apply rejects_iff_seen in Hv. congruence.
  - eapply IH; [|exact Hin]. apply seen_stable. assumption.
Qed.

Lemma never_twice s h : NoDup (accepted true false s h).
Proof.
  revert s. induction h as [|c t IH]; intros s; [constructor|].
  rewrite accepted_cons.
  destruct (snd (post_recv s c true false)) eqn:Ha; cbn [app]; [|apply IH].
  constructor; [|apply IH].
  apply seen_not_accepted. apply accept_then_seen. assumption.
Qed.

(** the same, phrased on positions of the history: an accepted
    occurrence of [v] is never followed by another accepted [v] *)
Lemma accepted_in_seen_final s h v :
  In v (accepted true false s h) -> Seen (final true false s h) v.
Proof.
  revert s. induction h as [|c t IH]; intros s; [intros []|].
  rewrite accepted_cons, final_cons. intros Hin.
  apply in_app_or in Hin as [Hin|Hin]; [|apply IH; assumption].
  destruct (snd (post_recv s c true false)) eqn:Ha; [|destruct Hin].
  destruct Hin as [->|[]].
  apply accept_then_seen in Ha.
  clear IH. revert Ha. generalize (fst (post_recv s v true false)).
  induction t as [|d t IH]; intros s0 H0; [assumption|].
  rewrite final_cons. apply IH. apply seen_stable. assumption.
Qed.

(** ** Invariant for the "fresh in window is accepted" direction:
    every set bit stands for a value that was accepted. *)
Definition BitsAccepted (s : rx) (A : list N) : Prop :=
  synced s = true ->
  In (max_ctr s) A /\
  forall k, N.testbit (bitmap s) k = true ->
            k < 16 /\ k + 1 <= max_ctr s /\ In (max_ctr s - 1 - k) A.

Lemma bits_unsynced : BitsAccepted rx_unsynced [].
Proof. intros H. discriminate. Qed.

Lemma bits_step s A c :
  BitsAccepted s A ->
  BitsAccepted (fst (post_recv s c true false))
               (A ++ if snd (post_recv s c true false) then [c] else []).
Proof.
  intros HI. destruct (synced s) eqn:Hs.
  2:{ rewrite post_recv_unsynced by assumption. cbn [fst snd]. intros _.
      cbn [max_ctr bitmap]. split; [apply in_or_app; right; left; reflexivity|].
      intros k Hk. rewrite N.bits_0 in Hk. discriminate. }
  destruct (HI Hs) as [Hmax Hbits].
  rewrite post_recv_uni by assumption. unfold uni.
  destruct (N.eqb_spec c (max_ctr s)) as [|Hne]; cbn [fst snd].
  { rewrite app_nil_r. intros _. split; assumption. }
  destruct (N.ltb_spec c (max_ctr s)) as [Hlt|Hge].
  - destruct (N.leb_spec (max_ctr s - c) 16) as [Hle|Hgt]; cbn [fst snd].
    2:{ rewrite app_nil_r. intros _. split; assumption. }
    destruct (N.testbit (bitmap s) (max_ctr s - c - 1)) eqn:Hb; cbn [fst snd].
    { rewrite app_nil_r. intros _. split; assumption. }
    intros _. rewrite insert_max. split; [apply in_or_app; left; assumption|].
    intros k Hk. rewrite insert_bit in Hk. apply orb_prop in Hk as [Hk|Hk].
    + destruct (Hbits k Hk) as (H1 & H2 & H3).
      repeat split; try assumption. apply in_or_app; left; assumption.
    + apply N.eqb_eq in Hk. subst k. repeat split; try lia.
      apply in_or_app. right. left. lia.
  - assert (Hgt : max_ctr s < c) by lia.
    destruct (N.leb_spec (c - max_ctr s) 16) as [Hle|Hbig]; cbn [fst snd]; intros _.
    + rewrite insert_max. cbn [max_ctr].
      split; [apply in_or_app; right; left; reflexivity|].
      intros k Hk. rewrite insert_bit in Hk. cbn [bitmap] in Hk.
      apply orb_prop in Hk as [Hk|Hk].
      * rewrite shl16_bit in Hk.
        apply andb_prop in Hk as [K1 Hk]. apply andb_prop in Hk as [K2 Hk].
        apply andb_prop in Hk as [K3 Hk].
        destruct (Hbits _ Hk) as (H1 & H2 & H3).
        repeat split; try lia. apply in_or_app. left.
        replace (c - 1 - k) with (max_ctr s - 1 - (k - (c - max_ctr s))) by lia.
        assumption.
      * apply N.eqb_eq in Hk. subst k. repeat split; try lia.
        apply in_or_app. left.
        replace (c - 1 - (c - max_ctr s - 1)) with (max_ctr s) by lia. assumption.
    + cbn [max_ctr bitmap]. split; [apply in_or_app; right; left; reflexivity|].
      intros k Hk. rewrite N.bits_0 in Hk. discriminate.
Qed.

Lemma accepted_snoc s h c :
  accepted true false s (h ++ [c]) =
  accepted true false s h ++
  (if snd (post_recv (final true false s h) c true false) then [c] else []).
Proof.
  rewrite accepted_app. f_equal. rewrite accepted_cons. cbn [accepted].
  apply app_nil_r.
Qed.

Lemma bits_history h :
  BitsAccepted (final true false rx_unsynced h) (accepted true false rx_unsynced h).
Proof.
  induction h as [|c t IH] using rev_ind; [apply bits_unsynced|].
  rewrite final_app, accepted_snoc. cbn [final]. apply bits_step. assumption.
Qed.
