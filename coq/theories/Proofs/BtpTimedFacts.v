(** The timed two-party system: it only performs schedules of the untimed one
    (so every safety theorem carries over to every timing), whoever owes an ACK
    has a running ACK deadline, and at the deadline the ACK can be sent. *)
From RsM Require Import Lib.MachInt Model.Btp Model.BtpSpec Model.BtpTimed
  Proofs.BtpCodec Proofs.BtpFacts Proofs.BtpHostile Proofs.BtpPair.
From Coq Require Import ZifyN ZifyBool.
Open Scope N_scope.

Arguments N.add : simpl never.
Arguments N.sub : simpl never.
Arguments N.mul : simpl never.
Arguments N.leb : simpl never.
Arguments N.ltb : simpl never.
Arguments N.eqb : simpl never.

Lemma t_sys_set_clk t x k : t_sys (set_clk t x k) = t_sys t.
Proof. destruct x; reflexivity. Qed.

Lemma t_now_set_clk t x k : t_now (set_clk t x k) = t_now t.
Proof. destruct x; reflexivity. Qed.

Lemma clk_after_sys c t o s' r : t_sys (clk_after c t o s' r) = s'.
Proof.
  unfold clk_after. destruct o as [d|x d|x|x|x]; try reflexivity.
  - destruct r as [|[|? ?]| | | |]; try reflexivity. apply t_sys_set_clk.
  - destruct r; try reflexivity. destruct (ch_to (t_sys t) x); [reflexivity|].
    destruct (is_data_seg b); apply t_sys_set_clk.
Qed.

Lemma tstep_sys c t o :
  t_sys (fst (tstep c t o)) =
  match untimed t o with Some so => fst (sys_step c (t_sys t) so) | None => t_sys t end.
Proof.
  unfold tstep. destruct (untimed t o) as [so|]; [|reflexivity].
  destruct (sys_step c (t_sys t) so) as [s' r]. cbn [fst]. apply clk_after_sys.
Qed.

(** a timed run is an untimed run of its schedule *)
Theorem trun_projects c ops : forall t,
  t_sys (fst (trun c t ops)) = fst (sys_run c (t_sys t) (schedule_of c t ops)).
Proof.
  induction ops as [|o ops IH]; intro t; [reflexivity|].
  cbn [trun schedule_of].
  pose proof (tstep_sys c t o) as Hs.
  destruct (tstep c t o) as [t1 r] eqn:Et. cbn [fst] in *.
  specialize (IH t1). destruct (trun c t1 ops) as [t2 rs]. cbn [fst] in *.
  destruct (untimed t o) as [so|].
  - rewrite sys_run_cons. cbn [fst]. rewrite <- Hs. exact IH.
  - rewrite <- Hs. exact IH.
Qed.

Section Timed.
Variables (m w : N).
Hypothesis Hm : 20 <= m <= 244.
Hypothesis Hw : 1 <= w <= 255.
Hypothesis Hcapmw : w * m + 1234 <= RX_CAP.
Variable c : cfg.

(** reachable timed states: an invariant of the untimed part, and whoever owes
    an ACK has its ACK timer running *)
Definition tinv (t : tsys) : Prop :=
  (exists p, sysinv m w c (t_sys t) p) /\
  (1 <= rack_level (recv (sess (epA (t_sys t)))) -> received_at (t_clkA t) <> None) /\
  (1 <= rack_level (recv (sess (epB (t_sys t)))) -> received_at (t_clkB t) <> None).

Lemma chan_all_data s p :
  sysinv m w c s p ->
  Forall (fun b => is_data_seg b = true) (chAB s) /\ Forall (fun b => is_data_seg b = true) (chBA s).
Proof.
  intros ((_ & _ & Hd1 & Hd2 & _) & _).
  destruct Hd1 as (? & ? & ? & _ & _ & _ & _ & _ & _ & _ & _ & _ & _ & H1 & _).
  destruct Hd2 as (? & ? & ? & _ & _ & _ & _ & _ & _ & _ & _ & _ & _ & H2 & _).
  split; (eapply Forall_impl; [|eassumption]); intros b Hb; eapply seg_ok_data; exact Hb.
Qed.

Lemma tinv_init ver rel t0 : tinv (tsys_established c ver m w rel t0).
Proof.
  unfold tinv, tsys_established. cbn [t_sys t_clkA t_clkB received_at].
  split; [exists ps_established; apply established_inv; assumption|].
  split; [intros _; discriminate|]. unfold sys_established. cbn [epB sess recv rack_level]. lia.
Qed.

Lemma tinv_step t o : tinv t -> tinv (fst (tstep c t o)).
Proof.
  intros ((p & Hinv) & HA & HB). unfold tstep.
  destruct (untimed t o) as [so|] eqn:Eu; [|cbn [fst]; unfold tinv; cbn [t_sys t_clkA t_clkB]; eauto].
  pose proof (sys_step_inv m w Hm Hw Hcapmw c (t_sys t) p so Hinv) as Hs. cbv zeta in Hs.
  destruct (sys_step c (t_sys t) so) as [s' r] eqn:Estep. cbn [fst snd] in *.
  destruct Hs as (p' & Hst & Hinv' & _).
  pose proof (chan_all_data _ _ Hinv) as (HdAB & HdBA).
  pose proof Hinv as (_ & _ & _ & Hoab & Hoba).
  pose proof Hinv' as (_ & _ & _ & Hoab' & Hoba').
  unfold tinv. rewrite clk_after_sys. split; [eauto|].
  rewrite <- Hoab', <- Hoba'. rewrite <- Hoab in HB. rewrite <- Hoba in HA.
  clear Hinv Hinv' Hoab Hoba Hoab' Hoba'.
  unfold pmon_step in Hst. destruct (is_bad r); [discriminate|].
  destruct o as [d|x d|x|x|x]; cbn [untimed] in Eu; inversion Eu; subst so; clear Eu;
    unfold clk_after.
  - (* submit *)
    destruct r; try discriminate; cbn [t_clkA t_clkB].
    + inversion Hst; subst p'. auto.
    + destruct x; inversion Hst; subst p'; cbn [o_ab o_ba]; auto.
    + destruct (_ || _); inversion Hst; subst p'. auto.
  - (* poll *)
    destruct r as [|[|b0 bl]| | | |]; try discriminate; inversion Hst; subst p'.
    + cbn [t_clkA t_clkB]. auto.
    + unfold ps_emit. destruct x; cbn [set_clk clk_of t_clkA t_clkB received_at o_ab o_ba];
        destruct (seg_has_ack (b0 :: bl)); split; try (intros; lia); auto.
  - (* deliver *)
    destruct r; try discriminate; inversion Hst; subst p'; [|cbn [t_clkA t_clkB]; auto].
    destruct (ch_to (t_sys t) x) as [|b rest] eqn:Ech.
    + (* nothing in flight: the answer is RNone, not RUnit *)
      exfalso. cbn [sys_step] in Estep. rewrite Ech in Estep. inversion Estep.
    + assert (Hdata : is_data_seg b = true).
      { destruct x; cbn [ch_to] in Ech; rewrite Ech in *; [exact (Forall_inv HdBA)|exact (Forall_inv HdAB)]. }
      destruct x; cbn [ch_to] in Ech; rewrite Ech in *; unfold ps_deliver; rewrite Hdata;
        cbn [set_clk clk_of t_clkA t_clkB received_at o_ab o_ba];
        split; try (intros _; discriminate); try (intros; lia); auto.
  - (* fetch *)
    destruct r; try discriminate; cbn [t_clkA t_clkB].
    + destruct x.
      * destruct (w_ba p) as [|d0 l0]; [discriminate|]. destruct (bytes_eqb b d0); inversion Hst; subst p'. auto.
      * destruct (w_ab p) as [|d0 l0]; [discriminate|]. destruct (bytes_eqb b d0); inversion Hst; subst p'. auto.
    + inversion Hst; subst p'. auto.
Qed.

Lemma tinv_run ops : forall t, tinv t -> tinv (fst (trun c t ops)).
Proof.
  induction ops as [|o ops IH]; intros t Ht; [exact Ht|].
  cbn [trun]. pose proof (tinv_step t o Ht) as H1.
  destruct (tstep c t o) as [t1 r]. cbn [fst] in *.
  specialize (IH t1 H1). destruct (trun c t1 ops) as [t2 rs]. exact IH.
Qed.

(** whoever owes an ACK has a deadline *)
Theorem owed_ack_has_deadline ver rel t0 ops x :
  let t := fst (trun c (tsys_established c ver m w rel t0) ops) in
  1 <= rack_level (recv (sess (ep (t_sys t) x))) -> received_at (clk_of t x) <> None.
Proof.
  cbv zeta. pose proof (tinv_run ops _ (tinv_init ver rel t0)) as (_ & HA & HB).
  destruct x; cbn [ep clk_of]; assumption.
Qed.

(** at the deadline the ACK goes out with the next poll (the application has
    taken its messages, the own send window is not exhausted) *)
Theorem ack_by_deadline ver rel t0 ops x r :
  let t := fst (trun c (tsys_established c ver m w rel t0) ops) in
  received_at (clk_of t x) = Some r -> r + ACK_TIMEOUT <= t_now t ->
  1 <= rack_level (recv (sess (ep (t_sys t) x))) -> rmsgs (recv (sess (ep (t_sys t) x))) = 0 ->
  1 <= slevel (send (sess (ep (t_sys t) x))) ->
  exists b h p,
    snd (tstep c t (TPoll x)) = Some (RBytes b) /\ hdr_decode b = Ok (h, p) /\
    get_ack h = Some (rack_seq (recv (sess (ep (t_sys t) x)))).
Proof.
  cbv zeta. intros Hr Hd Hrk Hm0 Hl.
  set (t := fst (trun c (tsys_established c ver m w rel t0) ops)) in *.
  pose proof (tinv_run ops _ (tinv_init ver rel t0)) as ((p & Hinv) & _). fold t in Hinv.
  assert (Hexp : ack_timer_expired t x = true).
  { unfold ack_timer_expired. rewrite Hr. lia. }
  assert (Hdue : is_ack_due (sess (ep (t_sys t) x)) (ack_timer_expired t x) = true).
  { rewrite Hexp. unfold is_ack_due, rw_pending_ack. rewrite Hm0.
    destruct (N.ltb_spec 0 (rack_level (recv (sess (ep (t_sys t) x))))); [|lia].
    rewrite orb_true_r. reflexivity. }
  destruct Hinv as (H2 & _).
  assert (Hview : exists b h p0,
            snd (step (ep (t_sys t) x) (OOut (gatt_of c x) (ack_timer_expired t x) POLL_CAP)) = RBytes b /\
            hdr_decode b = Ok (h, p0) /\ get_ack h = Some (rack_seq (recv (sess (ep (t_sys t) x))))).
  { destruct x; cbn [ep gatt_of] in *.
    - destruct (ack_enabled_view m w Hm Hw Hcapmw _ _ _ _ _ _ _ _ (gattA c) _ H2 Hdue Hl) as (b & h & p0 & E1 & E2 & E3 & _).
      exists b, h, p0. repeat split; assumption.
    - destruct (ack_enabled_view m w Hm Hw Hcapmw _ _ _ _ _ _ _ _ (gattB c) _
                  (sysinv2_sym m w Hm Hw Hcapmw _ _ _ _ _ _ _ _ H2) Hdue Hl) as (b & h & p0 & E1 & E2 & E3 & _).
      exists b, h, p0. repeat split; assumption. }
  destruct Hview as (b & h & p0 & E1 & E2 & E3).
  exists b, h, p0. split; [|split; assumption].
  unfold tstep. cbn [untimed sys_step].
  destruct (step (ep (t_sys t) x) (OOut (gatt_of c x) (ack_timer_expired t x) POLL_CAP)) as [i r0].
  cbn [snd] in E1. subst r0. destruct b; reflexivity.
Qed.

End Timed.
