(** Codec and list facts for the BTP model. *)
From RsM Require Import Lib.MachInt Model.Btp Model.BtpSpec.
From Coq Require Import ZifyN ZifyBool.
Open Scope N_scope.

Ltac Zify.zify_post_hook ::= Z.div_mod_to_equations.

Arguments N.add : simpl never.
Arguments N.sub : simpl never.
Arguments N.mul : simpl never.
Arguments N.div : simpl never.
Arguments N.modulo : simpl never.
Arguments N.leb : simpl never.
Arguments N.ltb : simpl never.
Arguments N.eqb : simpl never.
Arguments N.min : simpl never.
Arguments N.max : simpl never.
Arguments N.of_nat : simpl never.
Arguments N.to_nat : simpl never.

(** * lengths *)

Lemma blen_nil : blen [] = 0.
Proof. reflexivity. Qed.

Lemma blen_cons x l : blen (x :: l) = blen l + 1.
Proof. unfold blen. cbn [length]. lia. Qed.

Lemma blen_app a b : blen (a ++ b) = blen a + blen b.
Proof. unfold blen. rewrite app_length. lia. Qed.

Lemma blen_0 l : blen l = 0 -> l = [].
Proof. destruct l; [reflexivity|]. rewrite blen_cons. lia. Qed.

Lemma blen_eqb_0 l : (blen l =? 0) = true -> l = [].
Proof. intro H. apply blen_0. lia. Qed.

Lemma blen_le16 x : blen (le16 x) = 2.
Proof. reflexivity. Qed.

Lemma blen_firstn n l : blen (firstn n l) = N.min (N.of_nat n) (blen l).
Proof. unfold blen. rewrite firstn_length. lia. Qed.

Lemma blen_skipn n l : blen (skipn n l) = blen l - N.of_nat n.
Proof. unfold blen. rewrite skipn_length. lia. Qed.

Lemma firstn_blen_app (a b : bytes) : firstn (N.to_nat (blen a)) (a ++ b) = a.
Proof.
  unfold blen. rewrite Nat2N.id. rewrite firstn_app, Nat.sub_diag, firstn_all.
  cbn [firstn]. apply app_nil_r.
Qed.

Lemma skipn_blen_app (a b : bytes) : skipn (N.to_nat (blen a)) (a ++ b) = b.
Proof.
  unfold blen. rewrite Nat2N.id. rewrite skipn_app, Nat.sub_diag, skipn_all.
  reflexivity.
Qed.

Lemma skipn_skipn' {A} (a b : nat) (l : list A) : skipn a (skipn b l) = skipn (a + b) l.
Proof.
  revert l. induction b as [|b IH]; intro l.
  - rewrite Nat.add_0_r. reflexivity.
  - rewrite Nat.add_succ_r. destruct l as [|x l]; cbn [skipn].
    + destruct a; reflexivity.
    + apply IH.
Qed.

Lemma bytes_eqb_refl a : bytes_eqb a a = true.
Proof. induction a as [|x a IH]; [reflexivity|]. cbn [bytes_eqb]. rewrite N.eqb_refl, IH. reflexivity. Qed.

Lemma bytes_eqb_eq a b : bytes_eqb a b = true -> a = b.
Proof.
  revert b. induction a as [|x a IH]; intros [|y b] H; cbn [bytes_eqb] in H; try discriminate.
  - reflexivity.
  - apply andb_true_iff in H. destruct H as [H1 H2]. apply N.eqb_eq in H1. subst y.
    f_equal. apply IH. exact H2.
Qed.

(** * le16 *)

Lemma le16_value x : x mod 256 + 256 * (x / 256) = x.
Proof. lia. Qed.

Lemma le16_inj a b : le16 a = le16 b -> a = b.
Proof. unfold le16. intro H. injection H as H1 H2. lia. Qed.

(** the ring buffer is a queue as long as nothing is pushed beyond its capacity *)
Lemma rb_push_fits buf data :
  blen buf + blen data <= RX_CAP -> rb_push buf data = buf ++ data.
Proof.
  intro H. unfold rb_push.
  assert (E : (length (buf ++ data) - N.to_nat RX_CAP)%nat = 0%nat).
  { rewrite app_length. unfold blen in H. lia. }
  rewrite E. reflexivity.
Qed.

(** * header codec *)

Definition hdr_wf (h : hdr) : Prop :=
  (fM h = false -> h_op h = 0) /\ (fA h = false -> h_ack h = 0) /\
  (fH h = true -> h_seq h = 0) /\ (fB h && negb (fH h) = false -> h_len h = 0).

Lemma flags_byte_bits h :
  N.testbit (flags_byte h) 6 = fH h /\ N.testbit (flags_byte h) 5 = fM h /\
  N.testbit (flags_byte h) 3 = fA h /\ N.testbit (flags_byte h) 2 = fE h /\
  N.testbit (flags_byte h) 1 = fC h /\ N.testbit (flags_byte h) 0 = fB h.
Proof.
  destruct h as [H M A E C B op ack seq len]. unfold flags_byte. cbn [fH fM fA fE fC fB].
  destruct H, M, A, E, C, B; vm_compute; repeat split; reflexivity.
Qed.

Theorem hdr_decode_encode h p :
  hdr_wf h -> hdr_decode (hdr_encode h ++ p) = Ok (h, p).
Proof.
  intros (Hop & Hack & Hseq & Hlen).
  unfold hdr_decode, hdr_encode. cbn [app take1 bind].
  destruct (flags_byte_bits h) as (B6 & B5 & B3 & B2 & B1 & B0).
  rewrite B6, B5, B3, B2, B1, B0.
  destruct h as [H M A E C B op ack seq len].
  cbn [fH fM fA fE fC fB h_op h_ack h_seq h_len] in *.
  destruct M; [|rewrite (Hop eq_refl)];
  destruct A; try rewrite (Hack eq_refl);
  destruct H; try rewrite (Hseq eq_refl);
  destruct B; cbn [andb negb] in *; try rewrite (Hlen eq_refl);
  cbn [app take1 bind le16 negb andb]; try rewrite le16_value; reflexivity.
Qed.

Lemma hdr_len_encode h : blen (hdr_encode h) = hdr_len h.
Proof.
  unfold hdr_encode, hdr_len.
  destruct (fM h), (fA h), (fH h), (fB h); reflexivity.
Qed.

Lemma hdr_len_bounds h : 1 <= hdr_len h <= 6.
Proof.
  unfold hdr_len, b2n. destruct (fM h), (fA h), (fH h), (fB h); cbn [negb andb]; lia.
Qed.
