(** Facts about the change table of Model/Subs.v: the scanning loops only ever
    drop what they are asked to drop, and recording a change never loses the
    coverage ("some entry matching p with an id above w") that existed before. *)
From Coq Require Import ZifyN ZifyBool.
From RsM Require Import Model.Subs.
Open Scope N_scope.

Arguments N.add : simpl never.
Arguments N.mul : simpl never.
Arguments N.sub : simpl never.
Arguments N.max : simpl never.
Arguments N.min : simpl never.
Arguments N.modulo : simpl never.
Arguments N.ltb : simpl never.
Arguments N.leb : simpl never.
Arguments N.eqb : simpl never.

(** * swap_remove / swap_filter *)

Lemma last_removelast_perm : forall {A} (t : list A) (d : A),
  t <> [] -> forall y, In y t <-> In y (last t d :: removelast t).
Proof.
  intros A t d Hne y.
  rewrite (app_removelast_last d Hne) at 1.
  rewrite in_app_iff. cbn [In]. tauto.
Qed.

Lemma swap_remove_In : forall {A} i (l : list A) y, In y (swap_remove i l) -> In y l.
Proof.
  intros A i l. revert i. induction l as [|x t IH]; intros i y Hin.
  - destruct i; exact Hin.
  - destruct i as [|k].
    + cbn [swap_remove] in Hin. destruct t as [|z t'].
      * destruct Hin.
      * right. apply (last_removelast_perm (z :: t') x); [discriminate|exact Hin].
    + cbn [swap_remove] in Hin. destruct Hin as [Heq|Hin].
      * left; exact Heq.
      * right. apply (IH k). exact Hin.
Qed.

Lemma swap_remove_keep : forall {A} i (l : list A) x y,
  nth_error l i = Some x -> In y l -> y <> x -> In y (swap_remove i l).
Proof.
  intros A i l. revert i. induction l as [|h t IH]; intros i x y Hn Hin Hne.
  - destruct Hin.
  - destruct i as [|k].
    + cbn in Hn. injection Hn as Hn. subst h.
      destruct Hin as [Heq|Hin]; [congruence|].
      cbn [swap_remove]. destruct t as [|z t']; [destruct Hin|].
      apply (last_removelast_perm (z :: t') x); [discriminate|exact Hin].
    + cbn in Hn. cbn [swap_remove]. destruct Hin as [Heq|Hin].
      * left; exact Heq.
      * right. apply (IH k x); assumption.
Qed.

Lemma swap_remove_length : forall {A} i (l : list A), (length (swap_remove i l) <= length l)%nat.
Proof.
  intros A i l. revert i. induction l as [|h t IH]; intros i.
  - destruct i; cbn; lia.
  - destruct i as [|k]; cbn [swap_remove].
    + destruct t as [|z t']; [cbn; lia|].
      cbn [length]. assert (Hl : (length (removelast (z :: t')) <= length (z :: t'))%nat).
      { clear. generalize (z :: t'). intro l. induction l as [|a l IHl]; [cbn; lia|].
        cbn [removelast]. destruct l; cbn [length] in *; lia. }
      cbn [length] in Hl. lia.
    + cbn [length]. specialize (IH k). lia.
Qed.

Lemma swap_filter_aux_In : forall {A} (rm : A -> bool) fuel i l y,
  In y (swap_filter_aux rm fuel i l) -> In y l.
Proof.
  intros A rm fuel. induction fuel as [|f IH]; intros i l y Hin.
  - exact Hin.
  - cbn [swap_filter_aux] in Hin. destruct (nth_error l i) as [x|] eqn:Hn; [|exact Hin].
    destruct (rm x).
    + apply (swap_remove_In i). apply (IH i). exact Hin.
    + apply (IH (S i)). exact Hin.
Qed.

Lemma swap_filter_aux_keep : forall {A} (rm : A -> bool) fuel i l y,
  In y l -> rm y = false -> In y (swap_filter_aux rm fuel i l).
Proof.
  intros A rm fuel. induction fuel as [|f IH]; intros i l y Hin Hrm.
  - exact Hin.
  - cbn [swap_filter_aux]. destruct (nth_error l i) as [x|] eqn:Hn; [|exact Hin].
    destruct (rm x) eqn:Hx.
    + apply IH; [|exact Hrm]. apply (swap_remove_keep i l x); [exact Hn|exact Hin|congruence].
    + apply IH; assumption.
Qed.

Lemma swap_filter_aux_length : forall {A} (rm : A -> bool) fuel i l,
  (length (swap_filter_aux rm fuel i l) <= length l)%nat.
Proof.
  intros A rm fuel. induction fuel as [|f IH]; intros i l.
  - cbn. lia.
  - cbn [swap_filter_aux]. destruct (nth_error l i) as [x|]; [|lia].
    destruct (rm x).
    + specialize (IH i (swap_remove i l)). pose proof (swap_remove_length i l). lia.
    + apply IH.
Qed.

Lemma swap_filter_In : forall {A} (rm : A -> bool) l y, In y (swap_filter rm l) -> In y l.
Proof. intros. eapply swap_filter_aux_In; eassumption. Qed.
Lemma swap_filter_keep : forall {A} (rm : A -> bool) l y,
  In y l -> rm y = false -> In y (swap_filter rm l).
Proof. intros. apply swap_filter_aux_keep; assumption. Qed.
Lemma swap_filter_length : forall {A} (rm : A -> bool) l, (length (swap_filter rm l) <= length l)%nat.
Proof. intros. apply swap_filter_aux_length. Qed.

(** * paths *)

Lemma path_eqb_eq : forall a b, path_eqb a b = true <-> a = b.
Proof.
  intros [a1 a2 a3] [b1 b2 b3]. unfold path_eqb. cbn [p_ep p_cl p_at].
  rewrite !andb_true_iff, !N.eqb_eq. split.
  - intros [[H1 H2] H3]. subst. reflexivity.
  - intros H. injection H as H1 H2 H3. subst. auto.
Qed.
Lemma path_eqb_refl : forall a, path_eqb a a = true.
Proof. intros. apply path_eqb_eq. reflexivity. Qed.
Lemma path_eqb_sym : forall a b, path_eqb a b = path_eqb b a.
Proof.
  intros a b. destruct (path_eqb a b) eqn:H1; destruct (path_eqb b a) eqn:H2; try reflexivity.
  - apply path_eqb_eq in H1. subst. rewrite path_eqb_refl in H2. discriminate.
  - apply path_eqb_eq in H2. subst. rewrite path_eqb_refl in H1. discriminate.
Qed.

Lemma mem_path_In : forall p l, mem_path p l = true <-> In p l.
Proof.
  intros p l. unfold mem_path. rewrite existsb_exists. split.
  - intros [q [Hin Heq]]. apply path_eqb_eq in Heq. subst. exact Hin.
  - intros Hin. exists p. split; [exact Hin|apply path_eqb_refl].
Qed.

Lemma lookup_cons_eq : forall p n l, lookup p ((p, n) :: l) = Some n.
Proof. intros. unfold lookup. cbn [find fst snd]. rewrite path_eqb_refl. reflexivity. Qed.
Lemma lookup_cons_neq : forall p q n l, path_eqb q p = false -> lookup p ((q, n) :: l) = lookup p l.
Proof. intros p q n l H. unfold lookup. cbn [find fst snd]. rewrite H. reflexivity. Qed.
Lemma lookup_app : forall p a b,
  lookup p (a ++ b) = match lookup p a with Some v => Some v | None => lookup p b end.
Proof.
  intros p a b. induction a as [|[q n] a IH].
  - reflexivity.
  - cbn [app]. destruct (path_eqb q p) eqn:Hq.
    + apply path_eqb_eq in Hq. subst q. rewrite !lookup_cons_eq. reflexivity.
    + rewrite !lookup_cons_neq by exact Hq. exact IH.
Qed.
Lemma lookup_Some_In : forall p l w, lookup p l = Some w -> In (p, w) l.
Proof.
  intros p l w. induction l as [|[q n] l IH]; intros H.
  - discriminate.
  - destruct (path_eqb q p) eqn:Hq.
    + apply path_eqb_eq in Hq. subst q. rewrite lookup_cons_eq in H. injection H as H. subst. left. reflexivity.
    + rewrite lookup_cons_neq in H by exact Hq. right. apply IH. exact H.
Qed.

(** * entries *)

Lemma covers_matches : forall a b p, covers a b = true -> matches b p = true -> matches a p = true.
Proof.
  intros a b p. unfold covers, matches, cov1.
  destruct (e_ep a =? WILD_EP) eqn:A1; destruct (e_cl a =? WILD_CL) eqn:A2; destruct (e_at a =? WILD_AT) eqn:A3;
  destruct (e_ep b =? WILD_EP) eqn:B1; destruct (e_cl b =? WILD_CL) eqn:B2; destruct (e_at b =? WILD_AT) eqn:B3;
  cbn [orb andb]; intros Hc Hm; try discriminate; try reflexivity;
  rewrite ?andb_true_iff, ?N.eqb_eq in *; intuition (subst; try congruence; rewrite ?N.eqb_refl; auto).
Qed.

Lemma matches_set_id : forall e id p, matches (set_id e id) p = matches e p.
Proof. intros. reflexivity. Qed.

Lemma matches_global : forall id p, matches (mkEntry WILD_EP WILD_CL WILD_AT id) p = true.
Proof. intros. reflexivity. Qed.

Lemma coarsen_covers_matches : forall level e c p,
  coarsen level e = Some c -> forall x, covers c x = true -> matches x p = true -> matches c p = true.
Proof. intros level e c p _ x Hc Hm. eapply covers_matches; eassumption. Qed.

(** coverage *)
Definition cs := contains_since.

Lemma cs_exists : forall l p w,
  contains_since l p w = true <-> exists e, In e l /\ w < e_id e /\ matches e p = true.
Proof.
  intros l p w. unfold contains_since. rewrite existsb_exists. split.
  - intros [e [Hin H]]. apply andb_true_iff in H. destruct H as [H1 H2]. exists e. split; [exact Hin|]. split; [lia|exact H2].
  - intros [e [Hin [H1 H2]]]. exists e. split; [exact Hin|]. apply andb_true_iff. split; [lia|exact H2].
Qed.

Lemma cs_any : forall l p w, contains_since l p w = true -> any_since l w = true.
Proof.
  intros l p w H. apply cs_exists in H. destruct H as [e [Hin [H1 _]]].
  unfold any_since. apply existsb_exists. exists e. split; [exact Hin|lia].
Qed.

Lemma cs_weaken : forall l p w w', contains_since l p w = true -> w' <= w -> contains_since l p w' = true.
Proof.
  intros l p w w' H Hle. apply cs_exists in H. destruct H as [e [Hin [H1 H2]]].
  apply cs_exists. exists e. split; [exact Hin|]. split; [lia|exact H2].
Qed.

(** [max_id] *)
Lemma max_id_acc : forall (f : entry -> bool) l a,
  fold_left (fun m e => if f e then N.max m (e_id e) else m) l a =
  N.max a (fold_left (fun m e => if f e then N.max m (e_id e) else m) l 0).
Proof.
  intros f l. induction l as [|e l IH]; intros a.
  - cbn [fold_left]. lia.
  - cbn [fold_left]. rewrite IH. rewrite (IH (if f e then N.max 0 (e_id e) else 0)).
    destruct (f e); lia.
Qed.

Lemma max_id_cons : forall f e l,
  max_id f (e :: l) = N.max (if f e then e_id e else 0) (max_id f l).
Proof.
  intros f e l. unfold max_id. cbn [fold_left]. rewrite max_id_acc. destruct (f e); lia.
Qed.

Lemma max_id_ge : forall f l e, In e l -> f e = true -> e_id e <= max_id f l.
Proof.
  intros f l. induction l as [|x l IH]; intros e Hin Hf.
  - destruct Hin.
  - rewrite max_id_cons. destruct Hin as [Heq|Hin].
    + subst x. rewrite Hf. lia.
    + specialize (IH e Hin Hf). lia.
Qed.

Lemma max_id_le : forall f l M, (forall e, In e l -> e_id e <= M) -> max_id f l <= M.
Proof.
  intros f l M. induction l as [|x l IH]; intros H.
  - unfold max_id. cbn. lia.
  - rewrite max_id_cons. assert (Hx : e_id x <= M) by (apply H; left; reflexivity).
    assert (Hl : max_id f l <= M) by (apply IH; intros e He; apply H; right; exact He).
    destruct (f x); lia.
Qed.

(** [refresh_first] *)
Lemma refresh_first_facts : forall new l l',
  refresh_first new l = Some l' ->
  (forall e, In e l -> e_id e <= e_id new) ->
  (forall p w, contains_since l p w = true -> contains_since l' p w = true) /\
  (forall p w, matches new p = true -> w < e_id new -> contains_since l' p w = true) /\
  (forall M, (forall e, In e l -> e_id e <= M) -> e_id new <= M -> forall e, In e l' -> e_id e <= M).
Proof.
  intros new l. induction l as [|x t IH]; intros l' Hr Hb.
  - discriminate.
  - cbn [refresh_first] in Hr. destruct (covers x new) eqn:Hc.
    + injection Hr as Hr. subst l'. split; [|split].
      * intros p w H. apply cs_exists in H. destruct H as [e [Hin [H1 H2]]]. apply cs_exists.
        destruct Hin as [Heq|Hin].
        -- subst e. exists (set_id x (e_id new)). split; [left; reflexivity|].
           split; [|exact H2]. cbn. specialize (Hb x (or_introl eq_refl)). lia.
        -- exists e. split; [right; exact Hin|]. split; assumption.
      * intros p w Hm Hw. apply cs_exists. exists (set_id x (e_id new)). split; [left; reflexivity|].
        split; [cbn; exact Hw|]. rewrite matches_set_id. eapply covers_matches; eassumption.
      * intros M HM Hn e Hin. destruct Hin as [Heq|Hin].
        -- subst e. cbn. exact Hn.
        -- apply HM. right. exact Hin.
    + destruct (refresh_first new t) as [t'|] eqn:Ht; [|discriminate].
      cbn in Hr. injection Hr as Hr. subst l'.
      destruct (IH t' eq_refl) as [I1 [I2 I3]].
      { intros e He. apply Hb. right. exact He. }
      split; [|split].
      * intros p w H. apply cs_exists in H. destruct H as [e [Hin [H1 H2]]].
        destruct Hin as [Heq|Hin].
        -- subst e. apply cs_exists. exists x. split; [left; reflexivity|]. split; assumption.
        -- assert (Hc' : contains_since t p w = true).
           { apply cs_exists. exists e. split; [exact Hin|]. split; assumption. }
           apply I1 in Hc'. apply cs_exists in Hc'. destruct Hc' as [e' [Hin' H']].
           apply cs_exists. exists e'. split; [right; exact Hin'|exact H'].
      * intros p w Hm Hw. specialize (I2 p w Hm Hw). apply cs_exists in I2. destruct I2 as [e' [Hin' H']].
        apply cs_exists. exists e'. split; [right; exact Hin'|exact H'].
      * intros M HM Hn e Hin. destruct Hin as [Heq|Hin].
        -- subst e. apply HM. left. reflexivity.
        -- apply (I3 M); [intros e' He'; apply HM; right; exact He'|exact Hn|exact Hin].
Qed.

(** removing what [new] covers, then appending [new] *)
Lemma drop_covered_push_facts : forall new l,
  (forall e, In e l -> e_id e <= e_id new) ->
  let l' := swap_filter (covers new) l ++ [new] in
  (forall p w, contains_since l p w = true -> contains_since l' p w = true) /\
  (forall p w, matches new p = true -> w < e_id new -> contains_since l' p w = true) /\
  (forall M, (forall e, In e l -> e_id e <= M) -> e_id new <= M -> forall e, In e l' -> e_id e <= M).
Proof.
  intros new l Hb l'. subst l'. split; [|split].
  - intros p w H. apply cs_exists in H. destruct H as [e [Hin [H1 H2]]]. apply cs_exists.
    destruct (covers new e) eqn:Hc.
    + exists new. split; [apply in_or_app; right; left; reflexivity|].
      split; [specialize (Hb e Hin); lia|eapply covers_matches; eassumption].
    + exists e. split; [apply in_or_app; left; apply swap_filter_keep; assumption|]. split; assumption.
  - intros p w Hm Hw. apply cs_exists. exists new. split; [apply in_or_app; right; left; reflexivity|].
    split; assumption.
  - intros M HM Hn e Hin. apply in_app_or in Hin. destruct Hin as [Hin|[Heq|[]]].
    + apply HM. eapply swap_filter_In. exact Hin.
    + subst e. exact Hn.
Qed.

Lemma push_cap_Some : forall l x l', push_cap l x = Some l' -> l' = l ++ [x].
Proof. intros l x l' H. unfold push_cap in H. destruct (Nat.ltb _ _); congruence. Qed.

(** [promote] keeps coverage and the id bound *)
Lemma promote_facts : forall level l l',
  promote level l = Some l' ->
  (forall p w, contains_since l p w = true -> contains_since l' p w = true) /\
  (forall M, (forall e, In e l -> e_id e <= M) -> forall e, In e l' -> e_id e <= M).
Proof.
  intros level l l' H. unfold promote in H.
  destruct (best_pivot level l l None 1) as [pivot|]; [|discriminate].
  destruct (coarsen level pivot) as [c|]; [|discriminate].
  injection H as H. subst l'. split.
  - intros p w Hc. apply cs_exists in Hc. destruct Hc as [e [Hin [H1 H2]]]. apply cs_exists.
    destruct (covers c e) eqn:Hce.
    + exists (set_id c (max_id (covers c) l)). split; [apply in_or_app; right; left; reflexivity|].
      split.
      * cbn. pose proof (max_id_ge (covers c) l e Hin Hce). lia.
      * rewrite matches_set_id. eapply covers_matches; eassumption.
    + exists e. split; [apply in_or_app; left; apply swap_filter_keep; assumption|]. split; assumption.
  - intros M HM e Hin. apply in_app_or in Hin. destruct Hin as [Hin|[Heq|[]]].
    + apply HM. eapply swap_filter_In. exact Hin.
    + subst e. cbn. apply max_id_le. exact HM.
Qed.

Lemma promote_and_insert_facts : forall fuel new l,
  (forall e, In e l -> e_id e <= e_id new) ->
  let l' := promote_and_insert fuel l new in
  (forall p w, contains_since l p w = true -> contains_since l' p w = true) /\
  (forall p w, matches new p = true -> w < e_id new -> contains_since l' p w = true) /\
  (forall M, (forall e, In e l -> e_id e <= M) -> e_id new <= M -> forall e, In e l' -> e_id e <= M).
Proof.
  intros fuel new.
  assert (Hglobal : forall l, (forall e, In e l -> e_id e <= e_id new) ->
    let l' := [mkEntry WILD_EP WILD_CL WILD_AT (e_id new)] in
    (forall p w, contains_since l p w = true -> contains_since l' p w = true) /\
    (forall p w, matches new p = true -> w < e_id new -> contains_since l' p w = true) /\
    (forall M, (forall e, In e l -> e_id e <= M) -> e_id new <= M -> forall e, In e l' -> e_id e <= M)).
  { intros l Hb l'. subst l'. split; [|split].
    - intros p w H. apply cs_exists in H. destruct H as [e [Hin [H1 _]]]. apply cs_exists.
      eexists. split; [left; reflexivity|]. split; [cbn; specialize (Hb e Hin); lia|apply matches_global].
    - intros p w _ Hw. apply cs_exists. eexists. split; [left; reflexivity|]. split; [cbn; exact Hw|apply matches_global].
    - intros M _ Hn e [Heq|[]]. subst e. cbn. exact Hn. }
  induction fuel as [|f IH]; intros l Hb.
  - cbn [promote_and_insert]. apply Hglobal. exact Hb.
  - cbn [promote_and_insert].
    destruct (refresh_first new l) as [l1|] eqn:Hr.
    { apply (refresh_first_facts new l l1 Hr Hb). }
    destruct (push_cap l new) as [l1|] eqn:Hp.
    { apply push_cap_Some in Hp. subst l1. split; [|split].
      - intros p w H. apply cs_exists in H. destruct H as [e [Hin H']]. apply cs_exists. exists e.
        split; [apply in_or_app; left; exact Hin|exact H'].
      - intros p w Hm Hw. apply cs_exists. exists new. split; [apply in_or_app; right; left; reflexivity|]. split; assumption.
      - intros M HM Hn e Hin. apply in_app_or in Hin. destruct Hin as [Hin|[Heq|[]]]; [apply HM; exact Hin|subst e; exact Hn]. }
    assert (Hstep : forall l1, (forall p w, contains_since l p w = true -> contains_since l1 p w = true) ->
              (forall M, (forall e, In e l -> e_id e <= M) -> forall e, In e l1 -> e_id e <= M) ->
              let l' := promote_and_insert f l1 new in
              (forall p w, contains_since l p w = true -> contains_since l' p w = true) /\
              (forall p w, matches new p = true -> w < e_id new -> contains_since l' p w = true) /\
              (forall M, (forall e, In e l -> e_id e <= M) -> e_id new <= M -> forall e, In e l' -> e_id e <= M)).
    { intros l1 P1 P2 l'. subst l'.
      assert (Hb1 : forall e, In e l1 -> e_id e <= e_id new) by (apply (P2 (e_id new)); exact Hb).
      destruct (IH l1 Hb1) as [I1 [I2 I3]]. split; [|split].
      - intros p w H. apply I1. apply P1. exact H.
      - exact I2.
      - intros M HM Hn e Hin. apply (I3 M); [apply P2; exact HM|exact Hn|exact Hin]. }
    destruct (promote 1 l) as [l1|] eqn:Hp1.
    { destruct (promote_facts 1 l l1 Hp1) as [P1 P2]. apply Hstep; assumption. }
    destruct (promote 2 l) as [l1|] eqn:Hp2.
    { destruct (promote_facts 2 l l1 Hp2) as [P1 P2]. apply Hstep; assumption. }
    apply Hglobal. exact Hb.
Qed.

(** * [record_entries]: the three facts the invariant needs *)
Lemma record_entries_facts : forall new l,
  (forall e, In e l -> e_id e <= e_id new) ->
  let l' := record_entries l new in
  (forall p w, contains_since l p w = true -> contains_since l' p w = true) /\
  (forall p w, matches new p = true -> w < e_id new -> contains_since l' p w = true) /\
  (forall M, (forall e, In e l -> e_id e <= M) -> e_id new <= M -> forall e, In e l' -> e_id e <= M).
Proof.
  intros new l Hb. unfold record_entries.
  destruct (refresh_first new l) as [l1|] eqn:Hr.
  { apply (refresh_first_facts new l l1 Hr Hb). }
  destruct (drop_covered_push_facts new l Hb) as [D1 [D2 D3]].
  destruct (push_cap (swap_filter (covers new) l) new) as [l2|] eqn:Hp.
  { apply push_cap_Some in Hp. subst l2. split; [exact D1|split; [exact D2|exact D3]]. }
  (* table full: promote_and_insert on the filtered list *)
  set (l1 := swap_filter (covers new) l) in *.
  assert (Hb1 : forall e, In e l1 -> e_id e <= e_id new).
  { intros e He. apply Hb. eapply swap_filter_In. exact He. }
  destruct (promote_and_insert_facts 3 new l1 Hb1) as [I1 [I2 I3]].
  split; [|split].
  - intros p w H. apply cs_exists in H. destruct H as [e [Hin [H1 H2]]].
    destruct (covers new e) eqn:Hc.
    + apply I2; [eapply covers_matches; eassumption|]. specialize (Hb e Hin). lia.
    + apply I1. apply cs_exists. exists e. split; [apply swap_filter_keep; assumption|]. split; assumption.
  - exact I2.
  - intros M HM Hn e Hin. apply (I3 M); [|exact Hn|exact Hin].
    intros e' He'. apply HM. eapply swap_filter_In. exact He'.
Qed.

(** * [purge_up_to] *)
Lemma purge_up_to_facts : forall l t,
  (forall p w, contains_since l p w = true -> t <= w -> contains_since (purge_up_to l t) p w = true) /\
  (forall e, In e (purge_up_to l t) -> In e l).
Proof.
  intros l t. unfold purge_up_to. destruct (t =? 0) eqn:Ht.
  - split; [intros; assumption|intros; assumption].
  - split.
    + intros p w H Hle. apply cs_exists in H. destruct H as [e [Hin [H1 H2]]]. apply cs_exists. exists e.
      split; [|split; assumption]. apply swap_filter_keep; [exact Hin|lia].
    + intros e He. eapply swap_filter_In. exact He.
Qed.

(** * [last_change] *)
Lemma last_change_cons : forall e lg p,
  last_change (e :: lg) p = N.max (if matches e p then e_id e else 0) (last_change lg p).
Proof. intros. unfold last_change. apply max_id_cons. Qed.

Lemma last_change_le : forall lg p M, (forall e, In e lg -> e_id e <= M) -> last_change lg p <= M.
Proof. intros. unfold last_change. apply max_id_le. assumption. Qed.

(** * the scanning loop removes everything it is asked to remove *)

Lemma swap_remove_nth_lt : forall {A} i (l : list A) j,
  (j < i)%nat -> (i < length l)%nat -> nth_error (swap_remove i l) j = nth_error l j.
Proof.
  intros A i l. revert i. induction l as [|h t IH]; intros i j Hj Hi.
  - cbn in Hi. lia.
  - destruct i as [|k]; [lia|]. cbn [swap_remove]. destruct j as [|j']; [reflexivity|].
    cbn [nth_error]. apply IH; cbn [length] in Hi; lia.
Qed.

Lemma swap_remove_length_lt : forall {A} i (l : list A),
  (i < length l)%nat -> length l = S (length (swap_remove i l)).
Proof.
  intros A i l Hi. destruct (nth_error l i) as [x|] eqn:Hn.
  - revert i x Hi Hn. induction l as [|h t IH]; intros i x Hi Hn.
    + destruct i; discriminate.
    + destruct i as [|k]; cbn [swap_remove].
      * destruct t as [|z t']; [reflexivity|]. cbn [length]. f_equal.
        assert (G : forall (l : list A), l <> [] -> length l = S (length (removelast l))).
        { clear. induction l as [|a l IHl]; [congruence|]. intros _. destruct l as [|b l]; [reflexivity|].
          cbn [removelast length] in *. f_equal. apply IHl. discriminate. }
        apply (G (z :: t')). discriminate.
      * cbn [length]. f_equal. cbn [length] in Hi. apply (IH k x); [lia|exact Hn].
  - apply nth_error_None in Hn. lia.
Qed.

Lemma swap_filter_aux_sound : forall {A} (rm : A -> bool) fuel i l,
  (forall j y, (j < i)%nat -> nth_error l j = Some y -> rm y = false) ->
  (length l - i <= fuel)%nat ->
  forall y, In y (swap_filter_aux rm fuel i l) -> rm y = false.
Proof.
  intros A rm fuel. induction fuel as [|f IH]; intros i l Hpre Hfuel y Hin.
  - cbn [swap_filter_aux] in Hin. apply In_nth_error in Hin. destruct Hin as [j Hj].
    apply (Hpre j y); [|exact Hj].
    assert (j < length l)%nat by (apply nth_error_Some; congruence). lia.
  - cbn [swap_filter_aux] in Hin. destruct (nth_error l i) as [x|] eqn:Hn.
    + assert (Hi : (i < length l)%nat) by (apply nth_error_Some; congruence).
      destruct (rm x) eqn:Hx.
      * apply (IH i (swap_remove i l)); [| |exact Hin].
        -- intros j z Hj Hz. rewrite swap_remove_nth_lt in Hz by assumption. apply (Hpre j z); assumption.
        -- pose proof (swap_remove_length_lt i l Hi). lia.
      * apply (IH (S i) l); [| |exact Hin].
        -- intros j z Hj Hz. destruct (Nat.eq_dec j i) as [E|E].
           ++ subst j. rewrite Hn in Hz. injection Hz as Hz. subst z. exact Hx.
           ++ apply (Hpre j z); [lia|exact Hz].
        -- lia.
    + apply nth_error_None in Hn. apply In_nth_error in Hin. destruct Hin as [j Hj].
      apply (Hpre j y); [|exact Hj].
      assert (j < length l)%nat by (apply nth_error_Some; congruence). lia.
Qed.

Lemma swap_filter_sound : forall {A} (rm : A -> bool) l y, In y (swap_filter rm l) -> rm y = false.
Proof.
  intros A rm l y. unfold swap_filter. apply swap_filter_aux_sound.
  - intros j z Hj. lia.
  - lia.
Qed.
