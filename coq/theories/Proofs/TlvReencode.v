(** Re-encoding a decoded element with [ToTLV for TLVElement::to_tlv]
    (under its own tag) reproduces exactly the bytes it occupied. *)
From Coq Require Import NArith ZArith List Bool Lia ZifyN ZifyBool.
From RsM Require Import Model.Tlv Proofs.TlvFacts Proofs.TlvWriter.
Import ListNotations.
Open Scope N_scope.

Lemma vtype_of_code_inv n vt : n < 32 -> vtype_of_code n = Some vt -> code_of_vtype vt = n.
Proof.
  intros Hn H. rewrite <- (N2Nat.id n) in *. remember (N.to_nat n) as k eqn:Ek. clear Ek n.
  do 32 (destruct k as [|k]; [vm_compute in H; try discriminate H; injection H as <-; reflexivity|]).
  lia.
Qed.

Lemma code_of_tagtype_of_code m : m < 8 -> code_of_tagtype (tagtype_of_code m) = m.
Proof.
  intros Hm. rewrite <- (N2Nat.id m) in *. remember (N.to_nat m) as k eqn:Ek. clear Ek m.
  do 8 (destruct k as [|k]; [reflexivity|]). lia.
Qed.

Lemma parse_control_inv b c :
  b < 256 -> parse_control b = ROk c -> b = ctl_byte (fst c) (snd c).
Proof.
  intros Hb H. unfold parse_control in H.
  destruct (vtype_of_code (b mod 32)) as [vt|] eqn:E; [|discriminate].
  injection H as <-. cbn [fst snd]. unfold ctl_byte.
  apply vtype_of_code_inv in E; [|apply N.mod_lt; lia].
  assert (Hd : b / 32 < 8) by (apply N.div_lt_upper_bound; lia).
  rewrite N.mod_small by exact Hd.
  rewrite code_of_tagtype_of_code by exact Hd. rewrite E.
  apply N.div_mod. lia.
Qed.

Lemma is_bytes_cons b s : is_bytes (b :: s) <-> b < 256 /\ is_bytes s.
Proof.
  unfold is_bytes. split.
  - intros H. inversion H; subst. split; assumption.
  - intros [H1 H2]. constructor; assumption.
Qed.

Lemma le_bytes_le_val_n n l : is_bytes l -> length l = n -> le_bytes n (le_val l) = l.
Proof. intros H <-. apply le_bytes_le_val. exact H. Qed.

Lemma tag_of_slice_inv tt sl t :
  is_bytes sl -> blen sl = tagsize tt -> tag_of_slice tt sl = ROk t ->
  tagtype_of_tag t = tt /\ enc_tag t = sl.
Proof.
  intros Hb Hl H. destruct tt; cbn [tag_of_slice tagsize] in *.
  - injection H as <-. split; [reflexivity|]. symmetry. apply blen_0. exact Hl.
  - destruct sl as [|b [|]]; try (rewrite ?blen_cons, ?blen_nil in Hl; lia).
    injection H as <-. split; [reflexivity|]. cbn [enc_tag le_bytes].
    apply is_bytes_cons in Hb as [Hb _]. rewrite N.mod_small by exact Hb. reflexivity.
  - apply bind_ok in H as (v & Hv & H). injection H as <-. split; [reflexivity|].
    unfold le_exact in Hv. destruct (_ =? _); [|discriminate]. injection Hv as <-.
    cbn [enc_tag]. apply le_bytes_le_val_n; [exact Hb|unfold blen in Hl; lia].
  - apply bind_ok in H as (v & Hv & H). injection H as <-. split; [reflexivity|].
    unfold le_exact in Hv. destruct (_ =? _); [|discriminate]. injection Hv as <-.
    cbn [enc_tag]. apply le_bytes_le_val_n; [exact Hb|unfold blen in Hl; lia].
  - apply bind_ok in H as (v & Hv & H). injection H as <-. split; [reflexivity|].
    unfold le_exact in Hv. destruct (_ =? _); [|discriminate]. injection Hv as <-.
    cbn [enc_tag]. apply le_bytes_le_val_n; [exact Hb|unfold blen in Hl; lia].
  - apply bind_ok in H as (v & Hv & H). injection H as <-. split; [reflexivity|].
    unfold le_exact in Hv. destruct (_ =? _); [|discriminate]. injection Hv as <-.
    cbn [enc_tag]. apply le_bytes_le_val_n; [exact Hb|unfold blen in Hl; lia].
  - destruct sl as [|a0 [|a1 [|a2 [|a3 [|a4 [|a5 [|]]]]]]];
      try (rewrite ?blen_cons, ?blen_nil in Hl; lia).
    destruct (_ <? _); [discriminate|]. injection H as <-. split; [reflexivity|].
    cbn [enc_tag subsl firstn skipn].
    repeat (apply is_bytes_cons in Hb as [? Hb]).
    change (a0 + 256 * (a1 + 256 * 0)) with (le_val [a0; a1]).
    change (a2 + 256 * (a3 + 256 * 0)) with (le_val [a2; a3]).
    change (a4 + 256 * (a5 + 256 * 0)) with (le_val [a4; a5]).
    rewrite (le_bytes_le_val_n 2 [a0; a1]), (le_bytes_le_val_n 2 [a2; a3]),
      (le_bytes_le_val_n 2 [a4; a5]); try reflexivity; repeat constructor; assumption.
  - destruct sl as [|a0 [|a1 [|a2 [|a3 [|a4 [|a5 [|a6 [|a7 [|]]]]]]]]];
      try (rewrite ?blen_cons, ?blen_nil in Hl; lia).
    destruct (_ <? _); [discriminate|]. injection H as <-. split; [reflexivity|].
    cbn [enc_tag subsl firstn skipn].
    repeat (apply is_bytes_cons in Hb as [? Hb]).
    change (a0 + 256 * (a1 + 256 * 0)) with (le_val [a0; a1]).
    change (a2 + 256 * (a3 + 256 * 0)) with (le_val [a2; a3]).
    change (a4 + 256 * (a5 + 256 * (a6 + 256 * (a7 + 256 * 0)))) with (le_val [a4; a5; a6; a7]).
    rewrite (le_bytes_le_val_n 2 [a0; a1]), (le_bytes_le_val_n 2 [a2; a3]),
      (le_bytes_le_val_n 4 [a4; a5; a6; a7]); try reflexivity; repeat constructor; assumption.
Qed.

Lemma firstn_le_bytes n : forall m x, (n <= m)%nat -> firstn n (le_bytes m x) = le_bytes n x.
Proof.
  induction n as [|n IH]; intros m x H; [reflexivity|].
  destruct m as [|m]; [lia|]. cbn [le_bytes firstn]. f_equal. apply IH. lia.
Qed.

Theorem el_to_tlv_reproduces s c t v :
  is_bytes s -> control s = ROk c -> el_tag s = ROk t -> el_raw_value s = ROk v ->
  el_to_tlv t s = ROk (firstn (N.to_nat (hdr_len c + blen v)) s).
Proof.
  intros Hs Hc Ht Hv. destruct s as [|b s1]; [cbn in Hc; discriminate|].
  apply is_bytes_cons in Hs as [Hb Hs1].
  pose proof Hc as Hc'. cbn [control] in Hc'. apply parse_control_inv in Hc'; [|exact Hb].
  (* the tag bytes *)
  unfold el_tag in Ht. rewrite Hc, tag_start_cons in Ht. cbn [rbind] in Ht.
  apply bind_ok in Ht as (sl & Hsl & Ht).
  apply ok_or_ok, get_to_some in Hsl as (_ & Esl & Lsl).
  apply tag_of_slice_inv in Ht as [Htt Henc]; [|subst sl; apply is_bytes_firstn; exact Hs1|exact Lsl].
  (* the value *)
  unfold el_to_tlv. cbn [is_nil]. rewrite Hc. cbn [rbind]. rewrite Hv. cbn [rbind].
  unfold el_raw_value in Hv. rewrite Hc in Hv. cbn [rbind] in Hv.
  unfold container_value in Hv. apply bind_ok in Hv as (vl & Hvl & Hv).
  apply bind_ok in Hv as (vs & Hvs & Hv).
  apply ok_or_ok, get_to_some in Hv as (_ & Ev & Lv).
  unfold value_start, value_len_start in Hvs. rewrite tag_start_cons in Hvs.
  apply bind_ok in Hvs as (vls & Hvls & Hvs).
  apply ok_or_ok, get_from_some in Hvls as (_ & Evls & _ & Ss1).
  apply ok_or_ok, get_from_some in Hvs as (Lvar & Evs & _ & Svls).
  rewrite <- Esl in Ss1.
  set (lf := firstn (N.to_nat (varlen (snd c))) vls) in *.
  assert (Llf : length lf = N.to_nat (varlen (snd c)) \/ True) by auto.
  assert (Svs : vs = v ++ skipn (N.to_nat vl) vs) by (rewrite Ev; symmetry; apply firstn_skipn).
  (* the written bytes are header ++ v *)
  assert (Hout : (if 0 <? varlen (snd c)
                  then w_raw_value t (snd c)
                         (firstn (N.to_nat (varlen (snd c))) (le_bytes 8 (blen v))) ++ v
                  else w_raw_value t (snd c) v) = b :: sl ++ lf ++ v).
  { unfold w_raw_value. rewrite Htt, <- Hc', Henc.
    destruct (N.ltb_spec 0 (varlen (snd c))) as [Hpos|Hz].
    - cbn [app]. rewrite <- app_assoc. do 3 f_equal.
      (* a string: the length field is the little-endian length of the value *)
      assert (Hnc : is_container_vt (snd c) = false /\ fixed_size (snd c) = None /\
                    (N.to_nat (varlen (snd c)) <= 8)%nat).
      { destruct (snd c) as [| | | | | |w|w| | |]; cbn [varlen] in Hpos; try lia;
          repeat split; destruct w; cbn; lia. }
      destruct Hnc as (Hnc & Hfs & H8).
      unfold container_value_len in Hvl. rewrite Hnc in Hvl.
      unfold value_len in Hvl. rewrite Hfs in Hvl.
      unfold value_len_start in Hvl. rewrite tag_start_cons in Hvl.
      apply bind_ok in Hvl as (vls' & Hvls' & Hvl).
      apply ok_or_ok, get_from_some in Hvls' as (_ & Evls' & _ & _).
      rewrite <- Evls in Evls'. subst vls'.
      apply bind_ok in Hvl as (lf' & Hlf' & Hvl).
      apply ok_or_ok, get_to_some in Hlf' as (_ & Elf' & Llf').
      fold lf in Elf'. subst lf'.
      unfold le_exact in Hvl. destruct (_ =? _); [|discriminate]. injection Hvl as Hvl.
      rewrite firstn_le_bytes by exact H8.
      rewrite Lv, <- Hvl. apply le_bytes_le_val_n.
      + apply is_bytes_firstn. rewrite Evls. apply is_bytes_skipn. exact Hs1.
      + unfold blen in Llf'. lia.
    - assert (E0 : varlen (snd c) = 0) by lia.
      unfold lf. rewrite E0. cbn [N.to_nat firstn app]. reflexivity. }
  match goal with
  | |- (if ?bb then ROk ?x else ROk ?y) = _ =>
      transitivity (ROk (A:=bytes) (if bb then x else y)); [destruct bb; reflexivity|]
  end.
  f_equal. etransitivity; [exact Hout|].
  assert (Hs : b :: s1 = (b :: sl ++ lf ++ v) ++ skipn (N.to_nat vl) vs).
  { cbn [app]. f_equal. rewrite Ss1. rewrite <- !app_assoc. f_equal.
    rewrite Svls. fold lf. f_equal. exact Svs. }
  rewrite Hs.
  replace (N.to_nat (hdr_len c + blen v)) with (length (b :: sl ++ lf ++ v)).
  - symmetry. apply firstn_app_exact.
  - cbn [length]. rewrite !app_length. unfold hdr_len.
    assert (length lf = N.to_nat (varlen (snd c)))
      by (apply firstn_length_le; unfold blen in Lvar; lia).
    unfold blen in *. lia.
Qed.
