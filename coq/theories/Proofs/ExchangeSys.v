(** The invariant of the transport model of Model/Exchange.v and its
    preservation by every step (repaired code: [bug = false]). *)
From RsM Require Import Lib.MachInt Model.Dedup Model.Mrp Model.Exchange Proofs.ExchangeFacts.
From Coq Require Import ZifyN ZifyBool Lia Bool PeanoNat Permutation.
Open Scope N_scope.

Arguments N.ltb : simpl never.
Arguments N.leb : simpl never.
Arguments N.eqb : simpl never.
Arguments N.add : simpl never.

Ltac simp_sys := cbn [sessions rx handles now next_sid] in *.
Ltac simp_sess := cbn [s_id s_key s_enc s_group s_expired s_win s_exchs set_win set_exchs set_expired new_session] in *.

Lemma NoDup_app_single_fresh {A} (l : list A) x : NoDup l -> ~ In x l -> NoDup (l ++ [x]).
Proof.
  intros Hnd Hnin. induction l as [|a t IH]; cbn [app]; [constructor; [intros []|constructor]|].
  inversion Hnd as [|? ? Ha Ht]; subst. constructor.
  - intros Hin. apply in_app_or in Hin. destruct Hin as [Hin|[<-|[]]]; [contradiction|].
    apply Hnin. left. reflexivity.
  - apply IH; [exact Ht|]. intros Hin. apply Hnin. right. exact Hin.
Qed.

(** ** lookups *)

Lemma find_sid_some ss sid se : find_sid ss sid = Some se -> In se ss /\ s_id se = sid.
Proof.
  unfold find_sid. intros H. apply find_some in H. destruct H as [Hin He].
  apply N.eqb_eq in He. split; assumption.
Qed.

Lemma find_sid_none ss sid : find_sid ss sid = None -> forall se, In se ss -> s_id se <> sid.
Proof.
  unfold find_sid. intros H se Hin He. pose proof (find_none _ _ H se Hin) as Hn. cbn in Hn.
  apply N.eqb_neq in Hn. contradiction.
Qed.

Lemma find_key_some ss k se : find_key ss k = Some se -> In se ss /\ s_key se = k.
Proof.
  unfold find_key. intros H. apply find_some in H. destruct H as [Hin He].
  apply N.eqb_eq in He. split; assumption.
Qed.

Lemma nodup_sid_unique ss se1 se2 :
  NoDup (map s_id ss) -> In se1 ss -> In se2 ss -> s_id se1 = s_id se2 -> se1 = se2.
Proof.
  induction ss as [|a t IH]; intros Hnd H1 H2 He; [destruct H1|].
  cbn [map] in Hnd. inversion Hnd as [|? ? Hnin Hnd']; subst.
  destruct H1 as [<-|H1], H2 as [<-|H2].
  - reflexivity.
  - exfalso. apply Hnin. rewrite He. apply in_map. exact H2.
  - exfalso. apply Hnin. rewrite <- He. apply in_map. exact H1.
  - apply IH; assumption.
Qed.

Lemma find_sid_in ss se : NoDup (map s_id ss) -> In se ss -> find_sid ss (s_id se) = Some se.
Proof.
  intros Hnd Hin. destruct (find_sid ss (s_id se)) as [se'|] eqn:Hf.
  - destruct (find_sid_some _ _ _ Hf) as [Hin' He]. f_equal. eapply nodup_sid_unique; eassumption.
  - exfalso. exact (find_sid_none _ _ Hf se Hin eq_refl).
Qed.

(** ** updates of the session table *)

Lemma in_upd_sid ss sid f se' :
  In se' (upd_sid ss sid f) ->
  exists se, In se ss /\ ((s_id se = sid /\ se' = f se) \/ (s_id se <> sid /\ se' = se)).
Proof.
  unfold upd_sid. intros H. apply in_map_iff in H. destruct H as [se [He Hin]].
  exists se. split; [exact Hin|]. destruct (N.eqb_spec (s_id se) sid); [left|right]; split; congruence.
Qed.

Lemma map_id_upd_sid ss sid f :
  (forall se, s_id se = sid -> s_id (f se) = sid) -> map s_id (upd_sid ss sid f) = map s_id ss.
Proof.
  intros Hf. unfold upd_sid. rewrite map_map. apply map_ext_in. intros se _.
  destruct (N.eqb_spec (s_id se) sid) as [E|E]; [rewrite (Hf se E); congruence|reflexivity].
Qed.

Lemma in_remove_sid ss sid se : In se (remove_sid ss sid) -> In se ss.
Proof.
  unfold remove_sid. destruct (find_index _ ss) as [k|]; [apply in_swap_remove|trivial].
Qed.

Lemma in_remove_sid_ne ss sid se :
  NoDup (map s_id ss) -> In se (remove_sid ss sid) -> s_id se <> sid.
Proof.
  unfold remove_sid. intros Hnd. destruct (find_index _ ss) as [k|] eqn:Hf.
  - destruct (find_index_some _ _ _ Hf) as [x [Hx Hp]]. cbn in Hp. apply N.eqb_eq in Hp.
    intros Hin. rewrite <- Hp. eapply swap_remove_removed; eassumption.
  - intros Hin He. pose proof (find_index_none _ _ Hf se Hin) as Hn. cbn in Hn.
    apply N.eqb_neq in Hn. contradiction.
Qed.

Lemma nodup_remove_sid ss sid : NoDup (map s_id ss) -> NoDup (map s_id (remove_sid ss sid)).
Proof.
  unfold remove_sid. destruct (find_index _ ss); [apply nodup_map_swap_remove|trivial].
Qed.

Lemma remove_sid_kept ss sid se :
  NoDup (map s_id ss) -> In se ss -> s_id se <> sid -> In se (remove_sid ss sid).
Proof.
  unfold remove_sid. intros Hnd Hin Hne. destruct (find_index _ ss) as [k|] eqn:Hf; [|exact Hin].
  destruct (find_index_some _ _ _ Hf) as [x [Hx Hp]]. cbn in Hp. apply N.eqb_eq in Hp.
  destruct (swap_remove_kept ss k x se Hx Hin) as [->|H]; [contradiction|exact H].
Qed.

(** ** the invariant *)

Definition slot_owned (o : option (option exch)) : bool :=
  match o with Some (Some e) => is_owned (e_role e) | _ => false end.

Definition time_ok (t : N) (se : session) : Prop :=
  forall i e, nth_error (s_exchs se) i = Some (Some e) ->
    e_rat e <= t /\ (is_pending (e_role e) = true -> rm_received (e_mrp e) = true).

Record Inv (s : sys) : Prop := mkInv {
  inv_nodup : NoDup (map s_id (sessions s));
  inv_lt : forall se, In se (sessions s) -> s_id se < next_sid s;
  inv_hlt : forall sid i, In (sid, i) (handles s) -> sid < next_sid s;
  inv_own : forall se i, In se (sessions s) ->
              slot_owned (nth_error (s_exchs se) i) = true -> In (s_id se, i) (handles s);
  inv_hdl : forall se i, In se (sessions s) -> In (s_id se, i) (handles s) ->
              slot_owned (nth_error (s_exchs se) i) = true;
  inv_taken : forall m sid i, rx s = RxTaken m sid i -> In (sid, i) (handles s);
  inv_time : forall se, In se (sessions s) -> time_ok (now s) se
}.

Lemma inv_init t0 : Inv (sys_init t0).
Proof. constructor; cbn; try (intros; contradiction); try discriminate. constructor. Qed.

(** sessions of [ss'] come from sessions of [ss] with the same id and the same
    owned-slot pattern *)
Definition sub_same (ss ss' : list session) : Prop :=
  forall se', In se' ss' -> exists se, In se ss /\ s_id se' = s_id se /\
    forall i, slot_owned (nth_error (s_exchs se') i) = slot_owned (nth_error (s_exchs se) i).

Lemma sub_same_refl ss : sub_same ss ss.
Proof. intros se H. exists se. repeat split; exact H. Qed.

Lemma sub_same_trans a b c : sub_same a b -> sub_same b c -> sub_same a c.
Proof.
  intros H1 H2 se Hin. destruct (H2 se Hin) as [se1 [Hin1 [E1 S1]]].
  destruct (H1 se1 Hin1) as [se0 [Hin0 [E0 S0]]]. exists se0. repeat split; [exact Hin0|congruence|].
  intros i. rewrite S1. apply S0.
Qed.

Lemma sub_same_remove ss sid : sub_same ss (remove_sid ss sid).
Proof. intros se H. exists se. repeat split. eapply in_remove_sid; exact H. Qed.

Lemma sub_same_upd ss sid f :
  (forall se, In se ss -> s_id se = sid -> s_id (f se) = sid /\
     forall i, slot_owned (nth_error (s_exchs (f se)) i) = slot_owned (nth_error (s_exchs se) i)) ->
  sub_same ss (upd_sid ss sid f).
Proof.
  intros Hf se' Hin. destruct (in_upd_sid _ _ _ _ Hin) as [se [Hse [[E ->]|[E ->]]]].
  - destruct (Hf se Hse E) as [E1 S]. exists se. repeat split; [exact Hse|congruence|exact S].
  - exists se. repeat split. exact Hse.
Qed.

Lemma own_hdl_sub ss ss' (hs : list (N * nat)) :
  sub_same ss ss' ->
  (forall se i, In se ss -> slot_owned (nth_error (s_exchs se) i) = true -> In (s_id se, i) hs) ->
  (forall se i, In se ss -> In (s_id se, i) hs -> slot_owned (nth_error (s_exchs se) i) = true) ->
  (forall se i, In se ss' -> slot_owned (nth_error (s_exchs se) i) = true -> In (s_id se, i) hs) /\
  (forall se i, In se ss' -> In (s_id se, i) hs -> slot_owned (nth_error (s_exchs se) i) = true).
Proof.
  intros Hs Ho Hh. split; intros se' i Hin H.
  - destruct (Hs se' Hin) as [se [Hse [E S]]]. rewrite E. apply Ho; [exact Hse|]. rewrite <- S. exact H.
  - destruct (Hs se' Hin) as [se [Hse [E S]]]. rewrite S. apply Hh; [exact Hse|]. rewrite <- E. exact H.
Qed.

(** ** Session::post_recv keeps the owned pattern and the time facts *)

Lemma slot_owned_set_nth l i j e e' :
  nth_error l i = Some (Some e) -> is_owned (e_role e') = is_owned (e_role e) ->
  slot_owned (nth_error (set_nth l i (Some e')) j) = slot_owned (nth_error l j).
Proof.
  intros Hn Hr. rewrite nth_error_set_nth.
  destruct (Nat.eqb_spec i j) as [->|Hne]; [|reflexivity].
  assert (Hlt : (j < length l)%nat) by (apply nth_error_Some; congruence).
  destruct (Nat.ltb_spec j (length l)); [|lia]. rewrite Hn. cbn. exact Hr.
Qed.

Lemma post_recv_owned se m t se' r :
  session_post_recv se m t = (se', r) ->
  forall j, slot_owned (nth_error (s_exchs se') j) = slot_owned (nth_error (s_exchs se) j).
Proof.
  intros H j. destruct (session_post_recv_cases _ _ _ _ _ H) as [[_ [_ E]]|[_ [C|C]]].
  - rewrite E. reflexivity.
  - destruct C as [i [e [Hf [[e' [He [_ E]]]|[_ [_ E]]]]]]; rewrite E; [|reflexivity].
    destruct (find_exch_some _ _ _ _ Hf) as [Hn _].
    apply (slot_owned_set_nth _ _ _ e); [exact Hn|].
    destruct (exch_post_recv_role _ _ _ _ _ He) as [_ ->]. reflexivity.
  - destruct C as [_ [[_ [_ E]]|[[_ [_ [_ [_ E]]]]|[[_ [_ [_ [_ [_ E]]]]]|C]]]]; try (rewrite E; reflexivity).
    destruct C as [_ [_ [_ [l' [i [e' [Ha [He [_ E]]]]]]]]]. rewrite E.
    destruct (add_exch_some _ _ _ _ Ha) as [Hi [Hoth [Hfree _]]].
    destruct (exch_post_recv_role _ _ _ _ _ He) as [_ Hr]. cbn in Hr.
    rewrite nth_error_set_nth. destruct (Nat.eqb_spec i j) as [->|Hne].
    + assert (Hlt : (j < length l')%nat) by (apply nth_error_Some; congruence).
      destruct (Nat.ltb_spec j (length l')); [|lia]. cbn. rewrite Hr. cbn.
      destruct Hfree as [-> | ->]; reflexivity.
    + rewrite (Hoth j) by congruence. reflexivity.
Qed.

Lemma post_recv_time se m t se' r :
  session_post_recv se m t = (se', r) -> time_ok t se -> time_ok t se'.
Proof.
  intros H Ht. destruct (session_post_recv_cases _ _ _ _ _ H) as [[_ [_ E]]|[_ [C|C]]].
  - unfold time_ok. rewrite E. exact Ht.
  - destruct C as [i [e [Hf [[e' [He [_ E]]]|[_ [_ E]]]]]]; unfold time_ok; rewrite E; [|exact Ht].
    intros j x Hj. rewrite nth_error_set_nth in Hj. destruct (Nat.eqb_spec i j) as [->|Hne]; [|apply (Ht j x Hj)].
    destruct (j <? length (s_exchs se))%nat; [|discriminate]. inversion Hj; subst x.
    destruct (exch_post_recv_ok _ _ _ _ He) as [-> Hrc]. split; [lia|intros _; exact Hrc].
  - destruct C as [_ [[_ [_ E]]|[[_ [_ [_ [_ E]]]]|[[_ [_ [_ [_ [_ E]]]]]|C]]]]; unfold time_ok; try (rewrite E; exact Ht).
    destruct C as [_ [_ [_ [l' [i [e' [Ha [He [_ E]]]]]]]]]. rewrite E.
    destruct (add_exch_some _ _ _ _ Ha) as [Hi [Hoth _]].
    intros j x Hj. rewrite nth_error_set_nth in Hj. destruct (Nat.eqb_spec i j) as [->|Hne].
    + destruct (j <? length l')%nat; [|discriminate]. inversion Hj; subst x.
      destruct (exch_post_recv_ok _ _ _ _ He) as [-> Hrc]. split; [lia|intros _; exact Hrc].
    + rewrite (Hoth j) in Hj by congruence. apply (Ht j x Hj).
Qed.

Lemma time_ok_mono t t' se : t <= t' -> time_ok t se -> time_ok t' se.
Proof. intros Hle H i e Hn. destruct (H i e Hn) as [H1 H2]. split; [lia|exact H2]. Qed.

(** ** process_rx *)

(** the outcome dispatch of [handle_rx_packet] keeps the table or removes one session,
    and leaves the RX slot empty or holding *)
Ltac rx_dispatch Hkeep Hrem :=
  cbn zeta;
  match goal with
  | |- context [match ?r with Ok _ => _ | Err _ => _ | Panic _ => _ end] => destruct r
  end;
  [ destruct (is_standalone_ack (m_op _));
    [ intros H; inversion H; subst; apply Hkeep; discriminate
    | destruct (m_op _); intros H; inversion H; subst; try (apply Hkeep; discriminate); apply Hrem; discriminate ]
  | repeat match goal with
           | |- context [if ?b then _ else _] => destruct b
           end;
    intros H; inversion H; subst; first [apply Hkeep; discriminate | apply Hrem; discriminate]
  | intros H; inversion H; subst; apply Hkeep; discriminate ].

Lemma new_sess_inv s k e g m' se1 r0 :
  Inv s -> session_post_recv (new_session (next_sid s) k e g) m' (now s) = (se1, r0) ->
  (forall r2, (forall mm sid i, r2 = RxTaken mm sid i -> False) ->
     Inv (mkSys (sessions s ++ [se1]) r2 (handles s) (now s) (next_sid s + 1))) /\
  (forall sid r2, (forall mm sid i, r2 = RxTaken mm sid i -> False) ->
     Inv (mkSys (remove_sid (sessions s ++ [se1]) sid) r2 (handles s) (now s) (next_sid s + 1))).
Proof.
  intros I Hp.
  destruct (session_post_recv_fields _ _ _ _ _ Hp) as [Eid _]. simp_sess.
  assert (Hown1 : forall i, slot_owned (nth_error (s_exchs se1) i) = false).
  { intros i. rewrite (post_recv_owned _ _ _ _ _ Hp i). simp_sess. destruct i; reflexivity. }
  assert (Htime1 : time_ok (now s) se1).
  { eapply post_recv_time; [exact Hp|]. intros i x Hn. simp_sess. destruct i; discriminate. }
  assert (Hgen : forall ss2 r2,
            (forall x, In x ss2 -> In x (sessions s) \/ x = se1) ->
            NoDup (map s_id ss2) ->
            (forall mm sid i, r2 = RxTaken mm sid i -> False) ->
            Inv (mkSys ss2 r2 (handles s) (now s) (next_sid s + 1))).
  { intros ss2 r2 Hin2 Hnd2 Hr2. constructor; simp_sys.
    - exact Hnd2.
    - intros x Hx. destruct (Hin2 x Hx) as [Hx'| ->]; [pose proof (inv_lt _ I x Hx'); lia|lia].
    - intros sid i Hh. pose proof (inv_hlt _ I sid i Hh). lia.
    - intros x i Hx Hs. destruct (Hin2 x Hx) as [Hx'| ->]; [apply (inv_own _ I); assumption|].
      rewrite Hown1 in Hs. discriminate.
    - intros x i Hx Hh. destruct (Hin2 x Hx) as [Hx'| ->]; [apply (inv_hdl _ I); assumption|].
      exfalso. rewrite Eid in Hh. pose proof (inv_hlt _ I _ _ Hh). lia.
    - intros mm sid i Hr. exfalso. eapply Hr2. exact Hr.
    - intros x Hx. destruct (Hin2 x Hx) as [Hx'| ->]; [apply (inv_time _ I); assumption|exact Htime1]. }
  assert (Hnd1 : NoDup (map s_id (sessions s ++ [se1]))).
  { rewrite map_app. cbn [map]. apply NoDup_app_single_fresh; [apply (inv_nodup _ I)|].
    intros Hin. apply in_map_iff in Hin. destruct Hin as [x [Ex Hx]].
    pose proof (inv_lt _ I x Hx). lia. }
  assert (Hin1 : forall x, In x (sessions s ++ [se1]) -> In x (sessions s) \/ x = se1).
  { intros x Hx. apply in_app_or in Hx. destruct Hx as [Hx|[<-|[]]]; [left; exact Hx|right; reflexivity]. }
  split.
  - intros r2 Hr2. apply Hgen; assumption.
  - intros sid r2 Hr2. apply Hgen; [|apply nodup_remove_sid; exact Hnd1|exact Hr2].
    intros x Hx. apply Hin1. eapply in_remove_sid. exact Hx.
Qed.

Lemma do_rx_core_inv s m s' ev : Inv s -> do_rx_core s m = (s', ev) -> Inv s'.
Proof.
  intros I. unfold do_rx_core.
  destruct (find_key (sessions s) (m_key m)) as [se|] eqn:Hk.
  - destruct (find_key_some _ _ _ Hk) as [Hse _].
    destruct (session_post_recv se m (now s)) as [se1 r] eqn:Hp.
    destruct (session_post_recv_fields _ _ _ _ _ Hp) as [Eid _].
    set (ss1 := upd_sid (sessions s) (s_id se) (fun _ => se1)).
    assert (Hsub : sub_same (sessions s) ss1).
    { apply sub_same_upd. intros x Hx Ex. split; [congruence|].
      assert (x = se) by (eapply nodup_sid_unique; [apply (inv_nodup _ I)|exact Hx|exact Hse|exact Ex]).
      subst x. intros i. eapply post_recv_owned. exact Hp. }
    assert (Hids : map s_id ss1 = map s_id (sessions s)).
    { apply map_id_upd_sid. intros; congruence. }
    assert (Htime : forall x, In x ss1 -> time_ok (now s) x).
    { intros x Hx. destruct (in_upd_sid _ _ _ _ Hx) as [y [Hy [[Ey ->]|[Ey ->]]]].
      - eapply post_recv_time; [exact Hp|]. apply (inv_time _ I). exact Hse.
      - apply (inv_time _ I). exact Hy. }
    assert (Hlt1 : forall x, In x ss1 -> s_id x < next_sid s).
    { intros x Hx. destruct (Hsub x Hx) as [y [Hy [E _]]]. rewrite E. apply (inv_lt _ I). exact Hy. }
    assert (Hnd1 : NoDup (map s_id ss1)) by (rewrite Hids; apply (inv_nodup _ I)).
    assert (Hgen : forall ss2 r2, sub_same ss1 ss2 -> NoDup (map s_id ss2) ->
              (forall x, In x ss2 -> In x ss1) ->
              (forall mm sid i, r2 = RxTaken mm sid i -> False) ->
              Inv (mkSys ss2 r2 (handles s) (now s) (next_sid s))).
    { intros ss2 r2 Hs2 Hnd2 Hin2 Hr2.
      destruct (own_hdl_sub _ _ (handles s) (sub_same_trans _ _ _ Hsub Hs2) (inv_own _ I) (inv_hdl _ I)) as [Ho Hh].
      constructor; simp_sys.
      - exact Hnd2.
      - intros x Hx. apply Hlt1. apply Hin2. exact Hx.
      - apply (inv_hlt _ I).
      - exact Ho.
      - exact Hh.
      - intros mm sid i Hr. exfalso. eapply Hr2. exact Hr.
      - intros x Hx. apply Htime. apply Hin2. exact Hx. }
    assert (Hkeep : forall r2, (forall mm sid i, r2 = RxTaken mm sid i -> False) ->
              Inv (mkSys ss1 r2 (handles s) (now s) (next_sid s))).
    { intros r2 Hr2. apply Hgen; [apply sub_same_refl|exact Hnd1|trivial|exact Hr2]. }
    assert (Hrem : forall sid r2, (forall mm sid i, r2 = RxTaken mm sid i -> False) ->
              Inv (mkSys (remove_sid ss1 sid) r2 (handles s) (now s) (next_sid s))).
    { intros sid r2 Hr2. apply Hgen; [apply sub_same_remove|apply nodup_remove_sid; exact Hnd1|
        intros x; apply in_remove_sid|exact Hr2]. }
    fold ss1. rx_dispatch Hkeep Hrem.
  - destruct (negb (m_enc m) && is_new_session (m_op m)).
    + destruct (session_post_recv (new_session (next_sid s) (m_key m) false false) m (now s)) as [se1 r] eqn:Hp.
      destruct (new_sess_inv _ _ _ _ _ _ _ I Hp) as [Hkeep Hrem]. rx_dispatch Hkeep Hrem.
    + destruct (m_enc m && m_group m).
      * destruct (session_post_recv (new_session (next_sid s) (m_key m) true true) m (now s)) as [se1 r] eqn:Hp.
        destruct (new_sess_inv _ _ _ _ _ _ _ I Hp) as [Hkeep Hrem].
        rx_dispatch Hkeep Hrem.
      * cbn zeta. intros H; inversion H; subst. destruct I. constructor; simp_sys; try assumption. discriminate.
Qed.

(** ** handles *)

Lemma has_handle_true s sid i : has_handle s sid i = true <-> In (sid, i) (handles s).
Proof.
  unfold has_handle. rewrite existsb_exists. split.
  - intros [[a b] [Hin He]]. cbn in He. apply andb_true_iff in He. destruct He as [E1 E2].
    apply N.eqb_eq in E1. apply Nat.eqb_eq in E2. subst. exact Hin.
  - intros Hin. exists (sid, i). split; [exact Hin|]. cbn. rewrite N.eqb_refl, Nat.eqb_refl. reflexivity.
Qed.

Lemma in_del_handle l sid i a b :
  In (a, b) (del_handle l sid i) <-> In (a, b) l /\ (a, b) <> (sid, i).
Proof.
  unfold del_handle. rewrite filter_In. cbn [fst snd]. split; intros [H1 H2]; split; try exact H1.
  - intros E. inversion E; subst. rewrite N.eqb_refl, Nat.eqb_refl in H2. discriminate.
  - destruct (N.eqb_spec a sid) as [->|]; [|reflexivity].
    destruct (Nat.eqb_spec b i) as [->|]; [|reflexivity]. exfalso. apply H2. reflexivity.
Qed.

(** ** single-slot updates *)

Lemma upd_sid_ext ss sid f g :
  (forall se, In se ss -> s_id se = sid -> f se = g se) -> upd_sid ss sid f = upd_sid ss sid g.
Proof.
  intros H. unfold upd_sid. apply map_ext_in. intros se Hin.
  destruct (N.eqb_spec (s_id se) sid) as [E|E]; [apply H; assumption|reflexivity].
Qed.

Definition own_p (ss : list session) (hs : list (N * nat)) : Prop :=
  forall se i, In se ss -> slot_owned (nth_error (s_exchs se) i) = true -> In (s_id se, i) hs.
Definition hdl_p (ss : list session) (hs : list (N * nat)) : Prop :=
  forall se i, In se ss -> In (s_id se, i) hs -> slot_owned (nth_error (s_exchs se) i) = true.

Lemma own_hdl_slot ss hs hs' se i0 (f : session -> session) L :
  NoDup (map s_id ss) -> In se ss ->
  f se = set_exchs se L ->
  (forall j, j <> i0 -> nth_error L j = nth_error (s_exchs se) j) ->
  (forall sid j, (sid, j) <> (s_id se, i0) -> (In (sid, j) hs' <-> In (sid, j) hs)) ->
  (slot_owned (nth_error L i0) = true <-> In (s_id se, i0) hs') ->
  own_p ss hs -> hdl_p ss hs ->
  own_p (upd_sid ss (s_id se) f) hs' /\ hdl_p (upd_sid ss (s_id se) f) hs'.
Proof.
  intros Hnd Hse Hf Hoth Hhs Hslot Ho Hh.
  assert (Hx : forall x, In x (upd_sid ss (s_id se) f) ->
            (x = set_exchs se L) \/ (In x ss /\ s_id x <> s_id se)).
  { intros x Hin. destruct (in_upd_sid _ _ _ _ Hin) as [y [Hy [[Ey ->]|[Ey ->]]]].
    - left. assert (y = se) by (eapply nodup_sid_unique; eassumption). subst y. exact Hf.
    - right. split; assumption. }
  split; intros x j Hin H.
  - destruct (Hx x Hin) as [->|[Hxs Hne]]; simp_sess.
    + destruct (Nat.eq_dec j i0) as [->|Hj].
      * apply Hslot. exact H.
      * apply Hhs; [intros E; inversion E; contradiction|].
        apply Ho; [exact Hse|]. rewrite <- (Hoth j Hj). exact H.
    + apply Hhs; [intros E; inversion E; contradiction|]. apply Ho; assumption.
  - destruct (Hx x Hin) as [->|[Hxs Hne]]; simp_sess.
    + destruct (Nat.eq_dec j i0) as [->|Hj].
      * apply Hslot. exact H.
      * rewrite (Hoth j Hj). apply Hh; [exact Hse|].
        apply Hhs; [intros E; inversion E; contradiction|exact H].
    + apply Hh; [exact Hxs|]. apply Hhs; [intros E; inversion E; contradiction|exact H].
Qed.

Lemma time_slot ss se i0 t (f : session -> session) L :
  NoDup (map s_id ss) -> In se ss ->
  f se = set_exchs se L ->
  (forall j, j <> i0 -> nth_error L j = nth_error (s_exchs se) j) ->
  (forall e, nth_error L i0 = Some (Some e) ->
     e_rat e <= t /\ (is_pending (e_role e) = true -> rm_received (e_mrp e) = true)) ->
  (forall x, In x ss -> time_ok t x) ->
  forall x, In x (upd_sid ss (s_id se) f) -> time_ok t x.
Proof.
  intros Hnd Hse Hf Hoth Hnew Ht x Hin.
  destruct (in_upd_sid _ _ _ _ Hin) as [y [Hy [[Ey ->]|[Ey ->]]]]; [|apply Ht; exact Hy].
  assert (y = se) by (eapply nodup_sid_unique; eassumption). subst y. rewrite Hf.
  intros j e Hn. simp_sess. destruct (Nat.eq_dec j i0) as [->|Hj].
  - apply Hnew. exact Hn.
  - rewrite (Hoth j Hj) in Hn. apply (Ht se Hse j e Hn).
Qed.

Lemma upd_keeps_ids ss sid (f : session -> session) :
  (forall se, s_id (f se) = s_id se) ->
  map s_id (upd_sid ss sid f) = map s_id ss.
Proof. intros H. apply map_id_upd_sid. intros se E. rewrite H. exact E. Qed.

Lemma lt_upd ss sid (f : session -> session) n :
  (forall se, s_id (f se) = s_id se) -> (forall se, In se ss -> s_id se < n) ->
  forall x, In x (upd_sid ss sid f) -> s_id x < n.
Proof.
  intros Hf H x Hx. destruct (in_upd_sid _ _ _ _ Hx) as [y [Hy [[_ ->]|[_ ->]]]]; [rewrite Hf|]; apply H; exact Hy.
Qed.

Lemma owner_of_some ss m se i e :
  owner_of ss m = Some (se, i, e) ->
  In se ss /\ s_key se = m_key m /\ nth_error (s_exchs se) i = Some (Some e) /\ exch_is_for_rx e m = true.
Proof.
  unfold owner_of. destruct (find_key ss (m_key m)) as [x|] eqn:Hk; [|discriminate].
  destruct (find_exch (s_exchs x) m) as [[j y]|] eqn:Hf; [|discriminate].
  intros H; inversion H; subst. destruct (find_key_some _ _ _ Hk) as [Hin Hkey].
  destruct (find_exch_some _ _ _ _ Hf) as [Hn Hm]. tauto.
Qed.

Lemma nth_set_nth_other {A} (l : list A) i x : forall j, j <> i -> nth_error (set_nth l i x) j = nth_error l j.
Proof. intros j Hj. apply nth_error_set_nth_neq. congruence. Qed.

Lemma nth_set_nth_here {A} (l : list A) i x y : nth_error l i = Some y -> nth_error (set_nth l i x) i = Some x.
Proof. intros H. apply nth_error_set_nth_eq. apply nth_error_Some. congruence. Qed.

Lemma find_dropped_some p ss sid i e :
  find_dropped p ss = Some (sid, i, e) ->
  exists se, In se ss /\ s_id se = sid /\ nth_error (s_exchs se) i = Some (Some e) /\
             is_dropped (e_role e) = true /\ p e = true.
Proof.
  induction ss as [|a t IH]; cbn [find_dropped]; [discriminate|].
  destruct (find_index _ (s_exchs a)) as [k|] eqn:Hf.
  - destruct (find_index_some _ _ _ Hf) as [x [Hx Hp]]. rewrite Hx.
    destruct x as [y|]; [|discriminate]. intros H; inversion H; subst.
    apply andb_true_iff in Hp. exists a. repeat split; try tauto. left. reflexivity.
  - intros H. destruct (IH H) as [se [Hin R]]. exists se. split; [right; exact Hin|exact R].
Qed.

Lemma pick_dropped_some ss sid i e :
  pick_dropped ss = Some (sid, i, e) ->
  exists se, In se ss /\ s_id se = sid /\ nth_error (s_exchs se) i = Some (Some e) /\
             is_dropped (e_role e) = true.
Proof.
  unfold pick_dropped. destruct (find_dropped retrans_pending ss) as [x|] eqn:H1.
  - intros H; inversion H; subst. destruct (find_dropped_some _ _ _ _ _ H1) as [se R]. exists se. tauto.
  - intros H2. destruct (find_dropped_some _ _ _ _ _ H2) as [se R]. exists se. tauto.
Qed.

Lemma dropped_not_owned r : is_dropped r = true -> is_owned r = false.
Proof. destruct r; cbn; congruence. Qed.
Lemma pending_not_owned r : is_pending r = true -> is_owned r = false.
Proof. destruct r; cbn; congruence. Qed.
Lemma set_dropped_not_owned r : is_owned (set_dropped r) = false.
Proof. destruct r; reflexivity. Qed.
Lemma set_dropped_not_pending r : is_pending (set_dropped r) = false.
Proof. destruct r; reflexivity. Qed.

Lemma expire_inv ss r hs t k sid :
  Inv (mkSys ss r hs t k) -> Inv (mkSys (upd_sid ss sid set_expired) r hs t k).
Proof.
  intros I.
  assert (Hsub : sub_same ss (upd_sid ss sid set_expired)).
  { apply sub_same_upd. intros x _ E. split; [exact E|reflexivity]. }
  destruct (own_hdl_sub _ _ hs Hsub (inv_own _ I) (inv_hdl _ I)) as [Ho' Hh'].
  constructor; simp_sys.
  - rewrite upd_keeps_ids by reflexivity. apply (inv_nodup _ I).
  - apply lt_upd; [intros; reflexivity|apply (inv_lt _ I)].
  - apply (inv_hlt _ I).
  - exact Ho'.
  - exact Hh'.
  - apply (inv_taken _ I).
  - intros x Hx. destruct (in_upd_sid _ _ _ _ Hx) as [y [Hy [[_ ->]|[_ ->]]]]; [|apply (inv_time _ I); exact Hy].
    intros i e Hn. apply (inv_time _ I y Hy i e Hn).
Qed.

Lemma remove_inv ss r hs t k sid :
  Inv (mkSys ss r hs t k) -> Inv (mkSys (remove_sid ss sid) r hs t k).
Proof.
  intros I.
  destruct (own_hdl_sub _ _ hs (sub_same_remove ss sid) (inv_own _ I) (inv_hdl _ I)) as [Ho' Hh'].
  constructor; simp_sys.
  - apply nodup_remove_sid. apply (inv_nodup _ I).
  - intros x Hx. apply (inv_lt _ I). eapply in_remove_sid. exact Hx.
  - apply (inv_hlt _ I).
  - exact Ho'.
  - exact Hh'.
  - apply (inv_taken _ I).
  - intros x Hx. apply (inv_time _ I). simp_sys. eapply in_remove_sid. exact Hx.
Qed.

Lemma group_gc_cases ss sid : group_gc ss sid = ss \/ group_gc ss sid = remove_sid ss sid.
Proof.
  unfold group_gc. destruct (find_sid ss sid) as [se|]; [|left; reflexivity].
  destruct (s_group se && forallb is_none (s_exchs se)); [right|left]; reflexivity.
Qed.

Lemma in_group_gc ss sid x : In x (group_gc ss sid) -> In x ss.
Proof.
  destruct (group_gc_cases ss sid) as [-> | ->]; [trivial|apply in_remove_sid].
Qed.

Lemma gc_inv ss r hs t k sid :
  Inv (mkSys ss r hs t k) -> Inv (mkSys (group_gc ss sid) r hs t k).
Proof.
  intros I. destruct (group_gc_cases ss sid) as [-> | ->]; [exact I|apply remove_inv; exact I].
Qed.

Lemma do_rx_inv s m s' ev : Inv s -> do_rx s m = (s', ev) -> Inv s'.
Proof.
  intros I. unfold do_rx. destruct (do_rx_core s m) as [s1 ev1] eqn:E.
  pose proof (do_rx_core_inv _ _ _ _ I E) as I1.
  destruct (rx_sid s m) as [sid|]; [|intros H; inversion H; subst; exact I1].
  destruct (m_group m && negb (is_holding (rx s1))); intros H; inversion H; subst; [|exact I1].
  apply gc_inv. destruct s1; exact I1.
Qed.

(** ** every step preserves the invariant *)

Theorem step_inv s l s' ev : Inv s -> step false s l = Some (s', ev) -> Inv s'.
Proof.
  intros I. destruct l as [m| |sid idx|sid idx|sid idx|sid idx ctr rel|sid exid| | | |key enc grp|sid|sid|d];
    cbn [step].
  - (* LRx *)
    destruct (rx s); try discriminate. intros H; inversion H as [H1].
    destruct (do_rx s m) as [s1 e1] eqn:E. inversion H1; subst. eapply do_rx_inv; eassumption.
  - (* LAccept *)
    destruct (rx s) as [|m|] eqn:Hrx; try discriminate.
    destruct (owner_of (sessions s) m) as [[[se i] e]|] eqn:Ho; [|discriminate].
    destruct (is_pending (e_role e)) eqn:Hp; [|discriminate].
    intros H; inversion H; subst; clear H.
    destruct (owner_of_some _ _ _ _ _ Ho) as [Hse [_ [Hn _]]].
    set (e1 := mkExch (e_id e) RespOwned (e_mrp e) (e_rat e)).
    set (f := fun x : session => set_exchs x (set_nth (s_exchs x) i (Some e1))).
    destruct (own_hdl_slot (sessions s) (handles s) ((s_id se, i) :: handles s) se i f
                (set_nth (s_exchs se) i (Some e1)) (inv_nodup _ I) Hse eq_refl
                (nth_set_nth_other _ _ _)) as [Ho' Hh'].
    { intros a b Hne. split; [intros [E|Hin]; [congruence|exact Hin]|intros Hin; right; exact Hin]. }
    { rewrite (nth_set_nth_here _ _ _ _ Hn). cbn. split; [intros _; left; reflexivity|reflexivity]. }
    { exact (inv_own _ I). } { exact (inv_hdl _ I). }
    constructor; simp_sys; unfold set_slot; fold f.
    + rewrite upd_keeps_ids by reflexivity. apply (inv_nodup _ I).
    + apply lt_upd; [intros; reflexivity|apply (inv_lt _ I)].
    + intros a b [E|Hin]; [inversion E; subst; apply (inv_lt _ I); exact Hse|apply (inv_hlt _ I _ _ Hin)].
    + exact Ho'.
    + exact Hh'.
    + discriminate.
    + apply (time_slot _ se i _ f (set_nth (s_exchs se) i (Some e1)) (inv_nodup _ I) Hse eq_refl
               (nth_set_nth_other _ _ _)); [|apply (inv_time _ I)].
      intros x Hx. rewrite (nth_set_nth_here _ _ _ _ Hn) in Hx. inversion Hx; subst x. cbn.
      split; [apply (inv_time _ I se Hse i e Hn)|discriminate].
  - (* LRecv *)
    destruct (has_handle s sid idx) eqn:Hh; [|discriminate].
    destruct (rx s) as [|m|] eqn:Hrx; try discriminate.
    destruct (find_sid (sessions s) sid) as [se|]; [|discriminate].
    destruct (s_key se =? m_key m); [|discriminate].
    destruct (nth_error (s_exchs se) idx) as [[e|]|]; try discriminate.
    destruct (exch_is_for_rx e m && negb (retrans_pending e)); [|discriminate].
    intros H; inversion H; subst; clear H. destruct I. constructor; simp_sys; try assumption.
    intros mm a b E. inversion E; subst. apply has_handle_true. exact Hh.
  - (* LRxDone *)
    destruct (rx s) as [| |m a b]; try discriminate.
    destruct ((a =? sid) && (b =? idx)%nat); [|discriminate].
    intros H; inversion H; subst; clear H. destruct I. constructor; simp_sys; try assumption. discriminate.
  - (* LDropExch *)
    destruct (has_handle s sid idx) eqn:Hh; [|discriminate]. apply has_handle_true in Hh.
    intros H; inversion H; subst; clear H.
    assert (Htaken : forall mm a b, release_rx (rx s) sid idx = RxTaken mm a b ->
              In (a, b) (del_handle (handles s) sid idx)).
    { intros mm a b E. unfold release_rx in E. destruct (rx s) as [|m0|m0 a0 b0] eqn:Hrx; try discriminate.
      destruct ((a0 =? sid) && (b0 =? idx)%nat) eqn:Eab; [discriminate|]. inversion E; subst.
      apply in_del_handle. split; [apply (inv_taken _ I _ _ _ Hrx)|].
      intros E2. inversion E2; subst. rewrite N.eqb_refl, Nat.eqb_refl in Eab. discriminate. }
    assert (Hhlt : forall a b, In (a, b) (del_handle (handles s) sid idx) -> a < next_sid s).
    { intros a b Hin. apply in_del_handle in Hin. apply (inv_hlt _ I a b). tauto. }
    destruct (find_sid (sessions s) sid) as [se|] eqn:Hf.
    + destruct (find_sid_some _ _ _ Hf) as [Hse Eid]. subst sid.
      pose proof (inv_hdl _ I se idx Hse Hh) as Hown.
      destruct (nth_error (s_exchs se) idx) as [[e|]|] eqn:Hn; try discriminate.
      set (f := fun x : session => set_exchs x (remove_exch (s_exchs x) idx e)).
      assert (HL : forall j, j <> idx -> nth_error (remove_exch (s_exchs se) idx e) j = nth_error (s_exchs se) j).
      { intros j Hj. unfold remove_exch. destruct (retrans_pending e || ack_pending e); apply nth_set_nth_other; exact Hj. }
      assert (Hnew : forall x, nth_error (remove_exch (s_exchs se) idx e) idx = Some (Some x) ->
                x = mkExch (e_id e) (set_dropped (e_role e)) (e_mrp e) (e_rat e)).
      { intros x. unfold remove_exch. destruct (retrans_pending e || ack_pending e);
          rewrite (nth_set_nth_here _ _ _ _ Hn); intros E; inversion E; reflexivity. }
      destruct (own_hdl_slot (sessions s) (handles s) (del_handle (handles s) (s_id se) idx) se idx f
                  (remove_exch (s_exchs se) idx e) (inv_nodup _ I) Hse eq_refl HL) as [Ho' Hh'].
      { intros a b Hne. rewrite in_del_handle. tauto. }
      { split.
        - intros Hs. exfalso. destruct (nth_error (remove_exch (s_exchs se) idx e) idx) as [[x|]|] eqn:Ex; try discriminate.
          rewrite (Hnew x eq_refl) in Hs. cbn in Hs. rewrite set_dropped_not_owned in Hs. discriminate.
        - intros Hin. apply in_del_handle in Hin. exfalso. apply (proj2 Hin). reflexivity. }
      { exact (inv_own _ I). } { exact (inv_hdl _ I). }
      apply gc_inv. fold f. constructor; simp_sys.
      * rewrite upd_keeps_ids by reflexivity. apply (inv_nodup _ I).
      * apply lt_upd; [intros; reflexivity|apply (inv_lt _ I)].
      * exact Hhlt.
      * exact Ho'.
      * exact Hh'.
      * exact Htaken.
      * apply (time_slot _ se idx _ f (remove_exch (s_exchs se) idx e) (inv_nodup _ I) Hse eq_refl HL);
          [|apply (inv_time _ I)].
        intros x Hx. rewrite (Hnew x Hx). cbn. split; [apply (inv_time _ I se Hse idx e Hn)|].
        rewrite set_dropped_not_pending. discriminate.
    + constructor; simp_sys.
      * apply (inv_nodup _ I).
      * apply (inv_lt _ I).
      * exact Hhlt.
      * intros x j Hx Hs. apply in_del_handle. split; [apply (inv_own _ I); assumption|].
        intros E. inversion E. exact (find_sid_none _ _ Hf x Hx H0).
      * intros x j Hx Hin. apply in_del_handle in Hin. apply (inv_hdl _ I); tauto.
      * exact Htaken.
      * apply (inv_time _ I).
  - (* LSend *)
    destruct (has_handle s sid idx) eqn:Hh; [|discriminate]. apply has_handle_true in Hh. cbn zeta.
    assert (Hrel : Inv (mkSys (sessions s) (release_rx (rx s) sid idx) (handles s) (now s) (next_sid s))).
    { destruct I. constructor; simp_sys; try assumption.
      intros mm a b E. unfold release_rx in E. destruct (rx s) as [|m0|m0 a0 b0] eqn:Hrx; try discriminate.
      destruct ((a0 =? sid) && (b0 =? idx)%nat); [discriminate|]. inversion E; subst.
      apply (inv_taken0 _ _ _ eq_refl). }
    destruct (find_sid (sessions s) sid) as [se|] eqn:Hf; [|intros H; inversion H; subst; exact Hrel].
    destruct (find_sid_some _ _ _ Hf) as [Hse Eid]. subst sid.
    destruct (nth_error (s_exchs se) idx) as [[e|]|] eqn:Hn; try (intros H; inversion H; subst; exact Hrel).
    destruct (s_group se); [intros H; inversion H; subst; exact Hrel|].
    destruct (rm_pre_send (e_mrp e) ctr rel None) as [r' rr] eqn:Hps.
    pose proof (inv_hdl _ I se idx Hse Hh) as Hown. rewrite Hn in Hown. cbn in Hown.
    set (e1 := mkExch (e_id e) (e_role e) r' (e_rat e)).
    set (f := fun x : session => set_exchs x (set_nth (s_exchs x) idx (Some e1))).
    assert (Hres : Inv (mkSys (set_slot (sessions s) (s_id se) idx (Some e1)) (release_rx (rx s) (s_id se) idx)
                  (handles s) (now s) (next_sid s))).
    {
      destruct (own_hdl_slot (sessions s) (handles s) (handles s) se idx f
                  (set_nth (s_exchs se) idx (Some e1)) (inv_nodup _ I) Hse eq_refl
                  (nth_set_nth_other _ _ _)) as [Ho' Hh'].
      { intros; reflexivity. }
      { rewrite (nth_set_nth_here _ _ _ _ Hn). cbn. split; [intros _; exact Hh|intros _; exact Hown]. }
      { exact (inv_own _ I). } { exact (inv_hdl _ I). }
      constructor; simp_sys; unfold set_slot; fold f.
      - rewrite upd_keeps_ids by reflexivity. apply (inv_nodup _ I).
      - apply lt_upd; [intros; reflexivity|apply (inv_lt _ I)].
      - apply (inv_hlt _ I).
      - exact Ho'.
      - exact Hh'.
      - intros mm a b E. unfold release_rx in E. destruct (rx s) as [|m0|m0 a0 b0] eqn:Hrx; try discriminate.
        destruct ((a0 =? s_id se) && (b0 =? idx)%nat); [discriminate|]. inversion E; subst.
        apply (inv_taken _ I _ _ _ Hrx).
      - apply (time_slot _ se idx _ f (set_nth (s_exchs se) idx (Some e1)) (inv_nodup _ I) Hse eq_refl
                 (nth_set_nth_other _ _ _)); [|apply (inv_time _ I)].
        intros x Hx. rewrite (nth_set_nth_here _ _ _ _ Hn) in Hx. inversion Hx; subst x. cbn.
        split; [apply (inv_time _ I se Hse idx e Hn)|].
        intros Hp. rewrite (pending_not_owned _ Hp) in Hown. discriminate. }
    fold e1. cbn zeta.
    destruct rr as [v|c|p]; try discriminate; intros H; inversion H; subst; clear H; try exact Hres.
    match goal with |- Inv (mkSys (if ?b then _ else _) _ _ _ _) => destruct b end; [apply expire_inv|]; exact Hres.
  - (* LInitiate *)
    destruct (find_sid (sessions s) sid) as [se|] eqn:Hf; [|discriminate].
    destruct (find_sid_some _ _ _ Hf) as [Hse Eid]. subst sid.
    destruct (s_expired se); [discriminate|].
    destruct (add_exch (s_exchs se) (mkExch exid InitOwned rm_new 0)) as [[l' i]|] eqn:Ha; [|discriminate].
    intros H; inversion H; subst; clear H.
    destruct (add_exch_some _ _ _ _ Ha) as [Hi [Hoth [Hfree _]]].
    set (f := fun x : session => set_exchs x l').
    destruct (own_hdl_slot (sessions s) (handles s) ((s_id se, i) :: handles s) se i f l'
                (inv_nodup _ I) Hse eq_refl Hoth) as [Ho' Hh'].
    { intros a b Hne. split; [intros [E|Hin]; [congruence|exact Hin]|intros Hin; right; exact Hin]. }
    { rewrite Hi. cbn. split; [intros _; left; reflexivity|reflexivity]. }
    { exact (inv_own _ I). } { exact (inv_hdl _ I). }
    constructor; simp_sys; fold f.
    + rewrite upd_keeps_ids by reflexivity. apply (inv_nodup _ I).
    + apply lt_upd; [intros; reflexivity|apply (inv_lt _ I)].
    + intros a b [E|Hin]; [inversion E; subst; apply (inv_lt _ I); exact Hse|apply (inv_hlt _ I _ _ Hin)].
    + exact Ho'.
    + exact Hh'.
    + intros mm a b E. right. apply (inv_taken _ I _ _ _ E).
    + apply (time_slot _ se i _ f l' (inv_nodup _ I) Hse eq_refl Hoth); [|apply (inv_time _ I)].
      intros x Hx. rewrite Hi in Hx. inversion Hx; subst x. cbn. split; [lia|discriminate].
  - (* LSweepAccept *)
    destruct (rx s) as [|m|] eqn:Hrx; try discriminate.
    destruct (owner_of (sessions s) m) as [[[se i] e]|] eqn:Ho; [|discriminate].
    destruct (is_pending (e_role e) && rm_received (e_mrp e) && (e_rat e + ACCEPT_TIMEOUT_MS <=? now s)) eqn:Hg;
      [|discriminate].
    apply andb_true_iff in Hg. destruct Hg as [Hg _]. apply andb_true_iff in Hg. destruct Hg as [Hp _].
    intros H; inversion H; subst; clear H.
    destruct (owner_of_some _ _ _ _ _ Ho) as [Hse [_ [Hn _]]].
    set (e1 := mkExch (e_id e) RespDropped (e_mrp e) (e_rat e)).
    set (f := fun x : session => set_exchs x (set_nth (s_exchs x) i (Some e1))).
    destruct (own_hdl_slot (sessions s) (handles s) (handles s) se i f
                (set_nth (s_exchs se) i (Some e1)) (inv_nodup _ I) Hse eq_refl
                (nth_set_nth_other _ _ _)) as [Ho' Hh'].
    { intros; reflexivity. }
    { rewrite (nth_set_nth_here _ _ _ _ Hn). cbn. split; [discriminate|].
      intros Hin. pose proof (inv_hdl _ I se i Hse Hin) as Hc. rewrite Hn in Hc. cbn in Hc.
      rewrite (pending_not_owned _ Hp) in Hc. discriminate. }
    { exact (inv_own _ I). } { exact (inv_hdl _ I). }
    constructor; simp_sys; unfold set_slot; fold f.
    + rewrite upd_keeps_ids by reflexivity. apply (inv_nodup _ I).
    + apply lt_upd; [intros; reflexivity|apply (inv_lt _ I)].
    + apply (inv_hlt _ I).
    + exact Ho'.
    + exact Hh'.
    + discriminate.
    + apply (time_slot _ se i _ f (set_nth (s_exchs se) i (Some e1)) (inv_nodup _ I) Hse eq_refl
               (nth_set_nth_other _ _ _)); [|apply (inv_time _ I)].
      intros x Hx. rewrite (nth_set_nth_here _ _ _ _ Hn) in Hx. inversion Hx; subst x. cbn.
      split; [apply (inv_time _ I se Hse i e Hn)|discriminate].
  - (* LSweepOrphan *)
    destruct (rx s) as [|m|] eqn:Hrx; try discriminate.
    assert (Hok : Inv (mkSys (sessions s) RxEmpty (handles s) (now s) (next_sid s))).
    { destruct I. constructor; simp_sys; try assumption. discriminate. }
    destruct (owner_of (sessions s) m) as [[[se i] e]|].
    + destruct (is_dropped (e_role e)); [|discriminate]. intros H; inversion H; subst. exact Hok.
    + intros H; inversion H; subst. exact Hok.
  - (* LCloseDropped *)
    destruct (pick_dropped (sessions s)) as [[[sid i] e]|] eqn:Hpk; [|discriminate].
    destruct (pick_dropped_some _ _ _ _ Hpk) as [se [Hse [Eid [Hn Hd]]]]. subst sid.
    destruct (retrans_pending e).
    + intros H; inversion H; subst; clear H.
      destruct (own_hdl_sub _ _ (handles s) (sub_same_remove (sessions s) (s_id se)) (inv_own _ I) (inv_hdl _ I)) as [Ho' Hh'].
      constructor; simp_sys.
      * apply nodup_remove_sid. apply (inv_nodup _ I).
      * intros x Hx. apply (inv_lt _ I). eapply in_remove_sid. exact Hx.
      * apply (inv_hlt _ I).
      * exact Ho'.
      * exact Hh'.
      * apply (inv_taken _ I).
      * intros x Hx. apply (inv_time _ I). eapply in_remove_sid. exact Hx.
    + intros H; inversion H; subst; clear H.
      set (f := fun x : session => set_exchs x (set_nth (s_exchs x) i None)).
      destruct (own_hdl_slot (sessions s) (handles s) (handles s) se i f
                  (set_nth (s_exchs se) i None) (inv_nodup _ I) Hse eq_refl
                  (nth_set_nth_other _ _ _)) as [Ho' Hh'].
      { intros; reflexivity. }
      { rewrite (nth_set_nth_here _ _ _ _ Hn). cbn. split; [discriminate|].
        intros Hin. pose proof (inv_hdl _ I se i Hse Hin) as Hc. rewrite Hn in Hc. cbn in Hc.
        rewrite (dropped_not_owned _ Hd) in Hc. discriminate. }
      { exact (inv_own _ I). } { exact (inv_hdl _ I). }
      apply gc_inv. unfold set_slot; fold f. constructor; simp_sys.
      * rewrite upd_keeps_ids by reflexivity. apply (inv_nodup _ I).
      * apply lt_upd; [intros; reflexivity|apply (inv_lt _ I)].
      * apply (inv_hlt _ I).
      * exact Ho'.
      * exact Hh'.
      * apply (inv_taken _ I).
      * apply (time_slot _ se i _ f (set_nth (s_exchs se) i None) (inv_nodup _ I) Hse eq_refl
                 (nth_set_nth_other _ _ _)); [|apply (inv_time _ I)].
        intros x Hx. rewrite (nth_set_nth_here _ _ _ _ Hn) in Hx. discriminate.
  - (* LAddSession *)
    intros H; inversion H; subst; clear H.
    assert (Hin1 : forall x, In x (sessions s ++ [new_session (next_sid s) key enc grp]) ->
              In x (sessions s) \/ x = new_session (next_sid s) key enc grp).
    { intros x Hx. apply in_app_or in Hx. destruct Hx as [Hx|[<-|[]]]; [left; exact Hx|right; reflexivity]. }
    constructor; simp_sys.
    + rewrite map_app. cbn [map]. apply NoDup_app_single_fresh; [apply (inv_nodup _ I)|].
      intros Hin. apply in_map_iff in Hin. destruct Hin as [x [Ex Hx]]. simp_sess.
      pose proof (inv_lt _ I x Hx). lia.
    + intros x Hx. destruct (Hin1 x Hx) as [Hx'| ->]; [pose proof (inv_lt _ I x Hx'); lia|simp_sess; lia].
    + intros a b Hh. pose proof (inv_hlt _ I a b Hh). lia.
    + intros x i Hx Hs. destruct (Hin1 x Hx) as [Hx'| ->]; [apply (inv_own _ I); assumption|].
      simp_sess. destruct i; discriminate.
    + intros x i Hx Hh. destruct (Hin1 x Hx) as [Hx'| ->]; [apply (inv_hdl _ I); assumption|].
      exfalso. simp_sess. pose proof (inv_hlt _ I _ _ Hh). lia.
    + apply (inv_taken _ I).
    + intros x Hx. destruct (Hin1 x Hx) as [Hx'| ->]; [apply (inv_time _ I); assumption|].
      intros i e Hn. simp_sess. destruct i; discriminate.
  - (* LRemoveSession *)
    destruct (find_sid (sessions s) sid); [|discriminate].
    intros H; inversion H; subst; clear H.
    destruct (own_hdl_sub _ _ (handles s) (sub_same_remove (sessions s) sid) (inv_own _ I) (inv_hdl _ I)) as [Ho' Hh'].
    constructor; simp_sys.
    + apply nodup_remove_sid. apply (inv_nodup _ I).
    + intros x Hx. apply (inv_lt _ I). eapply in_remove_sid. exact Hx.
    + apply (inv_hlt _ I).
    + exact Ho'.
    + exact Hh'.
    + apply (inv_taken _ I).
    + intros x Hx. apply (inv_time _ I). eapply in_remove_sid. exact Hx.
  - (* LExpireSession *)
    destruct (find_sid (sessions s) sid); [|discriminate].
    intros H; inversion H; subst; clear H.
    assert (Hsub : sub_same (sessions s) (upd_sid (sessions s) sid set_expired)).
    { apply sub_same_upd. intros x _ E. split; [exact E|reflexivity]. }
    destruct (own_hdl_sub _ _ (handles s) Hsub (inv_own _ I) (inv_hdl _ I)) as [Ho' Hh'].
    constructor; simp_sys.
    + rewrite upd_keeps_ids by reflexivity. apply (inv_nodup _ I).
    + apply lt_upd; [intros; reflexivity|apply (inv_lt _ I)].
    + apply (inv_hlt _ I).
    + exact Ho'.
    + exact Hh'.
    + apply (inv_taken _ I).
    + intros x Hx. destruct (in_upd_sid _ _ _ _ Hx) as [y [Hy [[_ ->]|[_ ->]]]]; [|apply (inv_time _ I); exact Hy].
      intros i e Hn. apply (inv_time _ I y Hy i e Hn).
  - (* LTick *)
    intros H; inversion H; subst; clear H. destruct I. constructor; simp_sys; try assumption.
    intros x Hx. eapply time_ok_mono; [|apply inv_time0; exact Hx]. lia.
Qed.

Lemma run_inv s ls : Inv s -> Inv (run false s ls).
Proof.
  revert s. induction ls as [|l t IH]; intros s I; cbn [run]; [exact I|].
  apply IH. unfold step_or_stay. destruct (step false s l) as [[s' ev]|] eqn:E; [|exact I].
  eapply step_inv; eassumption.
Qed.

Theorem reachable_inv s : reachable s -> Inv s.
Proof. intros [t0 [ls ->]]. apply run_inv. apply inv_init. Qed.
