(** Round trip of the derived encoders, generically over type descriptions:
    [ddec d (denc d tag v) = v] for every well-formed description and every
    value of that type, with anything following the encoding. *)
From Coq Require Import NArith ZArith List Bool Lia ZifyN ZifyBool Sorted.
From RsM Require Import Model.Tlv Model.TlvDerive Proofs.TlvFacts Proofs.TlvTotal Proofs.TlvWriter
  Proofs.TlvRoundtrip Proofs.TlvScalar Proofs.TlvDeriveInt Proofs.TlvDeriveFacts.
Import ListNotations.
Open Scope N_scope.

(** [bs] is the encoding of one well-formed tree tagged [t], and decodes to [v] *)
Definition good (d : dty) (t : tag) (v : dval) (bs : bytes) : Prop :=
  exists x, bs = encode x /\ wf_tree x /\ root_tag x = t /\
            (is_nullable d = false -> is_option d = false -> root_vt x <> TNull) /\
            forall rest, blen (bs ++ rest) < two63 -> ddec d (bs ++ rest) = ROk v.

Definition field_ok (d : dty) : Prop :=
  forall t v bs, wf_field d -> has_ty d v -> wf_tag t -> denc d t v = ROk bs ->
  (is_option d = true /\ v = XNone /\ bs = []) \/ good d t v bs.

Lemma Forall2_len {A B} (R : A -> B -> Prop) l l' : Forall2 R l l' -> length l = length l'.
Proof. induction 1; cbn [length]; congruence. Qed.

Lemma mk_good d t v bs x :
  bs = encode x -> wf_tree x -> root_tag x = t ->
  (is_nullable d = false -> is_option d = false -> root_vt x <> TNull) ->
  (forall rest, blen (bs ++ rest) < two63 -> ddec d (bs ++ rest) = ROk v) -> good d t v bs.
Proof. intros. exists x. repeat split; assumption. Qed.

Lemma encode_not_nil x rest : is_nil (encode x ++ rest) = false.
Proof.
  destruct (encode_raw x) as (p & ->). unfold w_raw_value. reflexivity.
Qed.

(** * Leaves *)

Lemma good_leaf d t v lv bs :
  wf_tag t -> wf_val lv -> bs = w_tlv t lv -> vtype_of_val lv <> TNull ->
  (forall rest, ddec d (w_tlv t lv ++ rest) = ROk v) -> good d t v bs.
Proof.
  intros Ht Hv -> Hn Hd. exists (Leaf t lv). repeat split; auto.
Qed.

Lemma w_bool_leaf t b : w_bool t b = w_tlv t (VBool b).
Proof. rewrite w_tlv_raw. destruct b; reflexivity. Qed.
Lemma w_null_leaf t : w_null t = w_tlv t VNull.
Proof. rewrite w_tlv_raw. reflexivity. Qed.
Lemma w_f32_leaf t b : w_f32 t b = w_tlv t (VF32 b).
Proof. rewrite w_tlv_raw. reflexivity. Qed.
Lemma w_f64_leaf t b : w_f64 t b = w_tlv t (VF64 b).
Proof. rewrite w_tlv_raw. reflexivity. Qed.
Lemma w_str_leaf t s : w_str t s = w_tlv t (VStr (min_width (blen s)) s).
Proof. rewrite w_tlv_raw, w_str_raw. reflexivity. Qed.
Lemma w_utf8_leaf t s : w_utf8 t s = w_tlv t (VUtf (min_width (blen s)) s).
Proof. rewrite w_tlv_raw, w_utf8_raw. reflexivity. Qed.

(** * Nullable: the range check of the writer and of the reader agree *)
Lemma nullable_checks d' x' t bs :
  denc (DNullable d') t (XNN x') = ROk bs ->
  denc d' t x' = ROk bs /\
  (match d', x' with
   | DInt sg w, XInt z => if (z =? int_excluded sg w)%Z then RErr E_CONSTRAINT else ROk (XNN x')
   | DUnit w16 vals, XUnit i =>
       match nth_error vals i with
       | Some n => if n =? (if w16 then 65535 else 255) then RErr E_CONSTRAINT else ROk (XNN x')
       | None => ROk (XNN x')
       end
   | _, _ => ROk (XNN x')
   end) = ROk (XNN x').
Proof.
  cbn [denc]. intros H. destruct d'; try (split; [exact H|reflexivity]);
    destruct x'; try (split; [exact H|reflexivity]).
  - destruct (_ =? _)%Z; [discriminate|]. split; [exact H|reflexivity].
  - destruct (nth_error vals i); [|discriminate].
    destruct (_ =? _); [discriminate|]. split; [exact H|reflexivity].
Qed.

(** * Arrays *)

Lemma arr_loop_S dec room f s count :
  arr_loop dec room (S f) s count =
  match seq_iter_next s with
  | (ROk None, _) => ROk []
  | (ROk (Some e), s') =>
      let! x := dec e in
      let! _ := (if room count then ROk tt else RErr E_CONSTRAINT) in
      let! r := arr_loop dec room f s' (count + 1) in
      ROk (x :: r)
  | (RErr c, _) => RErr c
  | (RPanic p, _) => RPanic p
  | (RFuel, _) => RFuel
  end.
Proof. reflexivity. Qed.

Lemma arr_loop_trees dec room cs : forall l,
  Forall2 (fun c xv => wf_tree c /\
             forall rest, blen (encode c ++ rest) < two63 -> dec (encode c ++ rest) = ROk xv) cs l ->
  forall fuel count rest,
  (length cs < fuel)%nat ->
  (forall i, (i < length cs)%nat -> room (count + N.of_nat i) = true) ->
  blen (encode_list cs ++ w_end ++ rest) < two63 ->
  arr_loop dec room fuel (encode_list cs ++ w_end ++ rest) count = ROk l.
Proof.
  induction 1 as [|c xv cs l [Hwc Hdec] Hrest IH]; intros fuel count rest Hf Hroom Hb.
  - destruct fuel as [|fuel]; [cbn in Hf; lia|]. rewrite arr_loop_S.
    unfold encode_list. cbn [flat_map app]. rewrite seq_iter_next_end. reflexivity.
  - destruct fuel as [|fuel]; [cbn in Hf; lia|]. rewrite arr_loop_S.
    rewrite encode_list_cons in *. rewrite seq_iter_next_tree by assumption.
    rewrite Hdec by assumption. cbn [rbind].
    pose proof (Hroom O ltac:(cbn; lia)) as H0. rewrite N.add_0_r in H0. rewrite H0. cbn [rbind].
    rewrite IH; [reflexivity|cbn [length] in Hf; lia| |rewrite blen_app in Hb; lia].
    intros i Hi. specialize (Hroom (S i) ltac:(cbn [length]; lia)).
    rewrite <- Hroom. f_equal. lia.
Qed.

Lemma array_decode dec room t cs l rest :
  wf_tag t -> wf_list cs ->
  Forall2 (fun c xv => wf_tree c /\
             forall rest, blen (encode c ++ rest) < two63 -> dec (encode c ++ rest) = ROk xv) cs l ->
  (forall i, (i < length cs)%nat -> room (N.of_nat i) = true) ->
  blen (encode (Node t KArray cs) ++ rest) < two63 ->
  dec_array dec room (encode (Node t KArray cs) ++ rest) = ROk l.
Proof.
  intros Ht Hcs H2 Hroom Hb. unfold dec_array. rewrite encode_not_nil.
  assert (Harr : el_array (encode (Node t KArray cs) ++ rest) = ROk (encode_list cs ++ w_end ++ rest)).
  { unfold el_array. rewrite encode_node, start_control. cbn [rbind snd]. apply start_next_enter. }
  rewrite Harr. cbn [rmap rbind].
  assert (Hcm : container_or_malformed (encode (Node t KArray cs) ++ rest) = encode_list cs ++ w_end ++ rest).
  { unfold container_or_malformed, el_container. rewrite encode_node, start_control. cbn [rbind snd].
    rewrite start_next_enter. reflexivity. }
  rewrite Hcm. apply arr_loop_trees; auto.
  - rewrite encode_node, !app_length. pose proof (length_le_encode_list cs). lia.
  - rewrite encode_node, blen_app in Hb. lia.
Qed.

(** * Structures *)

(** [cs] are the trees written for the fields [fs] holding [vs] (absent optionals write nothing) *)
Inductive fields_trees : list (N * dty) -> list dval -> list tree -> Prop :=
| ft_nil : fields_trees [] [] []
| ft_absent ft fd fr vr cs :
    is_option fd = true -> fields_trees fr vr cs ->
    fields_trees ((ft, fd) :: fr) (XNone :: vr) cs
| ft_present ft fd fv x fr vr cs :
    wf_tree x -> root_tag x = TgCtx ft ->
    (forall rest, blen (encode x ++ rest) < two63 -> ddec fd (encode x ++ rest) = ROk fv) ->
    fields_trees fr vr cs ->
    fields_trees ((ft, fd) :: fr) (fv :: vr) (x :: cs).

Lemma fields_trees_wf fs vs cs : fields_trees fs vs cs -> wf_list cs.
Proof. induction 1; [constructor|assumption|constructor; assumption]. Qed.

Lemma fields_trees_tags fs vs cs :
  fields_trees fs vs cs -> Forall (fun x => exists k, root_tag x = TgCtx k /\ In k (map fst fs)) cs.
Proof.
  induction 1 as [|ft fd fr vr cs Ho H IH|ft fd fv x fr vr cs Hw Hr Hd H IH].
  - constructor.
  - eapply Forall_impl; [|exact IH]. intros a (k & Hk & Hin). exists k. split; [exact Hk|right; exact Hin].
  - constructor.
    + exists ft. split; [exact Hr|left; reflexivity].
    + eapply Forall_impl; [|exact IH]. intros a (k & Hk & Hin). exists k. split; [exact Hk|right; exact Hin].
Qed.

(** what the structure decoder finds for one field among the children [all_cs] *)
Definition field_found (all_cs : list tree) (f : N * dty) (fv : dval) : Prop :=
  match lookup_ctx (fst f) all_cs with
  | Some (x, _) => forall rest, blen (encode x ++ rest) < two63 -> ddec (snd f) (encode x ++ rest) = ROk fv
  | None => ddec (snd f) [] = ROk fv
  end.

Lemma lookup_ctx_none_app k pre cs :
  (forall x, In x pre -> root_tag x <> TgCtx k) -> lookup_ctx k (pre ++ cs) = lookup_ctx k cs.
Proof.
  induction pre as [|p pre IH]; intros H; [reflexivity|]. cbn [app lookup_ctx].
  assert (Hp : root_tag p <> TgCtx k) by (apply H; left; reflexivity).
  assert (IH' : lookup_ctx k (pre ++ cs) = lookup_ctx k cs) by (apply IH; intros x Hx; apply H; right; exact Hx).
  destruct (root_tag p) as [|k'| | | | | |]; auto.
  destruct (N.eqb_spec k' k); [subst; congruence|exact IH'].
Qed.

Lemma fields_found fs vs cs :
  fields_trees fs vs cs -> NoDup (map fst fs) ->
  forall pre, (forall x, In x pre -> forall k, In k (map fst fs) -> root_tag x <> TgCtx k) ->
  Forall2 (field_found (pre ++ cs)) fs vs.
Proof.
  induction 1 as [|ft fd fr vr cs Ho H IH|ft fd fv x fr vr cs Hw Hr Hd H IH]; intros Hnd pre Hpre.
  - constructor.
  - cbn [map fst] in Hnd. inversion Hnd as [|a l Hnin Hnd']; subst. constructor.
    + unfold field_found. cbn [fst snd].
      rewrite lookup_ctx_none_app by (intros y Hy; apply Hpre; [exact Hy|left; reflexivity]).
      assert (Hnone : lookup_ctx ft cs = None).
      { pose proof (fields_trees_tags _ _ _ H) as Ht. clear -Ht Hnin.
        induction Ht as [|c r (k & Hk & Hin) Hr IHr]; [reflexivity|]. cbn [lookup_ctx]. rewrite Hk.
        destruct (N.eqb_spec k ft); [subst; contradiction|exact IHr]. }
      rewrite Hnone. destruct fd; try discriminate. reflexivity.
    + apply IH; [exact Hnd'|]. intros y Hy k Hk. apply Hpre; [exact Hy|right; exact Hk].
  - cbn [map fst] in Hnd. inversion Hnd as [|a l Hnin Hnd']; subst. constructor.
    + unfold field_found. cbn [fst snd].
      rewrite lookup_ctx_none_app by (intros y Hy; apply Hpre; [exact Hy|left; reflexivity]).
      cbn [lookup_ctx]. rewrite Hr, N.eqb_refl. exact Hd.
    + replace (pre ++ x :: cs) with ((pre ++ [x]) ++ cs) by (rewrite <- app_assoc; reflexivity).
      apply IH; [exact Hnd'|]. intros y Hy k Hk.
      apply in_app_or in Hy as [Hy|[<-|[]]].
      * apply Hpre; [exact Hy|right; exact Hk].
      * rewrite Hr. intros E. injection E as <-. contradiction.
Qed.

(** the field loop of the derived structure decoder (find_ctx flavour) *)
Lemma struct_fields_decode all_cs rest fs : forall vs,
  wf_list all_cs -> blen (encode_list all_cs ++ w_end ++ rest) < two63 ->
  Forall2 (field_found all_cs) fs vs ->
  (fix go (fs : list (N * dty)) (sq : bytes) : rres (list dval) :=
     match fs with
     | [] => ROk []
     | (ft, fd) :: fr =>
         let! e := seq_find_ctx sq ft in
         let! x := ddec fd e in
         let! xs := go fr sq in
         ROk (x :: xs)
     end) fs (encode_list all_cs ++ w_end ++ rest) = ROk vs.
Proof.
  intros vs Hw Hb H. induction H as [|[ft fd] fv fr vr Hf Hr IH]; [reflexivity|].
  rewrite find_ctx_trees by assumption. cbn [rbind].
  unfold field_found in Hf. cbn [fst snd] in Hf.
  destruct (lookup_ctx ft all_cs) as [[x r]|] eqn:El.
  - rewrite Hf.
    + cbn [rbind]. rewrite IH. reflexivity.
    + (* the found element and what follows it is a suffix of the input *)
      clear -El Hb. revert Hb. generalize (w_end ++ rest) as tail. intros tail.
      induction all_cs as [|c cs IHc]; [discriminate|]. cbn [lookup_ctx] in El.
      rewrite encode_list_cons, blen_app. intros Hb.
      assert (Hrec : lookup_ctx ft cs = Some (x, r) -> blen (encode x ++ encode_list r ++ tail) < two63)
        by (intros E; apply IHc; [exact E|lia]).
      destruct (root_tag c) as [|k'| | | | | |]; auto.
      destruct (k' =? ft); [|auto]. injection El as <- <-. rewrite blen_app. lia.
  - rewrite Hf. cbn [rbind]. rewrite IH. reflexivity.
Qed.

(** * The [assume_ordered] flavour ([scan_ctx], the sequence threaded through the fields) *)

(** where [scan_ctx k] stops among the children [cs], and what it returns *)
Fixpoint scan_spec (k : N) (cs : list tree) : option tree * list tree :=
  match cs with
  | [] => (None, [])
  | c :: r =>
      match root_tag c with
      | TgCtx k' =>
          if k' =? k then (Some c, c :: r)
          else if k <? k' then (None, c :: r)
          else scan_spec k r
      | _ => scan_spec k r
      end
  end.

Lemma scan_ctx_loop_S f s ctx :
  scan_ctx_loop (S f) s ctx =
  let! cur := current s in
  let! r := (if is_nil cur then ROk (Some cur)
             else
               let! oc := el_try_ctx cur in
               match oc with
               | Some c =>
                   if c =? ctx then ROk (Some cur)
                   else if ctx <? c then ROk (Some [])
                   else ROk None
               | None => ROk None
               end) in
  match r with
  | Some e => ROk (e, s)
  | None => let! nx := container_next s in scan_ctx_loop f nx ctx
  end.
Proof. reflexivity. Qed.

Lemma current_tree x rest : wf_tree x -> current (encode x ++ rest) = ROk (encode x ++ rest).
Proof.
  intros Hw. destruct (encode_control x rest Hw) as (c & Hc & Hend).
  rewrite (current_control _ _ Hc), Hend. reflexivity.
Qed.

Lemma current_end rest : current (w_end ++ rest) = ROk [].
Proof. rewrite (current_control _ _ (end_control rest)). reflexivity. Qed.

Lemma scan_ctx_loop_trees cs :
  wf_list cs -> forall fuel k rest,
  (length cs < fuel)%nat -> blen (encode_list cs ++ w_end ++ rest) < two63 ->
  scan_ctx_loop fuel (encode_list cs ++ w_end ++ rest) k =
  ROk (match fst (scan_spec k cs) with
       | Some _ => encode_list (snd (scan_spec k cs)) ++ w_end ++ rest
       | None => []
       end,
       encode_list (snd (scan_spec k cs)) ++ w_end ++ rest).
Proof.
  induction 1 as [|c r Hc Hr IH]; intros fuel k rest Hf Hb.
  - destruct fuel as [|fuel]; [cbn in Hf; lia|]. rewrite scan_ctx_loop_S.
    unfold encode_list. cbn [flat_map app scan_spec fst snd]. rewrite current_end. reflexivity.
  - destruct fuel as [|fuel]; [cbn in Hf; lia|]. rewrite scan_ctx_loop_S.
    rewrite encode_list_cons in *. rewrite current_tree by assumption. cbn [rbind].
    rewrite encode_not_nil. rewrite encode_try_ctx by assumption. cbn [rbind scan_spec].
    assert (Hb' : blen (encode_list r ++ w_end ++ rest) < two63) by (rewrite blen_app in Hb; lia).
    cbn [length] in Hf.
    assert (Hskip : (let! nx := container_next (encode c ++ encode_list r ++ w_end ++ rest) in
                     scan_ctx_loop fuel nx k) =
                    ROk (match fst (scan_spec k r) with
                         | Some _ => encode_list (snd (scan_spec k r)) ++ w_end ++ rest
                         | None => []
                         end, encode_list (snd (scan_spec k r)) ++ w_end ++ rest)).
    { rewrite container_next_tree by assumption. cbn [rbind]. apply IH; [lia|exact Hb']. }
    destruct (root_tag c) as [|k'| | | | | |]; try exact Hskip.
    destruct (N.eqb_spec k' k).
    + cbn [fst snd]. rewrite encode_list_cons. reflexivity.
    + destruct (N.ltb_spec k k').
      * cbn [fst snd]. rewrite encode_list_cons. reflexivity.
      * exact Hskip.
Qed.

Lemma scan_spec_suffix k cs : exists pre, cs = pre ++ snd (scan_spec k cs).
Proof.
  induction cs as [|c r [pre IH]]; [exists []; reflexivity|]. cbn [scan_spec].
  destruct (root_tag c) as [|k'| | | | | |]; try (exists (c :: pre); cbn [app]; f_equal; exact IH).
  destruct (k' =? k); [exists []; reflexivity|].
  destruct (k <? k'); [exists []; reflexivity|]. exists (c :: pre). cbn [app]. f_equal. exact IH.
Qed.

Lemma scan_ctx_trees cs k rest :
  wf_list cs -> blen (encode_list cs ++ w_end ++ rest) < two63 ->
  seq_scan_ctx (encode_list cs ++ w_end ++ rest) k =
  ROk (match fst (scan_spec k cs) with
       | Some _ => encode_list (snd (scan_spec k cs)) ++ w_end ++ rest
       | None => []
       end,
       encode_list (snd (scan_spec k cs)) ++ w_end ++ rest).
Proof.
  intros Hcs Hb. unfold seq_scan_ctx. apply scan_ctx_loop_trees; auto.
  rewrite app_length. pose proof (length_le_encode_list cs). lia.
Qed.

(** what the ordered decoder finds for the fields, threading the position *)
Fixpoint ord_found (cs : list tree) (fs : list (N * dty)) (vs : list dval) : Prop :=
  match fs, vs with
  | [], [] => True
  | (ft, fd) :: fr, fv :: vr =>
      (match scan_spec ft cs with
       | (Some x, cs') =>
           (exists r, cs' = x :: r) /\
           forall rest, blen (encode x ++ rest) < two63 -> ddec fd (encode x ++ rest) = ROk fv
       | (None, _) => ddec fd [] = ROk fv
       end) /\ ord_found (snd (scan_spec ft cs)) fr vr
  | _, _ => False
  end.

Lemma wf_list_suffix pre cs : wf_list (pre ++ cs) -> wf_list cs.
Proof. intros H. apply Forall_app in H. tauto. Qed.

Lemma blen_suffix pre cs tail :
  blen (encode_list (pre ++ cs) ++ tail) < two63 -> blen (encode_list cs ++ tail) < two63.
Proof.
  unfold encode_list. rewrite flat_map_app, <- app_assoc, blen_app. lia.
Qed.

Lemma struct_fields_decode_ordered fs : forall cs vs rest,
  wf_list cs -> blen (encode_list cs ++ w_end ++ rest) < two63 ->
  ord_found cs fs vs ->
  (fix go (fs : list (N * dty)) (sq : bytes) : rres (list dval) :=
     match fs with
     | [] => ROk []
     | (ft, fd) :: fr =>
         let! r := seq_scan_ctx sq ft in
         let! x := ddec fd (fst r) in
         let! xs := go fr (snd r) in
         ROk (x :: xs)
     end) fs (encode_list cs ++ w_end ++ rest) = ROk vs.
Proof.
  induction fs as [|[ft fd] fr IH]; intros cs vs rest Hw Hb H.
  - destruct vs; [reflexivity|contradiction].
  - destruct vs as [|fv vr]; [contradiction|]. cbn [ord_found] in H. destruct H as [Hf Hr].
    rewrite scan_ctx_trees by assumption. cbn [rbind fst snd].
    destruct (scan_spec_suffix ft cs) as (pre & Epre).
    assert (Hw' : wf_list (snd (scan_spec ft cs))) by (rewrite Epre in Hw; eapply wf_list_suffix; eauto).
    assert (Hb' : blen (encode_list (snd (scan_spec ft cs)) ++ w_end ++ rest) < two63)
      by (rewrite Epre in Hb; eapply blen_suffix; eauto).
    destruct (scan_spec ft cs) as [[x|] cs'] eqn:Es; cbn [fst snd] in *.
    + destruct Hf as [(r & ->) Hd]. rewrite encode_list_cons in *.
      rewrite Hd by exact Hb'. cbn [rbind]. rewrite <- encode_list_cons.
      rewrite (IH _ vr rest Hw'); [reflexivity| |exact Hr]. rewrite encode_list_cons. exact Hb'.
    + rewrite Hf. cbn [rbind]. rewrite (IH _ vr rest Hw' Hb' Hr). reflexivity.
Qed.

(** strictly increasing field tags *)
Definition tags_sorted (fs : list (N * dty)) : Prop := StronglySorted N.lt (map fst fs).

Lemma scan_spec_skip k pre cs :
  (forall x, In x pre -> exists j, root_tag x = TgCtx j /\ j < k) ->
  scan_spec k (pre ++ cs) = scan_spec k cs.
Proof.
  induction pre as [|p pre IH]; intros H; [reflexivity|]. cbn [app scan_spec].
  destruct (H p (or_introl eq_refl)) as (j & -> & Hj).
  destruct (N.eqb_spec j k); [lia|]. destruct (N.ltb_spec k j); [lia|].
  apply IH. intros x Hx. apply H. right. exact Hx.
Qed.

Lemma fields_ord_found fs vs cs :
  fields_trees fs vs cs -> tags_sorted fs ->
  forall pre, (forall x, In x pre -> exists j, root_tag x = TgCtx j /\ forall k, In k (map fst fs) -> j < k) ->
  ord_found (pre ++ cs) fs vs.
Proof.
  induction 1 as [|ft fd fr vr cs Ho H IH|ft fd fv x fr vr cs Hw Hr Hd H IH]; intros Hs pre Hpre.
  - exact I.
  - cbn [map fst] in Hs. apply StronglySorted_inv in Hs as [Hs Hall]. cbn [ord_found].
    rewrite scan_spec_skip.
    2:{ intros y Hy. destruct (Hpre y Hy) as (j & Hj & Hlt). exists j. split; [exact Hj|]. apply Hlt. left. reflexivity. }
    assert (Hspec : scan_spec ft cs = (None, cs)).
    { pose proof (fields_trees_tags _ _ _ H) as Ht. destruct Ht as [|c r (k & Hk & Hin) Hrest]; [reflexivity|].
      cbn [scan_spec]. rewrite Hk. rewrite Forall_forall in Hall. specialize (Hall k Hin).
      cbn [fst] in Hall. destruct (N.eqb_spec k ft); [lia|]. destruct (N.ltb_spec ft k); [reflexivity|lia]. }
    rewrite Hspec. cbn [snd]. split.
    + destruct fd; try discriminate. reflexivity.
    + apply (IH Hs []). intros y [].
  - cbn [map fst] in Hs. apply StronglySorted_inv in Hs as [Hs Hall]. cbn [ord_found].
    rewrite scan_spec_skip.
    2:{ intros y Hy. destruct (Hpre y Hy) as (j & Hj & Hlt). exists j. split; [exact Hj|]. apply Hlt. left. reflexivity. }
    cbn [scan_spec]. rewrite Hr, N.eqb_refl. cbn [snd]. split.
    + split; [eexists; reflexivity|exact Hd].
    + apply (IH Hs [x]). intros y [<-|[]]. exists ft. split; [exact Hr|].
      intros k Hk. rewrite Forall_forall in Hall. specialize (Hall k Hk). cbn [fst] in Hall. exact Hall.
Qed.


(** * The main induction *)

Lemma wf_field_cases d : wf_field d -> (exists d', d = DOption d' /\ wf_dty d') \/ (is_option d = false /\ wf_dty d).
Proof. destruct d; cbn; intros H; try (right; split; [reflexivity|exact H]). left. eauto. Qed.

Lemma good_not_left d t v bs :
  is_option d = false -> (is_option d = true /\ v = XNone /\ bs = []) \/ good d t v bs -> good d t v bs.
Proof. intros Hn [[H _]|H]; [congruence|exact H]. Qed.

Lemma index_of_nth vals : NoDup vals -> forall i n k,
  nth_error vals i = Some n -> index_of n vals k = Some (k + i)%nat.
Proof.
  induction 1 as [|a l Hnin Hnd IH]; intros i n k H; [destruct i; discriminate|].
  destruct i as [|i]; cbn [nth_error] in H.
  - injection H as ->. cbn [index_of]. rewrite N.eqb_refl. f_equal. lia.
  - cbn [index_of]. destruct (N.eqb_spec a n) as [->|Hne].
    + exfalso. apply Hnin. eapply nth_error_In; eauto.
    + rewrite (IH i n (S k) H). f_equal. lia.
Qed.

Lemma el_kind_node k t cs rest :
  (match k with
   | KStruct => el_struct (encode (Node t k cs) ++ rest)
   | KArray => el_array (encode (Node t k cs) ++ rest)
   | KList => el_list (encode (Node t k cs) ++ rest)
   end) = ROk (encode_list cs ++ w_end ++ rest).
Proof.
  destruct k; unfold el_struct, el_array, el_list; rewrite encode_node, start_control;
    cbn [rbind snd]; apply start_next_enter.
Qed.

(** the variant loop of the derived enum decoder *)
Lemma enum_pick_decode e vs : NoDup (map fst vs) -> forall i vt vd j,
  nth_error vs i = Some (vt, vd) ->
  (fix pick (vs : list (N * dty)) (i : nat) : rres dval :=
     match vs with
     | [] => RErr E_INV
     | (vt', vd') :: r => if vt' =? vt then rmap (XVar i) (ddec vd' e) else pick r (S i)
     end) vs j = rmap (XVar (j + i)%nat) (ddec vd e).
Proof.
  induction vs as [|[a ad] r IH]; intros Hnd i vt vd j H; [destruct i; discriminate|].
  cbn [map fst] in Hnd. inversion Hnd as [|x l Hnin Hnd']; subst.
  destruct i as [|i]; cbn [nth_error] in H.
  - injection H as -> ->. rewrite N.eqb_refl. f_equal. f_equal. lia.
  - destruct (N.eqb_spec a vt) as [->|Hne].
    + exfalso. apply Hnin. apply nth_error_In in H. apply (in_map fst) in H. exact H.
    + rewrite (IH Hnd' i vt vd (S j) H). f_equal. f_equal. lia.
Qed.

Theorem derive_field_ok d : field_ok d.
Proof.
  induction d as [sg w| | | | | |d IH|d IH|cap d IH|n d IH|k o fs IH|nk vs IH|w16 vals] using dty_ind2;
    intros t v bs Hwf Hty Ht Henc.
  - (* DInt *) right.
    destruct v; try contradiction. cbn [denc] in Henc. injection Henc as <-.
    destruct (w_int_form sg w t z Hty) as (lv & Hlv & E & Hd & Hnn).
    eapply good_leaf; eauto.
  - right. destruct v; try contradiction. cbn [denc] in Henc. injection Henc as <-.
    eapply (good_leaf _ _ _ (VBool b)); [exact Ht|exact I|apply w_bool_leaf|destruct b; discriminate|].
    intros rest. rewrite <- w_bool_leaf. cbn [ddec]. rewrite w_bool_read. reflexivity.
  - right. destruct v; try contradiction. cbn [denc has_ty] in *. injection Henc as <-.
    eapply (good_leaf _ _ _ (VF32 n)); [exact Ht|exact Hty|apply w_f32_leaf|discriminate|].
    intros rest. rewrite <- w_f32_leaf. cbn [ddec]. rewrite w_f32_read by exact Hty. reflexivity.
  - right. destruct v; try contradiction. cbn [denc has_ty] in *. injection Henc as <-.
    eapply (good_leaf _ _ _ (VF64 n)); [exact Ht|exact Hty|apply w_f64_leaf|discriminate|].
    intros rest. rewrite <- w_f64_leaf. cbn [ddec]. rewrite w_f64_read by exact Hty. reflexivity.
  - right. destruct v; try contradiction. cbn [denc has_ty] in *. injection Henc as <-.
    destruct Hty as [Hb Hl].
    eapply (good_leaf _ _ _ (VStr (min_width (blen s)) s));
      [exact Ht|split; [exact Hb|apply min_width_fits; exact Hl]|apply w_str_leaf|discriminate|].
    intros rest. rewrite <- w_str_leaf. cbn [ddec]. rewrite w_str_read by exact Hl. reflexivity.
  - right. destruct v; try contradiction. cbn [denc has_ty] in *. injection Henc as <-.
    destruct Hty as (Hb & Hl & Hu).
    eapply (good_leaf _ _ _ (VUtf (min_width (blen s)) s));
      [exact Ht|repeat split; [exact Hb|apply min_width_fits; exact Hl|exact Hu]|apply w_utf8_leaf|discriminate|].
    intros rest. rewrite <- w_utf8_leaf. cbn [ddec]. rewrite w_utf8_read by assumption. reflexivity.
  - (* DOption *)
    cbn [wf_field] in Hwf. destruct v; try contradiction; cbn [denc has_ty] in *.
    + left. injection Henc as <-. auto.
    + right. pose proof (wf_dty_not_option d Hwf) as Hno.
      destruct (good_not_left _ _ _ _ Hno (IH t v bs (wf_dty_field d Hwf) Hty Ht Henc))
        as (x & E & Hwx & Hroot & _ & Hdec).
      apply (mk_good _ _ _ _ x); auto; try (intros _ H; discriminate H).
      intros rest Hb. cbn [ddec]. rewrite E, encode_not_nil. rewrite <- E, Hdec by exact Hb. reflexivity.
  - (* DNullable *)
    right. cbn [wf_field wf_dty] in Hwf. destruct Hwf as [Hnn Hwd].
    pose proof (wf_dty_not_option d Hwd) as Hno.
    destruct v; try contradiction.
    + cbn [denc] in Henc. injection Henc as <-.
      apply (mk_good _ _ _ _ (Leaf t VNull)); [apply w_null_leaf|split; [exact Ht|exact I]|reflexivity
                                              |intros H; discriminate H|].
      intros rest _. rewrite w_null_leaf. cbn [ddec]. rewrite leaf_control. reflexivity.
    + apply nullable_checks in Henc as [Henc Hchk]. cbn [has_ty] in Hty.
      destruct (good_not_left _ _ _ _ Hno (IH t v bs (wf_dty_field d Hwd) Hty Ht Henc))
        as (x & E & Hwx & Hroot & Hnotnull & Hdec).
      apply (mk_good _ _ _ _ x); auto; try (intros H; discriminate H).
      intros rest Hb. cbn [ddec]. rewrite E, encode_root_control. cbn [rbind snd].
      specialize (Hnotnull Hnn Hno).
      assert (Hgoal : (let! x0 := ddec d (encode x ++ rest) in
                       match d, x0 with
                       | DInt sg w, XInt z => if (z =? int_excluded sg w)%Z then RErr E_CONSTRAINT else ROk (XNN x0)
                       | DUnit w16 vals, XUnit i =>
                           match nth_error vals i with
                           | Some n => if n =? (if w16 then 65535 else 255) then RErr E_CONSTRAINT else ROk (XNN x0)
                           | None => ROk (XNN x0)
                           end
                       | _, _ => ROk (XNN x0)
                       end) = ROk (XNN v)).
      { rewrite <- E, Hdec by exact Hb. cbn [rbind]. exact Hchk. }
      destruct (root_vt x); try exact Hgoal. congruence.
  - (* DVec *)
    right. cbn [wf_field wf_dty] in Hwf. destruct v; try contradiction.
    cbn [has_ty] in Hty. destruct Hty as [Hcap Hall].
    cbn [denc] in Henc. apply bind_ok in Henc as (body & Hbody & Henc). injection Henc as <-.
    assert (Hl : exists cs, body = encode_list cs /\ wf_list cs /\
      Forall (fun c => root_tag c = TgAnon) cs /\
      Forall2 (fun c xv => wf_tree c /\
                 forall rest, blen (encode c ++ rest) < two63 -> ddec d (encode c ++ rest) = ROk xv) cs l).
    { clear Hcap. revert body Hbody Hall. induction l as [|xv l IHl]; intros body Hbody Hall.
      - injection Hbody as <-. exists [].
        split; [reflexivity|]. split; [constructor|]. split; constructor.
      - destruct Hall as [Hx Hall].
        apply bind_ok in Hbody as (a & Ha & Hbody). apply bind_ok in Hbody as (b & Hb & Hbody).
        injection Hbody as <-.
        destruct (good_not_left _ _ _ _ (wf_dty_not_option d Hwf)
                    (IH TgAnon xv a (wf_dty_field d Hwf) Hx I Ha)) as (x & E & Hwx & Hroot & _ & Hdec).
        destruct (IHl b Hb Hall) as (cs & Eb & Hwcs & Htags & H2).
        exists (x :: cs). subst a b.
        split; [unfold encode_list; reflexivity|].
        split; [constructor; assumption|].
        split; [constructor; assumption|].
        constructor; [split; [exact Hwx|]|assumption].
        intros rest Hb'. apply Hdec, Hb'. }
    destruct Hl as (cs & -> & Hwcs & _ & H2).
    apply (mk_good _ _ _ _ (Node t KArray cs));
      [reflexivity|apply wf_node; split; assumption|reflexivity|intros _ _; discriminate|].
    { change (forall rest, blen (encode (Node t KArray cs) ++ rest) < two63 ->
                ddec (DVec cap d) (encode (Node t KArray cs) ++ rest) = ROk (XList l)).
      intros rest Hb.
      remember (encode (Node t KArray cs) ++ rest) as el eqn:Eel. cbn [ddec]. subst el.
      rewrite (array_decode _ _ t cs l rest Ht Hwcs H2); [reflexivity| |exact Hb].
      intros i Hi. apply Forall2_len in H2. destruct cap as [n|]; [|reflexivity].
      apply N.ltb_lt. lia. }
  - (* DFixed *)
    right. cbn [wf_field wf_dty] in Hwf. destruct v; try contradiction.
    cbn [has_ty] in Hty. destruct Hty as [Hlen Hall].
    cbn [denc] in Henc. apply bind_ok in Henc as (body & Hbody & Henc). injection Henc as <-.
    assert (Hl : exists cs, body = encode_list cs /\ wf_list cs /\
      Forall2 (fun c xv => wf_tree c /\
                 forall rest, blen (encode c ++ rest) < two63 -> ddec d (encode c ++ rest) = ROk xv) cs l).
    { clear Hlen. revert body Hbody Hall. induction l as [|xv l IHl]; intros body Hbody Hall.
      - injection Hbody as <-. exists [].
        split; [reflexivity|]. split; constructor.
      - destruct Hall as [Hx Hall].
        apply bind_ok in Hbody as (a & Ha & Hbody). apply bind_ok in Hbody as (b & Hb & Hbody).
        injection Hbody as <-.
        destruct (good_not_left _ _ _ _ (wf_dty_not_option d Hwf)
                    (IH TgAnon xv a (wf_dty_field d Hwf) Hx I Ha)) as (x & E & Hwx & Hroot & _ & Hdec).
        destruct (IHl b Hb Hall) as (cs & Eb & Hwcs & H2).
        exists (x :: cs). subst a b.
        split; [unfold encode_list; reflexivity|].
        split; [constructor; assumption|].
        constructor; [split; [exact Hwx|]|assumption].
        intros rest Hb'. apply Hdec, Hb'. }
    destruct Hl as (cs & -> & Hwcs & H2).
    apply (mk_good _ _ _ _ (Node t KArray cs));
      [reflexivity|apply wf_node; split; assumption|reflexivity|intros _ _; discriminate|].
    { change (forall rest, blen (encode (Node t KArray cs) ++ rest) < two63 ->
                ddec (DFixed n d) (encode (Node t KArray cs) ++ rest) = ROk (XList l)).
      intros rest Hb.
      remember (encode (Node t KArray cs) ++ rest) as el eqn:Eel. cbn [ddec]. subst el.
      rewrite (array_decode _ _ t cs l rest Ht Hwcs H2); [| |exact Hb].
      * cbn [rbind]. rewrite Hlen, Nat.sub_diag. cbn [repeat]. rewrite app_nil_r. reflexivity.
      * intros i Hi. apply Forall2_len in H2. apply N.ltb_lt. lia. }
  - (* DStruct *)
    right. cbn [wf_field] in Hwf. apply wf_struct in Hwf as (Hnd & Hord & Hfs).
    destruct v; try contradiction. cbn [has_ty] in Hty.
    cbn [denc] in Henc. apply bind_ok in Henc as (body & Hbody & Henc). injection Henc as <-.
    assert (Hl : exists cs, body = encode_list cs /\ fields_trees fs l cs).
    { clear Hnd Hord. revert l body Hty Hbody.
      induction IH as [|[ft fd] fr Hfd Hfr IHfr]; intros l body Hty Hbody.
      - destruct l; [|contradiction]. injection Hbody as <-. exists []. split; constructor.
      - destruct l as [|fv vr]; [contradiction|]. destruct Hty as [Hx Hall].
        inversion Hfs as [|? ? [Hlt Hwfd] Hfs']; subst. cbn [fst snd] in *.
        apply bind_ok in Hbody as (a & Ha & Hbody). apply bind_ok in Hbody as (b & Hb & Hbody).
        injection Hbody as <-.
        destruct (IHfr Hfs' vr b Hall Hb) as (cs & -> & Hft).
        destruct (Hfd (TgCtx ft) fv a Hwfd Hx Hlt Ha) as [(Ho & -> & ->)|(x & -> & Hwx & Hroot & _ & Hdec)].
        + exists cs. split; [reflexivity|]. apply ft_absent; assumption.
        + exists (x :: cs). split; [reflexivity|]. apply ft_present; assumption. }
    destruct Hl as (cs & -> & Hft).
    pose proof (fields_trees_wf _ _ _ Hft) as Hwcs.
    apply (mk_good _ _ _ _ (Node t k cs));
      [reflexivity|apply wf_node; split; assumption|reflexivity|intros _ _; discriminate|].
    { change (forall rest, blen (encode (Node t k cs) ++ rest) < two63 ->
                ddec (DStruct k o fs) (encode (Node t k cs) ++ rest) = ROk (XRec l)).
      intros rest Hb. destruct o eqn:Eo.
      - remember (encode (Node t k cs) ++ rest) as el eqn:Eel. cbn [ddec]. subst el.
        rewrite el_kind_node. cbn [rbind].
        rewrite (struct_fields_decode_ordered fs cs l rest Hwcs); [reflexivity| |].
        + rewrite encode_node, blen_app in Hb. lia.
        + apply (fields_ord_found fs l cs Hft (Hord eq_refl) []). intros x [].
      - remember (encode (Node t k cs) ++ rest) as el eqn:Eel. cbn [ddec]. subst el.
        rewrite el_kind_node. cbn [rbind].
        rewrite (struct_fields_decode cs rest fs l Hwcs); [reflexivity| |].
        + rewrite encode_node, blen_app in Hb. lia.
        + apply (fields_found fs l cs Hft Hnd []). intros x []. }
  - (* DEnum *)
    right. cbn [wf_field] in Hwf. apply wf_enum in Hwf as (-> & Hnd & Hvs).
    destruct v; try contradiction. cbn [has_ty] in Hty.
    cbn [denc] in Henc. apply bind_ok in Henc as (body & Hbody & Henc). injection Henc as <-.
    assert (Hp : exists vt vd, nth_error vs i = Some (vt, vd) /\ good vd (TgCtx vt) v body).
    { clear Hnd. revert i Hty Hbody.
      induction IH as [|[a ad] r Had Hr IHr]; intros i Hty Hbody.
      - destruct i; discriminate.
      - inversion Hvs as [|? ? [Hlt Hwad] Hvs']; subst. cbn [fst snd] in *.
        destruct i as [|i].
        + exists a, ad. split; [reflexivity|].
          apply (good_not_left _ _ _ _ (wf_dty_not_option ad Hwad)).
          apply Had; auto. apply wf_dty_field, Hwad.
        + destruct (IHr Hvs' i Hty Hbody) as (vt & vd & Hn & Hg). exists vt, vd. split; [exact Hn|exact Hg]. }
    destruct Hp as (vt & vd & Hnth & (x & -> & Hwx & Hroot & _ & Hdec)).
    apply (mk_good _ _ _ _ (Node t KStruct [x]));
      [cbn [encode flat_map]; rewrite (app_nil_r (encode x)); reflexivity
      |apply wf_node; split; [exact Ht|constructor; [exact Hwx|constructor]]
      |reflexivity|intros _ _; discriminate|].
    { assert (Eenc : w_start t KStruct ++ encode x ++ w_end = encode (Node t KStruct [x]))
        by (cbn [encode flat_map]; rewrite (app_nil_r (encode x)); reflexivity).
      intros rest Hb. revert Hb.
      match goal with |- blen (?B ++ rest) < _ -> _ => replace B with (encode (Node t KStruct [x])) end.
      intros Hb.
      remember (encode (Node t KStruct [x]) ++ rest) as el eqn:Eel. cbn [ddec]. subst el.
      rewrite (el_kind_node KStruct). cbn [rbind].
      unfold encode_list. cbn [flat_map]. rewrite app_nil_r.
      assert (Hb' : blen (encode x ++ w_end ++ rest) < two63).
      { rewrite encode_node, blen_app in Hb. unfold encode_list in Hb. cbn [flat_map] in Hb.
        rewrite app_nil_r in Hb. lia. }
      rewrite seq_iter_next_tree by assumption. cbn [rbind].
      rewrite encode_try_ctx by assumption. rewrite Hroot. cbn [rbind ok_or].
      rewrite (enum_pick_decode _ vs Hnd i vt vd O Hnth).
      rewrite Hdec by exact Hb'. reflexivity. }
  - (* DUnit *)
    right. cbn [wf_field wf_dty] in Hwf. destruct Hwf as [Hnd Hvals].
    destruct v; try contradiction. cbn [denc] in Henc.
    destruct (nth_error vals i) as [n|] eqn:En; [|discriminate]. injection Henc as <-.
    assert (Hn : n < (if w16 then 65536 else 256)).
    { rewrite Forall_forall in Hvals. apply Hvals. eapply nth_error_In; eauto. }
    assert (Hform : exists w', widx w' <= widx (if w16 then W2 else W1) /\ n < wfull w' /\
              (if w16 then w_u16 t n else w_u8 t n) = w_tlv t (VU w' n)).
    { destruct w16; [apply (w_u_form W2 t n Hn)|apply (w_u_form W1 t n Hn)]. }
    destruct Hform as (w' & Hw' & Hlt & E).
    eapply (good_leaf _ _ _ (VU w' n)); [exact Ht|exact Hlt|exact E|discriminate|].
    intros rest. cbn [ddec].
    assert (Hrd : (if w16 then el_u16 (w_tlv t (VU w' n) ++ rest) else el_u8 (w_tlv t (VU w' n) ++ rest)) = ROk n).
    { destruct w16; [apply (rd_u_leaf W2)|apply (rd_u_leaf W1)]; assumption. }
    rewrite Hrd. cbn [rbind]. rewrite (index_of_nth vals Hnd i n O En). reflexivity.
Qed.

(** * Property-level statements *)

(** every value of every well-formed description, written by the derived
    encoder under any tag and followed by anything, is read back by the
    derived decoder *)
Theorem derive_roundtrip d t v bs rest :
  wf_dty d -> has_ty d v -> wf_tag t -> denc d t v = ROk bs ->
  blen (bs ++ rest) < two63 -> ddec d (bs ++ rest) = ROk v.
Proof.
  intros Hwf Hty Ht Henc Hb.
  destruct (good_not_left _ _ _ _ (wf_dty_not_option d Hwf)
              (derive_field_ok d t v bs (wf_dty_field d Hwf) Hty Ht Henc)) as (x & _ & _ & _ & _ & Hdec).
  apply Hdec, Hb.
Qed.

(** what the derived encoder writes is one well-formed TLV element *)
Theorem derive_encodes_tree d t v bs :
  wf_dty d -> has_ty d v -> wf_tag t -> denc d t v = ROk bs ->
  exists x, bs = encode x /\ wf_tree x /\ root_tag x = t.
Proof.
  intros Hwf Hty Ht Henc.
  destruct (good_not_left _ _ _ _ (wf_dty_not_option d Hwf)
              (derive_field_ok d t v bs (wf_dty_field d Hwf) Hty Ht Henc)) as (x & E & Hw & Hr & _).
  eauto.
Qed.
