(** Concrete chains: one valid three-certificate chain and, for every
    rule of the property, a chain on which exactly that rule fails.
    Used for the independence theorem and as non-vacuity examples. *)
From RsM Require Import Lib.MachInt Model.Cert Model.CertSpec
  Proofs.CertFacts Proofs.CertTheorems.
Open Scope N_scope.

(** field updates *)
Definition set_subject (c : cert) (v : dn) : cert :=
  mkCert v (issuer c) (skid c) (akid c) (pubkey c) (signer c) (not_before c) (not_after c)
         (bc c) (ku c) (eku c) (crit_ext c).
Definition set_issuer (c : cert) (v : dn) : cert :=
  mkCert (subject c) v (skid c) (akid c) (pubkey c) (signer c) (not_before c) (not_after c)
         (bc c) (ku c) (eku c) (crit_ext c).
Definition set_akid (c : cert) (v : option N) : cert :=
  mkCert (subject c) (issuer c) (skid c) v (pubkey c) (signer c) (not_before c) (not_after c)
         (bc c) (ku c) (eku c) (crit_ext c).
Definition set_pubkey (c : cert) (v : N) : cert :=
  mkCert (subject c) (issuer c) (skid c) (akid c) v (signer c) (not_before c) (not_after c)
         (bc c) (ku c) (eku c) (crit_ext c).
Definition set_signer (c : cert) (v : option N) : cert :=
  mkCert (subject c) (issuer c) (skid c) (akid c) (pubkey c) v (not_before c) (not_after c)
         (bc c) (ku c) (eku c) (crit_ext c).
Definition set_not_before (c : cert) (v : N) : cert :=
  mkCert (subject c) (issuer c) (skid c) (akid c) (pubkey c) (signer c) v (not_after c)
         (bc c) (ku c) (eku c) (crit_ext c).
Definition set_not_after (c : cert) (v : N) : cert :=
  mkCert (subject c) (issuer c) (skid c) (akid c) (pubkey c) (signer c) (not_before c) v
         (bc c) (ku c) (eku c) (crit_ext c).
Definition set_bc (c : cert) (v : option (bool * option N)) : cert :=
  mkCert (subject c) (issuer c) (skid c) (akid c) (pubkey c) (signer c) (not_before c) (not_after c)
         v (ku c) (eku c) (crit_ext c).
Definition set_ku (c : cert) (v : option N) : cert :=
  mkCert (subject c) (issuer c) (skid c) (akid c) (pubkey c) (signer c) (not_before c) (not_after c)
         (bc c) v (eku c) (crit_ext c).
Definition set_eku (c : cert) (v : option (list N)) : cert :=
  mkCert (subject c) (issuer c) (skid c) (akid c) (pubkey c) (signer c) (not_before c) (not_after c)
         (bc c) (ku c) v (crit_ext c).
Definition set_crit (c : cert) (v : bool) : cert :=
  mkCert (subject c) (issuer c) (skid c) (akid c) (pubkey c) (signer c) (not_before c) (not_after c)
         (bc c) (ku c) (eku c) v.

(** Keys 1 (root), 2 (intermediate), 3 (node); fabric 9; node 5;
    the node's clock is reliable and reads 1000 s. *)
Definition w_time : clock := Reliable 1000000000.

Definition w_root : cert :=
  mkCert [(DN_RCA, 1)] [(DN_RCA, 1)] (Some 101) (Some 101) 1 (Some 1) 10 2000
         (Some (true, Some 1)) (Some 96) None false.
Definition w_icac : cert :=
  mkCert [(DN_ICA, 2); (DN_FABRIC, 9)] [(DN_RCA, 1)] (Some 102) (Some 101) 2 (Some 1) 10 2000
         (Some (true, Some 0)) (Some 96) None false.
Definition w_noc : cert :=
  mkCert [(DN_NODE, 5); (DN_FABRIC, 9)] [(DN_ICA, 2); (DN_FABRIC, 9)] (Some 103) (Some 102)
         3 (Some 2) 10 2000 (Some (false, None)) (Some 1) (Some [1; 2]) false.
(** the same node certificate issued directly by the root *)
Definition w_noc_direct : cert :=
  set_signer (set_akid (set_issuer w_noc [(DN_RCA, 1)]) (Some 101)) (Some 1).

Definition w_good : list cert := [w_noc; w_icac; w_root].
Definition w_good2 : list cert := [w_noc_direct; w_root].

(** For each rule: [w_good] changed so that this rule, and only it, fails. *)
Definition w_bad (r : rule) : list cert :=
  match r with
  | RSigned => [set_signer w_noc None; w_icac; w_root]            (* one signature bit *)
  | RKeyId => [set_akid w_noc (Some 199); w_icac; w_root]
  | RName => [set_issuer w_noc [(DN_ICA, 3); (DN_FABRIC, 9)]; w_icac; w_root]  (* one name attribute *)
  | RNotAfter => [w_noc; set_not_after w_icac 999; w_root]         (* one date *)
  | RNotBefore => [w_noc; set_not_before w_icac 1001; w_root]
  | RNoCritical => [w_noc; w_icac; set_crit w_root true]           (* one extension flag *)
  | RLeafType => [set_subject w_noc [(DN_ICA, 5); (DN_FABRIC, 9)]; w_icac; w_root]
  | RLeafNotCa => [set_bc w_noc (Some (true, None)); w_icac; w_root]
  | RLeafKeyUsage => [set_ku w_noc (Some 32); w_icac; w_root]
  | RLeafExtKeyUsage => [set_eku w_noc (Some [1]); w_icac; w_root]
  | RAuthType =>                                                   (* a node certificate as authority *)
      [set_issuer w_noc [(DN_NODE, 2); (DN_FABRIC, 9)];
       set_subject w_icac [(DN_NODE, 2); (DN_FABRIC, 9)]; w_root]
  | RAuthIsCa => [w_noc; set_bc w_icac (Some (false, Some 0)); w_root]
  | RAuthKeyUsage => [w_noc; set_ku w_icac (Some 64); w_root]
  | RAuthPathLen => [w_noc; w_icac; set_bc w_root (Some (true, Some 0))]
  end.

Definition rule_eq_dec : forall a b : rule, {a = b} + {a <> b}.
Proof. decide equality. Defined.

Lemma w_good_accepted : verify_chain w_time w_good = Ok tt.
Proof. vm_compute. reflexivity. Qed.

Lemma w_good2_accepted : verify_chain w_time w_good2 = Ok tt.
Proof. vm_compute. reflexivity. Qed.

Lemma w_bad_exactly : forall r r',
  rule_holds w_time r' (w_bad r) = if rule_eq_dec r' r then false else true.
Proof. intros r r'; destruct r, r'; vm_compute; reflexivity. Qed.

Theorem each_rule_enforced : forall r : rule,
  exists (t : clock) (good bad : list cert),
    length good = length bad /\
    verify_chain t good = Ok tt /\
    verify_chain t bad <> Ok tt /\
    rule_holds t r bad = false /\
    (forall r', r' <> r -> rule_holds t r' bad = true).
Proof.
  intros r. exists w_time, w_good, (w_bad r). split; [destruct r; reflexivity|].
  split; [exact w_good_accepted|]. split.
  - intros H. apply accept_iff_valid in H; [|destruct r; cbn; discriminate].
    specialize (H r). rewrite w_bad_exactly in H. destruct (rule_eq_dec r r); [discriminate|tauto].
  - split.
    + rewrite w_bad_exactly. destruct (rule_eq_dec r r); [reflexivity|tauto].
    + intros r' Hne. rewrite w_bad_exactly. destruct (rule_eq_dec r' r); [contradiction|reflexivity].
Qed.

(** The wrappers' own rules, each on its own. *)
Theorem wrapper_rules_enforced :
  (* CASE: leaf names another fabric / intermediate names another fabric *)
  case_admit w_time 9 w_root w_noc (Some w_icac) = Ok 5 /\
  case_admit w_time 8 w_root w_noc (Some w_icac) = Err E_INVALID /\
  chain_validb w_time [w_noc; w_icac; w_root] = true /\
  case_admit w_time 9 w_root w_noc_direct None = Ok 5 /\
  (let i := set_subject w_icac [(DN_ICA, 2); (DN_FABRIC, 8)] in
   let n := set_issuer w_noc [(DN_ICA, 2); (DN_FABRIC, 8)] in
   chain_validb w_time [n; i; w_root] = true /\
   case_admit w_time 9 w_root n (Some i) = Err E_INVALID) /\
  (* AddNOC: accepted; other key; fabric exists; root reused as intermediate; bad admin subject *)
  add_noc w_time [(9, 7); (8, 1)] 3 112233 w_root w_noc (Some w_icac) = Ok (9, 5, 1) /\
  add_noc w_time [(9, 7); (8, 1)] 4 112233 w_root w_noc (Some w_icac) = Err E_NOC_PUBKEY /\
  add_noc w_time [(9, 7); (9, 1)] 3 112233 w_root w_noc (Some w_icac) = Err E_NOC_CONFLICT /\
  (chain_validb w_time [w_noc_direct; w_root; w_root] = true /\
   add_noc w_time [] 3 112233 w_root w_noc_direct (Some w_root) = Err E_NOC_INVALID) /\
  add_noc w_time [] 3 0 w_root w_noc (Some w_icac) = Err E_NOC_ADMIN /\
  (* UpdateNOC: accepted; other key; other fabric *)
  update_noc w_time 9 3 w_root w_noc (Some w_icac) = Ok (9, 5) /\
  update_noc w_time 9 4 w_root w_noc (Some w_icac) = Err E_NOC_PUBKEY /\
  update_noc w_time 8 3 w_root w_noc (Some w_icac) = Err E_NOC_CONFLICT.
Proof. vm_compute. repeat split; reflexivity. Qed.
