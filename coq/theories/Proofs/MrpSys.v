(** Invariants of the one-exchange reliable-messaging system model. *)
From RsM Require Import Lib.MachInt Model.Dedup Model.Mrp Proofs.DedupFacts.
From Coq Require Import ZifyN ZifyBool Sorted.
Open Scope N_scope.

Arguments N.ltb : simpl never.
Arguments N.eqb : simpl never.
Arguments N.add : simpl never.

(** ** list helpers *)

Lemma in_remove_nth {A} (l : list A) n x : In x (remove_nth l n) -> In x l.
Proof.
  revert n. induction l as [|a t IH]; intros n; [destruct n; intros []|].
  destruct n as [|n]; cbn [remove_nth].
  - intros H. right. exact H.
  - intros [->|H]; [left; reflexivity|right; eapply IH; exact H].
Qed.

Lemma mem_true c l : mem c l = true <-> In c l.
Proof.
  unfold mem. rewrite existsb_exists. split.
  - intros [x [Hx He]]. apply N.eqb_eq in He. subst. exact Hx.
  - intros H. exists c. split; [exact H|apply N.eqb_refl].
Qed.

Lemma mem_false c l : mem c l = false <-> ~ In c l.
Proof. rewrite <- mem_true. destruct (mem c l); split; congruence. Qed.

Ltac simp_sys := cbn [a_next a_retr a_results a_dead a_tx b_win b_delivered b_overtaken ab ba] in *.

(** ** the invariant *)

Definition Unresolved (s : sys) (c : N) : Prop :=
  (exists k, a_retr s = Some (c, k)) \/ (a_dead s = true /\ In (c, false) (a_results s)).

Record Inv (s : sys) : Prop := mkInv {
  inv_ab_lt : forall c k, In (c, k) (ab s) -> c < a_next s;
  inv_retr : forall c k, a_retr s = Some (c, k) ->
               c < a_next s /\ k <= MRP_MAX_TRANSMISSIONS /\ a_tx s = k + 1 /\ a_dead s = false;
  inv_res_lt : forall c b, In (c, b) (a_results s) -> c < a_next s;
  inv_deliv_seen : forall c, In c (b_delivered s) -> Seen (b_win s) c;
  inv_deliv_lt : forall c, In c (b_delivered s) -> c < a_next s;
  inv_over_seen : forall c, In c (b_overtaken s) -> Seen (b_win s) c /\ ~ In c (b_delivered s);
  inv_ba : forall c, In (c, Main) (ba s) -> In c (b_delivered s) \/ In c (b_overtaken s);
  inv_ok : forall c, In (c, true) (a_results s) -> In c (b_delivered s) \/ In c (b_overtaken s);
  inv_main : forall c, In (c, Main) (ab s) -> Seen (b_win s) c \/ Unresolved s c;
  inv_unres_max : forall c, Unresolved s c -> forall d, In d (b_delivered s) -> d <= c;
  inv_unres_other : forall c, Unresolved s c ->
                      forall d b, In (d, b) (a_results s) -> d <= c;
  inv_dead_noretr : a_dead s = true -> a_retr s = None;
  inv_fail_dead : forall c, In (c, false) (a_results s) -> a_dead s = true;
  inv_sorted : StronglySorted N.lt (b_delivered s)
}.

Lemma inv_init c0 : Inv (sys_init c0).
Proof.
  constructor; cbn; try (intros; contradiction); try discriminate; try constructor.
  all: try (intros c [[k Hk]|[Hd _]]; discriminate).
Qed.

Lemma sorted_snoc (l : list N) (c : N) :
  StronglySorted N.lt l -> (forall d, In d l -> d < c) -> StronglySorted N.lt (l ++ [c]).
Proof.
  induction l as [|a t IH]; intros Hs Hlt; cbn [app].
  - constructor; [constructor|constructor].
  - inversion Hs as [|? ? Hst Hall]; subst. constructor.
    + apply IH; [exact Hst|]. intros d Hd. apply Hlt. right. exact Hd.
    + apply Forall_app. split; [exact Hall|]. constructor; [|constructor].
      apply Hlt. left. reflexivity.
Qed.

(** *** A-side steps *)

Lemma inv_asend s : Inv s -> Inv (step s ASend).
Proof.
  intros I. cbn [step]. destruct (a_retr s) as [[c0 k0]|] eqn:Er; [exact I|].
  destruct (a_dead s) eqn:Ed; [exact I|].
  destruct I. constructor; unfold Unresolved in *; simp_sys.
  - intros c k Hin. apply in_app_or in Hin as [Hin|[Heq|[]]].
    + specialize (inv_ab_lt0 _ _ Hin). lia.
    + injection Heq as <- <-. lia.
  - intros c k Heq. injection Heq as <- <-. unfold MRP_MAX_TRANSMISSIONS. repeat split; lia.
  - intros c b Hin. specialize (inv_res_lt0 _ _ Hin). lia.
  - exact inv_deliv_seen0.
  - intros c Hin. specialize (inv_deliv_lt0 _ Hin). lia.
  - exact inv_over_seen0.
  - exact inv_ba0.
  - exact inv_ok0.
  - intros c Hin. apply in_app_or in Hin as [Hin|[Heq|[]]].
    + destruct (inv_main0 _ Hin) as [H|[[k Hk]|[Hd _]]]; [left; exact H|congruence|congruence].
    + injection Heq as <-. right. left. exists 0. reflexivity.
  - intros c [[k Hk]|[Hd _]]; [|discriminate]. injection Hk as <- <-.
    intros d Hd. specialize (inv_deliv_lt0 _ Hd). lia.
  - intros c [[k Hk]|[Hd _]]; [|discriminate]. injection Hk as <- <-.
    intros d b Hd. specialize (inv_res_lt0 _ _ Hd). lia.
  - discriminate.
  - intros c Hin. specialize (inv_fail_dead0 _ Hin). congruence.
  - exact inv_sorted0.
Qed.

Lemma unresolved_same_fields s s' :
  a_retr s' = a_retr s -> a_dead s' = a_dead s -> a_results s' = a_results s ->
  forall c, Unresolved s' c <-> Unresolved s c.
Proof. intros E1 E2 E3 c. unfold Unresolved. rewrite E1, E2, E3. tauto. Qed.

Lemma inv_aother s : Inv s -> Inv (step s AOther).
Proof.
  intros I. cbn [step]. destruct I.
  constructor; unfold Unresolved in *; simp_sys.
  - intros c k Hin. apply in_app_or in Hin as [Hin|[Heq|[]]].
    + specialize (inv_ab_lt0 _ _ Hin). lia.
    + injection Heq as <- <-. lia.
  - intros c k Heq. destruct (inv_retr0 _ _ Heq) as (H1 & H2 & H3 & H4). repeat split; try assumption; lia.
  - intros c b Hin. specialize (inv_res_lt0 _ _ Hin). lia.
  - exact inv_deliv_seen0.
  - intros c Hin. specialize (inv_deliv_lt0 _ Hin). lia.
  - exact inv_over_seen0.
  - exact inv_ba0.
  - exact inv_ok0.
  - intros c Hin. apply in_app_or in Hin as [Hin|[Heq|[]]]; [|discriminate].
    destruct (inv_main0 _ Hin) as [H|H]; [left; exact H|right; exact H].
  - exact inv_unres_max0.
  - exact inv_unres_other0.
  - exact inv_dead_noretr0.
  - exact inv_fail_dead0.
  - exact inv_sorted0.
Qed.

Lemma inv_atimer s : Inv s -> Inv (step s ATimer).
Proof.
  intros I. cbn [step]. destruct (a_retr s) as [[c0 k0]|] eqn:Er; [|exact I].
  pose proof (inv_retr s I _ _ Er) as (R1 & R2 & R3 & R4).
  destruct (N.ltb_spec k0 MRP_MAX_TRANSMISSIONS) as [Hlt|Hge].
  - (* retransmit *)
    destruct I. constructor; unfold Unresolved in *; simp_sys.
    + intros c k Hin. apply in_app_or in Hin as [Hin|[Heq|[]]].
      * eapply inv_ab_lt0; exact Hin.
      * injection Heq as <- <-. exact R1.
    + intros c k Heq. injection Heq as <- <-. repeat split; try assumption; lia.
    + exact inv_res_lt0.
    + exact inv_deliv_seen0.
    + exact inv_deliv_lt0.
    + exact inv_over_seen0.
    + exact inv_ba0.
    + exact inv_ok0.
    + intros c Hin. apply in_app_or in Hin as [Hin|[Heq|[]]].
      * destruct (inv_main0 _ Hin) as [H|[[k Hk]|[Hd _]]]; [left; exact H| |congruence].
        right. left. rewrite Er in Hk. injection Hk as <- <-. exists (k0 + 1). reflexivity.
      * injection Heq as <-. right. left. exists (k0 + 1). reflexivity.
    + intros c [[k Hk]|[Hd _]]; [|congruence]. injection Hk as <- <-.
      apply inv_unres_max0. left. exists k0. exact Er.
    + intros c [[k Hk]|[Hd _]]; [|congruence]. injection Hk as <- <-.
      apply inv_unres_other0. left. exists k0. exact Er.
    + intros Hd. congruence.
    + exact inv_fail_dead0.
    + exact inv_sorted0.
  - (* give up *)
    assert (Hun : Unresolved s c0) by (left; exists k0; exact Er).
    destruct I. constructor; unfold Unresolved in *; simp_sys.
    + exact inv_ab_lt0.
    + discriminate.
    + intros c b Hin. apply in_app_or in Hin as [Hin|[Heq|[]]].
      * eapply inv_res_lt0; exact Hin.
      * injection Heq as <- <-. exact R1.
    + exact inv_deliv_seen0.
    + exact inv_deliv_lt0.
    + exact inv_over_seen0.
    + exact inv_ba0.
    + intros c Hin. apply in_app_or in Hin as [Hin|[Heq|[]]]; [|discriminate].
      apply inv_ok0. exact Hin.
    + intros c Hin. destruct (inv_main0 _ Hin) as [H|[[k Hk]|[Hd _]]]; [left; exact H| |congruence].
      rewrite Er in Hk. injection Hk as <- <-. right. right. split; [reflexivity|].
      apply in_or_app. right. left. reflexivity.
    + intros c [[k Hk]|[_ Hin]]; [discriminate|].
      apply in_app_or in Hin as [Hin|[Heq|[]]].
      * specialize (inv_fail_dead0 _ Hin). congruence.
      * injection Heq as <-. apply inv_unres_max0. exact Hun.
    + intros c [[k Hk]|[_ Hin]]; [discriminate|].
      apply in_app_or in Hin as [Hin|[Heq|[]]].
      * specialize (inv_fail_dead0 _ Hin). congruence.
      * injection Heq as <-. intros d b Hd. apply in_app_or in Hd as [Hd|[Heq|[]]].
        -- eapply inv_unres_other0; [exact Hun|exact Hd].
        -- injection Heq as <- <-. lia.
    + reflexivity.
    + reflexivity.
    + exact inv_sorted0.
Qed.

(** *** network steps that only shrink / duplicate what is in flight *)

Lemma inv_set_ab s l :
  Inv s -> (forall d, In d l -> In d (ab s)) ->
  Inv (mkSys (a_next s) (a_retr s) (a_results s) (a_dead s) (a_tx s) (b_win s)
             (b_delivered s) (b_overtaken s) l (ba s)).
Proof.
  intros I Hsub. destruct I. constructor; unfold Unresolved in *; simp_sys; try assumption.
  - intros c k Hin. eapply inv_ab_lt0. apply Hsub. exact Hin.
  - intros c Hin. apply inv_main0. apply Hsub. exact Hin.
Qed.

Lemma inv_set_ba s l :
  Inv s -> (forall d, In d l -> In d (ba s)) ->
  Inv (mkSys (a_next s) (a_retr s) (a_results s) (a_dead s) (a_tx s) (b_win s)
             (b_delivered s) (b_overtaken s) (ab s) l).
Proof.
  intros I Hsub. destruct I. constructor; unfold Unresolved in *; simp_sys; try assumption.
  intros c Hin. apply inv_ba0. apply Hsub. exact Hin.
Qed.

Lemma unresolved_unique s c c' : Inv s -> Unresolved s c -> Unresolved s c' -> c <= c'.
Proof.
  intros I [[k Hk]|[Hd Hin]] Hc'.
  - destruct Hc' as [[k' Hk']|[Hd' _]].
    + rewrite Hk in Hk'. injection Hk' as <- <-. lia.
    + destruct (inv_retr s I _ _ Hk) as (_ & _ & _ & Hnd). congruence.
  - eapply (inv_unres_other s I); [exact Hc'|exact Hin].
Qed.

(** *** B receives a datagram *)

Lemma inv_b_receive s c k :
  Inv s -> c < a_next s ->
  (k = Main -> Seen (b_win s) c \/ Unresolved s c) ->
  Inv (b_receive s c k).
Proof.
  intros I Hlt Hmain. unfold b_receive.
  destruct (post_recv (b_win s) c true false) as [w' acc] eqn:Ep.
  assert (F1 : forall v, Seen (b_win s) v -> Seen w' v).
  { intros v Hv. pose proof (seen_stable (b_win s) c v Hv) as P. rewrite Ep in P. exact P. }
  assert (F2 : acc = true -> Seen w' c /\ ~ Seen (b_win s) c).
  { intros ->. split.
    - pose proof (accept_then_seen (b_win s) c) as P. rewrite Ep in P. apply P. reflexivity.
    - intro HS. apply rejects_iff_seen in HS. rewrite Ep in HS. discriminate. }
  assert (F3 : acc = false -> Seen (b_win s) c).
  { intros ->. apply rejects_iff_seen. rewrite Ep. reflexivity. }
  destruct k.
  - (* Main *)
    specialize (Hmain eq_refl).
    destruct acc.
    + destruct (F2 eq_refl) as [Hseen' Hnot].
      assert (Hun : Unresolved s c) by (destruct Hmain as [H|H]; [contradiction|exact H]).
      pose proof (inv_unres_max s I _ Hun) as Hmax.
      assert (Hnin : ~ In c (b_delivered s)).
      { intro Hin. apply Hnot. eapply inv_deliv_seen; eassumption. }
      pose proof I as I0.
      destruct I. constructor; unfold Unresolved in *; simp_sys; try assumption.
      * intros v Hin. apply in_app_or in Hin as [Hin|[<-|[]]]; [apply F1, inv_deliv_seen0, Hin|exact Hseen'].
      * intros v Hin. apply in_app_or in Hin as [Hin|[<-|[]]]; [apply inv_deliv_lt0, Hin|exact Hlt].
      * intros v Hin. destruct (inv_over_seen0 _ Hin) as [Hs Hn]. split; [apply F1, Hs|].
        intro Hin2. apply in_app_or in Hin2 as [Hin2|[<-|[]]]; [contradiction|]. apply Hnot. exact Hs.
      * intros v Hin. apply in_app_or in Hin as [Hin|[Heq|[]]].
        -- destruct (inv_ba0 _ Hin) as [H|H]; [left; apply in_or_app; left; exact H|right; exact H].
        -- injection Heq as <-. left. apply in_or_app. right. left. reflexivity.
      * intros v Hin. destruct (inv_ok0 _ Hin) as [H|H]; [left; apply in_or_app; left; exact H|right; exact H].
      * intros v Hin. destruct (inv_main0 _ Hin) as [H|H]; [left; apply F1, H|right; exact H].
      * intros v Hv d Hd. apply in_app_or in Hd as [Hd|[<-|[]]].
        -- eapply inv_unres_max0; eassumption.
        -- apply (unresolved_unique s c v I0 Hun Hv).
      * apply sorted_snoc; [exact inv_sorted0|]. intros d Hd.
        specialize (Hmax _ Hd).
        assert (d <> c) by (intro; subst; contradiction). lia.
    + specialize (F3 eq_refl).
      destruct I. constructor; unfold Unresolved in *; simp_sys; try assumption.
      * intros v Hin. apply F1, inv_deliv_seen0, Hin.
      * intros v Hin. destruct (mem c (b_delivered s)) eqn:Em.
        -- destruct (inv_over_seen0 _ Hin) as [Hs Hn]. split; [apply F1, Hs|exact Hn].
        -- apply in_app_or in Hin as [Hin|[<-|[]]].
           ++ destruct (inv_over_seen0 _ Hin) as [Hs Hn]. split; [apply F1, Hs|exact Hn].
           ++ split; [apply F1, F3|apply mem_false, Em].
      * intros v Hin. apply in_app_or in Hin as [Hin|[Heq|[]]].
        -- destruct (inv_ba0 _ Hin) as [H|H]; [left; exact H|right].
           destruct (mem c (b_delivered s)); [exact H|apply in_or_app; left; exact H].
        -- injection Heq as <-. destruct (mem c (b_delivered s)) eqn:Em.
           ++ left. apply mem_true, Em.
           ++ right. apply in_or_app. right. left. reflexivity.
      * intros v Hin. destruct (inv_ok0 _ Hin) as [H|H]; [left; exact H|right].
        destruct (mem c (b_delivered s)); [exact H|apply in_or_app; left; exact H].
      * intros v Hin. destruct (inv_main0 _ Hin) as [H|H]; [left; apply F1, H|right; exact H].
  - (* Other *)
    destruct I. constructor; unfold Unresolved in *; simp_sys; try assumption.
    + intros v Hin. apply F1, inv_deliv_seen0, Hin.
    + intros v Hin. destruct (inv_over_seen0 _ Hin) as [Hs Hn]. split; [apply F1, Hs|exact Hn].
    + intros v Hin. apply inv_ba0. destruct acc; [exact Hin|].
      apply in_app_or in Hin as [Hin|[Heq|[]]]; [exact Hin|discriminate].
    + intros v Hin. destruct (inv_main0 _ Hin) as [H|H]; [left; apply F1, H|right; exact H].
Qed.

Lemma nth_error_in_remove {A} (l : list A) i x :
  nth_error l i = Some x -> In x l.
Proof. apply nth_error_In. Qed.

Lemma inv_a_receive_ack s c' kd :
  Inv s -> (kd = Main -> In c' (b_delivered s) \/ In c' (b_overtaken s)) -> Inv (a_receive_ack s c' kd).
Proof.
  intros I Hc'. unfold a_receive_ack. destruct kd; [|exact I]. specialize (Hc' eq_refl).
  destruct (a_retr s) as [[c k]|] eqn:Er; [|exact I].
  destruct (N.eqb_spec c c') as [->|Hne]; [|exact I].
  pose proof (inv_retr s I _ _ Er) as (R1 & R2 & R3 & R4).
  assert (Hseen : Seen (b_win s) c').
  { destruct Hc' as [H|H]; [eapply inv_deliv_seen; eassumption|eapply inv_over_seen; eassumption]. }
  destruct I. constructor; unfold Unresolved in *; simp_sys.
  - exact inv_ab_lt0.
  - intros v kk H. discriminate.
  - intros v b Hin. apply in_app_or in Hin as [Hin|[Heq|[]]]; [eapply inv_res_lt0; exact Hin|].
    injection Heq as <- <-. exact R1.
  - exact inv_deliv_seen0.
  - exact inv_deliv_lt0.
  - exact inv_over_seen0.
  - exact inv_ba0.
  - intros v Hin. apply in_app_or in Hin as [Hin|[Heq|[]]]; [exact (inv_ok0 _ Hin)|].
    injection Heq as <-. exact Hc'.
  - intros v Hin. destruct (inv_main0 _ Hin) as [H|[[k' Hk']|[Hd _]]]; [left; exact H| |congruence].
    rewrite Er in Hk'. injection Hk' as <- <-. left. exact Hseen.
  - intros v [[k' Hk']|[Hd _]]; [discriminate|congruence].
  - intros v [[k' Hk']|[Hd _]]; [discriminate|congruence].
  - intros _. reflexivity.
  - intros v Hin. apply in_app_or in Hin as [Hin|[Heq|[]]]; [exact (inv_fail_dead0 _ Hin)|discriminate].
  - exact inv_sorted0.
Qed.

Theorem inv_step s o : Inv s -> Inv (step s o).
Proof.
  intros I. destruct o.
  - apply inv_asend, I.
  - apply inv_aother, I.
  - apply inv_atimer, I.
  - cbn [step]. destruct (nth_error (ab s) i) as [[c k]|] eqn:En; [|exact I].
    apply nth_error_In in En.
    apply inv_b_receive.
    + apply inv_set_ab; [exact I|]. intros d. apply in_remove_nth.
    + simp_sys. eapply inv_ab_lt; eassumption.
    + intros ->. simp_sys.
      destruct (inv_main s I _ En) as [H|H]; [left; exact H|right; exact H].
  - cbn [step]. destruct (nth_error (ab s) i) as [d|] eqn:En; [|exact I].
    apply nth_error_In in En. apply inv_set_ab; [exact I|].
    intros x Hin. apply in_app_or in Hin as [Hin|[<-|[]]]; assumption.
  - cbn [step]. apply inv_set_ab; [exact I|]. intros d. apply in_remove_nth.
  - cbn [step]. destruct (nth_error (ba s) j) as [[c' kd]|] eqn:En; [|exact I].
    apply nth_error_In in En. apply inv_a_receive_ack.
    + apply inv_set_ba; [exact I|]. intros d. apply in_remove_nth.
    + intros ->. simp_sys. eapply inv_ba; eassumption.
  - cbn [step]. destruct (nth_error (ba s) j) as [c'|] eqn:En; [|exact I].
    apply nth_error_In in En. apply inv_set_ba; [exact I|].
    intros x Hin. apply in_app_or in Hin as [Hin|[<-|[]]]; assumption.
  - cbn [step]. apply inv_set_ba; [exact I|]. intros d. apply in_remove_nth.
Qed.

Theorem inv_reachable c0 ops : Inv (run_sys (sys_init c0) ops).
Proof.
  unfold run_sys.
  assert (H : forall s, Inv s -> Inv (fold_left step ops s)).
  { induction ops as [|o t IH]; intros s Hs; [exact Hs|]. cbn [fold_left]. apply IH, inv_step, Hs. }
  apply H, inv_init.
Qed.
