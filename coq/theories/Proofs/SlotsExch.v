(** Exchange slots in the C20 model (Model/Slots.v): how every layer-1
    operation changes the in-use slots of unsecured sessions (frame lemmas),
    and the termination measure of the dropped-exchange sweeper. *)
From RsM Require Import Lib.MachInt Model.Slots Model.SlotsSpec Proofs.SlotsFacts Proofs.SlotsInv
  Proofs.SlotsStep.
From Coq Require Import Permutation ZifyN ZifyBool Arith.
Open Scope N_scope.

Arguments N.add : simpl never.
Arguments N.ltb : simpl never.
Arguments N.eqb : simpl never.
Arguments N.mul : simpl never.

(** * slots of unsecured sessions *)

(** slot [xi] of the unsecured (PlainText) session [sid] holds [v] *)
Definition lslot (l : list session) (sid : N) (xi : nat) (v : xst) : Prop :=
  exists s, In s l /\ s_id s = sid /\ s_mode s = MPlain /\ nth_error (s_exch s) xi = Some (Some v).

(** [l'] has no slot that [l] does not have *)
Definition vsub (l l' : list session) : Prop :=
  forall y, In y l' ->
    s_exch y = [] \/
    exists x, In x l /\ s_id y = s_id x /\ s_exch y = s_exch x /\ (s_mode y = MPlain -> s_mode x = MPlain).

Lemma vsub_lslot : forall l l' sid xi v, vsub l l' -> lslot l' sid xi v -> lslot l sid xi v.
Proof.
  intros l l' sid xi v Hv [s [Hin [Hid [Hm Hn]]]]. destruct (Hv s Hin) as [He|[x [Hx [Hi [He Hmm]]]]].
  - rewrite He in Hn. destruct xi; discriminate.
  - exists x. repeat split; auto; congruence.
Qed.

Lemma vsub_refl : forall l, vsub l l.
Proof. intros l y Hy. right. exists y. auto. Qed.

Lemma vsub_trans : forall a b c, vsub a b -> vsub b c -> vsub a c.
Proof.
  intros a b c H1 H2 y Hy. destruct (H2 y Hy) as [He|[x [Hx [Hi [He Hm]]]]]; auto.
  destruct (H1 x Hx) as [He'|[z [Hz [Hi' [He' Hm']]]]].
  - left. congruence.
  - right. exists z. repeat split; auto; congruence.
Qed.

Lemma vsub_incl : forall l l', (forall y, In y l' -> In y l) -> vsub l l'.
Proof. intros l l' H y Hy. right. exists y. auto. Qed.

Definition vkeeps (f : session -> session) : Prop :=
  forall x, s_id (f x) = s_id x /\ s_exch (f x) = s_exch x /\ (s_mode (f x) = MPlain -> s_mode x = MPlain).

Lemma vkeeps_set_last : forall t, vkeeps (set_last t). Proof. intros t x; auto. Qed.
Lemma vkeeps_set_reserved : forall b, vkeeps (set_reserved b). Proof. intros t x; auto. Qed.
Lemma vkeeps_set_expired : forall b, vkeeps (set_expired b). Proof. intros t x; auto. Qed.
Lemma vkeeps_set_mode : forall m, m <> MPlain -> vkeeps (set_mode m).
Proof. intros m Hm x. repeat split; auto. cbn. intros; contradiction. Qed.

Lemma vsub_upd_nth : forall l i f, vkeeps f -> vsub l (upd_nth i f l).
Proof.
  intros l i f Hk. destruct (nth_error l i) as [x|] eqn:Hn.
  - destruct (decomp_at _ _ _ Hn) as [rest [H1 [_ H3]]]. intros y Hy.
    apply (Permutation_in _ (H3 f)) in Hy. right. destruct Hy as [<-|Hy].
    + exists x. destruct (Hk x) as [A [B C]]. repeat split; auto.
      apply (Permutation_in _ (Permutation_sym H1)). left; auto.
    + exists y. repeat split; auto. apply (Permutation_in _ (Permutation_sym H1)). right; auto.
  - rewrite upd_nth_none; auto. apply vsub_refl.
Qed.

Lemma vsub_t_upd : forall t id f, vkeeps f -> vsub (t_sess t) (t_sess (t_upd id f t)).
Proof. intros t id f Hk. unfold t_upd. destruct (t_find id t); cbn; [apply vsub_upd_nth; auto|apply vsub_refl]. Qed.

Lemma vsub_t_get : forall t id now t1, t_get id now t = Some t1 -> vsub (t_sess t) (t_sess t1).
Proof.
  intros t id now t1 Hg. unfold t_get in Hg. destruct (t_find id t); inversion Hg; subst; cbn.
  apply vsub_upd_nth. apply vkeeps_set_last.
Qed.

Lemma vsub_swap_remove : forall l i, vsub l (swap_remove i l).
Proof.
  intros l i. destruct (nth_error l i) as [x|] eqn:Hn.
  - destruct (decomp_at _ _ _ Hn) as [rest [H1 [H2 _]]]. apply vsub_incl. intros y Hy.
    apply (Permutation_in _ (Permutation_sym H1)). right. apply (Permutation_in _ H2); auto.
  - rewrite swap_remove_none; auto. apply vsub_refl.
Qed.

Lemma vsub_t_remove : forall t id, vsub (t_sess t) (t_sess (t_remove id t)).
Proof. intros. apply vsub_incl. intros y Hy. eapply t_remove_in; eauto. Qed.

Lemma vsub_t_evict : forall now t t1 r, t_evict now t = (t1, r) -> vsub (t_sess t) (t_sess t1).
Proof.
  intros now t t1 r He. destruct r as [id|].
  - destruct (t_evict_spec _ _ _ _ He) as [i [x [_ [_ [_ [Hp _]]]]]]. apply vsub_incl. intros y Hy.
    apply (Permutation_in _ (Permutation_sym Hp)). right; auto.
  - apply t_evict_none in He. subst. apply vsub_refl.
Qed.

Lemma vsub_purge : forall fuel p l, vsub l (purge fuel p l).
Proof.
  intros fuel p l. destruct (purge_sub fuel p l) as [gone Hg]. apply vsub_incl. intros y Hy.
  apply (Permutation_in _ (Permutation_sym Hg)). apply in_or_app; auto.
Qed.

Lemma vsub_remove_pase : forall keep t, vsub (t_sess t) (t_sess (t_remove_pase keep t)).
Proof.
  intros keep t. unfold t_remove_pase. cbn.
  eapply vsub_trans; [apply vsub_purge|]. destruct keep as [k|]; [|apply vsub_refl].
  destruct (find_idx _ _); [|apply vsub_refl]. apply vsub_upd_nth. apply vkeeps_set_expired.
Qed.

Lemma vsub_t_add : forall cap t reserved now t1 r,
  t_add cap t reserved now = (t1, r) -> vsub (t_sess t) (t_sess t1).
Proof.
  intros cap t reserved now t1 r Ha. unfold t_add in Ha.
  destruct (Nat.ltb (length (t_sess t)) cap); inversion Ha; subst; cbn; [|apply vsub_refl].
  intros y Hy. apply in_app_or in Hy. destruct Hy as [Hy|[<-|[]]]; [right; exists y; auto|left; reflexivity].
Qed.

Lemma vsub_reserve_now : forall cap s now s1 r,
  reserve_now cap s now = (s1, r) -> vsub (t_sess (tb s)) (t_sess (tb s1)).
Proof.
  intros cap s now s1 r Hr. unfold reserve_now in Hr.
  destruct (t_add cap (tb s) true now) as [t1 [id|]] eqn:Ha; inversion Hr; subst; cbn;
    eapply vsub_t_add; eauto.
Qed.

(** operations that never put a value into an exchange slot of an unsecured session *)
Definition quiet_op (o : op) : bool :=
  match o with
  | OExAdd _ _ _ | OExAccept _ _ _ | OExTimeout _ _ _ | OExDrop _ _ _ _ _ | OSweep _ | OSetMode _ _
  | ORxExch _ _ | OExAcked _ _ _ => false
  | OUpdate _ m _ => negb (mode_eqb m MPlain)
  | _ => true
  end.

Theorem step_vsub : forall cap mx s o,
  quiet_op o = true -> vsub (t_sess (tb s)) (t_sess (tb (fst (step cap mx s o)))).
Proof.
  intros cap mx s o Hq. destruct o; try discriminate; cbn [step].
  - destruct (t_add cap (tb s) false now) as [t1 [id|]] eqn:Ha; cbn; eapply vsub_t_add; eauto.
  - destruct (reserve_now cap s now) as [s1 r] eqn:Hr. cbn. eapply vsub_reserve_now; eauto.
  - destruct (reserve_now cap s now) as [s1 r] eqn:Hr.
    pose proof (vsub_reserve_now _ _ _ _ _ Hr) as H1.
    destruct r; try (cbn; exact H1).
    destruct (t_evict now (tb s1)) as [t2 [v|]] eqn:He.
    + destruct (reserve_now cap (mkSt t2 (hs s1)) now) as [s3 r3] eqn:Hr3. cbn.
      eapply vsub_trans; [exact H1|]. eapply vsub_trans; [eapply vsub_t_evict; eauto|].
      apply (vsub_reserve_now _ _ _ _ _ Hr3).
    + cbn. eapply vsub_trans; [exact H1|]. eapply vsub_t_evict; eauto.
  - cbn in Hq. destruct (existsb (h_has id) (hs s)); [|apply vsub_refl].
    destruct (t_get id now (tb s)) as [t1|] eqn:Hg; [|apply vsub_refl]. cbn.
    eapply vsub_trans; [eapply vsub_t_get; eauto|]. apply vsub_t_upd. apply vkeeps_set_mode.
    intros ->. discriminate.
  - cbn. apply vsub_refl.
  - destruct (find (h_has id) (hs s)) as [h|]; [|apply vsub_refl]. cbn zeta.
    destruct (h_complete h).
    + destruct (t_get id now (tb s)) as [t1|] eqn:Hg; cbn; [|apply vsub_refl].
      eapply vsub_trans; [eapply vsub_t_get; eauto|]. apply vsub_t_upd. apply vkeeps_set_reserved.
    + cbn. apply vsub_t_remove.
  - destruct (t_find id (tb s)); cbn; [apply vsub_t_remove|apply vsub_refl].
  - destruct (t_evict now (tb s)) as [t1 [v|]] eqn:He; cbn; eapply vsub_t_evict; eauto.
  - destruct (t_get id now (tb s)) as [t1|] eqn:Hg; cbn; [eapply vsub_t_get; eauto|apply vsub_refl].
  - cbn. apply vsub_t_upd. apply vkeeps_set_expired.
  - cbn. apply vsub_t_upd. apply vkeeps_set_last.
  - cbn. apply vsub_remove_pase.
  - cbn. unfold t_remove_set. cbn [t_sess].
    eapply vsub_trans; [apply vsub_purge|]. destruct keep as [k|]; [|apply vsub_refl].
    destruct (find_idx _ _); [|apply vsub_refl]. apply vsub_upd_nth. apply vkeeps_set_expired.
Qed.

(** * operations on one slot *)

Lemma nth_error_upd_nth : forall {A} (l : list A) i j (v : A),
  nth_error (upd_nth i (fun _ => v) l) j =
  if Nat.eqb i j then match nth_error l i with Some _ => Some v | None => None end else nth_error l j.
Proof.
  intros A l; induction l as [|a l IH]; intros [|i] [|j] v; cbn; auto.
  destruct (Nat.eqb i j); auto.
Qed.

(** the table after [Sessions::get] + an update of slot [xi] of session [id] *)
Lemma xset_lslot : forall l l' x rest now xi v0 sid' xi' v,
  Permutation l (x :: rest) -> Permutation l' (xset xi v0 (set_last now x) :: rest) ->
  lslot l' sid' xi' v ->
  lslot l sid' xi' v \/ (sid' = s_id x /\ xi' = xi /\ v0 = Some v).
Proof.
  intros l l' x rest now xi v0 sid' xi' v Hp Hp' [s [Hin [Hid [Hm Hn]]]].
  apply (Permutation_in _ Hp') in Hin. destruct Hin as [<-|Hin].
  - cbn in Hid, Hm, Hn. rewrite nth_error_upd_nth in Hn.
    destruct (Nat.eqb xi xi') eqn:E.
    + apply Nat.eqb_eq in E. subst xi'. right. destruct (nth_error (s_exch x) xi); inversion Hn; auto.
    + left. exists x. repeat split; auto. apply (Permutation_in _ (Permutation_sym Hp)). left; auto.
  - left. exists s. repeat split; auto. apply (Permutation_in _ (Permutation_sym Hp)). right; auto.
Qed.

(** with unique identifiers, slot [xi] of session [id] afterwards holds exactly [v0] *)
Lemma xset_exact : forall l l' x rest now xi v0 v,
  NoDup (map s_id l) ->
  Permutation l (x :: rest) -> Permutation l' (xset xi v0 (set_last now x) :: rest) ->
  lslot l' (s_id x) xi v -> v0 = Some v.
Proof.
  intros l l' x rest now xi v0 v Hnd Hp Hp' [s [Hin [Hid [Hm Hn]]]].
  apply (Permutation_in _ Hp') in Hin. destruct Hin as [<-|Hin].
  - cbn in Hn. rewrite nth_error_upd_nth, Nat.eqb_refl in Hn. destruct (nth_error (s_exch x) xi); inversion Hn; auto.
  - exfalso. eapply (NoDup_map_perm_unique _ _ _ Hp Hnd s Hin). auto.
Qed.

Lemma x_add_spec : forall mx x v0 x' i j v,
  x_add mx x v0 = Some (x', i) -> nth_error x' j = Some (Some v) ->
  nth_error x j = Some (Some v) \/ (j = i /\ v = v0).
Proof.
  intros mx x v0 x' i j v Ha Hn. unfold x_add in Ha.
  destruct (Nat.ltb (length x) mx).
  - inversion Ha; subst; clear Ha. destruct (Nat.lt_ge_cases j (length x)) as [Hlt|Hge].
    + rewrite nth_error_app1 in Hn; auto.
    + rewrite nth_error_app2 in Hn; auto. destruct (j - length x)%nat eqn:E; cbn in Hn.
      * inversion Hn; subst. right. split; auto. lia.
      * destruct n; discriminate.
  - destruct (find_idx slot_free x) as [k|] eqn:Hf; inversion Ha; subst; clear Ha.
    rewrite nth_error_upd_nth in Hn. destruct (Nat.eqb i j) eqn:E.
    + apply Nat.eqb_eq in E. subst j. right. destruct (nth_error x i); inversion Hn; auto.
    + left; auto.
Qed.

(** operations covered by the frame theorem (all that the node layer uses) *)
Definition lsafe (o : op) : bool :=
  match o with
  | OSetMode _ _ | ORxExch _ _ | OExAcked _ _ _ => false
  | OUpdate _ m _ => negb (mode_eqb m MPlain)
  | _ => true
  end.

(** ** the frame theorem: where an in-use slot of an unsecured session comes from *)
Theorem step_lslot : forall cap mx s o sid xi v,
  NoDup (ids (tb s)) ->
  lsafe o = true ->
  lslot (t_sess (tb (fst (step cap mx s o)))) sid xi v ->
  lslot (t_sess (tb s)) sid xi v \/
  (exists p now, o = OExAdd sid p now /\ snd (step cap mx s o) = RIdx xi /\
                 v = (if p then XPending else XOwned)) \/
  (exists now, o = OExAccept sid xi now /\ v = XOwned /\ lslot (t_sess (tb s)) sid xi XPending) \/
  (exists now, o = OExTimeout sid xi now /\ v = XDropAck) \/
  (exists r a now, o = OExDrop sid xi r a now /\ (v = XDropAck \/ v = XDropRetr)).
Proof.
  intros cap mx s o sid xi v Hnd Hsafe Hl.
  destruct (quiet_op o) eqn:Hq.
  { left. eapply vsub_lslot; [apply step_vsub; exact Hq|exact Hl]. }
  destruct o; try discriminate; cbn [step] in Hl |- *.
  - (* OUpdate MPlain: excluded *)
    cbn in Hq, Hsafe. destruct m; discriminate.
  - (* OExAdd *)
    unfold ex_add in *.
    destruct (t_lookup id (tb s)) as [x|] eqn:Hlk; [|left; exact Hl].
    destruct (pending && s_reserved x); [left; exact Hl|].
    destruct (t_get id now (tb s)) as [t1|] eqn:Hg; [|left; exact Hl].
    destruct (s_expired x).
    { left. cbn in Hl. eapply vsub_lslot; [eapply vsub_t_get; eauto|exact Hl]. }
    destruct (x_add mx (s_exch x) (if pending then XPending else XOwned)) as [[x' i]|] eqn:Ha.
    2:{ left. cbn in Hl. eapply vsub_lslot; [eapply vsub_t_get; eauto|exact Hl]. }
    cbn in Hl. destruct (get_upd_decomp _ _ _ _ Hg) as [x0 [rest [Hp [Hx0 [Hin0 [_ [_ Hu]]]]]]].
    destruct (Hu (set_exch x')) as [Hp' _].
    assert (x0 = x).
    { destruct (t_lookup_some _ _ _ Hlk) as [Hxin Hxid].
      rewrite (t_lookup_in id (tb s) x0 Hnd Hin0 Hx0) in Hlk. inversion Hlk; auto. }
    subst x0. destruct Hl as [y [Hin [Hid [Hm Hn]]]].
    apply (Permutation_in _ Hp') in Hin. destruct Hin as [<-|Hin].
    + cbn in Hid, Hm, Hn. destruct (x_add_spec _ _ _ _ _ _ _ Ha Hn) as [Ho|[-> ->]].
      * left. exists x. repeat split; auto.
      * right. left. exists pending, now. subst sid. rewrite Hx0. auto.
    + left. exists y. repeat split; auto. apply (Permutation_in _ (Permutation_sym Hp)). right; auto.
  - (* OExAccept *)
    destruct (t_lookup id (tb s)) as [x|] eqn:Hlk; [|left; exact Hl].
    destruct (nth_error (s_exch x) xi0) as [[[]|]|] eqn:Hsl; try (left; exact Hl).
    destruct (t_get id now (tb s)) as [t1|] eqn:Hg; [|left; exact Hl].
    cbn in Hl. destruct (get_upd_decomp _ _ _ _ Hg) as [x0 [rest [Hp [Hx0 [Hin0 [_ [_ Hu]]]]]]].
    destruct (Hu (xset xi0 (Some XOwned))) as [Hp' _].
    assert (x0 = x).
    { rewrite (t_lookup_in id (tb s) x0 Hnd Hin0 Hx0) in Hlk. inversion Hlk; auto. }
    subst x0.
    destruct (xset_lslot _ _ _ _ _ _ _ _ _ _ Hp Hp' Hl) as [Ho|[Hs [Hx Hv]]]; auto.
    inversion Hv as [Hv']. right. right. left. exists now. rewrite Hs, Hx, Hx0. repeat split; auto.
    rewrite <- Hx0.
    destruct Hl as [y [Hin [Hid [Hm Hn]]]].
    apply (Permutation_in _ Hp') in Hin. destruct Hin as [<-|Hin].
    + exists x. repeat split; auto.
    + exfalso. eapply (NoDup_map_perm_unique _ _ _ Hp Hnd y Hin). congruence.
  - (* OExTimeout *)
    destruct (t_lookup id (tb s)) as [x|] eqn:Hlk; [|left; exact Hl].
    destruct (nth_error (s_exch x) xi0) as [[[]|]|] eqn:Hsl; try (left; exact Hl).
    destruct (t_get id now (tb s)) as [t1|] eqn:Hg; [|left; exact Hl].
    cbn in Hl. destruct (get_upd_decomp _ _ _ _ Hg) as [x0 [rest [Hp [Hx0 [Hin0 [_ [_ Hu]]]]]]].
    destruct (Hu (xset xi0 (Some XDropAck))) as [Hp' _].
    destruct (xset_lslot _ _ _ _ _ _ _ _ _ _ Hp Hp' Hl) as [Ho|[Hs [Hx Hv]]]; auto.
    inversion Hv as [Hv']. right. right. right. left. exists now. rewrite Hs, Hx, Hx0. auto.
  - (* OExDrop *)
    destruct (t_lookup id (tb s)) as [x|] eqn:Hlk; [|left; exact Hl].
    destruct (nth_error (s_exch x) xi0) as [[[]|]|] eqn:Hsl; try (left; exact Hl).
    destruct (t_get id now (tb s)) as [t1|] eqn:Hg; [|left; exact Hl].
    cbn [fst tb] in Hl. destruct (get_upd_decomp _ _ _ _ Hg) as [x0 [rest [Hp [Hx0 [Hin0 [_ [_ Hu]]]]]]].
    destruct (Hu (xset xi0 (x_drop retr ack (Some XOwned)))) as [Hp' _].
    destruct (xset_lslot _ _ _ _ _ _ _ _ _ _ Hp Hp' Hl) as [Ho|[Hs [Hx Hv]]]; auto.
    right. right. right. right. exists retr, ack, now. rewrite Hs, Hx, Hx0. split; auto.
    cbn in Hv. destruct retr; [inversion Hv; auto|destruct ack; inversion Hv; auto].
  - (* OSweep *)
    destruct (find_slot slot_retr (t_sess (tb s))) as [[id xi0]|].
    { left. cbn in Hl. eapply vsub_lslot; [apply vsub_t_remove|exact Hl]. }
    destruct (find_slot slot_dropped (t_sess (tb s))) as [[id xi0]|]; [|left; exact Hl].
    destruct (t_get id now (tb s)) as [t1|] eqn:Hg; [|left; exact Hl].
    cbn in Hl. destruct (get_upd_decomp _ _ _ _ Hg) as [x0 [rest [Hp [Hx0 [Hin0 [_ [_ Hu]]]]]]].
    destruct (Hu (xset xi0 None)) as [Hp' _].
    destruct (xset_lslot _ _ _ _ _ _ _ _ _ _ Hp Hp' Hl) as [Ho|[Hs [Hx Hv]]]; auto. discriminate.
Qed.

(** ** what a slot operation leaves in its slot *)

Lemma t_lookup_none_no_lslot : forall t sid xi v, t_lookup sid t = None -> ~ lslot (t_sess t) sid xi v.
Proof.
  intros t sid xi v Hl [s [Hin [Hid _]]]. unfold t_lookup in Hl.
  eapply find_none in Hl; eauto. unfold has_id in Hl. rewrite Hid, N.eqb_refl in Hl. discriminate.
Qed.

Lemma lslot_lookup : forall t sid xi v x,
  NoDup (ids t) -> t_lookup sid t = Some x -> lslot (t_sess t) sid xi v ->
  s_mode x = MPlain /\ nth_error (s_exch x) xi = Some (Some v).
Proof.
  intros t sid xi v x Hnd Hl [s [Hin [Hid [Hm Hn]]]].
  rewrite (t_lookup_in sid t s Hnd Hin Hid) in Hl. inversion Hl; subst. auto.
Qed.

(** after [Exchange::drop] the slot is not owned any more *)
Theorem drop_kills_owned : forall cap mx s sid xi r a now,
  NoDup (ids (tb s)) ->
  ~ lslot (t_sess (tb (fst (step cap mx s (OExDrop sid xi r a now))))) sid xi XOwned.
Proof.
  intros cap mx s sid xi r a now Hnd Hl. cbn [step] in Hl.
  destruct (t_lookup sid (tb s)) as [x|] eqn:Hlk; [|eapply t_lookup_none_no_lslot; eauto].
  assert (Hno : nth_error (s_exch x) xi <> Some (Some XOwned) ->
                ~ lslot (t_sess (tb s)) sid xi XOwned).
  { intros Hne Hl'. destruct (lslot_lookup _ _ _ _ _ Hnd Hlk Hl'). contradiction. }
  destruct (nth_error (s_exch x) xi) as [[[]|]|] eqn:Hsl; try (apply Hno; [discriminate|exact Hl]).
  destruct (t_get sid now (tb s)) as [t1|] eqn:Hg.
  2:{ unfold t_get in Hg. rewrite t_lookup_find in Hlk. destruct (t_find sid (tb s)); discriminate. }
  cbn [fst tb] in Hl. destruct (get_upd_decomp _ _ _ _ Hg) as [x0 [rest [Hp [Hx0 [Hin0 [_ [_ Hu]]]]]]].
  destruct (Hu (xset xi (x_drop r a (Some XOwned)))) as [Hp' _].
  pose proof (xset_exact _ _ _ _ _ _ _ _ Hnd Hp Hp' ltac:(rewrite Hx0; exact Hl)) as Hv.
  cbn in Hv. destruct r; [discriminate|destruct a; discriminate].
Qed.

(** after the accept time-out, or an accept, the slot is not pending any more *)
Theorem timeout_kills_pending : forall cap mx s sid xi now,
  NoDup (ids (tb s)) ->
  ~ lslot (t_sess (tb (fst (step cap mx s (OExTimeout sid xi now))))) sid xi XPending.
Proof.
  intros cap mx s sid xi now Hnd Hl. cbn [step] in Hl.
  destruct (t_lookup sid (tb s)) as [x|] eqn:Hlk; [|eapply t_lookup_none_no_lslot; eauto].
  assert (Hno : nth_error (s_exch x) xi <> Some (Some XPending) ->
                ~ lslot (t_sess (tb s)) sid xi XPending).
  { intros Hne Hl'. destruct (lslot_lookup _ _ _ _ _ Hnd Hlk Hl'). contradiction. }
  destruct (nth_error (s_exch x) xi) as [[[]|]|] eqn:Hsl; try (apply Hno; [discriminate|exact Hl]).
  destruct (t_get sid now (tb s)) as [t1|] eqn:Hg.
  2:{ unfold t_get in Hg. rewrite t_lookup_find in Hlk. destruct (t_find sid (tb s)); discriminate. }
  cbn [fst tb] in Hl. destruct (get_upd_decomp _ _ _ _ Hg) as [x0 [rest [Hp [Hx0 [Hin0 [_ [_ Hu]]]]]]].
  destruct (Hu (xset xi (Some XDropAck))) as [Hp' _].
  pose proof (xset_exact _ _ _ _ _ _ _ _ Hnd Hp Hp' ltac:(rewrite Hx0; exact Hl)) as Hv. discriminate.
Qed.

Theorem accept_kills_pending : forall cap mx s sid xi now,
  NoDup (ids (tb s)) ->
  ~ lslot (t_sess (tb (fst (step cap mx s (OExAccept sid xi now))))) sid xi XPending.
Proof.
  intros cap mx s sid xi now Hnd Hl. cbn [step] in Hl.
  destruct (t_lookup sid (tb s)) as [x|] eqn:Hlk; [|eapply t_lookup_none_no_lslot; eauto].
  assert (Hno : nth_error (s_exch x) xi <> Some (Some XPending) ->
                ~ lslot (t_sess (tb s)) sid xi XPending).
  { intros Hne Hl'. destruct (lslot_lookup _ _ _ _ _ Hnd Hlk Hl'). contradiction. }
  destruct (nth_error (s_exch x) xi) as [[[]|]|] eqn:Hsl; try (apply Hno; [discriminate|exact Hl]).
  destruct (t_get sid now (tb s)) as [t1|] eqn:Hg.
  2:{ unfold t_get in Hg. rewrite t_lookup_find in Hlk. destruct (t_find sid (tb s)); discriminate. }
  cbn [fst tb] in Hl. destruct (get_upd_decomp _ _ _ _ Hg) as [x0 [rest [Hp [Hx0 [Hin0 [_ [_ Hu]]]]]]].
  destruct (Hu (xset xi (Some XOwned))) as [Hp' _].
  pose proof (xset_exact _ _ _ _ _ _ _ _ Hnd Hp Hp' ltac:(rewrite Hx0; exact Hl)) as Hv. discriminate.
Qed.
