(** Order of the credential commands: the model accepts exactly what the spec automaton
    allows; the automaton's language is the finite list [spec_words]; along every run the
    word accepted in the running fail-safe period is one of them. *)
From Coq Require Import NArith List Bool Lia ZifyN ZifyBool.
From RsM Require Import Model.Failsafe Model.FailsafeSpec Proofs.FailsafeFacts Proofs.FailsafeInv.
Import ListNotations.
Open Scope N_scope.

(** ** The language of the spec automaton *)
Lemma word_eqb_eq : forall a b, word_eqb a b = true <-> a = b.
Proof.
  induction a as [|x a IH]; destruct b as [|y b]; cbn [word_eqb]; split; intro H;
    try reflexivity; try discriminate.
  - apply andb_true_iff in H. destruct H as [H1 H2]. apply IH in H2. subst.
    destruct x, y; try discriminate; reflexivity.
  - inversion H; subst. apply andb_true_iff. split; [destruct y; reflexivity|apply IH; reflexivity].
Qed.

Lemma in_words_In : forall w, in_words w = true <-> In w spec_words.
Proof.
  intro w. unfold in_words. rewrite existsb_exists. split.
  - intros [x [Hx He]]. apply word_eqb_eq in He. subst. exact Hx.
  - intro H. exists w. split; auto. apply word_eqb_eq. reflexivity.
Qed.

Lemma spec_accepts_words : forall w, spec_accepts w = true -> in_words w = true.
Proof.
  intros w H. unfold spec_accepts in H.
  destruct w as [|c1 [|c2 [|c3 [|c4 w]]]].
  - reflexivity.
  - destruct c1; vm_compute in H |- *; congruence.
  - destruct c1, c2; vm_compute in H |- *; congruence.
  - destruct c1, c2, c3; vm_compute in H |- *; congruence.
  - exfalso. destruct c1, c2, c3, c4; cbn in H; discriminate.
Qed.

Theorem spec_language : forall w, spec_accepts w = true <-> In w spec_words.
Proof.
  intro w. split.
  - intro H. apply in_words_In. apply spec_accepts_words. exact H.
  - intro H. unfold spec_words in H. cbn [In] in H.
    repeat (destruct H as [<-|H]; [vm_compute; reflexivity|]). contradiction.
Qed.

Lemma spec_run_app : forall w f c,
  spec_run f (w ++ [c]) = match spec_run f w with Some f' => spec_step f' c | None => None end.
Proof.
  induction w as [|x w IH]; intros f c; cbn [app spec_run].
  - destruct (spec_step f c); reflexivity.
  - destruct (spec_step f x); auto.
Qed.

(** each command at most once in a period *)
Theorem spec_once : forall f c f', spec_step f c = Some f' -> spec_step f' c = None.
Proof.
  intros [a b x d e] c f' H. destruct c; cbn in H; destruct a, b, x, d, e; cbn in H;
    inversion H; subst; reflexivity.
Qed.

(** ** The model's checks are the automaton's guards *)
Lemma guard_csr : forall fl,
  fl_intersects fl (fl_union FL_ADD_CSR FL_UPD_CSR) = fl_add_csr fl || fl_upd_csr fl.
Proof. intros [a b c d e]. destruct a, b, c, d, e; reflexivity. Qed.

Lemma guard_root : forall fl, fl_intersects fl FL_ROOT = fl_root fl.
Proof. intros [a b c d e]. destruct a, b, c, d, e; reflexivity. Qed.

Lemma guard_addnoc : forall fl,
  fl_contains fl (fl_union FL_ROOT FL_ADD_CSR) &&
  negb (fl_intersects fl (fl_union FL_ADD_NOC (fl_union FL_UPD_CSR FL_UPD_NOC))) =
  fl_root fl && fl_add_csr fl && negb (fl_add_noc fl) && negb (fl_upd_csr fl) && negb (fl_upd_noc fl).
Proof. intros [a b c d e]. destruct a, b, c, d, e; reflexivity. Qed.

Lemma guard_updnoc : forall fl,
  fl_contains fl FL_UPD_CSR &&
  negb (fl_intersects fl (fl_union FL_ROOT (fl_union FL_ADD_NOC (fl_union FL_ADD_CSR FL_UPD_NOC)))) =
  fl_upd_csr fl && negb (fl_root fl) && negb (fl_add_noc fl) && negb (fl_add_csr fl) && negb (fl_upd_noc fl).
Proof. intros [a b c d e]. destruct a, b, c, d, e; reflexivity. Qed.

Lemma contains_empty : forall fl, fl_contains fl fl_empty = true.
Proof. intros [a b c d e]. reflexivity. Qed.

(** what [check_state] answers, in terms of the guards *)
Lemma check_state_ok_iff : forall cf fl sfab p pres abs a b,
  check_state cf fl sfab p pres abs a b = CsOk <->
  (b && p = false /\ cf = sfab /\ fl_contains fl pres = true /\ fl_intersects fl abs = false).
Proof.
  intros cf fl sfab p pres abs a b. unfold check_state.
  destruct (b && p); [split; [discriminate|intros [H _]; discriminate]|].
  destruct (cf =? sfab) eqn:E; cbn [negb].
  - apply N.eqb_eq in E. destruct (fl_contains fl pres); cbn [negb].
    + destruct (fl_intersects fl abs); split; try discriminate; auto.
      intros (_ & _ & _ & H). discriminate.
    + destruct (a && negb (fl_add_csr fl || fl_upd_csr fl)); split; try discriminate;
        intros (_ & _ & H & _); discriminate.
  - apply N.eqb_neq in E. split; [discriminate|]. intros (_ & H & _). congruence.
Qed.

(** ** Soundness: an accepted credential command is a step of the automaton *)
Theorem order_sound : forall st o c,
  cred_of o = Some c -> snd (step st o) = StOk ->
  exists f fl f' fl',
    s_fs st = Armed f fl /\ spec_step fl c = Some fl' /\ s_fs (fst (step st o)) = Armed f' fl'.
Proof.
  intros st o c Hc Hok. destruct o; cbn [cred_of] in Hc; try discriminate.
  - (* CSR *)
    unfold step in *. dm; cbn [fst snd] in *; try discriminate.
    all: apply with_armed_ok in Heqa; destruct Heqa as [Hf ->].
    all: apply check_state_ok_iff in Heqc0; destruct Heqc0 as (_ & _ & _ & Hi).
    all: rewrite guard_csr in Hi.
    all: inversion Hc; subst c.
    all: do 4 eexists; split; [exact Hf|]; split; [|reflexivity].
    all: cbn [spec_step]; rewrite Hi; reflexivity.
  - (* root *)
    unfold step in *. dm; cbn [fst snd] in *; try discriminate.
    apply with_armed_ok in Heqa; destruct Heqa as [Hf ->].
    apply check_state_ok_iff in Heqc0; destruct Heqc0 as (_ & _ & _ & Hi).
    rewrite guard_root in Hi. inversion Hc; subst c.
    do 4 eexists; split; [exact Hf|]; split; [|reflexivity].
    cbn [spec_step]; rewrite Hi; reflexivity.
  - (* AddNOC *)
    unfold step in *. dm; cbn [fst snd] in *; try discriminate.
    all: apply with_armed_ok in Heqa; destruct Heqa as [Hf ->].
    all: apply check_state_ok_iff in Heqc0; destruct Heqc0 as (_ & _ & Hp & Hi).
    all: pose proof (guard_addnoc fl) as Hg; rewrite Hp, Hi in Hg; cbn [andb negb] in Hg.
    all: inversion Hc; subst c.
    all: do 4 eexists; split; [exact Hf|]; split; [|reflexivity].
    all: cbn [spec_step]; rewrite <- Hg; reflexivity.
  - (* UpdateNOC *)
    unfold step in *. dm; cbn [fst snd] in *; try discriminate.
    apply with_armed_ok in Heqa; destruct Heqa as [Hf ->].
    apply check_state_ok_iff in Heqc0; destruct Heqc0 as (_ & _ & Hp & Hi).
    pose proof (guard_updnoc fl) as Hg; rewrite Hp, Hi in Hg; cbn [andb negb] in Hg.
    inversion Hc; subst c.
    do 4 eexists; split; [exact Hf|]; split; [|reflexivity].
    cbn [spec_step]; rewrite <- Hg; reflexivity.
Qed.

(** ** Completeness: a step of the automaton, issued from the fail-safe's own context by an
    authorised session, is accepted - up to the conditions that are not about order:
    update commands need a CASE session; AddNOC needs a root that is not in use, room in the
    fabric table and a PASE session that was not upgraded before. *)
Definition side_conditions (st : state) (c : cred) (sfab : N) (p : bool) : Prop :=
  match c with
  | CCsrAdd | CRoot => True
  | CCsrUpd => p = false
  | CUpdNoc => p = false /\ sfab <> 0 /\ fget sfab (s_fabs st) <> None
  | CAddNoc =>
    existsb (fun g => f_root g =? s_root st) (s_fabs st) = false /\
    next_idx (s_fabs st) <> None /\
    Nat.leb MAX_FABRICS (length (s_fabs st)) = false /\
    (p = true -> sfab = 0)
  end.

Theorem order_complete : forall st o c s sfab p fl fl',
  cred_of o = Some c -> sess_of o = Some s ->
  sess_ctx st s = Some (sfab, p) -> allowed st sfab p = true ->
  s_fs st = Armed sfab fl -> spec_step fl c = Some fl' ->
  side_conditions st c sfab p ->
  snd (step st o) = StOk.
Proof.
  intros st o c s sfab p fl fl' Hc Hs Hctx Hal Hf Hsp Hside.
  assert (Hwa : with_armed st sfab = ArOk sfab fl).
  { unfold with_armed. rewrite Hf, N.eqb_refl. reflexivity. }
  destruct o; cbn [cred_of] in Hc; try discriminate; cbn [sess_of] in Hs; inversion Hs; subst.
  - (* CSR *)
    unfold step. rewrite Hctx, Hal, Hwa. cbn [negb].
    destruct upd; inversion Hc; subst c; cbn [side_conditions spec_step] in *.
    + subst p. cbn [andb].
      destruct (fl_add_csr fl || fl_upd_csr fl) eqn:E; [discriminate|].
      assert (Hk : check_state sfab fl sfab false fl_empty (fl_union FL_ADD_CSR FL_UPD_CSR) false false = CsOk).
      { apply check_state_ok_iff. rewrite guard_csr, contains_empty. auto. }
      rewrite Hk. reflexivity.
    + cbn [andb].
      destruct (fl_add_csr fl || fl_upd_csr fl) eqn:E; [discriminate|].
      assert (Hk : check_state sfab fl sfab p fl_empty (fl_union FL_ADD_CSR FL_UPD_CSR) false false = CsOk).
      { apply check_state_ok_iff. rewrite guard_csr, contains_empty. auto. }
      rewrite Hk. reflexivity.
  - (* root *)
    unfold step. rewrite Hctx, Hal, Hwa. cbn [negb]. inversion Hc; subst c. cbn [spec_step] in Hsp.
    destruct (fl_root fl) eqn:E; [discriminate|].
    assert (Hk : check_state sfab fl sfab p fl_empty FL_ROOT false false = CsOk).
    { apply check_state_ok_iff. rewrite guard_root, contains_empty. auto. }
    rewrite Hk. reflexivity.
  - (* AddNOC *)
    unfold step. rewrite Hctx, Hal, Hwa. cbn [negb]. inversion Hc; subst c.
    cbn [spec_step side_conditions] in *. destruct Hside as (Hconf & Hnext & Hfull & Hup).
    pose proof (guard_addnoc fl) as Hg.
    destruct (fl_root fl && fl_add_csr fl && negb (fl_add_noc fl) && negb (fl_upd_csr fl) &&
              negb (fl_upd_noc fl)) eqn:E; [|discriminate].
    apply andb_true_iff in Hg. destruct Hg as [Hg1 Hg2]. apply negb_true_iff in Hg2.
    assert (Hk : check_state sfab fl sfab p (fl_union FL_ROOT FL_ADD_CSR)
                   (fl_union FL_ADD_NOC (fl_union FL_UPD_CSR FL_UPD_NOC)) true false = CsOk).
    { apply check_state_ok_iff. auto. }
    rewrite Hk, Hconf. destruct (next_idx (s_fabs st)) as [idx|]; [|congruence].
    rewrite Hfull. destruct p.
    + rewrite (Hup eq_refl). cbn. reflexivity.
    + reflexivity.
  - (* UpdateNOC *)
    unfold step. rewrite Hctx. inversion Hc; subst c.
    cbn [spec_step side_conditions] in *. destruct Hside as (-> & Hnz & Hex).
    apply N.eqb_neq in Hnz. rewrite Hnz, Hal, Hwa. cbn [negb].
    pose proof (guard_updnoc fl) as Hg.
    destruct (fl_upd_csr fl && negb (fl_root fl) && negb (fl_add_noc fl) && negb (fl_add_csr fl) &&
              negb (fl_upd_noc fl)) eqn:E; [|discriminate].
    apply andb_true_iff in Hg. destruct Hg as [Hg1 Hg2]. apply negb_true_iff in Hg2.
    assert (Hk : check_state sfab fl sfab false FL_UPD_CSR
                   (fl_union FL_ROOT (fl_union FL_ADD_NOC (fl_union FL_ADD_CSR FL_UPD_NOC)))
                   true true = CsOk).
    { apply check_state_ok_iff. auto. }
    rewrite Hk. destruct (fget sfab (s_fabs st)); [reflexivity|congruence].
Qed.

(** ** Along a run: the flags of the fail-safe context are the automaton's state after the
    word of credential commands accepted in the running period *)
Definition tracked (st : state) (w : list cred) : Prop :=
  match s_fs st with
  | Idle => w = []
  | Armed _ fl => spec_run fl_empty w = Some fl
  end.

Lemma expire_fs : forall st c, s_fs (expire st c) = Idle.
Proof.
  intros st c. unfold expire. destruct (s_fs st) eqn:E; [exact E|reflexivity].
Qed.

(** operations that are not credential commands leave the flags alone, clear the context, or
    arm it afresh with no flag *)
Lemma flags_other : forall st o,
  cred_of o = None ->
  match s_fs (fst (step st o)) with
  | Idle => True
  | Armed _ fl' =>
    match s_fs st with
    | Idle => fl' = fl_empty
    | Armed _ fl => fl' = fl
    end
  end.
Proof.
  intros st o Hc. destruct o; cbn [cred_of] in Hc; try discriminate.
  all: try (destruct upd; discriminate).
  all: unfold step; try unfold complete_body.
  all: dm; cbn [fst]; sp; auto.
  all: try (rewrite expire_fs in *; discriminate).
  all: try match goal with H : s_fs ?s = _ |- _ => rewrite H in *; try discriminate end.
  all: try (inv_pair; reflexivity).
  all: try congruence.
Qed.

(** a refused credential command changes nothing *)
Lemma cred_refused_unchanged : forall st o c,
  Inv st -> cred_of o = Some c -> snd (step st o) <> StOk -> fst (step st o) = st.
Proof.
  intros st o c HI Hc Hr. destruct o; cbn [cred_of] in Hc; try discriminate.
  all: unfold step in *; dm; cbn [fst snd] in *; try reflexivity; try congruence.
  (* AddNOC on an already upgraded PASE session: excluded by the invariant *)
  exfalso. apply with_armed_ok in Heqa. destruct Heqa as [Hf ->].
  apply check_state_ok in Heqc0. destruct Heqc0 as (_ & Habs & _). apply addnoc_absent in Habs.
  apply N.eqb_neq in Heqb4. apply sess_ctx_pase in Heqo. destruct Heqo as [Hps _].
  destruct HI as (_ & _ & Hp & _). unfold pase_ok in Hp. rewrite Hps, Hf in Hp.
  destruct Hp as [Hp|[_ Hp]]; congruence.
Qed.

Lemma tracked_step : forall st w o,
  Inv st -> tracked st w -> tracked (fst (step st o)) (track st w o).
Proof.
  intros st w o HI Ht. unfold track. destruct (step st o) as [st' r] eqn:Es. cbn [fst].
  destruct (cred_of o) as [c|] eqn:Ec.
  - destruct (status_ok r) eqn:Eok.
    + assert (r = StOk) by (destruct r; try discriminate; reflexivity). subst r.
      pose proof (order_sound st o c Ec) as Hs. rewrite Es in Hs. cbn [fst snd] in Hs.
      destruct (Hs eq_refl) as (f & fl & f' & fl' & Hf & Hsp & Hf').
      unfold tracked in *. rewrite Hf in Ht. rewrite Hf', Hf. rewrite spec_run_app, Ht. exact Hsp.
    + assert (Hne : r <> StOk) by (intro; subst; discriminate).
      pose proof (cred_refused_unchanged st o c HI Ec) as Hu. rewrite Es in Hu. cbn [fst snd] in Hu.
      rewrite (Hu Hne). unfold tracked in *. destruct (s_fs st); auto.
      destruct r; try exact Ht. congruence.
  - pose proof (flags_other st o Ec) as Hfo. rewrite Es in Hfo. cbn [fst] in Hfo.
    unfold tracked in *. destruct (s_fs st') as [|f' fl']; auto.
    destruct (s_fs st) as [|f fl]; subst; auto.
Qed.

Theorem period_word_in_language : forall ops st w,
  Inv st -> safe_run st ops -> tracked st w ->
  tracked (fst (track_run st w ops)) (snd (track_run st w ops)) /\
  In (snd (track_run st w ops)) spec_words.
Proof.
  induction ops as [|o r IH]; intros st w HI Hs Ht; cbn [track_run fst snd].
  - split; auto. apply spec_language. unfold spec_accepts, tracked in *.
    destruct (s_fs st); [subst; reflexivity|rewrite Ht; reflexivity].
  - destruct Hs as (Hg & Ho & Hr). apply IH; auto.
    + apply step_inv; auto.
    + apply tracked_step; auto.
Qed.

Lemma init_tracked : forall w n f p, tracked (init_state w n f p) [].
Proof. intros. reflexivity. Qed.
