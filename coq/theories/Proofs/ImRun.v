(** A whole request on a node that does not change: the responder loop
    over the expander produces exactly the specified entries, and calls
    the handler for exactly the served ones. *)
From RsM Require Import Lib.MachInt Model.Acl Model.AclSpec Model.Im Model.ImSpec.
From RsM Require Import Proofs.ImLists Proofs.ImFacts Proofs.ImExpand Proofs.ImConcrete Proofs.ImSpecLink.
From Coq Require Import ZifyN ZifyBool.
Open Scope N_scope.

Arguments N.eqb : simpl never.

Lemma inj_on_nodup {A} (f : A -> N) (l : list A) (x y : A) :
  NoDup (map f l) -> In x l -> In y l -> f x = f y -> x = y.
Proof.
  induction l as [|z l IH]; intros Hnd Hx Hy Hf; [destruct Hx|].
  cbn [map] in Hnd. inversion Hnd as [|? ? Hnot Hnd']; subst.
  destruct Hx as [->|Hx], Hy as [->|Hy].
  - reflexivity.
  - exfalso. apply Hnot. rewrite Hf. apply in_map. exact Hy.
  - exfalso. apply Hnot. rewrite <- Hf. apply in_map. exact Hx.
  - apply IH; assumption.
Qed.

Lemma sorted_unique (nd : node) (x y : endpoint) :
  sorted nd -> In x nd -> In y nd -> ep_id x = ep_id y -> x = y.
Proof.
  induction nd as [|z nd IH]; intros Hs Hx Hy Hf; [destruct Hx|].
  destruct Hx as [->|Hx], Hy as [->|Hy].
  - reflexivity.
  - pose proof (sorted_head_lt x nd y Hs Hy). lia.
  - pose proof (sorted_head_lt y nd x Hs Hx). lia.
  - apply IH; [exact (sorted_tail z nd Hs)|assumption..].
Qed.

Lemma calls_of_app (who : accessor) (op : operation) (ff : bool) (a b : list out) :
  calls_of who op ff (a ++ b) = calls_of who op ff a ++ calls_of who op ff b.
Proof. unfold calls_of. apply flat_map_app. Qed.

Section Run.
Variables (fabs : list fabric) (who : accessor) (op : operation) (timed : bool)
          (flt : N -> N -> N -> bool) (ff : bool) (nd : node).
Let env := mkEnv op who timed flt.
Let c0 := mkCfg nd fabs.
Hypothesis Hwf : wf_fabrics fabs = true.
Hypothesis Hn : wf_node nd = true.

Let spec_item := item_spec nd fabs who op timed flt.
Let spec_items := request_spec nd fabs who op timed flt.

(** ** the cache stays sound *)

Lemma last_sound_none : last_sound env fabs nd None.
Proof. intros e0 c1 l0 H. discriminate. Qed.

Lemma last_sound_found (e : endpoint) (c : cluster) (id : N) :
  In e nd -> In c (ep_clusters e) -> leaf_check env fabs e c id = None ->
  last_sound env fabs nd (Some (ep_id e, c_id c, id)).
Proof.
  intros He Hc Hck e0 c1 l0 H e' c' He' Hc' Heid Hcid. injection H as <- <- <-.
  destruct (wf_node_parts nd Hn) as [Hs Hparts].
  assert (e' = e) by (apply (sorted_unique nd e' e Hs He' He); exact Heid). subst e'.
  destruct (Hparts e He) as [Hnd _].
  assert (c' = c) by (apply (inj_on_nodup c_id (ep_clusters e) c' c Hnd Hc' Hc); exact Hcid). subst c'.
  exact Hck.
Qed.

Lemma lok_check (path : gpath) (e : endpoint) (c : cluster) (l : leaf) :
  lok env fabs path e c l = true -> leaf_check env fabs e c (l_id l) = None.
Proof.
  unfold lok. intros H. apply andb_true_iff in H. destruct H as [_ H].
  destruct (leaf_check env fabs e c (l_id l)); [discriminate|reflexivity].
Qed.

(** ** one step of the responder loop *)

Lemma run_next_eq (fuel : nat) (n : nat) (ps ps' : pstate) (outs : list out) (log : list hcall) :
  next env nd fabs ps = next env nd fabs ps' ->
  run fuel env ff c0 [] n ps outs log = run fuel env ff c0 [] n ps' outs log.
Proof. intros H. destruct fuel as [|fuel]; [reflexivity|]. cbn [run config_at c0 cf_node cf_fabs]. rewrite H. reflexivity. Qed.

Lemma remaining_clear (path : gpath) (st : xstate) :
  remaining env fabs path nd (clear_last st) = remaining env fabs path nd st
  /\ (scoh env fabs path nd st -> scoh env fabs path nd (clear_last st)).
Proof.
  unfold remaining, scoh. destruct (resume_clear nd st) as [Hr _]. rewrite Hr. cbn [fst snd clear_last x_ci x_li].
  split; [reflexivity|]. intros H. exact H.
Qed.

(** ** the shape of [item_spec] *)

Definition upfront (p : gpath) : option status :=
  if negb (is_read op) && negb (is_some (p_cl p)) then Some SUnsupportedCluster
  else if negb (is_read op) && negb (is_some (p_leaf p)) then Some SUnsupportedAttribute
  else None.

Lemma item_spec_upfront (it : item) (s : status) :
  upfront (it_path it) = Some s -> spec_item it = [OStatus (it_path it) (it_tag it) s].
Proof.
  unfold upfront, spec_item, item_spec. destruct op; cbn [is_read negb andb]; try discriminate;
    destruct (p_cl (it_path it)), (p_leaf (it_path it)); cbn [is_some negb];
    intros H; try discriminate; injection H as <-; reflexivity.
Qed.

Lemma item_spec_concrete (it : item) (e c l : N) :
  it_path it = mkPath (Some e) (Some c) (Some l) ->
  spec_item it =
  match concrete_decision nd fabs who op timed flt e c l with
  | Served t => [out_of (it_tag it) t]
  | Refused s => [OStatus (it_path it) (it_tag it) s]
  | Silent => []
  end.
Proof. unfold spec_item, item_spec. intros ->. cbn [p_ep p_cl p_leaf]. destruct op; reflexivity. Qed.

Lemma item_spec_wild (it : item) :
  upfront (it_path it) = None -> is_wildcard (it_path it) = true ->
  spec_item it = map (out_of (it_tag it)) (served nd fabs who op timed flt (it_path it)).
Proof.
  unfold upfront, spec_item, item_spec, is_wildcard.
  destruct op; cbn [is_read negb andb];
    destruct (p_ep (it_path it)), (p_cl (it_path it)), (p_leaf (it_path it)); cbn [is_some negb andb];
    intros H1 H2; try discriminate; reflexivity.
Qed.

Lemma upfront_path_ok (p : gpath) : upfront p = None -> path_ok env p.
Proof.
  unfold upfront, path_ok. cbn [xe_op env]. destruct (is_read op); cbn [negb andb]; [left; reflexivity|].
  destruct (is_some (p_cl p)), (is_some (p_leaf p)); cbn [negb]; try discriminate. right. split; reflexivity.
Qed.

Lemma next_upfront (st : xstate) (p : gpath) (s : status) :
  upfront p = Some s -> next_for_path env nd fabs st p = NStatus s.
Proof.
  unfold upfront, next_for_path. cbn [xe_op env].
  destruct (negb (is_read op) && negb (is_some (p_cl p))); [intros H; injection H as <-; reflexivity|].
  destruct (negb (is_read op) && negb (is_some (p_leaf p))); [intros H; injection H as <-; reflexivity|].
  discriminate.
Qed.

(** ** inversion of a concrete hit *)

Lemma conc_found_inv (e0 c1 l0 a b d : N) :
  conc_node env fabs e0 c1 l0 nd = ShFound a b d ->
  exists e c, In e nd /\ In c (ep_clusters e) /\ a = ep_id e /\ b = c_id c /\ d = l0
              /\ leaf_check env fabs e c l0 = None.
Proof.
  unfold conc_node.
  destruct (find (eok env fabs (mkPath (Some e0) (Some c1) (Some l0))) nd) as [e|] eqn:Hfe; [|discriminate].
  apply find_some in Hfe. destruct Hfe as [He _].
  unfold conc_cluster.
  destruct (find (fun c => c_id c =? c1) (ep_clusters e)) as [c|] eqn:Hfc; [|discriminate].
  apply find_some in Hfc. destruct Hfc as [Hc _].
  unfold conc_leaf.
  destruct (find (fun l => l_id l =? l0) (leaves (xe_op env) c)); [|destruct (is_invoke (xe_op env)); discriminate].
  destruct (xe_flt env (ep_id e) (c_id c) l0); [|discriminate].
  destruct (leaf_check env fabs e c l0) eqn:Hck; [discriminate|].
  intros H. injection H as <- <- <-. exists e, c. repeat split; assumption.
Qed.

(** ** the main induction *)

Definition result (outs : list out) (log : list hcall) (more : list out) : run_res :=
  RunDone (rev outs ++ more) (rev log ++ calls_of who op ff more).

Lemma result_cons_data (outs : list out) (log : list hcall) (e c l : N) (tag : option N) (more : list out) :
  result (OData e c l tag :: outs) (call_of env ff e c l :: log) more
  = result outs log (OData e c l tag :: more).
Proof.
  unfold result. cbn [rev]. rewrite <- !app_assoc. cbn [app calls_of flat_map].
  unfold call_of. cbn [xe_op xe_acc env]. destruct op; reflexivity.
Qed.

Lemma result_cons_status (outs : list out) (log : list hcall) (p : gpath) (tag : option N) (s : status)
  (more : list out) :
  result (OStatus p tag s :: outs) log more = result outs log (OStatus p tag s :: more).
Proof. unfold result. cbn [rev]. rewrite <- !app_assoc. reflexivity. Qed.

(** (A) from a state between items *)
Definition goal_A (items : list item) : Prop :=
  forall (x : xstate) (fuel n : nat) (outs : list out) (log : list hcall),
  last_sound env fabs nd (x_last x) ->
  (length (spec_items items) < fuel)%nat ->
  run fuel env ff c0 [] n (mkP x None items) outs log = result outs log (spec_items items).

(** (B) in the middle of a wildcard item *)
Lemma middle (it : item) (rest : list item) :
  upfront (it_path it) = None -> is_wildcard (it_path it) = true -> goal_A rest ->
  forall (R : list cand) (st : xstate) (fuel n : nat) (outs : list out) (log : list hcall),
  scoh env fabs (it_path it) nd st -> last_sound env fabs nd (x_last st) ->
  remaining env fabs (it_path it) nd st = R ->
  (length R + length (spec_items rest) < fuel)%nat ->
  run fuel env ff c0 [] n (mkP st (Some it) rest) outs log
  = result outs log (map (out_of (it_tag it)) R ++ spec_items rest).
Proof.
  intros Hup Hw HA. destruct (wf_node_parts nd Hn) as [Hs _].
  induction R as [|t R IH]; intros st fuel n outs log Hcoh Hls Hrem Hfuel.
  - (* nothing left: the same call moves on to the next items *)
    cbn [map app].
    rewrite (run_next_eq fuel n (mkP st (Some it) rest) (mkP st None rest)).
    + apply HA; [exact Hls|]. cbn [length] in Hfuel. lia.
    + cbn [next ps_cur ps_x ps_items].
      rewrite (next_for_path_nocache env fabs (it_path it) nd st Hls).
      destruct (remaining_clear (it_path it) st) as [Hrc Hsc].
      pose proof (next_for_path_wild env fabs (it_path it) Hw nd (clear_last st)
                    (upfront_path_ok _ Hup) Hs (Hsc Hcoh) eq_refl) as Hstep.
      rewrite Hrc, Hrem in Hstep.
      destruct (next_for_path env nd fabs (clear_last st) (it_path it)) as [a b d st'| |s].
      * destruct Hstep as (e & c & l & _ & _ & _ & _ & _ & _ & _ & _ & _ & Habs & _). discriminate.
      * reflexivity.
      * destruct Hstep.
  - destruct fuel as [|fuel]; [cbn [length] in Hfuel; lia|].
    cbn [run config_at c0 cf_node cf_fabs next ps_cur ps_x ps_items].
    rewrite (next_for_path_nocache env fabs (it_path it) nd st Hls).
    destruct (remaining_clear (it_path it) st) as [Hrc Hsc].
    pose proof (next_for_path_wild env fabs (it_path it) Hw nd (clear_last st)
                  (upfront_path_ok _ Hup) Hs (Hsc Hcoh) eq_refl) as Hstep.
    rewrite Hrc, Hrem in Hstep.
    destruct (next_for_path env nd fabs (clear_last st) (it_path it)) as [a b d st'| |s].
    + destruct Hstep as (e & c & l & He & Hc & Hl & _ & _ & Hlok & -> & -> & -> & Hcons & Hcoh' & Hlast').
      injection Hcons as Ht HR. subst t. rewrite Hw.
      rewrite (IH st' fuel (S n) _ _ Hcoh').
      * cbn [map app out_of cand_ids]. apply result_cons_data.
      * rewrite Hlast'. apply last_sound_found; [exact He|exact Hc|]. apply (lok_check (it_path it)). exact Hlok.
      * symmetry. exact HR.
      * cbn [length] in Hfuel. lia.
    + discriminate.
    + destruct Hstep.
Qed.

Theorem run_items : forall items, goal_A items.
Proof.
  destruct (wf_node_parts nd Hn) as [Hs _].
  induction items as [|it rest IH]; intros x fuel n outs log Hls Hfuel.
  - destruct fuel as [|fuel]; [cbn in Hfuel; lia|].
    cbn [run config_at c0 cf_node cf_fabs next ps_cur ps_x ps_items next_items].
    unfold result. cbn [spec_items request_spec flat_map calls_of]. rewrite !app_nil_r. reflexivity.
  - assert (Hsplit : spec_items (it :: rest) = spec_item it ++ spec_items rest) by reflexivity.
    assert (Hnc : next_for_path env nd fabs (fresh (x_last x)) (it_path it)
                  = next_for_path env nd fabs (fresh None) (it_path it)).
    { rewrite (next_for_path_nocache env fabs (it_path it) nd (fresh (x_last x))); [reflexivity|exact Hls]. }
    destruct (upfront (it_path it)) as [s|] eqn:Hup.
    { (* refused before any look-up *)
      rewrite Hsplit, (item_spec_upfront it s Hup) in *. cbn [app length] in Hfuel.
      destruct fuel as [|fuel]; [lia|].
      cbn [run config_at c0 cf_node cf_fabs next ps_cur ps_x ps_items next_items].
      rewrite (next_upfront _ _ s Hup).
      rewrite (IH (fresh (x_last x)) fuel n _ _ Hls) by lia.
      cbn [app]. apply result_cons_status. }
    destruct (is_wildcard (it_path it)) eqn:Hw.
    + (* wildcard item *)
      rewrite Hsplit, (item_spec_wild it Hup Hw) in *.
      pose proof (next_for_path_wild env fabs (it_path it) Hw nd (fresh None)
                    (upfront_path_ok _ Hup) Hs (or_introl (conj eq_refl eq_refl)) eq_refl) as Hstep.
      assert (Hrem0 : remaining env fabs (it_path it) nd (fresh None)
                      = served nd fabs who op timed flt (it_path it)).
      { unfold remaining. cbn [fresh resume x_anchor fst snd skipn x_ci x_li].
        apply (ecands_served fabs who op timed flt Hwf nd (it_path it) Hn). }
      rewrite Hrem0 in Hstep.
      destruct (next_for_path env nd fabs (fresh None) (it_path it)) as [a b d st'| |s] eqn:Hnfp.
      * destruct Hstep as (e & c & l & He & Hc & Hl & _ & _ & Hlok & -> & -> & -> & Hcons & Hcoh' & Hlast').
        rewrite Hcons in *. cbn [map app length] in Hfuel.
        destruct fuel as [|fuel]; [lia|].
        cbn [run config_at c0 cf_node cf_fabs next ps_cur ps_x ps_items next_items].
        rewrite Hnc, Hw.
        rewrite (middle it rest Hup Hw IH (remaining env fabs (it_path it) nd st') st' fuel (S n) _ _ Hcoh').
        -- cbn [map app out_of cand_ids]. apply result_cons_data.
        -- rewrite Hlast'. apply last_sound_found; [exact He|exact Hc|]. apply (lok_check (it_path it)). exact Hlok.
        -- reflexivity.
        -- rewrite app_length, map_length in Hfuel. lia.
      * rewrite Hstep in *. cbn [map app] in *.
        rewrite (run_next_eq fuel n (mkP x None (it :: rest)) (mkP x None rest)).
        -- apply IH; assumption.
        -- cbn [next ps_cur ps_x ps_items next_items]. rewrite Hnc. reflexivity.
      * destruct Hstep.
    + (* concrete item *)
      assert (Hp : exists e c l, it_path it = mkPath (Some e) (Some c) (Some l)).
      { unfold is_wildcard in Hw. destruct (it_path it) as [[e|] [c|] [l|]]; cbn in Hw; try discriminate.
        exists e, c, l. reflexivity. }
      destruct Hp as [e1 [c1 [l1 Hp]]].
      rewrite Hsplit, (item_spec_concrete it e1 c1 l1 Hp) in *.
      pose proof (next_for_path_conc (mkEnv op who timed flt) fabs e1 c1 l1 nd) as Hsh.
      rewrite (conc_node_decision fabs who op timed flt Hwf nd e1 c1 l1 Hn) in Hsh.
      rewrite <- Hp in Hsh. fold env in Hsh.
      destruct (next_for_path env nd fabs (fresh None) (it_path it)) as [a b d st'| |s] eqn:Hnfp;
        cbn [nshape] in Hsh.
      * (* served *)
        destruct (concrete_decision nd fabs who op timed flt e1 c1 l1) as [t| |] eqn:Hdec;
          cbn [decision_shape] in Hsh; try discriminate.
        destruct t as [[te tc] tl]. cbn [cand_ids] in Hsh. injection Hsh as -> -> ->.
        cbn [app length] in Hfuel.
        destruct fuel as [|fuel]; [lia|].
        cbn [run config_at c0 cf_node cf_fabs next ps_cur ps_x ps_items next_items].
        rewrite Hnc, Hw.
        assert (Hls' : last_sound env fabs nd (x_last st')).
        { rewrite (next_for_path_found_last env fabs nd _ _ _ _ _ _ Hnfp).
          pose proof (next_for_path_conc env fabs e1 c1 l1 nd) as Hsh2.
          rewrite <- Hp in Hsh2. fold env in Hsh2. rewrite Hnfp in Hsh2. cbn [nshape] in Hsh2.
          destruct (conc_node env fabs e1 c1 l1 nd) as [a b d| | |] eqn:Hcn; try discriminate.
          injection Hsh2 as -> -> ->.
          destruct (conc_found_inv e1 c1 l1 _ _ _ Hcn) as [e [c [He [Hc [-> [-> [-> Hck]]]]]]].
          apply last_sound_found; assumption. }
        rewrite (IH st' fuel (S n) _ _ Hls') by lia.
        cbn [app out_of cand_ids]. apply result_cons_data.
      * (* filtered out: no output *)
        destruct (concrete_decision nd fabs who op timed flt e1 c1 l1) as [t| |] eqn:Hdec;
          cbn [decision_shape] in Hsh; try discriminate.
        { destruct t as [[te tc] tl]. discriminate. }
        cbn [app] in *.
        rewrite (run_next_eq fuel n (mkP x None (it :: rest)) (mkP x None rest)).
        -- apply IH; assumption.
        -- cbn [next ps_cur ps_x ps_items next_items]. rewrite Hnc. reflexivity.
      * (* refused *)
        destruct (concrete_decision nd fabs who op timed flt e1 c1 l1) as [t| |] eqn:Hdec;
          cbn [decision_shape] in Hsh; try discriminate.
        { destruct t as [[te tc] tl]. discriminate. }
        injection Hsh as ->. cbn [app length] in Hfuel.
        destruct fuel as [|fuel]; [lia|].
        cbn [run config_at c0 cf_node cf_fabs next ps_cur ps_x ps_items next_items].
        rewrite Hnc.
        rewrite (IH (fresh (x_last x)) fuel n _ _ Hls) by lia.
        cbn [app]. apply result_cons_status.
Qed.

Theorem expand_all_exact (items : list item) (fuel : nat) :
  (length (spec_items items) < fuel)%nat ->
  expand_all fuel env ff c0 [] items
  = RunDone (spec_items items) (calls_of who op ff (spec_items items)).
Proof.
  intros Hf. unfold expand_all.
  rewrite (run_items items (fresh None) fuel 0%nat [] [] last_sound_none Hf). reflexivity.
Qed.

End Run.
