(** C04 on the group receive path: sessions coming and going never make the
    path accept what the sender's group counter window refuses. *)
From RsM Require Import Lib.MachInt Model.Dedup Model.DedupRx.
From Coq Require Import ZifyN ZifyBool.
Open Scope N_scope.

(** the store evolves exactly as if there were no sessions, and the path
    accepts only what the store accepts *)
Lemma grx_recv_store s fab node group ctr keep :
  gx_store (fst (grx_recv s fab node group ctr keep)) = fst (g_post_recv (gx_store s) fab node ctr) /\
  (snd (grx_recv s fab node group ctr keep) = true -> snd (g_post_recv (gx_store s) fab node ctr) = true).
Proof.
  unfold grx_recv. destruct (g_post_recv (gx_store s) fab node ctr) as [st' a]. cbn [fst snd].
  destruct a.
  - destruct (post_recv _ ctr true false) as [w' a2]. cbn [fst snd gx_store]. split; [reflexivity|intros _; reflexivity].
  - cbn [fst snd gx_store]. split; [reflexivity|discriminate].
Qed.

(** the flags of the store alone on the same messages *)
Fixpoint store_flags (st : gstore) (ms : list gmsg) : list bool :=
  match ms with
  | [] => []
  | (fab, node, _, ctr, _) :: t =>
      let '(st', a) := g_post_recv st fab node ctr in a :: store_flags st' t
  end.

Fixpoint path_flags (s : grx) (ms : list gmsg) : list bool :=
  match ms with
  | [] => []
  | (fab, node, group, ctr, keep) :: t =>
      let '(s', a) := grx_recv s fab node group ctr keep in a :: path_flags s' t
  end.

Lemma grx_run_flags_gen ms : forall s pre,
  grx_run grx_recv s ms = grx_run grx_recv s ms ->
  snd (fold_left (grx_step grx_recv) ms (s, pre)) = pre ++ path_flags s ms.
Proof.
  induction ms as [|m t IH]; intros s pre _; cbn [fold_left path_flags].
  - rewrite app_nil_r. reflexivity.
  - destruct m as [[[[fab node] group] ctr] keep]. unfold grx_step at 2. cbn [fst snd].
    destruct (grx_recv s fab node group ctr keep) as [s' a]. rewrite IH by reflexivity.
    rewrite <- app_assoc. reflexivity.
Qed.

Theorem grx_run_flags s ms : snd (grx_run grx_recv s ms) = path_flags s ms.
Proof. unfold grx_run. rewrite grx_run_flags_gen by reflexivity. reflexivity. Qed.

(** pointwise: accepted on the path => accepted by the store (whatever
    sessions are alive, kept or dropped in between) *)
Theorem path_accepts_only_what_store_accepts ms : forall s,
  Forall2 (fun p q => p = true -> q = true) (path_flags s ms) (store_flags (gx_store s) ms).
Proof.
  induction ms as [|m t IH]; intros s; cbn [path_flags store_flags]; [constructor|].
  destruct m as [[[[fab node] group] ctr] keep].
  pose proof (grx_recv_store s fab node group ctr keep) as [Hst Hacc].
  destruct (grx_recv s fab node group ctr keep) as [s' a]. cbn [fst snd] in *.
  destruct (g_post_recv (gx_store s) fab node ctr) as [st' b]. cbn [fst snd] in *.
  constructor; [exact Hacc|]. rewrite <- Hst. apply IH.
Qed.

(** before the repairs: counters 11 and 12 reach the sender's live session,
    are never recorded for the sender, and are accepted again once it is gone *)
Example replay_through_session_before_fix :
  let ms := [(1, 7000, 257, 10, true); (1, 7000, 257, 11, true); (1, 7000, 257, 12, false);
             (1, 7000, 257, 11, false); (1, 7000, 257, 12, false); (1, 7000, 257, 10, false)] in
  snd (grx_run grx_recv_old grx_new ms) = [true; true; true; true; true; false] /\
  snd (grx_run grx_recv grx_new ms) = [true; true; true; false; false; false].
Proof. vm_compute. split; reflexivity. Qed.

(** before the second repair a message for another group of the key set was
    taken by the session of the first group *)
Example other_group_taken_by_session_before_fix :
  let ms := [(1, 7000, 257, 10, true); (1, 7000, 258, 11, true)] in
  map (fun e => snd (fst e)) (gx_live (fst (grx_run grx_recv_old grx_new ms))) = [257] /\
  map (fun e => snd (fst e)) (gx_live (fst (grx_run grx_recv grx_new ms))) = [258; 257].
Proof. vm_compute. split; reflexivity. Qed.
