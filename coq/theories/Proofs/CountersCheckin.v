(** C12 proofs, check-in counter (under the hypothesis that the
    application stores what the interface tells it to store before it
    sends again). *)
From RsM Require Import Lib.MachInt Model.Counters Model.CountersSpec Proofs.CountersGeneric.
From Coq Require Import ZifyN ZifyBool.
Open Scope N_scope.
Ltac Zify.zify_post_hook ::= Z.div_mod_to_equations.

Arguments N.add : simpl never.
Arguments N.sub : simpl never.
Arguments N.mul : simpl never.
Arguments N.modulo : simpl never.
Arguments N.leb : simpl never.
Arguments N.ltb : simpl never.
Arguments N.eqb : simpl never.

(** ghost position -> counter value: all of u32 *)
Definition kring (p : N) : N := p mod two32.

Lemma kring_inj o a b :
  o <= a < o + two32 -> o <= b < o + two32 -> kring a = kring b -> a = b.
Proof. unfold kring, two32. lia. Qed.

Lemma kring_small x : x < two32 -> kring x = x.
Proof. unfold kring, two32. lia. Qed.

Lemma k_covers_ahead epoch kv v :
  epoch <= two31 -> k_covers epoch kv v = true -> k_ahead kv v = true.
Proof.
  unfold k_covers, k_ahead, wsub32. destruct kv as [b|]; [|discriminate].
  unfold two32, two31. lia.
Qed.

Section Checkin.
  Variable E : N.
  Hypothesis HE : 1 <= E < two32.

  Lemma c_next_ring a e : c_next (mkCC (kring a) (kring e) E) = kring (a + 1).
  Proof. unfold c_next, wrap32, kring, two32. cbn [c_value]. lia. Qed.

  Lemma c_new_ring x : c_new (kring x) E = mkCC (kring x) (kring (x + E)) E.
  Proof.
    unfold c_new. f_equal. unfold wrap32, kring, two32. lia.
  Qed.

  Lemma c_advance_ring a e : a < e <= a + E ->
    c_advance (mkCC (kring a) (kring e) E) =
    if a + 1 =? e then (mkCC (kring (a + 1)) (kring (e + E)) E, Some (kring (e + E)))
    else (mkCC (kring (a + 1)) (kring e) E, None).
  Proof.
    intros H. unfold c_advance. cbn [c_value c_next_epoch c_epoch].
    assert (Hv : wrap32 (kring a + 1) = kring (a + 1)) by (unfold wrap32, kring, two32; lia).
    assert (Hn : wrap32 (kring e + E) = kring (e + E)) by (unfold wrap32, kring, two32; lia).
    rewrite Hv, Hn.
    assert (Heq : (kring (a + 1) =? kring e) = (a + 1 =? e)).
    { destruct (N.eqb_spec (a + 1) e) as [->|Hne]; [apply N.eqb_refl|].
      apply N.eqb_neq. revert H Hne HE. unfold kring, two32. lia. }
    rewrite Heq. reflexivity.
  Qed.

  Lemma c_advance_by_ring a e dl : a < e <= a + E -> dl < two32 ->
    c_advance_by (mkCC (kring a) (kring e) E) dl =
    if e - a <=? dl then (mkCC (kring (a + dl)) (kring (a + dl + E)) E, Some (kring (a + dl + E)))
    else (mkCC (kring (a + dl)) (kring e) E, None).
  Proof.
    intros H Hdl. unfold c_advance_by. cbn [c_value c_next_epoch c_epoch].
    assert (Hd : wsub32 (kring e) (kring a) = e - a).
    { revert H HE. unfold wsub32, kring, two32. lia. }
    assert (Hv : wrap32 (kring a + dl) = kring (a + dl)) by (unfold wrap32, kring, two32; lia).
    assert (Hn : wrap32 (kring (a + dl) + E) = kring (a + dl + E)) by (unfold wrap32, kring, two32; lia).
    rewrite Hd, Hv, Hn. reflexivity.
  Qed.

  Lemma k_covers_ring p d : p <= d < p + E -> k_covers E (Some (kring d)) (kring p) = true.
  Proof.
    intros H. unfold k_covers.
    assert (Hd : wsub32 (kring d) (kring p) = d - p).
    { revert H HE. unfold wsub32, kring, two32. lia. }
    rewrite Hd. unfold kring, two32. lia.
  Qed.

  Definition KLive (s : kstate) (o M T : N) : Prop :=
    exists a e d, k_ctr s = mkCC (kring a) (kring e) E /\ k_kv s = Some (kring d) /\
      o <= M /\ M <= a + 1 /\ M <= d + 1 /\ a < e <= a + E /\ d <= e /\
      a + 1 <= o + T /\ (k_owed s = false -> d = e).

  Definition KFresh (s : kstate) (cr : N) : Prop :=
    k_kv s = None /\ k_owed s = true /\
    exists a e, k_ctr s = mkCC (kring a) (kring e) E /\ a < e <= a + E.

  Lemma k_live_step : forall s op o M T s' ev,
    KLive s o M T -> k_allowed s op = true -> k_step s op = (s', ev) ->
    exists M' T', KLive s' o M' T' /\ M <= M' /\ T' <= T + k_cost E op /\
                  ev_ok kring (k_covers E) ev o M M' T'.
  Proof.
    intros s op o M T s' ev [a [e [d [Hc [Hkv [HoM [HMa [HMd [Hae [Hde [HaT Hown]]]]]]]]]]] Hal Hst.
    destruct s as [ctr kv owed]. cbn [k_ctr k_kv k_owed] in *. subst ctr kv.
    destruct op as [ok|ok|dl|r]; cbn [k_step k_ctr k_kv k_owed] in Hst; cbn [k_cost].
    - (* send *)
      cbn [k_allowed k_owed] in Hal. destruct owed; [discriminate|]. specialize (Hown eq_refl). subst d.
      rewrite c_next_ring, c_advance_ring in Hst by exact Hae.
      destruct (N.eqb_spec (a + 1) e) as [Heq|Hne].
      + destruct ok; inversion Hst; subst s' ev; clear Hst.
        * exists (a + 2), (T + 1). split; [|split; [lia|split; [lia|]]].
          -- exists (a + 1), (e + E), (e + E). cbn [k_ctr k_kv k_owed]. repeat split; lia.
          -- cbn [ev_ok]. exists (a + 1). repeat split; try lia. apply k_covers_ring. lia.
        * exists (a + 2), (T + 1). split; [|split; [lia|split; [lia|]]].
          -- exists (a + 1), (e + E), e. cbn [k_ctr k_kv k_owed]. repeat split; try lia; try discriminate.
          -- cbn [ev_ok]. exists (a + 1). repeat split; try lia. apply k_covers_ring. lia.
      + inversion Hst; subst s' ev; clear Hst.
        exists (a + 2), (T + 1). split; [|split; [lia|split; [lia|]]].
        * exists (a + 1), e, e. cbn [k_ctr k_kv k_owed]. repeat split; lia.
        * cbn [ev_ok]. exists (a + 1). repeat split; try lia. apply k_covers_ring. lia.
    - (* persist *)
      destruct ok; inversion Hst; subst s' ev; clear Hst.
      + exists M, T. split; [|split; [lia|split; [lia|exact I]]].
        exists a, e, e. cbn [k_ctr k_kv k_owed c_persist_value c_next_epoch]. repeat split; lia.
      + exists M, T. split; [|split; [lia|split; [lia|exact I]]].
        exists a, e, d. cbn [k_ctr k_kv k_owed]. repeat split; try lia; try exact Hown.
    - (* invalidate *)
      assert (Hdl : wrap32 dl < two32) by (unfold wrap32, two32; lia).
      rewrite c_advance_by_ring in Hst by assumption.
      destruct (N.leb_spec (e - a) (wrap32 dl)) as [Hle|Hgt]; inversion Hst; subst s' ev; clear Hst.
      + exists M, (T + wrap32 dl). split; [|split; [lia|split; [lia|exact I]]].
        exists (a + wrap32 dl), (a + wrap32 dl + E), d. cbn [k_ctr k_kv k_owed].
        repeat split; try lia; try discriminate.
      + exists M, (T + wrap32 dl). split; [|split; [lia|split; [lia|exact I]]].
        exists (a + wrap32 dl), e, d. cbn [k_ctr k_kv k_owed]. repeat split; try lia; try exact Hown.
    - (* restart *)
      inversion Hst; subst s' ev; clear Hst.
      exists M, (T + E). split; [|split; [lia|split; [lia|exact I]]].
      exists d, (d + E), d. unfold k_boot. cbn [c_epoch k_ctr k_kv k_owed]. rewrite c_new_ring.
      repeat split; try lia; try discriminate.
  Qed.

  Lemma k_fresh_step : forall s op cr s' ev,
    KFresh s cr -> k_allowed s op = true -> k_step s op = (s', ev) ->
    (exists cr', KFresh s' cr' /\ cr' <= cr + k_cost E op /\ forall v kv, ev <> EvYield v kv) \/
    (exists o M' T', KLive s' o M' T' /\ o <= M' /\ T' <= cr + k_cost E op /\
                     ev_ok kring (k_covers E) ev o o M' T').
  Proof.
    intros s op cr s' ev [Hkv [Hown [a [e [Hc Hae]]]]] Hal Hst.
    destruct s as [ctr kv owed]. cbn [k_ctr k_kv k_owed] in *. subst ctr kv owed.
    destruct op as [ok|ok|dl|r]; cbn [k_step k_ctr k_kv k_owed] in Hst; cbn [k_cost].
    - cbn in Hal. discriminate.
    - destruct ok; inversion Hst; subst s' ev; clear Hst.
      + right. exists (a + 1), (a + 1), 0. split; [|split; [lia|split; [lia|exact I]]].
        exists a, e, e. cbn [k_ctr k_kv k_owed c_persist_value c_next_epoch]. repeat split; lia.
      + left. exists cr. split; [|split; [lia|discriminate]].
        split; [reflexivity|]. split; [reflexivity|]. exists a, e. split; [reflexivity|exact Hae].
    - left. assert (Hdl : wrap32 dl < two32) by (unfold wrap32, two32; lia).
      rewrite c_advance_by_ring in Hst by assumption.
      destruct (N.leb_spec (e - a) (wrap32 dl)) as [Hle|Hgt]; inversion Hst; subst s' ev; clear Hst.
      + exists cr. split; [|split; [lia|discriminate]].
        split; [reflexivity|]. split; [reflexivity|].
        exists (a + wrap32 dl), (a + wrap32 dl + E). split; [reflexivity|lia].
      + exists cr. split; [|split; [lia|discriminate]].
        split; [reflexivity|]. split; [reflexivity|].
        exists (a + wrap32 dl), e. split; [reflexivity|lia].
    - left. inversion Hst; subst s' ev; clear Hst.
      exists cr. split; [|split; [lia|discriminate]].
      split; [reflexivity|]. split; [reflexivity|].
      exists (wrap32 r), (wrap32 r + E). unfold k_boot. cbn [c_epoch k_ctr].
      rewrite <- (kring_small (wrap32 r)) at 1 by (unfold wrap32, two32; lia).
      rewrite c_new_ring. split; [reflexivity|lia].
  Qed.

  Lemma k_boot_live x r : x < two32 -> KLive (k_boot (Some x) r E) (x + 1) (x + 1) 0.
  Proof.
    intros Hx. exists x, (x + E), x. unfold k_boot. cbn [k_ctr k_kv k_owed].
    rewrite <- (kring_small x) at 1 by exact Hx. rewrite c_new_ring.
    rewrite (kring_small x) at 3 by exact Hx.
    repeat split; try lia; try discriminate.
  Qed.

  Lemma k_boot_fresh r : KFresh (k_boot None r E) 0.
  Proof.
    split; [reflexivity|]. split; [reflexivity|].
    exists (wrap32 r), (wrap32 r + E). unfold k_boot. cbn [k_ctr].
    rewrite <- (kring_small (wrap32 r)) at 1 by (unfold wrap32, two32; lia).
    rewrite c_new_ring. split; [reflexivity|lia].
  Qed.

  Theorem checkin_unique_on_wire : forall (kv0 : option N) (r : N) (sched : list kop),
    k_kv_ok kv0 -> k_obedient (k_boot kv0 r E) sched = true -> k_travel E sched <= two32 ->
    NoDup (yields (fst (k_run (k_boot kv0 r E) sched))).
  Proof.
    intros kv0 r sched Hkv Hob Hb. unfold k_run, k_travel, k_obedient in *.
    destruct kv0 as [x|]; cbn [k_kv_ok] in Hkv.
    - eapply (gen_unique_live k_step k_allowed (k_cost E) kring (k_covers E) KLive KFresh
                k_live_step k_fresh_step two32 kring_inj);
        [apply k_boot_live; exact Hkv|exact Hob|exact Hb].
    - eapply (gen_unique_fresh k_step k_allowed (k_cost E) kring (k_covers E) KLive KFresh
                k_live_step k_fresh_step two32 kring_inj);
        [apply k_boot_fresh|exact Hob|exact Hb].
  Qed.

  Theorem checkin_covered_before_use : forall (kv0 : option N) (r : N) (sched : list kop) (v : N) (kv : option N),
    k_kv_ok kv0 -> k_obedient (k_boot kv0 r E) sched = true ->
    In (EvYield v kv) (fst (k_run (k_boot kv0 r E) sched)) -> k_covers E kv v = true.
  Proof.
    intros kv0 r sched v kv Hkv Hob Hin. apply (forall_cov_in (k_covers E) _ v kv) in Hin; [exact Hin|].
    unfold k_run, k_obedient in *. destruct kv0 as [x|]; cbn [k_kv_ok] in Hkv.
    - eapply (gen_covered_live k_step k_allowed (k_cost E) kring (k_covers E) KLive KFresh
                k_live_step k_fresh_step);
        [apply k_boot_live; exact Hkv|exact Hob].
    - eapply (gen_covered_fresh k_step k_allowed (k_cost E) kring (k_covers E) KLive KFresh
                k_live_step k_fresh_step);
        [apply k_boot_fresh|exact Hob].
  Qed.
End Checkin.

(** Without the hypothesis: an application that keeps sending after the
    store of [advance_counter] failed hands out 13 twice. *)
Definition k_witness_disobedient : list kop :=
  [KPersist true; KSend true; KSend false; KSend true; KCrash 0; KPersist true; KSend true].

Lemma checkin_disobedient_refuted :
  k_obedient (k_boot (Some 10) 0 2) k_witness_disobedient = false /\
  k_travel 2 k_witness_disobedient <= two32 /\
  yields (fst (k_run (k_boot (Some 10) 0 2) k_witness_disobedient)) = [11; 12; 13; 13].
Proof. vm_compute. repeat split; discriminate. Qed.
