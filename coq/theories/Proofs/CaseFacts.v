(** Basic facts about the symbolic CASE model: boolean equality of terms is equality, the ideal
    destructors invert the constructors, the session-table operations of a reserved slot. *)
From Coq Require Import ZifyN ZifyBool.
From RsM Require Import Lib.MachInt Model.Cert Model.CertSpec Model.Case Model.CaseSpec.
Open Scope N_scope.

Arguments N.add : simpl never.
Arguments N.eqb : simpl never.
Arguments N.ltb : simpl never.
Arguments N.leb : simpl never.
Arguments N.min : simpl never.
Arguments N.max : simpl never.

(* ------------------------------------------------------------------ equality *)

Lemma opt_eqb_eq : forall A (e : A -> A -> bool),
  (forall x y, e x y = true <-> x = y) ->
  forall a b, opt_eqb e a b = true <-> a = b.
Proof.
  intros A e He [x|] [y|]; cbn; try (split; congruence).
  rewrite He. split; congruence.
Qed.

Lemma list_eqb_eq : forall A (e : A -> A -> bool),
  (forall x y, e x y = true <-> x = y) ->
  forall a b, list_eqb e a b = true <-> a = b.
Proof.
  intros A e He a. induction a as [|x r IH]; intros [|y s]; cbn; try (split; congruence).
  rewrite andb_true_iff, He, IH. split; [intros [-> ->]; reflexivity | intros H; inversion H; auto].
Qed.

Lemma dn_eqb_eq : forall a b : dn, dn_eqb a b = true <-> a = b.
Proof.
  induction a as [|[t1 v1] r IH]; intros [|[t2 v2] s]; cbn; try (split; congruence).
  rewrite !andb_true_iff, !N.eqb_eq, IH.
  split; [intros [[-> ->] ->]; reflexivity | intros H; inversion H; auto].
Qed.

Lemma bool_eqb_eq : forall a b, Bool.eqb a b = true <-> a = b.
Proof. intros a b. apply Bool.eqb_true_iff. Qed.

Lemma bc_eqb_eq : forall a b, bc_eqb a b = true <-> a = b.
Proof.
  intros [a1 a2] [b1 b2]. unfold bc_eqb. cbn [fst snd].
  rewrite andb_true_iff, bool_eqb_eq, (opt_eqb_eq N N.eqb N.eqb_eq).
  split; [intros [-> ->]; reflexivity | intros H; inversion H; auto].
Qed.

Lemma cert_eqb_eq : forall a b, cert_eqb a b = true <-> a = b.
Proof.
  intros x y. unfold cert_eqb. rewrite !andb_true_iff, !dn_eqb_eq, !N.eqb_eq, bool_eqb_eq,
    !(opt_eqb_eq N N.eqb N.eqb_eq), (opt_eqb_eq _ bc_eqb bc_eqb_eq),
    (opt_eqb_eq _ _ (list_eqb_eq N N.eqb N.eqb_eq)).
  destruct x as [s1 i1 sk1 ak1 p1 sg1 nb1 na1 b1 k1 e1 c1];
  destruct y as [s2 i2 sk2 ak2 p2 sg2 nb2 na2 b2 k2 e2 c2]; cbn. split.
  - intros H. decompose [and] H. congruence.
  - intros H. inversion H. repeat split; reflexivity.
Qed.

Lemma term_eqb_eq : forall x y, term_eqb x y = true <-> x = y.
Proof.
  induction x; intros y; destruct y; cbn [term_eqb]; try (split; congruence);
    rewrite ?andb_true_iff, ?N.eqb_eq, ?cert_eqb_eq, ?IHx, ?IHx1, ?IHx2, ?IHx3;
    (split; [intros H; decompose [and] H; congruence | intros H; inversion H; auto]).
Qed.

Lemma term_eqb_refl : forall a, term_eqb a a = true.
Proof. intros a. apply term_eqb_eq. reflexivity. Qed.

Lemma term_eqb_neq : forall a b, term_eqb a b = false <-> a <> b.
Proof.
  intros a b. pose proof (term_eqb_eq a b) as H. destruct (term_eqb a b); split; intros; try congruence.
  - exfalso. apply H0. apply H. reflexivity.
  - intros E. apply H in E. discriminate.
Qed.

(* ------------------------------------------------------------------ destructors *)

Lemma adec_some : forall k n c pt, adec k n c = Some pt <-> c = TAead k n pt.
Proof.
  intros k n c pt. destruct c; cbn [adec]; try (split; congruence).
  destruct (term_eqb k c1 && term_eqb n c2) eqn:E.
  - apply andb_true_iff in E. destruct E as [E1 E2]. apply term_eqb_eq in E1, E2. subst.
    split; [intros H; inversion H; reflexivity | intros H; inversion H; reflexivity].
  - split; [discriminate|]. intros H. inversion H. subst. rewrite !term_eqb_refl in E. discriminate.
Qed.

Lemma sig_ok_iff : forall kid m s, sig_ok kid m s = true <-> s = TSig (TKey kid) m.
Proof.
  intros kid m s. destruct s; cbn [sig_ok]; try (split; congruence).
  destruct s1; try (split; congruence).
  rewrite andb_true_iff, N.eqb_eq, term_eqb_eq.
  split; [intros [-> ->]; reflexivity | intros H; inversion H; auto].
Qed.

Lemma parse_icac_some : forall t ic, parse_icac t = Some ic <-> t = icac_term ic.
Proof.
  intros t ic. destruct t; cbn; try (split; [discriminate|destruct ic; discriminate]).
  - destruct ic; cbn; split; congruence.
  - destruct ic; cbn; split; congruence.
Qed.

Lemma parse_tbe3_some : forall t noc icac sig,
  parse_tbe3 t = Some (noc, icac, sig) <-> t = tbe3_plain noc icac sig.
Proof.
  intros t noc icac sig. unfold tbe3_plain. split.
  - intros H. unfold parse_tbe3 in H.
    destruct t; try discriminate. destruct t1; try discriminate. destruct t2; try discriminate.
    destruct t2_2; try discriminate. destruct t2_2_2; try discriminate.
    destruct (parse_icac t2_1) as [ic|] eqn:E; try discriminate.
    inversion H; subst. apply parse_icac_some in E. subst. reflexivity.
  - intros ->. cbn. assert (E : parse_icac (icac_term icac) = Some icac) by (apply parse_icac_some; reflexivity).
    rewrite E. reflexivity.
Qed.

Lemma parse_tbe2_some : forall t noc icac sig rid,
  parse_tbe2 t = Some (noc, icac, sig, rid) <-> t = tbe2_plain noc icac sig rid.
Proof.
  intros t noc icac sig rid. unfold tbe2_plain. split.
  - intros H. unfold parse_tbe2 in H.
    destruct t; try discriminate. destruct t1; try discriminate. destruct t2; try discriminate.
    destruct t2_2; try discriminate. destruct t2_2_2; try discriminate. destruct t2_2_2_2; try discriminate.
    destruct (parse_icac t2_1) as [ic|] eqn:E; try discriminate.
    inversion H; subst. apply parse_icac_some in E. subst. reflexivity.
  - intros ->. cbn. assert (E : parse_icac (icac_term icac) = Some icac) by (apply parse_icac_some; reflexivity).
    rewrite E. reflexivity.
Qed.

Lemma icac_term_inj : forall a b, icac_term a = icac_term b -> a = b.
Proof. intros [a|] [b|]; cbn; congruence. Qed.

(** the payload term determines the message up to its opcode *)
Lemma fields_term_inj : forall a b, fields_term a = fields_term b -> a = b.
Proof.
  induction a as [|x r IH]; intros [|y s]; cbn; try congruence.
  intros H. inversion H as [[H1 H2 H3 H4]]. apply IH in H4. subst.
  destruct x as [t1 k1 v1], y as [t2 k2 v2]; cbn in *. subst.
  destruct k1, k2; cbn in H2; try discriminate; reflexivity.
Qed.

Lemma msg_term_inj : forall a b, msg_term a = msg_term b ->
  m_fields a = m_fields b /\ m_closed a = m_closed b.
Proof.
  intros a b H. unfold msg_term in H. inversion H as [[H1 H2]]. apply fields_term_inj in H1.
  split; [assumption|]. destruct (m_closed a), (m_closed b); try reflexivity; discriminate.
Qed.

(* ------------------------------------------------------------------ fabrics *)

(** table well-formedness the real [Fabrics] guarantees: indices are non-zero ([NonZeroU8]) and unique *)
Definition fabrics_wf (l : list fabric) : Prop :=
  NoDup (map f_idx l) /\ forall f, In f l -> f_idx f <> 0.

Lemma get_fabric_in : forall idx l f, get_fabric idx l = Some f -> In f l /\ f_idx f = idx.
Proof.
  induction l as [|x r IH]; cbn; intros f H; [discriminate|].
  destruct (f_idx x =? idx) eqn:E.
  - inversion H; subst. apply N.eqb_eq in E. auto.
  - apply IH in H. tauto.
Qed.

Lemma get_fabric_unique : forall l f, NoDup (map f_idx l) -> In f l -> get_fabric (f_idx f) l = Some f.
Proof.
  induction l as [|x r IH]; cbn; intros f Hnd Hin; [contradiction|].
  inversion Hnd as [|? ? Hnotin Hnd']; subst.
  destruct Hin as [->|Hin].
  - rewrite N.eqb_refl. reflexivity.
  - destruct (f_idx x =? f_idx f) eqn:E.
    + apply N.eqb_eq in E. exfalso. apply Hnotin. rewrite E. apply in_map. assumption.
    + apply IH; assumption.
Qed.

Lemma get_by_dest_id_in : forall l rnd tgt f,
  get_by_dest_id l rnd tgt = Some f -> In f l /\ dest_id f rnd (f_nid f) = tgt.
Proof.
  induction l as [|x r IH]; cbn [get_by_dest_id In]; intros rnd tgt f H; [discriminate|].
  destruct (term_eqb (dest_id x rnd (f_nid x)) tgt) eqn:E.
  - inversion H; subst. apply term_eqb_eq in E. split; [left; reflexivity | exact E].
  - apply IH in H. tauto.
Qed.

(* ------------------------------------------------------------------ cache *)

Lemma find_by_rid_in : forall l rid r, find_by_rid l rid = Some r -> In r l /\ r_rid r = rid.
Proof.
  induction l as [|x t IH]; cbn; intros rid r H; [discriminate|].
  destruct (term_eqb (r_rid x) rid) eqn:E.
  - inversion H; subst. apply term_eqb_eq in E. auto.
  - apply IH in H. tauto.
Qed.

Lemma find_by_peer_in : forall l fab peer r,
  find_by_peer l fab peer = Some r -> In r l /\ r_fab r = fab /\ r_peer r = peer.
Proof.
  induction l as [|x t IH]; cbn; intros fab peer r H; [discriminate|].
  destruct ((r_fab x =? fab) && (r_peer x =? peer)) eqn:E.
  - inversion H; subst. apply andb_true_iff in E. destruct E as [E1 E2].
    apply N.eqb_eq in E1, E2. auto.
  - apply IH in H. tauto.
Qed.

Lemma in_tl : forall A (l : list A) x, In x (tl l) -> In x l.
Proof. intros A [|y l] x H; cbn in *; auto. Qed.

Lemma insert_or_update_in : forall l r x, In x (insert_or_update l r) -> x = r \/ In x l.
Proof.
  intros l r x H. unfold insert_or_update in H. apply in_app_or in H. destruct H as [H|H].
  - right. destruct (Nat.leb MAX_RECORDS _) in H; [apply in_tl in H|];
      apply filter_In in H; tauto.
  - left. destruct H as [H|[]]. auto.
Qed.

(* ------------------------------------------------------------------ session table *)

(** the allocator's cursor is ahead of every identifier in the table *)
Definition sessions_wf (st : node) : Prop :=
  forall s, In s (n_sessions st) -> s_id s < n_next_id st.

Lemma filter_id_notin : forall l id,
  (forall s, In s l -> s_id s <> id) -> filter (fun s => negb (s_id s =? id)) l = l.
Proof.
  induction l as [|x r IH]; cbn; intros id H; [reflexivity|].
  destruct (s_id x =? id) eqn:E.
  - apply N.eqb_eq in E. exfalso. apply (H x); auto.
  - cbn. f_equal. apply IH. intros s Hs. apply H. auto.
Qed.

Lemma map_id_notin : forall (f : session -> session) l id,
  (forall s, In s l -> s_id s <> id) ->
  map (fun s => if s_id s =? id then f s else s) l = l.
Proof.
  induction l as [|x r IH]; cbn; intros id H; [reflexivity|].
  destruct (s_id x =? id) eqn:E.
  - apply N.eqb_eq in E. exfalso. apply (H x); auto.
  - f_equal. apply IH. intros s Hs. apply H. auto.
Qed.

Lemma wf_ids_ne : forall st, sessions_wf st -> forall s, In s (n_sessions st) -> s_id s <> n_next_id st.
Proof. intros st H s Hs. apply H in Hs. lia. Qed.

(** a table that consists of [base] plus one slot with identifier [id] not used in [base] *)
Lemma release_slot : forall st base x,
  n_sessions st = base ++ [x] -> (forall s, In s base -> s_id s <> s_id x) ->
  n_sessions (release st (s_id x)) = base.
Proof.
  intros st base x E H. unfold release, set_sessions. cbn [n_sessions]. rewrite E, filter_app.
  rewrite (filter_id_notin base (s_id x) H). cbn. rewrite N.eqb_refl. cbn. apply app_nil_r.
Qed.

Lemma update_slot : forall st base x fab cats peer dec enc att,
  n_sessions st = base ++ [x] -> (forall s, In s base -> s_id s <> s_id x) ->
  n_sessions (update_sess st (s_id x) fab cats peer dec enc att)
  = base ++ [mkSession (s_id x) (s_reserved x) fab cats peer dec enc att].
Proof.
  intros st base x fab cats peer dec enc att E H. unfold update_sess, set_sessions. cbn [n_sessions].
  rewrite E, map_app. rewrite (map_id_notin _ base (s_id x) H). cbn. rewrite N.eqb_refl. reflexivity.
Qed.

Lemma complete_slot : forall st base x,
  n_sessions st = base ++ [x] -> (forall s, In s base -> s_id s <> s_id x) ->
  n_sessions (complete st (s_id x))
  = base ++ [mkSession (s_id x) false (s_fab x) (s_cats x) (s_peer x) (s_dec x) (s_enc x) (s_att x)].
Proof.
  intros st base x E H. unfold complete, set_sessions. cbn [n_sessions].
  rewrite E, map_app. rewrite (map_id_notin _ base (s_id x) H). cbn. rewrite N.eqb_refl. reflexivity.
Qed.

(** the parts of the node the handlers never touch *)
Lemma release_fabrics : forall st id, n_fabrics (release st id) = n_fabrics st /\ n_cache (release st id) = n_cache st
  /\ n_clock (release st id) = n_clock st /\ n_next_id (release st id) = n_next_id st.
Proof. intros. unfold release, set_sessions. cbn. auto. Qed.

Lemma reserve_spec : forall st,
  let '(st', slot) := reserve st in
  slot = n_next_id st /\ n_sessions st' = n_sessions st ++ [blank_session slot] /\
  n_fabrics st' = n_fabrics st /\ n_cache st' = n_cache st /\ n_clock st' = n_clock st /\
  n_next_id st' = n_next_id st + 1.
Proof. intros st. unfold reserve. cbn. auto 10. Qed.
