(** The invariant of the C08 model is preserved by every operation (outside the two
    named classes), and what [expire] / [boot] do to a state satisfying it. *)
From Coq Require Import NArith List Bool Lia ZifyN ZifyBool.
From RsM Require Import Model.Failsafe Model.FailsafeSpec Proofs.FailsafeFacts.
Import ListNotations.
Open Scope N_scope.

Ltac sp := cbn [s_fs s_bc s_win s_pase s_fabs s_nets s_kv s_key s_root s_nkeys s_case k_fabs k_net
                set_fs set_bc set_win set_pase set_fabs set_nets set_kv set_case boot fst snd] in *.

Ltac inv_pair :=
  repeat match goal with
  | H : (_, _) = (_, _) |- _ => inversion H; subst; clear H
  | H : Some _ = Some _ |- _ => inversion H; subst; clear H
  end.

(** ** expire *)
Lemma expire_idle : forall st c, s_fs st = Idle -> expire st c = st.
Proof. intros st c H. unfold expire. rewrite H. reflexivity. Qed.

Lemma expire_spec : forall st c,
  Inv st ->
  let st' := expire st c in
  s_fs st' = Idle /\ s_bc st' = 0 /\ s_kv st' = s_kv st /\ ram_synced st' /\
  s_win st' = s_win st /\ s_key st' = s_key st /\ s_root st' = s_root st /\
  s_nkeys st' = s_nkeys st /\
  fget 0 (s_fabs st') = None /\
  match s_pase st' with PLive pf => s_fs st = Idle /\ s_pase st = PLive pf | _ => True end.
Proof.
  intros st c (H0 & Hk0 & Hp & Hfs). unfold expire.
  destruct (s_fs st) as [|f fl] eqn:Efs.
  - destruct Hfs as [Hs Hb]. cbn zeta. rewrite Efs.
    repeat split; auto; try apply Hs.
    destruct (s_pase st); auto.
  - destruct Hfs as [Hoth Hex]. cbn zeta.
    assert (Hp' : match remove_pase (s_pase st) (is_sp c) with PLive _ => False | _ => True end).
    { unfold remove_pase. destruct (is_sp c); destruct (s_pase st); auto. }
    destruct (f =? 0) eqn:E0.
    + apply N.eqb_eq in E0. subst f. unfold ram_synced, cfg_eq. sp.
      repeat split; auto.
      * intro i. destruct (N.eq_dec i 0) as [->|Hi]; [congruence|]. apply Hoth. exact Hi.
      * destruct (remove_pase (s_pase st) (is_sp c)); auto; contradiction.
    + apply N.eqb_neq in E0.
      assert (Hsync : cfg_eq (match fget f (k_fabs (s_kv st)) with
                              | Some kf => fset kf (fdel f (s_fabs st))
                              | None => fdel f (s_fabs st) end) (k_fabs (s_kv st))).
      { intro i. destruct (fget f (k_fabs (s_kv st))) as [kf|] eqn:Ek.
        - pose proof (fget_idx _ _ _ Ek) as Hidx. rewrite fget_fset. rewrite Hidx.
          destruct (f =? i) eqn:Ei.
          + apply N.eqb_eq in Ei. subst i. symmetry. exact Ek.
          + apply N.eqb_neq in Ei. rewrite fget_fdel. destruct (f =? i) eqn:Ei2.
            * apply N.eqb_eq in Ei2. congruence.
            * apply Hoth. congruence.
        - rewrite fget_fdel. destruct (f =? i) eqn:Ei.
          + apply N.eqb_eq in Ei. subst i. symmetry. exact Ek.
          + apply N.eqb_neq in Ei. apply Hoth. congruence. }
      unfold ram_synced. sp. repeat split; auto.
      * rewrite (Hsync 0). exact Hk0.
      * destruct (remove_pase (s_pase st) (is_sp c)); auto; contradiction.
Qed.

Lemma expire_inv : forall st c, Inv st -> Inv (expire st c).
Proof.
  intros st c HI. pose proof (expire_spec st c HI) as
    (Hfs & Hbc & Hkv & Hs & _ & _ & _ & _ & H0 & Hp). cbn zeta in *.
  destruct HI as (_ & Hk0 & Hpk & Hfs0).
  unfold Inv. rewrite Hfs, Hkv. repeat split; auto; try apply Hs.
  unfold pase_ok. rewrite Hfs. destruct (s_pase (expire st c)) as [|pf|pf]; auto.
  destruct Hp as [Hi Hpp]. unfold pase_ok in Hpk. rewrite Hpp, Hi in Hpk. exact Hpk.
Qed.

(** ** boot *)
Lemma boot_inv : forall kv a b c, fget 0 (k_fabs kv) = None -> Inv (boot kv a b c).
Proof.
  intros kv a b c H. unfold Inv, pase_ok, ram_synced, cfg_eq. sp.
  repeat split; auto.
Qed.

Lemma inv_kv0 : forall st, Inv st -> fget 0 (k_fabs (s_kv st)) = None.
Proof. intros st (_ & H & _). exact H. Qed.

(** helper: rebuild Inv after an operation that keeps fail-safe-irrelevant parts *)
Lemma inv_intro : forall st,
  fget 0 (s_fabs st) = None -> fget 0 (k_fabs (s_kv st)) = None -> pase_ok st ->
  match s_fs st with
  | Idle => ram_synced st /\ s_bc st = 0
  | Armed f fl =>
    (forall i, i <> f -> fget i (s_fabs st) = fget i (k_fabs (s_kv st))) /\
    (f <> 0 -> fget f (s_fabs st) <> None)
  end -> Inv st.
Proof. intros. unfold Inv. auto. Qed.
Ltac dm :=
  repeat match goal with
  | |- context [match ?x with _ => _ end] =>
      match x with
      | context [match _ with _ => _ end] => fail 1
      | _ => destruct x eqn:?
      end
  end.

Lemma sess_ctx_pase : forall st s n, sess_ctx st s = Some (n, true) -> s_pase st = PLive n /\ s = SP.
Proof.
  intros st s n H. destruct s; cbn in H.
  - destruct (s_pase st); inversion H; auto.
  - destruct (cget fab (s_case st)); inversion H.
Qed.

Lemma sess_ctx_case : forall st s n, sess_ctx st s = Some (n, false) -> s = SC n.
Proof.
  intros st s n H. destruct s; cbn in H.
  - destruct (s_pase st); inversion H.
  - destruct (cget fab (s_case st)); inversion H; auto.
Qed.

Lemma allowed_case : forall st n, allowed st n false = true -> fget n (s_fabs st) <> None.
Proof. intros st n H. unfold allowed in H. destruct (fget n (s_fabs st)); congruence. Qed.

(** the fabric a usable, authorised session speaks for is in the table (or is fabric 0 of a
    fresh PASE session) *)
Lemma ctx_fabric_present : forall st s n b,
  Inv st -> sess_ctx st s = Some (n, b) -> allowed st n b = true ->
  n <> 0 -> s_fs st = Idle -> fget n (s_fabs st) <> None.
Proof.
  intros st s n b (_ & _ & Hp & _) Hs Ha Hn Hi. destruct b.
  - apply sess_ctx_pase in Hs. destruct Hs as [Hs _]. unfold pase_ok in Hp. rewrite Hs, Hi in Hp. congruence.
  - apply allowed_case. exact Ha.
Qed.


Lemma with_armed_ok : forall st sfab f fl,
  with_armed st sfab = ArOk f fl -> s_fs st = Armed f fl /\ f = sfab.
Proof.
  intros st sfab f fl H. unfold with_armed in H. destruct (s_fs st) as [|g gl]; [discriminate|].
  destruct (g =? sfab) eqn:E; [|discriminate]. inversion H; subst. apply N.eqb_eq in E. auto.
Qed.

Lemma check_state_ok : forall cf fl sfab p pres abs a b,
  check_state cf fl sfab p pres abs a b = CsOk ->
  fl_contains fl pres = true /\ fl_intersects fl abs = false /\ (b && p = false).
Proof.
  intros cf fl sfab p pres abs a b H. unfold check_state in H.
  destruct (b && p); [discriminate|]. destruct (negb (cf =? sfab)); [discriminate|].
  destruct (fl_contains fl pres); cbn [negb] in H.
  - destruct (fl_intersects fl abs); [discriminate|auto].
  - destruct (a && negb (fl_add_csr fl || fl_upd_csr fl)); discriminate.
Qed.

Lemma add_noc_union : forall fl x, fl_add_noc fl = true -> fl_add_noc (fl_union fl x) = true.
Proof. intros fl x H. unfold fl_union. cbn [fl_add_noc]. rewrite H. reflexivity. Qed.

Lemma pase_ok_flags : forall st f fl fl',
  s_fs st = Armed f fl -> pase_ok st ->
  (fl_add_noc fl = true -> fl_add_noc fl' = true) ->
  match s_pase st with
  | PLive pf => pf = 0 \/ (pf = f /\ fl_add_noc fl' = true)
  | _ => True
  end.
Proof.
  intros st f fl fl' Hf Hp Hm. unfold pase_ok in Hp. rewrite Hf in Hp.
  destruct (s_pase st); auto. destruct Hp as [Hp|[Hp Hq]]; auto.
Qed.

Lemma step_inv_arm : forall st s t bc, Inv st -> Inv (fst (step st (OArm s t bc))).
Proof.
  intros st s t bc HI. unfold step. dm; cbn [fst]; try assumption.
  all: try (apply expire_inv; assumption).
  - apply negb_false_iff in Heqb0.
    pose proof (fun H => ctx_fabric_present _ _ _ _ HI Heqo Heqb0 H Heqf) as Hpres.
    destruct HI as (H0 & Hk0 & Hp & Hfs). rewrite Heqf in Hfs. destruct Hfs as [[Hs Hn] Hb].
    apply inv_intro; sp; auto.
    unfold pase_ok in *. sp. rewrite Heqf in Hp. destruct (s_pase st); auto.
  - destruct HI as (H0 & Hk0 & Hp & Hfs). apply inv_intro; sp; auto.
    rewrite Heqf in *. exact Hfs.
Qed.

Lemma step_inv_csr : forall st s u, Inv st -> Inv (fst (step st (OCsr s u))).
Proof.
  intros st s u HI. unfold step. dm; cbn [fst]; try assumption.
  all: apply with_armed_ok in Heqa; destruct Heqa as [Hf ->].
  all: destruct HI as (H0 & Hk0 & Hp & Hfs); rewrite Hf in Hfs.
  all: apply inv_intro; sp; auto.
  all: unfold pase_ok; sp; apply (pase_ok_flags st n fl); auto; apply add_noc_union.
Qed.

Lemma step_inv_root : forall st s r, Inv st -> Inv (fst (step st (ORoot s r))).
Proof.
  intros st s r HI. unfold step. dm; cbn [fst]; try assumption.
  apply with_armed_ok in Heqa. destruct Heqa as [Hf ->].
  destruct HI as (H0 & Hk0 & Hp & Hfs). rewrite Hf in Hfs.
  apply inv_intro; sp; auto.
  unfold pase_ok. sp. apply (pase_ok_flags st n fl); auto. apply add_noc_union.
Qed.

Lemma addnoc_absent : forall fl,
  fl_intersects fl (fl_union FL_ADD_NOC (fl_union FL_UPD_CSR FL_UPD_NOC)) = false ->
  fl_add_noc fl = false.
Proof.
  intros [a b c d e] H. unfold fl_intersects in H. cbn in H. cbn.
  destruct d; auto. rewrite !orb_true_r in H. cbn in H. destruct a, b, c; cbn in H; congruence.
Qed.

Lemma step_inv_addnoc : forall st s nid,
  Inv st -> orphaning st (OAddNoc s nid) = false -> Inv (fst (step st (OAddNoc s nid))).
Proof.
  intros st s nid HI Hor. unfold step. dm; cbn [fst]; try assumption.
  all: apply with_armed_ok in Heqa; destruct Heqa as [Hf ->].
  all: apply check_state_ok in Heqc; destruct Heqc as (_ & Habs & _); apply addnoc_absent in Habs.
  all: apply next_idx_spec in Heqo0; destruct Heqo0 as [Hnone Hnz].
  all: destruct HI as (H0 & Hk0 & Hp & Hfs); rewrite Hf in Hfs; destruct Hfs as [Hoth Hex].
  - (* PASE session on fabric 0: upgraded *)
    apply N.eqb_eq in Heqb4. subst n.
    apply inv_intro; sp; auto.
    + rewrite fget_fset_other; auto.
    + unfold pase_ok. sp. right. split; auto. unfold fl_union. cbn. apply orb_true_r.
    + split.
      * intros i Hi. rewrite fget_fset_other by (cbn; congruence).
        destruct (N.eq_dec i 0) as [->|Hi0]; [congruence|]. apply Hoth. exact Hi0.
      * intros _. rewrite (fget_fset (mkFabric n0 (s_root st) nid (s_key st) [ADMIN] 0 VENDOR)). cbn [f_idx].
        rewrite N.eqb_refl. discriminate.
  - (* PASE session already upgraded: impossible, AddNOC of this period would be flagged *)
    exfalso. apply N.eqb_neq in Heqb4. apply sess_ctx_pase in Heqo. destruct Heqo as [Hps _].
    unfold pase_ok in Hp. rewrite Hps, Hf in Hp. destruct Hp as [Hp|[_ Hp]]; congruence.
  - (* CASE session: the context moves to the new fabric *)
    apply sess_ctx_case in Heqo. subst s. cbn [orphaning] in Hor.
    apply negb_false_iff in Hor. apply ofabric_eqb_eq in Hor.
    apply inv_intro; sp; auto.
    + rewrite fget_fset_other; auto.
    + unfold pase_ok in *. sp. rewrite Hf in Hp. destruct (s_pase st); auto.
      destruct Hp as [Hp|[_ Hp]]; auto. congruence.
    + split.
      * intros i Hi. rewrite fget_fset_other by (cbn; congruence).
        destruct (N.eq_dec i n) as [->|Hin]; [exact Hor|]. apply Hoth. exact Hin.
      * intros _. rewrite (fget_fset (mkFabric n0 (s_root st) nid (s_key st) [ADMIN] 0 VENDOR)). cbn [f_idx].
        rewrite N.eqb_refl. discriminate.
Qed.

Lemma step_inv_updnoc : forall st s nid, Inv st -> Inv (fst (step st (OUpdNoc s nid))).
Proof.
  intros st s nid HI. unfold step. dm; cbn [fst]; try assumption.
  apply with_armed_ok in Heqa. destruct Heqa as [Hf ->].
  destruct HI as (H0 & Hk0 & Hp & Hfs). rewrite Hf in Hfs. destruct Hfs as [Hoth Hex].
  apply N.eqb_neq in Heqb0. pose proof (fget_idx _ _ _ Heqo0) as Hidx.
  apply inv_intro; sp; auto.
  - rewrite fget_fset_other; auto. cbn [f_idx]. congruence.
  - unfold pase_ok; sp. apply (pase_ok_flags st n fl); auto. apply add_noc_union.
  - split.
    + intros i Hi. rewrite fget_fset_other; auto. cbn [f_idx]. congruence.
    + intros _. rewrite fget_fset. cbn [f_idx]. rewrite Hidx, N.eqb_refl. discriminate.
Qed.

Ltac fin0 Hf :=
  match goal with
  | |- fget 0 (fset _ _) = None =>
      rewrite fget_fset_other by (cbn [f_idx]; congruence); assumption
  | |- fget 0 (k_fabs (kv_apply _ _)) = None =>
      unfold kv_apply; sp; rewrite fget_fset_other by (cbn [f_idx]; congruence); assumption
  | |- pase_ok _ => unfold pase_ok in *; sp; rewrite Hf in *; assumption
  end.

Lemma step_inv_aclw : forall st s k, Inv st -> Inv (fst (step st (OAclW s k false))).
Proof.
  intros st s k HI. unfold step. dm; cbn [fst]; try assumption.
  all: destruct HI as (H0 & Hk0 & Hp & Hfs).
  all: apply N.eqb_neq in Heqb0; pose proof (fget_idx _ _ _ Heqo0) as Hidx.
  - (* no fail-safe: stored at once *)
    pose proof Hfs as Hfs'. rewrite Heqf0 in Hfs'. destruct Hfs' as [[Hs Hn] Hb].
    apply inv_intro; sp; try assumption; try fin0 Heqf0.
    rewrite Heqf0. unfold kv_apply, ram_synced, cfg_eq, load_nets in *. sp. repeat split; auto.
    intros i. rewrite !fget_fset. cbn [f_idx]. destruct (f_idx f =? i); auto.
  - (* armed for this fabric: staged in RAM only *)
    apply N.eqb_eq in Heqb2. subst fab. pose proof Hfs as Hfs'. rewrite Heqf0 in Hfs'.
    destruct Hfs' as [Hoth Hex].
    apply inv_intro; sp; try assumption; try fin0 Heqf0.
    rewrite Heqf0. split.
    + intros i Hi. rewrite fget_fset_other; auto. cbn [f_idx]. congruence.
    + intros _. rewrite fget_fset. cbn [f_idx]. rewrite Hidx, N.eqb_refl. discriminate.
  - (* armed for another fabric: stored at once *)
    apply N.eqb_neq in Heqb2. pose proof Hfs as Hfs'. rewrite Heqf0 in Hfs'.
    destruct Hfs' as [Hoth Hex].
    apply inv_intro; sp; try assumption; try fin0 Heqf0.
    rewrite Heqf0. unfold kv_apply. sp. split.
    + intros i Hi. rewrite !fget_fset. cbn [f_idx]. destruct (f_idx f =? i); auto.
    + intros Hn0. rewrite fget_fset_other; auto. cbn [f_idx]. congruence.
Qed.

(** a write of one fabric's record: staged in RAM while the fail-safe is armed for that fabric ... *)
Lemma inv_stage : forall st sfab fl fb nf,
  Inv st -> s_fs st = Armed sfab fl -> sfab <> 0 ->
  fget sfab (s_fabs st) = Some fb -> f_idx nf = sfab ->
  Inv (set_fabs st (fset nf (s_fabs st))).
Proof.
  intros st sfab fl fb nf (H0 & Hk0 & Hp & Hfs) Hf Hnz Hg Hidx.
  pose proof Hfs as Hfs'. rewrite Hf in Hfs'. destruct Hfs' as [Hoth Hex].
  apply inv_intro; sp; try assumption.
  all: try (rewrite fget_fset_other by congruence; assumption).
  all: try (unfold pase_ok in *; sp; exact Hp).
  rewrite Hf. split.
  - intros i Hi. rewrite fget_fset_other by congruence. apply Hoth. exact Hi.
  - intros _. rewrite fget_fset. rewrite Hidx, N.eqb_refl. discriminate.
Qed.

(** ... or written to RAM and to the store in the same step *)
Lemma inv_store_both : forall st sfab fb nf,
  Inv st -> sfab <> 0 -> fget sfab (s_fabs st) = Some fb -> f_idx nf = sfab ->
  Inv (set_kv (set_fabs st (fset nf (s_fabs st))) (kv_apply (s_kv st) (KStoreFab nf))).
Proof.
  intros st sfab fb nf (H0 & Hk0 & Hp & Hfs) Hnz Hg Hidx.
  apply inv_intro; unfold kv_apply; sp.
  all: try (rewrite fget_fset_other by congruence; assumption).
  all: try (unfold pase_ok in *; sp; exact Hp).
  destruct (s_fs st) as [|f fl] eqn:Ef.
  - destruct Hfs as [[Hs Hn] Hb]. unfold ram_synced, cfg_eq, load_nets in *. sp.
    repeat split; auto. intro i. rewrite !fget_fset. destruct (f_idx nf =? i); auto.
  - destruct Hfs as [Hoth Hex]. split.
    + intros i Hi. rewrite !fget_fset. destruct (f_idx nf =? i); auto.
    + intros Hn0. rewrite fget_fset. destruct (f_idx nf =? f) eqn:E; [discriminate|]. auto.
Qed.

Lemma step_inv_label : forall st s l, Inv st -> Inv (fst (step st (OLabel s l false))).
Proof.
  intros st s l HI. unfold step. dm; cbn [fst]; try assumption.
  all: apply N.eqb_neq in Heqb0; pose proof (fget_idx _ _ _ Heqo0) as Hidx.
  - eapply inv_store_both; eauto.
  - apply N.eqb_eq in Heqb3. subst fab. eapply inv_stage; eauto.
  - eapply inv_store_both; eauto.
Qed.

Lemma step_inv_vid : forall st s v, Inv st -> Inv (fst (step st (OVid s v false))).
Proof.
  intros st s v HI. unfold step. dm; cbn [fst]; try assumption.
  all: apply N.eqb_neq in Heqb0; pose proof (fget_idx _ _ _ Heqo0) as Hidx.
  - eapply inv_store_both; eauto.
  - apply andb_true_iff in Heqb2. destruct Heqb2 as [Hb _]. apply N.eqb_eq in Hb. subst fab.
    eapply inv_stage; eauto.
  - eapply inv_store_both; eauto.
Qed.

Lemma step_inv_net : forall st o,
  (exists s k bc, o = ONetAdd s k bc) \/ (exists s k, o = ONetDel s k) ->
  Inv st -> Inv (fst (step st o)).
Proof.
  intros st o Ho HI. destruct Ho as [(s & k & bc & ->)|(s & k & ->)]; unfold step.
  all: dm; cbn [fst]; try assumption.
  all: apply with_armed_ok in Heqa; destruct Heqa as [Hf ->].
  all: destruct HI as (H0 & Hk0 & Hp & Hfs).
  all: apply inv_intro; sp; auto.
  all: try (unfold pase_ok in *; sp; rewrite Hf in *; exact Hp).
  all: rewrite Hf in *; exact Hfs.
Qed.

(** ** CommissioningComplete *)
Lemma complete_body_cases : forall st sfab p fault st' r l,
  complete_body st sfab p fault = (st', r, l) ->
  (st' = st /\ r <> StOk /\ l = []) \/
  (exists fl fb, s_fs st = Armed sfab fl /\ p = false /\ fget sfab (s_fabs st) = Some fb /\
     ((fault = 2 /\ r = StFail /\ l = [KStoreFab fb] /\
       st' = set_kv st (kv_apply (s_kv st) (KStoreFab fb))) \/
      (fault <> 1 /\ fault <> 2 /\ r = StOk /\
       l = [KStoreFab fb; KStoreNet (mkNets true (n_ids (s_nets st)))] /\
       st' = mkState Idle 0 false PAbsent (s_fabs st) (mkNets true (n_ids (s_nets st)))
                     (kv_apply (kv_apply (s_kv st) (KStoreFab fb))
                               (KStoreNet (mkNets true (n_ids (s_nets st)))))
                     (s_key st) (s_root st) (s_nkeys st) (s_case st)))).
Proof.
  intros st sfab p fault st' r l H. unfold complete_body in H.
  destruct (with_armed st sfab) as [f fl| |] eqn:Ea; try (inversion H; subst; left; repeat split; congruence).
  apply with_armed_ok in Ea. destruct Ea as [Hf ->].
  destruct p; try (inversion H; subst; left; repeat split; congruence).
  destruct (fget sfab (s_fabs st)) as [fb|] eqn:Eg; try (inversion H; subst; left; repeat split; congruence).
  destruct (fault =? 1) eqn:E1; try (inversion H; subst; left; repeat split; congruence).
  apply N.eqb_neq in E1.
  destruct (fault =? 2) eqn:E2.
  - apply N.eqb_eq in E2. inversion H; subst. right. exists fl, fb. repeat split; auto.
  - apply N.eqb_neq in E2. inversion H; subst. right. exists fl, fb. repeat split; auto.
    right. repeat split; auto.
Qed.

Lemma inv_after_fabric_store : forall st sfab fl fb,
  Inv st -> s_fs st = Armed sfab fl -> sfab <> 0 -> fget sfab (s_fabs st) = Some fb ->
  Inv (set_kv st (kv_apply (s_kv st) (KStoreFab fb))).
Proof.
  intros st sfab fl fb (H0 & Hk0 & Hp & Hfs) Hf Hnz Hg. pose proof (fget_idx _ _ _ Hg) as Hidx.
  pose proof Hfs as Hfs'. rewrite Hf in Hfs'. destruct Hfs' as [Hoth Hex].
  apply inv_intro; sp; try assumption.
  all: try (unfold kv_apply; sp; rewrite fget_fset_other by congruence; assumption).
  all: try (unfold pase_ok in *; sp; exact Hp).
  rewrite Hf. unfold kv_apply; sp. split; auto.
  intros i Hi. rewrite fget_fset_other by congruence. apply Hoth. exact Hi.
Qed.

Lemma inv_after_commit : forall st sfab fl fb,
  Inv st -> s_fs st = Armed sfab fl -> sfab <> 0 -> fget sfab (s_fabs st) = Some fb ->
  let n := mkNets true (n_ids (s_nets st)) in
  let st' := mkState Idle 0 false PAbsent (s_fabs st) n
                     (kv_apply (kv_apply (s_kv st) (KStoreFab fb)) (KStoreNet n))
                     (s_key st) (s_root st) (s_nkeys st) (s_case st) in
  Inv st' /\ ram_synced st'.
Proof.
  intros st sfab fl fb (H0 & Hk0 & Hp & Hfs) Hf Hnz Hg n st'. pose proof (fget_idx _ _ _ Hg) as Hidx.
  rewrite Hf in Hfs. destruct Hfs as [Hoth Hex].
  assert (Hs : ram_synced st').
  { unfold ram_synced, cfg_eq, st', kv_apply, load_nets. sp. split; auto.
    intros i. rewrite fget_fset. rewrite Hidx. destruct (sfab =? i) eqn:E.
    - apply N.eqb_eq in E. subst i. exact Hg.
    - apply N.eqb_neq in E. apply Hoth. congruence. }
  split; auto. apply inv_intro; unfold st'; sp; auto.
  all: try (unfold kv_apply; sp; rewrite fget_fset_other by congruence; assumption).
  all: try (unfold pase_ok; sp; exact I).
Qed.

Lemma step_inv_complete : forall st s fault, Inv st -> Inv (fst (step st (OComplete s fault))).
Proof.
  intros st s fault HI. unfold step.
  destruct (sess_ctx st s) as [[sfab p]|]; cbn [fst]; try assumption.
  destruct (sfab =? 0) eqn:E0; cbn [fst]; try assumption. apply N.eqb_neq in E0.
  destruct (negb (allowed st sfab p)); cbn [fst]; try assumption.
  destruct (complete_body st sfab p fault) as [[st' r] l] eqn:Ec. cbn [fst].
  apply complete_body_cases in Ec.
  destruct Ec as [(-> & _)|(fl & fb & Hf & -> & Hg & [(_ & _ & _ & ->)|(_ & _ & _ & _ & ->)])]; auto.
  - eapply inv_after_fabric_store; eauto.
  - eapply inv_after_commit; eauto.
Qed.

Lemma kv_replay_fabs0 : forall kv sfab fb l n,
  fget 0 (k_fabs kv) = None -> sfab <> 0 -> f_idx fb = sfab ->
  fget 0 (k_fabs (kv_replay kv (firstn n [KStoreFab fb; KStoreNet l]))) = None.
Proof.
  intros kv sfab fb l n H0 Hnz Hidx.
  destruct n as [|[|n]]; cbn [firstn kv_replay fold_left kv_apply k_fabs]; auto.
  - rewrite fget_fset_other by congruence. exact H0.
  - destruct n; cbn [firstn kv_replay fold_left kv_apply k_fabs];
      rewrite fget_fset_other by congruence; exact H0.
Qed.

Lemma step_inv_cut : forall st s j, Inv st -> Inv (fst (step st (OCompleteCut s j))).
Proof.
  intros st s j HI. pose proof (inv_kv0 _ HI) as Hk0. unfold step.
  destruct (sess_ctx st s) as [[sfab p]|]; cbn [fst]; [|apply boot_inv; exact Hk0].
  apply boot_inv.
  destruct (sfab =? 0) eqn:E0; [destruct (N.to_nat _); exact Hk0|]. apply N.eqb_neq in E0.
  destruct (negb (allowed st sfab p)); [destruct (N.to_nat _); exact Hk0|].
  destruct (complete_body st sfab p 0) as [[st' r] l] eqn:Ec.
  apply complete_body_cases in Ec.
  destruct Ec as [(_ & _ & ->)|(fl & fb & Hf & -> & Hg & [(Hc & _)|(_ & _ & _ & -> & _)])].
  - destruct (N.to_nat _); exact Hk0.
  - discriminate.
  - eapply kv_replay_fabs0; eauto. eapply fget_idx; eauto.
Qed.

Lemma step_inv_misc : forall st, Inv st ->
  Inv (fst (step st OTimeout)) /\ Inv (fst (step st ORestart)) /\ Inv (fst (step st ONewPase)) /\
  (forall s, Inv (fst (step st (ORevoke s)))) /\ (forall f, Inv (fst (step st (ONewCase f)))).
Proof.
  intros st HI. split; [|split; [|split; [|split]]].
  - unfold step. cbn [fst]. apply expire_inv. exact HI.
  - unfold step; cbn [fst]. apply boot_inv. apply inv_kv0. exact HI.
  - unfold step; cbn [fst]. destruct HI as (H0 & Hk0 & Hp & Hfs). apply inv_intro; sp; auto.
    unfold pase_ok; sp. destruct (s_fs st); auto.
  - intros s. unfold step. dm; cbn [fst]; auto.
    pose proof (expire_inv st (Some s) HI) as (H0 & Hk0 & Hp & Hfs).
    apply inv_intro; sp; auto.
  - intros f. unfold step; cbn [fst]. destruct HI as (H0 & Hk0 & Hp & Hfs). apply inv_intro; sp; auto.
Qed.

Theorem step_inv : forall st o,
  Inv st -> good_op o -> orphaning st o = false -> Inv (fst (step st o)).
Proof.
  intros st o HI Hg Ho. destruct o.
  - apply step_inv_arm; auto.
  - apply step_inv_csr; auto.
  - apply step_inv_root; auto.
  - apply step_inv_addnoc; auto.
  - apply step_inv_updnoc; auto.
  - cbn in Hg. subst fail. apply step_inv_aclw; auto.
  - cbn in Hg. subst fail. apply step_inv_label; auto.
  - cbn in Hg. subst fail. apply step_inv_vid; auto.
  - apply step_inv_net; eauto.
  - apply step_inv_net; eauto.
  - apply step_inv_complete; auto.
  - apply step_inv_cut; auto.
  - apply step_inv_misc; auto.
  - apply step_inv_misc; auto.
  - apply step_inv_misc; auto.
  - apply step_inv_misc; auto.
  - apply step_inv_misc; auto.
Qed.

Lemma init_inv : forall w n f p, Inv (init_state w n f p).
Proof.
  intros w n f p. unfold init_state.
  destruct (f =? 2), n, p; unfold Inv, pase_ok, ram_synced, cfg_eq, load_nets; cbn; repeat split; auto.
Qed.

Lemma run_inv : forall ops st, Inv st -> safe_run st ops -> Inv (exec st ops).
Proof.
  induction ops as [|o r IH]; intros st HI Hs; unfold exec; cbn [run fst].
  - exact HI.
  - destruct Hs as (Hg & Ho & Hr).
    destruct (step st o) as [st1 r1] eqn:E1. destruct (run st1 r) as [st2 tr] eqn:E2. cbn [fst].
    specialize (IH st1). unfold exec in IH. rewrite E2 in IH. cbn [fst] in IH. apply IH.
    + pose proof (step_inv st o HI Hg Ho) as H. rewrite E1 in H. exact H.
    + exact Hr.
Qed.
