(** Property-level consequences of the MRP model. *)
From RsM Require Import Lib.MachInt Model.Dedup Model.Mrp Proofs.DedupFacts
  Proofs.DedupTheorems Proofs.MrpSys.
From Coq Require Import ZifyN ZifyBool Sorted.
Open Scope N_scope.

Arguments N.ltb : simpl never.
Arguments N.eqb : simpl never.
Arguments N.add : simpl never.
Arguments N.mul : simpl never.
Arguments N.div : simpl never.

Ltac Zify.zify_post_hook ::= Z.div_mod_to_equations.

(** ** delivery: at most once, in sending order *)

Lemma sorted_lt_nodup (l : list N) : StronglySorted N.lt l -> NoDup l.
Proof.
  induction 1 as [|a t Hs IH Hall]; constructor; [|exact IH].
  intro Hin. rewrite Forall_forall in Hall. specialize (Hall _ Hin). lia.
Qed.

Theorem delivered_in_order c0 ops :
  StronglySorted N.lt (b_delivered (run_sys (sys_init c0) ops)).
Proof. apply inv_sorted, inv_reachable. Qed.

Theorem delivered_at_most_once c0 ops :
  NoDup (b_delivered (run_sys (sys_init c0) ops)).
Proof. apply sorted_lt_nodup, delivered_in_order. Qed.

(** ** a successful send means the peer's stack took the message -- or
    acknowledged it as a duplicate although it never delivered it *)

Theorem ok_implies_received_or_overtaken c0 ops c :
  let s := run_sys (sys_init c0) ops in
  In (c, true) (a_results s) -> In c (b_delivered s) \/ In c (b_overtaken s).
Proof. intros s. apply inv_ok, inv_reachable. Qed.

Theorem overtaken_is_rejected_undelivered c0 ops c :
  let s := run_sys (sys_init c0) ops in
  In c (b_overtaken s) -> Seen (b_win s) c /\ ~ In c (b_delivered s).
Proof. intros s. apply inv_over_seen, inv_reachable. Qed.

Lemma forallb_false_ex {A} (f : A -> bool) (l : list A) :
  forallb f l = false -> exists x, In x l /\ f x = false.
Proof.
  induction l as [|a t IH]; cbn [forallb]; [discriminate|].
  destruct (f a) eqn:Ea; cbn [andb].
  - intros H. destruct (IH H) as [x [Hx Hfx]]. exists x. split; [right; exact Hx|exact Hfx].
  - intros _. exists a. split; [left; reflexivity|exact Ea].
Qed.

(** the receive window rejects a value it never accepted only when a value
    more than 16 ahead was accepted before (pure window fact, from C04) *)
Theorem reject_fresh_means_overtaken (h : list N) (v : N) :
  snd (post_recv (final true false rx_unsynced h) v true false) = false ->
  ~ In v (accepted true false rx_unsynced h) ->
  exists a, In a (accepted true false rx_unsynced h) /\ v + 16 < a.
Proof.
  intros Hrej Hnin.
  destruct (forallb (fun a => a <=? v + 16) (accepted true false rx_unsynced h)) eqn:E.
  - exfalso.
    assert (Ha : snd (post_recv (final true false rx_unsynced h) v true false) = true).
    { apply accept_iff. split; [exact Hnin|]. intros a Hin.
      rewrite forallb_forall in E. specialize (E _ Hin). lia. }
    congruence.
  - apply forallb_false_ex in E as [a [Hin Ha]]. exists a. split; [exact Hin|lia].
Qed.

(** ** the sender never reports success without an acknowledgement, gives up
    after the retransmission budget, and never waits without a deadline *)

Theorem pending_bounded c0 ops c k :
  let s := run_sys (sys_init c0) ops in
  a_retr s = Some (c, k) -> k <= 5 /\ a_tx s = k + 1 /\ a_tx s <= 6.
Proof.
  intros s Hr. destruct (inv_retr s (inv_reachable c0 ops) _ _ Hr) as (_ & Hk & Htx & _).
  unfold MRP_MAX_TRANSMISSIONS in Hk. lia.
Qed.

Definition timers (n : nat) (s : sys) : sys := fold_left step (repeat ATimer n) s.

Lemma timer_retransmits s c k :
  a_retr s = Some (c, k) -> k < 5 ->
  a_retr (step s ATimer) = Some (c, k + 1) /\ In (c, Main) (ab (step s ATimer)) /\
  a_results (step s ATimer) = a_results s.
Proof.
  intros Hr Hk. cbn [step]. rewrite Hr.
  assert (E : (k <? MRP_MAX_TRANSMISSIONS) = true) by (unfold MRP_MAX_TRANSMISSIONS; lia).
  rewrite E. cbn. repeat split. apply in_or_app. right. left. reflexivity.
Qed.

Lemma timer_gives_up s c k :
  a_retr s = Some (c, k) -> 5 <= k ->
  a_retr (step s ATimer) = None /\ a_results (step s ATimer) = a_results s ++ [(c, false)] /\
  a_dead (step s ATimer) = true.
Proof.
  intros Hr Hk. cbn [step]. rewrite Hr.
  assert (E : (k <? MRP_MAX_TRANSMISSIONS) = false) by (unfold MRP_MAX_TRANSMISSIONS; lia).
  rewrite E. cbn. repeat split.
Qed.

(** with no acknowledgement arriving, [6 - k] timer expiries end the send
    with TxTimeout: the call never hangs and never reports success *)
Theorem gives_up_without_ack (n : nat) : forall s c k,
  a_retr s = Some (c, k) -> k <= 5 -> n = N.to_nat (6 - k) ->
  a_retr (timers n s) = None /\
  a_results (timers n s) = a_results s ++ [(c, false)].
Proof.
  induction n as [|n IH]; intros s c k Hr Hk Hn; [lia|].
  unfold timers. cbn [repeat fold_left]. fold (timers n (step s ATimer)).
  destruct (N.eq_dec k 5) as [->|Hne].
  - assert (n = O) by lia. subst n. cbn [timers repeat fold_left].
    destruct (timer_gives_up s c 5 Hr) as (H1 & H2 & _); [lia|]. split; assumption.
  - destruct (timer_retransmits s c k Hr) as (H1 & _ & H3); [lia|].
    destruct (IH (step s ATimer) c (k + 1) H1) as [G1 G2]; [lia|lia|].
    split; [exact G1|]. rewrite G2, H3. reflexivity.
Qed.

(** ** if one transmission and one acknowledgement get through, the call succeeds *)

Theorem main_delivery_is_acked s i c :
  nth_error (ab s) i = Some (c, Main) -> In (c, Main) (ba (step s (Deliver i))).
Proof.
  intros Hn. cbn [step]. rewrite Hn. unfold b_receive. simp_sys.
  destruct (post_recv (b_win s) c true false) as [w' acc].
  destruct acc; simp_sys; apply in_or_app; right; left; reflexivity.
Qed.

Theorem ack_completes_send s j c k :
  a_retr s = Some (c, k) -> nth_error (ba s) j = Some (c, Main) ->
  a_retr (step s (DeliverAck j)) = None /\
  a_results (step s (DeliverAck j)) = a_results s ++ [(c, true)].
Proof.
  intros Hr Hn. cbn [step]. rewrite Hn. unfold a_receive_ack. simp_sys. rewrite Hr.
  rewrite N.eqb_refl. simp_sys. split; reflexivity.
Qed.

(** a mismatching acknowledgement changes nothing *)
Theorem stale_ack_ignored s j c k c' :
  a_retr s = Some (c, k) -> nth_error (ba s) j = Some (c', Main) -> c <> c' ->
  a_retr (step s (DeliverAck j)) = Some (c, k) /\
  a_results (step s (DeliverAck j)) = a_results s.
Proof.
  intros Hr Hn Hne. cbn [step]. rewrite Hn. unfold a_receive_ack. simp_sys. rewrite Hr.
  assert (E : (c =? c') = false) by lia. rewrite E. simp_sys. split; reflexivity.
Qed.

(** ** back-off arithmetic *)

Lemma iter_grow (n : nat) (d : N) :
  d <= iter_n n (fun d => d * 16 / 10) d.
Proof.
  revert d. induction n as [|n IH]; intros d; cbn [iter_n]; [lia|].
  specialize (IH (d * 16 / 10)). lia.
Qed.

Lemma iter_mono_arg (n : nat) (d d' : N) :
  d <= d' -> iter_n n (fun d => d * 16 / 10) d <= iter_n n (fun d => d * 16 / 10) d'.
Proof.
  revert d d'. induction n as [|n IH]; intros d d' H; cbn [iter_n]; [exact H|].
  apply IH. lia.
Qed.

Lemma iter_succ (n : nat) (d : N) :
  iter_n (S n) (fun d => d * 16 / 10) d =
  (iter_n n (fun d => d * 16 / 10) d) * 16 / 10.
Proof.
  revert d. induction n as [|n IH]; intros d; [reflexivity|].
  cbn [iter_n] in *. rewrite IH. reflexivity.
Qed.

Definition with_jitter (d j : N) : N := d + d * j * 25 / (255 * 100).

Lemma with_jitter_mono d d' j j' : d <= d' -> j <= j' -> with_jitter d j <= with_jitter d' j'.
Proof.
  intros Hd Hj. unfold with_jitter.
  assert (d * j * 25 <= d' * j' * 25) by nia.
  assert (d * j * 25 / (255 * 100) <= d' * j' * 25 / (255 * 100)).
  { apply N.div_le_mono; lia. }
  lia.
Qed.

(** never earlier than the margin-corrected base interval *)
Theorem backoff_ge_base base k j : base * 11 / 10 <= backoff_ms base k j.
Proof.
  unfold backoff_ms.
  pose proof (iter_grow (N.to_nat (k - 1)) (base * 11 / 10)) as H.
  set (d := iter_n _ _ _) in *. lia.
Qed.

(** the gap grows with the retransmission count *)
Theorem backoff_mono_counter base k j : backoff_ms base k j <= backoff_ms base (k + 1) j.
Proof.
  unfold backoff_ms. fold (with_jitter (iter_n (N.to_nat (k - 1)) (fun d => d * 16 / 10) (base * 11 / 10)) j).
  fold (with_jitter (iter_n (N.to_nat (k + 1 - 1)) (fun d => d * 16 / 10) (base * 11 / 10)) j).
  apply with_jitter_mono; [|lia].
  destruct (N.eq_dec k 0) as [->|Hk].
  { change (N.to_nat (0 - 1)) with O. change (N.to_nat (0 + 1 - 1)) with O. cbn [iter_n]. lia. }
  replace (N.to_nat (k + 1 - 1)) with (S (N.to_nat (k - 1))) by lia.
  rewrite iter_succ.
  set (d := iter_n _ _ _). lia.
Qed.

(** jitter only ever lengthens the wait: the jitter-free value is the
    protocol's minimum back-off *)
Theorem backoff_ge_jitter_free base k j : backoff_ms base k 0 <= backoff_ms base k j.
Proof.
  unfold backoff_ms.
  fold (with_jitter (iter_n (N.to_nat (k - 1)) (fun d => d * 16 / 10) (base * 11 / 10)) 0).
  fold (with_jitter (iter_n (N.to_nat (k - 1)) (fun d => d * 16 / 10) (base * 11 / 10)) j).
  apply with_jitter_mono; lia.
Qed.

Theorem backoff_mono_base base base' k j :
  base <= base' -> backoff_ms base k j <= backoff_ms base' k j.
Proof.
  intros H. unfold backoff_ms.
  fold (with_jitter (iter_n (N.to_nat (k - 1)) (fun d => d * 16 / 10) (base * 11 / 10)) j).
  fold (with_jitter (iter_n (N.to_nat (k - 1)) (fun d => d * 16 / 10) (base' * 11 / 10)) j).
  apply with_jitter_mono; [|lia]. apply iter_mono_arg. lia.
Qed.

(** ** the per-exchange state machine (component level) *)

Theorem rm_retransmission_budget s c sai r :
  rm_retr s = Some r -> r_ctr r = c ->
  (r_count r < 5 ->
     exists p, rm_pre_send s c true sai =
       (mkRm (Some (mkRetrans (r_base r) c (r_count r + 1)))
             (match rm_ack s with Some a => Some (mkAck (a_ctr a) true) | None => None end) false, Ok p)) /\
  (5 <= r_count r ->
     rm_pre_send s c true sai = (mkRm None None (rm_received s), Err ERR_TX_TIMEOUT)).
Proof.
  intros Hr Hc. unfold rm_pre_send. rewrite Hr. subst c. rewrite N.eqb_refl.
  unfold MRP_MAX_TRANSMISSIONS. split; intros Hk.
  - assert (E : (r_count r <? 5) = true) by lia. rewrite E.
    destruct (rm_ack s) as [a|]; eexists; reflexivity.
  - assert (E : (r_count r <? 5) = false) by lia. rewrite E.
    destruct (rm_ack s) as [a|]; reflexivity.
Qed.

(** only a matching acknowledgement clears the pending retransmission;
    a mismatching one is refused as a duplicate and changes nothing *)
Theorem rm_ack_matching s r rx_ctr k reliable :
  rm_retr s = Some r ->
  (r_ctr r = k -> rm_retr (fst (rm_post_recv s rx_ctr (Some k) reliable)) = None /\
                  snd (rm_post_recv s rx_ctr (Some k) reliable) = Ok tt) /\
  (r_ctr r <> k -> rm_post_recv s rx_ctr (Some k) reliable = (s, Err ERR_DUPLICATE)).
Proof.
  intros Hr. unfold rm_post_recv. rewrite Hr. split; intros Hk.
  - assert (E : (r_ctr r =? k) = true) by lia. rewrite E.
    destruct reliable; cbn; split; reflexivity.
  - assert (E : (r_ctr r =? k) = false) by lia. rewrite E. reflexivity.
Qed.

Theorem rm_no_ack_keeps_retrans s rx_ctr reliable :
  rm_retr (fst (rm_post_recv s rx_ctr None reliable)) = rm_retr s.
Proof. unfold rm_post_recv. destruct reliable; reflexivity. Qed.

(** a reliable message received leaves an acknowledgement pending for its counter *)
Theorem rm_reliable_leaves_ack s rx_ctr rx_ack :
  snd (rm_post_recv s rx_ctr rx_ack true) = Ok tt ->
  rm_ack (fst (rm_post_recv s rx_ctr rx_ack true)) = Some (mkAck rx_ctr false).
Proof.
  unfold rm_post_recv.
  destruct rx_ack as [k|]; [destruct (rm_retr s) as [r|]|]; cbn.
  - destruct (r_ctr r =? k); cbn; [reflexivity|discriminate].
  - reflexivity.
  - reflexivity.
Qed.
