(** C09: "if at least one transmission and one acknowledgement get through,
    the call succeeds" as a theorem about the system model. *)
From RsM Require Import Lib.MachInt Model.Dedup Model.Mrp Proofs.MrpSys Proofs.MrpTheorems.
From Coq Require Import ZifyN ZifyBool.
Open Scope N_scope.

Arguments N.ltb : simpl never.
Arguments N.eqb : simpl never.
Arguments N.add : simpl never.

(** events after which the acknowledgement may be gone from the network *)
Definition keeps_acks (o : op) : bool :=
  match o with DeliverAck _ | DropBA _ => false | _ => true end.

Fixpoint ntimers (l : list op) : N :=
  match l with
  | [] => 0
  | ATimer :: t => 1 + ntimers t
  | _ :: t => ntimers t
  end.

Definition timer_inc (o : op) : N := match o with ATimer => 1 | _ => 0 end.

Lemma b_receive_keeps s c0 k0 c :
  a_retr (b_receive s c0 k0) = a_retr s /\
  (In (c, Main) (ba s) -> In (c, Main) (ba (b_receive s c0 k0))).
Proof.
  unfold b_receive. destruct (post_recv (b_win s) c0 true false) as [w' acc].
  destruct k0; destruct acc; cbn [a_retr ba]; split; try reflexivity; intros H;
    try exact H; apply in_or_app; left; exact H.
Qed.

(** one step that neither delivers nor drops an acknowledgement keeps the
    message pending (a timer expiry within the budget retransmits) and keeps
    its acknowledgement in the network *)
Lemma step_keeps s o c k :
  a_retr s = Some (c, k) -> In (c, Main) (ba s) -> keeps_acks o = true ->
  k + timer_inc o <= 5 ->
  a_retr (step s o) = Some (c, k + timer_inc o) /\ In (c, Main) (ba (step s o)).
Proof.
  intros Hr Hin Hk Hb.
  destruct o as [ | | |i|i|i|j|j|j]; cbn [keeps_acks] in Hk; try discriminate;
    cbn [step timer_inc] in *.
  - rewrite Hr. rewrite N.add_0_r. split; assumption.
  - cbn [a_retr ba]. rewrite N.add_0_r. split; assumption.
  - rewrite Hr. assert (E : (k <? MRP_MAX_TRANSMISSIONS) = true) by (unfold MRP_MAX_TRANSMISSIONS; lia).
    rewrite E. cbn [a_retr ba]. split; [reflexivity|exact Hin].
  - destruct (nth_error (ab s) i) as [[c0 k0]|]; [|rewrite N.add_0_r; split; assumption].
    match goal with |- a_retr (b_receive ?s' _ _) = _ /\ _ =>
      destruct (b_receive_keeps s' c0 k0 c) as [E1 E2] end.
    rewrite E1. cbn [a_retr ba] in *. rewrite N.add_0_r. split; [exact Hr|apply E2; exact Hin].
  - destruct (nth_error (ab s) i); cbn [a_retr ba]; rewrite N.add_0_r; split; assumption.
  - cbn [a_retr ba]. rewrite N.add_0_r. split; assumption.
  - destruct (nth_error (ba s) j); cbn [a_retr ba]; rewrite N.add_0_r; split; try assumption.
    apply in_or_app; left; exact Hin.
Qed.

Lemma run_keeps (mid : list op) : forall s c k,
  a_retr s = Some (c, k) -> In (c, Main) (ba s) ->
  forallb keeps_acks mid = true -> k + ntimers mid <= 5 ->
  a_retr (run_sys s mid) = Some (c, k + ntimers mid) /\ In (c, Main) (ba (run_sys s mid)).
Proof.
  induction mid as [|o t IH]; intros s c k Hr Hin Hk Hb.
  - cbn [ntimers run_sys fold_left]. rewrite N.add_0_r. split; assumption.
  - cbn [forallb] in Hk. apply andb_prop in Hk as [Ho Ht].
    assert (En : ntimers (o :: t) = timer_inc o + ntimers t) by (destruct o; reflexivity).
    rewrite En in *.
    assert (Hb1 : k + timer_inc o <= 5) by lia.
    destruct (step_keeps s o c k Hr Hin Ho Hb1) as [Hr' Hin'].
    unfold run_sys in *. cbn [fold_left].
    assert (Hb2 : k + timer_inc o + ntimers t <= 5) by lia.
    destruct (IH (step s o) c (k + timer_inc o) Hr' Hin' Ht Hb2) as [R1 R2].
    split; [rewrite R1; f_equal; f_equal; lia|exact R2].
Qed.

(** The message [c] is pending with [k] retransmissions so far; ONE copy of
    it is delivered to B; then anything happens ([mid]: further submissions on
    other exchanges, timer expiries within the retransmission budget,
    deliveries, duplications and losses of data datagrams, duplications of
    acknowledgements) except that no acknowledgement is delivered or lost;
    then ONE acknowledgement of [c] - there is one in the network - is
    delivered: the send completes with success. *)
Theorem one_copy_one_ack_suffice (s : sys) (c k : N) (i : nat) (mid : list op) :
  a_retr s = Some (c, k) -> nth_error (ab s) i = Some (c, Main) ->
  forallb keeps_acks mid = true -> k + ntimers mid <= 5 ->
  let s2 := run_sys (step s (Deliver i)) mid in
  exists j, nth_error (ba s2) j = Some (c, Main) /\
            a_retr (step s2 (DeliverAck j)) = None /\
            a_results (step s2 (DeliverAck j)) = a_results s2 ++ [(c, true)].
Proof.
  intros Hr Hn Hk Hb s2.
  pose proof (main_delivery_is_acked s i c Hn) as Hack.
  assert (Hr1 : a_retr (step s (Deliver i)) = Some (c, k)).
  { cbn [step]. rewrite Hn.
    match goal with |- a_retr (b_receive ?s' _ _) = _ =>
      destruct (b_receive_keeps s' c Main c) as [E1 _] end.
    rewrite E1. exact Hr. }
  destruct (run_keeps mid _ c k Hr1 Hack Hk Hb) as [R1 R2]. fold s2 in R1, R2.
  apply In_nth_error in R2 as [j Hj]. exists j. split; [exact Hj|].
  exact (ack_completes_send s2 j c _ R1 Hj).
Qed.
