(** A wildcard item expanded while the node is replaced between steps by
    nodes drawn from one family of endpoints (an endpoint id keeps its
    shape: the Node invariant of dm/types/node.rs): nothing is yielded
    twice, and nothing that is present and acceptable in every node of the
    run is skipped. *)
From RsM Require Import Lib.MachInt Model.Acl Model.AclSpec Model.Im Model.ImSpec.
From RsM Require Import Proofs.ImLists Proofs.ImFacts Proofs.ImExpand Proofs.ImConcrete Proofs.ImSpecLink
  Proofs.ImRun Proofs.ImSound.
From Coq Require Import ZifyN ZifyBool.
Open Scope N_scope.

Arguments N.eqb : simpl never.
Arguments N.leb : simpl never.
Arguments N.ltb : simpl never.

(** * list facts *)

Lemma NoDup_skipn {A} (n : nat) (l : list A) : NoDup l -> NoDup (skipn n l).
Proof.
  revert l. induction n as [|n IH]; intros l H; [exact H|]. destruct l as [|x l]; [exact H|].
  cbn [skipn]. apply IH. inversion H; assumption.
Qed.

Lemma NoDup_app_disjoint {A} (a b : list A) :
  NoDup a -> NoDup b -> (forall x, In x a -> ~ In x b) -> NoDup (a ++ b).
Proof.
  induction a as [|x a IH]; intros Ha Hb Hd; [exact Hb|]. cbn [app].
  inversion Ha as [|? ? Hx Ha']; subst. constructor.
  - intro Hin. apply in_app_or in Hin. destruct Hin as [Hin|Hin]; [exact (Hx Hin)|].
    exact (Hd x (or_introl eq_refl) Hin).
  - apply IH; [exact Ha'|exact Hb|]. intros y Hy. apply Hd. right. exact Hy.
Qed.

Lemma NoDup_map_inj {A B} (f : A -> B) (l : list A) :
  (forall x y, f x = f y -> x = y) -> NoDup l -> NoDup (map f l).
Proof.
  intros Hinj. induction l as [|x l IH]; intros H; [constructor|]. cbn [map].
  inversion H as [|? ? Hx Hl]; subst. constructor; [|apply IH; exact Hl].
  intro Hin. apply in_map_iff in Hin. destruct Hin as [y [Hy Hin]]. apply Hinj in Hy. subst y. exact (Hx Hin).
Qed.

(** * lower bounds in a sorted node *)

Lemma lower_bound_spec (nd : node) (a : N) :
  sorted nd ->
  (forall e, In e (firstn (fst (lower_bound nd a)) nd) -> ep_id e < a)
  /\ (forall e, In e (skipn (fst (lower_bound nd a)) nd) -> a <= ep_id e)
  /\ (snd (lower_bound nd a) = true ->
      exists e, nth_error nd (fst (lower_bound nd a)) = Some e /\ ep_id e = a)
  /\ (snd (lower_bound nd a) = false -> forall e, In e nd -> ep_id e <> a).
Proof.
  induction nd as [|y nd IH]; intros Hs.
  - cbn [lower_bound fst snd firstn skipn]. split; [intros e []|]. split; [intros e []|]. split; [discriminate|]. intros _ e [].
  - cbn [lower_bound]. destruct (N.leb_spec a (ep_id y)) as [Hle|Hgt].
    + cbn [fst snd firstn skipn]. split; [intros e []|]. split.
      { intros e [<-|Hin]; [exact Hle|]. pose proof (sorted_head_lt y nd e Hs Hin). lia. }
      split.
      { intros Heq. apply N.eqb_eq in Heq. exists y. split; [reflexivity|exact Heq]. }
      intros Hne e [<-|Hin].
      * apply N.eqb_neq in Hne. exact Hne.
      * pose proof (sorted_head_lt y nd e Hs Hin). lia.
    + destruct (lower_bound nd a) as [i f] eqn:Hlb. cbn [fst snd] in *.
      destruct (IH (sorted_tail y nd Hs)) as [H1 [H2 [H3 H4]]].
      cbn [firstn skipn nth_error]. split.
      { intros e [<-|Hin]; [exact Hgt|exact (H1 e Hin)]. }
      split; [exact H2|]. split; [exact H3|].
      intros Hf e [<-|Hin]; [lia|exact (H4 Hf e Hin)].
Qed.

Lemma sorted_after (nd : node) (i : nat) (x y : endpoint) :
  sorted nd -> nth_error nd i = Some x -> In y (skipn (S i) nd) -> ep_id x < ep_id y.
Proof.
  revert i. induction nd as [|z nd IH]; intros i Hs Hn Hin; [destruct i; discriminate|].
  destruct i as [|i].
  - injection Hn as ->. cbn [skipn] in Hin. exact (sorted_head_lt x nd y Hs Hin).
  - cbn [nth_error] in Hn. cbn [skipn] in Hin. exact (IH i (sorted_tail z nd Hs) Hn Hin).
Qed.

Lemma sorted_in_after (nd : node) (i : nat) (x y : endpoint) :
  sorted nd -> nth_error nd i = Some x -> In y nd -> ep_id x < ep_id y -> In y (skipn (S i) nd).
Proof.
  revert i. induction nd as [|z nd IH]; intros i Hs Hn Hin Hlt; [destruct Hin|].
  destruct i as [|i].
  - injection Hn as ->. cbn [skipn]. destruct Hin as [->|Hin]; [lia|exact Hin].
  - cbn [nth_error] in Hn. cbn [skipn]. destruct Hin as [->|Hin].
    + pose proof (sorted_head_lt y nd x Hs (nth_error_In _ _ Hn)). lia.
    + exact (IH i (sorted_tail z nd Hs) Hn Hin Hlt).
Qed.

Lemma Forall2_impl_in {A B} (P Q : A -> B -> Prop) (l : list A) (m : list B) :
  Forall2 P l m -> (forall x y, In x l -> P x y -> Q x y) -> Forall2 Q l m.
Proof.
  induction 1 as [|x y l m Hxy _ IH]; intros H; constructor.
  - apply H; [left; reflexivity|exact Hxy].
  - apply IH. intros x0 y0 Hin. apply H. right. exact Hin.
Qed.

Lemma in_firstn_or_skipn {A} (n : nat) (l : list A) (x : A) :
  In x l -> In x (firstn n l) \/ In x (skipn n l).
Proof. intros H. rewrite <- (firstn_skipn n l) in H. apply in_app_or. exact H. Qed.

Section Resume.
Variables (env : xenv) (fabs : list fabric) (path : gpath).
Hypothesis W : is_wildcard path = true.
Hypothesis Hpath : path_ok env path.

Notation eok := (eok env fabs path).
Notation cok := (cok path).
Notation lok := (lok env fabs path).
Notation ccands := (ccands env fabs path).
Notation ecands := (ecands env fabs path).
Notation remaining := (remaining env fabs path).
Notation scoh := (scoh env fabs path).

(** ** membership in the candidate lists *)

Lemma in_tag (e e0 : endpoint) (c : cluster) (l : leaf) (L : list (cluster * leaf)) :
  In (e, c, l) (tag e0 L) <-> e = e0 /\ In (c, l) L.
Proof.
  unfold tag. rewrite in_map_iff. split.
  - intros [[c' l'] [Heq Hin]]. cbn [fst snd] in Heq. injection Heq as <- <- <-. split; [reflexivity|exact Hin].
  - intros [-> Hin]. exists (c, l). split; [reflexivity|exact Hin].
Qed.

Lemma in_ecands_cons (e0 : endpoint) (es : list endpoint) (ci li : nat) (e : endpoint) (c : cluster) (l : leaf) :
  In (e, c, l) (ecands (e0 :: es) ci li) <->
  (eok e0 = true /\ e = e0 /\ In (c, l) (ccands e0 (skipn ci (ep_clusters e0)) li))
  \/ In (e, c, l) (ecands es 0 0).
Proof.
  cbn [Proofs.ImExpand.ecands]. rewrite in_app_iff. destruct (eok e0).
  - rewrite in_tag. split; (intros [H|H]; [left|right; exact H]); tauto.
  - split; (intros [H|H]; [|right; exact H]); [destruct H|destruct H as [H _]; discriminate].
Qed.

Lemma in_ecands0 (es : list endpoint) (e : endpoint) (c : cluster) (l : leaf) :
  In (e, c, l) (ecands es 0 0) <->
  In e es /\ eok e = true /\ In (c, l) (ccands e (ep_clusters e) 0).
Proof.
  induction es as [|e0 es IH]; [cbn; tauto|].
  rewrite in_ecands_cons. cbn [skipn]. rewrite IH. cbn [In]. split.
  - intros [[He [-> Hc]]|[Hin Hr]]; [split; [left; reflexivity|split; assumption]|split; [right; exact Hin|exact Hr]].
  - intros [[<-|Hin] [He Hc]]; [left; repeat split; assumption|right; repeat split; assumption].
Qed.

Lemma lcands_incl (e : endpoint) (c : cluster) (li : nat) (x : cluster * leaf) :
  In x (lcands env fabs path e c li) -> In x (lcands env fabs path e c 0).
Proof.
  unfold lcands. rewrite !in_map_iff. intros [l [Hx Hin]]. exists l. split; [exact Hx|].
  apply filter_In in Hin. apply filter_In. split; [apply (skipn_incl li); exact (proj1 Hin)|exact (proj2 Hin)].
Qed.

Lemma ccands_incl_li (e : endpoint) (cs : list cluster) (li : nat) (x : cluster * leaf) :
  In x (ccands e cs li) -> In x (ccands e cs 0).
Proof.
  destruct cs as [|c cs]; [intros []|]. cbn [Proofs.ImExpand.ccands]. rewrite !in_app_iff.
  intros [H|H]; [left|right; exact H]. destruct (cok c); [apply (lcands_incl e c li); exact H|exact H].
Qed.

Lemma ccands_incl_skipn (e : endpoint) (ci : nat) (cs : list cluster) (x : cluster * leaf) :
  In x (ccands e (skipn ci cs) 0) -> In x (ccands e cs 0).
Proof.
  revert cs. induction ci as [|ci IH]; intros cs H; [exact H|].
  destruct cs as [|c cs]; [exact H|]. cbn [skipn] in H. cbn [Proofs.ImExpand.ccands].
  apply in_or_app. right. apply IH. exact H.
Qed.

Lemma ccands_incl (e : endpoint) (ci li : nat) (x : cluster * leaf) :
  In x (ccands e (skipn ci (ep_clusters e)) li) -> In x (ccands e (ep_clusters e) 0).
Proof. intros H. apply (ccands_incl_skipn e ci). apply (ccands_incl_li e _ li). exact H. Qed.

(** ** the part of the family ahead of a cursor, independently of the node *)

Definition ahead (st : xstate) (t : cand) : Prop :=
  let '(e, c, l) := t in
  match x_anchor st with
  | None => True
  | Some a => a < ep_id e \/ (a = ep_id e /\ In (c, l) (ccands e (skipn (x_ci st) (ep_clusters e)) (x_li st)))
  end.

Variable fam : endpoint -> Prop.
Hypothesis fam_unique : forall e e', fam e -> fam e' -> ep_id e = ep_id e' -> e = e'.

Definition good (nd : node) : Prop := wf_node nd = true /\ forall e, In e nd -> fam e.

(** the cursor is coherent with respect to the family *)
Definition lcoh (st : xstate) : Prop :=
  match x_anchor st with
  | None => x_ci st = 0%nat /\ x_li st = 0%nat
  | Some a => forall e, fam e -> ep_id e = a ->
                        eok e = true /\ ccoh path (skipn (x_ci st) (ep_clusters e)) (x_li st)
  end.

Lemma good_sorted (nd : node) : good nd -> sorted nd.
Proof. intros [H _]. exact (proj1 (wf_node_parts nd H)). Qed.

Lemma lcoh_scoh (nd : node) (st : xstate) : good nd -> lcoh st -> scoh nd st.
Proof.
  intros Hg Hl. pose proof (good_sorted nd Hg) as Hs. unfold Proofs.ImExpand.scoh, resume, lcoh in *.
  destruct (x_anchor st) as [a|].
  - destruct (lower_bound_spec nd a Hs) as [_ [_ [H3 _]]].
    destruct (lower_bound nd a) as [i f]. cbn [fst snd] in *. destruct f.
    + destruct (H3 eq_refl) as [e [Hn Hid]]. cbn [fst snd].
      right. exists e, (skipn (S i) nd). split; [apply nth_skipn_cons; exact Hn|].
      apply Hl; [apply (proj2 Hg); apply (nth_error_In _ i); exact Hn|exact Hid].
    + cbn [fst snd x_ci x_li]. left. split; reflexivity.
  - cbn [fst snd]. left. exact Hl.
Qed.

(** [remaining] is the candidates of the node that are ahead of the cursor *)
Lemma remaining_ahead (nd : node) (st : xstate) (t : cand) :
  good nd -> lcoh st -> In t (remaining nd st) -> In t (ecands nd 0 0) /\ ahead st t.
Proof.
  intros Hg Hl Hin. pose proof (good_sorted nd Hg) as Hs. destruct t as [[e c] l].
  unfold Proofs.ImExpand.remaining, resume, lcoh, ahead in *.
  destruct (x_anchor st) as [a|].
  - destruct (lower_bound_spec nd a Hs) as [_ [H2 [H3 H4]]].
    destruct (lower_bound nd a) as [i f]. cbn [fst snd] in *. destruct f; cbn [fst snd x_ci x_li] in Hin.
    + destruct (H3 eq_refl) as [ea [Hn Hid]].
      rewrite (nth_skipn_cons i nd ea Hn) in Hin. apply in_ecands_cons in Hin.
      destruct Hin as [[Hok [-> Hc]]|Hin].
      * split.
        { apply in_ecands0. split; [apply (nth_error_In _ i); exact Hn|]. split; [exact Hok|].
          apply (ccands_incl ea (x_ci st) (x_li st)). exact Hc. }
        right. split; [symmetry; exact Hid|exact Hc].
      * apply in_ecands0 in Hin. destruct Hin as [He [Hok Hc]]. split.
        { apply in_ecands0. split; [apply (skipn_incl (S i)); exact He|]. split; assumption. }
        left. rewrite <- Hid. exact (sorted_after nd i ea e Hs Hn He).
    + apply in_ecands0 in Hin. destruct Hin as [He [Hok Hc]].
      assert (Hen : In e nd) by (apply (skipn_incl i); exact He). split.
      { apply in_ecands0. repeat split; assumption. }
      left. pose proof (H2 e He). pose proof (H4 eq_refl e Hen). lia.
  - cbn [fst snd skipn] in Hin. destruct Hl as [Hci Hli]. rewrite Hci, Hli in Hin. split; [exact Hin|exact I].
Qed.

Lemma ahead_remaining (nd : node) (st : xstate) (t : cand) :
  good nd -> lcoh st -> In t (ecands nd 0 0) -> ahead st t -> In t (remaining nd st).
Proof.
  intros Hg Hl Hin Ha. pose proof (good_sorted nd Hg) as Hs. destruct t as [[e c] l].
  apply in_ecands0 in Hin. destruct Hin as [He [Hok Hc]].
  unfold Proofs.ImExpand.remaining, resume, lcoh, ahead in *.
  destruct (x_anchor st) as [a|].
  - destruct (lower_bound_spec nd a Hs) as [H1 [_ [H3 H4]]].
    destruct (lower_bound nd a) as [i f]. cbn [fst snd] in *. destruct f; cbn [fst snd x_ci x_li].
    + destruct (H3 eq_refl) as [ea [Hn Hid]].
      rewrite (nth_skipn_cons i nd ea Hn). apply in_ecands_cons.
      destruct Ha as [Hlt|[Heq Hcc]].
      * right. apply in_ecands0. split; [|split; assumption].
        apply (sorted_in_after nd i ea e Hs Hn He). lia.
      * assert (e = ea).
        { apply (sorted_unique nd e ea Hs He (nth_error_In _ _ Hn)). lia. }
        subst ea. left. split; [exact Hok|]. split; [reflexivity|exact Hcc].
    + apply in_ecands0. split; [|split; assumption].
      destruct (in_firstn_or_skipn i nd e He) as [Hf|Hsk]; [|exact Hsk].
      pose proof (H1 e Hf). pose proof (H4 eq_refl e He).
      destruct Ha as [Hlt|[Heq _]]; lia.
  - cbn [fst snd skipn]. destruct Hl as [-> ->]. apply in_ecands0. repeat split; assumption.
Qed.

(** ** no candidate list has repetitions *)

Lemma NoDup_leaves (c : cluster) : wf_cluster c = true -> NoDup (leaves (xe_op env) c).
Proof.
  intros H. unfold leaves. apply NoDup_filter.
  apply (NoDup_map_inv l_id). exact (wf_cluster_declared (xe_op env) c H).
Qed.

Lemma NoDup_lcands (e : endpoint) (c : cluster) (li : nat) :
  wf_cluster c = true -> NoDup (lcands env fabs path e c li).
Proof.
  intros H. unfold lcands. apply NoDup_map_inj; [intros x y Hxy; injection Hxy as ->; reflexivity|].
  apply NoDup_filter. apply NoDup_skipn. exact (NoDup_leaves c H).
Qed.

Lemma in_ccands_cluster (e : endpoint) (cs : list cluster) (li : nat) (c : cluster) (l : leaf) :
  In (c, l) (ccands e cs li) -> In c cs.
Proof.
  revert li. induction cs as [|c0 cs IH]; intros li H; [destruct H|].
  cbn [Proofs.ImExpand.ccands] in H. apply in_app_or in H. destruct H as [H|H]; [|right; exact (IH 0%nat H)].
  destruct (cok c0); [|destruct H]. unfold lcands in H. apply in_map_iff in H.
  destruct H as [l' [Heq _]]. injection Heq as <- _. left. reflexivity.
Qed.

Lemma NoDup_ccands (e : endpoint) (cs : list cluster) (li : nat) :
  NoDup cs -> (forall c, In c cs -> wf_cluster c = true) -> NoDup (ccands e cs li).
Proof.
  revert li. induction cs as [|c cs IH]; intros li Hnd Hwf; [constructor|].
  cbn [Proofs.ImExpand.ccands]. inversion Hnd as [|? ? Hc Hnd']; subst.
  apply NoDup_app_disjoint.
  - destruct (cok c); [apply NoDup_lcands; apply Hwf; left; reflexivity|constructor].
  - apply IH; [exact Hnd'|]. intros c0 H0. apply Hwf. right. exact H0.
  - intros [c0 l0] Hin Hin2. destruct (cok c); [|destruct Hin].
    unfold lcands in Hin. apply in_map_iff in Hin. destruct Hin as [l' [Heq _]]. injection Heq as <- _.
    apply Hc. exact (in_ccands_cluster e cs 0 c l0 Hin2).
Qed.

Lemma NoDup_ecands (es : list endpoint) (ci li : nat) :
  NoDup es ->
  (forall e, In e es -> NoDup (ep_clusters e) /\ forall c, In c (ep_clusters e) -> wf_cluster c = true) ->
  NoDup (ecands es ci li).
Proof.
  revert ci li. induction es as [|e es IH]; intros ci li Hnd Hwf; [constructor|].
  cbn [Proofs.ImExpand.ecands]. inversion Hnd as [|? ? He Hnd']; subst.
  apply NoDup_app_disjoint.
  - destruct (eok e); [|constructor]. unfold tag.
    apply NoDup_map_inj; [intros [c1 l1] [c2 l2] H; cbn [fst snd] in H; injection H as -> ->; reflexivity|].
    destruct (Hwf e (or_introl eq_refl)) as [Hc Hw].
    apply NoDup_ccands; [apply NoDup_skipn; exact Hc|]. intros c Hin. apply Hw. apply (skipn_incl ci). exact Hin.
  - apply IH; [exact Hnd'|]. intros e0 H0. apply Hwf. right. exact H0.
  - intros [[e0 c0] l0] Hin Hin2. destruct (eok e); [|destruct Hin].
    apply in_tag in Hin. destruct Hin as [-> _]. apply in_ecands0 in Hin2. exact (He (proj1 Hin2)).
Qed.

Lemma good_NoDup_remaining (nd : node) (st : xstate) : good nd -> NoDup (remaining nd st).
Proof.
  intros [Hwf _]. destruct (wf_node_parts nd Hwf) as [Hs Hparts]. unfold Proofs.ImExpand.remaining.
  assert (Hndn : NoDup nd).
  { clear Hparts Hwf. induction nd as [|e nd IH]; [constructor|]. constructor.
    - intro Hin. pose proof (sorted_head_lt e nd e Hs Hin). lia.
    - exact (IH (sorted_tail e nd Hs)). }
  apply NoDup_ecands; [apply NoDup_skipn; exact Hndn|].
  intros e He. apply (skipn_incl _ nd) in He. destruct (Hparts e He) as [Hc Hw]. split; [|exact Hw].
  exact (NoDup_map_inv c_id _ Hc).
Qed.

(** ** one step, seen from the family *)

Lemma next_for_path_found_cursor (nd : node) (st : xstate) (e c l : N) (st' : xstate) :
  next_for_path env nd fabs st path = NFound e c l st' -> x_anchor st' = Some e.
Proof.
  unfold next_for_path.
  destruct (negb (is_read (xe_op env)) && negb (is_some (p_cl path))); [discriminate|].
  destruct (negb (is_read (xe_op env)) && negb (is_some (p_leaf path))); [discriminate|].
  destruct (resume nd st) as [idx st1].
  destruct (endpoints_loop env fabs path (x_last st1) (skipn idx nd) (x_ci st1) (x_li st1)); try discriminate.
  - intros H. injection H as <- <- <- <-. reflexivity.
  - destruct (negb (is_wildcard path)); discriminate.
Qed.

Definition famcand (t : cand) : Prop := fam (fst (fst t)).

(** a step of the scan on a good node, from a coherent cursor whose cache is sound *)
Lemma step_family (nd : node) (st : xstate) :
  good nd -> lcoh st -> last_sound env fabs nd (x_last st) ->
  match next_for_path env nd fabs st path with
  | NFound eid cl id st' =>
      exists t, cand_ids t = (eid, cl, id) /\ famcand t
                /\ remaining nd st = t :: remaining nd st'
                /\ lcoh st'
                /\ (forall nd', good nd' -> last_sound env fabs nd' (x_last st'))
  | NExhausted => remaining nd st = []
  | NStatus _ => False
  end.
Proof.
  intros Hg Hl Hls. pose proof (good_sorted nd Hg) as Hs.
  rewrite (next_for_path_nocache env fabs path nd st Hls).
  pose proof (next_for_path_wild env fabs path W nd (clear_last st) Hpath Hs) as Hstep.
  assert (Hrc : remaining nd (clear_last st) = remaining nd st).
  { unfold Proofs.ImExpand.remaining. destruct (resume_clear nd st) as [Hr _]. rewrite Hr. reflexivity. }
  assert (Hsc : scoh nd (clear_last st)).
  { pose proof (lcoh_scoh nd st Hg Hl) as H. unfold Proofs.ImExpand.scoh in *.
    destruct (resume_clear nd st) as [Hr _]. rewrite Hr. exact H. }
  specialize (Hstep Hsc eq_refl). rewrite Hrc in Hstep.
  destruct (next_for_path env nd fabs (clear_last st) path) as [eid cl id st'| |s] eqn:Hn; [|exact Hstep|exact Hstep].
  destruct Hstep as (e & c & l & He & Hc & Hlf & Heok & Hcok & Hlok & -> & -> & -> & Hrem & Hcoh' & Hlast').
  pose proof (next_for_path_found_cursor nd _ _ _ _ _ Hn) as Hanchor.
  exists (e, c, l). split; [reflexivity|]. split; [exact (proj2 Hg e He)|]. split; [exact Hrem|]. split.
  - (* coherence of the new cursor with respect to the family *)
    unfold lcoh. rewrite Hanchor. intros e' Hf' Hid'.
    assert (e' = e) by (apply fam_unique; [exact Hf'|exact (proj2 Hg e He)|exact Hid']). subst e'.
    split; [exact Heok|].
    unfold Proofs.ImExpand.scoh, resume in Hcoh'. rewrite Hanchor in Hcoh'.
    destruct (In_nth_error nd e He) as [i Hi].
    rewrite (lower_bound_nth nd i e Hs Hi) in Hcoh'. cbn [fst snd] in Hcoh'.
    rewrite (nth_skipn_cons i nd e Hi) in Hcoh'.
    destruct Hcoh' as [[_ Hz]|[e0 [es' [Heq [_ Hcc]]]]]; [left; exact Hz|].
    injection Heq as <- _. exact Hcc.
  - (* the cache is sound in every node of the family *)
    intros nd' Hg'. rewrite Hlast'. intros e0 c1 l0 Hsome e' c' He' Hc' Heid Hcid. injection Hsome as <- <- <-.
    assert (e' = e) by (apply fam_unique; [exact (proj2 Hg' e' He')|exact (proj2 Hg e He)|exact Heid]). subst e'.
    destruct (wf_node_parts nd (proj1 Hg)) as [_ Hparts]. destruct (Hparts e He) as [Hndc _].
    assert (c' = c) by (apply (inj_on_nodup c_id (ep_clusters e) c' c Hndc Hc' Hc); exact Hcid). subst c'.
    unfold Proofs.ImExpand.lok in Hlok. apply andb_true_iff in Hlok. destruct Hlok as [_ Hck].
    destruct (leaf_check env fabs e c (l_id l)); [discriminate|reflexivity].
Qed.

(** ** the whole run over a sequence of nodes *)

(** [drain nodes st ys]: the item is scanned to exhaustion, the i-th step on the i-th node *)
Inductive drain : list node -> xstate -> list (N * N * N) -> Prop :=
| drain_done (nd : node) (st : xstate) :
    next_for_path env nd fabs st path = NExhausted -> drain [nd] st []
| drain_step (nd : node) (nds : list node) (st st' : xstate) (e c l : N) (ys : list (N * N * N)) :
    next_for_path env nd fabs st path = NFound e c l st' ->
    drain nds st' ys -> drain (nd :: nds) st ((e, c, l) :: ys).

(** candidates of the family are determined by their ids *)
Lemma in_ccands_leaf (e : endpoint) (cs : list cluster) (li : nat) (c : cluster) (l : leaf) :
  In (c, l) (ccands e cs li) -> In l (leaves (xe_op env) c).
Proof.
  revert li. induction cs as [|c0 cs IH]; intros li H; [destruct H|].
  cbn [Proofs.ImExpand.ccands] in H. apply in_app_or in H. destruct H as [H|H]; [|exact (IH 0%nat H)].
  destruct (cok c0); [|destruct H]. unfold lcands in H. apply in_map_iff in H.
  destruct H as [l' [Heq Hin]]. injection Heq as <- <-. apply filter_In in Hin.
  apply (skipn_incl li). exact (proj1 Hin).
Qed.

Lemma ids_inj (t t' : cand) :
  famcand t -> famcand t' ->
  (exists nd, good nd /\ In t (ecands nd 0 0)) -> (exists nd', good nd' /\ In t' (ecands nd' 0 0)) ->
  cand_ids t = cand_ids t' -> t = t'.
Proof.
  destruct t as [[e c] l], t' as [[e' c'] l']. unfold famcand. cbn [fst cand_ids].
  intros Hf Hf' [nd [Hg Hin]] [nd' [Hg' Hin']] Hids. injection Hids as He Hc Hl.
  assert (e' = e) by (apply fam_unique; [exact Hf'|exact Hf|symmetry; exact He]). subst e'.
  apply in_ecands0 in Hin, Hin'. destruct Hin as [Hen [_ Hcc]], Hin' as [_ [_ Hcc']].
  destruct (wf_node_parts nd (proj1 Hg)) as [_ Hparts]. destruct (Hparts e Hen) as [Hndc Hwfc].
  pose proof (in_ccands_cluster e _ _ c l Hcc) as Hcin. pose proof (in_ccands_cluster e _ _ c' l' Hcc') as Hcin'.
  assert (c' = c) by (apply (inj_on_nodup c_id (ep_clusters e) c' c Hndc Hcin' Hcin); symmetry; exact Hc). subst c'.
  pose proof (in_ccands_leaf e _ _ c l Hcc) as Hlin. pose proof (in_ccands_leaf e _ _ c l' Hcc') as Hlin'.
  assert (l' = l).
  { apply (inj_on_nodup l_id (declared (xe_op env) c) l' l (wf_cluster_declared _ c (Hwfc c Hcin))).
    - exact (leaves_declared _ c l' Hlin').
    - exact (leaves_declared _ c l Hlin).
    - symmetry. exact Hl. }
  subst l'. reflexivity.
Qed.

Lemma drain_invariant (nodes : list node) (st : xstate) (ys : list (N * N * N)) :
  drain nodes st ys ->
  (forall nd, In nd nodes -> good nd) -> lcoh st ->
  (forall nd, good nd -> last_sound env fabs nd (x_last st)) ->
  (* every yield is a candidate of the family ahead of the cursor, in some good node *)
  (forall y, In y ys -> exists t, cand_ids t = y /\ famcand t /\ ahead st t
                                   /\ exists nd, good nd /\ In t (ecands nd 0 0))
  /\ NoDup ys
  /\ (forall t, famcand t -> (forall nd, In nd nodes -> In t (ecands nd 0 0)) -> ahead st t ->
                In (cand_ids t) ys).
Proof.
  induction 1 as [nd st Hn|nd nds st st' e c l ys Hn Hd IH]; intros Hgood Hl Hls.
  - pose proof (step_family nd st (Hgood nd (or_introl eq_refl)) Hl (Hls nd (Hgood nd (or_introl eq_refl)))) as Hs.
    rewrite Hn in Hs. split; [intros y []|]. split; [constructor|].
    intros t _ Hall Ha.
    pose proof (ahead_remaining nd st t (Hgood nd (or_introl eq_refl)) Hl (Hall nd (or_introl eq_refl)) Ha) as Hin.
    rewrite Hs in Hin. destruct Hin.
  - assert (Hg : good nd) by (apply Hgood; left; reflexivity).
    pose proof (step_family nd st Hg Hl (Hls nd Hg)) as Hs. rewrite Hn in Hs.
    destruct Hs as (t & Hids & Hft & Hrem & Hl' & Hls').
    assert (Hgood' : forall nd0, In nd0 nds -> good nd0) by (intros nd0 H0; apply Hgood; right; exact H0).
    destruct (IH Hgood' Hl' Hls') as [Hy [Hnd Hc]].
    assert (Htin : In t (remaining nd st)) by (rewrite Hrem; left; reflexivity).
    destruct (remaining_ahead nd st t Hg Hl Htin) as [Htc Hta].
    (* candidates ahead of the new cursor are ahead of the old one and differ from the yield *)
    assert (Hmono : forall t', famcand t' -> (exists nd', good nd' /\ In t' (ecands nd' 0 0)) ->
                    ahead st' t' -> ahead st t' /\ t' <> t).
    { intros t' Hft' [nd' [Hg' Hin']] Ha'.
      pose proof (next_for_path_found_cursor nd _ _ _ _ _ Hn) as Hanchor.
      destruct t as [[te tc] tl], t' as [[e' c'] l']. cbn [cand_ids] in Hids. injection Hids as <- <- <-.
      unfold ahead in Ha'. rewrite Hanchor in Ha'. unfold famcand in Hft, Hft'. cbn [fst] in Hft, Hft'.
      destruct Ha' as [Hlt|[Heq Hcc]].
      - split; [|intro Hx; injection Hx as -> _ _; lia].
        unfold ahead in *. destruct (x_anchor st) as [a|]; [|exact I].
        destruct Hta as [H|[H _]]; left; lia.
      - assert (e' = te) by (apply fam_unique; [exact Hft'|exact Hft|symmetry; exact Heq]). subst e'.
        assert (Hin2 : In (te, c', l') (remaining nd st')).
        { apply (ahead_remaining nd st' (te, c', l') Hg Hl').
          - apply in_ecands0. apply in_ecands0 in Htc. destruct Htc as [He [Hok _]].
            split; [exact He|]. split; [exact Hok|]. exact (ccands_incl te _ _ (c', l') Hcc).
          - unfold ahead. rewrite Hanchor. right. split; [reflexivity|exact Hcc]. }
        split.
        + apply (remaining_ahead nd st (te, c', l') Hg Hl). rewrite Hrem. right. exact Hin2.
        + intro Hx. pose proof (good_NoDup_remaining nd st Hg) as Hnodup. rewrite Hrem in Hnodup.
          inversion Hnodup as [|? ? Hnotin _]; subst. apply Hnotin. rewrite <- Hx. exact Hin2. }
    split; [|split].
    + intros y [<-|Hin].
      * exists t. split; [exact Hids|]. split; [exact Hft|]. split; [exact Hta|].
        exists nd. split; [exact Hg|exact Htc].
      * destruct (Hy y Hin) as [t' [Hi' [Hf' [Ha' Hex]]]]. exists t'. split; [exact Hi'|]. split; [exact Hf'|].
        split; [exact (proj1 (Hmono t' Hf' Hex Ha'))|exact Hex].
    + constructor; [|exact Hnd]. intro Hin.
      destruct (Hy _ Hin) as [t' [Hi' [Hf' [Ha' Hex]]]].
      destruct (Hmono t' Hf' Hex Ha') as [_ Hne]. apply Hne.
      apply ids_inj; [exact Hf'|exact Hft|exact Hex|exists nd; split; [exact Hg|exact Htc]|].
      rewrite Hi', Hids. reflexivity.
    + intros t0 Hf0 Hall Ha0.
      pose proof (ahead_remaining nd st t0 Hg Hl (Hall nd (or_introl eq_refl)) Ha0) as Hin.
      rewrite Hrem in Hin. destruct Hin as [<-|Hin]; [left; symmetry; exact Hids|].
      right. apply Hc; [exact Hf0|intros nd0 H0; apply Hall; right; exact H0|].
      exact (proj2 (remaining_ahead nd st' t0 Hg Hl' Hin)).
Qed.

(** every yield is a candidate of the node in force at its step *)
Lemma drain_sound (nodes : list node) (st : xstate) (ys : list (N * N * N)) :
  drain nodes st ys ->
  (forall nd, In nd nodes -> good nd) -> lcoh st ->
  (forall nd, good nd -> last_sound env fabs nd (x_last st)) ->
  Forall2 (fun nd y => exists t, cand_ids t = y /\ In t (ecands nd 0 0)) (firstn (length ys) nodes) ys.
Proof.
  induction 1 as [nd st Hn|nd nds st st' e c l ys Hn Hd IH]; intros Hgood Hl Hls; [constructor|].
  assert (Hg : good nd) by (apply Hgood; left; reflexivity).
  pose proof (step_family nd st Hg Hl (Hls nd Hg)) as Hs. rewrite Hn in Hs.
  destruct Hs as (t & Hids & Hft & Hrem & Hl' & Hls').
  cbn [length firstn]. constructor.
  - exists t. split; [exact Hids|].
    apply (remaining_ahead nd st t Hg Hl). rewrite Hrem. left. reflexivity.
  - apply IH; [intros nd0 H0; apply Hgood; right; exact H0|exact Hl'|exact Hls'].
Qed.

End Resume.

(** * In the vocabulary of the specification *)

Theorem resume_stable (fabs : list fabric) (who : accessor) (op : operation) (timed : bool)
  (flt : N -> N -> N -> bool) (path : gpath) (fam : endpoint -> Prop)
  (nodes : list node) (ys : list (N * N * N)) :
  wf_fabrics fabs = true -> is_wildcard path = true -> path_ok (mkEnv op who timed flt) path ->
  (forall e e', fam e -> fam e' -> ep_id e = ep_id e' -> e = e') ->
  (forall nd, In nd nodes -> good fam nd) ->
  drain (mkEnv op who timed flt) fabs path nodes (fresh None) ys ->
  (* every yield exists and is permitted in the node in force at its step *)
  Forall2 (fun nd y => exists t, cand_ids t = y /\ In t (served nd fabs who op timed flt path))
          (firstn (length ys) nodes) ys
  (* nothing is yielded twice *)
  /\ NoDup ys
  (* whatever is served by every node of the run is yielded *)
  /\ (forall t, (forall nd, In nd nodes -> In t (served nd fabs who op timed flt path)) ->
                In (cand_ids t) ys).
Proof.
  intros Hwf W Hp Hu Hgood Hd.
  assert (Hl : lcoh (mkEnv op who timed flt) fabs path fam (fresh None)) by (split; reflexivity).
  assert (Hls : forall nd, good fam nd -> last_sound (mkEnv op who timed flt) fabs nd (x_last (fresh None))).
  { intros nd _ e0 c0 l0 H. discriminate. }
  assert (Hserved : forall nd, In nd nodes ->
            ecands (mkEnv op who timed flt) fabs path nd 0 0 = served nd fabs who op timed flt path).
  { intros nd Hin. apply (ecands_served fabs who op timed flt Hwf nd path). exact (proj1 (Hgood nd Hin)). }
  split; [|split].
  - pose proof (drain_sound (mkEnv op who timed flt) fabs path W Hp fam Hu nodes (fresh None) ys Hd Hgood Hl Hls) as Hs.
    apply (Forall2_impl_in _ _ _ _ Hs). intros nd y Hin [t [Hi Ht]].
    assert (Hnd : In nd nodes)
      by (rewrite <- (firstn_skipn (length ys) nodes); apply in_or_app; left; exact Hin).
    exists t. split; [exact Hi|]. rewrite <- (Hserved nd Hnd). exact Ht.
  - exact (proj1 (proj2 (drain_invariant (mkEnv op who timed flt) fabs path W Hp fam Hu nodes (fresh None) ys Hd Hgood Hl Hls))).
  - intros t Hall.
    destruct (drain_invariant (mkEnv op who timed flt) fabs path W Hp fam Hu nodes (fresh None) ys Hd Hgood Hl Hls)
      as [_ [_ Hc]].
    assert (Hne : exists nd, In nd nodes) by (inversion Hd; eexists; left; reflexivity).
    destruct Hne as [nd0 Hin0].
    apply Hc.
    + pose proof (Hall nd0 Hin0) as Ht. rewrite <- (Hserved nd0 Hin0) in Ht.
      destruct t as [[e c] l]. apply (in_ecands0 (mkEnv op who timed flt) fabs path) in Ht.
      unfold famcand. cbn [fst]. exact (proj2 (Hgood nd0 Hin0) e (proj1 Ht)).
    + intros nd Hin. rewrite (Hserved nd Hin). exact (Hall nd Hin).
    + destruct t as [[e c] l]. exact I.
Qed.
