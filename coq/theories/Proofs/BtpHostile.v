(** One BTP end against arbitrary input: the invariant of the end, its relation
    with the reassembly specification, and the proof that the model always
    satisfies the executable property [mon_endpoint]. *)
From RsM Require Import Lib.MachInt Model.Btp Model.BtpSpec Proofs.BtpCodec Proofs.BtpFacts.
From Coq Require Import ZifyN ZifyBool.
Open Scope N_scope.

Ltac Zify.zify_post_hook ::= Z.div_mod_to_equations.

Arguments N.add : simpl never.
Arguments N.sub : simpl never.
Arguments N.mul : simpl never.
Arguments N.div : simpl never.
Arguments N.modulo : simpl never.
Arguments N.leb : simpl never.
Arguments N.ltb : simpl never.
Arguments N.eqb : simpl never.
Arguments N.min : simpl never.
Arguments N.max : simpl never.
Arguments N.of_nat : simpl never.
Arguments N.to_nat : simpl never.
Arguments N.testbit : simpl never.
Arguments N.land : simpl never.
Arguments N.shiftr : simpl never.

(** an SDU as it sits in the ring buffer: 16-bit length, then the bytes *)
Definition enc (m : bytes) : bytes := le16 (blen m) ++ m.
Definition penc (c : option (N * bytes)) : bytes :=
  match c with None => [] | Some (L, pb) => le16 L ++ pb end.

(** the receive window holds exactly what the specification has reassembled *)
Definition rel (r : recvw) (q : rstate) : Prop :=
  rbuf r = concat (map enc (q_done q)) ++ penc (q_cur q) /\
  rrem r = match q_cur q with None => 0 | Some (L, pb) => L - blen pb end /\
  match q_cur q with None => True | Some (L, pb) => blen pb < L /\ L < 65536 end /\
  rmsgs r <= N.of_nat (length (q_done q)) /\
  Forall (fun x => 0 < blen x < 65536) (q_done q).

Lemma rel_init lvl al seq : rel (mkRW [] 0 lvl al seq 0) rs_init.
Proof. unfold rel. cbn. repeat split; try lia. constructor. Qed.

Lemma concat_enc_snoc l x : concat (map enc (l ++ [x])) = concat (map enc l) ++ enc x.
Proof. rewrite map_app, concat_app. cbn [map concat]. rewrite app_nil_r. reflexivity. Qed.

Lemma accept_reasm r h p m r' q :
  rel r q -> blen (rbuf r) <= RX_CAP -> h_len h < 65536 ->
  rw_accept_incoming r h p m = Ok r' ->
  exists q', reasm_step q h p = Some q' /\ rel r' q'.
Proof.
  intros (Hbuf & Hrem & Hcur & Hmsgs & Hdone) Hcap Hlen H.
  apply rw_accept_ok in H; [|assumption].
  destruct H as (EH & EM & Hlev & Es & prefix & rem' & -> & Hfit & Hfin & Hml).
  rewrite (rb_push_fits (rbuf r) prefix) by lia.
  rewrite rb_push_fits by (rewrite blen_app; lia).
  unfold reasm_step, rel. cbn [rbuf rrem rmsgs].
  destruct (get_msg_len h) as [ml|] eqn:Eml.
  - destruct Hml as (Hr0 & Hple & -> & ->).
    assert (Hmlb : ml < 65536).
    { unfold get_msg_len in Eml. destruct (fB h && negb (fH h)); inversion Eml. subst. assumption. }
    destruct (q_cur q) as [[L pb]|] eqn:Ecur; [lia|].
    cbn [penc] in Hbuf. rewrite app_nil_r in Hbuf.
    destruct (N.ltb_spec ml (blen p)); [lia|].
    destruct (N.eqb_spec ml 0) as [->|Hnz].
    + (* empty SDU: nothing stored *)
      exists q. split; [reflexivity|]. rewrite Ecur.
      assert (p = []) by (apply blen_0; lia). subst p.
      rewrite !app_nil_r.
      rewrite blen_nil.
      replace (fE h && negb (0 =? 0)) with false by (rewrite andb_false_r; reflexivity).
      repeat split; try assumption; lia.
    + replace (0 <? ml) with true by lia.
      destruct (N.eqb_spec (blen p) ml) as [Hfull|Hpart].
      * eexists. split; [reflexivity|]. cbn [q_done q_cur penc].
        rewrite concat_enc_snoc, app_nil_r. unfold enc. rewrite Hfull, Hbuf.
        rewrite <- !app_assoc. repeat split; try lia.
        -- rewrite app_length. cbn [length]. destruct (fE h && _); lia.
        -- apply Forall_app. split; [assumption|]. constructor; [lia|constructor].
      * destruct (fE h) eqn:EE; [specialize (Hfin eq_refl); lia|].
        eexists. split; [reflexivity|]. cbn [q_done q_cur penc andb].
        rewrite Hbuf, <- app_assoc. repeat split; try assumption; try lia.
  - destruct Hml as (Hple & -> & ->). rewrite app_nil_r.
    destruct (q_cur q) as [[L pb]|] eqn:Ecur.
    + destruct Hcur as (Hpb & HL). rewrite blen_app.
      destruct (N.ltb_spec L (blen pb + blen p)); [lia|].
      destruct (N.eqb_spec (blen pb + blen p) L) as [Hfull|Hpart].
      * eexists. split; [reflexivity|]. cbn [q_done q_cur penc].
        rewrite concat_enc_snoc, app_nil_r. unfold enc. rewrite blen_app, Hfull, Hbuf.
        cbn [penc]. rewrite <- !app_assoc. repeat split; try lia.
        -- rewrite app_length. cbn [length]. destruct (fE h && _); lia.
        -- apply Forall_app. split; [assumption|]. constructor; [rewrite blen_app; lia|constructor].
      * destruct (fE h) eqn:EE; [specialize (Hfin eq_refl); lia|].
        eexists. split; [reflexivity|]. cbn [q_done q_cur penc andb].
        rewrite Hbuf. cbn [penc]. rewrite <- !app_assoc, blen_app.
        repeat split; try assumption; try lia.
    + assert (p = []) by (apply blen_0; lia). subst p.
      replace (blen [] =? 0) with true by reflexivity.
      exists q. split; [reflexivity|]. rewrite Ecur, app_nil_r, blen_nil.
      rewrite andb_false_r. repeat split; try assumption; lia.
Qed.

(** * input bytes *)

Definition bytes_ok (l : bytes) : Prop := Forall (fun b => b < 256) l.

Lemma take1_ok l b t : take1 l = Ok (b, t) -> bytes_ok l -> b < 256 /\ bytes_ok t.
Proof.
  destruct l as [|x l]; cbn [take1]; intro H; inversion H; subst.
  intro Hl. inversion Hl. auto.
Qed.

Lemma cond_take1_ok (c : bool) l b t :
  (if c then take1 l else Ok (0, l)) = Ok (b, t) -> bytes_ok l -> b < 256 /\ bytes_ok t.
Proof.
  destruct c.
  - apply take1_ok.
  - intro H. inversion H. subst. intro. split; [lia|assumption].
Qed.

Lemma hdr_decode_facts d h p :
  hdr_decode d = Ok (h, p) -> bytes_ok d ->
  bytes_ok p /\ h_len h < 65536 /\ h_ack h < 256 /\ h_seq h < 256.
Proof.
  unfold hdr_decode. intros H Hd.
  inv_ok H. destruct x as [b l0]. apply take1_ok in Hb; [|assumption]. destruct Hb as [Hb0 Hl0].
  inv_ok H. destruct x as [op l1]. apply cond_take1_ok in Hb; [|assumption]. destruct Hb as [_ Hl1].
  inv_ok H. destruct x as [ack l2]. apply cond_take1_ok in Hb; [|assumption]. destruct Hb as [Hack Hl2].
  inv_ok H. destruct x as [seq l3]. apply cond_take1_ok in Hb; [|assumption]. destruct Hb as [Hseq Hl3].
  inv_ok H. destruct x as [len l4].
  assert (Hlen : len < 65536 /\ bytes_ok l4).
  { destruct (N.testbit b 0 && negb (N.testbit b 6)).
    - inv_ok Hb. destruct x as [lo l5]. apply take1_ok in Hb1; [|assumption]. destruct Hb1 as [Hlo Hl5].
      inv_ok Hb. destruct x as [hi l6]. apply take1_ok in Hb1; [|assumption]. destruct Hb1 as [Hhi Hl6].
      inversion Hb; subst. split; [lia|assumption].
    - inversion Hb; subst. split; [lia|assumption]. }
  destruct Hlen as [Hlen Hl4].
  inversion H; subst. cbn [h_len h_ack h_seq]. auto.
Qed.

Lemma hsresp_decode_facts l resp :
  hsresp_decode l = Ok resp -> bytes_ok l -> p_ws resp < 256.
Proof.
  unfold hsresp_decode. intros H Hl.
  inv_ok H. destruct x as [v l0]. apply take1_ok in Hb; [|assumption]. destruct Hb as [_ Hl0].
  inv_ok H. destruct x as [m0 l1]. apply take1_ok in Hb; [|assumption]. destruct Hb as [_ Hl1].
  inv_ok H. destruct x as [m1 l2]. apply take1_ok in Hb; [|assumption]. destruct Hb as [_ Hl2].
  inv_ok H. destruct x as [w l3]. apply take1_ok in Hb; [|assumption]. destruct Hb as [Hw _].
  inversion H; subst. exact Hw.
Qed.

(** * the handshake *)

Lemma setup_state_ok s addr ver m w :
  20 <= m <= 244 -> 1 <= w <= 255 -> sess_ok (setup_state s addr ver m w).
Proof.
  intros Hm Hw. unfold sess_ok, setup_state, sw_ok, rw_ok.
  cbn [send recv mtu hs_pending initiator swin slevel slast].
  destruct (initiator s); cbn [rlevel rack_level rmsgs rack_seq rbuf negb];
    rewrite blen_nil; unfold RX_CAP; repeat split; try lia; try discriminate.
Qed.

Lemma setup_eq s addr ver m w : 1 <= w -> setup s addr ver m w = Ok (setup_state s addr ver m w).
Proof. intro Hw. unfold setup. destruct (initiator s); [rewrite csub_ok by lia|]; reflexivity. Qed.

Lemma setup_state_rel s addr ver m w : rel (recv (setup_state s addr ver m w)) rs_init.
Proof. unfold setup_state. cbn [recv]. destruct (initiator s); apply rel_init. Qed.

Lemma initial_window_ok m : 20 <= m <= 244 ->
  exists iw, initial_window_size m = Ok iw /\ 6 <= iw <= 255 /\ iw * m <= 1583.
Proof.
  intro Hm. unfold initial_window_size.
  destruct (N.eqb_spec m 0); [lia|].
  eexists. split; [reflexivity|].
  unfold RX_CAP.
  assert (H1 : 3166 / 244 <= 3166 / m) by (apply N.div_le_compat_l; lia).
  change (3166 / 244) with 12 in H1.
  assert (H2 : m * (3166 / m) <= 3166) by (apply N.mul_div_le; lia).
  assert (H3 : 2 * (3166 / m / 2) <= 3166 / m) by (apply N.mul_div_le; lia).
  assert (H4 : 6 <= 3166 / m / 2).
  { change 6 with (12 / 2). apply N.div_le_mono; lia. }
  split; [lia|].
  assert (N.min (3166 / m / 2) 255 * m <= (3166 / m / 2) * m) by (apply N.mul_le_mono_r; lia).
  nia.
Qed.

Lemma rx_handshake_req_cases s gatt addr h p :
  match process_rx_handshake_req s gatt addr h p with
  | Ok s' => exists ver m w, s' = setup_state s addr ver m w /\ 20 <= m <= 244 /\ 1 <= w <= 255 /\
                             w * m <= 1583
  | Err _ => True
  | Panic _ => False
  end.
Proof.
  unfold process_rx_handshake_req.
  destruct (check_handshake_integrity h) eqn:EC; cbn [bind]; trivial.
  2:{ unfold check_handshake_integrity in EC. destruct (_ || _); discriminate. }
  destruct (hsreq_decode p) as [req| |] eqn:ED; cbn [bind]; trivial.
  2:{ unfold hsreq_decode in ED.
      repeat (match type of ED with bind (take1 ?l) _ = _ => destruct l as [|? ?]; cbn [take1 bind] in ED; [discriminate|] end).
      discriminate. }
  destruct (N.eqb_spec (q_ws req) 0) as [|Hws]; trivial.
  match goal with |- context[clamp ?x MIN_MTU MAX_MTU] => set (m0 := clamp x MIN_MTU MAX_MTU) end.
  assert (Hm0 : 23 <= m0 <= 247) by (unfold m0, clamp, MIN_MTU, MAX_MTU; lia).
  unfold GATT_HDR. rewrite csub_ok by lia. cbn [bind].
  destruct (initial_window_ok (m0 - 3)) as (iw & -> & Hiw & Hprod); [lia|]. cbn [bind].
  rewrite setup_eq by lia.
  eexists _, (m0 - 3), (N.min (q_ws req) iw). split; [reflexivity|].
  split; [lia|]. split; [lia|].
  assert (N.min (q_ws req) iw * (m0 - 3) <= iw * (m0 - 3)) by (apply N.mul_le_mono_r; lia).
  lia.
Qed.

Lemma rx_handshake_resp_cases s addr h p :
  bytes_ok p ->
  match process_rx_handshake_resp s addr h p with
  | Ok s' => exists ver m w, s' = setup_state s addr ver m w /\ 20 <= m <= 244 /\ 1 <= w <= 255
  | Err _ => True
  | Panic _ => False
  end.
Proof.
  intro Hp. unfold process_rx_handshake_resp.
  destruct (check_handshake_integrity h) eqn:EC; cbn [bind]; trivial.
  2:{ unfold check_handshake_integrity in EC. destruct (_ || _); discriminate. }
  destruct (hsresp_decode p) as [resp| |] eqn:ED; cbn [bind]; trivial.
  2:{ unfold hsresp_decode in ED.
      repeat (match type of ED with bind (take1 ?l) _ = _ => destruct l as [|? ?]; cbn [take1 bind] in ED; [discriminate|] end).
      discriminate. }
  pose proof (hsresp_decode_facts _ _ ED Hp) as Hw.
  unfold MIN_MTU, MAX_MTU, GATT_HDR.
  destruct (N.ltb_spec (p_mtu resp) (23 - 3)); cbn [orb]; trivial.
  destruct (N.ltb_spec (247 - 3) (p_mtu resp)); cbn [orb]; trivial.
  destruct (N.eqb_spec (p_ws resp) 0); trivial.
  rewrite setup_eq by lia.
  eexists _, _, _. split; [reflexivity|]. lia.
Qed.

(** * one operation *)

Definition hinv (i : inner) (q : rstate) : Prop :=
  inner_ok i /\ rel (recv (sess i)) q.

Lemma rel_same_rx r r' q : rel r q -> same_rx r r' -> rel r' q.
Proof.
  intros (H1 & H2 & H3 & H4 & H5) (E1 & E2 & E3). unfold rel.
  rewrite E1, E2, E3. auto.
Qed.

Lemma rx_data_cases s h p q :
  sess_ok s -> rel (recv s) q -> h_len h < 65536 ->
  match process_rx_data s h p with
  | Ok s' => sess_ok s' /\ exists q', reasm_step q h p = Some q' /\ rel (recv s') q'
  | Err _ => True
  | Panic _ => False
  end.
Proof.
  intros (Hsw & Hrw & Hmtu & H4) Hrel Hlen. unfold process_rx_data.
  destruct (sw_check_incoming (send s) h) as [[]| |] eqn:Ec; cbn [bind]; trivial;
    [|eapply (sw_check_no_panic _ _ _ Hsw); exact Ec].
  pose proof Hsw as (Hw & Hl & Hs).
  destruct (rw_accept_incoming (recv s) h p (mtu s)) as [r'| |] eqn:Ea; cbn [bind]; trivial;
    [|eapply (rw_accept_no_panic _ _ _ _ _ _ Hrw Hw); exact Ea].
  rewrite (sw_accept_after_check _ _ Hsw Ec). cbn [bind].
  pose proof (sw_check_ok_inv _ _ Hsw Ec) as Hd.
  pose proof (rw_accept_keeps_ok _ _ _ _ _ _ Hrw Hw Ea) as Hrw'.
  destruct Hrw as (_ & _ & _ & Hcap).
  destruct (accept_reasm _ _ _ _ _ _ Hrel Hcap Hlen Ea) as (q' & Hq & Hrel').
  split; [|exists q'; split; assumption].
  unfold sess_ok. cbn [send recv mtu hs_pending initiator].
  destruct (get_ack h) as [a|].
  - unfold sw_ok. cbn [swin slevel slast].
    split; [lia|]. split; [exact Hrw'|]. split; [exact Hmtu|].
    intros Hp Hi. specialize (H4 Hp Hi). lia.
  - split; [exact Hsw|]. split; [exact Hrw'|]. split; [exact Hmtu|exact H4].
Qed.

Lemma process_rx_cases s g a d q :
  sess_ok s -> rel (recv s) q -> bytes_ok d ->
  match process_rx s g a d with
  | Ok s' => sess_ok s' /\
             exists h p, hdr_decode d = Ok (h, p) /\
               if fH h then rel (recv s') rs_init
               else exists q', reasm_step q h p = Some q' /\ rel (recv s') q'
  | Err _ => True
  | Panic _ => False
  end.
Proof.
  intros Hs Hrel Hd. unfold process_rx.
  destruct (hdr_decode d) as [[h p]| |] eqn:Edec; cbn [bind]; trivial.
  2:{ unfold hdr_decode in Edec.
      repeat (match type of Edec with
              | bind (take1 ?l) _ = _ => destruct l as [|? ?]; cbn [take1 bind] in Edec; [discriminate|]
              | bind (bind (take1 ?l) _) _ = _ => destruct l as [|? ?]; cbn [take1 bind] in Edec; [discriminate|]
              | bind (if ?c then _ else _) _ = _ => destruct c
              | bind (Ok _) _ = _ => cbn [bind] in Edec
              end); discriminate. }
  destruct (hdr_decode_facts _ _ _ Edec Hd) as (Hp & Hlen & _ & _).
  destruct (fH h) eqn:EH.
  - destruct (initiator s).
    + pose proof (rx_handshake_resp_cases s a h p Hp) as Hc.
      destruct (process_rx_handshake_resp s a h p); trivial.
      destruct Hc as (ver & m & w & -> & Hm & Hw).
      split; [apply setup_state_ok; assumption|].
      exists h, p. split; [reflexivity|]. rewrite EH. apply setup_state_rel.
    + pose proof (rx_handshake_req_cases s g a h p) as Hc.
      destruct (process_rx_handshake_req s g a h p); trivial.
      destruct Hc as (ver & m & w & -> & Hm & Hw & _).
      split; [apply setup_state_ok; assumption|].
      exists h, p. split; [reflexivity|]. rewrite EH. apply setup_state_rel.
  - pose proof (rx_data_cases s h p q Hs Hrel Hlen) as Hc.
    destruct (process_rx_data s h p); trivial.
    destruct Hc as (Hs' & q' & Hq & Hrel').
    split; [assumption|]. exists h, p. split; [reflexivity|]. rewrite EH. eauto.
Qed.

Definition op_ok (o : op) : Prop :=
  match o with OIn _ _ d => bytes_ok d | _ => True end.

Lemma le16_split x : le16 x = [x mod 256; x / 256].
Proof. reflexivity. Qed.

(** a fetch pops exactly the oldest reassembled SDU *)
Lemma fetch_rel r q cap :
  rel r q -> 0 < rmsgs r ->
  exists x t, q_done q = x :: t /\
    rw_fetch r cap =
      (mkRW (concat (map enc t) ++ penc (q_cur q)) (rmsgs r - 1) (rlevel r) (rack_level r)
            (rack_seq r) (rrem r),
       Ok (firstn (N.to_nat cap) x)).
Proof.
  intros (Hbuf & Hrem & Hcur & Hmsgs & Hdone) Hpos.
  destruct (q_done q) as [|x t] eqn:Ed; [cbn [length] in Hmsgs; lia|].
  exists x, t. split; [reflexivity|].
  inversion Hdone as [|? ? Hx Ht]; subst.
  unfold rw_fetch. destruct (N.eqb_spec (rmsgs r) 0); [lia|].
  rewrite Hbuf. cbn [map concat]. unfold enc at 1. rewrite le16_split.
  cbn [app]. rewrite le16_value.
  set (rest := concat (map enc t) ++ penc (q_cur q)).
  rewrite <- app_assoc. fold rest.
  assert (Hpl : N.min (blen x) cap <= blen x) by lia.
  assert (Hgot : firstn (N.to_nat (N.min (blen x) cap)) (x ++ rest) = firstn (N.to_nat cap) x).
  { rewrite firstn_app.
    replace (N.to_nat (N.min (blen x) cap) - length x)%nat with 0%nat by (unfold blen in *; lia).
    cbn [firstn]. rewrite app_nil_r.
    destruct (N.le_ge_cases (blen x) cap).
    - rewrite !firstn_all2 by (unfold blen in *; lia). reflexivity.
    - replace (N.min (blen x) cap) with cap by lia. reflexivity. }
  rewrite Hgot.
  assert (Hgl : blen (firstn (N.to_nat cap) x) = N.min (blen x) cap).
  { rewrite blen_firstn. lia. }
  rewrite Hgl, N.eqb_refl. cbn [negb].
  assert (Hskip : skipn (N.to_nat (blen x - N.min (blen x) cap))
                    (skipn (N.to_nat (N.min (blen x) cap)) (x ++ rest)) = rest).
  { rewrite skipn_skipn'.
    replace (N.to_nat (blen x - N.min (blen x) cap) + N.to_nat (N.min (blen x) cap))%nat
      with (N.to_nat (blen x)) by lia.
    apply skipn_blen_app. }
  rewrite Hskip.
  destruct (N.ltb_spec (blen (skipn (N.to_nat (N.min (blen x) cap)) (x ++ rest)))
                       (blen x - N.min (blen x) cap)) as [Hlt|].
  { rewrite blen_skipn, blen_app in Hlt. lia. }
  rewrite csub_ok by lia. reflexivity.
Qed.

Lemma step_hinv i q o :
  hinv i q -> op_ok o ->
  exists q', mon_step q o (snd (step i o)) = Some q' /\ hinv (fst (step i o)) q'.
Proof.
  intros (Hi & Hrel) Hop. pose proof Hi as (Hs & Hoff).
  destruct o as [g a d|g t cap|d a|cap| |b|b]; cbn [step op_ok] in *.
  - (* process_incoming *)
    unfold process_incoming.
    pose proof (process_rx_cases (sess i) g a d q Hs Hrel Hop) as Hc.
    destruct (process_rx (sess i) g a d) as [s'| |]; cbn [bind fst snd mon_step is_bad].
    + destruct Hc as (Hs' & h & p & -> & Hh).
      destruct (fH h).
      * exists rs_init. split; [reflexivity|]. split; [split; assumption|assumption].
      * destruct Hh as (q' & -> & Hrel'). exists q'. split; [reflexivity|].
        split; [split; assumption|assumption].
    + exists q. split; [reflexivity|]. split; assumption.
    + contradiction.
  - (* process_outgoing *)
    pose proof (process_outgoing_ok i g t cap Hi) as Hc.
    destruct (process_outgoing i g t cap) as [i' r]. destruct Hc as (Hnp & Hi' & Hrx).
    destruct r as [bts|c|s0]; cbn [fst snd mon_step is_bad].
    + exists q. split; [reflexivity|]. split; [assumption|eapply rel_same_rx; eassumption].
    + exists q. split; [reflexivity|]. split; [assumption|eapply rel_same_rx; eassumption].
    + exfalso. eapply Hnp. reflexivity.
  - (* send *)
    unfold inner_send.
    destruct ((blen d =? 0) || (MAX_TX <? blen d)); cbn [fst snd mon_step is_bad].
    + exists q. split; [reflexivity|]. split; assumption.
    + destruct (blen (out_buf i) =? 0); cbn [fst snd mon_step is_bad];
        exists q; (split; [reflexivity|]); (split; [|assumption]); [|exact Hi].
      unfold inner_ok. cbn [sess out_off out_buf]. split; [assumption|lia].
  - (* recv *)
    unfold inner_recv.
    destruct (N.ltb_spec 0 (rmsgs (recv (sess i)))) as [Hpos|Hz].
    + destruct (fetch_rel _ _ cap Hrel Hpos) as (x & t & Ed & ->).
      cbn [fst snd mon_step is_bad]. rewrite Ed, bytes_eqb_refl.
      eexists. split; [reflexivity|].
      destruct Hrel as (Hbuf & Hrem & Hcur & Hmsgs & Hdone).
      destruct Hs as (Hsw & (Hsum & Hm & Hseq & Hcap) & Hmtu & H4).
      rewrite Ed in *. inversion Hdone; subst.
      split.
      * unfold inner_ok, sess_ok, rw_ok. cbn [sess out_off out_buf send recv mtu hs_pending initiator
          rlevel rack_level rmsgs rack_seq rbuf].
        split; [|assumption]. split; [assumption|]. split; [|split; assumption].
        repeat split; try lia.
        rewrite Hbuf in Hcap. cbn [map concat] in Hcap. rewrite <- app_assoc, blen_app in Hcap. lia.
      * unfold rel. cbn [sess recv rbuf rrem rmsgs q_done q_cur].
        repeat split; try assumption. cbn [length] in Hmsgs. lia.
    + cbn [fst snd mon_step is_bad]. exists q. split; [reflexivity|]. split; assumption.
  - (* reset *)
    cbn [fst snd mon_step is_bad]. exists rs_init. split; [reflexivity|].
    unfold hinv, inner_reset, sess_reset, inner_ok, sess_ok, sw_ok, rw_ok.
    cbn [sess out_off out_buf send recv mtu hs_pending initiator sendw_new recvw_new
         swin slevel slast rlevel rack_level rmsgs rack_seq rbuf].
    rewrite !blen_nil. unfold RX_CAP.
    split; [|apply rel_init].
    repeat split; try lia.
    intros Ha Hb. rewrite Ha in Hb. discriminate.
  - (* set_initiator *)
    cbn [fst snd mon_step is_bad]. exists q. split; [reflexivity|].
    destruct Hs as (Hsw & Hrw & Hmtu & H4).
    split; [|exact Hrel].
    unfold inner_ok, sess_ok, set_initiator. cbn [sess out_off out_buf send recv mtu hs_pending initiator].
    split; [|assumption]. split; [assumption|]. split; [assumption|]. split; [assumption|].
    intros Ha Hb. rewrite Ha in Hb. discriminate.
  - (* set_relaxed *)
    cbn [fst snd mon_step is_bad]. exists q. split; [reflexivity|]. split; [|exact Hrel].
    unfold inner_ok, sess_ok, set_relaxed. cbn [sess out_off out_buf send recv mtu hs_pending initiator].
    split; assumption.
Qed.

(** * every run *)

Lemma run_cons i o ops :
  run i (o :: ops) = (fst (run (fst (step i o)) ops), snd (step i o) :: snd (run (fst (step i o)) ops)).
Proof.
  cbn [run]. destruct (step i o) as [i1 r]. cbn [fst snd].
  destruct (run i1 ops) as [i2 rs]. reflexivity.
Qed.

Lemma mon_run_hinv ops : forall i q,
  hinv i q -> Forall op_ok ops -> mon_run q ops (snd (run i ops)) = true.
Proof.
  induction ops as [|o ops IH]; intros i q Hinv Hops.
  - reflexivity.
  - inversion Hops as [|? ? Ho Hrest]; subst.
    rewrite run_cons. cbn [snd mon_run].
    destruct (step_hinv i q o Hinv Ho) as (q' & -> & Hinv').
    apply IH; assumption.
Qed.

Theorem hostile_safe ops :
  Forall op_ok ops -> mon_endpoint ops (snd (run inner_new ops)) = true.
Proof.
  intro Hops. unfold mon_endpoint. apply mon_run_hinv; [|assumption].
  split; [apply inner_new_ok|]. apply (rel_init 0 0 255).
Qed.

(** a refused segment leaves the end exactly as it was *)
Theorem refused_changes_nothing i g a d c :
  snd (step i (OIn g a d)) = RErr c -> fst (step i (OIn g a d)) = i.
Proof.
  cbn [step]. destruct (process_incoming i g a d); cbn [fst snd]; intro H; try discriminate.
  reflexivity.
Qed.

(** no operation on a reachable state panics (consequence of [hostile_safe],
    stated on its own) *)
Lemma mon_run_no_panic ops : forall q rs, mon_run q ops rs = true -> Forall (fun r => is_bad r = false) rs.
Proof.
  induction ops as [|o ops IH]; intros q rs H; destruct rs as [|r rs]; cbn [mon_run] in H; try discriminate.
  - constructor.
  - destruct (mon_step q o r) as [q'|] eqn:Es; [|discriminate].
    constructor; [|eapply IH; eassumption].
    unfold mon_step in Es. destruct (is_bad r); [discriminate|reflexivity].
Qed.

Theorem hostile_never_panics ops :
  Forall op_ok ops -> Forall (fun r => is_bad r = false) (snd (run inner_new ops)).
Proof. intro H. eapply mon_run_no_panic. apply hostile_safe. assumption. Qed.
