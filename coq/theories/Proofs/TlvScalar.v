(** The minimal-width writer API reads back, through the matching typed
    accessor, as the value that was written. *)
From Coq Require Import NArith ZArith List Bool Lia ZifyN ZifyBool.
From RsM Require Import Model.Tlv Proofs.TlvFacts Proofs.TlvWriter.
Import ListNotations.
Open Scope N_scope.

Lemma vtype_eqb_refl a : vtype_eqb a a = true.
Proof. unfold vtype_eqb. apply N.eqb_refl. Qed.

Lemma vtype_eqb_neq a b : a <> b -> vtype_eqb a b = false.
Proof.
  intros H. unfold vtype_eqb. apply N.eqb_neq. intros E. apply H.
  destruct a as [[]|[]| | | | |[]|[]| |[]|], b as [[]|[]| | | | |[]|[]| |[]|];
    try reflexivity; vm_compute in E; discriminate.
Qed.

Lemma fixed_shape vt n v : fixed_size vt = Some (N.of_nat n) -> varlen vt = 0 ->
  shape vt [] (le_bytes n v).
Proof.
  intros Hf Hv. split; [rewrite blen_nil; auto|]. rewrite Hf, le_bytes_blen. reflexivity.
Qed.

(** reading a fixed-width unsigned of width [w'] with the accessor chain *)
Lemma raw_value_u t w n rest :
  value (w_raw_value t (TU w) (le_bytes (wnat w) n) ++ rest) (tagtype_of_tag t, TU w)
  = ROk (le_bytes (wnat w) n).
Proof.
  change (le_bytes (wnat w) n) with ([] ++ le_bytes (wnat w) n) at 1.
  apply sh_value. apply fixed_shape; [cbn; f_equal; apply wlen_wnat|reflexivity].
Qed.

Lemma el_fixed_hit t w n rest other :
  n < wfull w ->
  el_fixed (w_raw_value t (TU w) (le_bytes (wnat w) n) ++ rest) (TU w) (wlen w) other = ROk n.
Proof.
  intros Hn. unfold el_fixed. rewrite raw_control. cbn [rbind snd].
  rewrite vtype_eqb_refl, raw_value_u. cbn [rbind].
  unfold le_exact_err. rewrite le_bytes_blen, <- wlen_wnat, N.eqb_refl.
  rewrite le_val_le_bytes_small by (rewrite <- wfull_pow; exact Hn). reflexivity.
Qed.

Lemma el_fixed_miss t vt p rest vt' n other :
  vt <> vt' ->
  el_fixed (w_raw_value t vt p ++ rest) vt' n other = other.
Proof.
  intros H. unfold el_fixed. rewrite raw_control. cbn [rbind snd].
  rewrite vtype_eqb_neq by exact H. reflexivity.
Qed.

Theorem w_u64_read t n rest :
  n < two64 -> el_u64 (w_u64 t n ++ rest) = ROk n.
Proof.
  intros Hn. unfold w_u64, w_u32, w_u16, w_u8.
  destruct (N.leb_spec n 4294967295); [|].
  2:{ unfold el_u64. apply (el_fixed_hit t W8). exact Hn. }
  destruct (N.leb_spec n 65535).
  2:{ unfold el_u64. rewrite el_fixed_miss by discriminate.
      unfold el_u32. apply (el_fixed_hit t W4). cbn. lia. }
  destruct (N.leb_spec n 255).
  2:{ unfold el_u64. rewrite el_fixed_miss by discriminate.
      unfold el_u32. rewrite el_fixed_miss by discriminate.
      unfold el_u16. apply (el_fixed_hit t W2). cbn. lia. }
  unfold el_u64. rewrite el_fixed_miss by discriminate.
  unfold el_u32. rewrite el_fixed_miss by discriminate.
  unfold el_u16. rewrite el_fixed_miss by discriminate.
  unfold el_u8. apply (el_fixed_hit t W1). cbn. lia.
Qed.

Theorem w_u64_tag t n rest : wf_tag t -> el_tag (w_u64 t n ++ rest) = ROk t.
Proof.
  intros Hw. unfold w_u64, w_u32, w_u16, w_u8.
  destruct (_ <=? _); [destruct (_ <=? _); [destruct (_ <=? _)|]|]; apply raw_el_tag; exact Hw.
Qed.

(** signed *)
Lemma raw_value_s t w u rest :
  value (w_raw_value t (TS w) (le_bytes (wnat w) u) ++ rest) (tagtype_of_tag t, TS w)
  = ROk (le_bytes (wnat w) u).
Proof.
  change (le_bytes (wnat w) u) with ([] ++ le_bytes (wnat w) u) at 1.
  apply sh_value. apply fixed_shape; [cbn; f_equal; apply wlen_wnat|reflexivity].
Qed.

Lemma signed_hit t w z rest other :
  (- Z.of_N (whalf w) <= z < Z.of_N (whalf w))%Z ->
  (let! c := control (w_raw_value t (TS w) (le_bytes (wnat w) (of_signed w z)) ++ rest) in
   if vtype_eqb (snd c) (TS w) then
     let! v := value (w_raw_value t (TS w) (le_bytes (wnat w) (of_signed w z)) ++ rest) c in
     rmap (to_signed w) (le_exact_err (wlen w) v)
   else other) = ROk z.
Proof.
  intros Hz. rewrite raw_control. cbn [rbind snd].
  rewrite vtype_eqb_refl, raw_value_s. cbn [rbind].
  unfold le_exact_err. rewrite le_bytes_blen, <- wlen_wnat, N.eqb_refl. cbn [rmap rbind].
  rewrite le_val_le_bytes_small by (rewrite <- wfull_pow; apply of_signed_lt).
  rewrite to_of_signed by exact Hz. reflexivity.
Qed.

Lemma signed_miss t vt p rest vt' w n other :
  vt <> vt' ->
  (let! c := control (w_raw_value t vt p ++ rest) in
   if vtype_eqb (snd c) vt' then
     let! v := value (w_raw_value t vt p ++ rest) c in
     rmap (to_signed w) (le_exact_err n v)
   else other) = other.
Proof.
  intros H. rewrite raw_control. cbn [rbind snd]. rewrite vtype_eqb_neq by exact H. reflexivity.
Qed.

Lemma el_i8_hit t z rest :
  (-128 <= z <= 127)%Z ->
  el_i8 (w_raw_value t (TS W1) (le_bytes 1 (of_signed W1 z)) ++ rest) = ROk z.
Proof.
  intros Hz. unfold el_i8, el_fixed. rewrite raw_control. cbn [rbind snd].
  rewrite vtype_eqb_refl. rewrite (raw_value_s t W1). cbn [rbind].
  unfold le_exact_err. rewrite le_bytes_blen. change (N.of_nat (wnat W1) =? 1) with true.
  cbn [rmap rbind].
  rewrite le_val_le_bytes_small by (apply (of_signed_lt W1)).
  rewrite to_of_signed by (cbn; lia). reflexivity.
Qed.

Theorem w_i64_read t z rest :
  (- 9223372036854775808 <= z < 9223372036854775808)%Z ->
  el_i64 (w_i64 t z ++ rest) = ROk z.
Proof.
  intros Hz. unfold w_i64, w_i32, w_i16, w_i8.
  destruct ((-2147483648 <=? z) && (z <=? 2147483647))%Z eqn:E32.
  2:{ unfold el_i64. apply (signed_hit t W8). cbn [whalf]. unfold two63. lia. }
  destruct ((-32768 <=? z) && (z <=? 32767))%Z eqn:E16.
  2:{ unfold el_i64. rewrite signed_miss by discriminate.
      unfold el_i32. apply (signed_hit t W4). cbn [whalf]. lia. }
  destruct ((-128 <=? z) && (z <=? 127))%Z eqn:E8.
  2:{ unfold el_i64. rewrite signed_miss by discriminate.
      unfold el_i32. rewrite signed_miss by discriminate.
      unfold el_i16. apply (signed_hit t W2). cbn [whalf]. lia. }
  unfold el_i64. rewrite signed_miss by discriminate.
  unfold el_i32. rewrite signed_miss by discriminate.
  unfold el_i16. rewrite signed_miss by discriminate.
  apply el_i8_hit. lia.
Qed.

(** strings *)
Lemma min_width_fits len : len < two64 -> len < wfull (min_width len).
Proof.
  intros H. unfold min_width.
  destruct (N.leb_spec len 255); [cbn; lia|].
  destruct (N.leb_spec len 65535); [cbn; lia|].
  destruct (N.leb_spec len 4294967295); [cbn; lia|]. exact H.
Qed.

Lemma str_shape vt w d :
  varlen vt = wlen w -> fixed_size vt = None -> blen d < wfull w ->
  shape vt (le_bytes (wnat w) (blen d)) d.
Proof.
  intros Hv Hf Hd. split.
  - rewrite le_bytes_blen, Hv. symmetry. apply wlen_wnat.
  - rewrite Hf. apply le_val_le_bytes_small. rewrite <- wfull_pow. exact Hd.
Qed.

Lemma w_str_raw t d :
  w_str t d = w_raw_value t (TStr (min_width (blen d)))
                (le_bytes (wnat (min_width (blen d))) (blen d) ++ d).
Proof. unfold w_str, w_raw_value. cbn [app]. rewrite <- app_assoc. reflexivity. Qed.
Lemma w_utf8_raw t d :
  w_utf8 t d = w_raw_value t (TUtf (min_width (blen d)))
                 (le_bytes (wnat (min_width (blen d))) (blen d) ++ d).
Proof. unfold w_utf8, w_raw_value. cbn [app]. rewrite <- app_assoc. reflexivity. Qed.

Theorem w_str_read t d rest :
  blen d < two64 -> el_str (w_str t d ++ rest) = ROk d.
Proof.
  intros Hd. rewrite w_str_raw. unfold el_str. rewrite raw_control. cbn [rbind snd is_str_vt].
  apply sh_value. apply str_shape; [reflexivity|reflexivity|apply min_width_fits; exact Hd].
Qed.

Theorem w_utf8_read t d rest :
  blen d < two64 -> utf8_valid d = true -> el_utf8 (w_utf8 t d ++ rest) = ROk d.
Proof.
  intros Hd Hu. rewrite w_utf8_raw. unfold el_utf8. rewrite raw_control. cbn [rbind snd is_utf8_vt].
  rewrite sh_value by (apply str_shape; [reflexivity|reflexivity|apply min_width_fits; exact Hd]).
  cbn [rbind]. rewrite Hu. reflexivity.
Qed.

Theorem w_bool_read t b rest : el_bool (w_bool t b ++ rest) = ROk b.
Proof. unfold el_bool, w_bool. rewrite raw_control. destruct b; reflexivity. Qed.

Theorem w_null_read t rest : el_null (w_null t ++ rest) = ROk tt.
Proof. unfold el_null, w_null. rewrite raw_control. reflexivity. Qed.

Theorem w_f32_read t b rest : b < 4294967296 -> el_f32 (w_f32 t b ++ rest) = ROk b.
Proof.
  intros Hb. unfold el_f32, w_f32, el_fixed. rewrite raw_control. cbn [rbind snd].
  rewrite vtype_eqb_refl.
  change (le_bytes 4 b) with ([] ++ le_bytes 4 b) at 1.
  rewrite sh_value by (apply fixed_shape; reflexivity). cbn [rbind].
  unfold le_exact_err. rewrite le_bytes_blen. change (N.of_nat 4 =? 4) with true.
  rewrite le_val_le_bytes_small by (cbn; lia). reflexivity.
Qed.

Theorem w_f64_read t b rest : b < two64 -> el_f64 (w_f64 t b ++ rest) = ROk b.
Proof.
  intros Hb. unfold el_f64, w_f64, el_fixed. rewrite raw_control. cbn [rbind snd].
  rewrite vtype_eqb_refl.
  change (le_bytes 8 b) with ([] ++ le_bytes 8 b) at 1.
  rewrite sh_value by (apply fixed_shape; reflexivity). cbn [rbind].
  unfold le_exact_err. rewrite le_bytes_blen. change (N.of_nat 8 =? 8) with true.
  rewrite le_val_le_bytes_small by (unfold two64 in Hb; cbn; lia). reflexivity.
Qed.

(** the writer picks the smallest width that holds the value *)
Theorem w_u64_minimal t n :
  n < two64 ->
  exists w, w_u64 t n = w_tlv t (VU w n) /\ n < wfull w /\
            (forall w', n < wfull w' -> widx w <= widx w').
Proof.
  intros Hn. unfold w_u64, w_u32, w_u16, w_u8.
  destruct (N.leb_spec n 4294967295).
  2:{ exists W8. split; [rewrite w_tlv_raw; reflexivity|]. split; [exact Hn|].
      intros [] H'; cbn in *; lia. }
  destruct (N.leb_spec n 65535).
  2:{ exists W4. split; [rewrite w_tlv_raw; reflexivity|]. split; [cbn; lia|].
      intros [] H'; cbn in *; lia. }
  destruct (N.leb_spec n 255).
  2:{ exists W2. split; [rewrite w_tlv_raw; reflexivity|]. split; [cbn; lia|].
      intros [] H'; cbn in *; lia. }
  exists W1. split; [rewrite w_tlv_raw; reflexivity|]. split; [cbn; lia|].
  intros [] H'; cbn in *; lia.
Qed.
