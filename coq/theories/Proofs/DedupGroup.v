(** The group counter store: per-sender isolation, trust-first, LRU eviction. *)
From RsM Require Import Lib.MachInt Model.Dedup Proofs.DedupFacts.
From Coq Require Import ZifyN ZifyBool.
Open Scope N_scope.

Arguments N.ltb : simpl never.
Arguments N.eqb : simpl never.

Lemma NoDup_insert_mid {A} (l1 l2 : list A) (x : A) :
  NoDup (l1 ++ l2) -> ~ In x (l1 ++ l2) -> NoDup (l1 ++ x :: l2).
Proof.
  induction l1 as [|a t IH]; cbn [app]; intros Hnd Hnin.
  - constructor; assumption.
  - inversion Hnd as [|? ? Ha Ht]; subst. constructor.
    + intro Hin. apply in_app_or in Hin as [Hin|[->|Hin]].
      * apply Ha. apply in_or_app. left. assumption.
      * apply Hnin. left. reflexivity.
      * apply Ha. apply in_or_app. right. assumption.
    + apply IH; [assumption|]. intro Hin. apply Hnin. right. assumption.
Qed.

Lemma NoDup_app_snoc_key {A} (l : list A) (x : A) :
  NoDup l -> ~ In x l -> NoDup (l ++ [x]).
Proof.
  intros H1 H2. apply NoDup_insert_mid; rewrite app_nil_r; assumption.
Qed.

Definition g_lookup (l : list gentry) (f n : N) : option gentry :=
  find (fun e => gkey_eq e f n) l.

Definition same_key (e : gentry) (f n : N) : Prop := g_fab e = f /\ g_node e = n.

Lemma gkey_eq_true e f n : gkey_eq e f n = true <-> same_key e f n.
Proof. unfold gkey_eq, same_key. rewrite andb_true_iff, !N.eqb_eq. tauto. Qed.

Lemma gkey_eq_false e f n : gkey_eq e f n = false <-> ~ same_key e f n.
Proof. rewrite <- gkey_eq_true. destruct (gkey_eq e f n); split; congruence. Qed.

(** ** update of a tracked sender *)

Lemma g_update_none l f n c clk :
  g_lookup l f n = None -> g_update l f n c clk = None.
Proof.
  induction l as [|e t IH]; [reflexivity|]. unfold g_lookup. cbn [find g_update].
  destruct (gkey_eq e f n); [discriminate|]. intros H.
  unfold g_lookup in IH. rewrite (IH H). reflexivity.
Qed.

Lemma g_update_some l f n c clk e :
  g_lookup l f n = Some e ->
  exists l',
    g_update l f n c clk = Some (l', snd (post_recv (g_rx e) c true true)) /\
    g_lookup l' f n =
      Some (mkGE (g_fab e) (g_node e) (fst (post_recv (g_rx e) c true true)) clk) /\
    length l' = length l /\
    (forall f2 n2, ~ (f2 = f /\ n2 = n) -> g_lookup l' f2 n2 = g_lookup l f2 n2) /\
    map (fun x => (g_fab x, g_node x)) l' = map (fun x => (g_fab x, g_node x)) l.
Proof.
  induction l as [|x t IH]; [discriminate|]. unfold g_lookup. cbn [find g_update].
  destruct (gkey_eq x f n) eqn:Ek.
  - intros H. injection H as <-.
    destruct (post_recv (g_rx x) c true true) as [r a] eqn:Ep. cbn [fst snd].
    eexists. split; [reflexivity|].
    apply gkey_eq_true in Ek as [Ef En].
    repeat split.
    + cbn [find]. unfold gkey_eq. cbn [g_fab g_node]. rewrite Ef, En, !N.eqb_refl. reflexivity.
    + intros f2 n2 Hne. cbn [find]. unfold gkey_eq. cbn [g_fab g_node].
      assert (E : (g_fab x =? f2) && (g_node x =? n2) = false).
      { apply andb_false_iff.
        destruct (N.eqb_spec (g_fab x) f2), (N.eqb_spec (g_node x) n2); auto.
        exfalso. apply Hne. split; congruence. }
      rewrite E. reflexivity.
  - intros H. destruct (IH H) as (l' & Hu & Hl & Hlen & Hoth & Hkeys).
    rewrite Hu. eexists. split; [reflexivity|].
    repeat split.
    + cbn [find]. rewrite Ek. exact Hl.
    + cbn [length]. rewrite Hlen. reflexivity.
    + intros f2 n2 Hne. cbn [find]. destruct (gkey_eq x f2 n2); [reflexivity|].
      apply Hoth. assumption.
    + cbn [map]. rewrite Hkeys. reflexivity.
Qed.

(** ** LRU index *)

Lemma g_min_idx_spec (t P : list gentry) (best : nat) (eb : gentry) :
  nth_error P best = Some eb ->
  (forall x, In x P -> g_last eb <= g_last x) ->
  exists er,
    nth_error (P ++ t) (g_min_idx t (length P) best (g_last eb)) = Some er /\
    forall x, In x (P ++ t) -> g_last er <= g_last x.
Proof.
  revert P best eb. induction t as [|e t IH]; intros P best eb Hb Hmin.
  - cbn [g_min_idx]. rewrite app_nil_r. exists eb. split; assumption.
  - cbn [g_min_idx].
    replace (P ++ e :: t) with ((P ++ [e]) ++ t) by (rewrite <- app_assoc; reflexivity).
    replace (S (length P)) with (length (P ++ [e])) by (rewrite app_length; cbn; lia).
    destruct (N.ltb_spec (g_last e) (g_last eb)) as [Hlt|Hge].
    + apply IH.
      * rewrite nth_error_app2 by lia. rewrite Nat.sub_diag. reflexivity.
      * intros x Hin. apply in_app_or in Hin as [Hin|[<-|[]]]; [|lia].
        specialize (Hmin _ Hin). lia.
    + apply IH.
      * rewrite nth_error_app1; [assumption|]. apply nth_error_Some. congruence.
      * intros x Hin. apply in_app_or in Hin as [Hin|[<-|[]]]; [|lia].
        apply Hmin. assumption.
Qed.

Lemma g_lru_spec (l : list gentry) :
  l <> [] ->
  exists er, nth_error l (g_lru l) = Some er /\ forall x, In x l -> g_last er <= g_last x.
Proof.
  destruct l as [|e t]; [congruence|]. intros _. unfold g_lru.
  apply (g_min_idx_spec t [e] 0%nat e).
  - reflexivity.
  - intros x [<-|[]]. lia.
Qed.

Lemma replace_nth_split {A} (l : list A) (i : nat) (x y : A) :
  nth_error l i = Some x ->
  exists l1 l2, l = l1 ++ x :: l2 /\ replace_nth l i y = l1 ++ y :: l2.
Proof.
  revert i. induction l as [|a t IH]; intros i; [destruct i; discriminate|].
  destruct i as [|i]; cbn [nth_error replace_nth].
  - intros H. injection H as ->. exists [], t. split; reflexivity.
  - intros H. destruct (IH _ H) as (l1 & l2 & E1 & E2).
    exists (a :: l1), l2. cbn [app]. rewrite <- E1, <- E2. split; reflexivity.
Qed.

(** ** the store invariant: keys are pairwise distinct, at most 16 entries *)

Definition gkeys (l : list gentry) := map (fun x => (g_fab x, g_node x)) l.

Definition GInv (st : gstore) : Prop :=
  NoDup (gkeys (g_entries st)) /\ (length (g_entries st) <= MAX_GROUP_CTR_ENTRIES)%nat.

Lemma lookup_none_notin l f n :
  g_lookup l f n = None <-> ~ In (f, n) (gkeys l).
Proof.
  unfold g_lookup, gkeys. induction l as [|e t IH]; cbn [find map In]; [tauto|].
  destruct (gkey_eq e f n) eqn:Ek.
  - apply gkey_eq_true in Ek as [<- <-]. split; [discriminate|]. intros H. exfalso. apply H. left. reflexivity.
  - apply gkey_eq_false in Ek. rewrite IH. split.
    + intros H [Heq|Hin]; [|contradiction]. injection Heq as <- <-. apply Ek. split; reflexivity.
    + intros H Hin. apply H. right. assumption.
Qed.

Lemma lookup_app_notin l1 l2 f n :
  ~ In (f, n) (gkeys l1) -> g_lookup (l1 ++ l2) f n = g_lookup l2 f n.
Proof.
  intros H. apply lookup_none_notin in H. unfold g_lookup in *.
  induction l1 as [|e t IH]; [reflexivity|]. cbn [app find] in *.
  destruct (gkey_eq e f n); [discriminate|]. apply IH. assumption.
Qed.

Lemma lookup_app_in l1 l2 f n e :
  g_lookup l1 f n = Some e -> g_lookup (l1 ++ l2) f n = Some e.
Proof.
  unfold g_lookup. induction l1 as [|x t IH]; [discriminate|]. cbn [app find].
  destruct (gkey_eq x f n); [trivial|]. apply IH.
Qed.

Theorem ginv_init : GInv gstore_new.
Proof. split; [constructor|cbn; lia]. Qed.

Theorem ginv_step st f n c : GInv st -> GInv (fst (g_post_recv st f n c)).
Proof.
  intros [Hnd Hlen]. unfold GInv, g_post_recv.
  destruct (g_lookup (g_entries st) f n) as [e|] eqn:El.
  - destruct (g_update_some _ f n c (wadd32 (g_clock st) 1) e El)
      as (l' & Hu & _ & Hl & _ & Hk).
    rewrite Hu. cbn [fst g_entries]. split.
    + unfold gkeys. rewrite Hk. exact Hnd.
    + rewrite Hl. exact Hlen.
  - rewrite (g_update_none _ f n c _ El).
    destruct (Nat.ltb_spec (length (g_entries st)) MAX_GROUP_CTR_ENTRIES) as [Hlt|Hge];
      cbn [fst g_entries].
    + split.
      * unfold gkeys. rewrite map_app. cbn [map g_fab g_node].
        apply NoDup_app_snoc_key. { exact Hnd. } apply lookup_none_notin. exact El.
      * rewrite app_length. cbn [length]. rewrite Nat.add_1_r. exact Hlt.
    + assert (Hne : g_entries st <> []).
      { intro E. rewrite E in Hge. unfold MAX_GROUP_CTR_ENTRIES in Hge. cbn [length] in Hge. lia. }
      destruct (g_lru_spec _ Hne) as (er & Hnth & _).
      destruct (replace_nth_split _ _ er (mkGE f n (rx_new c) (wadd32 (g_clock st) 1)) Hnth)
        as (l1 & l2 & E1 & E2).
      rewrite E2. split.
      * unfold gkeys in *. rewrite E1 in Hnd, El. rewrite map_app in *. cbn [map g_fab g_node] in *.
        apply lookup_none_notin in El. unfold gkeys in El. rewrite map_app in El. cbn [map] in El.
        apply NoDup_remove in Hnd as [Hnd Hnotin].
        apply NoDup_insert_mid; [exact Hnd|].
        intro Hin. apply El. apply in_app_or in Hin as [Hin|Hin]; apply in_or_app;
          [left|right; right]; assumption.
      * rewrite E1 in Hlen. rewrite app_length in *. cbn [length] in *. unfold MAX_GROUP_CTR_ENTRIES in *. lia.
Qed.

(** ** What a step does to the sender it is for, and to all the others *)

Theorem g_tracked_sender st f n c e :
  g_lookup (g_entries st) f n = Some e ->
  snd (g_post_recv st f n c) = snd (post_recv (g_rx e) c true true) /\
  option_map g_rx (g_lookup (g_entries (fst (g_post_recv st f n c))) f n) =
    Some (fst (post_recv (g_rx e) c true true)) /\
  (forall f2 n2, ~ (f2 = f /\ n2 = n) ->
     g_lookup (g_entries (fst (g_post_recv st f n c))) f2 n2 =
     g_lookup (g_entries st) f2 n2).
Proof.
  intros El. unfold g_post_recv.
  destruct (g_update_some _ f n c (wadd32 (g_clock st) 1) e El)
    as (l' & Hu & Hl & _ & Hoth & _).
  rewrite Hu. cbn [fst snd g_entries]. rewrite Hl. cbn [option_map g_rx].
  repeat split. exact Hoth.
Qed.

Lemma lookup_cons_other x l f n :
  ~ same_key x f n -> g_lookup (x :: l) f n = g_lookup l f n.
Proof.
  intros H. apply gkey_eq_false in H. unfold g_lookup. cbn [find]. rewrite H. reflexivity.
Qed.

Lemma lookup_cons_same x l f n :
  same_key x f n -> g_lookup (x :: l) f n = Some x.
Proof.
  intros H. apply gkey_eq_true in H. unfold g_lookup. cbn [find]. rewrite H. reflexivity.
Qed.

Theorem g_new_sender st f n c :
  GInv st -> g_lookup (g_entries st) f n = None ->
  snd (g_post_recv st f n c) = true /\
  option_map g_rx (g_lookup (g_entries (fst (g_post_recv st f n c))) f n) = Some (rx_new c) /\
  (forall f2 n2, ~ (f2 = f /\ n2 = n) ->
     g_lookup (g_entries (fst (g_post_recv st f n c))) f2 n2 = g_lookup (g_entries st) f2 n2 \/
     (length (g_entries st) = MAX_GROUP_CTR_ENTRIES /\
      g_lookup (g_entries (fst (g_post_recv st f n c))) f2 n2 = None /\
      exists ev, g_lookup (g_entries st) f2 n2 = Some ev /\
                 forall x, In x (g_entries st) -> g_last ev <= g_last x)).
Proof.
  intros [Hnd Hlen] El. unfold g_post_recv. rewrite (g_update_none _ f n c _ El).
  set (ne := mkGE f n (rx_new c) (wadd32 (g_clock st) 1)).
  assert (Hne_key : same_key ne f n) by (split; reflexivity).
  destruct (Nat.ltb_spec (length (g_entries st)) MAX_GROUP_CTR_ENTRIES) as [Hlt|Hge];
    cbn [fst snd g_entries].
  - split; [reflexivity|]. split.
    + rewrite lookup_app_notin by (apply lookup_none_notin; exact El).
      rewrite lookup_cons_same by exact Hne_key. reflexivity.
    + intros f2 n2 Hne2. left.
      destruct (g_lookup (g_entries st) f2 n2) as [e2|] eqn:E2.
      * apply lookup_app_in. exact E2.
      * rewrite lookup_app_notin by (apply lookup_none_notin; exact E2).
        rewrite lookup_cons_other; [reflexivity|].
        intros [Hf Hn]. apply Hne2. cbn in Hf, Hn. split; congruence.
  - assert (Hnonempty : g_entries st <> []).
    { intro E. rewrite E in Hge. unfold MAX_GROUP_CTR_ENTRIES in Hge. cbn [length] in Hge. lia. }
    destruct (g_lru_spec _ Hnonempty) as (er & Hnth & Hmin).
    destruct (replace_nth_split _ _ er ne Hnth) as (l1 & l2 & E1 & E2).
    rewrite E2. split; [reflexivity|].
    assert (Hk : ~ In (f, n) (gkeys l1) /\ ~ same_key er f n).
    { apply lookup_none_notin in El. rewrite E1 in El. unfold gkeys in *.
      rewrite map_app in El. cbn [map] in El. split.
      - intro Hin. apply El. apply in_or_app. left. exact Hin.
      - intros [Hf Hn]. apply El. apply in_or_app. right. left. congruence. }
    destruct Hk as [Hk1 Hk2].
    split.
    + rewrite lookup_app_notin by exact Hk1.
      rewrite lookup_cons_same by exact Hne_key. reflexivity.
    + intros f2 n2 Hne2.
      assert (Hne_other : ~ same_key ne f2 n2).
      { intros [Hf Hn]. apply Hne2. cbn in Hf, Hn. split; congruence. }
      assert (Hlen16' : (MAX_GROUP_CTR_ENTRIES <= length (g_entries st))%nat) by exact Hge.
      rewrite E1 in Hmin. rewrite E1.
      destruct (g_lookup l1 f2 n2) as [e2|] eqn:EL1.
      * left. rewrite !(lookup_app_in l1 _ f2 n2 e2) by exact EL1. reflexivity.
      * apply lookup_none_notin in EL1.
        rewrite !lookup_app_notin by exact EL1.
        rewrite (lookup_cons_other ne) by exact Hne_other.
        destruct (gkey_eq er f2 n2) eqn:Eer.
        -- right. apply gkey_eq_true in Eer.
           assert (Hlen16 : length (g_entries st) = MAX_GROUP_CTR_ENTRIES) by lia.
           split; [rewrite <- E1; exact Hlen16|]. split.
           ++ apply lookup_none_notin.
              rewrite E1 in Hnd. unfold gkeys in Hnd. rewrite map_app in Hnd. cbn [map] in Hnd.
              apply NoDup_remove_2 in Hnd. destruct Eer as [Hf Hn]. rewrite Hf, Hn in Hnd.
              intro Hin. apply Hnd. apply in_or_app. right. exact Hin.
           ++ exists er. split; [apply lookup_cons_same; exact Eer|].
              intros x Hin. apply Hmin. exact Hin.
        -- left. apply gkey_eq_false in Eer. rewrite (lookup_cons_other er) by exact Eer.
           reflexivity.
Qed.

(** every reachable store satisfies the invariant *)
Fixpoint g_run (st : gstore) (ops : list (N * N * N)) : gstore :=
  match ops with
  | [] => st
  | (f, n, c) :: t => g_run (fst (g_post_recv st f n c)) t
  end.

Theorem ginv_reachable ops : GInv (g_run gstore_new ops).
Proof.
  assert (H : forall st, GInv st -> GInv (g_run st ops)).
  { induction ops as [|[[f n] c] t IH]; intros st Hst; [exact Hst|].
    cbn [g_run]. apply IH. apply ginv_step. exact Hst. }
  apply H. apply ginv_init.
Qed.
