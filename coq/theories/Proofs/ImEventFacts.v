(** Event mediation: what the engine reports is [permitted_events]; the
    statuses of concrete event paths are the decision table; events naming
    another fabric are never reported; a group requester reaches only the
    endpoints of its group. *)
From RsM Require Import Lib.MachInt Model.Acl Model.AclSpec Model.Im Model.ImSpec Model.ImEvents.
From RsM Require Import Proofs.AclFacts Proofs.AclTheorems Proofs.ImLists Proofs.ImFacts Proofs.ImTheorems.
From Coq Require Import ZifyN ZifyBool.
Open Scope N_scope.

Arguments N.eqb : simpl never.

Section Events.
Variables (fabs : list fabric) (who : accessor) (nd : node).
Hypothesis Hwf : wf_fabrics fabs = true.
Hypothesis Hev : wf_node_events nd = true.

Lemma events_distinct (e : endpoint) (c : cluster) :
  In e nd -> In c (ep_clusters e) -> NoDup (map l_id (c_events c)).
Proof.
  intros He Hc. unfold wf_node_events in Hev. rewrite forallb_forall in Hev.
  specialize (Hev e He). rewrite forallb_forall in Hev. apply distinct_NoDup. exact (Hev c Hc).
Qed.

(** the ACL step of the event check is the declarative decision *)
Lemma check_event_granted (e : endpoint) (c : cluster) (l : leaf) :
  In e nd -> In c (ep_clusters e) -> In l (ev_enabled c) ->
  check_event_access fabs who e c (l_id l)
  = if event_granted fabs who (e, c, l) then None else Some SUnsupportedAccess.
Proof.
  intros He Hc Hl. unfold check_event_access, event_granted, ev_enabled in *.
  apply filter_In in Hl. destruct Hl as [Hl _].
  rewrite (find_access_in (c_events c) l (events_distinct e c He Hc) Hl).
  rewrite (allow_eq_spec fabs who (mkReq (Some (ep_id e)) (Some (c_id c)) (Some (l_access l)) ACC_READ (ep_dts e)) Read Hwf eq_refl).
  reflexivity.
Qed.

(** validation of an event's own path = the event comes from an existing, readable element *)
Lemma validate_own_path (ev : qevent) :
  (match validate_event_path fabs who nd (qe_path ev) with None => true | Some _ => false end)
  = match event_source nd ev with Some t => event_granted fabs who t | None => false end.
Proof.
  unfold validate_event_path, event_source, qe_path. cbn [p_ep p_cl p_leaf].
  destruct (find (fun x => ep_id x =? qe_ep ev) nd) as [e|] eqn:He; [|reflexivity].
  destruct (find (fun x => c_id x =? qe_cl ev) (ep_clusters e)) as [c|] eqn:Hc; [|reflexivity].
  change (filter l_on (c_events c)) with (ev_enabled c).
  destruct (find (fun l => l_id l =? qe_id ev) (ev_enabled c)) as [l|] eqn:Hl; [|reflexivity].
  apply find_some in He, Hc, Hl.
  rewrite (check_event_granted e c l (proj1 He) (proj1 Hc) (proj1 Hl)).
  destruct (event_granted fabs who (e, c, l)); reflexivity.
Qed.

(** a path that matches an event whose own path validates, validates *)
Lemma matching_path_validates (p : gpath) (ev : qevent) :
  validate_event_path fabs who nd (qe_path ev) = None ->
  opt_matches (p_ep p) (qe_ep ev) && opt_matches (p_cl p) (qe_cl ev) && opt_matches (p_leaf p) (qe_id ev) = true ->
  validate_event_path fabs who nd p = None.
Proof.
  unfold validate_event_path, qe_path. cbn [p_ep p_cl p_leaf]. intros Hv Hm.
  apply andb_true_iff in Hm. destruct Hm as [Hm Hl]. apply andb_true_iff in Hm. destruct Hm as [He Hc].
  destruct (p_ep p) as [e|]; [|reflexivity]. cbn [opt_matches] in He. apply N.eqb_eq in He. subst e.
  destruct (find (fun x => ep_id x =? qe_ep ev) nd) as [ep|]; [|discriminate].
  destruct (p_cl p) as [c|]; [|reflexivity]. cbn [opt_matches] in Hc. apply N.eqb_eq in Hc. subst c.
  destruct (find (fun x => c_id x =? qe_cl ev) (ep_clusters ep)) as [cl|]; [|discriminate].
  destruct (p_leaf p) as [id|]; [|reflexivity]. cbn [opt_matches] in Hl. apply N.eqb_eq in Hl. subst id.
  exact Hv.
Qed.

Lemma event_reported_spec (paths : list gpath) (ev : qevent) :
  event_reported fabs who nd paths ev
  = (event_visible who ev
     && match event_source nd ev with Some t => event_granted fabs who t | None => false end
     && existsb (fun p => event_matches p ev) paths).
Proof.
  unfold event_reported. change (matches_fabric who ev) with (event_visible who ev).
  destruct (event_visible who ev); cbn [negb andb]; [|reflexivity].
  rewrite validate_own_path.
  destruct (validate_event_path fabs who nd (qe_path ev)) as [s|] eqn:Hv.
  - pose proof (validate_own_path ev) as H. rewrite Hv in H. rewrite <- H. apply andb_false_r.
  - pose proof (validate_own_path ev) as H. rewrite Hv in H. rewrite <- H. cbn [andb]. rewrite andb_true_r.
    apply existsb_ext_in. intros p _. unfold ev_matches_path, event_matches.
    change (wild_or (p_ep p) (qe_ep ev)) with (opt_matches (p_ep p) (qe_ep ev)).
    change (wild_or (p_cl p) (qe_cl ev)) with (opt_matches (p_cl p) (qe_cl ev)).
    change (wild_or (p_leaf p) (qe_id ev)) with (opt_matches (p_leaf p) (qe_id ev)).
    destruct (opt_matches (p_ep p) (qe_ep ev) && opt_matches (p_cl p) (qe_cl ev)
              && opt_matches (p_leaf p) (qe_id ev)) eqn:Hm.
    + rewrite (matching_path_validates p ev Hv Hm). reflexivity.
    + destruct (validate_event_path fabs who nd p); reflexivity.
Qed.

(** the status of a concrete path is the decision table's *)
Lemma validate_concrete (e c id : N) :
  validate_event_path fabs who nd (mkPath (Some e) (Some c) (Some id))
  = match find (fun x => ep_id x =? e) nd with
    | None => Some SUnsupportedEndpoint
    | Some ep =>
        match find (fun x => c_id x =? c) (ep_clusters ep) with
        | None => Some SUnsupportedCluster
        | Some cl =>
            match find (fun l => l_id l =? id) (filter l_on (c_events cl)) with
            | None => Some SUnsupportedEvent
            | Some l => if event_granted fabs who (ep, cl, l) then None else Some SUnsupportedAccess
            end
        end
    end.
Proof.
  unfold validate_event_path. cbn [p_ep p_cl p_leaf].
  destruct (find (fun x => ep_id x =? e) nd) as [ep|] eqn:He; [|reflexivity].
  destruct (find (fun x => c_id x =? c) (ep_clusters ep)) as [cl|] eqn:Hc; [|reflexivity].
  change (filter l_on (c_events cl)) with (ev_enabled cl).
  destruct (find (fun l => l_id l =? id) (ev_enabled cl)) as [l|] eqn:Hl; [|reflexivity].
  apply find_some in He, Hc, Hl.
  exact (check_event_granted ep cl l (proj1 He) (proj1 Hc) (proj1 Hl)).
Qed.

(** what the code answers: the specified statuses without the UnsupportedEvent ones *)
Lemma event_statuses_code (paths : list gpath) :
  event_statuses fabs who nd paths
  = filter (fun o => negb (is_unsupported_event_status o)) (spec_event_statuses nd fabs who paths).
Proof.
  unfold spec_event_statuses. induction paths as [|p rest IH]; [reflexivity|].
  cbn [event_statuses flat_map]. rewrite filter_app, IH. f_equal.
  destruct p as [[e|] [c|] [id|]]; cbn [is_wildcard p_ep p_cl p_leaf is_some andb negb]; try reflexivity.
  rewrite validate_concrete. unfold event_path_status.
  destruct (find (fun x => ep_id x =? e) nd) as [ep|]; [|reflexivity].
  destruct (find (fun x => c_id x =? c) (ep_clusters ep)) as [cl|]; [|reflexivity].
  destruct (find (fun l => l_id l =? id) (filter l_on (c_events cl))) as [l|]; [|reflexivity].
  destruct (event_granted fabs who (ep, cl, l)); reflexivity.
Qed.

(** outside the known class the specification has no UnsupportedEvent entry *)
Lemma spec_statuses_no_ue (paths : list gpath) :
  known_absent_event_no_status nd paths = false ->
  filter (fun o => negb (is_unsupported_event_status o)) (spec_event_statuses nd fabs who paths)
  = spec_event_statuses nd fabs who paths.
Proof.
  unfold spec_event_statuses, known_absent_event_no_status.
  induction paths as [|p rest IH]; intros Hk; [reflexivity|].
  cbn [existsb] in Hk. apply orb_false_iff in Hk. destruct Hk as [Hp Hr].
  cbn [flat_map]. rewrite filter_app, (IH Hr). f_equal.
  unfold absent_event_path in Hp.
  destruct p as [[e|] [c|] [id|]]; cbn [p_ep p_cl p_leaf] in *; try reflexivity.
  unfold event_path_status.
  destruct (find (fun x => ep_id x =? e) nd) as [ep|]; [|reflexivity].
  destruct (find (fun x => c_id x =? c) (ep_clusters ep)) as [cl|]; [|reflexivity].
  destruct (find (fun l => l_id l =? id) (filter l_on (c_events cl))) as [l|]; [|discriminate].
  destruct (event_granted fabs who (ep, cl, l)); reflexivity.
Qed.

Lemma event_out_not_status (l : list qevent) :
  filter (fun o => negb (is_unsupported_event_status o)) (map event_out l) = map event_out l.
Proof. induction l as [|ev l IH]; [reflexivity|]. cbn [map filter event_out is_unsupported_event_status negb]. rewrite IH. reflexivity. Qed.

(** for every request: the code's answer is the specified one without its UnsupportedEvent entries *)
Theorem read_events_code (paths : list gpath) (queue : list qevent) :
  read_events fabs who nd paths queue = strip_known (spec_read_events nd fabs who paths queue).
Proof.
  unfold read_events, spec_read_events, strip_known, permitted_events.
  rewrite filter_app, event_out_not_status, event_statuses_code.
  f_equal. f_equal. f_equal. apply filter_ext_in'. intros ev _. apply event_reported_spec.
Qed.

(** outside the known class the code's answer is exactly the specified one *)
Theorem read_events_exact (paths : list gpath) (queue : list qevent) :
  known_absent_event_no_status nd paths = false ->
  read_events fabs who nd paths queue = spec_read_events nd fabs who paths queue.
Proof.
  intros Hk. rewrite read_events_code. unfold spec_read_events, strip_known.
  rewrite filter_app, event_out_not_status, (spec_statuses_no_ue paths Hk). reflexivity.
Qed.

(** a subscription refuses such paths as a whole: no deviation there *)
Theorem subscribe_events_exact (paths : list gpath) (queue : list qevent) :
  subscribe_events fabs who nd paths queue
  = match spec_subscribe_events nd fabs who paths queue with
    | RespItems _ _ => read_events fabs who nd paths queue
    | r => r
    end.
Proof.
  unfold subscribe_events, spec_subscribe_events. destruct paths as [|p0 rest]; [reflexivity|].
  set (paths := p0 :: rest).
  assert (H : existsb (fun p => negb (is_wildcard p)
                         && match validate_event_path fabs who nd p with None => false | Some _ => true end) paths
              = negb (forallb (concrete_event_path_ok nd fabs who) paths)).
  { induction paths as [|p l IH]; [reflexivity|]. cbn [existsb forallb]. rewrite IH, negb_andb. f_equal.
    unfold concrete_event_path_ok.
    destruct p as [[e|] [c|] [id|]]; cbn [is_wildcard p_ep p_cl p_leaf is_some andb negb]; try reflexivity.
    pose proof (validate_own_path (mkQEvent e c id None)) as Hv. unfold qe_path in Hv. cbn [qe_ep qe_cl qe_id] in Hv.
    rewrite <- Hv. destruct (validate_event_path fabs who nd (mkPath (Some e) (Some c) (Some id))); reflexivity. }
  rewrite H. destruct (forallb (concrete_event_path_ok nd fabs who) paths); reflexivity.
Qed.

(** an accepted subscription has no path of the known class *)
Lemma subscription_ok_not_known (paths : list gpath) :
  forallb (concrete_event_path_ok nd fabs who) paths = true ->
  known_absent_event_no_status nd paths = false.
Proof.
  unfold known_absent_event_no_status. induction paths as [|p l IH]; intros H; [reflexivity|].
  cbn [forallb existsb] in *. apply andb_true_iff in H. destruct H as [Hp Hl]. rewrite (IH Hl), orb_false_r.
  unfold concrete_event_path_ok, event_source, absent_event_path in *.
  destruct p as [[e|] [c|] [id|]]; cbn [p_ep p_cl p_leaf qe_ep qe_cl qe_id] in *; try reflexivity.
  destruct (find (fun x => ep_id x =? e) nd) as [ep|]; [|reflexivity].
  destruct (find (fun x => c_id x =? c) (ep_clusters ep)) as [cl|]; [|reflexivity].
  destruct (find (fun l0 => l_id l0 =? id) (filter l_on (c_events cl))); [reflexivity|discriminate].
Qed.

Theorem subscribe_events_spec (paths : list gpath) (queue : list qevent) :
  subscribe_events fabs who nd paths queue = spec_subscribe_events nd fabs who paths queue.
Proof.
  rewrite subscribe_events_exact. unfold spec_subscribe_events. destruct paths as [|p0 rest]; [reflexivity|].
  destruct (forallb (concrete_event_path_ok nd fabs who) (p0 :: rest)) eqn:Hf; [|reflexivity].
  apply read_events_exact. apply subscription_ok_not_known. exact Hf.
Qed.

(** a wildcard path alone: exactly the permitted events, nothing else, no status *)
Theorem event_wildcard_exact (p : gpath) (queue : list qevent) :
  is_wildcard p = true ->
  read_events fabs who nd [p] queue
  = RespItems (map event_out (permitted_events nd fabs who [p] queue)) [].
Proof.
  intros W. rewrite read_events_exact.
  - unfold spec_read_events, spec_event_statuses. cbn [flat_map].
    destruct p as [[e|] [c|] [id|]]; try reflexivity. discriminate.
  - unfold known_absent_event_no_status, absent_event_path. cbn [existsb].
    destruct p as [[e|] [c|] [id|]]; try reflexivity. discriminate.
Qed.

(** a concrete path: its status from the decision table (if any), then its permitted events *)
Theorem event_concrete_status (e c id : N) (queue : list qevent) :
  absent_event_path nd (mkPath (Some e) (Some c) (Some id)) = false ->
  read_events fabs who nd [mkPath (Some e) (Some c) (Some id)] queue
  = RespItems ((match event_path_status nd fabs who e c id with
                | Some s => [OStatus (mkPath (Some e) (Some c) (Some id)) None s]
                | None => []
                end)
               ++ map event_out (permitted_events nd fabs who [mkPath (Some e) (Some c) (Some id)] queue)) [].
Proof.
  intros Hk. rewrite read_events_exact.
  - unfold spec_read_events, spec_event_statuses. cbn [flat_map p_ep p_cl p_leaf].
    rewrite app_nil_r. reflexivity.
  - unfold known_absent_event_no_status. cbn [existsb]. rewrite Hk. reflexivity.
Qed.

(** in the known class the concrete path gets no status where the property demands UnsupportedEvent *)
Theorem event_absent_no_status (e c id : N) (queue : list qevent) :
  absent_event_path nd (mkPath (Some e) (Some c) (Some id)) = true ->
  event_path_status nd fabs who e c id = Some SUnsupportedEvent
  /\ read_events fabs who nd [mkPath (Some e) (Some c) (Some id)] queue
     = RespItems (map event_out (permitted_events nd fabs who [mkPath (Some e) (Some c) (Some id)] queue)) [].
Proof.
  intros Hk. unfold absent_event_path in Hk. cbn [p_ep p_cl p_leaf] in Hk.
  assert (Hs : event_path_status nd fabs who e c id = Some SUnsupportedEvent).
  { unfold event_path_status.
    destruct (find (fun x => ep_id x =? e) nd) as [ep|]; [|discriminate].
    destruct (find (fun x => c_id x =? c) (ep_clusters ep)) as [cl|]; [|discriminate].
    destruct (find (fun l => l_id l =? id) (filter l_on (c_events cl))); [discriminate|reflexivity]. }
  split; [exact Hs|].
  rewrite read_events_code. unfold spec_read_events, spec_event_statuses, strip_known.
  cbn [flat_map p_ep p_cl p_leaf]. rewrite Hs. cbn [app filter is_unsupported_event_status negb].
  rewrite event_out_not_status. reflexivity.
Qed.

End Events.

(** an event that names a fabric is reported to that fabric only - whatever
    the request's fabricFiltered flag, the node, the access control lists *)
Theorem event_fabric_sensitive (fabs : list fabric) (who : accessor) (nd : node) (paths : list gpath)
  (queue : list qevent) (ev : qevent) (f : N) :
  In ev (filter (event_reported fabs who nd paths) queue) -> qe_fab ev = Some f -> f = a_fab who.
Proof.
  intros Hin Hf. apply filter_In in Hin. destruct Hin as [_ Hr]. unfold event_reported, matches_fabric in Hr.
  rewrite Hf in Hr. destruct (N.eqb_spec f (a_fab who)) as [Heq|_]; [exact Heq|discriminate].
Qed.

(** whatever is reported comes from an element that exists now and that the requester may read *)
Theorem permitted_event_source (nd : node) (fabs : list fabric) (who : accessor) (paths : list gpath)
  (queue : list qevent) (ev : qevent) :
  In ev (permitted_events nd fabs who paths queue) ->
  In ev queue /\ event_visible who ev = true
  /\ (exists t, event_source nd ev = Some t /\ event_granted fabs who t = true)
  /\ exists p, In p paths /\ event_matches p ev = true.
Proof.
  unfold permitted_events. intros H. apply filter_In in H. destruct H as [Hq H].
  apply andb_true_iff in H. destruct H as [H Hm]. apply andb_true_iff in H. destruct H as [Hv Hs].
  split; [exact Hq|]. split; [exact Hv|]. split.
  - destruct (event_source nd ev) as [t|]; [|discriminate]. exists t. split; [reflexivity|exact Hs].
  - apply existsb_exists in Hm. exact Hm.
Qed.

(** * Group requesters reach only the endpoints of their group *)
Theorem group_members_only (nd : node) (fabs : list fabric) (who : accessor) (op : operation) (timed : bool)
  (flt : N -> N -> N -> bool) (items : list item) (e c l : N) (tag : option N) :
  In (OData e c l tag) (request_spec nd fabs who op timed flt items) ->
  spec_endpoint fabs who e = true.
Proof.
  intros H. destruct (request_spec_data nd fabs who op timed flt items e c l tag H)
    as [it [t [_ [_ [Hids [_ Hp]]]]]].
  destruct t as [[te tc] tl]. cbn [cand_ids] in Hids. injection Hids as <- _ _.
  unfold permitted_leaf in Hp. apply andb_true_iff in Hp. destruct Hp as [_ Hg].
  unfold spec_granted, granted in Hg. apply andb_true_iff in Hg. exact (proj1 Hg).
Qed.

(** the event monitor accepts only the specified answer *)
From RsM Require Import Proofs.ImMonitor.
Theorem holds_events_sound (subscribe : bool) (who : accessor) (nd : node) (fabs : list fabric)
  (paths : list gpath) (queue : list qevent) (resp : imresp) :
  wf_node_events nd = true -> wf_fabrics fabs = true ->
  holds_events subscribe who nd fabs paths queue resp = true ->
  resp = if subscribe then spec_subscribe_events nd fabs who paths queue
         else spec_read_events nd fabs who paths queue.
Proof.
  intros Hn Hf. unfold holds_events. rewrite Hn, Hf. cbn [andb]. apply imresp_eqb_eq.
Qed.

(** the classifier of the known finding accepts an answer only if the request is in the class
    and the answer differs from the specified one by the missing UnsupportedEvent entries only *)
Theorem holds_events_known_sound (subscribe : bool) (who : accessor) (nd : node) (fabs : list fabric)
  (paths : list gpath) (queue : list qevent) (resp : imresp) :
  holds_events_known subscribe who nd fabs paths queue resp = true ->
  subscribe = false /\ known_absent_event_no_status nd paths = true
  /\ resp = strip_known (spec_read_events nd fabs who paths queue)
  /\ resp = read_events fabs who nd paths queue.
Proof.
  unfold holds_events_known. intros H.
  apply andb_true_iff in H. destruct H as [H Heq]. apply andb_true_iff in H. destruct H as [H Hf].
  apply andb_true_iff in H. destruct H as [H Hn]. apply andb_true_iff in H. destruct H as [Hs Hk].
  apply imresp_eqb_eq in Heq. destruct subscribe; [discriminate|].
  split; [reflexivity|]. split; [exact Hk|]. split; [exact Heq|].
  rewrite (read_events_code fabs who nd Hf Hn). exact Heq.
Qed.

(** the class is inhabited: a read of event 9 of a cluster that has events 0 and 1 only *)
Definition known_witness_node : node :=
  [mkEndpoint 0 [] [mkCluster 6 [] [] [mkLeaf 0 17 true; mkLeaf 1 17 true]]].
Definition known_witness_fabs : list fabric := [mkFabric 1 [mkEntry 15 ACase None None (Some 1)] []].
Definition known_witness_who : accessor := for_session (SCase 1 [0; 0; 0]) (Some 112233) false.
Definition known_witness_paths : list gpath := [mkPath (Some 0) (Some 6) (Some 9); mkPath (Some 0) (Some 6) (Some 0)].
Definition known_witness_queue : list qevent := [mkQEvent 0 6 0 None].

Theorem known_absent_event_inhabited :
  wf_node_events known_witness_node = true /\ wf_fabrics known_witness_fabs = true
  /\ known_absent_event_no_status known_witness_node known_witness_paths = true
  /\ spec_read_events known_witness_node known_witness_fabs known_witness_who known_witness_paths known_witness_queue
     = RespItems [OStatus (mkPath (Some 0) (Some 6) (Some 9)) None SUnsupportedEvent; OData 0 6 0 None] []
  /\ read_events known_witness_fabs known_witness_who known_witness_node known_witness_paths known_witness_queue
     = RespItems [OData 0 6 0 None] []
  /\ holds_events false known_witness_who known_witness_node known_witness_fabs known_witness_paths known_witness_queue
       (read_events known_witness_fabs known_witness_who known_witness_node known_witness_paths known_witness_queue)
     = false.
Proof. vm_compute. repeat split. Qed.
