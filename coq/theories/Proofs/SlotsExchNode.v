(** Node level (Model/Slots.v layer 2): every in-use exchange slot of an
    unsecured session belongs to a running handshake attempt ([xinv]), in
    every reachable state. *)
From RsM Require Import Lib.MachInt Model.Slots Model.SlotsSpec Proofs.SlotsFacts Proofs.SlotsInv
  Proofs.SlotsStep Proofs.SlotsNode Proofs.SlotsOwn Proofs.SlotsExch.
From Coq Require Import Permutation ZifyN ZifyBool Arith.
Open Scope N_scope.

Arguments N.add : simpl never.
Arguments N.ltb : simpl never.
Arguments N.eqb : simpl never.
Arguments N.mul : simpl never.

Definition nl (n : node) : list session := t_sess (tb (core n)).

Definition owned_by (l : list att) (sid : N) (xi : nat) (v : xst) : Prop :=
  exists a, In a l /\ a_sess a = sid /\ a_xi a = xi /\ (a_stage a = 0 <-> v = XPending).

Definition xinv (n : node) : Prop :=
  forall sid xi v, slot_live (Some v) = true -> lslot (nl n) sid xi v -> owned_by (atts n) sid xi v.

(** [xinv], except that the slot of attempt [x] may already be owned *)
Definition xinv_but (n : node) (x : att) : Prop :=
  forall sid xi v, slot_live (Some v) = true -> lslot (nl n) sid xi v ->
    owned_by (atts n) sid xi v \/ (sid = a_sess x /\ xi = a_xi x /\ v = XOwned).

Lemma xinv_xinv_but : forall n x, xinv n -> xinv_but n x.
Proof. intros n x H sid xi v Hl Hs. left. apply H; auto. Qed.

Lemma live_cases : forall v, slot_live (Some v) = true -> v = XOwned \/ v = XPending.
Proof. intros [] H; cbn in H; auto; discriminate. Qed.

Lemma find_app_none : forall {A} (p : A -> bool) l l',
  (forall y, In y l -> p y = false) -> find p (l ++ l') = find p l'.
Proof.
  intros A p l l' H. induction l as [|a l IH]; cbn; auto.
  rewrite (H a) by (left; auto). apply IH. intros y Hy. apply H. right; auto.
Qed.

Section XNode.
Variables cap mx : nat.

Lemma quiet_lslot : forall c o sid xi v,
  quiet_op o = true -> lslot (t_sess (tb (do1 cap mx c o))) sid xi v -> lslot (t_sess (tb c)) sid xi v.
Proof. intros c o sid xi v Hq Hl. eapply vsub_lslot; [apply step_vsub; exact Hq|exact Hl]. Qed.

Lemma nodup_do1 : forall c o, inv1 cap c -> next_of c + 2 <= UID_MAX -> NoDup (ids (tb (do1 cap mx c o))).
Proof. intros c o Hi Hb. destruct (step_inv1 cap mx c o Hi Hb) as [[[H _] _] _]. exact H. Qed.

Lemma inv1_do1 : forall c o, inv1 cap c -> next_of c + 2 <= UID_MAX ->
  inv1 cap (do1 cap mx c o) /\ next_of (do1 cap mx c o) <= next_of c + 2.
Proof. intros c o Hi Hb. destruct (step_inv1 cap mx c o Hi Hb) as [H [_ H2]]. auto. Qed.

(** ** the handler ends *)
Lemma xinv_finish : forall n x retr ack now,
  inv1 cap (core n) -> next_of (core n) + 4 <= UID_MAX ->
  NoDup (map a_no (atts n)) -> xinv_but n x -> In x (atts n) ->
  (a_stage x <> 0 \/ ~ lslot (nl n) (a_sess x) (a_xi x) XPending) ->
  xinv (finish cap mx n x retr ack now).
Proof.
  intros n x retr ack now Hi Hb Hnd Hx Hin Hp sid xi v Hlive Hl.
  unfold nl in Hl. rewrite core_finish in Hl.
  set (c1 := match a_h x with Some h => do1 cap mx (core n) (ODropH h now) | None => core n end) in *.
  assert (Hi1 : inv1 cap c1 /\ next_of c1 <= next_of (core n) + 2).
  { unfold c1. destruct (a_h x); [apply inv1_do1; auto; lia|split; auto; lia]. }
  destruct Hi1 as [Hi1 Hb1].
  assert (Hnd1 : NoDup (ids (tb c1))) by apply Hi1.
  (* the slot is not owned afterwards *)
  assert (Hkill : ~ lslot (t_sess (tb (do1 cap mx c1 (OExDrop (a_sess x) (a_xi x) retr ack now))))
                    (a_sess x) (a_xi x) XOwned) by (apply drop_kills_owned; auto).
  (* where the slot comes from *)
  assert (H1 : lslot (t_sess (tb c1)) sid xi v).
  { destruct (step_lslot cap mx c1 (OExDrop (a_sess x) (a_xi x) retr ack now) sid xi v Hnd1
                eq_refl Hl)
      as [H|[[p [t [E _]]]|[[t [E _]]|[[t [E _]]|[r [a [t [E Hv]]]]]]]]; auto; try discriminate.
    destruct Hv; subst v; cbn in Hlive; discriminate. }
  assert (H0 : lslot (nl n) sid xi v).
  { unfold c1 in H1. destruct (a_h x); auto. eapply quiet_lslot; [|exact H1]. reflexivity. }
  destruct (Hx sid xi v Hlive H0) as [[w [Hw [Hs [Hxi Hst]]]]|[Hs [Hxi Hv]]].
  - unfold finish. cbn [atts]. exists w. repeat split; try apply Hst; auto.
    apply att_remove_keeps; auto. intros He.
    assert (w = x) by (apply (att_unique _ _ _ Hnd Hw Hin); auto). subst w.
    destruct (live_cases v Hlive) as [->| ->].
    + rewrite <- Hs, <- Hxi in Hl. exact (Hkill Hl).
    + destruct Hp as [Hp|Hp]; [apply Hp; apply Hst; auto|]. rewrite <- Hs, <- Hxi in H0. exact (Hp H0).
  - exfalso. subst. apply Hkill. exact Hl.
Qed.

(** ** stage changes among the non-zero stages *)
Lemma xinv_restage : forall n a x stg h clr,
  NoDup (map a_no (atts n)) -> find (att_has a) (atts n) = Some x -> a_stage x <> 0 -> stg <> 0 ->
  xinv n -> xinv (stage_set a stg h clr n).
Proof.
  intros n a x stg h clr Hnd Hf Hs Hstg Hx sid xi v Hlive Hl.
  destruct (find_att _ _ _ Hf) as [Hin Ha].
  destruct (Hx sid xi v Hlive Hl) as [w [Hw [H1 [H2 H3]]]].
  unfold stage_set. cbn [atts set_atts].
  destruct (N.eq_dec (a_no w) a) as [He|He].
  - assert (w = x) by (apply (att_unique _ _ _ Hnd Hw Hin); congruence). subst w.
    eexists. split; [apply (att_set_has a _ _ x); auto|]. cbn. repeat split; auto.
    + intros E; contradiction.
    + intros E. apply H3 in E. contradiction.
  - exists w. repeat split; try apply H3; auto. apply att_set_other; auto.
Qed.

Lemma xinv_core_quiet : forall n o,
  quiet_op o = true -> xinv n -> xinv (set_core (do1 cap mx (core n) o) n).
Proof. intros n o Hq Hx sid xi v Hlive Hl. apply Hx; auto. eapply quiet_lslot; eauto. Qed.

(** a new unsecured session has no exchange yet: its first exchange takes slot 0 *)
Lemma first_exchange_index : forall c now c1 id xi,
  inv1 cap c -> next_of c + 2 <= UID_MAX ->
  step cap mx c (OAdd now) = (c1, RId id) ->
  snd (step cap mx c1 (OExAdd id true now)) = RIdx xi -> xi = O.
Proof.
  intros c now c1 id xi Hi Hb Ha Hr. cbn [step] in Ha.
  destruct (t_add cap (tb c) false now) as [t1 [id'|]] eqn:Hadd; inversion Ha; subst; clear Ha.
  destruct (t_add_spec _ _ _ _ _ _ Hadd ltac:(unfold next_of in Hb; lia)) as [Hn [Hid [Hlt Hs]]]. subst id.
  cbn [step tb] in Hr. unfold ex_add in Hr. cbn [tb] in Hr.
  assert (Hlk : t_lookup (t_next (tb c)) t1 = Some (mkS (t_next (tb c)) MPlain false false now [])).
  { unfold t_lookup. rewrite Hs. rewrite find_app_none.
    - cbn. unfold has_id. cbn. rewrite N.eqb_refl. reflexivity.
    - intros y Hy. unfold has_id. apply N.eqb_neq. destruct Hi as [[_ [_ [_ Hfr]]] _].
      specialize (Hfr y Hy). lia. }
  rewrite Hlk in Hr. cbn [s_reserved s_expired andb s_exch] in Hr.
  destruct (t_get (t_next (tb c)) now t1); [|cbn in Hr; discriminate].
  unfold x_add in Hr. cbn [length] in Hr. destruct (Nat.ltb 0 mx); cbn in Hr; inversion Hr; auto.
Qed.

Lemma xinv_same : forall n n', core n' = core n -> atts n' = atts n -> xinv n -> xinv n'.
Proof. intros n n' E1 E2 H sid xi v Hl Hs. unfold nl in Hs. rewrite E1 in Hs. rewrite E2. apply H; auto. Qed.

Lemma xinv_finish_same : forall n n' x retr ack now,
  core n' = core n -> atts n' = atts n ->
  xinv (finish cap mx n x retr ack now) -> xinv (finish cap mx n' x retr ack now).
Proof.
  intros n n' x retr ack now E1 E2 H. eapply xinv_same; [| |exact H]; unfold finish; cbn [core atts]; rewrite ?E1, ?E2; reflexivity.
Qed.

Lemma stage_set_atts_nodup : forall a stg h clr n,
  NoDup (map a_no (atts n)) -> NoDup (map a_no (atts (stage_set a stg h clr n))).
Proof. intros. unfold stage_set. cbn [atts set_atts]. rewrite att_set_nos; auto. intros z; reflexivity. Qed.

Lemma find_stage_set : forall a stg h clr n x,
  find (att_has a) (atts n) = Some x ->
  find (att_has a) (atts (stage_set a stg h clr n)) =
    Some (mkA (a_no x) (a_kind x) (a_sess x) (a_xi x) h stg clr).
Proof.
  intros a stg h clr n x Hf. unfold stage_set. cbn [atts set_atts].
  apply (find_att_set a (fun x0 : att => mkA (a_no x0) (a_kind x0) (a_sess x0) (a_xi x0) h stg clr) (atts n) x); auto.
  intros z; reflexivity.
Qed.

Ltac rch2 := unfold do1; repeat first [ apply r0 | eapply rS ].

Theorem nstep_xinv : forall n o,
  inv1 cap (core n) -> next_of (core n) + 8 <= UID_MAX -> hinv n -> xinv n ->
  xinv (fst (nstep cap mx n o)).
Proof.
  intros n o Hi Hb Hh Hx.
  assert (HndA : NoDup (map a_no (atts n))) by apply Hh.
  assert (Hnd0 : NoDup (ids (tb (core n)))) by apply Hi.
  destruct o; cbn [nstep].
  - (* NRx *)
    destruct (step cap mx (core n) (OAdd now)) as [c1 r] eqn:E.
    assert (Ec1 : c1 = do1 cap mx (core n) (OAdd now)) by (unfold do1; rewrite E; auto).
    assert (Hi1 : inv1 cap c1 /\ next_of c1 <= next_of (core n) + 2) by (rewrite Ec1; apply inv1_do1; auto; lia).
    destruct Hi1 as [Hi1 Hb1].
    destruct r; cbn [fst];
      try (intros sid xi v Hl Hs; apply Hx; auto; unfold nl in Hs; cbn [core set_core] in Hs;
           apply quiet_lslot in Hs; [|reflexivity]; rewrite Ec1 in Hs; apply quiet_lslot in Hs; [exact Hs|reflexivity]).
    intros sid xi v Hl Hs. unfold nl in Hs. cbn [core atts] in Hs |- *.
    destruct (step_lslot cap mx c1 (OExAdd id true now) sid xi v ltac:(apply Hi1) eq_refl Hs)
      as [H|[[p [t [E1 [E2 E3]]]]|[[t [E1 _]]|[[t [E1 _]]|[r [a [t [E1 _]]]]]]]]; try discriminate.
    + rewrite Ec1 in H. apply quiet_lslot in H; [|reflexivity].
      destruct (Hx sid xi v Hl H) as [w [Hw Hr]]. exists w. split; auto. apply in_or_app; auto.
    + inversion E1; subst sid p. subst v.
      assert (xi = O) by (eapply (first_exchange_index (core n) now c1 id xi); eauto; lia). subst xi.
      eexists. split; [apply in_or_app; right; left; reflexivity|]. cbn. repeat split; auto.
  - (* NAccept *)
    rename v into vd.
    destruct (find (att_has a) (atts n)) as [x|] eqn:Hf; [|exact Hx].
    destruct (a_stage x =? 0) eqn:Hst; cbn [negb]; [|exact Hx]. apply N.eqb_eq in Hst.
    destruct (find_att _ _ _ Hf) as [Hin Ha].
    set (c1 := do1 cap mx (core n) (OExAccept (a_sess x) (a_xi x) now)).
    destruct (step cap mx c1 (OReserve now)) as [c2 r] eqn:E.
    assert (Ec2 : c2 = do1 cap mx c1 (OReserve now)) by (unfold do1; rewrite E; auto).
    assert (Hi2 : inv1 cap c2 /\ next_of c2 <= next_of (core n) + 4).
    { destruct (reachk_inv1 cap mx 2 (core n) c2) as [A [_ B]]; [rewrite Ec2; unfold c1; rch2|auto|lia|].
      split; auto; cbn in B; lia. }
    destruct Hi2 as [Hi2 Hb2].
    assert (F1 : forall sid xi v, lslot (t_sess (tb c2)) sid xi v -> lslot (t_sess (tb c1)) sid xi v).
    { intros sid xi v H. rewrite Ec2 in H. eapply quiet_lslot; [|exact H]. reflexivity. }
    assert (F2 : forall sid xi v, lslot (t_sess (tb c1)) sid xi v ->
                 lslot (nl n) sid xi v \/ (sid = a_sess x /\ xi = a_xi x /\ v = XOwned)).
    { intros sid xi v H. unfold c1, do1 in H.
      destruct (step_lslot cap mx (core n) (OExAccept (a_sess x) (a_xi x) now) sid xi v Hnd0
                  eq_refl H)
        as [H'|[[p [t [E1 _]]]|[[t [E1 [E2 _]]]|[[t [E1 _]]|[r' [a' [t [E1 _]]]]]]]]; try discriminate; auto.
      inversion E1; subst. auto. }
    assert (F3 : ~ lslot (t_sess (tb c2)) (a_sess x) (a_xi x) XPending).
    { intros H. apply F1 in H. revert H. unfold c1, do1. apply accept_kills_pending; auto. }
    assert (HA : xinv_but (set_core c2 n) x).
    { intros sid xi v Hl Hs. unfold nl in Hs. cbn [core set_core] in Hs.
      destruct (F2 _ _ _ (F1 _ _ _ Hs)) as [H|H]; [left; apply Hx; auto|right; auto]. }
    assert (Hfail : forall k, xinv (finish cap mx (clear_if_pase k (set_core c2 n)) x false true now)).
    { intros k. apply (xinv_finish_same (set_core c2 n)); [destruct k; reflexivity|destruct k; reflexivity|].
      apply xinv_finish; auto; try (cbn [core set_core]; lia); try (right; exact F3). }
    destruct r; cbn [fst]; try apply Hfail.
    set (n2 := stage_set a 1 (Some id) false (set_core c2 n)).
    set (x2 := mkA (a_no x) (a_kind x) (a_sess x) (a_xi x) (Some id) 1 false).
    assert (Hf2 : find (att_has a) (atts n2) = Some x2) by (apply find_stage_set; exact Hf).
    assert (Hin2 : In x2 (atts n2)) by apply (find_att _ _ _ Hf2).
    assert (HndA2 : NoDup (map a_no (atts n2))) by (apply stage_set_atts_nodup; exact HndA).
    assert (Hn2 : xinv n2).
    { intros sid xi v Hl Hs. unfold nl in Hs. cbn [core n2 stage_set set_atts set_core] in Hs.
      destruct (HA sid xi v Hl Hs) as [[w [Hw [H1 [H2 H3]]]]|[H1 [H2 H3]]].
      - destruct (N.eq_dec (a_no w) a) as [He|He].
        + assert (w = x) by (apply (att_unique _ _ _ HndA Hw Hin); congruence). subst w.
          exfalso. apply H3 in Hst. subst v. rewrite <- H1, <- H2 in Hs. exact (F3 Hs).
        + exists w. repeat split; try apply H3; auto. unfold n2, stage_set. cbn [atts set_atts set_core].
          apply att_set_other; auto.
      - exists x2. subst. repeat split; auto; cbn; intros; try discriminate; try lia. }
    assert (Hfin : forall m, xinv (finish cap mx (set_marker m n2) x2 false true now)).
    { intros m. apply (xinv_finish_same n2); try reflexivity.
      apply xinv_finish; auto; try (unfold n2; cbn [core stage_set set_atts set_core]; lia); try (apply xinv_xinv_but; auto); try (left; cbn; lia). }
    assert (Hst4 : forall m clr, xinv (stage_set a 4 (Some id) clr (set_marker m n2))).
    { intros m clr. apply (xinv_restage (set_marker m n2) a x2); auto; cbn; lia. }
    destruct (a_kind x).
    + destruct (marker_check a true now (marker n)) as [m1 [c|]]; cbn [fst]; [apply Hst4|].
      destruct vd; cbn [fst]; [exact Hn2|apply Hfin|apply Hfin].
    + destruct vd; cbn [fst]; [exact Hn2|apply (Hst4 (marker n2))|apply (Hfin (marker n2))].
  - (* NMsg *)
    rename v into vd.
    destruct (find (att_has a) (atts n)) as [x|] eqn:Hf; [|exact Hx].
    destruct (negb _) eqn:Hw; [exact Hx|].
    destruct (find_att _ _ _ Hf) as [Hin Ha].
    assert (Hs0 : a_stage x <> 0).
    { apply negb_false_iff in Hw. apply orb_prop in Hw. destruct Hw as [Hw|Hw].
      - apply N.eqb_eq in Hw. lia.
      - apply andb_prop in Hw. destruct Hw as [Hw _]. apply N.eqb_eq in Hw. lia. }
    assert (Hfin : forall m retr ack, xinv (finish cap mx (set_marker m n) x retr ack now)).
    { intros m retr ack. apply (xinv_finish_same n); try reflexivity.
      apply xinv_finish; auto; try lia; try (apply xinv_xinv_but; auto). }
    assert (Hre : forall m stg h clr, stg <> 0 -> xinv (stage_set a stg h clr (set_marker m n))).
    { intros m stg h clr Hstg. apply (xinv_restage (set_marker m n) a x); auto. }
    assert (Hupd : forall md m h, md <> MPlain ->
              xinv (stage_set a 3 (a_h x) false
                     (set_core (do1 cap mx (do1 cap mx (core (set_marker m n)) (OUpdate h md now)) (OComplete h))
                               (set_marker m n)))).
    { intros md m h Hmd. apply (xinv_restage _ a x); auto; [lia|].
      intros sid xi v Hl Hs. apply Hx; auto. unfold nl in Hs. cbn [core set_core set_marker] in Hs.
      apply quiet_lslot in Hs; [|reflexivity]. apply quiet_lslot in Hs; [exact Hs|].
      cbn. destruct md; auto; contradiction. }
    destruct (a_kind x).
    + destruct (marker_check a false now (marker n)) as [m1 [c|]]; cbn [fst]; [apply Hre; lia|].
      destruct vd.
      * destruct (a_stage x =? 1); cbn [fst]; [apply Hre; lia|].
        destruct (a_h x) as [h|] eqn:Hhx; cbn [fst]; [|exact Hx].
        apply (Hupd MPase m1 h). discriminate.
      * destruct (a_stage x =? 1); cbn [fst]; [exact (Hfin None _ _)|apply Hre; lia].
      * cbn [fst]. exact (Hfin None _ _).
    + destruct vd; cbn [fst].
      * destruct (a_h x) as [h|] eqn:Hhx; cbn [fst]; [|exact Hx].
        apply (Hupd MCase (marker n) h). discriminate.
      * apply (Hre (marker n)). lia.
      * exact (Hfin (marker n) _ _).
  - (* NAck *)
    destruct (find (att_has a) (atts n)) as [x|] eqn:Hf; [|exact Hx].
    destruct (find_att _ _ _ Hf) as [Hin Ha].
    assert (Hfin : a_stage x <> 0 -> forall n', core n' = core n -> atts n' = atts n ->
                    xinv (finish cap mx n' x false false now)).
    { intros Hs0 n' E1 E2. apply (xinv_finish_same n); auto.
      apply xinv_finish; auto; try lia; try (apply xinv_xinv_but; auto). }
    destruct (a_stage x =? 3) eqn:E3.
    { cbn [fst]. apply N.eqb_eq in E3. apply Hfin; [lia|destruct (a_kind x); reflexivity|destruct (a_kind x); reflexivity]. }
    destruct (a_stage x =? 4) eqn:E4; [|exact Hx].
    cbn [fst]. apply N.eqb_eq in E4. apply Hfin; [lia| |]; destruct (a_clr x), (a_kind x); reflexivity.
  - (* NFail *)
    destruct (find (att_has a) (atts n)) as [x|] eqn:Hf; [|exact Hx].
    destruct (find_att _ _ _ Hf) as [Hin Ha].
    destruct (a_stage x =? 0) eqn:E0; [exact Hx|]. cbn [fst]. apply N.eqb_neq in E0.
    apply (xinv_finish_same n); [destruct (a_kind x); reflexivity|destruct (a_kind x); reflexivity|].
    apply xinv_finish; auto; try lia; try (apply xinv_xinv_but; auto).
  - (* NCancel *)
    destruct (find (att_has a) (atts n)) as [x|] eqn:Hf; [|exact Hx].
    destruct (find_att _ _ _ Hf) as [Hin Ha].
    destruct (a_stage x =? 0) eqn:E0; [exact Hx|]. cbn [fst]. apply N.eqb_neq in E0.
    apply xinv_finish; auto; try lia; try (apply xinv_xinv_but; auto).
  - (* NAcceptTimeout *)
    destruct (find (att_has a) (atts n)) as [x|] eqn:Hf; [|exact Hx].
    destruct (find_att _ _ _ Hf) as [Hin Ha].
    destruct (a_stage x =? 0) eqn:E0; [|exact Hx]. cbn [fst]. apply N.eqb_eq in E0.
    intros sid xi v Hl Hs. unfold nl in Hs. cbn [core atts] in Hs |- *. unfold do1 in Hs.
    pose proof (timeout_kills_pending cap mx (core n) (a_sess x) (a_xi x) now Hnd0) as Hk.
    destruct (step_lslot cap mx (core n) (OExTimeout (a_sess x) (a_xi x) now) sid xi v Hnd0
                eq_refl Hs)
      as [H|[[p [t [E1 _]]]|[[t [E1 _]]|[[t [E1 Ev]]|[r' [a' [t [E1 _]]]]]]]]; try discriminate.
    + destruct (Hx sid xi v Hl H) as [w [Hw [H1 [H2 H3]]]].
      exists w. repeat split; try apply H3; auto. apply att_remove_keeps; auto. intros He.
      assert (w = x) by (apply (att_unique _ _ _ HndA Hw Hin); congruence). subst w.
      apply H3 in E0. subst v. rewrite <- H1, <- H2 in Hs. exact (Hk Hs).
    + subst v. cbn in Hl. discriminate.
  - (* NSweep *)
    cbn [fst]. intros sid xi v Hl Hs. apply Hx; auto. unfold nl in Hs. cbn [core set_core] in Hs.
    destruct (step_lslot cap mx (core n) (OSweep now) sid xi v Hnd0
                eq_refl Hs)
      as [H|[[p [t [E1 _]]]|[[t [E1 _]]|[[t [E1 _]]|[r' [a' [t [E1 _]]]]]]]]; try discriminate; auto.
  - cbn [fst]. apply xinv_core_quiet; auto.
  - cbn [fst]. intros sid xi v Hl Hs. apply Hx; auto. unfold nl in Hs. cbn [core set_core] in Hs.
    eapply (quiet_lslot (core n) (OEvict now)); [reflexivity|exact Hs].
  - cbn [fst]. intros sid xi v Hl Hs. apply Hx; auto. unfold nl in Hs. cbn [core set_core] in Hs.
    eapply (quiet_lslot (core n) (OTouch id now)); [reflexivity|exact Hs].
  - cbn [fst]. apply xinv_core_quiet; auto.
  - (* NAppOpen *)
    destruct (t_lookup id (tb (core n))) as [s0|] eqn:Hlk; [|exact Hx].
    destruct (mode_eqb (s_mode s0) MPlain) eqn:Hm; [exact Hx|].
    cbn [fst]. intros sid xi v Hl Hs. apply Hx; auto. unfold nl in Hs. cbn [core set_core] in Hs.
    destruct (step_lslot cap mx (core n) (OExAdd id false now) sid xi v Hnd0
                eq_refl Hs)
      as [H|[[p [t [E1 [E2 E3]]]]|[[t [E1 _]]|[[t [E1 _]]|[r' [a' [t [E1 _]]]]]]]]; try discriminate; auto.
    exfalso. inversion E1; subst sid p t. clear E1.
    (* the session with this identifier is not an unsecured one, before or after *)
    destruct Hs as [y [Hy [Hyid [Hym _]]]]. cbn [step] in Hy. unfold ex_add in Hy. rewrite Hlk in Hy.
    assert (Hmode : forall z, In z (t_sess (tb (core n))) -> s_id z = id -> s_mode z = s_mode s0).
    { intros z Hz Hzid. rewrite (t_lookup_in id _ z Hnd0 Hz Hzid) in Hlk. inversion Hlk; auto. }
    assert (Hy0 : exists z, In z (t_sess (tb (core n))) /\ s_id z = s_id y /\ s_mode z = s_mode y).
    { cbn [andb] in Hy. destruct (t_get id now (tb (core n))) as [t1|] eqn:Hg; [|exists y; auto].
      assert (Hg1 : forall z, In z (t_sess t1) -> exists z0, In z0 (t_sess (tb (core n))) /\ s_id z0 = s_id z /\ s_mode z0 = s_mode z).
      { intros z Hz. destruct (t_get_in _ _ _ _ _ Hg Hz) as [H|[z0 [H1 [H2 ->]]]]; [exists z; auto|exists z0; auto]. }
      destruct (s_expired s0); [apply Hg1; exact Hy|].
      destruct (x_add mx (s_exch s0) XOwned) as [[x' i]|]; [|apply Hg1; exact Hy].
      cbn [fst tb] in Hy. destruct (t_upd_in _ _ _ _ Hy) as [H|[z0 [H1 [H2 ->]]]]; [apply Hg1; auto|].
      destruct (Hg1 z0 H1) as [z1 [A [B C]]]. exists z1. auto. }
    destruct Hy0 as [z [Hz [Hzid Hzm]]]. rewrite (Hmode z Hz ltac:(congruence)) in Hzm.
    rewrite Hzm, Hym in Hm. discriminate.
  - (* NAppClose *)
    destruct (t_lookup id (tb (core n))) as [s0|] eqn:Hlk; [|exact Hx].
    destruct (mode_eqb (s_mode s0) MPlain) eqn:Hm; [exact Hx|].
    cbn [fst]. intros sid xi0 v Hl Hs. apply Hx; auto. unfold nl in Hs. cbn [core set_core] in Hs.
    destruct (step_lslot cap mx (core n) (OExDrop id xi retr ack now) sid xi0 v Hnd0
                eq_refl Hs)
      as [H|[[p [t [E1 _]]]|[[t [E1 _]]|[[t [E1 _]]|[r' [a' [t [E1 Ev]]]]]]]]; try discriminate; auto.
    destruct Ev; subst v; cbn in Hl; discriminate.
Qed.

Lemma xinv_init : xinv node_init.
Proof. intros sid xi v _ [s [[] _]]. Qed.

Theorem nrun_xinv : forall ops n,
  inv1 cap (core n) -> next_of (core n) + 8 * N.of_nat (length ops) <= UID_MAX -> hinv n -> xinv n ->
  xinv (nrun cap mx n ops).
Proof.
  induction ops as [|o r IH]; intros n Hi Hb Hh Hx; cbn [nrun]; auto.
  cbn [length] in Hb. destruct (nstep_inv1 cap mx n o Hi ltac:(lia)) as [H1 [H2 H3]].
  apply IH; auto; [lia|apply nstep_hinv; auto; lia|apply nstep_xinv; auto; lia].
Qed.

End XNode.
