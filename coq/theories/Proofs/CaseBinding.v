(** C01: transcript binding (partial: unforgeability of the two ciphertexts is a visible hypothesis). *)
From Coq Require Import ZifyN ZifyBool.
From RsM Require Import Lib.MachInt Model.Cert Model.CertSpec Model.Case Model.CaseSpec
  Proofs.CertTheorems Proofs.CaseFacts.
Open Scope N_scope.

Arguments N.add : simpl never.
Arguments N.eqb : simpl never.

(** UNFORGEABILITY HYPOTHESES of the partial transcript-binding theorem (instances of INT-CTXT of
    AES-CCM under keys an attacker without the IPK and without an ephemeral secret cannot derive; what is
    missing for the full Dolev-Yao statement is their derivation from an inductive attacker-knowledge
    closure):
    U2  the TBE2 ciphertext in the Sigma2 the initiator accepted is the one THE responder run (node [b],
        fresh values [frb], Sigma1 as received [m1']) put into its Sigma2;
    U3  the TBE3 ciphertext in the Sigma3 the responder accepted is the one THE initiator run put into its
        Sigma3. *)
Definition tbe2_from_responder (b : node) (frb : fresh) (m1' m2' : msg) : Prop :=
  forall c, get_req m2' 4 KBytes = Ok c ->
  exists q fb, parse_sigma1 m1' = Ok q /\
    get_by_dest_id (n_fabrics b) (g1_random q) (g1_dest q) = Some fb /\
    get_req (build_sigma2 fb frb (g1_pub q) (msg_term m1')) 4 KBytes = Ok c.

Definition initiator_sigma3 (fa : fabric) (fra : fresh) (rpub : term) (m1 m2' : msg) : msg :=
  build_sigma3 fa (TPub (TNonce (fr_eph fra))) rpub (msg_term m1) (msg_term m2')
               (dh (TNonce (fr_eph fra)) rpub).

Definition tbe3_from_initiator (a : node) (fra : fresh) (fab : N) (m1 m2' m3' : msg) : Prop :=
  forall c, get_req m3' 1 KBytes = Ok c ->
  exists fa rpub, get_fabric fab (n_fabrics a) = Some fa /\ get_req m2' 3 KBytes = Ok rpub /\
    get_req (initiator_sigma3 fa fra rpub m1 m2') 1 KBytes = Ok c.

Lemma ok_inj : forall A (x y : A), @Ok A x = Ok y -> x = y.
Proof. intros A x y H. inversion H. reflexivity. Qed.

Lemma build_sigma2_tbe : forall f fr pp s1,
  get_req (build_sigma2 f fr pp s1) 4 KBytes =
  Ok (TAead (s2k (f_ipk f) (TNonce (fr_rand fr)) (TPub (TNonce (fr_eph fr))) (h1 s1) (dh (TNonce (fr_eph fr)) pp))
            (TNum NONCE_S2)
            (tbe2_plain (f_noc f) (f_icac f)
               (TSig (TKey (f_sk f)) (tbs (f_noc f) (f_icac f) (TPub (TNonce (fr_eph fr))) pp))
               (TNonce (fr_rid fr)))).
Proof. reflexivity. Qed.

Lemma build_sigma3_tbe : forall f own rpub s1 s2 shared,
  get_req (build_sigma3 f own rpub s1 s2 shared) 1 KBytes =
  Ok (TAead (s3k (f_ipk f) (h12 s1 s2) shared) (TNum NONCE_S3)
            (tbe3_plain (f_noc f) (f_icac f) (TSig (TKey (f_sk f)) (tbs (f_noc f) (f_icac f) own rpub)))).
Proof. reflexivity. Qed.

Theorem transcript_binding_partial : forall a b fra frb fab peer m1 m1' m2' m3' sa sb,
  initiator_full_sound a fra fab peer m1 m2' sa ->
  responder_full_sound b frb m1' m3' sb ->
  tbe2_from_responder b frb m1' m2' ->
  tbe3_from_initiator a fra fab m1 m2' m3' ->
  exists fa fb q rpub,
    get_fabric fab (n_fabrics a) = Some fa /\ parse_sigma1 m1' = Ok q /\
    get_by_dest_id (n_fabrics b) (g1_random q) (g1_dest q) = Some fb /\
    get_req m2' 3 KBytes = Ok rpub /\
    let m2 := build_sigma2 fb frb (g1_pub q) (msg_term m1') in
    let m3 := initiator_sigma3 fa fra rpub m1 m2' in
    (* both ends saw the same Sigma1 and the same Sigma2 *)
    msg_term m1' = msg_term m1 /\ msg_term m2' = msg_term m2 /\
    (* each end authenticated the credentials the other one holds, and is bound to them *)
    s_fab sa = fab /\ s_peer sa = peer /\ get_node_id (f_noc fb) = Some peer /\ cats_of (f_noc fb) = Ok (s_cats sa) /\
    s_fab sb = f_idx fb /\ get_node_id (f_noc fa) = Some (s_peer sb) /\ cats_of (f_noc fa) = Ok (s_cats sb) /\
    (* the directional keys agree crosswise exactly when Sigma3 arrived as sent *)
    ((s_enc sa = s_dec sb /\ s_dec sa = s_enc sb) <-> msg_term m3' = msg_term m3).
Proof.
  intros a b fra frb fab peer m1 m1' m2' m3' sa sb
    (fa & rr & rpub & noc & icac & sig & rid & cats & HI) (q & fb & nocA & icacA & sigA & peerA & catsA & HR) U2 U3.
  cbn zeta in HI, HR.
  destruct HI as (Hgfa & Hrr & Hrpub & Htbe2 & Hcv & Hnid & Hsig & Hcats & Hfa & Hpa & Hca & Hresa & Henca & Hdeca).
  destruct HR as (Hq & Hdest & Hinb & Htbe3 & HcvA & HsigA & HnidA & HcatsA & Hfb & Hpb & Hcb & Hresb & Hdecb & Hencb).
  destruct (U2 _ Htbe2) as (q' & fb' & Hq' & Hdest' & Hout2).
  rewrite Hq in Hq'. apply ok_inj in Hq'. subst q'. rewrite Hdest in Hdest'. inversion Hdest'; subst fb'; clear Hdest'.
  rewrite build_sigma2_tbe in Hout2. apply ok_inj in Hout2.
  unfold s2k, tbe2_plain, h1 in Hout2.
  assert (Hipk : f_ipk fb = f_ipk fa) by congruence.
  assert (Hm1 : msg_term m1' = msg_term m1) by congruence.
  assert (Hsh : dh (TNonce (fr_eph frb)) (g1_pub q) = dh (TNonce (fr_eph fra)) rpub) by congruence.
  assert (Hnoc : f_noc fb = noc) by congruence.
  assert (Hicac : icac_term (f_icac fb) = icac_term icac) by congruence.
  apply icac_term_inj in Hicac.
  destruct (U3 _ Htbe3) as (fa' & rpub' & Hgfa' & Hrpub'' & Hout3).
  rewrite Hgfa in Hgfa'. inversion Hgfa'; subst fa'; clear Hgfa'.
  rewrite Hrpub in Hrpub''. apply ok_inj in Hrpub''. subst rpub'.
  unfold initiator_sigma3 in Hout3. rewrite build_sigma3_tbe in Hout3. apply ok_inj in Hout3.
  unfold s3k, tbe3_plain, h12 in Hout3.
  assert (Hm2 : msg_term m2' = msg_term (build_sigma2 fb frb (g1_pub q) (msg_term m1'))) by congruence.
  assert (HnocA : f_noc fa = nocA) by congruence.
  assert (HicacA : icac_term (f_icac fa) = icac_term icacA) by congruence.
  apply icac_term_inj in HicacA.
  exists fa, fb, q, rpub. cbn zeta.
  split; [exact Hgfa|]. split; [exact Hq|]. split; [exact Hdest|]. split; [exact Hrpub|].
  split; [exact Hm1|]. split; [exact Hm2|]. split; [exact Hfa|]. split; [exact Hpa|].
  split; [rewrite Hnoc; exact Hnid|]. split; [rewrite Hnoc, Hca; exact Hcats|].
  split; [exact Hfb|]. split; [rewrite HnocA, Hpb; exact HnidA|]. split; [rewrite HnocA, Hcb; exact HcatsA|].
  unfold initiator_sigma3. rewrite Henca, Hdeca, Hdecb, Hencb. unfold sess_key, h123. split.
  - intros [E1 _]. congruence.
  - intros E. split; congruence.
Qed.

(** U1 (unforgeability hypothesis of the resumption binding): the Resume1MIC in the Sigma1 the responder
    accepted is the one THE initiator run (node [a], fresh values [fra], towards ([fab], [peer])) computed
    from its cached record - over ITS random (the whole value: the symbolic MIC key is
    HKDF(salt = random || resumption id, secret)) and ITS resumption id. *)
Definition mic1_from_initiator (a : node) (fra : fresh) (fab peer : N) (m1' : msg) : Prop :=
  forall q mic, parse_sigma1 m1' = Ok q -> g1_mic q = Some mic ->
  exists ra, find_by_peer (n_cache a) fab peer = Some ra /\
    mic = resume_mic INFO_S1RK NONCE_R1 (r_secret ra) (TNonce (fr_rand fra)) (r_rid ra).

Theorem resume_binding_partial : forall a b fra fab peer m1' m2' sa sb,
  initiator_resume_sound a fra fab peer m2' sa ->
  responder_resume_sound b m1' sb ->
  mic1_from_initiator a fra fab peer m1' ->
  exists q ra rb,
    parse_sigma1 m1' = Ok q /\ find_by_peer (n_cache a) fab peer = Some ra /\ In rb (n_cache b) /\
    (* the responder saw the initiator's random, every bit of it, and both used the same record *)
    g1_random q = TNonce (fr_rand fra) /\ r_secret rb = r_secret ra /\ r_rid rb = r_rid ra /\
    (* identities come from the two records *)
    s_fab sa = r_fab ra /\ s_peer sa = r_peer ra /\ s_cats sa = r_cats ra /\
    s_fab sb = r_fab rb /\ s_peer sb = r_peer rb /\ s_cats sb = r_cats rb /\
    (* same directional keys crosswise *)
    s_enc sa = s_dec sb /\ s_dec sa = s_enc sb.
Proof.
  intros a b fra fab peer m1' m2' sa sb
    (ra & nr & fa & Hfind & Hnr & Hmic2 & Hgfa & Hfa & Hrfa & Hpa & Hrpa & Hca & Hresa & Henca & Hdeca)
    (q & rb & rid & fb & Hq & Hrid & Hin & Hrr & Hmic1 & Hgfb & Hfb & Hpb & Hcb & Hresb & Hdecb & Hencb) U1.
  destruct (U1 q _ Hq Hmic1) as (ra' & Hfind' & Heq).
  rewrite Hfind in Hfind'. inversion Hfind'; subst ra'; clear Hfind'.
  unfold resume_mic, resume_key in Heq.
  assert (E1 : g1_random q = TNonce (fr_rand fra)) by congruence.
  assert (E2 : r_secret rb = r_secret ra) by congruence.
  assert (E3 : r_rid rb = r_rid ra) by congruence.
  exists q, ra, rb. repeat split; try assumption.
  - rewrite Henca, Hdecb. unfold rsess_key. congruence.
  - rewrite Hdeca, Hencb. unfold rsess_key. congruence.
Qed.
