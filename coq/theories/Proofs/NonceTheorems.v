(** C15: no counter is ever used for two different wire messages. *)
From RsM Require Import Lib.MachInt Model.Mrp Model.Nonce Proofs.MrpSys.
From Coq Require Import ZifyN ZifyBool Sorted.
Open Scope N_scope.

Arguments N.ltb : simpl never.
Arguments N.leb : simpl never.
Arguments N.eqb : simpl never.
Arguments N.add : simpl never.

(** ** list helpers *)

Lemma nth_set_nth_same {A} (l : list A) n x y :
  nth_error l n = Some y -> nth_error (set_nth l n x) n = Some x.
Proof.
  revert n. induction l as [|a t IH]; intros n; [destruct n; discriminate|].
  destruct n as [|n]; cbn [set_nth nth_error]; [reflexivity|apply IH].
Qed.

Lemma nth_set_nth_other {A} (l : list A) n k x :
  n <> k -> nth_error (set_nth l n x) k = nth_error l k.
Proof.
  revert n k. induction l as [|a t IH]; intros n k Hne; [destruct n; reflexivity|].
  destruct n as [|n], k as [|k]; cbn [set_nth nth_error]; try reflexivity; try congruence.
  apply IH. congruence.
Qed.

(** ** honesty of a trace w.r.t. the running state *)

Definition piggy (x : exslot) : option N :=
  match rm_ack (ex_rm x) with Some a => Some (a_ctr a) | None => None end.

Definition pending_ctr (x : exslot) : option N :=
  match rm_retr (ex_rm x) with Some r => Some (r_ctr r) | None => None end.

(** the application re-sends the same message while a retransmission is
    pending (what [Exchange::send]/[Sender] enforce), and the peer is
    half-duplex on the exchange: it does not send a new reliable message that
    does not acknowledge ours while ours is pending *)
Definition honest_step (s : sess) (o : sop) : bool :=
  match o with
  | Send e m _ =>
      match nth_error (s_ex s) e with
      | Some x => match pending_ctr x, ex_pending x with
                  | Some _, Some m0 => m =? m0
                  | Some _, None => false
                  | None, _ => true
                  end
      | None => true
      end
  | Recv e _ rx_ack reliable =>
      match nth_error (s_ex s) e with
      | Some x => match pending_ctr x, rx_ack with
                  | Some _, None => negb reliable
                  | _, _ => true
                  end
      | None => true
      end
  end.

Definition step_state (s : sess) (o : sop) : sess :=
  match o with
  | Send e m rel => fst (sess_send s e m rel)
  | Recv e c a rel => fst (sess_recv s e c a rel)
  end.

Definition step_wire (s : sess) (o : sop) : option wire :=
  match o with
  | Send e m rel => match snd (sess_send s e m rel) with Ok w => Some w | _ => None end
  | Recv _ _ _ _ => None
  end.

Definition step_panics (s : sess) (o : sop) : bool :=
  match o with
  | Send e m rel => match snd (sess_send s e m rel) with Panic _ => true | _ => false end
  | Recv _ _ _ _ => false
  end.

Fixpoint honest (s : sess) (ops : list sop) : bool :=
  match ops with
  | [] => true
  | o :: t => honest_step s o && (step_panics s o || honest (step_state s o) t)
  end.

(** ** the invariant *)

Record WInv (s : sess) (ws : list wire) : Prop := mkWInv {
  wi_lt : forall w, In w ws -> w_ctr w < s_ctr s;
  wi_pending : forall e x c, nth_error (s_ex s) e = Some x -> pending_ctr x = Some c ->
      c < s_ctr s /\
      exists m0, ex_pending x = Some m0 /\
                 forall w, In w ws -> w_ctr w = c -> w = mkWire c (piggy x) m0;
  wi_unique : forall w1 w2, In w1 ws -> In w2 ws -> w_ctr w1 = w_ctr w2 -> w1 = w2;
  wi_distinct : forall e1 e2 x1 x2 c, nth_error (s_ex s) e1 = Some x1 -> nth_error (s_ex s) e2 = Some x2 ->
      pending_ctr x1 = Some c -> pending_ctr x2 = Some c -> e1 = e2
}.

(** the invariant only looks at the counter and the exchange slots *)
Lemma winv_ext s s' ws : s_ctr s' = s_ctr s -> s_ex s' = s_ex s -> WInv s ws -> WInv s' ws.
Proof.
  intros Hc He I. destruct I. constructor; rewrite ?Hc, ?He; assumption.
Qed.

Lemma winv_fresh ctr n b c : WInv (mkSess ctr (repeat (mkEx rm_new None) n) b c) [].
Proof.
  constructor; try (intros; contradiction).
  - intros e x c' Hn Hp. cbn [s_ex] in Hn.
    apply nth_error_In, repeat_spec in Hn. subst x. discriminate.
  - intros e1 e2 x1 x2 c' Hn _ Hp. cbn [s_ex] in Hn.
    apply nth_error_In, repeat_spec in Hn. subst x1. discriminate.
Qed.

Lemma winv_init c0 n : WInv (sess_new c0 n) [].
Proof. apply winv_fresh. Qed.

(** characterisation of [rm_pre_send] as far as the wire is concerned *)
Lemma rm_pre_send_facts x ctr rel rm' p :
  rm_pre_send x ctr rel None = (rm', Ok p) ->
  p = (match rm_ack x with Some a => Some (a_ctr a) | None => None end) /\
  (match rm_ack rm' with Some a => Some (a_ctr a) | None => None end) = p /\
  (match rm_retr x with
   | Some r => rm_retr rm' = Some (mkRetrans (r_base r) (r_ctr r) (if rel then r_count r + 1 else r_count r))
               \/ (rel = false /\ rm_retr rm' = Some r)
   | None => if rel then exists b, rm_retr rm' = Some (mkRetrans b ctr 0) else rm_retr rm' = None
   end).
Proof.
  unfold rm_pre_send.
  destruct (rm_ack x) as [a|] eqn:Ea; cbn [fst snd].
  - destruct rel.
    + destruct (rm_retr x) as [r|] eqn:Er.
      * destruct (r_ctr r =? ctr); [|discriminate].
        destruct (r_count r <? MRP_MAX_TRANSMISSIONS); [|discriminate].
        intros H. injection H as <- <-. cbn. repeat split. left. reflexivity.
      * intros H. injection H as <- <-. cbn. repeat split. eexists. reflexivity.
    + intros H. injection H as <- <-. cbn. repeat split.
      destruct (rm_retr x) as [r|]; [right; split; reflexivity|reflexivity].
  - destruct rel.
    + destruct (rm_retr x) as [r|] eqn:Er.
      * destruct (r_ctr r =? ctr); [|discriminate].
        destruct (r_count r <? MRP_MAX_TRANSMISSIONS); [|discriminate].
        intros H. injection H as <- <-. cbn. repeat split. left. reflexivity.
      * intros H. injection H as <- <-. cbn. repeat split. eexists. reflexivity.
    + intros H. injection H as <- <-. cbn. repeat split.
      destruct (rm_retr x) as [r|]; [right; split; reflexivity|reflexivity].
Qed.

Lemma rm_pre_send_err x ctr rel rm' c :
  rm_pre_send x ctr rel None = (rm', Err c) -> rm_retr rm' = None.
Proof.
  unfold rm_pre_send.
  destruct (rm_ack x) as [a|]; destruct rel; try discriminate;
    destruct (rm_retr x) as [r|]; try discriminate;
    destruct (r_ctr r =? ctr); try discriminate;
    destruct (r_count r <? MRP_MAX_TRANSMISSIONS); try discriminate;
    intros H; injection H as <- _; reflexivity.
Qed.

Lemma winv_set_slot_nopending s ws e x x' b1 b2 :
  WInv s ws -> nth_error (s_ex s) e = Some x -> pending_ctr x' = None ->
  forall n, s_ctr s <= n -> WInv (mkSess n (set_nth (s_ex s) e x') b1 b2) ws.
Proof.
  intros I Hn Hp n Hle. destruct I. constructor; cbn [s_ctr s_ex].
  - intros w Hin. specialize (wi_lt0 _ Hin). lia.
  - intros e' x'' c Hn' Hp'. destruct (Nat.eq_dec e e') as [<-|Hne].
    + rewrite (nth_set_nth_same _ _ _ _ Hn) in Hn'. injection Hn' as <-. congruence.
    + rewrite nth_set_nth_other in Hn' by exact Hne.
      destruct (wi_pending0 _ _ _ Hn' Hp') as (H1 & m0 & H2 & H3). split; [lia|]. eauto.
  - exact wi_unique0.
  - intros e1 e2 x1 x2 c H1 H2 P1 P2.
    destruct (Nat.eq_dec e e1) as [<-|Hne1].
    { rewrite (nth_set_nth_same _ _ _ _ Hn) in H1. injection H1 as <-. congruence. }
    destruct (Nat.eq_dec e e2) as [<-|Hne2].
    { rewrite (nth_set_nth_same _ _ _ _ Hn) in H2. injection H2 as <-. congruence. }
    rewrite nth_set_nth_other in H1, H2 by assumption. eapply wi_distinct0; eassumption.
Qed.

Lemma winv_set_slot_same s ws e x x' c b1 b2 :
  WInv s ws -> nth_error (s_ex s) e = Some x ->
  pending_ctr x = Some c -> pending_ctr x' = Some c -> piggy x' = piggy x -> ex_pending x' = ex_pending x ->
  WInv (mkSess (s_ctr s) (set_nth (s_ex s) e x') b1 b2) ws.
Proof.
  intros I Hn Hp Hp' Hpig Hpend. pose proof I as I0. destruct I. constructor; cbn [s_ctr s_ex].
  - exact wi_lt0.
  - intros e' x'' c' Hn' Hp''. destruct (Nat.eq_dec e e') as [<-|Hne].
    + rewrite (nth_set_nth_same _ _ _ _ Hn) in Hn'. injection Hn' as <-.
      assert (c' = c) by congruence. subst c'.
      destruct (wi_pending0 _ _ _ Hn Hp) as (H1 & m0 & H2 & H3). split; [exact H1|].
      exists m0. rewrite Hpend, Hpig. split; [exact H2|exact H3].
    + rewrite nth_set_nth_other in Hn' by exact Hne. eapply wi_pending0; eassumption.
  - exact wi_unique0.
  - intros e1 e2 x1 x2 c' H1 H2 P1 P2.
    assert (Hold : forall e0 x0, nth_error (set_nth (s_ex s) e x') e0 = Some x0 -> pending_ctr x0 = Some c' ->
                   exists y, nth_error (s_ex s) e0 = Some y /\ pending_ctr y = Some c').
    { intros e0 x0 Hx0 Px0. destruct (Nat.eq_dec e e0) as [<-|Hne].
      - rewrite (nth_set_nth_same _ _ _ _ Hn) in Hx0. injection Hx0 as <-.
        exists x. split; [exact Hn|congruence].
      - rewrite nth_set_nth_other in Hx0 by exact Hne. eauto. }
    destruct (Hold _ _ H1 P1) as (y1 & Y1 & Q1). destruct (Hold _ _ H2 P2) as (y2 & Y2 & Q2).
    eapply wi_distinct0; eassumption.
Qed.

Lemma winv_send s ws e m rel :
  WInv s ws -> honest_step s (Send e m rel) = true ->
  match snd (sess_send s e m rel) with
  | Ok w => WInv (fst (sess_send s e m rel)) (w :: ws)
  | Err _ => WInv (fst (sess_send s e m rel)) ws
  | Panic _ => True
  end.
Proof.
  intros I Hh. unfold sess_send. cbn [honest_step] in Hh.
  destruct (nth_error (s_ex s) e) as [x|] eqn:Hn; [|exact I].
  unfold pending_ctr in Hh.
  destruct (rm_retr (ex_rm x)) as [r|] eqn:Er.
  - (* a retransmission entry is pending: its counter is reused *)
    cbn [N.leb]. 
    destruct (ex_pending x) as [m0|] eqn:Epend; [|discriminate].
    apply N.eqb_eq in Hh. subst m0.
    assert (Hp : pending_ctr x = Some (r_ctr r)) by (unfold pending_ctr; rewrite Er; reflexivity).
    destruct (rm_pre_send (ex_rm x) (r_ctr r) rel None) as [rm' res] eqn:Eps.
    destruct res as [p|c|pn]; cbn [fst snd]; [| |exact Logic.I].
    + destruct (rm_pre_send_facts _ _ _ _ _ Eps) as (Hpig & Hpig' & Hretr). rewrite Er in Hretr.
      assert (Hretr' : exists r', rm_retr rm' = Some r' /\ r_ctr r' = r_ctr r).
      { destruct Hretr as [H|[_ H]]; rewrite H; eexists; split; reflexivity. }
      destruct Hretr' as (r' & Hr' & Hc'). rewrite Hr'.
      set (x' := mkEx rm' (Some m)).
      assert (Px' : pending_ctr x' = Some (r_ctr r)).
      { unfold pending_ctr, x'. cbn [ex_rm]. rewrite Hr', Hc'. reflexivity. }
      assert (Gx' : piggy x' = piggy x).
      { unfold piggy, x'. cbn [ex_rm]. rewrite Hpig'. exact Hpig. }
      pose proof (winv_set_slot_same s ws e x x' (r_ctr r) (s_expired s) (s_case s) I Hn Hp Px' Gx') as J.
      specialize (J (eq_sym Epend)).
      destruct (wi_pending s ws I _ _ _ Hn Hp) as (Hlt & m0 & Hm0 & Hall).
      assert (m0 = m) by congruence. subst m0.
      assert (Hw : mkWire (r_ctr r) p m = mkWire (r_ctr r) (piggy x) m).
      { f_equal. exact Hpig. }
      destruct J. constructor; cbn [s_ctr s_ex] in *.
      * intros w [<-|Hin]; [cbn [w_ctr]; exact Hlt|apply wi_lt0; exact Hin].
      * intros e' x'' c' Hn' Hp''.
        destruct (wi_pending0 _ _ _ Hn' Hp'') as (H1 & m1 & H2 & H3). split; [exact H1|].
        exists m1. split; [exact H2|]. intros w [<-|Hin] Hc; [|apply H3; assumption].
        cbn [w_ctr] in Hc. subst c'.
        assert (e' = e).
        { eapply wi_distinct0; [exact Hn'| |exact Hp''|exact Px'].
          apply (nth_set_nth_same _ _ _ _ Hn). }
        subst e'. rewrite (nth_set_nth_same _ _ _ _ Hn) in Hn'. injection Hn' as <-.
        cbn [ex_pending x'] in H2. injection H2 as <-. rewrite Gx'. exact Hw.
      * intros w1 w2 [<-|H1] [<-|H2] Hc; try reflexivity.
        -- cbn [w_ctr] in Hc. rewrite Hw. symmetry. apply Hall; [exact H2|congruence].
        -- cbn [w_ctr] in Hc. rewrite Hw. apply Hall; [exact H1|congruence].
        -- apply wi_unique0; assumption.
      * exact wi_distinct0.
    + apply (winv_set_slot_nopending s ws e x); [exact I|exact Hn| |lia].
      unfold pending_ctr. cbn [ex_rm]. rewrite (rm_pre_send_err _ _ _ _ _ Eps). reflexivity.
  - (* fresh counter *)
    destruct (N.leb_spec two32 (s_ctr s + 1)) as [Hov|Hok]; cbn [fst snd];
      [apply (winv_ext s); [reflexivity|reflexivity|exact I]|].
    destruct (rm_pre_send (ex_rm x) (s_ctr s) rel None) as [rm' res] eqn:Eps.
    destruct res as [p|c|pn]; cbn [fst snd]; [| |exact Logic.I].
    2:{ exfalso. unfold rm_pre_send in Eps. rewrite Er in Eps.
        destruct (rm_ack (ex_rm x)); destruct rel; discriminate. }
    destruct (rm_pre_send_facts _ _ _ _ _ Eps) as (Hpig & Hpig' & Hretr). rewrite Er in Hretr.
    set (w := mkWire (s_ctr s) p m).
    destruct rel.
    + destruct Hretr as [b Hr']. rewrite Hr'.
      set (x' := mkEx rm' (Some m)).
      destruct I. constructor; cbn [s_ctr s_ex].
      * intros w' [<-|Hin]; [cbn; lia|specialize (wi_lt0 _ Hin); lia].
      * intros e' x'' c' Hn' Hp''. destruct (Nat.eq_dec e e') as [<-|Hne].
        -- rewrite (nth_set_nth_same _ _ _ _ Hn) in Hn'. injection Hn' as <-.
           unfold pending_ctr in Hp''. cbn [ex_rm x'] in Hp''. rewrite Hr' in Hp''. cbn [r_ctr] in Hp''.
           injection Hp'' as <-. split; [lia|]. exists m. split; [reflexivity|].
           intros w' [<-|Hin] Hc.
           ++ unfold w, piggy. cbn [ex_rm x']. rewrite Hpig'. reflexivity.
           ++ specialize (wi_lt0 _ Hin). lia.
        -- rewrite nth_set_nth_other in Hn' by exact Hne.
           destruct (wi_pending0 _ _ _ Hn' Hp'') as (H1 & m1 & H2 & H3). split; [lia|].
           exists m1. split; [exact H2|]. intros w' [<-|Hin] Hc; [cbn [w w_ctr] in Hc; lia|apply H3; assumption].
      * intros w1 w2 [<-|H1] [<-|H2] Hc; try reflexivity.
        -- specialize (wi_lt0 _ H2). cbn [w w_ctr] in Hc. lia.
        -- specialize (wi_lt0 _ H1). cbn [w w_ctr] in Hc. lia.
        -- apply wi_unique0; assumption.
      * intros e1 e2 x1 x2 c' H1 H2 P1 P2.
        assert (Hold : forall e0 x0, nth_error (set_nth (s_ex s) e x') e0 = Some x0 -> pending_ctr x0 = Some c' ->
                       (e0 = e /\ c' = s_ctr s) \/ (e0 <> e /\ c' < s_ctr s /\ nth_error (s_ex s) e0 = Some x0)).
        { intros e0 x0 Hx0 Px0. destruct (Nat.eq_dec e e0) as [<-|Hne].
          - left. split; [reflexivity|]. rewrite (nth_set_nth_same _ _ _ _ Hn) in Hx0. injection Hx0 as <-.
            unfold pending_ctr in Px0. cbn [ex_rm x'] in Px0. rewrite Hr' in Px0. cbn in Px0. congruence.
          - right. rewrite nth_set_nth_other in Hx0 by exact Hne.
            destruct (wi_pending0 _ _ _ Hx0 Px0) as (Hl & _). repeat split; [congruence|exact Hl|exact Hx0]. }
        destruct (Hold _ _ H1 P1) as [[-> E1]|(N1 & L1 & Y1)], (Hold _ _ H2 P2) as [[-> E2]|(N2 & L2 & Y2)];
          try reflexivity; try lia.
        eapply wi_distinct0; eassumption.
    + rewrite Hretr.
      pose proof (winv_set_slot_nopending s ws e x (mkEx rm' None) (s_expired s) (s_case s)
                    (mkWInv _ _ (wi_lt s ws I) (wi_pending s ws I) (wi_unique s ws I) (wi_distinct s ws I)) Hn) as J.
      assert (Pn : pending_ctr (mkEx rm' None) = None).
      { unfold pending_ctr. cbn [ex_rm]. rewrite Hretr. reflexivity. }
      specialize (J Pn (s_ctr s + 1)). assert (Hle : s_ctr s <= s_ctr s + 1) by lia. specialize (J Hle).
      destruct I. destruct J. constructor; cbn [s_ctr s_ex] in *.
      * intros w' [<-|Hin]; [cbn; lia|apply wi_lt1; exact Hin].
      * intros e' x'' c' Hn' Hp''.
        destruct (wi_pending1 _ _ _ Hn' Hp'') as (H1 & m1 & H2 & H3). split; [exact H1|].
        exists m1. split; [exact H2|]. intros w' [<-|Hin] Hc; [|apply H3; assumption].
        exfalso. cbn [w w_ctr] in Hc. subst c'.
        destruct (Nat.eq_dec e e') as [<-|Hne].
        -- rewrite (nth_set_nth_same _ _ _ _ Hn) in Hn'. injection Hn' as <-. congruence.
        -- rewrite nth_set_nth_other in Hn' by exact Hne.
           destruct (wi_pending0 _ _ _ Hn' Hp'') as (Hl & _). lia.
      * intros w1 w2 [<-|H1] [<-|H2] Hc; try reflexivity.
        -- specialize (wi_lt0 _ H2). cbn [w w_ctr] in Hc. lia.
        -- specialize (wi_lt0 _ H1). cbn [w w_ctr] in Hc. lia.
        -- apply wi_unique0; assumption.
      * exact wi_distinct1.
Qed.

Lemma rm_post_recv_facts x c a rel :
  let rm' := fst (rm_post_recv x c a rel) in
  rm_retr rm' = None \/
  (rm_retr rm' = rm_retr x /\
   (rm_ack rm' = rm_ack x \/ (rel = true /\ (a = None \/ rm_retr x = None)))).
Proof.
  unfold rm_post_recv.
  destruct a as [k|].
  - destruct (rm_retr x) as [r|] eqn:Er.
    + destruct (r_ctr r =? k).
      * left. destruct rel; reflexivity.
      * right. cbn [fst]. split; [exact (eq_sym (eq_sym Er))|left; reflexivity].
    + left. destruct rel; cbn; exact Er.
  - destruct rel; cbn [fst rm_retr rm_ack].
    + right. split; [reflexivity|right]. split; [reflexivity|left; reflexivity].
    + right. split; [reflexivity|left; reflexivity].
Qed.

Lemma winv_recv s ws e c a rel :
  WInv s ws -> honest_step s (Recv e c a rel) = true ->
  WInv (fst (sess_recv s e c a rel)) ws.
Proof.
  intros I Hh. unfold sess_recv. cbn [honest_step] in Hh.
  destruct (nth_error (s_ex s) e) as [x|] eqn:Hn; [|exact I].
  destruct (rm_post_recv (ex_rm x) c a rel) as [rm' r] eqn:Epr. cbn [fst].
  pose proof (rm_post_recv_facts (ex_rm x) c a rel) as F. rewrite Epr in F. cbn [fst] in F.
  destruct F as [Fnone|[Fsame Fack]].
  - rewrite Fnone.
    apply (winv_set_slot_nopending s ws e x); [exact I|exact Hn| |lia].
    unfold pending_ctr. cbn [ex_rm]. rewrite Fnone. reflexivity.
  - destruct (rm_retr (ex_rm x)) as [r0|] eqn:Er.
    + (* pending before and after: the acknowledgement entry must be unchanged *)
      rewrite Fsame.
      assert (Hp : pending_ctr x = Some (r_ctr r0)) by (unfold pending_ctr; rewrite Er; reflexivity).
      assert (Hack : rm_ack rm' = rm_ack (ex_rm x)).
      { destruct Fack as [H|[Hrel [Ha|Hr]]]; [exact H| |discriminate].
        subst rel a. rewrite Hp in Hh. discriminate. }
      apply (winv_set_slot_same s ws e x _ (r_ctr r0)); try assumption.
      * unfold pending_ctr. cbn [ex_rm]. rewrite Fsame. reflexivity.
      * unfold piggy. cbn [ex_rm]. rewrite Hack. reflexivity.
      * reflexivity.
    + rewrite Fsame.
      apply (winv_set_slot_nopending s ws e x); [exact I|exact Hn| |lia].
      unfold pending_ctr. cbn [ex_rm]. rewrite Fsame. reflexivity.
Qed.

(** ** the headline theorem: one counter, one wire message *)

Lemma run_unique_gen (ops : list sop) : forall s ws,
  WInv s ws -> honest s ops = true ->
  let '(sf, out, _) := sess_run s ops in
  WInv sf (rev out ++ ws).
Proof.
  induction ops as [|o t IH]; intros s ws I Hh; [exact I|].
  cbn [honest] in Hh. apply andb_prop in Hh as [Hstep Hrest].
  destruct o as [e m rel|e c a rel]; cbn [sess_run].
  - pose proof (winv_send s ws e m rel I Hstep) as J.
    cbn [step_panics step_state] in Hrest.
    destruct (sess_send s e m rel) as [s' r] eqn:Es. cbn [fst snd] in *.
    destruct r as [w|c|p].
    + cbn [orb] in Hrest. specialize (IH s' (w :: ws) J Hrest).
      destruct (sess_run s' t) as [[sf out] pn]. cbn [rev]. rewrite <- app_assoc. exact IH.
    + cbn [orb] in Hrest. apply IH; assumption.
    + cbn [rev app]. 
      (* the run stops at the panic: nothing more reaches the wire *)
      destruct I. constructor; cbn; try assumption; try (intros; contradiction).
      all: unfold sess_send in Es.
      all: destruct (nth_error (s_ex s) e) as [x|]; [|discriminate].
      all: destruct (rm_retr (ex_rm x)) as [r0|].
      all: try (destruct (rm_pre_send (ex_rm x) (r_ctr r0) rel None) as [rm' [?|?|?]]; injection Es as <- ?; try discriminate; assumption).
      all: try (destruct (two32 <=? s_ctr s + 1); [discriminate|]).
      all: try (destruct (rm_pre_send (ex_rm x) (s_ctr s) rel None) as [rm' [?|?|?]]; injection Es as <- ?; try discriminate; assumption).
  - pose proof (winv_recv s ws e c a rel I Hstep) as J.
    cbn [step_panics step_state orb] in Hrest.
    destruct (sess_recv s e c a rel) as [s' r] eqn:Es. cbn [fst] in *.
    apply IH; assumption.
Qed.

Theorem nonce_unique (c0 : N) (nex : nat) (ops : list sop) :
  honest (sess_new c0 nex) ops = true ->
  forall w1 w2, In w1 (snd (fst (sess_run (sess_new c0 nex) ops))) ->
                In w2 (snd (fst (sess_run (sess_new c0 nex) ops))) ->
                w_ctr w1 = w_ctr w2 -> w1 = w2.
Proof.
  intros Hh w1 w2 H1 H2 Hc.
  pose proof (run_unique_gen ops (sess_new c0 nex) [] (winv_init c0 nex) Hh) as J.
  destruct (sess_run (sess_new c0 nex) ops) as [[sf out] pn]. cbn [fst snd] in *.
  rewrite app_nil_r in J.
  apply (wi_unique sf (rev out) J); [apply in_rev in H1| apply in_rev in H2|exact Hc];
    rewrite ?rev_involutive in *; assumption.
Qed.

(** ** messages that are not retransmissions carry strictly increasing counters *)

Definition is_fresh (s : sess) (o : sop) : bool :=
  match o with
  | Send e _ _ => match nth_error (s_ex s) e with
                  | Some x => match pending_ctr x with None => true | Some _ => false end
                  | None => false end
  | Recv _ _ _ _ => false
  end.

Fixpoint fresh_ctrs (s : sess) (ops : list sop) : list N :=
  match ops with
  | [] => []
  | o :: t =>
      if step_panics s o then [] else
      match step_wire s o with
      | Some w => if is_fresh s o then w_ctr w :: fresh_ctrs (step_state s o) t
                  else fresh_ctrs (step_state s o) t
      | None => fresh_ctrs (step_state s o) t
      end
  end.

Lemma step_ctr_mono s o : s_ctr s <= s_ctr (step_state s o).
Proof.
  destruct o as [e m rel|e c a rel]; cbn [step_state].
  - unfold sess_send. destruct (nth_error (s_ex s) e) as [x|]; [|cbn; lia].
    destruct (rm_retr (ex_rm x)) as [r|].
    + destruct (rm_pre_send (ex_rm x) (r_ctr r) rel None) as [rm' [p|c|p]]; cbn; lia.
    + destruct (two32 <=? s_ctr s + 1); [cbn; lia|].
      destruct (rm_pre_send (ex_rm x) (s_ctr s) rel None) as [rm' [p|c|p]]; cbn; lia.
  - unfold sess_recv. destruct (nth_error (s_ex s) e) as [x|]; [|cbn; lia].
    destruct (rm_post_recv (ex_rm x) c a rel). cbn. lia.
Qed.

Lemma fresh_step_ctr s o w :
  step_wire s o = Some w -> is_fresh s o = true ->
  w_ctr w = s_ctr s /\ s_ctr s + 1 <= s_ctr (step_state s o).
Proof.
  destruct o as [e m rel|]; [|discriminate]. cbn [step_wire is_fresh step_state].
  unfold sess_send, pending_ctr. destruct (nth_error (s_ex s) e) as [x|]; [|discriminate].
  destruct (rm_retr (ex_rm x)) as [r|]; [discriminate|].
  destruct (two32 <=? s_ctr s + 1); [discriminate|].
  destruct (rm_pre_send (ex_rm x) (s_ctr s) rel None) as [rm' [p|c|p]]; cbn [fst snd]; try discriminate.
  intros H _. injection H as <-. cbn. split; lia.
Qed.

Theorem fresh_counters_increase (ops : list sop) : forall s,
  StronglySorted N.lt (fresh_ctrs s ops) /\
  (forall c, In c (fresh_ctrs s ops) -> s_ctr s <= c).
Proof.
  induction ops as [|o t IH]; intros s; cbn [fresh_ctrs]; [split; [constructor|intros c []]|].
  destruct (step_panics s o); [split; [constructor|intros c []]|].
  destruct (IH (step_state s o)) as [IH1 IH2].
  pose proof (step_ctr_mono s o) as Hm.
  destruct (step_wire s o) as [w|] eqn:Ew.
  - destruct (is_fresh s o) eqn:Ef.
    + destruct (fresh_step_ctr s o w Ew Ef) as [Hc Hn]. split.
      * constructor; [exact IH1|]. apply Forall_forall. intros c Hin. specialize (IH2 _ Hin). lia.
      * intros c [<-|Hin]; [lia|]. specialize (IH2 _ Hin). lia.
    + split; [exact IH1|]. intros c Hin. specialize (IH2 _ Hin). lia.
  - split; [exact IH1|]. intros c Hin. specialize (IH2 _ Hin). lia.
Qed.

(** the counter never comes round: a fresh send at the end of the 32-bit
    range is refused, the session is marked expired and nothing else changes *)
Theorem counter_exhaustion_refused s e x m rel :
  nth_error (s_ex s) e = Some x -> pending_ctr x = None -> two32 <= s_ctr s + 1 ->
  sess_send s e m rel = (mkSess (s_ctr s) (s_ex s) true (s_case s), Err ERR_CTR_EXHAUSTED).
Proof.
  intros Hn Hp Hov. unfold sess_send, pending_ctr in *. rewrite Hn.
  destruct (rm_retr (ex_rm x)); [discriminate|].
  assert (E : (two32 <=? s_ctr s + 1) = true) by lia. rewrite E. reflexivity.
Qed.

(** ** every counter on the wire fits the 32-bit field: no two of them alias *)

Lemma step_ctr_bound s o : s_ctr s < two32 -> s_ctr (step_state s o) < two32.
Proof.
  intros Hb. destruct o as [e m rel|e c a rel]; cbn [step_state].
  - unfold sess_send. destruct (nth_error (s_ex s) e) as [x|]; [|exact Hb].
    destruct (rm_retr (ex_rm x)) as [r|].
    + destruct (rm_pre_send (ex_rm x) (r_ctr r) rel None) as [rm' [p|c|p]]; cbn [fst s_ctr]; exact Hb.
    + destruct (N.leb_spec two32 (s_ctr s + 1)) as [Hov|Hok]; [cbn [fst s_ctr]; exact Hb|].
      destruct (rm_pre_send (ex_rm x) (s_ctr s) rel None) as [rm' [p|c|p]]; cbn [fst s_ctr]; lia.
  - unfold sess_recv. destruct (nth_error (s_ex s) e) as [x|]; [|exact Hb].
    destruct (rm_post_recv (ex_rm x) c a rel). cbn [fst s_ctr]. exact Hb.
Qed.

Lemma run_ctr_bound (ops : list sop) : forall s,
  s_ctr s < two32 -> s_ctr (fst (fst (sess_run s ops))) < two32.
Proof.
  induction ops as [|o t IH]; intros s Hb; [exact Hb|].
  pose proof (step_ctr_bound s o Hb) as Hb'.
  destruct o as [e m rel|e c a rel]; cbn [sess_run step_state] in *.
  - destruct (sess_send s e m rel) as [s' r]. cbn [fst] in Hb'.
    destruct r as [w|c|p].
    + specialize (IH s' Hb'). destruct (sess_run s' t) as [[sf out] pn]. exact IH.
    + apply IH. exact Hb'.
    + exact Hb'.
  - destruct (sess_recv s e c a rel) as [s' r]. cbn [fst] in Hb'. apply IH. exact Hb'.
Qed.

(** the headline theorem from any state without wire history (in particular a
    session whose counter stands anywhere in the 32-bit range) *)
Theorem nonce_unique_from (s0 : sess) (ops : list sop) :
  WInv s0 [] -> honest s0 ops = true ->
  forall w1 w2, In w1 (snd (fst (sess_run s0 ops))) ->
                In w2 (snd (fst (sess_run s0 ops))) ->
                w_ctr w1 = w_ctr w2 -> w1 = w2.
Proof.
  intros I0 Hh w1 w2 H1 H2 Hc.
  pose proof (run_unique_gen ops s0 [] I0 Hh) as J.
  destruct (sess_run s0 ops) as [[sf out] pn]. cbn [fst snd] in *.
  rewrite app_nil_r in J.
  apply (wi_unique sf (rev out) J); [apply in_rev in H1| apply in_rev in H2|exact Hc];
    rewrite ?rev_involutive in *; assumption.
Qed.

Theorem wire_ctrs_fit (s0 : sess) (ops : list sop) :
  WInv s0 [] -> honest s0 ops = true -> s_ctr s0 < two32 ->
  forall w, In w (snd (fst (sess_run s0 ops))) -> w_ctr w < two32.
Proof.
  intros I0 Hh Hb w Hin.
  pose proof (run_unique_gen ops s0 [] I0 Hh) as J.
  pose proof (run_ctr_bound ops s0 Hb) as Hf.
  destruct (sess_run s0 ops) as [[sf out] pn]. cbn [fst snd] in *.
  rewrite app_nil_r in J.
  pose proof (wi_lt sf (rev out) J w) as Hlt.
  assert (In w (rev out)) by (apply in_rev; rewrite rev_involutive; exact Hin).
  specialize (Hlt H). lia.
Qed.
