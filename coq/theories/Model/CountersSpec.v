(** Executable form of property C12 (the monitor) and the definitions the
    property statements are made of.  Evaluated on observed traces: every
    value handed out for the wire is new, and at that moment the KV cell
    held a boundary covering it.  No proofs in this file. *)
From RsM Require Export Lib.MachInt Lib.C12Sort Model.Counters.
Open Scope N_scope.

(** The values a trace handed out, in order. *)
Definition yields (t : list cev) : list N :=
  flat_map (fun e => match e with EvYield v _ => [v] | _ => [] end) t.

Fixpoint strictly_increasing (l : list N) : bool :=
  match l with
  | a :: ((b :: _) as t) => (a <? b) && strictly_increasing t
  | _ => true
  end.

(** no value twice *)
Definition nodup_b (l : list N) : bool := strictly_increasing (NSortC12.sort l).

(** "The stored boundary [b] covers [v]": a restart resumes at [b], which
    lies ahead of [v] by at least one and at most one epoch of single
    steps of the counter.  The group counter and the event number walk the
    ring [1 .. size] (0 is skipped); the distance walked from [v] to [b]
    is [(b - v) mod size]. *)
Definition walk_dist (size v b : N) : N := (b + size - v) mod size.

Definition in_ring (size v : N) : bool := (1 <=? v) && (v <=? size).

Definition g_covers (kv : option N) (v : N) : bool :=
  match kv with
  | Some b =>
      in_ring G_MASK v && in_ring G_MASK b &&
      (1 <=? walk_dist G_MASK v b) && (walk_dist G_MASK v b <=? G_EPOCH)
  | None => false
  end.

Definition E_SIZE : N := 18446744073709551615.   (* 2^64 - 1 *)

Definition e_covers (kv : option N) (v : N) : bool :=
  match kv with
  | Some b =>
      in_ring E_SIZE v && in_ring E_SIZE b &&
      (1 <=? walk_dist E_SIZE v b) && (walk_dist E_SIZE v b <=? E_EPOCH)
  | None => false
  end.

(** The check-in boundary is inclusive (a restart resumes with
    [value = b], the next message uses [b + 1]); all of u32 is walked. *)
Definition k_covers (epoch : N) (kv : option N) (v : N) : bool :=
  match kv with
  | Some b => (v <? two32) && (b <? two32) && (wsub32 b v <? epoch)
  | None => false
  end.

(** What the monitor asks of an observed trace is the part of "covers"
    that does not depend on the size of the epoch: a restart from the
    stored boundary resumes strictly ahead of [v] (for the check-in
    counter: at or ahead of [v], its first value being the one after) in
    the serial order of the ring, i.e. by at most half of it.  The
    theorems prove the tight form above; [*_covers_ahead] in the proofs
    relate the two. *)
Definition g_ahead (kv : option N) (v : N) : bool :=
  match kv with
  | Some b =>
      let rb := if b =? 0 then 1 else b in            (* resume_global_group_data_ctr *)
      let d := (rb + two28 - v mod two28) mod two28 in
      (1 <=? d) && (d <=? 134217728)
  | None => false
  end.

Definition e_ahead (kv : option N) (v : N) : bool :=
  match kv with
  | Some b =>
      let d := (b + two64 - v mod two64) mod two64 in
      (1 <=? d) && (d <=? 9223372036854775808)
  | None => false
  end.

Definition k_ahead (kv : option N) (v : N) : bool :=
  match kv with
  | Some b => wsub32 (b mod two32) (v mod two32) <=? two31
  | None => false
  end.

Definition ev_covered (cov : option N -> N -> bool) (e : cev) : bool :=
  match e with
  | EvYield v kv => cov kv v
  | _ => true
  end.

(** The monitor: uniqueness of everything handed out over all runs of the
    schedule, and covered-before-use for each of them. *)
Definition monitor (cov : option N -> N -> bool) (t : list cev) : bool :=
  nodup_b (yields t) && forallb (ev_covered cov) t.

(** ** Hypotheses of the theorems *)

(** a stored boundary the group counter code can have written *)
Definition g_kv_ok (kv : option N) : Prop :=
  match kv with Some b => 1 <= b <= G_MASK | None => True end.

(** a stored epoch the events code can have written *)
Definition e_kv_ok (kv : option N) : Prop :=
  match kv with Some b => 1 <= b < two64 /\ e_trigger b = true | None => True end.

Definition k_kv_ok (kv : option N) : Prop :=
  match kv with Some b => b < two32 | None => True end.

(** Distance travelled by a schedule, counting what a restart can burn:
    one per value handed out, one epoch per restart. *)
Definition g_cost (op : gop) : N :=
  match op with GSync _ => 0 | GReserve _ => 1 | GStore _ => 0 | GReset => 0 | GCrash => G_EPOCH end.
Definition g_travel : list gop -> N := travel_gen g_cost.

Definition e_cost (op : eop) : N :=
  match op with EPush _ => 1 | ECrash => E_EPOCH end.
Definition e_travel : list eop -> N := travel_gen e_cost.

Definition k_cost (epoch : N) (op : kop) : N :=
  match op with
  | KSend _ => 1
  | KPersist _ => 0
  | KInvalidate d => wrap32 d
  | KCrash _ => epoch
  end.
Definition k_travel (epoch : N) : list kop -> N := travel_gen (k_cost epoch).
