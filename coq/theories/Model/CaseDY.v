(** Dolev-Yao setting for property C01: attacker knowledge closure, the secrecy predicate, and the
    two-run system (one initiator run, one responder run, every message in between chosen by the
    attacker).  Definitions only; the proofs are in Proofs/CaseDY*.v. *)
From RsM Require Export Model.Case Model.CaseSpec.
Open Scope N_scope.

(* ------------------------------------------------------------------ attacker knowledge *)

Definition knowledge := term -> Prop.

(** the field values of a message / of a list of messages: what goes over the wire *)
Definition msg_vals (m : msg) : list term := map fd_val (m_fields m).
Definition msgs_vals (l : list msg) : list term := flat_map msg_vals l.

Definition kunion (K : knowledge) (l : list term) : knowledge := fun t => K t \/ In t l.

(** What an attacker who knows [K] can compute.  Free constructors, ideal destructors: pairs can be
    built and taken apart; hashes, KDF outputs, MACs, ciphertexts and signatures can be COMPUTED from
    known inputs; a ciphertext can be opened with its key, a signature gives away the signed message;
    the public half of any known secret; ECDH with one known secret and the other side's public key.
    Certificates, numbers and arbitrary byte strings are public data. *)
Inductive derivable (K : knowledge) : term -> Prop :=
| d_known : forall t, K t -> derivable K t
| d_num : forall n, derivable K (TNum n)
| d_nil : derivable K TNil
| d_junk : forall n, derivable K (TJunk n)
| d_cert : forall c, derivable K (TCert c)
| d_pub : forall t, derivable K t -> derivable K (TPub t)
| d_pair : forall x y, derivable K x -> derivable K y -> derivable K (TPair x y)
| d_fst : forall x y, derivable K (TPair x y) -> derivable K x
| d_snd : forall x y, derivable K (TPair x y) -> derivable K y
| d_hash : forall t, derivable K t -> derivable K (THash t)
| d_hkdf : forall s i f, derivable K s -> derivable K i -> derivable K f -> derivable K (THkdf s i f)
| d_hmac : forall k m, derivable K k -> derivable K m -> derivable K (THmac k m)
| d_aead : forall k n pt, derivable K k -> derivable K n -> derivable K pt -> derivable K (TAead k n pt)
| d_adec : forall k n pt, derivable K (TAead k n pt) -> derivable K k -> derivable K pt
| d_sig : forall sk m, derivable K sk -> derivable K m -> derivable K (TSig sk m)
| d_sigmsg : forall sk m, derivable K (TSig sk m) -> derivable K m
| d_dh : forall sk pk, derivable K sk -> derivable K pk -> derivable K (dh sk pk).

(** a message the attacker can put on the wire *)
Definition msg_derivable (K : knowledge) (m : msg) : Prop :=
  forall v, In v (msg_vals m) -> derivable K v.

(* ------------------------------------------------------------------ secrecy *)

(** [SN]: identities of the secret nonces (IPKs as atoms, ephemeral ECDH secrets); [SK]: identities of
    the honest long-term signing keys.  [guarded t]: [t] may be known to the attacker without any of
    them becoming derivable - the secrets occur in [t] only as keys of ciphertexts / KDFs / MACs /
    signatures, under a hash, or as the secret behind a public key. *)
Fixpoint guarded (SN SK : list N) (t : term) : Prop :=
  match t with
  | TNonce n => ~ In n SN
  | TKey k => ~ In k SK
  | TNum _ | TNil | TCert _ | TJunk _ => True
  | TPub _ | THash _ | THmac _ _ => True
  | TDh x y => ~ In x SN \/ ~ In y SN
  | TDhBad x y => guarded SN SK x /\ guarded SN SK y
  | THkdf s i f => guarded SN SK s /\ guarded SN SK i /\ guarded SN SK f
  | TAead k _ pt => guarded SN SK k -> guarded SN SK pt
  | TSig _ m => guarded SN SK m
  | TPair x y => guarded SN SK x /\ guarded SN SK y
  end.

(** syntactic subterm (reflexive) and "the nonce identity [n] occurs in" *)
Fixpoint sub (c t : term) : Prop :=
  c = t \/
  match t with
  | TPub x | THash x => sub c x
  | TDhBad x y | THmac x y | TSig x y | TPair x y => sub c x \/ sub c y
  | THkdf x y z | TAead x y z => sub c x \/ sub c y \/ sub c z
  | _ => False
  end.

Fixpoint mentions (n : N) (t : term) : Prop :=
  match t with
  | TNonce m => m = n
  | TDh x y => x = n \/ y = n
  | TPub x | THash x => mentions n x
  | TDhBad x y | THmac x y | TSig x y | TPair x y => mentions n x \/ mentions n y
  | THkdf x y z | TAead x y z => mentions n x \/ mentions n y \/ mentions n z
  | _ => False
  end.

(* ------------------------------------------------------------------ the two-run system *)

(** One initiator run on node [a] ([perform] on fabric index [fab] towards [peer]) and one responder
    run on node [b].  The honest nodes only talk to the network: [m1'], [m2'], [m3'], [mst'] are what
    the ATTACKER hands to the responder / initiator / responder / initiator. *)
Record dy_run := mkRun {
  dr_a : node; dr_b : node; dr_fra : fresh; dr_frb : fresh; dr_fab : N; dr_peer : N;
  dr_m1 : msg; dr_m2 : msg; dr_m3 : msg; dr_mst : msg
}.

Definition run_i1 (r : dy_run) : iout := init_start (dr_a r) (dr_fra r) (dr_fab r) (dr_peer r).
Definition run_r1 (r : dy_run) : rout := resp_first (dr_b r) (dr_frb r) (dr_m1 r).
Definition run_i2 (r : dy_run) : iout := init_step (io_node (run_i1 r)) (io_state (run_i1 r)) (dr_m2 r).
Definition run_r2 (r : dy_run) : rout := resp_step (ro_node (run_r1 r)) (ro_state (run_r1 r)) (dr_frb r) (dr_m3 r).
Definition run_i3 (r : dy_run) : iout := init_step (io_node (run_i2 r)) (io_state (run_i2 r)) (dr_mst r).

(** what the attacker knows when it has to produce the k-th message: its initial knowledge [K0] and
    everything the honest nodes have sent so far (the most it can know under ANY schedule of the two runs) *)
Definition know1 (K0 : knowledge) (r : dy_run) : knowledge := kunion K0 (msgs_vals (io_msgs (run_i1 r))).
Definition know2 (K0 : knowledge) (r : dy_run) : knowledge := kunion (know1 K0 r) (msgs_vals (ro_msgs (run_r1 r))).
Definition know3 (K0 : knowledge) (r : dy_run) : knowledge := kunion (know2 K0 r) (msgs_vals (io_msgs (run_i2 r))).
Definition know4 (K0 : knowledge) (r : dy_run) : knowledge := kunion (know3 K0 r) (msgs_vals (ro_msgs (run_r2 r))).
Definition know5 (K0 : knowledge) (r : dy_run) : knowledge := kunion (know4 K0 r) (msgs_vals (io_msgs (run_i3 r))).

Definition attacker_sends (K0 : knowledge) (r : dy_run) : Prop :=
  msg_derivable (know1 K0 r) (dr_m1 r) /\ msg_derivable (know2 K0 r) (dr_m2 r) /\
  msg_derivable (know3 K0 r) (dr_m3 r) /\ msg_derivable (know4 K0 r) (dr_mst r).

(** The world the theorems speak about.  [ipk]: the operational IPK of the initiator's fabric is an atom
    in the secret set; [SN] = that IPK and the two ephemeral ECDH secrets of the runs; [SK] any set of
    signing keys the attacker does not hold.
    - the attacker's initial knowledge [K0] is [guarded] (it holds no honest secret; it may hold any number
      of own keys, nonces, fabrics, and every message of every EARLIER run of anybody) and does not mention
      the two randoms the runs are about to draw (freshness);
    - the values the runs draw are pairwise distinct and distinct from the secrets;
    - the resumption ids in the initiator's cache are public data; what the nodes already store (cache
      records, IPKs of the responder's fabrics) does not mention the two fresh randoms either. *)
Definition secret_nonces (ipk : N) (r : dy_run) : list N := [ipk; fr_eph (dr_fra r); fr_eph (dr_frb r)].

Record dy_world (K0 : knowledge) (SK : list N) (ipk : N) (fa : fabric) (r : dy_run) : Prop := mkWorld {
  w_a_fabric : get_fabric (dr_fab r) (n_fabrics (dr_a r)) = Some fa;
  w_ipk : f_ipk fa = TNonce ipk;
  w_distinct : NoDup [ipk; fr_eph (dr_fra r); fr_eph (dr_frb r); fr_rand (dr_fra r); fr_sid (dr_fra r);
                      fr_rand (dr_frb r); fr_sid (dr_frb r); fr_rid (dr_frb r)];
  w_K0_guarded : forall t, K0 t -> guarded (secret_nonces ipk r) SK t;
  w_K0_fresh : forall t, K0 t -> ~ mentions (fr_rand (dr_fra r)) t /\ ~ mentions (fr_rand (dr_frb r)) t;
  w_a_cache : forall x, In x (n_cache (dr_a r)) ->
      guarded (secret_nonces ipk r) SK (r_rid x) /\
      ~ mentions (fr_rand (dr_fra r)) (r_rid x) /\ ~ mentions (fr_rand (dr_fra r)) (r_secret x) /\
      ~ mentions (fr_rand (dr_frb r)) (r_rid x) /\ ~ mentions (fr_rand (dr_frb r)) (r_secret x);
  w_b_cache : forall x, In x (n_cache (dr_b r)) ->
      ~ mentions (fr_rand (dr_fra r)) (r_secret x) /\ ~ mentions (fr_rand (dr_frb r)) (r_secret x);
  w_b_fabrics : forall f, In f (n_fabrics (dr_b r)) ->
      ~ mentions (fr_rand (dr_fra r)) (f_ipk f) /\ ~ mentions (fr_rand (dr_frb r)) (f_ipk f)
}.

(** what [init_start] puts on the wire *)
Definition sigma1_of (a : node) (fr : fresh) (fab peer : N) (f : fabric) : msg :=
  mkMsg OP_SIGMA1
    ([mkField 1 KBytes (TNonce (fr_rand fr)); mkField 2 KUint (TNonce (fr_sid fr));
      mkField 3 KBytes (dest_id f (TNonce (fr_rand fr)) peer); mkField 4 KBytes (TPub (TNonce (fr_eph fr)))] ++
     match find_by_peer (n_cache a) fab peer with
     | Some r => [mkField 6 KBytes (r_rid r);
                  mkField 7 KBytes (resume_mic INFO_S1RK NONCE_R1 (r_secret r) (TNonce (fr_rand fr)) (r_rid r))]
     | None => []
     end) true.

(** completion of the two runs by a FULL handshake *)
Definition initiator_completed (r : dy_run) : Prop := io_state (run_i3 r) = IDone true.
Definition responder_completed (r : dy_run) (sb : session) : Prop :=
  m_op (dr_m3 r) = OP_SIGMA3 /\
  n_sessions (ro_node (run_r2 r)) = n_sessions (dr_b r) ++ [sb] /\ s_reserved sb = false.

(** what the responder / the initiator of the run put on the wire as Sigma2 / Sigma3 *)
Definition responder_sigma2 (r : dy_run) (fb : fabric) (q : sigma1) : msg :=
  build_sigma2 fb (dr_frb r) (g1_pub q) (msg_term (dr_m1 r)).
Definition initiator_sigma3' (r : dy_run) (fa : fabric) (m1 : msg) (rpub : term) : msg :=
  build_sigma3 fa (TPub (TNonce (fr_eph (dr_fra r)))) rpub (msg_term m1) (msg_term (dr_m2 r))
               (dh (TNonce (fr_eph (dr_fra r))) rpub).
