(** Executable form of property C04 (the monitor): what a receiver of
    counters must decide, recomputed from the history alone.  No window,
    no bitmap: just the set of values accepted so far. *)
From RsM Require Export Lib.MachInt.
Open Scope N_scope.

(** [v] must be accepted iff it was not accepted before and it is not
    more than 16 behind any accepted value. *)
Definition spec_accept (A : list N) (v : N) : bool :=
  negb (existsb (N.eqb v) A) && forallb (fun a => a <=? v + 16) A.

Fixpoint spec_run (A : list N) (h : list N) : list bool :=
  match h with
  | [] => []
  | c :: t =>
      let a := spec_accept A c in
      a :: spec_run (if a then c :: A else A) t
  end.

(** Monitor over an observed trace (history and the flags some
    implementation answered). *)
Definition monitor_unicast (h : list N) (flags : list bool) : bool :=
  if list_eq_dec Bool.bool_dec flags (spec_run [] h) then true else false.

(** Group sender, true (unwrapped) counters, trust-first: the first
    counter counts as accepted. *)
Definition monitor_group (first : N) (h : list N) (flags : list bool) : bool :=
  if list_eq_dec Bool.bool_dec flags (spec_run [first] h) then true else false.

(** The weaker clauses the property states for a tracked group sender
    (it does not require in-window acceptance there): never twice, never
    older than the window, always when newer than everything. *)
Fixpoint group_clauses (A : list N) (h : list N) (flags : list bool) : bool :=
  match h, flags with
  | c :: t, f :: fs =>
      let dup := existsb (N.eqb c) A in
      let old := negb (forallb (fun a => a <=? c + 16) A) in
      let newer := forallb (fun a => a <? c) A in
      (if f then negb dup && negb old else negb newer)
      && group_clauses (if f then c :: A else A) t fs
  | [], [] => true
  | _, _ => false
  end.

(** * Group sender table, observed from outside (monitor for [G] traces)

    A trace is a list of [(sender key, counter, accepted?)].  Without looking
    at the table: (1) a sender's counter accepted twice requires that the
    sender was forgotten in between, i.e. at least 16 distinct other senders
    were heard in between; (2) if all counters of a sender in the trace lie
    within half the ring, a counter greater than everything accepted from
    that sender so far must be accepted. *)

Fixpoint distinct_keys (k : N) (l : list (N * N * bool)) (seen : list N) : nat :=
  match l with
  | [] => length seen
  | (k', _, _) :: t =>
      if (k' =? k) || existsb (N.eqb k') seen then distinct_keys k t seen
      else distinct_keys k t (k' :: seen)
  end.

(** the part of [l] before the next accepted occurrence of [(k, c)], if any *)
Fixpoint until_reaccept (k c : N) (l : list (N * N * bool)) (acc : list (N * N * bool))
  : option (list (N * N * bool)) :=
  match l with
  | [] => None
  | (k', c', f) :: t =>
      if (k' =? k) && (c' =? c) && f then Some (rev acc)
      else until_reaccept k c t ((k', c', f) :: acc)
  end.

Definition key_band_ok (k : N) (l : list (N * N * bool)) : bool :=
  let vs := map (fun x => snd (fst x)) (filter (fun x => fst (fst x) =? k) l) in
  match vs with
  | [] => true
  | v :: _ =>
      let mx := fold_left N.max vs v in
      let mn := fold_left N.min vs v in
      mx - mn <? two31
  end.

(** both clauses are about senders whose counters in the trace stay within
    half the ring (otherwise the modular comparison legitimately lets the ring
    wrap around and an old value become "newer" again) *)
Fixpoint g_never_twice_from (all : list (N * N * bool)) (l : list (N * N * bool)) : bool :=
  match l with
  | [] => true
  | (k, c, f) :: t =>
      (if f && key_band_ok k all then
         match until_reaccept k c t [] with
         | Some between => Nat.leb 16 (distinct_keys k between [])
         | None => true
         end
       else true) && g_never_twice_from all t
  end.

Definition g_never_twice (l : list (N * N * bool)) : bool := g_never_twice_from l l.

(** [prev] = reversed prefix already processed *)
Fixpoint g_newer_accepted_from (all : list (N * N * bool)) (prev l : list (N * N * bool)) : bool :=
  match l with
  | [] => true
  | (k, c, f) :: t =>
      (if f then true
       else if key_band_ok k all then
         (* rejected: some earlier accepted counter of this sender must be >= c *)
         existsb (fun x => (fst (fst x) =? k) && snd x && (c <=? snd (fst x))) prev
       else true)
      && g_newer_accepted_from all ((k, c, f) :: prev) t
  end.

Definition g_monitor (l : list (N * N * bool)) : bool :=
  g_never_twice l && g_newer_accepted_from l [] l.
