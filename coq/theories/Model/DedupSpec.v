(** Executable form of property C04 (the monitor): what a receiver of
    counters must decide, recomputed from the history alone.  No window,
    no bitmap: just the set of values accepted so far. *)
From RsM Require Export Lib.MachInt.
Open Scope N_scope.

(** [v] must be accepted iff it was not accepted before and it is not
    more than 16 behind any accepted value. *)
Definition spec_accept (A : list N) (v : N) : bool :=
  negb (existsb (N.eqb v) A) && forallb (fun a => a <=? v + 16) A.

Fixpoint spec_run (A : list N) (h : list N) : list bool :=
  match h with
  | [] => []
  | c :: t =>
      let a := spec_accept A c in
      a :: spec_run (if a then c :: A else A) t
  end.

(** Monitor over an observed trace (history and the flags some
    implementation answered). *)
Definition monitor_unicast (h : list N) (flags : list bool) : bool :=
  if list_eq_dec Bool.bool_dec flags (spec_run [] h) then true else false.

(** Group sender, true (unwrapped) counters, trust-first: the first
    counter counts as accepted. *)
Definition monitor_group (first : N) (h : list N) (flags : list bool) : bool :=
  if list_eq_dec Bool.bool_dec flags (spec_run [first] h) then true else false.

(** The weaker clauses the property states for a tracked group sender
    (it does not require in-window acceptance there): never twice, never
    older than the window, always when newer than everything. *)
Fixpoint group_clauses (A : list N) (h : list N) (flags : list bool) : bool :=
  match h, flags with
  | c :: t, f :: fs =>
      let dup := existsb (N.eqb c) A in
      let old := negb (forallb (fun a => a <=? c + 16) A) in
      let newer := forallb (fun a => a <? c) A in
      (if f then negb dup && negb old else negb newer)
      && group_clauses (if f then c :: A else A) t fs
  | [], [] => true
  | _, _ => false
  end.
