(** Model of rs-matter/src/transport/network/btp.rs (BtpInner, OutgoingSdu),
    btp/session.rs (SendWindow, RecvWindow, Session) and
    btp/session/packet.rs (BtpHdr, HandshakeReq, HandshakeResp), as repaired
    by the `fix:` commits of branch verif-c18.  Transcribed function by
    function; all u8/u16/usize arithmetic that Rust writes with plain
    operators is CHECKED ([Panic] on overflow / underflow / division by zero,
    the overflow-checks profile).  The ring buffer is a byte list with a
    capacity.  Time: the ACK timer is a boolean input of [process_outgoing].
    No proofs in this file. *)
From RsM Require Export Lib.MachInt.
Open Scope N_scope.

Definition bytes := list N.
Definition blen (l : bytes) : N := N.of_nat (length l).

(** constants (btp.rs:42-49, session.rs:144, network.rs:36-39) *)
Definition GATT_HDR : N := 3.
Definition MIN_MTU : N := 23.
Definition MAX_MTU : N := 247.
Definition RX_CAP : N := 3166.          (* MAX_MESSAGE_SIZE = 2 * 1583 *)
Definition MAX_TX : N := 1232.          (* MAX_TX_PACKET_SIZE *)

Definition E_INVALID : N := 1.          (* ErrorCode::Invalid *)
Definition E_INVALID_DATA : N := 2.     (* ErrorCode::InvalidData *)
Definition E_INVALID_ARG : N := 3.      (* ErrorCode::InvalidArgument *)
Definition E_NOSPACE : N := 4.          (* ErrorCode::NoSpace *)

(** panic sites *)
Definition P_RECV_LEVEL : N := 1.       (* recv_window.level -= 1 *)
Definition P_ACK_LEVEL : N := 2.        (* recv_window.ack_level += 1 *)
Definition P_MSGS_CT : N := 3.          (* buf_messages_ct += 1 *)
Definition P_REM : N := 4.              (* rem_msg_len -= payload.len() *)
Definition P_SEND_LEVEL : N := 5.       (* send_window.level -= 1 *)
Definition P_UNACKED : N := 6.          (* window_size - unacknowledged *)
Definition P_MTU_HDR : N := 7.          (* mtu - GATT_HEADER_SIZE, mtu - hdr.len() *)
Definition P_DIV0 : N := 8.             (* MAX_MESSAGE_SIZE / mtu *)
Definition P_LEVEL_ADD : N := 9.        (* level += ack_level *)
Definition P_SLICE : N := 10.           (* data[offset..] *)
Definition P_MSGS_SUB : N := 11.        (* buf_messages_ct -= 1 *)

Definition le16 (x : N) : bytes := [x mod 256; x / 256].
Definition clamp (x lo hi : N) : N := N.max lo (N.min x hi).

(** * packet.rs: BtpHdr *)

Record hdr := mkHdr {
  fH : bool; fM : bool; fA : bool; fE : bool; fC : bool; fB : bool;
  h_op : N; h_ack : N; h_seq : N; h_len : N }.

Definition hdr_new : hdr := mkHdr false false false false false false 0 0 0 0.

Definition get_opcode (h : hdr) : option N := if fM h then Some (h_op h) else None.
Definition get_ack (h : hdr) : option N := if fA h then Some (h_ack h) else None.
Definition get_seq (h : hdr) : option N := if negb (fH h) then Some (h_seq h) else None.
Definition get_msg_len (h : hdr) : option N :=
  if fB h && negb (fH h) then Some (h_len h) else None.
Definition is_some {A} (o : option A) : bool := match o with Some _ => true | None => false end.

Definition is_standalone_ack (h : hdr) : bool :=
  negb (fH h) && negb (is_some (get_msg_len h)) && negb (fC h) && negb (fE h)
  && is_some (get_ack h).

Definition take1 (l : bytes) : res (N * bytes) :=
  match l with b :: t => Ok (b, t) | [] => Err E_INVALID end.

(** [BtpHdr::decode]; returns the header and the rest of the input *)
Definition hdr_decode (l : bytes) : res (hdr * bytes) :=
  let? (b, l) := take1 l in
  let H := N.testbit b 6 in let M := N.testbit b 5 in let A := N.testbit b 3 in
  let E := N.testbit b 2 in let C := N.testbit b 1 in let B := N.testbit b 0 in
  let? (op, l) := (if M then take1 l else Ok (0, l)) in
  let? (ack, l) := (if A then take1 l else Ok (0, l)) in
  let? (seq, l) := (if negb H then take1 l else Ok (0, l)) in
  let? (len, l) :=
    (if B && negb H then
       let? (lo, l) := take1 l in
       let? (hi, l) := take1 l in Ok (lo + 256 * hi, l)
     else Ok (0, l)) in
  Ok (mkHdr H M A E C B op ack seq len, l).

Definition b2n (b : bool) : N := if b then 1 else 0.

Definition flags_byte (h : hdr) : N :=
  64 * b2n (fH h) + 32 * b2n (fM h) + 8 * b2n (fA h) + 4 * b2n (fE h)
  + 2 * b2n (fC h) + b2n (fB h).

(** [BtpHdr::encode] *)
Definition hdr_encode (h : hdr) : bytes :=
  [flags_byte h]
  ++ (if fM h then [h_op h] else [])
  ++ (if fA h then [h_ack h] else [])
  ++ (if negb (fH h) then [h_seq h] else [])
  ++ (if fB h && negb (fH h) then le16 (h_len h) else []).

(** [BtpHdr::len] *)
Definition hdr_len (h : hdr) : N :=
  1 + b2n (fM h) + b2n (fA h) + b2n (negb (fH h))
  + (if fB h && negb (fH h) then 2 else 0).

(** * packet.rs: handshake payloads *)

Record hsreq := mkReq { q_versions : N; q_mtu : N; q_ws : N }.
Record hsresp := mkResp { p_version : N; p_mtu : N; p_ws : N }.

Definition hsreq_decode (l : bytes) : res hsreq :=
  let? (v0, l) := take1 l in let? (v1, l) := take1 l in
  let? (v2, l) := take1 l in let? (v3, l) := take1 l in
  let? (m0, l) := take1 l in let? (m1, l) := take1 l in
  let? (w, l) := take1 l in
  Ok (mkReq (v0 + 256 * v1 + 65536 * v2 + 16777216 * v3) (m0 + 256 * m1) w).

Definition hsresp_decode (l : bytes) : res hsresp :=
  let? (v, l) := take1 l in
  let? (m0, l) := take1 l in let? (m1, l) := take1 l in
  let? (w, l) := take1 l in
  Ok (mkResp v (m0 + 256 * m1) w).

(** [HandshakeReq::versions().min().unwrap_or(4)] *)
Definition versions_min (v : N) : N :=
  let vs := filter (fun x => 0 <? x)
              (map (fun i => N.land (N.shiftr v (4 * i)) 255) [0; 1; 2; 3; 4; 5; 6]) in
  match vs with
  | [] => 4
  | x :: t => fold_left N.min t x
  end.

(** * session.rs: SendWindow *)

Record sendw := mkSW { swin : N; slevel : N; slast : N }.
Definition sendw_new : sendw := mkSW 0 0 255.

(** repaired: only the last acknowledged sequence number or a segment still in
    flight can be acknowledged; checked before anything is touched
    ([SendWindow::check_incoming]) *)
Definition sw_check_incoming (w : sendw) (h : hdr) : res unit :=
  match get_ack h with
  | None => Ok tt
  | Some a =>
      let unack := wrap8 (slast w + 256 - a) in
      let? inflight := csub P_UNACKED (swin w) (slevel w) in
      if inflight <? unack then Err E_INVALID_DATA else Ok tt
  end.

(** [SendWindow::accept_incoming] *)
Definition sw_accept_incoming (w : sendw) (h : hdr) : res sendw :=
  match get_ack h with
  | None => Ok w
  | Some a =>
      if slast w =? a then Ok (mkSW (swin w) (swin w) (slast w))
      else
        let unack := wrap8 (slast w + 256 - a) in
        let? l := csub P_UNACKED (swin w) unack in
        Ok (mkSW (swin w) l (slast w))
  end.

Definition sw_next_seq (w : sendw) : N := wrap8 (slast w + 1).

(** [SendWindow::post_send] *)
Definition sw_post_send (w : sendw) : res sendw :=
  let? l := csub P_SEND_LEVEL (slevel w) 1 in
  Ok (mkSW (swin w) l (wrap8 (slast w + 1))).

(** * session.rs: RecvWindow *)

Record recvw := mkRW {
  rbuf : bytes; rmsgs : N; rlevel : N; rack_level : N; rack_seq : N; rrem : N }.
Definition recvw_new : recvw := mkRW [] 0 0 0 255 0.


(** [RingBuf::push]: oldest bytes are dropped when the data does not fit *)
Definition rb_push (buf data : bytes) : bytes :=
  let l := buf ++ data in
  skipn (length l - N.to_nat RX_CAP) l.
Definition rb_free (buf : bytes) : N := RX_CAP - blen buf.

(** [RecvWindow::check_data_integrity] *)
Definition check_data_integrity (r : recvw) (h : hdr) (payload : bytes) (mtu : N) : res unit :=
  if fH h then Err E_INVALID_DATA else
  if is_some (get_opcode h) then Err E_INVALID_DATA else
  let? _ :=
    (if is_standalone_ack h then
       (if negb (blen payload =? 0) then Err E_INVALID_DATA else Ok tt)
     else
       if negb (is_some (get_msg_len h)) && negb (fC h) && negb (fE h) then Err E_INVALID_DATA else
       if is_some (get_msg_len h) && fC h then Err E_INVALID_DATA else
       if negb (fE h) && negb (blen payload + hdr_len h =? mtu) then Err E_INVALID_DATA
       else Ok tt) in
  match get_seq h with
  | Some s => if negb (wrap8 (rack_seq r + 1) =? s) then Err E_INVALID_DATA else Ok tt
  | None => Err E_INVALID_DATA
  end.

(** [RecvWindow::accept_incoming] (repaired: window overrun refused, a new SDU
    inside an unfinished one refused, "must be final" compares against the
    room of the first segment, nothing is stored before every check passed) *)
Definition rw_accept_incoming (r : recvw) (h : hdr) (payload : bytes) (mtu : N) : res recvw :=
  let? _ := check_data_integrity r h payload mtu in
  if rlevel r =? 0 then Err E_INVALID_DATA else
  let? (rem, prefix) :=
    (match get_msg_len h with
     | Some ml =>
         if 0 <? rrem r then Err E_INVALID_DATA else
         if (ml + hdr_len h <=? mtu) && negb (fE h) then Err E_INVALID_DATA else
         Ok (ml, if 0 <? ml then le16 ml else [])
     | None => Ok (rrem r, [])
     end) in
  if rem <? blen payload then Err E_INVALID_DATA else
  let? rem := csub P_REM rem (blen payload) in
  if fE h && (0 <? rem) then Err E_INVALID_DATA else
  if rb_free (rbuf r) <? blen prefix + blen payload then Err E_INVALID_DATA else
  let buf := rb_push (rb_push (rbuf r) prefix) payload in
  let? level := csub P_RECV_LEVEL (rlevel r) 1 in
  let? ack_level := cadd two8 P_ACK_LEVEL (rack_level r) 1 in
  let? msgs :=
    (if fE h && negb (blen payload =? 0) then cadd two8 P_MSGS_CT (rmsgs r) 1
     else Ok (rmsgs r)) in
  Ok (mkRW buf msgs level ack_level (h_seq h) rem).

(** [RecvWindow::check_handshake_integrity] *)
Definition check_handshake_integrity (h : hdr) : res unit :=
  if negb (fH h) || negb (fE h)
     || negb (match get_opcode h with Some o => o =? 108 | None => false end)
     || is_some (get_msg_len h) || fC h || is_some (get_seq h) || is_some (get_ack h)
  then Err E_INVALID_DATA else Ok tt.

(** [RecvWindow::pending_ack] *)
Definition rw_pending_ack (r : recvw) : option N :=
  if (0 <? rack_level r) && (rmsgs r =? 0) then Some (rack_seq r) else None.

(** [SendWindow::is_full] (repaired: the last slot is kept for a segment that
    really carries the ACK, i.e. [pending_ack] is Some) *)
Definition sw_is_full (w : sendw) (r : recvw) : bool :=
  (slevel w =? 0) || ((slevel w =? 1) && negb (is_some (rw_pending_ack r))).

(** [RecvWindow::post_send] *)
Definition rw_post_send (r : recvw) : res recvw :=
  if is_some (rw_pending_ack r) then
    let? l := cadd two8 P_LEVEL_ADD (rlevel r) (rack_level r) in
    Ok (mkRW (rbuf r) (rmsgs r) l 0 (rack_seq r) (rrem r))
  else Ok r.

(** [RecvWindow::fetch_message] into a buffer of [cap] bytes.  The state is
    returned also on the error paths because bytes popped before the error
    stay popped. *)
Definition rw_fetch (r : recvw) (cap : N) : recvw * res bytes :=
  if rmsgs r =? 0 then (r, Ok []) else
  match rbuf r with
  | lo :: hi :: rest =>
      let len := lo + 256 * hi in
      let pop_len := N.min len cap in
      let got := firstn (N.to_nat pop_len) rest in
      let rest1 := skipn (N.to_nat pop_len) rest in
      if negb (blen got =? pop_len) then
        (mkRW [] (rmsgs r) (rlevel r) (rack_level r) (rack_seq r) (rrem r), Err E_INVALID)
      else
        let extra := len - pop_len in
        let rest2 := skipn (N.to_nat extra) rest1 in
        if blen rest1 <? extra then
          (mkRW [] (rmsgs r) (rlevel r) (rack_level r) (rack_seq r) (rrem r), Err E_INVALID)
        else
          match csub P_MSGS_SUB (rmsgs r) 1 with
          | Ok m => (mkRW rest2 m (rlevel r) (rack_level r) (rack_seq r) (rrem r), Ok got)
          | Err c => (r, Err c)
          | Panic s => (r, Panic s)
          end
  | _ => (mkRW [] (rmsgs r) (rlevel r) (rack_level r) (rack_seq r) (rrem r), Err E_INVALID)
  end.

(** * session.rs: Session *)

Record session := mkSess {
  initiator : bool; address : N; version : N; mtu : N; wsize : N;
  hs_pending : bool; recv : recvw; send : sendw; relaxed : bool }.

Definition session_new : session :=
  mkSess false 0 0 0 0 false recvw_new sendw_new false.

Definition sess_reset (s : session) : session :=
  mkSess (initiator s) 0 0 0 0 (initiator s) recvw_new sendw_new (relaxed s).

Definition set_initiator (s : session) (b : bool) : session :=
  mkSess b (address s) (version s) (mtu s) (wsize s) b (recv s) (send s) (relaxed s).

Definition set_relaxed (s : session) (b : bool) : session :=
  mkSess (initiator s) (address s) (version s) (mtu s) (wsize s) (hs_pending s)
         (recv s) (send s) b.

Definition is_established (s : session) : bool := negb (address s =? 0).

(** [Session::setup] (repaired: both windows start clean; the initiator owes an
    ACK for the handshake response, the responder's sequence number 0) *)
Definition setup_state (s : session) (addr ver m w : N) : session :=
  mkSess (initiator s) addr ver m w (negb (initiator s))
         (if initiator s then mkRW [] 0 (w - 1) 1 0 0 else mkRW [] 0 w 0 255 0)
         (mkSW w w 255) (relaxed s).

Definition setup (s : session) (addr ver m w : N) : res session :=
  if initiator s then
    let? _ := csub P_RECV_LEVEL w 1 in Ok (setup_state s addr ver m w)
  else Ok (setup_state s addr ver m w).

(** [Session::initial_window_size] *)
Definition initial_window_size (m : N) : res N :=
  if m =? 0 then Panic P_DIV0 else Ok (N.min (RX_CAP / m / 2) 255).

(** [Session::is_ack_due]; [timer] = the ACK timeout has expired *)
Definition is_ack_due (s : session) (timer : bool) : bool :=
  is_some (rw_pending_ack (recv s)) && ((rlevel (recv s) <=? 1) || timer).

(** [Session::process_rx_handshake_req] (repaired: window 0 refused, MTU clamped) *)
Definition process_rx_handshake_req (s : session) (gatt : option N) (addr : N)
    (h : hdr) (payload : bytes) : res session :=
  let? _ := check_handshake_integrity h in
  let? req := hsreq_decode payload in
  if q_ws req =? 0 then Err E_INVALID_DATA else
  let ver := versions_min (q_versions req) in
  let m :=
    if q_mtu req =? 0 then
      match gatt with Some g => clamp g MIN_MTU MAX_MTU | None => MIN_MTU end
    else if (match gatt with Some g => negb (g =? q_mtu req) | None => true end) then
      if relaxed s then
        N.min (N.min (q_mtu req) (match gatt with Some g => g | None => MIN_MTU end)) MAX_MTU
      else MIN_MTU
    else N.min (q_mtu req) MAX_MTU in
  let m := clamp m MIN_MTU MAX_MTU in
  let? m := csub P_MTU_HDR m GATT_HDR in
  let? iw := initial_window_size m in
  let w := N.min (q_ws req) iw in
  setup s addr ver m w.

(** [Session::process_rx_handshake_resp] (repaired: segment size and window
    must be usable) *)
Definition process_rx_handshake_resp (s : session) (addr : N)
    (h : hdr) (payload : bytes) : res session :=
  let? _ := check_handshake_integrity h in
  let? resp := hsresp_decode payload in
  if (p_mtu resp <? MIN_MTU - GATT_HDR) || (MAX_MTU - GATT_HDR <? p_mtu resp)
     || (p_ws resp =? 0)
  then Err E_INVALID_DATA
  else setup s addr (p_version resp) (p_mtu resp) (p_ws resp).

(** [Session::process_rx_data] (repaired: the ACK is validated first) *)
Definition process_rx_data (s : session) (h : hdr) (payload : bytes) : res session :=
  let? _ := sw_check_incoming (send s) h in
  let? r := rw_accept_incoming (recv s) h payload (mtu s) in
  let? w := sw_accept_incoming (send s) h in
  Ok (mkSess (initiator s) (address s) (version s) (mtu s) (wsize s) (hs_pending s)
             r w (relaxed s)).

(** [Session::process_rx] *)
Definition process_rx (s : session) (gatt : option N) (addr : N) (data : bytes) : res session :=
  let? (h, payload) := hdr_decode data in
  if fH h then
    if initiator s then process_rx_handshake_resp s addr h payload
    else process_rx_handshake_req s gatt addr h payload
  else process_rx_data s h payload.

Definition hs_hdr : hdr := mkHdr true true false true false true 108 0 0 0.

(** [WriteBuf]: everything or [NoSpace] *)
Definition wb (cap : N) (out : bytes) : res bytes :=
  if blen out <=? cap then Ok out else Err E_NOSPACE.

(** [Session::prep_tx_handshake_req] *)
Definition prep_tx_handshake_req (s : session) (gatt : option N) (cap : N) : res bytes :=
  let m := match gatt with Some g => clamp g MIN_MTU MAX_MTU | None => MIN_MTU end in
  let? m3 := csub P_MTU_HDR m GATT_HDR in
  let? w := initial_window_size m3 in
  wb cap (hdr_encode hs_hdr ++ [4; 0; 0; 0] ++ le16 m ++ [w]).

(** [Session::prep_tx_handshake_resp] *)
Definition prep_tx_handshake_resp (s : session) (cap : N) : res (session * bytes) :=
  let? out := wb cap (hdr_encode hs_hdr ++ [version s] ++ le16 (mtu s) ++ [wsize s]) in
  let? w := sw_post_send (send s) in
  Ok (mkSess (initiator s) (address s) (version s) (mtu s) (wsize s) (hs_pending s)
             (recv s) w (relaxed s), out).

(** [Session::prep_tx_handshake] *)
Definition prep_tx_handshake (s : session) (gatt : option N) (cap : N) : res (session * bytes) :=
  if hs_pending s then
    let? (s1, out) :=
      (if initiator s then let? o := prep_tx_handshake_req s gatt cap in Ok (s, o)
       else prep_tx_handshake_resp s cap) in
    Ok (mkSess (initiator s1) (address s1) (version s1) (mtu s1) (wsize s1) false
               (recv s1) (send s1) (relaxed s1), out)
  else Ok (s, []).

(** The header and payload [Session::prep_tx_data] builds; [None] = window full. *)
Definition prep_tx_seg (s : session) (data : bytes) (off : N) : res (option (hdr * bytes)) :=
  if sw_is_full (send s) (recv s) then Ok None else
  let h0 := mkHdr false false (is_some (rw_pending_ack (recv s))) false false false 0
                  (match rw_pending_ack (recv s) with Some a => a | None => 0 end)
                  (sw_next_seq (send s)) 0 in
  if negb (blen data =? 0) then
    let h1 := if off =? 0
              then mkHdr false false (fA h0) false false true 0 (h_ack h0) (h_seq h0) (blen data)
              else mkHdr false false (fA h0) false true false 0 (h_ack h0) (h_seq h0) 0 in
    if blen data <? off then Panic P_SLICE else
    let remaining := skipn (N.to_nat off) data in
    let? maxp := csub P_MTU_HDR (mtu s) (hdr_len h1) in
    let chunk := N.min (blen remaining) maxp in
    let h2 := if chunk =? blen remaining
              then mkHdr false false (fA h1) true (fC h1) (fB h1) 0 (h_ack h1) (h_seq h1) (h_len h1)
              else h1 in
    Ok (Some (h2, firstn (N.to_nat chunk) remaining))
  else Ok (Some (h0, [])).

(** [Session::prep_tx_data]: returns the session, the encoded segment
    (empty = nothing sent) and the new offset *)
Definition prep_tx_data (s : session) (data : bytes) (off : N) (cap : N)
  : res (session * bytes * N) :=
  let? o := prep_tx_seg s data off in
  match o with
  | None => Ok (s, [], off)
  | Some (h, payload) =>
      let? out := wb cap (hdr_encode h ++ payload) in
      let? w := sw_post_send (send s) in
      let? r := rw_post_send (recv s) in
      Ok (mkSess (initiator s) (address s) (version s) (mtu s) (wsize s) (hs_pending s)
                 r w (relaxed s), out, off + blen payload)
  end.

(** * btp.rs: BtpInner *)

Record inner := mkInner { sess : session; out_addr : N; out_buf : bytes; out_off : N }.
Definition inner_new : inner := mkInner session_new 0 [] 0.
Definition out_reset (i : inner) (s : session) : inner := mkInner s 0 [] 0.

(** [BtpInner::process_outgoing] (repaired: no assertion when the ACK cannot
    be sent because the send window is exhausted).  The state is returned on
    the error path too: a stale SDU may have been dropped before the error. *)
Definition lift_err {A} (i : inner) (r : res A) : inner * res bytes :=
  match r with Ok _ => (i, Ok []) | Err c => (i, Err c) | Panic p => (i, Panic p) end.

Definition process_outgoing (i : inner) (gatt : option N) (timer : bool) (cap : N)
  : inner * res bytes :=
  match prep_tx_handshake (sess i) gatt cap with
  | Err c => (i, Err c) | Panic p => (i, Panic p)
  | Ok (s1, out) =>
  if negb (blen out =? 0) then (mkInner s1 (out_addr i) (out_buf i) (out_off i), Ok out) else
  let i1 := mkInner s1 (out_addr i) (out_buf i) (out_off i) in
  let stage2 : res (inner * bytes) :=
    (if negb (blen (out_buf i1) =? 0) then
       if out_addr i1 =? address s1 then
         let? ((s2, out), off) := prep_tx_data s1 (out_buf i1) (out_off i1) cap in
         if negb (blen out =? 0) then
           if off =? blen (out_buf i1) then Ok (out_reset i1 s2, out)
           else Ok (mkInner s2 (out_addr i1) (out_buf i1) off, out)
         else Ok (mkInner s2 (out_addr i1) (out_buf i1) off, [])
       else if is_established s1 then Ok (out_reset i1 s1, [])
       else Ok (i1, [])
     else Ok (i1, [])) in
  match stage2 with
  | Err c => (i1, Err c) | Panic p => (i1, Panic p)
  | Ok (i2, sent) =>
  if negb (blen sent =? 0) then (i2, Ok sent) else
  if is_ack_due (sess i2) timer then
    match prep_tx_data (sess i2) [] 0 cap with
    | Ok (s3, out, _) => (mkInner s3 (out_addr i2) (out_buf i2) (out_off i2), Ok out)
    | Err c => (i2, Err c) | Panic p => (i2, Panic p)
    end
  else (i2, Ok [])
  end end.

(** [BtpInner::send] *)
Definition inner_send (i : inner) (data : bytes) (addr : N) : res (inner * bool) :=
  if (blen data =? 0) || (MAX_TX <? blen data) then Err E_INVALID_ARG
  else if blen (out_buf i) =? 0 then Ok (mkInner (sess i) addr data 0, true)
  else Ok (i, false).

(** [BtpInner::recv] with a buffer of [cap] bytes: [None] = nothing available *)
Definition inner_recv (i : inner) (cap : N) : inner * res (option bytes) :=
  if 0 <? rmsgs (recv (sess i)) then
    let '(r, o) := rw_fetch (recv (sess i)) cap in
    let s := sess i in
    (mkInner (mkSess (initiator s) (address s) (version s) (mtu s) (wsize s) (hs_pending s)
                     r (send s) (relaxed s)) (out_addr i) (out_buf i) (out_off i),
     match o with Ok m => Ok (Some m) | Err c => Err c | Panic p => Panic p end)
  else (i, Ok None).

(** [BtpInner::process_incoming] *)
Definition process_incoming (i : inner) (gatt : option N) (addr : N) (data : bytes)
  : res inner :=
  let? s := process_rx (sess i) gatt addr data in
  Ok (mkInner s (out_addr i) (out_buf i) (out_off i)).

(** [BtpInner::reset] *)
Definition inner_reset (i : inner) : inner := mkInner (sess_reset (sess i)) 0 [] 0.

(** * One endpoint as a step machine *)

Inductive op :=
| OIn (gatt : option N) (addr : N) (data : bytes)   (* Btp::process_incoming *)
| OOut (gatt : option N) (timer : bool) (cap : N)   (* Btp::process_outgoing *)
| OSend (data : bytes) (addr : N)                   (* Btp::send (one attempt) *)
| ORecv (cap : N)                                   (* Btp::recv (one attempt) *)
| OReset
| OSetInit (b : bool)
| OSetRelaxed (b : bool).

Inductive out :=
| RUnit                      (* Ok(()) *)
| RBytes (b : bytes)         (* Ok(len) + the bytes written / Ok(Some(message)) *)
| RNone                      (* Ok(None) / Ok(false) *)
| RTrue                      (* Ok(true) *)
| RErr (code : N)
| RPanic (site : N).

Definition step (i : inner) (o : op) : inner * out :=
  match o with
  | OIn g a d =>
      match process_incoming i g a d with
      | Ok i' => (i', RUnit) | Err c => (i, RErr c) | Panic p => (i, RPanic p)
      end
  | OOut g t cap =>
      match process_outgoing i g t cap with
      | (i', Ok b) => (i', RBytes b) | (i', Err c) => (i', RErr c) | (i', Panic p) => (i', RPanic p)
      end
  | OSend d a =>
      match inner_send i d a with
      | Ok (i', true) => (i', RTrue) | Ok (i', false) => (i', RNone)
      | Err c => (i, RErr c) | Panic p => (i, RPanic p)
      end
  | ORecv cap =>
      match inner_recv i cap with
      | (i', Ok (Some m)) => (i', RBytes m) | (i', Ok None) => (i', RNone)
      | (i', Err c) => (i', RErr c) | (i', Panic p) => (i', RPanic p)
      end
  | OReset => (inner_reset i, RUnit)
  | OSetInit b => (mkInner (set_initiator (sess i) b) (out_addr i) (out_buf i) (out_off i), RUnit)
  | OSetRelaxed b => (mkInner (set_relaxed (sess i) b) (out_addr i) (out_buf i) (out_off i), RUnit)
  end.

Fixpoint run (i : inner) (ops : list op) : inner * list out :=
  match ops with
  | [] => (i, [])
  | o :: t => let '(i1, r) := step i o in let '(i2, rs) := run i1 t in (i2, r :: rs)
  end.
