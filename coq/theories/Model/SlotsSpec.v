(** Executable forms of the C20 clauses over what can be observed of a node
    (session-table snapshot, PASE marker, rendezvous slots, probe outcome), and
    the observation of a model state.  No proofs in this file. *)
From RsM Require Export Lib.MachInt Model.Slots.
Open Scope N_scope.

(** the eviction victim, as it was just before it was evicted *)
Definition mon_evict (reserved : bool) (nslots : N) : bool := negb reserved && (nslots =? 0).

(** reserved slots against live handles (whose slot still exists) *)
Definition mon_handles (nres nlive : N) : bool := nres =? nlive.

(** after quiescence: no reserved slot, no exchange slot in use, the PASE
    marker absent or expired (0 none, 1 expired, 2 live), both rendezvous
    slots idle *)
Definition mon_quiescent_clean (nres nlive ndropped marker rdv_r rdv_b : N) : bool :=
  (nres =? 0) && (nlive =? 0) && (ndropped =? 0) && negb (marker =? 2) && (rdv_r =? 0) && (rdv_b =? 0).

(** The probe handshake after the disturbance, against the number of slots a new handshake can
    get ([recl] = free slots + idle sessions, from the snapshot taken just before): 0 = as
    promised (it succeeded, or nothing was reclaimable and the node may only answer Busy),
    1 = the known class (exactly one reclaimable slot: a responder-side handshake needs two),
    2 = violation. *)
Definition mon_probe (recl : N) (ok : bool) : N :=
  if ok then 0 else if recl =? 0 then 0 else if recl =? 1 then 1 else 2.

(** after the sweeper has run until it finds nothing to do: no dropped exchange slot is left *)
Definition mon_swept (ndropped : N) : bool := ndropped =? 0.

(** after quiescence the single RX buffer is free (1 = locked or still holding a packet) *)
Definition mon_rx_free (busy : N) : bool := busy =? 0.

(** the rendezvous slot after every requester is gone *)
Definition mon_rdv_end (slot : N) : bool := slot =? 0.

(** observation of a model table *)
Definition count_slots (p : option xst -> bool) (l : list session) : N :=
  fold_right (fun s acc => N.of_nat (length (filter p (s_exch s))) + acc) 0 l.
Definition n_reserved (t : tbl) : N := N.of_nat (length (filter s_reserved (t_sess t))).
Definition n_live (t : tbl) : N := count_slots slot_live (t_sess t).
Definition n_dropped (t : tbl) : N := count_slots slot_dropped (t_sess t).
Definition n_present_handles (s : st) : N :=
  N.of_nat (length (filter (fun h => existsb (has_id (h_id h)) (t_sess (tb s))) (hs s))).
Definition marker_obs (now : N) (m : option (N * N)) : N :=
  match m with None => 0 | Some (_, e) => if e <? now then 1 else 2 end.

Definition clean_tbl (t : tbl) : bool :=
  forallb (fun s => negb (s_reserved s) && no_exch s) (t_sess t).
