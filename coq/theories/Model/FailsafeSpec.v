(** Specification side of property C08 (no proofs inside).

    1. The spec automaton of the credential commands over the set of
       commands already accepted in the current fail-safe period.
    2. The words of that automaton (a finite language, written out).
    3. The executable form of the property over observations
       (operation, answer, state snapshot after it): [monitor].  It is
       evaluated on the IMPLEMENTATION's own snapshots by the check. *)
From Coq Require Import NArith List Bool.
From RsM Require Import Model.Failsafe.
Import ListNotations.
Open Scope N_scope.

(** ** 1. Spec automaton *)
Inductive cred := CCsrAdd | CCsrUpd | CRoot | CAddNoc | CUpdNoc.

(** "each once, in the prescribed order":
    - a CSR request (either kind) only while no CSR request was accepted;
    - a root only while no root was accepted;
    - AddNOC needs the add-CSR and the root, no NOC command and no update-CSR before it;
    - UpdateNOC needs the update-CSR, and no root, no add-CSR and no NOC command before it. *)
Definition spec_step (f : flags) (c : cred) : option flags :=
  match c with
  | CCsrAdd =>
    if fl_add_csr f || fl_upd_csr f then None else Some (fl_union f FL_ADD_CSR)
  | CCsrUpd =>
    if fl_add_csr f || fl_upd_csr f then None else Some (fl_union f FL_UPD_CSR)
  | CRoot =>
    if fl_root f then None else Some (fl_union f FL_ROOT)
  | CAddNoc =>
    if fl_root f && fl_add_csr f &&
       negb (fl_add_noc f) && negb (fl_upd_csr f) && negb (fl_upd_noc f)
    then Some (fl_union f FL_ADD_NOC) else None
  | CUpdNoc =>
    if fl_upd_csr f &&
       negb (fl_root f) && negb (fl_add_noc f) && negb (fl_add_csr f) && negb (fl_upd_noc f)
    then Some (fl_union f FL_UPD_NOC) else None
  end.

Fixpoint spec_run (f : flags) (w : list cred) : option flags :=
  match w with
  | [] => Some f
  | c :: r => match spec_step f c with Some f' => spec_run f' r | None => None end
  end.

Definition spec_accepts (w : list cred) : bool :=
  match spec_run fl_empty w with Some _ => true | None => false end.

(** ** 2. The language, written out: the prefixes of
      CSR(add) and root in either order, then AddNOC;
      CSR(update) then UpdateNOC, a root tolerated only where it cannot be used
      (before the CSR(update) is followed by nothing else, or after UpdateNOC). *)
Definition spec_words : list (list cred) :=
  [ [];
    [CCsrAdd]; [CRoot]; [CCsrUpd];
    [CCsrAdd; CRoot]; [CRoot; CCsrAdd]; [CRoot; CCsrUpd]; [CCsrUpd; CRoot]; [CCsrUpd; CUpdNoc];
    [CCsrAdd; CRoot; CAddNoc]; [CRoot; CCsrAdd; CAddNoc]; [CCsrUpd; CUpdNoc; CRoot] ].

Definition cred_eqb (a b : cred) : bool :=
  match a, b with
  | CCsrAdd, CCsrAdd | CCsrUpd, CCsrUpd | CRoot, CRoot | CAddNoc, CAddNoc | CUpdNoc, CUpdNoc => true
  | _, _ => false
  end.

Fixpoint word_eqb (a b : list cred) : bool :=
  match a, b with
  | [], [] => true
  | x :: r, y :: s => cred_eqb x y && word_eqb r s
  | _, _ => false
  end.

Definition in_words (w : list cred) : bool := existsb (word_eqb w) spec_words.

(** the credential command of an operation *)
Definition cred_of (o : op) : option cred :=
  match o with
  | OCsr _ false => Some CCsrAdd
  | OCsr _ true => Some CCsrUpd
  | ORoot _ _ => Some CRoot
  | OAddNoc _ _ => Some CAddNoc
  | OUpdNoc _ _ => Some CUpdNoc
  | _ => None
  end.

(** the session an operation arrives on *)
Definition sess_of (o : op) : option sess :=
  match o with
  | OArm s _ _ | OCsr s _ | ORoot s _ | OAddNoc s _ | OUpdNoc s _ | OAclW s _ _
  | OLabel s _ _ | OVid s _ _
  | ONetAdd s _ _ | ONetDel s _ | OComplete s _ | OCompleteCut s _ | ORevoke s => Some s
  | OTimeout | ORestart | ONewPase | ONewCase _ => None
  end.

(** ** 3. Observable configuration and its comparisons *)
Fixpoint list_eqb (a b : list N) : bool :=
  match a, b with
  | [], [] => true
  | x :: r, y :: s => (x =? y) && list_eqb r s
  | _, _ => false
  end.

Definition fabric_eqb (a b : fabric) : bool :=
  (f_idx a =? f_idx b) && (f_root a =? f_root b) && (f_nid a =? f_nid b) &&
  (f_key a =? f_key b) && list_eqb (f_acl a) (f_acl b) &&
  (f_label a =? f_label b) && (f_vid a =? f_vid b).

Definition ofabric_eqb (a b : option fabric) : bool :=
  match a, b with
  | None, None => true
  | Some x, Some y => fabric_eqb x y
  | _, _ => false
  end.

(** same table, looked up by index (every index that occurs on either side) *)
Definition fabs_eqb (a b : list fabric) : bool :=
  forallb (fun f => ofabric_eqb (fget (f_idx f) a) (fget (f_idx f) b)) (a ++ b).

(** same table except possibly at index [i] *)
Definition fabs_eqb_except (i : N) (a b : list fabric) : bool :=
  forallb (fun f => (f_idx f =? i) || ofabric_eqb (fget (f_idx f) a) (fget (f_idx f) b)) (a ++ b).

Definition nets_eqb (a b : nets) : bool :=
  eqb (n_managed a) (n_managed b) && list_eqb (n_ids a) (n_ids b).

Definition onets_eqb (a b : option nets) : bool :=
  match a, b with
  | None, None => true
  | Some x, Some y => nets_eqb x y
  | _, _ => false
  end.

Definition kv_eqb (a b : kvs) : bool :=
  fabs_eqb (k_fabs a) (k_fabs b) && onets_eqb (k_net a) (k_net b).

(** RAM holds exactly what the store holds *)
Definition synced (st : state) : bool :=
  fabs_eqb (s_fabs st) (k_fabs (s_kv st)) && nets_eqb (s_nets st) (load_nets (s_kv st)).

Definition fs_eqb (a b : fs) : bool :=
  match a, b with
  | Idle, Idle => true
  | Armed f x, Armed g y => (f =? g) && (fl_bits x =? fl_bits y)
  | _, _ => false
  end.

Definition pase_eqb (a b : pase_st) : bool :=
  match a, b with
  | PAbsent, PAbsent => true
  | PLive f, PLive g | PExpired f, PExpired g => f =? g
  | _, _ => false
  end.

(** everything observable in RAM *)
Definition ram_eqb (a b : state) : bool :=
  fs_eqb (s_fs a) (s_fs b) && (s_bc a =? s_bc b) && eqb (s_win a) (s_win b) &&
  pase_eqb (s_pase a) (s_pase b) && fabs_eqb (s_fabs a) (s_fabs b) && nets_eqb (s_nets a) (s_nets b).

Definition is_idle (st : state) : bool := match s_fs st with Idle => true | _ => false end.

Definition status_ok (r : status) : bool := match r with StOk => true | _ => false end.

(** The operations that end a commissioning without completing it. *)
Definition is_rollback (o : op) : bool :=
  match o with
  | OTimeout | ORestart | ORevoke _ => true
  | OArm _ t _ => t =? 0
  | OCompleteCut _ _ => true      (* power loss: what counts is what the store holds *)
  | _ => false
  end.

(** fabric index a session speaks for, read from the observed state *)
Definition obs_sess_fab (st : state) (s : sess) : option N :=
  match sess_ctx st s with Some (f, _) => Some f | None => None end.

(** The store after a CommissioningComplete is "all committed" w.r.t. the state before it:
    the fabric of the fail-safe context is stored as staged in RAM, the networks are stored
    as staged (managed), every other fabric key is untouched. *)
Definition all_committed (pre post : state) (ctx : N) : bool :=
  ofabric_eqb (fget ctx (k_fabs (s_kv post))) (fget ctx (s_fabs pre)) &&
  fabs_eqb_except ctx (k_fabs (s_kv post)) (k_fabs (s_kv pre)) &&
  onets_eqb (k_net (s_kv post)) (Some (mkNets true (n_ids (s_nets pre)))).

Definition fl_of_bits (b : N) : flags :=
  mkFlags (N.testbit b 0) (N.testbit b 1) (N.testbit b 2) (N.testbit b 3) (N.testbit b 4).

Definition flags_eqb (a b : flags) : bool := fl_bits a =? fl_bits b.

(** RAM holds what the store holds, except possibly at the fabric indices [excl] *)
Definition in_list (i : N) (l : list N) : bool := existsb (N.eqb i) l.

Definition synced_except (excl : list N) (st : state) : bool :=
  forallb (fun f => in_list (f_idx f) excl ||
                    ofabric_eqb (fget (f_idx f) (s_fabs st)) (fget (f_idx f) (k_fabs (s_kv st))))
          (s_fabs st ++ k_fabs (s_kv st)) &&
  nets_eqb (s_nets st) (load_nets (s_kv st)).

Definition desynced_at (st : state) (i : N) : bool :=
  negb (ofabric_eqb (fget i (s_fabs st)) (fget i (k_fabs (s_kv st)))).

(** ** The monitor.  Carried along the trace:
    - [pre]   the observed state before the step;
    - [base]  the store as it was when the running fail-safe period was armed ([None]: not armed,
              or a commit / a write outside the fail-safe has touched the store since);
    - [taint] fabric indices whose RAM copy runs ahead of the store because an IMMEDIATE write
              (outside any fail-safe) was answered with an error after changing RAM - not this
              property's subject, so excluded from the RAM-equals-store comparisons;
    - [moved] the fabric index the fail-safe context has moved away from (AddNOC on a CASE session).

    Clause numbers (names in ocaml/c08/driver.ml):
      1 rollback-not-exact          2 store-changed-under-failsafe   3 commit-not-durable
      4 partial-commit              5 refused-command-changed-state  6 accepted-out-of-order
      7 accepted-from-other-context 8 failed-complete-left-unrollbackable
      9 staged-change-orphaned-by-context-switch
     10 staged-change-stored-by-vid-statement
     11 flags-changed-without-credential-command *)
Definition opt_list (x : option N) : list N := match x with Some i => [i] | None => [] end.

Definition check_step (pre : state) (base : option kvs) (taint : list N) (moved : option N)
           (o : op) (r : status) (post : state) : list N :=
  let ok := status_ok r in
  let excl := taint ++ opt_list moved in
  let happened := is_rollback o && (ok || match o with OCompleteCut _ _ => true | _ => false end) in
  let c1 :=
    if happened then
      if is_idle post && (s_bc post =? 0) && synced_except excl post &&
         match o with OCompleteCut _ _ => true | _ => kv_eqb (s_kv post) (s_kv pre) end &&
         match base, o with
         | Some _, OCompleteCut _ _ => true
         | Some b, _ => kv_eqb (s_kv post) b
         | None, _ => true
         end
      then [] else [1]
    else [] in
  let c2 :=
    match o with
    | OComplete _ _ | OCompleteCut _ _ => []
    | OAclW s _ _ | OLabel s _ _ =>
      match s_fs pre, obs_sess_fab pre s with
      | Armed f _, Some g => if (f =? g) && negb (kv_eqb (s_kv post) (s_kv pre)) then [2] else []
      | _, _ => []
      end
    | OVid s _ _ => []      (* clause 10 *)
    | _ => if kv_eqb (s_kv post) (s_kv pre) then [] else [2]
    end in
  let c3 :=
    match o with
    | OComplete _ _ =>
      if ok then
        if is_idle post && (s_bc post =? 0) && synced_except excl post &&
           fabs_eqb (s_fabs post) (s_fabs pre) &&
           list_eqb (n_ids (s_nets post)) (n_ids (s_nets pre))
        then [] else [3]
      else []
    | _ => []
    end in
  let c4 :=
    match o, s_fs pre with
    | OComplete _ _, Armed f _ | OCompleteCut _ _, Armed f _ =>
      if kv_eqb (s_kv post) (s_kv pre) || all_committed pre post f then [] else [4]
    | OComplete _ _, Idle | OCompleteCut _ _, Idle =>
      if kv_eqb (s_kv post) (s_kv pre) then [] else [4]
    | _, _ => []
    end in
  let c5 :=
    match sess_of o with
    | Some _ =>
      if ok || is_rollback o then []
      else match o with
           | OAclW _ _ _ | OLabel _ _ _ | OVid _ _ _ => []
             (* a failing immediate store is not this property's subject *)
           | _ => if ram_eqb pre post then [] else [5]
           end
    | None => []
    end in
  let c6 :=
    match cred_of o with
    | Some c =>
      if ok then
        match s_fs pre, s_fs post with
        | Armed _ fl, Armed _ fl' =>
          match spec_step fl c with
          | Some x => if flags_eqb x fl' then [] else [6]
          | None => [6]
          end
        | _, _ => [6]
        end
      else []
    | None => []
    end in
  let c7 :=
    let needs_ctx :=
      match o with
      | OCsr _ _ | ORoot _ _ | OAddNoc _ _ | OUpdNoc _ _ | ONetAdd _ _ _ | ONetDel _ _
      | OComplete _ _ => true
      | OArm _ t _ => negb (t =? 0) && negb (is_idle pre)
      | _ => false
      end in
    if needs_ctx && ok then
      match s_fs pre, sess_of o with
      | Armed f _, Some s =>
        match obs_sess_fab pre s with
        | Some g => if f =? g then [] else [7]
        | None => [7]
        end
      | _, _ => [7]
      end
    else [] in
  let c8 :=
    match o with
    | OComplete _ _ =>
      if ok then [] else if fs_eqb (s_fs pre) (s_fs post) then [] else [8]
    | _ => []
    end in
  let c9 :=
    match moved with
    | Some g =>
      if (happened || match o with OComplete _ _ => ok | _ => false end) && desynced_at post g
      then [9] else []
    | None => []
    end in
  let c10 :=
    (* a VID statement under a fail-safe armed for its fabric may store the vendor id at once
       (no NOC command pending) - but nothing else that is staged for that fabric *)
    match o with
    | OVid s _ _ =>
      match s_fs pre, obs_sess_fab pre s with
      | Armed f _, Some g =>
        if f =? g then
          if fabs_eqb_except f (k_fabs (s_kv post)) (k_fabs (s_kv pre)) &&
             onets_eqb (k_net (s_kv post)) (k_net (s_kv pre)) &&
             match fget f (k_fabs (s_kv post)), fget f (k_fabs (s_kv pre)) with
             | Some a, Some b =>
               fabric_eqb (mkFabric (f_idx a) (f_root a) (f_nid a) (f_key a) (f_acl a) (f_label a)
                                    (f_vid b)) b
             | None, None => true
             | _, _ => false
             end
          then [] else [10]
        else []
      | _, _ => []
      end
    | _ => []
    end in
  let c11 :=
    (* the record of accepted credential commands changes only by an accepted credential command
       (in particular: re-arming keeps it); an operation that is none leaves the flags alone, ends
       the fail-safe period, or starts one with no flag *)
    match cred_of o with
    | Some _ => []
    | None =>
      match s_fs pre, s_fs post with
      | Armed _ fl, Armed _ fl' => if flags_eqb fl fl' then [] else [11]
      | Idle, Armed _ fl' => if flags_eqb fl' fl_empty then [] else [11]
      | _, Idle => []
      end
    end in
  c1 ++ c2 ++ c3 ++ c4 ++ c5 ++ c6 ++ c7 ++ c8 ++ c9 ++ c10 ++ c11.

Definition next_base (pre : state) (base : option kvs) (o : op) (post : state) : option kvs :=
  match s_fs post with
  | Idle => None
  | Armed _ _ =>
    if is_idle pre then Some (s_kv post)           (* freshly armed *)
    else if kv_eqb (s_kv post) (s_kv pre) then base
    else
      (* something reached the store meanwhile.  A commit, a VID statement or a write outside the
         fail-safe's fabric legitimately moves the reference point; an ACL / label write of the
         fail-safe's own fabric does not (clause 2 reports it, and the rollback is still compared
         with the store as it was when the fail-safe was armed) *)
      match o, s_fs pre with
      | OAclW s _ _, Armed f _ | OLabel s _ _, Armed f _ =>
        match obs_sess_fab pre s with
        | Some g => if f =? g then base else None
        | None => None
        end
      | _, _ => None
      end
  end.

Definition next_taint (pre : state) (taint : list N) (o : op) (r : status) (post : state)
  : list N :=
  let add :=
    match o with
    | OAclW s _ _ | OLabel s _ _ | OVid s _ _ =>
      if status_ok r then [] else opt_list (obs_sess_fab pre s)
    | _ => []
    end in
  filter (desynced_at post) (taint ++ add).

Definition next_moved (pre : state) (moved : option N) (post : state) : option N :=
  match s_fs pre, s_fs post with
  | _, Idle => None
  | Armed f _, Armed g _ =>
    match moved with
    | Some m => Some m
    | None => if (f =? g) || (f =? 0) then None else Some f
    end
  | Idle, Armed _ _ => None
  end.

Fixpoint monitor_from (pre : state) (base : option kvs) (taint : list N) (moved : option N)
         (tr : list (op * (status * state))) : list N :=
  match tr with
  | [] => []
  | (o, (r, post)) :: rest =>
    check_step pre base taint moved o r post ++
    monitor_from post (next_base pre base o post) (next_taint pre taint o r post)
                 (next_moved pre moved post) rest
  end.

Definition monitor (st0 : state) (tr : list (op * (status * state))) : list N :=
  monitor_from st0 None [] None tr.

(** ** 4. Predicates used in the statements of the theorems *)

(** same fabric table (looked up by index) *)
Definition cfg_eq (a b : list fabric) : Prop := forall i, fget i a = fget i b.

(** RAM holds exactly what the store holds: RAM = load(KV) *)
Definition ram_synced (st : state) : Prop :=
  cfg_eq (s_fabs st) (k_fabs (s_kv st)) /\ s_nets st = load_nets (s_kv st).

(** a PASE session is on fabric 0 unless AddNOC of the running fail-safe period upgraded it *)
Definition pase_ok (st : state) : Prop :=
  match s_pase st, s_fs st with
  | PLive pf, Idle => pf = 0
  | PLive pf, Armed f fl => pf = 0 \/ (pf = f /\ fl_add_noc fl = true)
  | _, _ => True
  end.

(** The invariant of every reachable state: outside a fail-safe period RAM = load(KV) and the
    breadcrumb is 0; inside, RAM and store differ at most at the fabric of the fail-safe context
    (and in the networks, the breadcrumb), and that fabric is in the table. *)
Definition Inv (st : state) : Prop :=
  fget 0 (s_fabs st) = None /\ fget 0 (k_fabs (s_kv st)) = None /\ pase_ok st /\
  match s_fs st with
  | Idle => ram_synced st /\ s_bc st = 0
  | Armed f fl =>
    (forall i, i <> f -> fget i (s_fabs st) = fget i (k_fabs (s_kv st))) /\
    (f <> 0 -> fget f (s_fabs st) <> None)
  end.

(** Operations outside the subject of the theorems: an IMMEDIATE store that fails. *)
Definition good_op (o : op) : Prop :=
  match o with
  | OAclW _ _ fail | OLabel _ _ fail | OVid _ _ fail => fail = false
  | _ => True
  end.

(** The known class "context switch": AddNOC on a CASE session while that session's fabric has
    staged (unpersisted) changes - the fail-safe context moves to the new fabric and the staged
    changes of the old one are orphaned. *)
Definition orphaning (st : state) (o : op) : bool :=
  match o with
  | OAddNoc (SC f) _ => negb (ofabric_eqb (fget f (s_fabs st)) (fget f (k_fabs (s_kv st))))
  | _ => false
  end.

Fixpoint safe_run (st : state) (ops : list op) : Prop :=
  match ops with
  | [] => True
  | o :: r => good_op o /\ orphaning st o = false /\ safe_run (fst (step st o)) r
  end.

(** nothing reaches the store during the run *)
Fixpoint nothing_stored (st : state) (ops : list op) : Prop :=
  match ops with
  | [] => True
  | o :: r => s_kv (fst (step st o)) = s_kv st /\ nothing_stored (fst (step st o)) r
  end.

(** The operations that can write the store at all: CommissioningComplete (and its cut
    variant), an ACL / label write on a fabric the fail-safe is not armed for, and a VID
    statement unless an AddNOC / UpdateNOC of the fail-safe context is pending for its fabric. *)
Definition may_store (st : state) (o : op) : bool :=
  match o with
  | OComplete _ _ | OCompleteCut _ _ => true
  | OAclW s _ _ | OLabel s _ _ =>
    match sess_ctx st s, s_fs st with
    | Some (g, _), Armed f _ => negb (f =? g)
    | _, _ => true
    end
  | OVid s _ _ =>
    match sess_ctx st s, s_fs st with
    | Some (g, _), Armed f fl => negb ((f =? g) && (fl_add_noc fl || fl_upd_noc fl))
    | _, _ => true
    end
  | _ => false
  end.

(** The three ways an operation can reach the store, by name ([may_store_split] in
    Proofs/FailsafeTheorems.v: [may_store] is their disjunction):
    - it is CommissioningComplete (or its cut variant): the commit;
    - it is an ACL / label / VID write from outside the fail-safe's context - another fabric's
      administrator, or no fail-safe at all: committed at once, legitimately;
    - the known class "VID statement": SetVIDVerificationStatement from the fail-safe's own
      fabric while no AddNOC / UpdateNOC of the context is pending stores the whole fabric. *)
Definition is_complete (o : op) : bool :=
  match o with OComplete _ _ | OCompleteCut _ _ => true | _ => false end.

Definition outside_write (st : state) (o : op) : bool :=
  match o with
  | OAclW s _ _ | OLabel s _ _ | OVid s _ _ =>
    match sess_ctx st s, s_fs st with
    | Some (g, _), Armed f _ => negb (f =? g)
    | _, _ => true
    end
  | _ => false
  end.

Definition vid_leak (st : state) (o : op) : bool :=
  match o with
  | OVid s _ _ =>
    match sess_ctx st s, s_fs st with
    | Some (g, _), Armed f fl => (f =? g) && negb (fl_add_noc fl || fl_upd_noc fl)
    | _, _ => false
    end
  | _ => false
  end.

(** A run of the commissioning in progress, outside every known class and without its commit:
    no failing immediate store, no context switch that orphans staged changes, no VID-statement
    leak, no CommissioningComplete, no write from outside the fail-safe's context. *)
Fixpoint in_scope (st : state) (ops : list op) : Prop :=
  match ops with
  | [] => True
  | o :: r =>
    good_op o /\ orphaning st o = false /\ vid_leak st o = false /\
    is_complete o = false /\ outside_write st o = false /\
    in_scope (fst (step st o)) r
  end.

(** The ways a commissioning ends without being completed. *)
Inductive rollback_op : op -> Prop :=
| RbTimeout : rollback_op OTimeout
| RbRestart : rollback_op ORestart
| RbForce : forall s bc, rollback_op (OArm s 0 bc)
| RbRevoke : forall s, rollback_op (ORevoke s).

(** Commands that are only accepted from the fail-safe's own context. *)
Definition needs_ctx (o : op) : bool :=
  match o with
  | OCsr _ _ | ORoot _ _ | OAddNoc _ _ | OUpdNoc _ _ | ONetAdd _ _ _ | ONetDel _ _
  | OComplete _ _ => true
  | OArm _ t _ => negb (t =? 0)
  | _ => false
  end.

(** The word of credential commands accepted so far in the running fail-safe period,
    carried along a run. *)
Definition track (st : state) (w : list cred) (o : op) : list cred :=
  let '(st', r) := step st o in
  match s_fs st' with
  | Idle => []
  | Armed _ _ =>
    match s_fs st with
    | Idle => []
    | Armed _ _ =>
      match cred_of o, r with
      | Some c, StOk => w ++ [c]
      | _, _ => w
      end
    end
  end.

Fixpoint track_run (st : state) (w : list cred) (ops : list op) : state * list cred :=
  match ops with
  | [] => (st, w)
  | o :: r => track_run (fst (step st o)) (track st w o) r
  end.

Definition max_fabrics_n : N := N.of_nat MAX_FABRICS.
Definition max_nets_n : N := N.of_nat MAX_NETS.
