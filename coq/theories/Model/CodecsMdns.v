(** mDNS discovery records as far as rs-matter's own code reads and writes them
    (DNS framing and name compression are the [domain] crate's and are not modelled):
      transport/network/mdns/builtin/types.rs   Txt::compose_rdata        (TXT rdata writer)
      transport/network/mdns/builtin/query.rs   MdnsTxt iterator          (TXT rdata reader)
      transport/network/mdns.rs                 CommissionableFilter::matches_txt,
                                                MdnsRemoteService::session_params / supports_tcp_server,
                                                MatterLocalService::service (commissionable TXT keys),
                                                MatterRemoteService::instance_name / matches_instance
                                                (first label: 16-digit upper-case hex ids), parse_hex_u64
    Strings are lists of UTF-8 bytes.  No proofs in this file. *)
From RsM Require Export Lib.MachInt Model.Headers Model.Codecs.
Open Scope N_scope.

(** * [core::str::from_utf8(..).is_ok()]: well-formed UTF-8 (Unicode table 3-7) *)
Definition in_range (lo hi x : N) : bool := (lo <=? x) && (x <=? hi).
Definition cont (x : N) : bool := in_range 128 191 x.

Fixpoint utf8_valid (l : list N) : bool :=
  match l with
  | [] => true
  | b0 :: t =>
      if b0 <? 128 then utf8_valid t
      else if in_range 194 223 b0 then
        match t with b1 :: t1 => cont b1 && utf8_valid t1 | _ => false end
      else if in_range 224 239 b0 then
        match t with
        | b1 :: b2 :: t2 =>
            (if b0 =? 224 then in_range 160 191 b1
             else if b0 =? 237 then in_range 128 159 b1 else cont b1) &&
            cont b2 && utf8_valid t2
        | _ => false
        end
      else if in_range 240 244 b0 then
        match t with
        | b1 :: b2 :: b3 :: t3 =>
            (if b0 =? 240 then in_range 144 191 b1
             else if b0 =? 244 then in_range 128 143 b1 else cont b1) &&
            cont b2 && cont b3 && utf8_valid t3
        | _ => false
        end
      else false
  end.

Definition ascii (l : list N) : bool := forallb (fun c => c <? 128) l.

(** [s.find(c)] for an ASCII [c], and the split around it *)
Fixpoint split_first (c : N) (l : list N) : option (list N * list N) :=
  match l with
  | [] => None
  | x :: t =>
      if x =? c then Some ([], t)
      else match split_first c t with
           | Some (a, b) => Some (x :: a, b)
           | None => None
           end
  end.

(** * TXT rdata *)

Definition EQ : N := 61.     (* '=' *)

(** one character string: length byte ([as u8]), key, '=', value *)
Definition txt_entry (kv : list N * list N) : list N :=
  N.of_nat (length (fst kv) + length (snd kv) + 1) mod 256 :: fst kv ++ [EQ] ++ snd kv.

(** [Txt::compose_rdata]: a lone zero byte for no pairs *)
Definition txt_encode (kvs : list (list N * list N)) : list N :=
  match kvs with
  | [] => [0]
  | _ => flat_map txt_entry kvs
  end.

(** [MdnsTxt]: length-prefixed strings, a string running past the end is cut;
    strings that are not UTF-8 or have no '=' are skipped *)
Fixpoint txt_decode_fuel (fuel : nat) (data : list N) : list (list N * list N) :=
  match fuel with
  | O => []
  | S fuel' =>
      match data with
      | [] => []
      | len :: rest =>
          let n := Nat.min (N.to_nat len) (length rest) in
          let s := firstn n rest in
          (if utf8_valid s then
             match split_first EQ s with Some kv => [kv] | None => [] end
           else []) ++ txt_decode_fuel fuel' (skipn n rest)
      end
  end.
Definition txt_decode (data : list N) : list (list N * list N) :=
  txt_decode_fuel (length data) data.

(** * Numbers and keys *)

(** [str::parse::<uN>()] with [bound = 2^N]: optional '+', at least one digit,
    digits only, no overflow *)
Fixpoint parse_digits (bound : N) (ds : list N) (acc : N) : option N :=
  match ds with
  | [] => Some acc
  | c :: t =>
      if in_range 48 57 c then
        let acc' := acc * 10 + (c - 48) in
        if acc' <? bound then parse_digits bound t acc' else None
      else None
  end.
Definition parse_uint (bound : N) (s : list N) : option N :=
  let ds := match s with 43 :: t => t | _ => s end in
  match ds with
  | [] => None
  | _ => parse_digits bound ds 0
  end.

(** [{}] of an unsigned integer *)
Fixpoint dec_print_fuel (fuel : nat) (v : N) : list N :=
  match fuel with
  | O => []
  | S f => if v <? 10 then [48 + v] else dec_print_fuel f (v / 10) ++ [48 + v mod 10]
  end.
Definition dec_print (v : N) : list N := dec_print_fuel 20 v.

Definition upper (c : N) : N := if in_range 97 122 c then c - 32 else c.
(** [a.eq_ignore_ascii_case(b)] *)
Fixpoint eq_nocase (a b : list N) : bool :=
  match a, b with
  | [], [] => true
  | x :: a', y :: b' => (upper x =? upper y) && eq_nocase a' b'
  | _, _ => false
  end.

Definition K_D : list N := [68].
Definition K_VP : list N := [86; 80].
Definition K_CM : list N := [67; 77].
Definition K_DT : list N := [68; 84].
Definition K_SII : list N := [83; 73; 73].
Definition K_SAI : list N := [83; 65; 73].
Definition K_SAT : list N := [83; 65; 84].
Definition K_T : list N := [84].
Definition K_DN : list N := [68; 78].
Definition K_PI : list N := [80; 73].
Definition K_PH : list N := [80; 72].
Definition K_ICD : list N := [73; 67; 68].
Definition PLUS : N := 43.

(** * [CommissionableFilter::matches_txt] *)
Record txt_fields := mkTF {
  f_disc : option N; f_vid : option N; f_pid : option N; f_dt : option N; f_cm : N }.
Definition tf_init : txt_fields := mkTF None None None None 0.

Definition tf_step (acc : txt_fields) (kv : list N * list N) : txt_fields :=
  let (k, v) := kv in
  if eq_nocase k K_D then
    mkTF (match parse_uint two16 v with Some d => if d <=? 4095 then Some d else None | None => None end)
         (f_vid acc) (f_pid acc) (f_dt acc) (f_cm acc)
  else if eq_nocase k K_VP then
    match split_first PLUS v with
    | Some (a, b) => mkTF (f_disc acc) (parse_uint two16 a) (parse_uint two16 b) (f_dt acc) (f_cm acc)
    | None => mkTF (f_disc acc) (parse_uint two16 v) (f_pid acc) (f_dt acc) (f_cm acc)
    end
  else if eq_nocase k K_CM then
    mkTF (f_disc acc) (f_vid acc) (f_pid acc) (f_dt acc)
         (if list_eqb v [49] then 1 else if list_eqb v [50] then 2 else 0)
  else if eq_nocase k K_DT then
    mkTF (f_disc acc) (f_vid acc) (f_pid acc) (parse_uint two32 v) (f_cm acc)
  else acc.
Definition txt_scan (pairs : list (list N * list N)) : txt_fields := fold_left tf_step pairs tf_init.

Record comm_filter := mkCF {
  c_disc : option N; c_short : option N; c_vid : option N; c_pid : option N;
  c_dt : option N; c_cm_only : bool }.

Definition opt_eqb (a b : option N) : bool :=
  match a, b with Some x, Some y => x =? y | None, None => true | _, _ => false end.
Definition want (w got : option N) : bool :=
  match w with Some _ => opt_eqb got w | None => true end.

Definition filter_matches (f : comm_filter) (t : txt_fields) : bool :=
  want (c_disc f) (f_disc t) &&
  want (c_short f) (match f_disc t with Some d => Some ((d / 256) mod 256) | None => None end) &&
  want (c_vid f) (f_vid t) && want (c_pid f) (f_pid t) && want (c_dt f) (f_dt t) &&
  (negb (c_cm_only f) || negb (f_cm t =? 0)).

(** [session_params]: (SII, SAI, SAT), a later key overrides an earlier one *)
Definition sp_step (acc : option N * option N * option N) (kv : list N * list N) :=
  let '(sii, sai, sat) := acc in
  let (k, v) := kv in
  if eq_nocase k K_SII then (parse_uint two32 v, sai, sat)
  else if eq_nocase k K_SAI then (sii, parse_uint two32 v, sat)
  else if eq_nocase k K_SAT then (sii, sai, parse_uint two16 v)
  else acc.
Definition session_params (pairs : list (list N * list N)) := fold_left sp_step pairs (None, None, None).

(** [supports_tcp_server]: the first T key decides *)
Fixpoint tcp_server (pairs : list (list N * list N)) : bool :=
  match pairs with
  | [] => false
  | (k, v) :: t =>
      if eq_nocase k K_T then
        match parse_uint two32 v with Some x => (x / 4) mod 2 =? 1 | None => false end
      else tcp_server t
  end.

(** * The commissionable TXT record a device publishes
    ([MatterLocalService::Commissionable], keys with an empty value are dropped) *)
Definition opt_kv (k v : list N) : list (list N * list N) :=
  match v with [] => [] | _ => [(k, v)] end.
Definition opt_dec (o : option N) : list N := match o with Some v => dec_print v | None => [] end.

Record comm_adv := mkCA {
  ca_disc : N; ca_enhanced : bool; ca_vid : N; ca_pid : N;
  ca_sai : option N; ca_sii : option N; ca_dn : list N; ca_pi : list N; ca_ph : N;
  ca_dt : option N; ca_tcp : bool; ca_icd : option bool }.

Definition comm_txt (a : comm_adv) : list (list N * list N) :=
  opt_kv K_D (dec_print (ca_disc a)) ++
  opt_kv K_CM (if ca_enhanced a then [50] else [49]) ++
  opt_kv K_VP (dec_print (ca_vid a) ++ [PLUS] ++ dec_print (ca_pid a)) ++
  opt_kv K_SAI (opt_dec (ca_sai a)) ++
  opt_kv K_SII (opt_dec (ca_sii a)) ++
  opt_kv K_DN (ca_dn a) ++
  opt_kv K_PI (ca_pi a) ++
  opt_kv K_PH (dec_print (ca_ph a)) ++
  opt_kv K_DT (opt_dec (ca_dt a)) ++
  opt_kv K_T (if ca_tcp a then [54] else []) ++
  opt_kv K_ICD (match ca_icd a with Some true => [49] | Some false => [48] | None => [] end).

Definition comm_adv_valid (a : comm_adv) : bool :=
  (ca_disc a <? 4096) && (ca_vid a <? two16) && (ca_pid a <? two16) &&
  (match ca_sai a with Some v => v <? two32 | None => true end) &&
  (match ca_sii a with Some v => v <? two32 | None => true end) &&
  (match ca_dt a with Some v => v <? two32 | None => true end) &&
  (ca_ph a <? two32) && ascii (ca_dn a) && ascii (ca_pi a) &&
  Nat.leb (length (ca_dn a)) 200 && Nat.leb (length (ca_pi a)) 200.

(** * Instance names: 16 upper-case hex digits *)
Definition hex_char (d : N) : N := if d <? 10 then 48 + d else 55 + d.
Fixpoint hex_digits (n : nat) (v : N) : list N :=
  match n with
  | O => []
  | S k => hex_digits k (v / 16) ++ [hex_char (v mod 16)]
  end.
Definition hex16 (v : N) : list N := hex_digits 16 v.            (* {:016X} of a u64 *)

Definition hex_val (c : N) : option N :=
  if in_range 48 57 c then Some (c - 48)
  else if in_range 65 70 c then Some (c - 55)
  else if in_range 97 102 c then Some (c - 87)
  else None.
Fixpoint parse_hex_acc (s : list N) (acc : N) : option N :=
  match s with
  | [] => Some acc
  | c :: t =>
      match hex_val c with
      | Some d => let acc' := acc * 16 + d in
                  if acc' <? two64 then parse_hex_acc t acc' else None
      | None => None
      end
  end.
(** [parse_hex_u64] *)
Definition parse_hex_u64 (s : list N) : option N :=
  match s with [] => None | _ => parse_hex_acc s 0 end.

Definition MINUS : N := 45.
Definition op_label (fabric node : N) : list N := hex16 fabric ++ [MINUS] ++ hex16 node.
Definition comm_label (id : N) : list N := hex16 id.
(** the first-label test of [matches_instance] *)
Definition op_label_match (fabric node : N) (label : list N) : bool :=
  utf8_valid label &&
  match split_first MINUS label with
  | Some (a, b) => opt_eqb (parse_hex_u64 a) (Some fabric) && opt_eqb (parse_hex_u64 b) (Some node)
  | None => false
  end.
Definition comm_label_match (id : N) (label : list N) : bool :=
  utf8_valid label && opt_eqb (parse_hex_u64 label) (Some id).

(** * Monitors *)
Definition kv_eqb (a b : list N * list N) : bool := list_eqb (fst a) (fst b) && list_eqb (snd a) (snd b).
Fixpoint kvs_eqb (a b : list (list N * list N)) : bool :=
  match a, b with
  | [], [] => true
  | x :: a', y :: b' => kv_eqb x y && kvs_eqb a' b'
  | _, _ => false
  end.
Definition tf_eqb (a b : txt_fields) : bool :=
  opt_eqb (f_disc a) (f_disc b) && opt_eqb (f_vid a) (f_vid b) && opt_eqb (f_pid a) (f_pid b) &&
  opt_eqb (f_dt a) (f_dt b) && (f_cm a =? f_cm b).

(** the record a device publishes, read back by the TXT reader: the pairs are
    the published ones and the discovery fields are the advertised values *)
Definition mon_comm_rt (a : comm_adv) (pairs : list (list N * list N)) : bool :=
  if comm_adv_valid a then
    kvs_eqb pairs (comm_txt a) &&
    tf_eqb (txt_scan pairs)
      (mkTF (Some (ca_disc a)) (Some (ca_vid a)) (Some (ca_pid a)) (ca_dt a)
            (if ca_enhanced a then 2 else 1))
  else true.
(** arbitrary rdata: every pair returned is a UTF-8 string of the rdata split
    at its first '=' (no '=' in the key) *)
Definition mon_txt_dec (data : list N) (pairs : list (list N * list N)) : bool :=
  forallb (fun kv => utf8_valid (fst kv ++ [EQ] ++ snd kv) &&
                     negb (existsb (N.eqb EQ) (fst kv)) &&
                     Nat.leb (length (fst kv) + length (snd kv) + 1) 255) pairs &&
  Nat.leb (length pairs) (length data).
