(** Declarative form of property C05, in the vocabulary of the property
    text: privilege levels View < Operate < Manage < Administer, subjects
    that are node ids or tags (identifier, version), targets, fabrics.
    Part 1 is the specification [granted]; it mentions no bit mask and no
    function of the model.  Part 2 reads the raw encodings the
    implementation uses (u64 subjects, privilege / access bit sets) into
    that vocabulary.  [granted] composed with part 2 is the executable
    monitor that is run on the implementation's decisions.
    No proofs in this file. *)
From RsM Require Export Lib.MachInt Model.Acl.
Open Scope N_scope.

(** * Part 1 - the specification *)

Inductive level := View | Operate | Manage | Administer.

Definition level_rank (l : level) : N :=
  match l with View => 0 | Operate => 1 | Manage => 2 | Administer => 3 end.

(** [level_le a b]: a privilege of level [b] includes level [a] *)
Definition level_le (a b : level) : bool := level_rank a <=? level_rank b.

(** ProxyView is outside the hierarchy: it includes none of the levels *)
Inductive privilege := Priv (l : level) | ProxyView.

Definition privilege_includes (p : privilege) (l : level) : bool :=
  match p with Priv pl => level_le l pl | ProxyView => false end.

Inductive amode := Pase | Case | Group.

Definition amode_eqb (a b : amode) : bool :=
  match a, b with
  | Pase, Pase | Case, Case | Group, Group => true
  | _, _ => false
  end.

(** A subject is a plain identifier (the node id of a CASE peer, the
    group id of a group accessor) or a CASE authenticated tag. *)
Inductive subject := Node (id : N) | Cat (ident version : N).

(** [subject_matches who s]: identity [who] of the accessor satisfies the
    entry subject [s]: the same node, or a tag with the same identifier
    and an equal or higher version. *)
Definition subject_matches (who s : subject) : bool :=
  match who, s with
  | Node a, Node b => a =? b
  | Cat i v, Cat j w => (i =? j) && (w <=? v)
  | _, _ => false
  end.

Record starget := mkSTarget {
  st_endpoint : option N;
  st_cluster  : option N;
  st_devtype  : option N
}.

(** An access-control entry.  An empty subject list stands for every
    subject of the entry's mode, an empty target list for the whole node. *)
Record sentry := mkSEntry {
  se_privilege : privilege;
  se_mode      : amode;
  se_fabric    : option N;
  se_subjects  : list subject;
  se_targets   : list starget
}.

Record sgroup := mkSGroup {
  sg_id        : N;
  sg_members   : list N;      (* endpoints that are members of the group *)
  sg_auxiliary : bool         (* the group has auxiliary ACL entries *)
}.

Record sfabric := mkSFabric {
  sf_index   : N;
  sf_entries : list sentry;
  sf_groups  : list sgroup
}.

Record saccessor := mkSAccessor {
  sa_mode       : option amode;   (* None: unauthenticated *)
  sa_fabric     : N;              (* 0: no fabric *)
  sa_identities : list subject;   (* node id and tags; the group id for group accessors *)
  sa_group      : N;              (* the group of a group accessor *)
  sa_auxiliary  : bool            (* the node advertises the AUXILIARY feature *)
}.

Inductive operation := Read | Write | Invoke.

(** The element being accessed: where it lives and its access declaration
    (a set of flags: readable / writable, and the levels it names). *)
Record selement := mkSElement {
  el_endpoint    : option N;      (* None: path not expanded (wildcard) *)
  el_cluster     : option N;
  el_devtypes    : list N;        (* device types of the hosting endpoint *)
  el_declaration : option N       (* None: no declaration known *)
}.

(** ** Reading an access declaration *)

Definition level_flag (l : level) : N :=
  match l with View => 0 | Operate => 1 | Manage => 2 | Administer => 3 end.

Definition names_level (decl : N) (l : level) : bool := N.testbit decl (level_flag l).

(** Levels that can be demanded for an operation: writing and invoking
    never require less than Operate. *)
Definition applicable (op : operation) : list level :=
  match op with
  | Read => [View; Operate; Manage; Administer]
  | Write | Invoke => [Operate; Manage; Administer]
  end.

(** The privilege the element requires for the operation: the lowest
    applicable level its declaration names (None: nothing suffices). *)
Definition requires (decl : N) (op : operation) : option level :=
  find (names_level decl) (applicable op).

(** The element supports the operation at all (readable / writable). *)
Definition supports (decl : N) (op : operation) : bool :=
  N.testbit decl (match op with Read => 4 | Write | Invoke => 5 end).

(** ** The decision *)

Definition opt_same (a b : option N) : bool :=
  match a, b with
  | Some x, Some y => x =? y
  | None, None => true
  | _, _ => false
  end.

Definition subjects_match (ids : list subject) (subs : list subject) : bool :=
  match subs with
  | [] => true
  | _ => existsb (fun s => existsb (fun who => subject_matches who s) ids) subs
  end.

Definition target_covers (t : starget) (el : selement) : bool :=
  match st_endpoint t with None => true | Some e => opt_same (Some e) (el_endpoint el) end
  && match st_cluster t with None => true | Some c => opt_same (Some c) (el_cluster el) end
  && match st_devtype t with None => true | Some d => existsb (N.eqb d) (el_devtypes el) end.

(** Whole-node entries of group mode do not reach the root endpoint when
    the node advertises the AUXILIARY feature. *)
Definition targets_cover (e : sentry) (auxiliary : bool) (el : selement) : bool :=
  match se_targets e with
  | [] => negb (auxiliary && amode_eqb (se_mode e) Group && opt_same (el_endpoint el) (Some 0))
  | ts => existsb (fun t => target_covers t el) ts
  end.

Definition declaration_allows (p : privilege) (op : operation) (el : selement) : bool :=
  match el_declaration el with
  | None => false
  | Some d =>
      supports d op
      && match requires d op with
         | Some l => privilege_includes p l
         | None => false
         end
  end.

(** Entry [e] grants operation [op] on [el] to accessor [a]. *)
Definition entry_grants (e : sentry) (a : saccessor) (op : operation) (el : selement) : bool :=
  match sa_mode a with Some m => amode_eqb (se_mode e) m | None => false end
  && opt_same (se_fabric e) (Some (sa_fabric a))
  && subjects_match (sa_identities a) (se_subjects e)
  && targets_cover e (sa_auxiliary a) el
  && declaration_allows (se_privilege e) op el.

(** The auxiliary entries of a fabric (what the AuxiliaryACL attribute
    lists): one per flagged group with members - Operate, group mode, the
    group as only subject, its member endpoints as targets. *)
Definition auxiliary_entries (f : sfabric) : list sentry :=
  flat_map (fun g =>
    match sg_members g with
    | [] => []
    | eps =>
        if sg_auxiliary g then
          [mkSEntry (Priv Operate) Group (Some (sf_index f)) [Node (sg_id g)]
                    (map (fun ep => mkSTarget (Some ep) None None) eps)]
        else []
    end) (sf_groups f).

Definition own_fabric (fabs : list sfabric) (a : saccessor) : option sfabric :=
  if sa_fabric a =? 0 then None
  else find (fun f => sf_index f =? sa_fabric a) fabs.

Definition is_pase_commissioner (a : saccessor) : bool :=
  match sa_mode a with Some Pase => true | _ => false end.

Definition entries_in_force (f : sfabric) (a : saccessor) : list sentry :=
  sf_entries f ++ (if sa_auxiliary a then auxiliary_entries f else []).

(** The access-control decision of the property text. *)
Definition acl_granted (fabs : list sfabric) (a : saccessor) (op : operation) (el : selement) : bool :=
  is_pase_commissioner a
  || match own_fabric fabs a with
     | None => false
     | Some f => existsb (fun e => entry_grants e a op el) (entries_in_force f a)
     end.

(** Group accessors reach only endpoints that are members of their group. *)
Definition endpoint_reachable (fabs : list sfabric) (a : saccessor) (ep : N) : bool :=
  match sa_mode a with
  | Some Group =>
      match own_fabric fabs a with
      | None => false
      | Some f =>
          match find (fun g => sg_id g =? sa_group a) (sf_groups f) with
          | Some g => existsb (N.eqb ep) (sg_members g)
          | None => false
          end
      end
  | _ => true
  end.

(** A read, write or invoke of a concrete element is allowed. *)
Definition granted (fabs : list sfabric) (a : saccessor) (op : operation)
  (ep cl : N) (dts : list N) (decl : N) : bool :=
  endpoint_reachable fabs a ep
  && acl_granted fabs a op (mkSElement (Some ep) (Some cl) dts (Some decl)).

(** ** Declarations as the cluster definitions state them *)

(** read privilege / write-or-invoke privilege; None: not readable / not writable *)
Record edecl := mkDecl { d_read : option level; d_write : option level }.

Definition level_eqb (a b : level) : bool := level_rank a =? level_rank b.

(** The combinations the code generator accepts (rs-matter-codegen
    idl/cluster.rs panics on the others): writing never needs only View;
    a readable and writable element is read with the write privilege or
    with View. *)
Definition decl_supported (d : edecl) : bool :=
  match d_read d, d_write d with
  | Some r, Some w => negb (level_eqb w View) && (level_eqb r w || level_eqb r View)
  | None, Some w => negb (level_eqb w View)
  | _, None => true
  end.

(** the flags the generator emits for "at least level l" *)
Definition need_flags (l : level) : N :=
  match l with
  | View => 1
  | Operate => 2 + 4 + 8
  | Manage => 4 + 8
  | Administer => 8
  end.

Definition encode_decl (d : edecl) : N :=
  match d_read d, d_write d with
  | Some r, Some w => 16 + 32 + N.lor (need_flags w) (if level_eqb r w then 0 else 1)
  | Some r, None => 16 + need_flags r
  | None, Some w => 32 + need_flags w
  | None, None => 0
  end.

(** * Part 2 - reading the raw encodings *)

(** A 64-bit subject whose upper half is 0xFFFF_FFFD and whose lower half
    is not zero is a tag: identifier in bits 16-31, version in bits 0-15. *)
Definition subject_of_raw (s : N) : subject :=
  if ((s / 4294967296) mod 4294967296 =? 0xFFFFFFFD) && negb (s mod 4294967296 =? 0)
  then Cat ((s / 65536) mod 65536) (s mod 65536)
  else Node s.

Definition privilege_of_bits (p : N) : option privilege :=
  if p =? 1 then Some (Priv View)
  else if p =? 3 then Some (Priv Operate)
  else if p =? 7 then Some (Priv Manage)
  else if p =? 15 then Some (Priv Administer)
  else if p =? 16 then Some ProxyView
  else None.

Definition valid_priv (p : N) : bool :=
  match privilege_of_bits p with Some _ => true | None => false end.

Definition amode_of (a : auth) : amode :=
  match a with APase => Pase | ACase => Case | AGroup => Group end.

Definition abs_target (t : target) : starget := mkSTarget (t_ep t) (t_cl t) (t_dt t).

Definition abs_entry (e : entry) : sentry :=
  mkSEntry
    (match privilege_of_bits (e_priv e) with Some p => p | None => ProxyView end)
    (amode_of (e_auth e))
    (e_fab e)
    (match e_subj e with None => [] | Some l => map subject_of_raw l end)
    (match e_targ e with None => [] | Some l => map abs_target l end).

Definition abs_group (g : group) : sgroup :=
  mkSGroup (g_id g) (g_eps g) (match g_aux g with Some b => b | None => false end).

Definition abs_fabric (f : fabric) : sfabric :=
  mkSFabric (f_idx f) (map abs_entry (f_acl f)) (map abs_group (f_groups f)).

(** the identities of an accessor: its non-zero subject slots *)
Definition abs_accessor (a : accessor) : saccessor :=
  mkSAccessor
    (match a_auth a with Some m => Some (amode_of m) | None => None end)
    (a_fab a)
    (map subject_of_raw (filter (fun v => negb (v =? 0)) (a_subj a)))
    (wrap16 (hd 0 (a_subj a)))
    (a_aux a).

Definition abs_element (r : request) : selement :=
  mkSElement (r_ep r) (r_cl r) (r_dts r) (r_perms r).

Definition op_bits (op : operation) : N :=
  match op with Read => ACC_READ | Write | Invoke => ACC_WRITE end.

(** well-formed tables: entry privileges are one of the five enumerated
    values, group ids are 16-bit *)
Definition wf_fabric (f : fabric) : bool :=
  forallb (fun e => valid_priv (e_priv e)) (f_acl f)
  && forallb (fun g => g_id g <? 65536) (f_groups f).

Definition wf_fabrics (fabs : list fabric) : bool := forallb wf_fabric fabs.

(** * The monitors (spec evaluated on raw inputs) *)

Definition spec_allow (fabs : list fabric) (a : accessor) (op : operation) (r : request) : bool :=
  acl_granted (map abs_fabric fabs) (abs_accessor a) op (abs_element r).

Definition spec_endpoint (fabs : list fabric) (a : accessor) (ep : N) : bool :=
  endpoint_reachable (map abs_fabric fabs) (abs_accessor a) ep.

Definition spec_granted (fabs : list fabric) (a : accessor) (op : operation)
  (ep cl : N) (dts : list N) (decl : N) : bool :=
  granted (map abs_fabric fabs) (abs_accessor a) op ep cl dts decl.
