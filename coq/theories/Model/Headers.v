(** Byte-level model of the two message headers:
      rs-matter/src/transport/plain_hdr.rs  (PlainHdr::decode / encode)
      rs-matter/src/transport/proto_hdr.rs  (ProtoHdr::decrypt_and_decode with
                                             no key / encode)
    and of the little-endian primitives of utils/storage/parsebuf.rs and
    writebuf.rs they are written with.  Transcribed statement by statement,
    including the order of the reads and of the flag checks.  No proofs here.

    Interface (used by C17; meant to be reused by C03):
      byte lists are [list N] with every element < 256 ([bytes]);
      [plain_hdr], [plain_new], [plain_wf], [plain_encode], [plain_decode];
      [proto_hdr], [proto_new], [proto_wf], [proto_encode], [proto_decode];
      decoders return [Ok (header, unread rest)] or [Err class];
      [*_encode_buf cap h] is the encoder into a WriteBuf with [cap] free bytes. *)
From RsM Require Export Lib.MachInt.
Open Scope N_scope.

(** * Error classes (what the harness maps ErrorCode onto) *)
Definition E_TRUNC   : N := 1.   (* ErrorCode::TruncatedPacket: ParseBuf ran dry *)
Definition E_INVALID : N := 2.   (* ErrorCode::Invalid: unknown flag bits *)
Definition E_NOSPACE : N := 3.   (* ErrorCode::NoSpace: WriteBuf full *)

(** * Little-endian primitives *)

Definition is_byte (x : N) : bool := x <? 256.
Definition bytes (l : list N) : Prop := Forall (fun x => x < 256) l.
Definition bytesb (l : list N) : bool := forallb is_byte l.

(** [v.to_le_bytes()] truncated to [n] bytes ([as uN] then [to_le_bytes]) *)
Fixpoint le_bytes (n : nat) (v : N) : list N :=
  match n with
  | O => []
  | S k => v mod 256 :: le_bytes k (v / 256)
  end.

(** [uN::from_le_bytes] *)
Fixpoint le_val (bs : list N) : N :=
  match bs with
  | [] => 0
  | b :: t => b + 256 * le_val t
  end.

(** [ParseBuf::le_u8 / le_u16 / le_u32 / le_u64]: [n] bytes off the front,
    [TruncatedPacket] when fewer are left; the buffer is not advanced then. *)
Definition take_le (n : nat) (b : list N) : res (N * list N) :=
  if Nat.leb n (length b) then Ok (le_val (firstn n b), skipn n b)
  else Err E_TRUNC.

(** [flags.contains(bit)] for a single-bit constant [2^i] *)
Definition has_bit (fl i : N) : bool := N.testbit fl i.

(** * PlainHdr *)

Record plain_hdr := mkPlain {
  p_flags : N;       (* MsgFlags bits (u8) *)
  p_sess  : N;       (* sess_id u16 *)
  p_sec   : N;       (* SecFlags bits (u8) *)
  p_ctr   : N;       (* ctr u32 *)
  p_src   : N;       (* src_nodeid u64 *)
  p_dst   : N        (* dst_nodeid u64 *)
}.

Definition plain_new : plain_hdr := mkPlain 0 0 0 0 0 0.

(** [MsgFlags::from_bits]: DSIZ_UNICAST 0x01, DSIZ_GROUPCAST 0x02, SRC_ADDR 0x04 *)
Definition MSG_FLAGS_ALL : N := 7.
Definition msg_flags_ok (b : N) : bool := N.land b (255 - MSG_FLAGS_ALL) =? 0.
(** [SecFlags::from_bits]: GROUP 0x01, MSG_EXT 0x20, CONTROL 0x40, PRIVACY 0x80 *)
Definition SEC_FLAGS_ALL : N := 225.
Definition sec_flags_ok (b : N) : bool := N.land b (255 - SEC_FLAGS_ALL) =? 0.

Definition has_src (fl : N) : bool := has_bit fl 2.
(** [self.flags.contains(DSIZ_MASK)]: both destination-size bits set *)
Definition dsiz_both (fl : N) : bool := has_bit fl 0 && has_bit fl 1.
Definition dsiz_uni (fl : N) : bool := has_bit fl 0.
Definition dsiz_grp (fl : N) : bool := has_bit fl 1.

(** [PlainHdr::decode] on a header in the state [h0] ([self] before the call);
    fields of absent optional parts keep their previous value. *)
Definition plain_decode_from (h0 : plain_hdr) (b : list N) : res (plain_hdr * list N) :=
  let? (fl, b1) := take_le 1 b in
  if negb (msg_flags_ok fl) then Err E_INVALID else
  let? (sid, b2) := take_le 2 b1 in
  let? (sf, b3) := take_le 1 b2 in
  if negb (sec_flags_ok sf) then Err E_INVALID else
  let? (ctr, b4) := take_le 4 b3 in
  let? (src, b5) := (if has_src fl then take_le 8 b4 else Ok (p_src h0, b4)) in
  let? (dst, b6) :=
    (if negb (dsiz_both fl) then
       if dsiz_uni fl then take_le 8 b5
       else if dsiz_grp fl then take_le 2 b5
       else Ok (p_dst h0, b5)
     else Ok (p_dst h0, b5)) in
  Ok (mkPlain fl sid sf ctr src dst, b6).

(** decode into a fresh / reset header, as [transport.rs] does *)
Definition plain_decode (b : list N) : res (plain_hdr * list N) :=
  plain_decode_from plain_new b.

Definition plain_encode (h : plain_hdr) : list N :=
  le_bytes 1 (p_flags h) ++ le_bytes 2 (p_sess h) ++ le_bytes 1 (p_sec h) ++
  le_bytes 4 (p_ctr h) ++
  (if has_src (p_flags h) then le_bytes 8 (p_src h) else []) ++
  (if negb (dsiz_both (p_flags h)) then
     if dsiz_uni (p_flags h) then le_bytes 8 (p_dst h)
     else if dsiz_grp (p_flags h) then le_bytes 2 (p_dst h)
     else []
   else []).

(** encoding into a WriteBuf with [cap] bytes of room *)
Definition plain_encode_buf (cap : nat) (h : plain_hdr) : res (list N) :=
  if Nat.leb (length (plain_encode h)) cap then Ok (plain_encode h) else Err E_NOSPACE.

(** Validity: what the constructor and the setters establish.  Fields in
    range, only declared flag bits, and fields of absent parts zero. *)
Definition plain_wf (h : plain_hdr) : bool :=
  (p_flags h <? 256) && msg_flags_ok (p_flags h) &&
  (p_sess h <? two16) &&
  (p_sec h <? 256) && sec_flags_ok (p_sec h) &&
  (p_ctr h <? two32) &&
  (if has_src (p_flags h) then p_src h <? two64 else p_src h =? 0) &&
  (if negb (dsiz_both (p_flags h)) then
     if dsiz_uni (p_flags h) then p_dst h <? two64
     else if dsiz_grp (p_flags h) then p_dst h <? two16
     else p_dst h =? 0
   else p_dst h =? 0).

(** setters (flag arithmetic of bitflags: [|=] and [remove]) *)
Definition set_bit (fl i : N) : N := N.lor fl (N.shiftl 1 i).
Definition clr_bit (fl i : N) : N := N.ldiff fl (N.shiftl 1 i).

Definition plain_set_src (h : plain_hdr) (id : option N) : plain_hdr :=
  match id with
  | Some v => mkPlain (set_bit (p_flags h) 2) (p_sess h) (p_sec h) (p_ctr h) v (p_dst h)
  | None => mkPlain (clr_bit (p_flags h) 2) (p_sess h) (p_sec h) (p_ctr h) 0 (p_dst h)
  end.

Definition plain_set_dst_unicast (h : plain_hdr) (id : option N) : plain_hdr :=
  match id with
  | Some v => mkPlain (clr_bit (set_bit (p_flags h) 0) 1) (p_sess h) (p_sec h) (p_ctr h) (p_src h) v
  | None => mkPlain (clr_bit (clr_bit (p_flags h) 0) 1) (p_sess h) (p_sec h) (p_ctr h) (p_src h) 0
  end.

Definition plain_set_dst_groupcast (h : plain_hdr) (id : option N) : plain_hdr :=
  match id with
  | Some v => mkPlain (clr_bit (set_bit (p_flags h) 1) 0) (p_sess h) (p_sec h) (p_ctr h) (p_src h) v
  | None => mkPlain (clr_bit (clr_bit (p_flags h) 0) 1) (p_sess h) (p_sec h) (p_ctr h) (p_src h) 0
  end.

(** getters *)
Definition plain_get_src (h : plain_hdr) : option N :=
  if has_src (p_flags h) then Some (p_src h) else None.
Definition plain_get_dst_unicast (h : plain_hdr) : option N :=
  if N.land (p_flags h) 3 =? 1 then Some (p_dst h) else None.
Definition plain_get_dst_groupcast (h : plain_hdr) : option N :=
  if N.land (p_flags h) 3 =? 2 then Some (p_dst h mod two16) else None.

(** * ProtoHdr *)

Record proto_hdr := mkProto {
  x_exch   : N;      (* exch_id u16 *)
  x_flags  : N;      (* ExchFlags bits (u8) *)
  x_proto  : N;      (* proto_id u16 *)
  x_opcode : N;      (* proto_opcode u8 *)
  x_vendor : N;      (* proto_vendor_id u16 *)
  x_ack    : N       (* ack_msg_ctr u32 *)
}.

Definition proto_new : proto_hdr := mkProto 0 0 65535 255 0 0.

(** [ExchFlags::from_bits]: INITIATOR 1, ACK 2, RELIABLE 4, SECEX 8, VENDOR 0x10 *)
Definition EXCH_FLAGS_ALL : N := 31.
Definition exch_flags_ok (b : N) : bool := N.land b (255 - EXCH_FLAGS_ALL) =? 0.
Definition has_vendor (fl : N) : bool := has_bit fl 4.
Definition has_ack (fl : N) : bool := has_bit fl 1.

(** [ProtoHdr::decrypt_and_decode] with [dec_key = None] (the plaintext
    reads that follow the optional AEAD step) *)
Definition proto_decode_from (h0 : proto_hdr) (b : list N) : res (proto_hdr * list N) :=
  let? (fl, b1) := take_le 1 b in
  if negb (exch_flags_ok fl) then Err E_INVALID else
  let? (op, b2) := take_le 1 b1 in
  let? (eid, b3) := take_le 2 b2 in
  let? (pid, b4) := take_le 2 b3 in
  let? (ven, b5) := (if has_vendor fl then take_le 2 b4 else Ok (x_vendor h0, b4)) in
  let? (ack, b6) := (if has_ack fl then take_le 4 b5 else Ok (x_ack h0, b5)) in
  Ok (mkProto eid fl pid op ven ack, b6).

Definition proto_decode (b : list N) : res (proto_hdr * list N) :=
  proto_decode_from proto_new b.

Definition proto_encode (h : proto_hdr) : list N :=
  le_bytes 1 (x_flags h) ++ le_bytes 1 (x_opcode h) ++ le_bytes 2 (x_exch h) ++
  le_bytes 2 (x_proto h) ++
  (if has_vendor (x_flags h) then le_bytes 2 (x_vendor h) else []) ++
  (if has_ack (x_flags h) then le_bytes 4 (x_ack h) else []).

Definition proto_encode_buf (cap : nat) (h : proto_hdr) : res (list N) :=
  if Nat.leb (length (proto_encode h)) cap then Ok (proto_encode h) else Err E_NOSPACE.

Definition proto_wf (h : proto_hdr) : bool :=
  (x_flags h <? 256) && exch_flags_ok (x_flags h) &&
  (x_opcode h <? 256) && (x_exch h <? two16) && (x_proto h <? two16) &&
  (if has_vendor (x_flags h) then x_vendor h <? two16 else x_vendor h =? 0) &&
  (if has_ack (x_flags h) then x_ack h <? two32 else x_ack h =? 0).

Definition proto_set_vendor (h : proto_hdr) (v : option N) : proto_hdr :=
  match v with
  | Some v => mkProto (x_exch h) (set_bit (x_flags h) 4) (x_proto h) (x_opcode h) v (x_ack h)
  | None => mkProto (x_exch h) (clr_bit (x_flags h) 4) (x_proto h) (x_opcode h) 0 (x_ack h)
  end.

Definition proto_set_ack (h : proto_hdr) (v : option N) : proto_hdr :=
  match v with
  | Some v => mkProto (x_exch h) (set_bit (x_flags h) 1) (x_proto h) (x_opcode h) (x_vendor h) v
  | None => mkProto (x_exch h) (clr_bit (x_flags h) 1) (x_proto h) (x_opcode h) (x_vendor h) 0
  end.

Definition proto_get_vendor (h : proto_hdr) : option N :=
  if has_vendor (x_flags h) then Some (x_vendor h) else None.
Definition proto_get_ack (h : proto_hdr) : option N :=
  if has_ack (x_flags h) then Some (x_ack h) else None.

(** * The whole unencrypted packet prefix: plain header then protocol header *)
Definition hdrs_encode (p : plain_hdr) (x : proto_hdr) : list N :=
  plain_encode p ++ proto_encode x.

Definition hdrs_decode (b : list N) : res (plain_hdr * proto_hdr * list N) :=
  let? (p, r) := plain_decode b in
  let? (x, r') := proto_decode r in
  Ok (p, x, r').
