(** Executable form of property C09's clauses over what an end-to-end run
    of two real nodes lets one observe (the monitor). *)
From RsM Require Export Lib.MachInt Model.Mrp.
Open Scope N_scope.

(** messages are numbered 0,1,2,... in sending order; [delivered] is what the
    receiving application saw, in order *)
Fixpoint strictly_increasing (l : list N) : bool :=
  match l with
  | a :: ((b :: _) as t) => (a <? b) && strictly_increasing t
  | _ => true
  end.

Fixpoint ok_delivered_from (i : N) (res : list bool) (delivered : list N) : bool :=
  match res with
  | [] => true
  | r :: t => (if r then mem i delivered else true) && ok_delivered_from (i + 1) t delivered
  end.

(** a send reported Ok only if the receiving application got the message *)
Definition ok_delivered (res : list bool) (delivered : list N) : bool :=
  ok_delivered_from 0 res delivered.

(** retransmission [k+1] of a message is not sent earlier than the
    jitter-free back-off after transmission [k] (times in microseconds) *)
Fixpoint gaps_ok_from (base k : N) (times : list N) : bool :=
  match times with
  | t0 :: ((t1 :: _) as rest) =>
      (t0 + 1000 * backoff_ms base k 0 <=? t1) && gaps_ok_from base (k + 1) rest
  | _ => true
  end.

Definition gaps_ok (base : N) (times : list N) : bool := gaps_ok_from base 0 times.

(** a failed send used the whole budget (6 transmissions); a successful one
    used between 1 and 6 *)
Definition budget_ok (ok : bool) (ntx : N) : bool :=
  if ok then (1 <=? ntx) && (ntx <=? 6) else ntx =? 6.

(** every copy of a reliable message that reached the node was answered
    with an acknowledgement (first copy or duplicate) *)
Definition reacked (copies acks : N) : bool := copies <=? acks.
