(** Model of the chunking ReportData responder of rs-matter/src/im.rs
    ([ReportDataResponder::{respond, report_attributes, report_events,
    send_array_items, send, too_large, start_reply, end_reply, release_reserve}]),
    of the write buffer it works on (utils/storage/writebuf.rs: [shrink] /
    [expand] / append-or-NoSpace), of the event reader's resumption by event
    number (im/events.rs: [EventReader::process_read]) and of the sizes of the
    TLV encodings involved (tlv/write.rs minimal-width integers, octet strings;
    im/encoding/{attr,event}.rs, dm/types/reply.rs).

    The model is that of the REPAIRED code (branch verif-c14: reserve
    accounting for the closing containers, ResourceExhausted instead of an
    endless sequence of empty chunks).  No proofs in this file.

    The buffer is a list of TOKENS (one per TLV element the responder writes
    itself, one per complete attribute report / list element report / event
    report written by the callees); its fill level is the sum of the token
    sizes.  A write that does not fit leaves the buffer unchanged: this is the
    "rewind after NoSpace" of [HandlerInvoker::process_read],
    [send_array_items] and [EventReader::process_read]. *)
From RsM Require Export Lib.MachInt.
Open Scope N_scope.

(** * Sizes of TLV encodings *)

(** unsigned integers are written with the smallest width that holds the value *)
Definition uint_len (v : N) : N :=
  if v <? two8 then 1 else if v <? two16 then 2 else if v <? two32 then 4 else 8.
(** control byte + context tag + value *)
Definition ctx_uint (v : N) : N := 2 + uint_len v.
(** length field of an octet string of [l] bytes *)
Definition str_hdr (l : N) : N :=
  if l <? two8 then 1 else if l <? two16 then 2 else if l <? two32 then 4 else 8.
Definition str_anon (l : N) : N := 1 + str_hdr l + l.
Definition str_ctx (l : N) : N := 2 + str_hdr l + l.

Definition path := (N * N * N)%type.    (* endpoint, cluster, attribute / event *)

(** AttributePathIB as a context-tagged list; [null_idx]: with "list index = null" *)
Definition attr_path_size (p : path) (null_idx : bool) : N :=
  let '(ep, cl, at_) := p in
  2 + ctx_uint ep + ctx_uint cl + ctx_uint at_ + (if null_idx then 2 else 0) + 1.

(** AttributeReportIB { AttributeDataIB { dataver, path, data } } around [data] bytes of data *)
Definition attr_data_size (dv : N) (p : path) (null_idx : bool) (data : N) : N :=
  1 + 2 + ctx_uint dv + attr_path_size p null_idx + data + 1 + 1.

(** AttributeReportIB { AttributeStatusIB { path, StatusIB { status } } };
    EventReportIB { EventStatusIB { path, StatusIB { status } } } has the same size *)
Definition status_size (p : path) (code : N) : N :=
  1 + 2 + attr_path_size p false + (2 + ctx_uint code + 1) + 1 + 1.

Fixpoint sum_with {A} (f : A -> N) (l : list A) : N :=
  match l with [] => 0 | x :: r => f x + sum_with f r end.

Definition scalar_report_size (dv : N) (p : path) (len : N) : N :=
  attr_data_size dv p false (str_ctx len).
Definition whole_list_report_size (dv : N) (p : path) (lens : list N) : N :=
  attr_data_size dv p false (2 + sum_with str_anon lens + 1).
Definition marker_report_size (dv : N) (p : path) : N :=
  attr_data_size dv p false 3.
Definition elem_report_size (dv : N) (p : path) (len : N) : N :=
  attr_data_size dv p true (str_ctx len).
(** what a handler has written of an element report when it finds the index out of
    range: [ReadReply::with_dataver] opens the report and writes data version and path *)
Definition probe_size (dv : N) (p : path) : N :=
  1 + 2 + ctx_uint dv + attr_path_size p true.

(** EventReportIB { EventDataIB { path, number, priority, system timestamp, data } } *)
Definition event_report_size (p : path) (num prio ts len : N) : N :=
  let '(ep, cl, ev) := p in
  1 + 2 + (2 + ctx_uint ep + ctx_uint cl + ctx_uint ev + 1)
  + ctx_uint num + ctx_uint prio + ctx_uint ts + str_ctx len + 1 + 1.

(** * What travels *)

(** one complete report as it appears inside the attribute / event array of a chunk *)
Inductive atom :=
| AWhole (p : path) (sz : N)             (* a complete value: scalar, or a list in one piece *)
| AMarker (p : path) (sz : N)            (* the empty list that announces a streamed list *)
| AElem (p : path) (idx sz : N)          (* one appended list element *)
| AStatus (p : path) (code sz : N)       (* attribute status *)
| AEvent (num sz : N)
| AEvStatus (code sz : N).

Definition asize (a : atom) : N :=
  match a with
  | AWhole _ sz | AMarker _ sz | AElem _ _ sz | AStatus _ _ sz | AEvent _ sz | AEvStatus _ sz => sz
  end.

Inductive token :=
| TStruct                 (* start_struct(Anonymous) *)
| TSubId (w : N)          (* subscription id, value width w *)
| TArrA                   (* start_array(AttributeReports) *)
| TArrE                   (* start_array(EventReports) *)
| TEnd                    (* end_container *)
| TAtom (a : atom)
| TMore                   (* MoreChunkedMessages = true *)
| TSuppress               (* SuppressResponse = true *)
| TRev.                   (* interactionModelRevision *)

Definition tsize (t : token) : N :=
  match t with
  | TStruct => 1
  | TSubId w => 2 + w
  | TArrA | TArrE => 2
  | TEnd => 1
  | TAtom a => asize a
  | TMore | TSuppress => 2
  | TRev => 3
  end.

Definition tsum (l : list token) : N := sum_with tsize l.

(** * The work list *)

(** the expanded read: one entry per attribute the expander yields *)
Inductive item :=
| IOne (a : atom)                                    (* non-array attribute, or a status *)
| IArr (p : path) (whole marker : N) (elems : list N) (probe : N).
      (* array attribute: size of the report with the complete list, of the
         empty-list report, of the report of each element, and of the report
         header the handler writes before it rejects the index past the end *)

Record ev := mkEv { ev_num : N; ev_size : N; ev_sel : bool }.
      (* [ev_sel]: matches the requested paths, the event filters and the access check *)

Record cfg := mkCfg {
  tx : N;                  (* MAX_EXCHANGE_TX_BUF_SIZE *)
  reserve_sz : N;          (* LONG_READS_TLV_RESERVE_SIZE *)
  sub_w : option N;          (* Some w: reply carries a subscription id of width w *)
  suppress : bool;         (* suppress_last_resp *)
  has_attrs : bool;        (* the request has an attribute-requests field *)
  has_events : bool;       (* the request has an event-requests field *)
  ev_lo : N;               (* EventReader.max_seen_event_number at the start *)
  ev_hi : N;               (* EventReader.next_max_seen_event_number *)
  accept : option N        (* the peer: [Some k] answers the first k chunks with StatusResponse Success and the
                              next one with another status, or not at all; [None] answers Success every time *)
}.

(** * The responder state: WriteBuf + the fields of ReportDataResponder *)

Record st := mkSt {
  buf : list token;        (* what has been written since [wb.reset()], oldest first *)
  room : N;                (* wb.buf_size: writes must end at or before it *)
  rsv : N;                 (* self.reserve *)
  fresh : N;               (* self.fresh_tail *)
  seen : N;                (* event_reader.max_seen_event_number *)
  out : list (list token)  (* the messages sent so far, oldest first *)
}.

Definition pos (s : st) : N := tsum (buf s).

Definition set_buf (s : st) b := mkSt b (room s) (rsv s) (fresh s) (seen s) (out s).
Definition set_fresh (s : st) f := mkSt (buf s) (room s) (rsv s) f (seen s) (out s).
Definition set_seen (s : st) n := mkSt (buf s) (room s) (rsv s) (fresh s) n (out s).

(** [wb.append..]: NoSpace ([None]) leaves everything as it was *)
Definition put (t : token) (s : st) : option st :=
  if pos s + tsize t <=? room s then Some (set_buf s (buf s ++ [t])) else None.

(** [release_reserve(len)]: [wb.expand(len)], [self.reserve -= len] *)
Definition release (c : cfg) (n : N) (s : st) : option st :=
  if (n <=? rsv s) && (room s + n <=? tx c)
  then Some (mkSt (buf s) (room s + n) (rsv s - n) (fresh s) (seen s) (out s))
  else None.

Definition obind {A B} (o : option A) (f : A -> option B) : option B :=
  match o with Some x => f x | None => None end.
Notation "'do' x '<-' o ';' k" := (obind o (fun x => k))
  (at level 200, x pattern, o at level 100, k at level 200, right associativity).

(** [start_reply]: reset, shrink by the reserve, open the struct, subscription id *)
Definition start_reply (c : cfg) (s : st) : option st :=
  if reserve_sz c <=? tx c then
    let s0 := mkSt [] (tx c - reserve_sz c) (reserve_sz c) (fresh s) (seen s) (out s) in
    do s1 <- put TStruct s0;
    match sub_w c with
    | Some w => put (TSubId w) s1
    | None => Some s1
    end
  else None.

Inductive kind := KAttrs | KEvents | KDone.

(** [end_reply]: give the rest of the reserve back, close, flags, revision, close *)
Definition end_reply (c : cfg) (k : kind) (s : st) : option st :=
  do s0 <- release c (rsv s) s;
  do s1 <- match k with
           | KAttrs | KEvents => do x <- put TEnd s0; put TMore x
           | KDone => if suppress c then put TSuppress s0 else Some s0
           end;
  do s2 <- put TRev s1;
  put TEnd s2.

(** [send]: close the reply, hand it to the exchange; when chunking, the peer's
    Success status is awaited and the next reply is opened with the same array.
    (A peer that answers something else ends the interaction; that path is not
    part of the model: the peer here always continues.) *)
Definition send (c : cfg) (k : kind) (s : st) : option st :=
  do s1 <- end_reply c k s;
  let s2 := mkSt (buf s1) (room s1) (rsv s1) (fresh s1) (seen s1) (out s1 ++ [buf s1]) in
  match k with
  | KDone => Some s2
  | KAttrs =>
      do s3 <- start_reply c s2;
      do s4 <- put TArrA s3;
      Some (set_fresh s4 (pos s4))
  | KEvents =>
      do s3 <- start_reply c s2;
      do s4 <- put TArrE s3;
      Some (set_fresh s4 (pos s4))
  end.

Inductive outcome :=
| ODone        (* the last message was sent *)
| OStatus      (* ended with a ResourceExhausted status response *)
| OError       (* an error propagated out of [respond]: the exchange is abandoned *)
| OAbort       (* the peer did not answer a chunk with Success ([recv_status_success] false, or no
                  answer at all): the responder stops, nothing more is sent *)
| OFuel.       (* a loop was cut off by the fuel of the model *)

Inductive r := Go (s : st) | Halt (o : outcome) (s : st).

(** [recv_status_success] after a chunk with MoreChunkedMessages: the peer's answer to the chunk
    that has just been pushed to [out] *)
Definition refused (c : cfg) (s : st) : bool :=
  match accept c with
  | Some k => k <? N.of_nat (length (out s))
  | None => false
  end.

(** The retry loop shared by [report_attributes] (non-array branch) and
    [send_array_items]: write; NoSpace => (reply still without payload =>
    ResourceExhausted) else send the chunk and try again. *)
Fixpoint write_atom (n : nat) (c : cfg) (k : kind) (a : atom) (s : st) : r :=
  match put (TAtom a) s with
  | Some s' => Go s'
  | None =>
      if pos s =? fresh s then Halt OStatus s
      else match n with
           | O => Halt OFuel s
           | S n' =>
               match send c k s with
               | None => Halt OError s
               | Some s1 => if refused c s1 then Halt OAbort s1 else write_atom n' c k a s1
               end
           end
  end.

Definition rbind (x : r) (f : st -> r) : r :=
  match x with Go s => f s | Halt o s => Halt o s end.

(** [send_array_items] after the empty list: one report per element; the index is
    a running counter ([ConstraintError] from the handler ends the loop) *)
Fixpoint write_elems (n : nat) (c : cfg) (p : path) (idx : N) (elems : list N) (s : st) : r :=
  match elems with
  | [] => Go s
  | sz :: rest =>
      rbind (write_atom n c KAttrs (AElem p idx sz) s)
            (write_elems n c p (idx + 1) rest)
  end.

(** The read of index [len] by which [send_array_items] finds the end of the list
    ([ConstraintError]).  The handler opens the report before it looks at the index,
    so without room for [sz] bytes the attempt ends in NoSpace like any other: the
    chunk is sent and the read repeated.  Nothing stays in the buffer (rewind). *)
Fixpoint probe_end (n : nat) (c : cfg) (sz : N) (s : st) : r :=
  if pos s + sz <=? room s then Go s
  else if pos s =? fresh s then Halt OStatus s
  else match n with
       | O => Halt OFuel s
       | S n' =>
           match send c KAttrs s with
           | None => Halt OError s
           | Some s1 => if refused c s1 then Halt OAbort s1 else probe_end n' c sz s1
           end
       end.

Definition do_item (n : nat) (c : cfg) (it : item) (s : st) : r :=
  match it with
  | IOne a => write_atom n c KAttrs a s
  | IArr p whole marker elems probe =>
      match put (TAtom (AWhole p whole)) s with
      | Some s' => Go s'
      | None =>
          rbind (write_atom n c KAttrs (AMarker p marker) s) (fun s1 =>
          rbind (write_elems n c p 0 elems s1) (probe_end n c probe))
      end
  end.

Fixpoint do_items (n : nat) (c : cfg) (its : list item) (s : st) : r :=
  match its with
  | [] => Go s
  | it :: rest => rbind (do_item n c it s) (do_items n c rest)
  end.

Definition or_error (s : st) (o : option st) : r :=
  match o with Some s' => Go s' | None => Halt OError s end.

(** [report_attributes] *)
Definition report_attributes (n : nat) (c : cfg) (its : list item) (s : st) : r :=
  if has_attrs c then
    rbind (or_error s (put TArrA s)) (fun s1 =>
    let s2 := set_fresh s1 (pos s1) in
    rbind (do_items n c its s2) (fun s3 =>
    or_error s3 (do x <- release c 1 s3; put TEnd x)))
  else Go s.

(** status for a concrete event path that is not valid: one retry after a flush, then the error *)
Definition write_evstatus (c : cfg) (a : atom) (s : st) : r :=
  match put (TAtom a) s with
  | Some s' => Go s'
  | None =>
      match send c KEvents s with
      | None => Halt OError s
      | Some s1 => if refused c s1 then Halt OAbort s1 else or_error s1 (put (TAtom a) s1)
      end
  end.

Fixpoint write_evstatuses (c : cfg) (l : list atom) (s : st) : r :=
  match l with
  | [] => Go s
  | a :: rest => rbind (write_evstatus c a s) (write_evstatuses c rest)
  end.

(** one [events.fetch] pass over the whole queue: [EventReader::process_read]
    per event; returns [false] at the first event that does not fit *)
Fixpoint ev_pass (c : cfg) (evs : list ev) (s : st) : st * bool :=
  match evs with
  | [] => (s, true)
  | e :: rest =>
      if (seen s <? ev_num e) && (ev_num e <=? ev_hi c) then
        if ev_sel e then
          match put (TAtom (AEvent (ev_num e) (ev_size e))) s with
          | Some s' => ev_pass c rest (set_seen s' (ev_num e))
          | None => (s, false)
          end
        else ev_pass c rest (set_seen s (ev_num e))
      else ev_pass c rest s
  end.

Fixpoint ev_loop (n : nat) (c : cfg) (evs : list ev) (s : st) : r :=
  let '(s1, fin) := ev_pass c evs s in
  if fin then Go s1
  else if pos s1 =? fresh s1 then Halt OStatus s1
  else match n with
       | O => Halt OFuel s1
       | S n' =>
           match send c KEvents s1 with
           | None => Halt OError s1
           | Some s2 => if refused c s2 then Halt OAbort s2 else ev_loop n' c evs s2
           end
       end.

(** [report_events] *)
Definition report_events (n : nat) (c : cfg) (stats : list atom) (evs : list ev) (s : st) : r :=
  if has_events c then
    let fr := pos s =? fresh s in
    rbind (or_error s (do x <- release c 2 s; put TArrE x)) (fun s1 =>
    let s2 := if fr then set_fresh s1 (pos s1) else s1 in
    rbind (write_evstatuses c stats s2) (fun s3 =>
    rbind (ev_loop n c evs s3) (fun s4 =>
    or_error s4 (do x <- release c 1 s4; put TEnd x))))
  else Go s.

Definition init_st (c : cfg) : st := mkSt [] 0 0 0 (ev_lo c) [].

(** [respond] with [send_if_empty = true] (read, subscription priming) *)
Definition respond (n : nat) (c : cfg) (its : list item) (stats : list atom) (evs : list ev)
  : outcome * list (list token) :=
  match start_reply c (init_st c) with
  | None => (OError, [])
  | Some s0 =>
      let s1 := set_fresh s0 (pos s0) in
      match rbind (report_attributes n c its s1) (report_events n c stats evs) with
      | Halt o s => (o, out s)
      | Go s2 =>
          match send c KDone s2 with
          | Some s3 => (ODone, out s3)
          | None => (OError, out s2)
          end
      end
  end.

(** [respond] with [send_if_empty = false] (a subscription report that is not due for liveness):
    [empty] stays true iff no attribute item was expanded, no event status and no event was
    written; then the prepared reply is dropped and nothing is sent.  (With nothing written no
    chunk can have been flushed before.) *)
Definition nothing_to_report (c : cfg) (its : list item) (stats : list atom) (evs : list ev) : bool :=
  (negb (has_attrs c) || match its with [] => true | _ => false end)
  && (negb (has_events c)
      || (match stats with [] => true | _ => false end
          && forallb (fun e => negb ((ev_lo c <? ev_num e) && (ev_num e <=? ev_hi c) && ev_sel e)) evs)).

Definition respond_report (n : nat) (c : cfg) (its : list item) (stats : list atom) (evs : list ev)
  : outcome * list (list token) :=
  if nothing_to_report c its stats evs then (ODone, []) else respond n c its stats evs.

(** * One round of the reporter for one subscription ([process_subscriptions] / [ReportContext])

    The subscription carries what is still to be delivered: the event watermark
    ([max_seen_event_number]) and the changed attributes not yet reported (in the code: the entries
    of the changed-attribute table above [max_seen_attr_change_id]).  [Ok(true)] => [set_keep]: both
    watermarks advance.  [Ok(false)] (the peer answered a chunk with another status, or the
    interaction was ended with ResourceExhausted) => the subscription is dropped.  [Err] (no answer:
    MRP gives up) => [set_keep_retry]: nothing advances, the same data is due again. *)
Record sub := mkSub { sb_seen : N; sb_pending : list item }.

Inductive silence := Refuses | Silent.

Definition with_window (c : cfg) (lo hi : N) : cfg :=
  mkCfg (tx c) (reserve_sz c) (sub_w c) (suppress c) (has_attrs c) (has_events c) lo hi (accept c).

Definition report_round (n : nat) (c : cfg) (how : silence) (sb : sub) (hi : N)
           (stats : list atom) (evs : list ev) : option sub * outcome * list (list token) :=
  let '(o, chunks) := respond_report n (with_window c (sb_seen sb) hi) (sb_pending sb) stats evs in
  match o with
  | ODone => (Some (mkSub hi []), o, chunks)
  | OAbort => (match how with Refuses => None | Silent => Some sb end, o, chunks)
  | OStatus => (None, o, chunks)
  | OError | OFuel => (Some sb, o, chunks)
  end.

(** The constants of the build under test (transport/exchange.rs, im.rs) *)
Definition TX_DEFAULT : N := 1178.
Definition RESERVE_DEFAULT : N := 24.
