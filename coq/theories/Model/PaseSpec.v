(** Declarative side of C02: when a step may commit a session; the scripted
    initiator that turns the case lines of the correspondence check into model
    operations (symbolic counterpart of harness/src/bin/c02.rs); the honest
    initiator + man in the middle used for the two-node runs; and the
    executable property evaluated on the implementation's observations.
    No proofs here. *)
From RsM Require Export Model.Pase.
From Coq Require Import NArith List Bool.
Import ListNotations.
Open Scope N_scope.

(** * When a step commits a session *)

(** The only way a session is committed: a PASEPake3 on the exchange that owns
    the live in-progress marker, while the window that was open at PASEPake1 is
    still open and unexpired, carrying the confirmation for that window's
    verifier over the transcript of this very exchange. *)
Definition accepts (s : st) (o : op) : Prop :=
  exists e c w tr p d,
    o = Msg e (MP3 (P3Conf c)) /\
    win s = Some w /\ now s <= w_expiry w /\
    hs_get e (hs s) = Some (AwaitP3 (w_vf w) (w_gen w) tr p) /\
    marker s = Some (e, d) /\ now s <= d /\
    c = Ca (w_vf w) tr.

(** [record_pake_failure] on a window. *)
Definition bump (w : window) : option window :=
  if MAX_FAILURES <=? w_fail w + 1 then None
  else Some (mkWin (w_vf w) (w_basic w) (w_expiry w) (w_fail w + 1) (w_gen w)).

(** * The scripted initiator *)

Inductive ptclass := PcOwn | PcOther | PcIdentity | PcOffCurve | PcMalformed | PcWrongOp.
Inductive cacls := CcOwn | CcOther (k : N) | CcReplay | CcMalformed | CcWrongOp.

Inductive sop :=
| SOpen (basic : bool) (pw salt saltlen iters timeout : N)
| SClose | SPoll | SAdv (d : N)
| SReq (e : N) (cls : reqclass) (code : N) (hview_same : bool)
| SP1 (e pw : N) (pt : ptclass) (rview : N)     (* 0 same, 1 salt, 2 iterations, 3 response bytes *)
| SP3 (e : N) (ca : cacls) (bview_same : bool)
| SAck (e : N) | SStatus (e : N) | SAbort (e : N).

(** What the initiator of one label remembers. *)
Record ihs := mkIhs {
  i_reqh : N;                       (* request bytes it hashed *)
  i_resp : N;                       (* response bytes it received *)
  i_params : option verifier;       (* salt / iterations it received *)
  i_respv : N;                      (* response bytes it hashed *)
  i_vf : option verifier;           (* what it derived w0, w1 from *)
  i_pa : point;
  i_pb : option N;
  i_prover : bool }.

Definition ihs0 : ihs := mkIhs 0 0 None 0 None PtIdentity None false.

Record ist := mkIst { i_tab : list (N * ihs); i_last_good : option conf }.
Definition ist0 : ist := mkIst [] None.

Fixpoint i_get (e : N) (l : list (N * ihs)) : ihs :=
  match l with
  | [] => ihs0
  | (k, v) :: t => if k =? e then v else i_get e t
  end.
Definition i_put (e : N) (v : ihs) (l : list (N * ihs)) : list (N * ihs) := (e, v) :: l.

Definition ALT : N := 500000.

Definition own_conf (h : ihs) (bview_same : bool) : conf :=
  match i_vf h, i_pb h, i_prover h with
  | Some v, Some pb, true =>
      Ca v (mkTr (i_reqh h) (i_respv h) (i_pa h) (if bview_same then pb else pb + ALT))
  | _, _, _ => CaOther 51
  end.

Definition script_step (s : st) (i : ist) (o : sop) : st * ist * out :=
  match o with
  | SOpen basic pw salt saltlen iters t =>
      let '(s', r) := step s (Open basic (mkVf pw salt saltlen iters) t) in (s', i, r)
  | SClose => let '(s', r) := step s Close in (s', i, r)
  | SPoll => let '(s', r) := step s Poll in (s', i, r)
  | SAdv d => let '(s', r) := step s (Advance d) in (s', i, r)
  | SReq e cls code same =>
      let bytes := e * 1000 + code in
      let '(s', r) := step s (Msg e (MReq (mkReq bytes cls (2000 + e)))) in
      let h0 := mkIhs (if same then bytes else bytes + ALT) 0 None 0 None PtIdentity None false in
      let h := match r with
               | OResp n ps => mkIhs (i_reqh h0) n ps 0 None PtIdentity None false
               | _ => h0
               end in
      (s', mkIst (i_put e h (i_tab i)) (i_last_good i), r)
  | SP1 e pw pt rview =>
      let h := i_get e (i_tab i) in
      let v := match i_params h with
               | Some p => mkVf pw (if rview =? 1 then vf_salt p + ALT else vf_salt p) (vf_saltlen p)
                                (if rview =? 2 then vf_iters p + 1 else vf_iters p)
               | None => mkVf pw 999 16 1000
               end in
      let respv := if rview =? 3 then i_resp h + ALT else i_resp h in
      let own := PtValid (100 + e) in
      let m := match pt with
               | PcOwn => MP1 (P1Point own)
               | PcOther => MP1 (P1Point (PtValid (200 + e)))
               | PcIdentity => MP1 (P1Point PtIdentity)
               | PcOffCurve => MP1 (P1Point PtOffCurve)
               | PcMalformed => MP1 P1Malformed
               | PcWrongOp => MP3 (P3Conf (CaOther 0))
               end in
      let '(s', r) := step s (Msg e m) in
      let pb := match r with OPake2 n => Some n | _ => i_pb h end in
      let h' := mkIhs (i_reqh h) (i_resp h) (i_params h) respv (Some v) own pb true in
      (s', mkIst (i_put e h' (i_tab i)) (i_last_good i), r)
  | SP3 e ca same =>
      let h := i_get e (i_tab i) in
      let own := own_conf h same in
      let m := match ca with
               | CcOwn => MP3 (P3Conf own)
               | CcOther k => MP3 (P3Conf (CaOther (1000 + k)))
               | CcReplay => MP3 (P3Conf (match i_last_good i with Some c => c | None => CaOther 7 end))
               | CcMalformed => MP3 P3Malformed
               | CcWrongOp => MP1 P1Malformed
               end in
      let '(s', r) := step s (Msg e m) in
      let h' := mkIhs (i_reqh h) (i_resp h) (i_params h) (i_respv h) (i_vf h) (i_pa h) (i_pb h) false in
      let lg := match r with OStatus StSuccess => Some own | _ => i_last_good i end in
      (s', mkIst (i_put e h' (i_tab i)) lg, r)
  | SAck e => let '(s', r) := step s (Msg e MAck) in (s', i, r)
  | SStatus e => let '(s', r) := step s (Msg e MStatus) in (s', i, r)
  | SAbort e => let '(s', r) := step s (Abort e) in (s', i, r)
  end.

(** * What is observed after every operation *)

Record obs := mkObs {
  o_win : option (N * bool);        (* failures, expired *)
  o_marker : option (N * bool);     (* owner label, deadline passed *)
  o_sess : list (N * bool);         (* peer session id, usable *)
  o_fs : bool;
  o_adv : bool }.

Definition observe (s : st) : obs :=
  mkObs
    (match win s with Some w => Some (w_fail w, w_expiry w <? now s) | None => None end)
    (match marker s with Some (e, d) => Some (e, d <? now s) | None => None end)
    (map (fun x => (s_peer x, s_live x)) (sessions s))
    (fs_armed s)
    (advertised s).

Fixpoint script_run (s : st) (i : ist) (l : list sop) : list (out * obs) :=
  match l with
  | [] => []
  | o :: t =>
      let '(s', i', r) := script_step s i o in
      (r, observe s') :: script_run s' i' t
  end.

(** * The executable property, on the implementation's observations *)

(** What the monitor tracks from the case line and the implementation's own
    answers: the passcode of the window instance that is open (by the
    implementation's answers to open / close and its observed window), and for
    every label whether everything the initiator did so far on it is what an
    honest initiator knowing that passcode does, unmodified, within one window
    instance. *)
Record mon := mkMon {
  m_pw : option verifier;           (* verifier of the window the implementation has open *)
  m_inst : N;                       (* counts the window instances seen *)
  m_req_ok : list (N * N);          (* labels whose unmodified request was answered *)
  m_p1_ok : list (N * verifier);    (* label -> verifier of the window open when its honest, unmodified Pake1 was answered *)
  m_pending : list (N * bool);      (* label -> the final status of its handshake (success?) awaits its ack *)
  m_stage : list (N * N)            (* label -> 1: its request was answered, 2: its Pake1 was answered *)
}.
Definition mon0 : mon := mkMon None 0 [] [] [] [].

Fixpoint a_get {A} (e : N) (l : list (N * A)) : option A :=
  match l with
  | [] => None
  | (k, v) :: t => if k =? e then Some v else a_get e t
  end.
Fixpoint a_del {A} (e : N) (l : list (N * A)) : list (N * A) :=
  match l with
  | [] => []
  | (k, v) :: t => if k =? e then a_del e t else (k, v) :: a_del e t
  end.

Definition opt_eqb (a b : option N) : bool :=
  match a, b with Some x, Some y => x =? y | None, None => true | _, _ => false end.

Definition sess_eqb (a b : list (N * bool)) : bool :=
  Nat.eqb (length a) (length b) &&
  forallb (fun p => (fst (fst p) =? fst (snd p)) && Bool.eqb (snd (fst p)) (snd (snd p))) (combine a b).

Definition win_eqb (a b : option (N * bool)) : bool :=
  match a, b with
  | Some (x, p), Some (y, q) => (x =? y) && Bool.eqb p q
  | None, None => true
  | _, _ => false
  end.

Definition obs_pase_eqb (a b : obs) : bool :=
  win_eqb (o_win a) (o_win b) && win_eqb (o_marker a) (o_marker b) && sess_eqb (o_sess a) (o_sess b).

Definition peers (o : obs) : list N := map fst (o_sess o).
Definition has_peer (o : obs) (p : N) : bool := existsb (N.eqb p) (peers o).

(** Violation names (stable). *)
Inductive viol :=
| VSessionWithoutWindow     (* a session was committed while the window was closed or expired *)
| VSessionWithoutProof      (* ... for an initiator with another passcode / a mutated or replayed message *)
| VSessionOutOfStep         (* ... by an operation that is not a PASEPake3 of the marker's owner *)
| VFailureNotCounted        (* a failed proof did not increase the counter / revoke at 20 *)
| VSuccessCounted           (* a successful handshake was counted as a failure *)
| VCounterRange             (* the counter reached 20 with the window still open, or moved otherwise *)
| VNotBusy                  (* a second initiator was not answered Busy or disturbed the first *)
| VAdvertised               (* commissionable service published <> window present *)
| VSessionLost.             (* a committed session disappeared or never became usable on ack *)

(** One step of the monitor: the case operation, the implementation's answer,
    its observation before and after. *)
Definition mon_step (m : mon) (o : sop) (r : out) (p c : obs) : mon * list viol :=
  (* window instance tracking from the implementation's own observations *)
  let closed_now := match o_win p, o_win c with Some _, None => true | _, _ => false end in
  let opened_now := match o_win p, o_win c with None, Some _ => true | _, _ => false end in
  let pw' := match o with
             | SOpen basic pw salt saltlen iters _ =>
                 if opened_now then Some (mkVf pw salt saltlen (if basic then BASIC_ITERS else iters)) else m_pw m
             | _ => if closed_now then None else m_pw m
             end in
  let inst' := if opened_now || closed_now then m_inst m + 1 else m_inst m in
  (* new sessions *)
  let fresh := filter (fun q => negb (has_peer p q)) (peers c) in
  let lost := filter (fun q => negb (has_peer c q)) (peers p) in
  let v_sess :=
    match fresh with
    | [] => []
    | _ =>
        match o with
        | SP3 e ca same =>
            let honest :=
              match ca with CcOwn => same | _ => false end &&
              (match a_get e (m_req_ok m) with Some _ => true | None => false end) &&
              (match a_get e (m_p1_ok m), m_pw m with
               | Some v, Some cur => vf_eqb v cur
               | _, _ => false
               end) in
            (match o_win p with
             | Some (_, false) => []
             | _ => [VSessionWithoutWindow]
             end) ++
            (if honest then [] else [VSessionWithoutProof]) ++
            (match o_marker p with
             | Some (x, false) => if x =? e then [] else [VSessionOutOfStep]
             | _ => [VSessionOutOfStep]
             end) ++
            (if forallb (N.eqb (2000 + e)) fresh then [] else [VSessionOutOfStep])
        | _ => [VSessionOutOfStep]
        end
    end in
  let v_lost := match lost with [] => [] | _ => [VSessionLost] end in
  (* failure accounting *)
  let same_inst := negb opened_now && negb closed_now in
  let expect_bump (l : list viol) :=
    match o_win p with
    | Some (f, _) =>
        match o_win c with
        | Some (f', _) => if (f' =? f + 1) && (f' <? 20) then l else VFailureNotCounted :: l
        | None => if f =? 19 then l else VFailureNotCounted :: l
        end
    | None => l
    end in
  let live_for e :=
    match o_marker p, o_win p with
    | Some (x, false), Some (_, false) => x =? e
    | _, _ => false
    end in
  let v_now :=
    (* failures that end the handler at once, on the exchange owning the live marker *)
    match o with
    | SP1 e _ pt _ =>
        match pt, a_get e (m_stage m) with
        | PcIdentity, Some 1 | PcOffCurve, Some 1 | PcMalformed, Some 1 => if live_for e then expect_bump [] else []
        | _, _ => []
        end
    | SP3 e CcMalformed _ =>
        match a_get e (m_stage m) with
        | Some 2 => if live_for e then expect_bump [] else []
        | _ => []
        end
    | SStatus e =>
        match a_get e (m_stage m), a_get e (m_pending m) with
        | Some _, None => if live_for e then expect_bump [] else []
        | _, _ => []
        end
    | _ => []
    end in
  let v_fail :=
    match o with
    | SAck e | SAbort e | SStatus e =>
        match a_get e (m_pending m) with
        | Some false => expect_bump []
        | Some true =>
            match o with
            | SAck _ =>
                (match o_win p, o_win c with
                 | Some (f, _), Some (f', _) => if f' =? f then [] else [VSuccessCounted]
                 | Some _, None => [VSuccessCounted]
                 | _, _ => []
                 end) ++
                (if existsb (fun q => (fst q =? 2000 + e) && snd q) (o_sess c) then [] else [VSessionLost])
            | _ => []
            end
        | None => []
        end
    | _ => []
    end in
  let v_range :=
    match o_win c with
    | Some (f, _) =>
        if 20 <=? f then [VCounterRange]
        else match o_win p with
             | Some (f0, _) =>
                 if same_inst && negb ((f =? f0) || (f =? f0 + 1)) then [VCounterRange] else []
             | None => []
             end
    | None => []
    end in
  (* second initiator *)
  let v_busy :=
    match o with
    | SReq e _ _ _ =>
        match o_marker p with
        | Some (x, false) =>
            if x =? e then []
            else match r with
                 | OStatus StBusy => if obs_pase_eqb p c then [] else [VNotBusy]
                 | _ => [VNotBusy]
                 end
        | _ => []
        end
    | _ => []
    end in
  let v_adv :=
    if Bool.eqb (o_adv c) (match o_win c with Some _ => true | None => false end) then [] else [VAdvertised] in
  (* bookkeeping for later steps *)
  let req_ok' :=
    match o with
    | SReq e cls _ same =>
        let l := a_del e (m_req_ok m) in
        match r, cls with
        | OResp _ (Some _), RqOk => if same then (e, inst') :: l else l
        | _, _ => l
        end
    | _ => m_req_ok m
    end in
  let p1_ok' :=
    match o with
    | SReq e _ _ _ => a_del e (m_p1_ok m)
    | SP1 e pw pt rview =>
        let l := a_del e (m_p1_ok m) in
        match r, pt with
        | OPake2 _, PcOwn =>
            match m_pw m with
            | Some cur => if (rview =? 0) && (vf_pw cur =? pw) then (e, cur) :: l else l
            | None => l
            end
        | _, _ => l
        end
    | _ => m_p1_ok m
    end in
  let pending' :=
    match o with
    | SP3 e _ _ =>
        let l := a_del e (m_pending m) in
        match r with
        | OStatus StSuccess => (e, true) :: l
        | OStatus StInvalidParameter =>
            (* only the answer to a PASEPake3 that was checked awaits an ack; a wrong opcode is answered the same
               way but ends the handler at once: told apart by the marker still being the label's *)
            match o_marker c with
            | Some (x, _) => if x =? e then (e, false) :: l else l
            | None => l
            end
        | _ => l
        end
    | SAck e | SAbort e | SReq e _ _ _ | SP1 e _ _ _ | SStatus e => a_del e (m_pending m)
    | _ => m_pending m
    end in
  let stage' :=
    match o with
    | SReq e _ _ _ =>
        let l := a_del e (m_stage m) in
        match r with OResp _ _ => (e, 1) :: l | _ => l end
    | SP1 e _ _ _ =>
        let l := a_del e (m_stage m) in
        match r with OPake2 _ => (e, 2) :: l | _ => l end
    | SP3 e _ _ | SStatus e | SAbort e => a_del e (m_stage m)
    | _ => m_stage m
    end in
  (mkMon pw' inst' req_ok' p1_ok' pending' stage',
   v_sess ++ v_lost ++ v_now ++ v_fail ++ v_range ++ v_busy ++ v_adv).

Definition obs0 : obs := mkObs None None [] false false.

Fixpoint mon_run (m : mon) (p : obs) (l : list (sop * (out * obs))) : list viol :=
  match l with
  | [] => []
  | (o, (r, c)) :: t =>
      let '(m', v) := mon_step m o r p c in
      v ++ mon_run m' c t
  end.

(** [C02_holds]: the property on one observed run. *)
Definition c02_holds (l : list (sop * (out * obs))) : bool :=
  match mon_run mon0 obs0 l with [] => true | _ => false end.

(** * Two real nodes: the honest initiator and a man in the middle *)

(** Which message the man in the middle touches and how. *)
Inductive mitm :=
| MNone
| MReqAltered       (* request changed but still accepted by the responder *)
| MReqBroken        (* request no longer parses / passcode id / random length *)
| MRespAltered      (* response changed: the initiator refuses it or hashes other bytes *)
| MP1Invalid        (* pA no longer a valid point or Pake1 no longer parses *)
| MP1Swapped        (* pA replaced by another valid point *)
| MP2Altered        (* pB or cB changed: the initiator's cB check fails *)
| MP3Altered        (* cA changed, still 32 bytes *)
| MP3Broken.        (* Pake3 no longer parses *)

(** A window operation performed just before the n-th initiator message reaches
    the device (0 = request, 1 = Pake1, 2 = Pake3, 3 = never). *)
Inductive wop := WNone | WClose | WExpire | WReopen (pw : N).

Definition apply_wop (s : st) (w : wop) : st :=
  match w with
  | WNone => s
  | WClose => fst (step s Close)
  | WExpire => fst (step s (Advance 1000000))
  | WReopen pw => fst (step (fst (step s Close)) (Open true (mkVf pw 78 32 BASIC_ITERS) 900))
  end.

(** [PaseInitiator::perform] against the model responder.  Result: the final
    state and whether the initiator established its session. *)
Definition e2e_run (s : st) (pw_init : N) (mi : mitm) (at_msg : N) (w : wop) : st * bool :=
  let e := 1 in
  let wat (k : N) (x : st) := if at_msg =? k then apply_wop x w else x in
  let give_up (x : st) := (fst (step x (Msg e MStatus)), false) in
  (* PBKDFParamRequest *)
  let s := wat 0 s in
  let bytes := 1000 in
  let cls := match mi with MReqBroken => RqUnparsable | _ => RqOk end in
  let sent := match mi with MReqAltered => bytes + ALT | _ => bytes end in
  let '(s, r) := step s (Msg e (MReq (mkReq sent cls (2000 + e)))) in
  match r with
  | OResp n (Some ps) =>
      match mi with
      | MRespAltered =>
          (* refused, or hashed differently and then cB does not verify: either way the initiator
             ends with a StatusReport; the device counts one failure. *)
          give_up s
      | _ =>
      (* Pake1 *)
      let s := wat 1 s in
      let v := mkVf pw_init (vf_salt ps) (vf_saltlen ps) (vf_iters ps) in
      let own := PtValid 101 in
      let m1 := match mi with
                | MP1Invalid => MP1 (P1Point PtOffCurve)
                | MP1Swapped => MP1 (P1Point (PtValid 202))
                | _ => MP1 (P1Point own)
                end in
      let '(s, r1) := step s (Msg e m1) in
      match r1 with
      | OPake2 nb =>
          let tr_i := mkTr bytes n own nb in
          (* the initiator checks cB: the responder's value for its verifier and transcript *)
          let cb_ok :=
            match hs_get e (hs s) with
            | Some (AwaitP3 vf _ tr _) => vf_eqb vf v && tr_eqb tr tr_i
            | _ => false
            end in
          if negb cb_ok || match mi with MP2Altered => true | _ => false end then give_up s
          else
            (* Pake3 *)
            let s := wat 2 s in
            let m3 := match mi with
                      | MP3Altered => MP3 (P3Conf (CaOther 1))
                      | MP3Broken => MP3 P3Malformed
                      | _ => MP3 (P3Conf (Ca v tr_i))
                      end in
            let '(s, r3) := step s (Msg e m3) in
            match r3 with
            | OStatus StSuccess => (fst (step s (Msg e MAck)), true)
            | OStatus _ => (fst (step s (Msg e MAck)), false)
            | _ => (s, false)      (* no answer: the initiator times out *)
            end
      | OStatus _ => (fst (step s (Msg e MAck)), false)
      | _ => (s, false)
      end
      end
  | OResp n None => give_up s
  | _ => (s, false)
  end.

(** The executable property for a two-node run: a session (on either side) only if
    the man in the middle changed nothing, a window is open when Pake3 arrives and
    the initiator's passcode is that window's. *)
Definition e2e_holds (pwb pwa : N) (benign : bool) (w : wop) (at_msg : N)
    (a_ok : bool) (b_sess : N) : bool :=
  let session := a_ok || (0 <? b_sess) in
  let applied := at_msg <? 3 in
  let open_at_end := match w with WClose | WExpire => negb applied | _ => true end in
  let pw_end := match w with WReopen p => if applied then p else pwb | _ => pwb end in
  if session then benign && open_at_end && (pwa =? pw_end) else true.
