(** Model for property C07 - nothing bound to a fabric outlives that fabric.
    Executable definitions only (no proofs).

    Transcribed from rs-matter (repaired tree, see design.d/C07.md):
      fabric.rs                  Fabrics::add_with_post_init (index allocation), remove, add_load
      failsafe.rs                FailSafe::check_state / arm / expire / add_noc / update_noc / disarm
      dm/clusters/noc.rs         CSRRequest, AddTrustedRootCertificate, AddNOC, UpdateNOC, RemoveFabric
      dm/clusters/gen_comm.rs    ArmFailSafe (incl. ArmFailSafe(0)), CommissioningComplete
      dm/clusters/adm_comm.rs    RevokeCommissioning
      transport/session.rs       Sessions::remove_for_fabric, remove_pase, expired / reserved flags
      sc/case/resumption.rs      ResumableSessions (LRU cache, persisted blob)
      sc/case/responder.rs       Sigma3 (session + record), Sigma1 with resumption
      im.rs                      subscribe, reporter purge phase, notify_fabric_removed, startup
      lib.rs                     Matter::startup, run_persist_resumption

    GHOST state (not in the implementation): every fabric creation draws a fresh
    INCARNATION number [st_ninc]; sessions, resumption records and subscriptions
    carry the incarnation of the fabric they were created under (a resumed
    session and the rotated record inherit the incarnation of the record that
    was resumed; a subscription inherits that of the session it arrived on).
    Sessions, records and subscriptions also carry ghost names (creation order).

    The four repairs made for this property can be switched off one by one
    ([fixes]); [step] is the repaired code, the witnesses in Proofs/LifecycleWitness.v
    run the unrepaired variants.

    Abstractions: certificates are tokens (a root id; the administrator's node id is
    [ADMIN] on every fabric); the credential commands of one commissioning step are
    issued together ([OAddNoc] = CSRRequest, AddTrustedRootCertificate, AddNOC;
    [OUpdNoc] = CSRRequest(update), UpdateNOC); breadcrumb, networks, commissioning
    window and store failures are C08's subject and left out; a handshake, a
    resumption, a subscribe transaction and a request are single steps, except that a
    handshake can also be caught in its last step ([OEstablishBegin] / [OResumeBegin] ...
    [OFinishFull] / [OFinishResume]) with its reserved slot in the table in between; the key-value
    copy of the subscription table is rewritten in the same step as every change
    of the table and is therefore not a separate component; the order of the
    fabric table is not observable (indices are unique). *)
From Coq Require Import NArith List Bool.
Import ListNotations.
Open Scope N_scope.

(** ** Constants of the build under test *)
Definition ADMIN : N := 4369.        (* 0x1111: the administrator's node id, CaseAdminSubject *)
Definition MAX_FABRICS : nat := 5.
Definition MAX_SESSIONS : nat := 16.
Definition MAX_RECORDS : nat := 15.  (* MAX_RESUMPTION_RECORDS *)
Definition MAX_SUBS : nat := 15.     (* DEFAULT_MAX_SUBSCRIPTIONS *)

(** ** Which repairs are present *)
Record fixes := mkFixes {
  fx_expire_sessions : bool;  (* aeebf7d: the rollback drops the sessions of the fabric it removes *)
  fx_drop_bound : bool;       (* acb0fc9: notify_fabric_removed drops records (+ stores the cache) and subscriptions *)
  fx_startup_recs : bool;     (* 5977e4b: startup drops records of missing fabrics *)
  fx_startup_subs : bool      (* dc3e55e: startup drops subscriptions of missing fabrics *)
}.
Definition repaired := mkFixes true true true true.

(** ** NocFlags *)
Record flags := mkFlags {
  fl_add_csr : bool;   (* 0x01 *)
  fl_upd_csr : bool;   (* 0x02 *)
  fl_root    : bool;   (* 0x04 *)
  fl_add_noc : bool;   (* 0x08 *)
  fl_upd_noc : bool    (* 0x10 *)
}.
Definition fl_empty := mkFlags false false false false false.

Definition fl_bits (f : flags) : N :=
  (if fl_add_csr f then 1 else 0) + (if fl_upd_csr f then 2 else 0) +
  (if fl_root f then 4 else 0) + (if fl_add_noc f then 8 else 0) +
  (if fl_upd_noc f then 16 else 0).

Definition fl_of_bits (b : N) : flags :=
  mkFlags (N.testbit b 0) (N.testbit b 1) (N.testbit b 2) (N.testbit b 3) (N.testbit b 4).

(** ** Data *)
Record fabric := mkFabric {
  f_idx  : N;          (* local fabric index, 1..255 *)
  f_inc  : N;          (* GHOST: incarnation *)
  f_root : N;          (* which root certificate (also determines the fabric id) *)
  f_acl  : N           (* the access control list as last written by [ORequest]; 0 = the admin entry only *)
}.

Inductive smode := MPase | MCase | MGroup.

Record session := mkSess {
  s_id   : N;          (* GHOST name: creation order *)
  s_mode : smode;
  s_fab  : N;          (* fabric index of the session mode (0: PASE before AddNOC) *)
  s_node : N;          (* peer node id *)
  s_exp  : bool;       (* expired *)
  s_res  : bool;       (* reserved *)
  s_inc  : N           (* GHOST: incarnation of the fabric it was created under (0 if none) *)
}.

Record rrec := mkRec {
  r_id   : N;          (* GHOST name of the resumption id *)
  r_fab  : N;
  r_node : N;
  r_inc  : N           (* GHOST *)
}.

Record sub := mkSub {
  u_id   : N;          (* GHOST name (the harness uses it as the min interval) *)
  u_fab  : N;
  u_node : N;
  u_inc  : N           (* GHOST *)
}.

Inductive fs :=
| Idle
| Armed (fab : N) (fl : flags).

Record state := mkState {
  st_fabs   : list fabric;   (* RAM fabric table *)
  st_kvfabs : list fabric;   (* persisted fabrics (one key per index) *)
  st_sess   : list session;
  st_recs   : list rrec;     (* RAM resumption cache, oldest first *)
  st_kvrecs : list rrec;     (* persisted resumption cache (absent key = []) *)
  st_subs   : list sub;      (* subscription table = its persisted copy *)
  st_fs     : fs;
  st_root   : N;             (* staged root *)
  st_ninc   : N;             (* GHOST counters *)
  st_nsid   : N;
  st_nrid   : N;
  st_nsub   : N
}.

Inductive op :=
| OArm (s : N)                 (* ArmFailSafe(60) on session s *)
| OAddNoc (s : N) (r : N)      (* CSRRequest, AddTrustedRootCertificate(r), AddNOC *)
| OUpdNoc (s : N)              (* CSRRequest(update), UpdateNOC *)
| OComplete (s : N)            (* CommissioningComplete *)
| ORemove (s : N) (i : N)      (* RemoveFabric(i) *)
| OTimeout                     (* the fail-safe timer fires *)
| OArm0 (s : N)                (* ArmFailSafe(0) *)
| ORevoke (s : N)              (* RevokeCommissioning *)
| OEstablish (r : N)           (* full CASE handshake by the administrator holding credentials under root r *)
| OPeer (f : N) (n : N)        (* full CASE handshake completed by node n on fabric index f *)
| OGroup (f : N)               (* a group session on fabric index f *)
| OResume (k : N)              (* Sigma1 with the resumption id named k *)
| OPersist                     (* the debounced task stores the resumption cache *)
| ORestart
| OReport                      (* the reporter runs (purge phase) *)
| ORequest (s : N) (k : N)     (* write ACL := [admin; k] on session s *)
| OSubscribe (s : N)
| ONewPase
(* a handshake caught in its last step: the reserved slot already carries its final mode
   [Case { fab_idx }], the handler waits for the peer's last message *)
| OEstablishBegin (r : N)      (* full CASE up to and including Sigma3: slot updated, record inserted;
                                  the acknowledgement of the final status report is outstanding *)
| OResumeBegin (k : N)         (* resumption up to Sigma2_Resume: slot updated; SigmaFinished outstanding *)
| OFinishFull (s : N)          (* the acknowledgement arrives: the handler releases slot s *)
| OFinishResume (s : N)        (* SigmaFinished arrives: slot s released, the record rotated *)
(* a subscription that gets into the table AFTER the removal broadcast of its fabric; each of
   these ends with the purge phase of the reporter, which the acceptance of a subscription wakes *)
| OSubscribeDue (s : N)        (* a SubscribeRequest (wildcard events: no access check) arrives on CASE
                                  session s when the fail-safe timer is due: [handle] runs the timeout
                                  check first (the expiry keeps s, expired, for the answer), then accepts
                                  the subscription on s *)
| OSubscribeRemove (s : N) (i : N).
                               (* RemoveFabric(i) is invoked on CASE session s while a subscription
                                  (as [OSubscribe]) is being primed on s; then the priming completes
                                  and the subscription is committed *)

Inductive status :=
| StOk | StGone | StAccess | StFsReq | StBusy | StFail | StConstraint | StMissingCsr
| StConflict | StTableFull | StNotFound | StNoSpace | StNoFabric | StNoRecord | StInvCmd.

(** ** Fabric table *)
Definition fget (i : N) (l : list fabric) : option fabric :=
  find (fun f => f_idx f =? i) l.
Definition fdel (i : N) (l : list fabric) : list fabric :=
  filter (fun f => negb (f_idx f =? i)) l.
Definition fset (f : fabric) (l : list fabric) : list fabric :=
  fdel (f_idx f) l ++ [f].

Definition fmax (l : list fabric) : N :=
  fold_right (fun f m => N.max (f_idx f) m) 0 l.

(** [Fabrics::add_with_post_init]: max + 1 while the maximum is below 254, else the first
    free index of 1..254 *)
Definition first_free (l : list fabric) : option N :=
  find (fun i => match fget i l with None => true | Some _ => false end)
       (map N.of_nat (seq 1 254)).

Definition next_idx (l : list fabric) : option N :=
  if fmax l <? 254 then Some (fmax l + 1) else first_free l.

(** ** Sessions *)
Definition sget (sid : N) (l : list session) : option session :=
  find (fun s => s_id s =? sid) l.

Definition usable (s : session) : bool := negb (s_exp s) && negb (s_res s).

Definition is_pase (s : session) : bool :=
  match s_mode s with MPase => true | _ => false end.

Definition set_exp (s : session) : session :=
  mkSess (s_id s) (s_mode s) (s_fab s) (s_node s) true (s_res s) (s_inc s).

Definition opt_is (k : option N) (x : N) : bool :=
  match k with Some y => y =? x | None => false end.

(** [Sessions::remove_for_fabric(i, keep)]: every session on fabric index i goes, except
    [keep]; then the session [keep] (whatever its fabric) is marked expired *)
Definition remove_for_fabric (i : N) (keep : option N) (l : list session) : list session :=
  map (fun s => if opt_is keep (s_id s) then set_exp s else s)
      (filter (fun s => negb (s_fab s =? i) || opt_is keep (s_id s)) l).

(** [Sessions::remove_pase(keep)]: every PASE session goes, except [keep], which is marked
    expired if it is a PASE session *)
Definition remove_pase (keep : option N) (l : list session) : list session :=
  map (fun s => if is_pase s && opt_is keep (s_id s) then set_exp s else s)
      (filter (fun s => negb (is_pase s) || opt_is keep (s_id s)) l).

(** the session a command can arrive on: present, not expired, not reserved, unicast *)
Definition sess_ctx (st : state) (sid : N) : option session :=
  match sget sid (st_sess st) with
  | Some s =>
    if usable s then match s_mode s with MGroup => None | _ => Some s end else None
  | None => None
  end.

(** Access control as far as the commands used here need it: all need Administer; PASE is
    granted implicitly; a CASE session needs the administrator's entry of an existing fabric. *)
Definition allowed (st : state) (s : session) : bool :=
  match s_mode s with
  | MPase => true
  | _ => match fget (s_fab s) (st_fabs st) with
         | Some _ => s_node s =? ADMIN
         | None => false
         end
  end.

(** Reading needs View only: the administrator, or the subject of the view entry that
    [ORequest] wrote last. *)
Definition can_view (st : state) (s : session) : bool :=
  match s_mode s with
  | MPase => true
  | _ => match fget (s_fab s) (st_fabs st) with
         | Some f => (s_node s =? ADMIN) || (s_node s =? f_acl f)
         | None => false
         end
  end.

(** ** Resumption cache *)
Definition same_peer (a b : rrec) : bool := (r_fab a =? r_fab b) && (r_node a =? r_node b).

(** [ResumableSessions::insert_or_update] *)
Definition rec_insert (r : rrec) (l : list rrec) : list rrec :=
  let l1 := filter (fun x => negb (same_peer x r)) l in
  let l2 := if Nat.leb MAX_RECORDS (length l1) then tl l1 else l1 in
  l2 ++ [r].

Definition recs_drop (i : N) (l : list rrec) : list rrec :=
  filter (fun x => negb (r_fab x =? i)) l.

Definition rget (k : N) (l : list rrec) : option rrec :=
  find (fun r => r_id r =? k) l.

Definition subs_drop (i : N) (l : list sub) : list sub :=
  filter (fun x => negb (u_fab x =? i)) l.

Definition has_fab (l : list fabric) (i : N) : bool :=
  match fget i l with Some _ => true | None => false end.

(** ** State updates *)
Definition set_fabs (st : state) (x : list fabric) : state :=
  mkState x (st_kvfabs st) (st_sess st) (st_recs st) (st_kvrecs st) (st_subs st)
          (st_fs st) (st_root st) (st_ninc st) (st_nsid st) (st_nrid st) (st_nsub st).
Definition set_kvfabs (st : state) (x : list fabric) : state :=
  mkState (st_fabs st) x (st_sess st) (st_recs st) (st_kvrecs st) (st_subs st)
          (st_fs st) (st_root st) (st_ninc st) (st_nsid st) (st_nrid st) (st_nsub st).
Definition set_sess (st : state) (x : list session) : state :=
  mkState (st_fabs st) (st_kvfabs st) x (st_recs st) (st_kvrecs st) (st_subs st)
          (st_fs st) (st_root st) (st_ninc st) (st_nsid st) (st_nrid st) (st_nsub st).
Definition set_recs (st : state) (x : list rrec) : state :=
  mkState (st_fabs st) (st_kvfabs st) (st_sess st) x (st_kvrecs st) (st_subs st)
          (st_fs st) (st_root st) (st_ninc st) (st_nsid st) (st_nrid st) (st_nsub st).
Definition set_kvrecs (st : state) (x : list rrec) : state :=
  mkState (st_fabs st) (st_kvfabs st) (st_sess st) (st_recs st) x (st_subs st)
          (st_fs st) (st_root st) (st_ninc st) (st_nsid st) (st_nrid st) (st_nsub st).
Definition set_subs (st : state) (x : list sub) : state :=
  mkState (st_fabs st) (st_kvfabs st) (st_sess st) (st_recs st) (st_kvrecs st) x
          (st_fs st) (st_root st) (st_ninc st) (st_nsid st) (st_nrid st) (st_nsub st).
Definition set_fs (st : state) (x : fs) : state :=
  mkState (st_fabs st) (st_kvfabs st) (st_sess st) (st_recs st) (st_kvrecs st) (st_subs st)
          x (st_root st) (st_ninc st) (st_nsid st) (st_nrid st) (st_nsub st).
Definition set_root (st : state) (x : N) : state :=
  mkState (st_fabs st) (st_kvfabs st) (st_sess st) (st_recs st) (st_kvrecs st) (st_subs st)
          (st_fs st) x (st_ninc st) (st_nsid st) (st_nrid st) (st_nsub st).

(** ** [notify_fabric_removed(i)] (repair acb0fc9): the records of the fabric go, the cache
    is stored at once, the subscriptions of the fabric go. *)
Definition drop_bound (fx : fixes) (i : N) (st : state) : state :=
  if fx_drop_bound fx then
    let recs := recs_drop i (st_recs st) in
    set_subs (set_kvrecs (set_recs st recs) recs) (subs_drop i (st_subs st))
  else st.

(** the triggering session is kept (expired) only if it is on the fabric being removed *)
Definition keep_if_on (i : N) (keep : option N) (l : list session) : option N :=
  match keep with
  | Some k =>
    match sget k l with
    | Some s => if s_fab s =? i then Some k else None
    | None => None
    end
  | None => None
  end.

(** ** [FailSafe::expire] followed by the caller's [notify_fabric_removed].
    [keep]: the session the triggering command arrived on.  The fabric of the context may be
    gone already ([RemoveFabric] by another administrator): the expiry goes ahead all the same
    (repair e10905a: it used to fail and leave the fail-safe armed for good). *)
Definition expire (fx : fixes) (st : state) (keep : option N) : state :=
  match st_fs st with
  | Idle => st
  | Armed f _ =>
    if f =? 0 then
      set_fs (set_sess st (remove_pase keep (st_sess st))) Idle
    else
      let l := fdel f (st_fabs st) in
      let s1 := remove_pase keep (st_sess st) in
      match fget f (st_kvfabs st) with
      | Some kf =>
        (* the fabric is resurrected from its persisted copy: not reported as removed *)
        set_fs (set_sess (set_fabs st (l ++ [kf])) s1) Idle
      | None =>
        let s2 := if fx_expire_sessions fx
                  then remove_for_fabric f (keep_if_on f keep s1) s1 else s1 in
        drop_bound fx f (set_fs (set_sess (set_fabs st l) s2) Idle)
      end
  end.

(** ** The credential commands (sub-steps of [OAddNoc] / [OUpdNoc]) *)
Definition any_csr (fl : flags) : bool := fl_add_csr fl || fl_upd_csr fl.

Definition do_csr (st : state) (s : session) (upd : bool) : state * status :=
  if negb (allowed st s) then (st, StAccess)
  else match st_fs st with
  | Idle => (st, StFsReq)
  | Armed f fl =>
    if negb (f =? s_fab s) then (st, StFail)
    else if upd && is_pase s then (st, StInvCmd)
    else if any_csr fl then (st, StConstraint)
    else
      let fl' := if upd
                 then mkFlags (fl_add_csr fl) true (fl_root fl) (fl_add_noc fl) (fl_upd_noc fl)
                 else mkFlags true (fl_upd_csr fl) (fl_root fl) (fl_add_noc fl) (fl_upd_noc fl) in
      (set_fs st (Armed f fl'), StOk)
  end.

Definition do_root (st : state) (s : session) (r : N) : state * status :=
  if negb (allowed st s) then (st, StAccess)
  else match st_fs st with
  | Idle => (st, StFsReq)
  | Armed f fl =>
    if negb (f =? s_fab s) then (st, StFail)
    else if fl_root fl then (st, StConstraint)
    else
      (set_root (set_fs st (Armed f (mkFlags (fl_add_csr fl) (fl_upd_csr fl) true
                                             (fl_add_noc fl) (fl_upd_noc fl)))) r, StOk)
  end.

Definition upgrade (sid idx inc : N) (l : list session) : list session :=
  map (fun s => if s_id s =? sid
                then mkSess (s_id s) (s_mode s) idx (s_node s) (s_exp s) (s_res s) inc
                else s) l.

Definition do_addnoc (fx : fixes) (st : state) (s : session) : state * status :=
  if negb (allowed st s) then (st, StAccess)
  else match st_fs st with
  | Idle => (st, StFsReq)
  | Armed f fl =>
    if negb (f =? s_fab s) then (st, StFail)
    else if negb (fl_root fl && fl_add_csr fl) then
      (st, if any_csr fl then StConstraint else StMissingCsr)
    else if fl_add_noc fl || fl_upd_csr fl || fl_upd_noc fl then (st, StConstraint)
    (* same fabric id and root public key as an existing fabric *)
    else if existsb (fun g => f_root g =? st_root st) (st_fabs st) then (st, StConflict)
    else match next_idx (st_fabs st) with
    | None => (st, StTableFull)
    | Some idx =>
      if Nat.leb MAX_FABRICS (length (st_fabs st)) then (st, StTableFull)
      else
        let fl' := mkFlags (fl_add_csr fl) (fl_upd_csr fl) (fl_root fl) true (fl_upd_noc fl) in
        let inc := st_ninc st in
        let nf := mkFabric idx inc (st_root st) 0 in
        let added :=
          mkState (st_fabs st ++ [nf]) (st_kvfabs st) (st_sess st) (st_recs st) (st_kvrecs st)
                  (st_subs st) (Armed idx fl') (st_root st) (inc + 1) (st_nsid st)
                  (st_nrid st) (st_nsub st) in
        if is_pase s then
          if s_fab s =? 0 then
            (* [upgrade_fabric_idx]: only a PASE session still on fabric 0 *)
            (set_sess added (upgrade (s_id s) idx inc (st_sess st)), StOk)
          else
            (* the scope guard removes the fabric again (and broadcasts its removal);
               flags and context stay *)
            (drop_bound fx idx (set_fs st (Armed idx fl')), StFail)
        else (added, StOk)
    end
  end.

Definition do_updnoc (st : state) (s : session) : state * status :=
  if s_fab s =? 0 then (st, StAccess)                 (* fabric-scoped command *)
  else if negb (allowed st s) then (st, StAccess)
  else match st_fs st with
  | Idle => (st, StFsReq)
  | Armed f fl =>
    if negb (f =? s_fab s) then (st, StFail)
    else if is_pase s then (st, StFail)               (* UpdateNOC needs a CASE session *)
    else if negb (fl_upd_csr fl) then
      (st, if any_csr fl then StConstraint else StMissingCsr)
    else if fl_root fl || fl_add_noc fl || fl_add_csr fl || fl_upd_noc fl then (st, StConstraint)
    else match fget (s_fab s) (st_fabs st) with
    | None => (st, StNotFound)
    | Some _ =>
      (* new NOC and key for the same fabric: same index, same incarnation *)
      (set_fs st (Armed f (mkFlags (fl_add_csr fl) (fl_upd_csr fl) (fl_root fl)
                                   (fl_add_noc fl) true)), StOk)
    end
  end.

(** ** Session establishment *)
Definition new_session (st : state) (m : smode) (fab node inc : N) : state :=
  mkState (st_fabs st) (st_kvfabs st)
          (st_sess st ++ [mkSess (st_nsid st) m fab node false false inc])
          (st_recs st) (st_kvrecs st) (st_subs st) (st_fs st) (st_root st)
          (st_ninc st) (st_nsid st + 1) (st_nrid st) (st_nsub st).

Definition new_record (st : state) (fab node inc : N) : state :=
  mkState (st_fabs st) (st_kvfabs st) (st_sess st)
          (rec_insert (mkRec (st_nrid st) fab node inc) (st_recs st))
          (st_kvrecs st) (st_subs st) (st_fs st) (st_root st)
          (st_ninc st) (st_nsid st) (st_nrid st + 1) (st_nsub st).

(** a slot reserved by a handshake, already switched to its final mode *)
Definition new_reserved (st : state) (fab node inc : N) : state :=
  mkState (st_fabs st) (st_kvfabs st)
          (st_sess st ++ [mkSess (st_nsid st) MCase fab node false true inc])
          (st_recs st) (st_kvrecs st) (st_subs st) (st_fs st) (st_root st)
          (st_ninc st) (st_nsid st + 1) (st_nrid st) (st_nsub st).

(** [ReservedSession::drop] of a completed handshake: the slot, if it is still there, goes live *)
Definition release (sid : N) (l : list session) : list session :=
  map (fun s => if s_id s =? sid
                then mkSess (s_id s) (s_mode s) (s_fab s) (s_node s) (s_exp s) false (s_inc s)
                else s) l.

Definition table_full (st : state) : bool := Nat.leb MAX_SESSIONS (length (st_sess st)).

(** Sigma3 accepted on fabric [f] for peer [node]: the session and the resumption record *)
Definition establish (st : state) (f : fabric) (node : N) : state * status :=
  if table_full st then (st, StNoSpace)
  else (new_record (new_session st MCase (f_idx f) node (f_inc f)) (f_idx f) node (f_inc f), StOk).

(** ** Boot: RAM := load(KV); sessions and fail-safe are gone *)
Definition boot (fx : fixes) (st : state) : state :=
  let fabs := st_kvfabs st in
  let recs := if fx_startup_recs fx
              then filter (fun r => has_fab fabs (r_fab r)) (st_kvrecs st) else st_kvrecs st in
  let subs := if fx_startup_subs fx
              then filter (fun u => has_fab fabs (u_fab u)) (st_subs st) else st_subs st in
  mkState fabs fabs [] recs recs subs Idle (st_root st)
          (st_ninc st) (st_nsid st) (st_nrid st) (st_nsub st).

(** ** [RemoveFabric(i)] arriving on session [s] (after the session lookup) *)
Definition remove_fabric (fx : fixes) (st : state) (s : session) (i : N) : state * status :=
  (* not a fabric-scoped command: a PASE session may remove a fabric, too *)
  if negb (allowed st s) then (st, StAccess)
  else if i =? 0 then (st, StConstraint)
  else match fget i (st_fabs st) with
  | None => (st, StNotFound)
  | Some _ =>
    let keep := if s_fab s =? i then Some (s_id s) else None in
    let st1 :=
      mkState (fdel i (st_fabs st)) (fdel i (st_kvfabs st))
              (remove_for_fabric i keep (st_sess st))
              (recs_drop i (st_recs st)) (st_kvrecs st) (st_subs st)
              (st_fs st) (st_root st) (st_ninc st) (st_nsid st) (st_nrid st) (st_nsub st) in
    (drop_bound fx i st1, StOk)
  end.

(** the purge phase of the reporter: subscriptions whose fabric index is not in the table go *)
Definition purge (st : state) : state :=
  set_subs st (filter (fun u => has_fab (st_fabs st) (u_fab u)) (st_subs st)).

(** a subscription is committed for the session named [sid] as it is now in the table
    (whatever its flags: the exchange it arrived on was accepted earlier), then the reporter,
    woken by the acceptance, purges *)
Definition commit_sub (st : state) (sid : N) : state :=
  match sget sid (st_sess st) with
  | None => st
  | Some s =>
    if Nat.leb MAX_SUBS (length (st_subs st)) then st
    else
      purge (mkState (st_fabs st) (st_kvfabs st) (st_sess st) (st_recs st) (st_kvrecs st)
                     (st_subs st ++ [mkSub (st_nsub st) (s_fab s) (s_node s) (s_inc s)])
                     (st_fs st) (st_root st) (st_ninc st) (st_nsid st) (st_nrid st)
                     (st_nsub st + 1))
  end.

Definition is_case (s : session) : bool :=
  match s_mode s with MCase => true | _ => false end.

(** ** One operation *)
Definition step_fx (fx : fixes) (st : state) (o : op) : state * status :=
  match o with
  | OArm sid =>
    match sess_ctx st sid with
    | None => (st, StGone)
    | Some s =>
      if negb (allowed st s) then (st, StAccess)
      else match st_fs st with
      | Idle => (set_fs st (Armed (s_fab s) fl_empty), StOk)
      | Armed f _ => if f =? s_fab s then (st, StOk) else (st, StBusy)
      end
    end
  | OAddNoc sid r =>
    match sess_ctx st sid with
    | None => (st, StGone)
    | Some s =>
      let st1 := fst (do_csr st s false) in
      let st2 := fst (do_root st1 s r) in
      do_addnoc fx st2 s
    end
  | OUpdNoc sid =>
    match sess_ctx st sid with
    | None => (st, StGone)
    | Some s =>
      let st1 := fst (do_csr st s true) in
      do_updnoc st1 s
    end
  | OComplete sid =>
    match sess_ctx st sid with
    | None => (st, StGone)
    | Some s =>
      if s_fab s =? 0 then (st, StAccess)             (* fabric-scoped command *)
      else if negb (allowed st s) then (st, StAccess)
      else match st_fs st with
      | Idle => (st, StFsReq)
      | Armed f _ =>
        if negb (f =? s_fab s) then (st, StFail)
        else if is_pase s then (st, StFail)           (* check_disarm: has to be a CASE session *)
        else match fget (s_fab s) (st_fabs st) with
        | None => (st, StNotFound)
        | Some fb =>
          (set_fs (set_sess (set_kvfabs st (fset fb (st_kvfabs st)))
                            (remove_pase None (st_sess st))) Idle, StOk)
        end
      end
    end
  | ORemove sid i =>
    match sess_ctx st sid with
    | None => (st, StGone)
    | Some s => remove_fabric fx st s i
    end
  | OTimeout => (expire fx st None, StOk)
  | OArm0 sid =>
    match sess_ctx st sid with
    | None => (st, StGone)
    | Some s =>
      if negb (allowed st s) then (st, StAccess)
      else (expire fx st (Some (s_id s)), StOk)
    end
  | ORevoke sid =>
    match sess_ctx st sid with
    | None => (st, StGone)
    | Some s =>
      if negb (allowed st s) then (st, StAccess)
      else (expire fx st (Some (s_id s)), StOk)
    end
  | OEstablish r =>
    match find (fun f => f_root f =? r) (st_fabs st) with
    | None => (st, StNoFabric)
    | Some f => establish st f ADMIN
    end
  | OPeer i node =>
    match fget i (st_fabs st) with
    | None => (st, StNoFabric)
    | Some f => establish st f node
    end
  | OGroup i =>
    match fget i (st_fabs st) with
    | None => (st, StNoFabric)
    | Some f =>
      if table_full st then (st, StNoSpace)
      else (new_session st MGroup (f_idx f) 0 (f_inc f), StOk)
    end
  | OResume k =>
    match rget k (st_recs st) with
    | None => (st, StNoRecord)
    | Some r =>
      (* [fabrics.get(record.fab_idx)] must merely exist *)
      match fget (r_fab r) (st_fabs st) with
      | None => (st, StNoFabric)
      | Some _ =>
        if table_full st then (st, StNoSpace)
        else (new_record (new_session st MCase (r_fab r) (r_node r) (r_inc r))
                         (r_fab r) (r_node r) (r_inc r), StOk)
      end
    end
  | OPersist => (set_kvrecs st (st_recs st), StOk)
  | ORestart => (boot fx st, StOk)
  | OReport => (purge st, StOk)
  | ORequest sid k =>
    match sess_ctx st sid with
    | None => (st, StGone)
    | Some s =>
      if s_fab s =? 0 then (st, StAccess)             (* fabric-scoped attribute *)
      else if negb (allowed st s) then (st, StAccess)
      else match fget (s_fab s) (st_fabs st) with
      | None => (st, StNotFound)
      | Some fb =>
        let nf := mkFabric (f_idx fb) (f_inc fb) (f_root fb) k in
        let st1 := set_fabs st (fset nf (st_fabs st)) in
        let armed_for := match st_fs st with Armed f _ => f =? s_fab s | Idle => false end in
        if armed_for then (st1, StOk)
        else (set_kvfabs st1 (fset nf (st_kvfabs st)), StOk)
      end
    end
  | OSubscribe sid =>
    match sess_ctx st sid with
    | None => (st, StGone)
    | Some s =>
      if s_fab s =? 0 then (st, StFail)
      else if negb (can_view st s) then (st, StFail)
      else if Nat.leb MAX_SUBS (length (st_subs st)) then (st, StFail)
      else
        (mkState (st_fabs st) (st_kvfabs st) (st_sess st) (st_recs st) (st_kvrecs st)
                 (st_subs st ++ [mkSub (st_nsub st) (s_fab s) (s_node s) (s_inc s)])
                 (st_fs st) (st_root st) (st_ninc st) (st_nsid st) (st_nrid st)
                 (st_nsub st + 1), StOk)
    end
  | ONewPase =>
    if table_full st then (st, StNoSpace)
    else (new_session st MPase 0 ADMIN 0, StOk)
  | OEstablishBegin r =>
    match find (fun f => f_root f =? r) (st_fabs st) with
    | None => (st, StNoFabric)
    | Some f =>
      if table_full st then (st, StNoSpace)
      else (new_record (new_reserved st (f_idx f) ADMIN (f_inc f)) (f_idx f) ADMIN (f_inc f), StOk)
    end
  | OResumeBegin k =>
    match rget k (st_recs st) with
    | None => (st, StNoRecord)
    | Some r =>
      match fget (r_fab r) (st_fabs st) with
      | None => (st, StNoFabric)
      | Some _ =>
        if table_full st then (st, StNoSpace)
        else (new_reserved st (r_fab r) (r_node r) (r_inc r), StOk)
      end
    end
  | OFinishFull sid =>
    (* the slot is gone if its fabric was removed meanwhile ([remove_for_fabric] does not
       spare reserved slots): nothing is left to release *)
    match sget sid (st_sess st) with
    | None => (st, StGone)
    | Some s =>
      if s_res s then (set_sess st (release sid (st_sess st)), StOk) else (st, StFail)
    end
  | OFinishResume sid =>
    (* repaired: the rotated record is inserted only if the slot is still in the table *)
    match sget sid (st_sess st) with
    | None => (st, StGone)
    | Some s =>
      if s_res s
      then (new_record (set_sess st (release sid (st_sess st))) (s_fab s) (s_node s) (s_inc s), StOk)
      else (st, StFail)
    end
  | OSubscribeDue sid =>
    match sess_ctx st sid with
    | None => (st, StGone)
    | Some s =>
      if negb (is_case s) then (st, StFail)
      else (commit_sub (expire fx st (Some (s_id s))) sid, StOk)
    end
  | OSubscribeRemove sid i =>
    match sess_ctx st sid with
    | None => (st, StGone)
    | Some s =>
      if negb (is_case s) then (st, StFail)
      else if negb (can_view st s) then (st, StFail)
      else
        let '(st1, r) := remove_fabric fx st s i in
        (commit_sub st1 sid, r)
    end
  end.

Definition step := step_fx repaired.

Fixpoint run_fx (fx : fixes) (st : state) (l : list op) : state * list (status * state) :=
  match l with
  | [] => (st, [])
  | o :: r =>
    let '(st1, r1) := step_fx fx st o in
    let '(st2, tr) := run_fx fx st1 r in
    (st2, (r1, st1) :: tr)
  end.

Definition run := run_fx repaired.

Fixpoint exec_fx (fx : fixes) (st : state) (l : list op) : state :=
  match l with
  | [] => st
  | o :: r => exec_fx fx (fst (step_fx fx st o)) r
  end.

Definition exec := exec_fx repaired.

(** ** Initial states used by the correspondence cases.
    [kind]: which fabrics are commissioned (index : root, incarnation = position):
      1: {1:0}   2: {1:0, 2:1}   3: {1:0, 254:1}   4: {2:0, 253:1}
    [pase]: a PASE session (ghost name 1).  The administrator has a CASE session on every
    commissioned fabric (ghost names 2, 3). *)
Definition init_fabs (kind : N) : list fabric :=
  if kind =? 1 then [mkFabric 1 1 0 0]
  else if kind =? 3 then [mkFabric 1 1 0 0; mkFabric 254 2 1 0]
  else if kind =? 4 then [mkFabric 2 1 0 0; mkFabric 253 2 1 0]
  else [mkFabric 1 1 0 0; mkFabric 2 2 1 0].

Definition init_state (kind : N) (pase : bool) : state :=
  let fabs := init_fabs kind in
  let cs := map (fun f => mkSess (f_inc f + 1) MCase (f_idx f) ADMIN false false (f_inc f)) fabs in
  let ps := if pase then [mkSess 1 MPase 0 ADMIN false false 0] else [] in
  mkState fabs fabs (ps ++ cs) [] [] [] Idle 0
          (N.of_nat (length fabs) + 1) (N.of_nat (length fabs) + 2) 1 1.

Definition max_fabrics_n : N := N.of_nat MAX_FABRICS.
Definition max_sessions_n : N := N.of_nat MAX_SESSIONS.
Definition max_records_n : N := N.of_nat MAX_RECORDS.
Definition max_subs_n : N := N.of_nat MAX_SUBS.
