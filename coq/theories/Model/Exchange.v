(** Model of exchange routing and the single receive slot of
    rs-matter/src/transport.rs (process_rx / handle_rx_packet, the three
    sweepers, handle_dropped_exchange), transport/session.rs (post_recv,
    get_exch_for_rx, add_exch, remove_exch) and transport/exchange.rs (Role,
    ExchangeState::is_for_rx, ExchangeId::recv, accept_if, Exchange::drop).
    No proofs in this file.

    Every region of code that runs between two [.await] points under
    [Matter::with_state] is one atomic step; the scheduler (executor + peers +
    application handlers) is an adversary that picks the next label. *)
From RsM Require Export Lib.MachInt Model.Dedup Model.Mrp.
Open Scope N_scope.

(** * Constants *)

Definition MAX_EXCHANGES : nat := 5.          (* session.rs: default feature set *)
Definition ACCEPT_TIMEOUT_MS : N := 1000.     (* transport.rs:101 *)

Definition ERR_NO_EXCHANGE : N := 3.
Definition ERR_NO_SESSION : N := 4.
Definition ERR_NO_SPACE_EXCHANGES : N := 5.
(* ERR_DUPLICATE = 2 comes from Model/Mrp.v *)

(** * Exchange slots (exchange.rs: Role, ExchangeState) *)

Inductive role := InitOwned | InitDropped | RespPending | RespOwned | RespDropped.

Definition is_responder (r : role) : bool :=
  match r with RespPending | RespOwned | RespDropped => true | _ => false end.
Definition is_dropped (r : role) : bool :=
  match r with InitDropped | RespDropped => true | _ => false end.
Definition is_owned (r : role) : bool :=
  match r with InitOwned | RespOwned => true | _ => false end.
Definition is_pending (r : role) : bool :=
  match r with RespPending => true | _ => false end.
(** [Role::set_dropped_state] *)
Definition set_dropped (r : role) : role :=
  if is_responder r then RespDropped else InitDropped.

(** [e_rat] is [mrp.received_at] (meaningful when [rm_received]) *)
Record exch := mkExch { e_id : N; e_role : role; e_mrp : rm; e_rat : N }.

Definition retrans_pending (e : exch) : bool :=
  match rm_retr (e_mrp e) with Some _ => true | None => false end.
Definition ack_pending (e : exch) : bool :=
  match rm_ack (e_mrp e) with Some a => negb (a_acked a) | None => false end.

(** * Received message headers

    [m_key] abstracts everything [Session::is_for_rx] compares (peer address,
    local session id, encrypted flag, node ids): two headers select the same
    session iff their keys are equal. *)

Inductive opclass :=
| OpOrdinary        (* any opcode that may start an exchange on an existing session *)
| OpNewSession      (* PBKDFParamRequest / CASESigma1 *)
| OpStandaloneAck   (* SC MRPStandAloneAck *)
| OpScStatus        (* SC StatusReport other than CloseSession *)
| OpScClose.        (* SC StatusReport(CloseSession) *)

Record msg := mkMsg {
  m_key : N; m_enc : bool;
  m_group : bool;   (* the group flag of the plain header *)
  m_ctl : bool;     (* the control flag of the plain header (group control messages, MCSP) *)
  m_ctr : N; m_exid : N; m_init : bool;
  m_op : opclass; m_rel : bool; m_ack : option N }.

(** what is left of a received group data message: R and A flags are not honoured *)
Definition strip_mrp (m : msg) : msg :=
  mkMsg (m_key m) (m_enc m) (m_group m) (m_ctl m) (m_ctr m) (m_exid m) (m_init m) (m_op m) false None.

Definition is_standalone_ack (o : opclass) : bool :=
  match o with OpStandaloneAck => true | _ => false end.
Definition is_sc_status (o : opclass) : bool :=
  match o with OpScStatus | OpScClose => true | _ => false end.
Definition is_new_session (o : opclass) : bool :=
  match o with OpNewSession => true | _ => false end.
Definition is_close (o : opclass) : bool :=
  match o with OpScClose => true | _ => false end.
(** [MessageMeta::is_new_exchange] *)
Definition is_new_exchange (o : opclass) : bool :=
  negb (is_standalone_ack o) && negb (is_sc_status o).

(** * Sessions *)

Record session := mkSess {
  s_id : N;            (* unique id (ExchangeId carries it) *)
  s_key : N;           (* what is_for_rx matches *)
  s_enc : bool;
  s_group : bool;      (* ephemeral RX group session (SessionMode::Group, unicast peer) *)
  s_expired : bool;
  s_win : rx;          (* receive window (C04) *)
  s_exchs : list (option exch) }.

Definition set_win (s : session) (w : rx) : session :=
  mkSess (s_id s) (s_key s) (s_enc s) (s_group s) (s_expired s) w (s_exchs s).
Definition set_exchs (s : session) (l : list (option exch)) : session :=
  mkSess (s_id s) (s_key s) (s_enc s) (s_group s) (s_expired s) (s_win s) l.
Definition set_expired (s : session) : session :=
  mkSess (s_id s) (s_key s) (s_enc s) (s_group s) true (s_win s) (s_exchs s).

(** ** list helpers *)

Fixpoint find_index {A} (p : A -> bool) (l : list A) : option nat :=
  match l with
  | [] => None
  | x :: t => if p x then Some O else option_map S (find_index p t)
  end.

Fixpoint set_nth {A} (l : list A) (i : nat) (x : A) : list A :=
  match l, i with
  | [], _ => []
  | _ :: t, O => x :: t
  | y :: t, S k => y :: set_nth t k x
  end.

(** [Vec::swap_remove]: the last element takes the place of the removed one *)
Definition swap_remove {A} (l : list A) (i : nat) : list A :=
  match rev l with
  | [] => []
  | last :: rinit =>
      let init := rev rinit in
      if (i =? length init)%nat then init
      else if (i <? length init)%nat then set_nth init i last
      else l
  end.

(** [ExchangeState::is_for_rx] *)
Definition exch_is_for_rx (e : exch) (m : msg) : bool :=
  (e_id e =? m_exid m) && Bool.eqb (m_init m) (is_responder (e_role e)).

Definition slot_is_for_rx (m : msg) (o : option exch) : bool :=
  match o with Some e => exch_is_for_rx e m | None => false end.

(** [Session::get_exch_for_rx]: first matching slot *)
Definition find_exch (l : list (option exch)) (m : msg) : option (nat * exch) :=
  match find_index (slot_is_for_rx m) l with
  | Some i => match nth_error l i with Some (Some e) => Some (i, e) | _ => None end
  | None => None
  end.

Definition is_none {A} (o : option A) : bool :=
  match o with None => true | Some _ => false end.

(** [Session::add_exch]: push while the vector is not full, else first free slot *)
Definition add_exch (l : list (option exch)) (e : exch) : option (list (option exch) * nat) :=
  if (length l <? MAX_EXCHANGES)%nat then Some (l ++ [Some e], length l)
  else match find_index is_none l with
       | Some i => Some (set_nth l i (Some e), i)
       | None => None
       end.

(** [ExchangeState::post_recv] = [ReliableMessage::post_recv] + received_at *)
Definition exch_post_recv (e : exch) (m : msg) (now : N) : exch * res unit :=
  let '(r', res) := rm_post_recv (e_mrp e) (m_ctr m) (m_ack m) (m_rel m) in
  match res with
  | Ok _ => (mkExch (e_id e) (e_role e) r' now, Ok tt)
  | Err c => (e, Err c)
  | Panic p => (e, Panic p)
  end.

(** [Session::post_recv] (session.rs:628).  [Ok true] = a new exchange was
    created, [Ok false] = routed to an existing one. *)
Definition session_post_recv_raw (s : session) (m : msg) (now : N) : session * res bool :=
  let '(w', fresh) := post_recv (s_win s) (m_ctr m) (s_enc s) false in
  let s1 := set_win s w' in
  if negb fresh then (s1, Err ERR_DUPLICATE) else
  match find_exch (s_exchs s) m with
  | Some (i, e) =>
      let '(e', r) := exch_post_recv e m now in
      match r with
      | Ok _ => (set_exchs s1 (set_nth (s_exchs s) i (Some e')), Ok false)
      | Err c => (s1, Err c)
      | Panic p => (s1, Panic p)
      end
  | None =>
      if negb (m_init m) || negb (is_new_exchange (m_op m)) then (s1, Err ERR_NO_EXCHANGE)
      else if s_expired s then (s1, Err ERR_NO_SESSION)
      else
        let e0 := mkExch (m_exid m) RespPending rm_new 0 in
        match add_exch (s_exchs s) e0 with
        | Some (l', i) =>
            let '(e', r) := exch_post_recv e0 m now in
            match r with
            | Ok _ => (set_exchs s1 (set_nth l' i (Some e')), Ok true)
            | Err c => (set_exchs s1 l', Err c)
            | Panic p => (set_exchs s1 l', Panic p)
            end
        | None => (s1, Err ERR_NO_SPACE_EXCHANGES)
        end
  end.

(** group data messages never use MRP: on a session in group mode the R and A flags
    of anything but a control message are not honoured *)
Definition effective (s : session) (m : msg) : msg :=
  if s_group s && negb (m_ctl m) then strip_mrp m else m.

Definition session_post_recv (s : session) (m : msg) (now : N) : session * res bool :=
  session_post_recv_raw s (effective s m) now.

(** [Session::remove_exch] applied to slot [i] holding [e] *)
Definition remove_exch (l : list (option exch)) (i : nat) (e : exch) : list (option exch) :=
  if retrans_pending e || ack_pending e then
    set_nth l i (Some (mkExch (e_id e) (set_dropped (e_role e)) (e_mrp e) (e_rat e)))
  else set_nth l i None.

(** * The transport: session table, RX slot, live [Exchange] objects *)

Inductive rxslot :=
| RxEmpty
| RxHolding (m : msg)                          (* unlocked, buffer non-empty *)
| RxTaken (m : msg) (sid : N) (idx : nat).     (* locked by the RxMessage of an Exchange *)

Record sys := mkSys {
  sessions : list session;
  rx : rxslot;
  handles : list (N * nat);   (* live Exchange objects = ExchangeId (session id, index) *)
  now : N;
  next_sid : N }.

Definition sys_init (t0 : N) : sys := mkSys [] RxEmpty [] t0 0.

Definition find_key (ss : list session) (k : N) : option session :=
  find (fun s => s_key s =? k) ss.
Definition find_sid (ss : list session) (i : N) : option session :=
  find (fun s => s_id s =? i) ss.
Definition upd_sid (ss : list session) (i : N) (f : session -> session) : list session :=
  map (fun s => if s_id s =? i then f s else s) ss.
(** [Sessions::remove] *)
Definition remove_sid (ss : list session) (i : N) : list session :=
  match find_index (fun s => s_id s =? i) ss with
  | Some k => swap_remove ss k
  | None => ss
  end.

Definition set_slot (ss : list session) (sid : N) (i : nat) (o : option exch) : list session :=
  upd_sid ss sid (fun s => set_exchs s (set_nth (s_exchs s) i o)).

Definition has_handle (s : sys) (sid : N) (idx : nat) : bool :=
  existsb (fun h => (fst h =? sid) && (snd h =? idx)%nat) (handles s).
Definition del_handle (l : list (N * nat)) (sid : N) (idx : nat) : list (N * nat) :=
  filter (fun h => negb ((fst h =? sid) && (snd h =? idx)%nat)) l.

Definition release_rx (r : rxslot) (sid : N) (idx : nat) : rxslot :=
  match r with
  | RxTaken _ sid' idx' => if (sid' =? sid) && (idx' =? idx)%nat then RxEmpty else r
  | _ => r
  end.

Inductive label :=
| LRx (m : msg)                         (* process_rx: one datagram through handle_rx_packet *)
| LAccept                               (* a responder's accept_if takes the pending exchange *)
| LRecv (sid : N) (idx : nat)           (* ExchangeId::recv obtains the RX slot *)
| LRxDone (sid : N) (idx : nat)         (* the RxMessage is dropped *)
| LDropExch (sid : N) (idx : nat)       (* Exchange::drop *)
| LSend (sid : N) (idx : nat) (ctr : N) (rel : bool)   (* a (re)transmission passes pre_send *)
| LInitiate (sid : N) (exid : N)        (* Exchange::initiate_for_session *)
| LSweepAccept                          (* handle_accept_timeout_rx_packet fires *)
| LSweepOrphan                          (* handle_orphaned_rx_packet fires *)
| LCloseDropped                         (* handle_dropped_exchange closes one exchange *)
| LAddSession (key : N) (enc grp : bool)   (* a session gets established *)
| LRemoveSession (sid : N)              (* eviction / close / fabric removal *)
| LExpireSession (sid : N)
| LTick (d : N).

Inductive event :=
| EvKeep (m : msg)                              (* left in the RX slot for its exchange *)
| EvDupAck (key ctr : N)                        (* duplicate => standalone ACK *)
| EvSessionNotFound (m : msg)                   (* unsecured SessionNotFound status *)
| EvNoSpaceClose (sid : N)                      (* NoSpaceExchanges => CloseSession, session removed *)
| EvPeerClosed (sid : N)                        (* CloseSession received on a known exchange *)
| EvAccept (sid : N) (idx : nat) (m : msg)
| EvDeliver (sid : N) (idx : nat) (m : msg)     (* recv returns the message to this Exchange *)
| EvSwallow (sid : N) (idx : nat) (m : msg)     (* (unrepaired code only) recv of a dangling Exchange discards it *)
| EvAcceptTimeout (sid : N) (idx : nat) (m : msg)
| EvOrphan (m : msg)
| EvStandaloneAck (sid : N) (idx : nat) (ctr : N)   (* closer acknowledges for a dropped exchange *)
| EvCloseSession (sid : N) (idx : nat).             (* closer closes the session of a dropped exchange *)

(** the exchange a held message belongs to: [get_for_rx] then [get_exch_for_rx] *)
Definition owner_of (ss : list session) (m : msg) : option (session * nat * exch) :=
  match find_key ss (m_key m) with
  | Some se =>
      match find_exch (s_exchs se) m with
      | Some (i, e) => Some (se, i, e)
      | None => None
      end
  | None => None
  end.

(** ** process_rx / decode_packet / handle_rx_packet *)

Definition new_session (sid key : N) (enc grp : bool) : session :=
  mkSess sid key enc grp false rx_unsynced [].

(** an ephemeral RX group session goes with its last exchange
    ([Exchange::drop], [handle_dropped_exchange]) *)
Definition group_gc (ss : list session) (sid : N) : list session :=
  match find_sid ss sid with
  | Some se => if s_group se && forallb is_none (s_exchs se) then remove_sid ss sid else ss
  | None => ss
  end.

Definition do_rx_core (s : sys) (m : msg) : sys * list event :=
  (* decode_packet: session lookup (or creation), then Session::post_recv *)
  let '(ss1, nsid, dec) :=
    match find_key (sessions s) (m_key m) with
    | Some se =>
        let '(se', r) := session_post_recv se m (now s) in
        (upd_sid (sessions s) (s_id se) (fun _ => se'), next_sid s, Some (s_id se, r))
    | None =>
        if negb (m_enc m) && is_new_session (m_op m) then
          let '(se', r) := session_post_recv (new_session (next_sid s) (m_key m) false false) m (now s) in
          (sessions s ++ [se'], next_sid s + 1, Some (next_sid s, r))
        else if m_enc m && m_group m then
          (* get_or_create_for_group_rx: one ephemeral session per authenticated group message
             (key lookup, authentication and the group counter store are C03 / C04) *)
          let '(se', r) := session_post_recv (new_session (next_sid s) (m_key m) true true) m (now s) in
          (sessions s ++ [se'], next_sid s + 1, Some (next_sid s, r))
        else (sessions s, next_sid s, None)
    end in
  let mk ss r := mkSys ss r (handles s) (now s) nsid in
  match dec with
  | None => (mk ss1 RxEmpty, [EvSessionNotFound m])
  | Some (sid, r) =>
      match r with
      | Ok _ =>
          if is_standalone_ack (m_op m) then (mk ss1 RxEmpty, [])
          else match m_op m with
               | OpScClose => (mk (remove_sid ss1 sid) RxEmpty, [EvPeerClosed sid])
               | _ => (mk ss1 (RxHolding m), [EvKeep m])
               end
      | Err c =>
          if c =? ERR_DUPLICATE then
            (mk ss1 RxEmpty, if m_group m || is_standalone_ack (m_op m) then [] else [EvDupAck (m_key m) (m_ctr m)])
          else if c =? ERR_NO_SPACE_EXCHANGES then
            (mk (remove_sid ss1 sid) RxEmpty, [EvNoSpaceClose sid])
          else if c =? ERR_NO_SESSION then (mk ss1 RxEmpty, [EvSessionNotFound m])
          else if (c =? ERR_NO_EXCHANGE) && is_close (m_op m) then
            (* a peer's CloseSession comes on an exchange of its own *)
            (mk (remove_sid ss1 sid) RxEmpty, [EvPeerClosed sid])
          else (mk ss1 RxEmpty, [])     (* NoExchange and anything else: dropped *)
      | Panic _ => (mk ss1 RxEmpty, [])
      end
  end.

(** the session a datagram is (or would be) processed on *)
Definition rx_sid (s : sys) (m : msg) : option N :=
  match find_key (sessions s) (m_key m) with
  | Some se => Some (s_id se)
  | None =>
      if (negb (m_enc m) && is_new_session (m_op m)) || (m_enc m && m_group m) then Some (next_sid s) else None
  end.

Definition is_holding (r : rxslot) : bool := match r with RxHolding _ => true | _ => false end.

(** [handle_rx_packet] to its end: the ephemeral session of a group message that is
    not kept for an exchange, and has none, is removed again *)
Definition do_rx (s : sys) (m : msg) : sys * list event :=
  let '(s1, ev) := do_rx_core s m in
  match rx_sid s m with
  | Some sid =>
      if m_group m && negb (is_holding (rx s1)) then
        (mkSys (group_gc (sessions s1) sid) (rx s1) (handles s1) (now s1) (next_sid s1), ev)
      else (s1, ev)
  | None => (s1, ev)
  end.

(** ** handle_dropped_exchange: first dropped exchange with a pending
    retransmission, else first dropped exchange (sessions in table order) *)

Fixpoint find_dropped (p : exch -> bool) (ss : list session) : option (N * nat * exch) :=
  match ss with
  | [] => None
  | se :: t =>
      match find_index (fun o => match o with Some e => is_dropped (e_role e) && p e | None => false end)
                       (s_exchs se) with
      | Some i =>
          match nth_error (s_exchs se) i with
          | Some (Some e) => Some (s_id se, i, e)
          | _ => find_dropped p t
          end
      | None => find_dropped p t
      end
  end.

Definition is_group_sid (ss : list session) (sid : N) : bool :=
  match find_sid ss sid with Some se => s_group se | None => false end.

Definition pick_dropped (ss : list session) : option (N * nat * exch) :=
  match find_dropped retrans_pending ss with
  | Some x => Some x
  | None => find_dropped (fun e => negb (retrans_pending e)) ss
  end.

Definition gave_up {A} (r : res A) : bool :=
  match r with Err c => c =? ERR_TX_TIMEOUT | _ => false end.

(** * The step function.  [None] = the label is not enabled.

    [bug = true] is the code before the repair recorded in design.d/C10.md:
    [ExchangeId::recv] of an Exchange whose session is gone takes whatever the
    RX slot holds and clears it. *)
Definition step (bug : bool) (s : sys) (l : label) : option (sys * list event) :=
  match l with
  | LRx m =>
      match rx s with
      | RxEmpty => Some (do_rx s m)
      | _ => None
      end
  | LAccept =>
      match rx s with
      | RxHolding m =>
          match owner_of (sessions s) m with
          | Some (se, i, e) =>
              if is_pending (e_role e) then
                Some (mkSys (set_slot (sessions s) (s_id se) i
                               (Some (mkExch (e_id e) RespOwned (e_mrp e) (e_rat e))))
                            (rx s) ((s_id se, i) :: handles s) (now s) (next_sid s),
                      [EvAccept (s_id se) i m])
              else None
          | None => None
          end
      | _ => None
      end
  | LRecv sid idx =>
      if has_handle s sid idx then
        match rx s with
        | RxHolding m =>
            match find_sid (sessions s) sid with
            | None =>
                if bug then
                  Some (mkSys (sessions s) RxEmpty (handles s) (now s) (next_sid s), [EvSwallow sid idx m])
                else None
            | Some se =>
                if s_key se =? m_key m then
                  match nth_error (s_exchs se) idx with
                  | Some (Some e) =>
                      if exch_is_for_rx e m && negb (retrans_pending e) then
                        Some (mkSys (sessions s) (RxTaken m sid idx) (handles s) (now s) (next_sid s),
                              [EvDeliver sid idx m])
                      else None
                  | _ => None
                  end
                else None
            end
        | _ => None
        end
      else None
  | LRxDone sid idx =>
      match rx s with
      | RxTaken m sid' idx' =>
          if (sid' =? sid) && (idx' =? idx)%nat then
            Some (mkSys (sessions s) RxEmpty (handles s) (now s) (next_sid s), [])
          else None
      | _ => None
      end
  | LDropExch sid idx =>
      if has_handle s sid idx then
        let ss' :=
          match find_sid (sessions s) sid with
          | Some se =>
              match nth_error (s_exchs se) idx with
              | Some (Some e) =>
                  group_gc (upd_sid (sessions s) sid (fun x => set_exchs x (remove_exch (s_exchs x) idx e))) sid
              | _ => sessions s
              end
          | None => sessions s
          end in
        Some (mkSys ss' (release_rx (rx s) sid idx) (del_handle (handles s) sid idx) (now s) (next_sid s), [])
      else None
  | LSend sid idx ctr rel =>
      if has_handle s sid idx then
        (* Exchange::init_send lets go of the RxMessage first, whatever happens next *)
        let released := mkSys (sessions s) (release_rx (rx s) sid idx) (handles s) (now s) (next_sid s) in
        match find_sid (sessions s) sid with
        | Some se =>
            match nth_error (s_exchs se) idx with
            | Some (Some e) =>
                if s_group se then Some (released, []) else   (* no group data counter reserved: InvalidState *)
                match rm_pre_send (e_mrp e) ctr rel None with
                | (_, Panic _) => None
                | (r', rr) =>
                    let ss1 := set_slot (sessions s) sid idx (Some (mkExch (e_id e) (e_role e) r' (e_rat e))) in
                    (* Session::pre_send: give-up on a CASE session marks it expired *)
                    let ss2 := if gave_up rr && s_enc se then upd_sid ss1 sid set_expired else ss1 in
                    Some (mkSys ss2 (release_rx (rx s) sid idx) (handles s) (now s) (next_sid s), [])
                end
            | _ => Some (released, [])
            end
        | None => Some (released, [])     (* NoSession *)
        end
      else None
  | LInitiate sid exid =>
      match find_sid (sessions s) sid with
      | Some se =>
          if s_expired se then None else   (* expired sessions may not initiate *)
          match add_exch (s_exchs se) (mkExch exid InitOwned rm_new 0) with
          | Some (l', i) =>
              Some (mkSys (upd_sid (sessions s) sid (fun x => set_exchs x l')) (rx s)
                          ((sid, i) :: handles s) (now s) (next_sid s), [])
          | None => None
          end
      | None => None
      end
  | LSweepAccept =>
      match rx s with
      | RxHolding m =>
          match owner_of (sessions s) m with
          | Some (se, i, e) =>
              if is_pending (e_role e) && rm_received (e_mrp e) && (e_rat e + ACCEPT_TIMEOUT_MS <=? now s) then
                Some (mkSys (set_slot (sessions s) (s_id se) i
                               (Some (mkExch (e_id e) RespDropped (e_mrp e) (e_rat e))))
                            RxEmpty (handles s) (now s) (next_sid s),
                      [EvAcceptTimeout (s_id se) i m])
              else None
          | None => None
          end
      | _ => None
      end
  | LSweepOrphan =>
      match rx s with
      | RxHolding m =>
          match owner_of (sessions s) m with
          | Some (_, _, e) =>
              if is_dropped (e_role e) then
                Some (mkSys (sessions s) RxEmpty (handles s) (now s) (next_sid s), [EvOrphan m])
              else None
          | None => Some (mkSys (sessions s) RxEmpty (handles s) (now s) (next_sid s), [EvOrphan m])
          end
      | _ => None
      end
  | LCloseDropped =>
      match pick_dropped (sessions s) with
      | Some (sid, i, e) =>
          if retrans_pending e then
            Some (mkSys (remove_sid (sessions s) sid) (rx s) (handles s) (now s) (next_sid s),
                  [EvCloseSession sid i])
          else
            Some (mkSys (group_gc (set_slot (sessions s) sid i None) sid) (rx s) (handles s) (now s) (next_sid s),
                  if is_group_sid (sessions s) sid then []   (* the acknowledgement cannot be built: closed anyway *)
                  else
                  match rm_ack (e_mrp e) with
                  | Some a => if a_acked a then [] else [EvStandaloneAck sid i (a_ctr a)]
                  | None => []
                  end)
      | None => None
      end
  | LAddSession key enc grp =>
      Some (mkSys (sessions s ++ [new_session (next_sid s) key enc grp]) (rx s) (handles s) (now s)
                  (next_sid s + 1), [])
  | LRemoveSession sid =>
      match find_sid (sessions s) sid with
      | Some _ => Some (mkSys (remove_sid (sessions s) sid) (rx s) (handles s) (now s) (next_sid s), [])
      | None => None
      end
  | LExpireSession sid =>
      match find_sid (sessions s) sid with
      | Some _ => Some (mkSys (upd_sid (sessions s) sid set_expired) (rx s) (handles s) (now s) (next_sid s), [])
      | None => None
      end
  | LTick d => Some (mkSys (sessions s) (rx s) (handles s) (now s + d) (next_sid s), [])
  end.

(** Runs: a label that is not enabled leaves the state unchanged *)
Definition step_or_stay (bug : bool) (s : sys) (l : label) : sys :=
  match step bug s l with Some (s', _) => s' | None => s end.

Fixpoint run (bug : bool) (s : sys) (ls : list label) : sys :=
  match ls with
  | [] => s
  | l :: t => run bug (step_or_stay bug s l) t
  end.

Fixpoint run_events (bug : bool) (s : sys) (ls : list label) : list (list event) :=
  match ls with
  | [] => []
  | l :: t =>
      match step bug s l with
      | Some (s', ev) => ev :: run_events bug s' t
      | None => [] :: run_events bug s t
      end
  end.

Definition reachable (s : sys) : Prop := exists t0 ls, s = run false (sys_init t0) ls.
