(** Model of the access-control decision of rs-matter:
      rs-matter/src/acl.rs             (AccessorSubjects, Accessor, AccessReq, AclEntry)
      rs-matter/src/fabric.rs          (Fabric::acl_add, Fabric::allow, Fabrics::get, Fabrics::allow, Groups::get)
      rs-matter/src/dm/types/privilege.rs (Privilege, Access, Access::is_ok)
    Transcribed operator by operator (bit masks, shifts, order of checks,
    first-match look-ups).  No proofs in this file. *)
From RsM Require Export Lib.MachInt.
Open Scope N_scope.

(** * Constants *)

(** transport/session.rs: MAX_CAT_IDS_PER_NOC = 3; acl.rs: MAX_ACCESSOR_SUBJECTS = 1 + 3 *)
Definition MAX_CAT_IDS_PER_NOC : nat := 3.
Definition MAX_ACCESSOR_SUBJECTS : nat := 4.
(** acl.rs, default feature set of the harness build *)
Definition MAX_ACL_ENTRIES_PER_FABRIC : nat := 4.

Definition NOC_CAT_SUBJECT_PREFIX : N := 0xFFFFFFFD00000000.
Definition NOC_CAT_SUBJECT_MASK   : N := 0xFFFFFFFF00000000.
Definition NOC_CAT_ID_MASK        : N := 0xFFFF0000.
Definition NOC_CAT_VERSION_MASK   : N := 0xFFFF.

(** dm/types/privilege.rs: Privilege (u8 bit flags) *)
Definition PRIV_V : N := 1.
Definition PRIV_O : N := 2.
Definition PRIV_M : N := 4.
Definition PRIV_A : N := 8.
Definition PRIV_P : N := 16.
Definition PRIV_VIEW      : N := 1.
Definition PRIV_OPERATE   : N := 3.
Definition PRIV_MANAGE    : N := 7.
Definition PRIV_ADMIN     : N := 15.
Definition PRIV_PROXYVIEW : N := 16.

(** dm/types/privilege.rs: Access (u16 bit flags) *)
Definition ACC_NEED_VIEW    : N := 1.
Definition ACC_NEED_OPERATE : N := 2.
Definition ACC_NEED_MANAGE  : N := 4.
Definition ACC_NEED_ADMIN   : N := 8.
Definition ACC_READ         : N := 16.
Definition ACC_WRITE        : N := 32.
Definition ACC_FAB_SCOPED   : N := 64.
Definition ACC_FAB_SENSITIVE : N := 128.
Definition ACC_TIMED_ONLY   : N := 256.
Definition ACC_READ_PRIVILEGE_MASK  : N := 15.   (* V | M | O | A *)
Definition ACC_WRITE_PRIVILEGE_MASK : N := 14.   (* M | O | A *)

Definition ROOT_ENDPOINT_ID : N := 0.

(** * Subjects of an accessor (acl.rs: AccessorSubjects) *)

(** [is_noc_cat]: (id & MASK) == PREFIX && (id & (ID_MASK | VERSION_MASK)) > 0 *)
Definition is_noc_cat (id : N) : bool :=
  (N.land id NOC_CAT_SUBJECT_MASK =? NOC_CAT_SUBJECT_PREFIX)
  && (0 <? N.land id (N.lor NOC_CAT_ID_MASK NOC_CAT_VERSION_MASK)).

(** [(id & NOC_CAT_ID_MASK) >> 16] *)
Definition get_noc_cat_id (id : N) : N := N.shiftr (N.land id NOC_CAT_ID_MASK) 16.
(** [id & NOC_CAT_VERSION_MASK] *)
Definition get_noc_cat_version (id : N) : N := N.land id NOC_CAT_VERSION_MASK.
(** [((id as u32) << 16) | version as u32] for u16 arguments *)
Definition gen_noc_cat (id version : N) : N := N.lor (N.shiftl id 16) version.

(** [AccessorSubjects::new(id)]: slot 0 is the node id, the rest is 0 *)
Definition subj_new (id : N) : list N := [id; 0; 0; 0].

(** [add_catid]: the first slot holding 0 receives PREFIX | subject;
    [None] is the ResourceExhausted error. *)
Fixpoint subj_put_first_zero (l : list N) (v : N) : option (list N) :=
  match l with
  | [] => None
  | x :: t =>
      if x =? 0 then Some (v :: t)
      else match subj_put_first_zero t v with
           | Some t' => Some (x :: t')
           | None => None
           end
  end.

Definition subj_add_catid (l : list N) (subject : N) : option (list N) :=
  subj_put_first_zero l (N.lor NOC_CAT_SUBJECT_PREFIX subject).

(** the call sites that ignore the error: [let _ = subject.add_catid(i)] *)
Definition subj_add_catid_ignore (l : list N) (subject : N) : list N :=
  match subj_add_catid l subject with Some l' => l' | None => l end.

(** [AccessorSubjects::matches] *)
Fixpoint subj_matches (l : list N) (acl_subject : N) : bool :=
  match l with
  | [] => false
  | v :: t =>
      if v =? 0 then subj_matches t acl_subject
      else if v =? acl_subject then true
      else if is_noc_cat v && is_noc_cat acl_subject
              && (get_noc_cat_id v =? get_noc_cat_id acl_subject)
              && (get_noc_cat_version acl_subject <=? get_noc_cat_version v)
           then true
           else subj_matches t acl_subject
  end.

(** * Accessor *)

Inductive auth := APase | ACase | AGroup.

Definition auth_eqb (a b : auth) : bool :=
  match a, b with
  | APase, APase | ACase, ACase | AGroup, AGroup => true
  | _, _ => false
  end.

Definition oauth_is (o : option auth) (a : auth) : bool :=
  match o with Some x => auth_eqb x a | None => false end.

Record accessor := mkAcc {
  a_fab  : N;              (* u8, 0 = no fabric *)
  a_aux  : bool;           (* aux_acl_enabled *)
  a_subj : list N;         (* AccessorSubjects, 4 slots *)
  a_auth : option auth     (* None for plain-text sessions *)
}.

(** transport/session.rs: SessionMode *)
Inductive smode :=
| SCase (fab : N) (cat_ids : list N)
| SPase (fab : N)
| SGroup (fab gid : N)
| SPlain.

(** [Accessor::for_session]; [peer] is [session.get_peer_node_id()] *)
Definition for_session (m : smode) (peer : option N) (aux : bool) : accessor :=
  match m with
  | SCase fab cats =>
      let s0 := subj_new (match peer with Some p => p | None => 0 end) in
      let s := fold_left (fun s i => if negb (i =? 0) then subj_add_catid_ignore s i else s) cats s0 in
      mkAcc fab aux s (Some ACase)
  | SPase fab => mkAcc fab aux (subj_new 1) (Some APase)
  | SGroup fab gid => mkAcc fab aux (subj_new gid) (Some AGroup)
  | SPlain => mkAcc 0 aux (subj_new 1) None
  end.

(** * Access request *)

Record request := mkReq {
  r_ep    : option N;       (* path.endpoint *)
  r_cl    : option N;       (* path.cluster *)
  r_perms : option N;       (* target_perms: Access bits of the element *)
  r_op    : N;              (* operation: Access bits *)
  r_dts   : list N          (* device types (u16) of the hosting endpoint *)
}.

(** * Privilege check (privilege.rs: Access::is_ok) *)

(** bitflags [a.contains(b)] *)
Definition bits_contains (a b : N) : bool := N.land a b =? b.

Definition is_ok (access operation privilege : N) : bool :=
  let check (required : N) : bool :=
    if required =? 0 then false
    else if N.land privilege required =? 0 then false
    else bits_contains access operation in
  if bits_contains operation ACC_READ then
    check (N.land access ACC_READ_PRIVILEGE_MASK)
  else if bits_contains operation ACC_WRITE then
    check (N.land access ACC_WRITE_PRIVILEGE_MASK)
  else false.

(** * ACL entries *)

Record target := mkTarget {
  t_cl : option N;   (* u32 *)
  t_ep : option N;   (* u16 *)
  t_dt : option N    (* u32 *)
}.

Record entry := mkEntry {
  e_priv : N;                        (* Privilege bits *)
  e_auth : auth;
  e_subj : option (list N);          (* Nullable<Vec<u64>> *)
  e_targ : option (list target);     (* Nullable<Vec<Target>> *)
  e_fab  : option N                  (* Option<NonZeroU8> *)
}.

(** [Option<T> == Option<T>] *)
Definition opt_eqb (a b : option N) : bool :=
  match a, b with
  | Some x, Some y => x =? y
  | None, None => true
  | _, _ => false
  end.

Definition is_none {A} (o : option A) : bool :=
  match o with None => true | Some _ => false end.

Definition list_is_empty {A} (l : list A) : bool :=
  match l with [] => true | _ => false end.

(** [AclEntry::match_accessor] *)
Definition match_accessor (e : entry) (a : accessor) : bool :=
  if negb (oauth_is (a_auth a) (e_auth e)) then false
  else
    let allow :=
      match e_subj e with
      | None => true
      | Some subjects =>
          list_is_empty subjects || existsb (fun s => subj_matches (a_subj a) s) subjects
      end in
    allow && match e_fab e with Some f => f =? a_fab a | None => false end.

Definition target_matches (t : target) (r : request) : bool :=
  let endpoint_match := is_none (t_ep t) || opt_eqb (t_ep t) (r_ep r) in
  let cluster_match := is_none (t_cl t) || opt_eqb (t_cl t) (r_cl r) in
  let device_type_match :=
    match t_dt t with
    | Some dt => existsb (fun endpoint_dt => endpoint_dt =? dt) (r_dts r)
    | None => true
    end in
  endpoint_match && cluster_match && device_type_match.

Definition targets_wild (o : option (list target)) : bool :=
  match o with None => true | Some l => list_is_empty l end.

(** [AclEntry::match_access_desc] *)
Definition match_access_desc (e : entry) (r : request) (aux_acl_enabled : bool) : bool :=
  if aux_acl_enabled && auth_eqb (e_auth e) AGroup
     && opt_eqb (r_ep r) (Some ROOT_ENDPOINT_ID)
     && targets_wild (e_targ e)
  then false
  else
    let allow :=
      match e_targ e with
      | None => true
      | Some targets =>
          list_is_empty targets || existsb (fun t => target_matches t r) targets
      end in
    if allow then
      match r_perms r with
      | Some access => is_ok access (r_op r) (e_priv e)
      | None => false
      end
    else false.

(** [AclEntry::allow] *)
Definition entry_allow (e : entry) (a : accessor) (r : request) (aux_acl_enabled : bool) : bool :=
  match_accessor e a && match_access_desc e r aux_acl_enabled.

(** * Fabrics *)

Record group := mkGroup {
  g_id  : N;               (* u16 *)
  g_eps : list N;          (* endpoints *)
  g_aux : option bool      (* has_aux_acl: Option<bool> *)
}.

Definition group_has_aux (g : group) : bool :=
  match g_aux g with Some b => b | None => false end.

Record fabric := mkFabric {
  f_idx    : N;            (* NonZeroU8 *)
  f_acl    : list entry;
  f_groups : list group    (* group table (endpoint_mapping) *)
}.

(** [Fabric::acl_add]: PASE entries are refused, the entry's fabric index
    is overwritten with the fabric's own, the vector is bounded. *)
Definition acl_add (f : fabric) (e : entry) : fabric * bool :=
  if auth_eqb (e_auth e) APase then (f, false)
  else if Nat.ltb (length (f_acl f)) MAX_ACL_ENTRIES_PER_FABRIC then
    (mkFabric (f_idx f)
       (f_acl f ++ [mkEntry (e_priv e) (e_auth e) (e_subj e) (e_targ e) (Some (f_idx f))])
       (f_groups f), true)
  else (f, false).

Fixpoint acl_add_all (f : fabric) (es : list entry) : fabric * list bool :=
  match es with
  | [] => (f, [])
  | e :: t =>
      let '(f1, ok) := acl_add f e in
      let '(f2, oks) := acl_add_all f1 t in
      (f2, ok :: oks)
  end.

(** [Fabric::allow]: first allowing entry wins (a boolean "any") *)
Definition fabric_allow (f : fabric) (a : accessor) (r : request) (aux_acl_enabled : bool) : bool :=
  existsb (fun e => entry_allow e a r aux_acl_enabled) (f_acl f).

(** [Fabrics::get]: first fabric with that index *)
Definition fabrics_get (fabs : list fabric) (idx : N) : option fabric :=
  find (fun f => f_idx f =? idx) fabs.

(** [Groups::get]: first group with that id *)
Definition groups_get (gs : list group) (gid : N) : option group :=
  find (fun g => g_id g =? gid) gs.

(** [Fabrics::allow] *)
Definition fabrics_allow (fabs : list fabric) (a : accessor) (r : request) (aux_acl_enabled : bool) : bool :=
  if oauth_is (a_auth a) APase then true
  else if a_fab a =? 0 then false
  else match fabrics_get fabs (a_fab a) with
       | None => false
       | Some f => fabric_allow f a r aux_acl_enabled
       end.

(** [AccessReq::allow_groupcast_auxiliary] (feature "groups") *)
Definition allow_groupcast_auxiliary (fabs : list fabric) (a : accessor) (r : request) : bool :=
  if negb (a_aux a) then false
  else if negb (oauth_is (a_auth a) AGroup) then false
  else if a_fab a =? 0 then false
  else match fabrics_get fabs (a_fab a) with
       | None => false
       | Some f =>
           match r_ep r with
           | None => false
           | Some endpoint =>
               let granted :=
                 existsb (fun g => group_has_aux g
                                   && existsb (N.eqb endpoint) (g_eps g)
                                   && subj_matches (a_subj a) (g_id g))
                         (f_groups f) in
               granted &&
               match r_perms r with
               | Some access => is_ok access (r_op r) PRIV_OPERATE
               | None => false
               end
           end
       end.

(** [AccessReq::allow] *)
Definition allow (fabs : list fabric) (a : accessor) (r : request) : bool :=
  fabrics_allow fabs a r (a_aux a) || allow_groupcast_auxiliary fabs a r.

(** [Accessor::is_endpoint_accessible] (feature "groups");
    [self.subjects.0[0] as u16] is the group id *)
Definition is_endpoint_accessible (fabs : list fabric) (a : accessor) (endpoint_id : N) : bool :=
  if negb (oauth_is (a_auth a) AGroup) then true
  else
    let group_id := wrap16 (hd 0 (a_subj a)) in
    if a_fab a =? 0 then false
    else match fabrics_get fabs (a_fab a) with
         | None => false
         | Some f =>
             match groups_get (f_groups f) group_id with
             | Some g => existsb (N.eqb endpoint_id) (g_eps g)
             | None => false
             end
         end.

(** The decision the interaction model takes for a concrete element
    (im/expand.rs: the endpoint is entered only if it is accessible, then
    dm/types/cluster.rs check_*_access builds the request with a concrete
    path and the element's access bits). *)
Definition im_access (fabs : list fabric) (a : accessor)
  (ep cl : N) (dts : list N) (op perms : N) : bool :=
  is_endpoint_accessible fabs a ep
  && allow fabs a (mkReq (Some ep) (Some cl) (Some perms) op dts).
