(** Declarative form of property C06, in the vocabulary of the property
    text: the elements that exist on the node, match the requested path and
    are permitted for the requester.  Mentions no cursor, no index, no
    cache, no loop of the implementation; the access decision is the
    declarative [spec_granted] of C05 (Model/AclSpec.v).
    Part 1: the specification.  Part 2: the executable monitor that is run
    on the implementation's responses and handler log.
    No proofs in this file. *)
From RsM Require Export Lib.MachInt Model.Acl Model.AclSpec Model.Im.
Open Scope N_scope.

(** * Part 1 - the specification *)

(** an element of the node: where it lives and its declaration *)
Definition cand := (endpoint * cluster * leaf)%type.

Definition cand_ids (t : cand) : N * N * N :=
  let '(e, c, l) := t in (ep_id e, c_id c, l_id l).

(** the attributes (read, write) or commands (invoke) a cluster has *)
Definition elements (op : operation) (c : cluster) : list leaf :=
  filter l_on (match op with Invoke => c_cmds c | _ => c_attrs c end).

(** every element of the node, in node order *)
Definition all_leaves (op : operation) (nd : node) : list cand :=
  flat_map (fun e =>
    flat_map (fun c => map (fun l => (e, c, l)) (elements op c)) (ep_clusters e)) nd.

Definition wild_or (o : option N) (id : N) : bool :=
  match o with None => true | Some x => x =? id end.

Definition matches (p : gpath) (t : cand) : bool :=
  let '(e, c, l) := t in
  wild_or (p_ep p) (ep_id e) && wild_or (p_cl p) (c_id c) && wild_or (p_leaf p) (l_id l).

(** reading an access declaration (bit numbers of dm/types/privilege.rs Access) *)
Definition readable (d : N) : bool := N.testbit d 4.
Definition writable (d : N) : bool := N.testbit d 5.
Definition fabric_scoped (d : N) : bool := N.testbit d 6.
Definition fabric_sensitive (d : N) : bool := N.testbit d 7.
Definition timed_only (d : N) : bool := N.testbit d 8.

(** the element supports the operation at all *)
Definition supported (op : operation) (d : N) : bool :=
  match op with Read => readable d | Write => writable d | Invoke => true end.

(** timed-only elements are written / invoked only inside a timed interaction *)
Definition timed_ok (op : operation) (timed : bool) (d : N) : bool :=
  match op with Read => true | _ => timed || negb (timed_only d) end.

(** fabric-scoped commands need a requester with a fabric *)
Definition fabric_ok (op : operation) (who : accessor) (d : N) : bool :=
  match op with Invoke => negb (fabric_scoped d && (a_fab who =? 0)) | _ => true end.

Definition permitted_leaf (fabs : list fabric) (who : accessor) (op : operation) (timed : bool)
  (t : cand) : bool :=
  let '(e, c, l) := t in
  let d := l_access l in
  supported op d && timed_ok op timed d && fabric_ok op who d
  && spec_granted fabs who op (ep_id e) (c_id c) (ep_dts e) d.

(** the elements a request item may touch *)
Definition permitted (nd : node) (fabs : list fabric) (who : accessor) (op : operation)
  (timed : bool) (p : gpath) : list cand :=
  filter (fun t => matches p t && permitted_leaf fabs who op timed t) (all_leaves op nd).

(** ... further restricted by the report filter (data-version / changed-attribute filter) *)
Definition served (nd : node) (fabs : list fabric) (who : accessor) (op : operation)
  (timed : bool) (flt : N -> N -> N -> bool) (p : gpath) : list cand :=
  filter (fun t => let '(e, c, l) := cand_ids t in flt e c l) (permitted nd fabs who op timed p).

(** ** The decision table for a concrete path *)

Inductive decision :=
| Served (t : cand)
| Refused (s : status)
| Silent.                        (* exists and is filtered out: no output *)

(** the status of an existing element, in the order the statuses take precedence *)
Definition leaf_decision (fabs : list fabric) (who : accessor) (op : operation) (timed : bool)
  (t : cand) : option status :=
  let '(e, c, l) := t in
  let d := l_access l in
  let acl := spec_granted fabs who op (ep_id e) (c_id c) (ep_dts e) d in
  match op with
  | Invoke =>
      if negb (timed_ok op timed d) then Some SNeedsTimedInteraction
      else if negb (fabric_ok op who d) then Some SUnsupportedAccess
      else if acl then None else Some SUnsupportedAccess
  | _ =>
      if negb (timed_ok op timed d) then Some SNeedsTimedInteraction
      else if negb (supported op d) then
        Some (match op with Write => SUnsupportedWrite | _ => SUnsupportedRead end)
      else if acl then None else Some SUnsupportedAccess
  end.

Definition concrete_decision (nd : node) (fabs : list fabric) (who : accessor) (op : operation)
  (timed : bool) (flt : N -> N -> N -> bool) (e c l : N) : decision :=
  match find (fun x => ep_id x =? e) nd with
  | None => Refused SUnsupportedEndpoint
  | Some ep =>
      if negb (spec_endpoint fabs who e) then Refused SUnsupportedEndpoint
      else match find (fun x => c_id x =? c) (ep_clusters ep) with
           | None => Refused SUnsupportedCluster
           | Some cl =>
               match find (fun x => l_id x =? l) (elements op cl) with
               | None => Refused (match op with Invoke => SUnsupportedCommand | _ => SUnsupportedAttribute end)
               | Some lf =>
                   if negb (flt e c l) then Silent
                   else match leaf_decision fabs who op timed (ep, cl, lf) with
                        | None => Served (ep, cl, lf)
                        | Some s => Refused s
                        end
               end
           end
  end.

(** ** What a request item produces *)

Definition out_of (tag : option N) (t : cand) : out :=
  let '(e, c, l) := cand_ids t in OData e c l tag.

Definition item_spec (nd : node) (fabs : list fabric) (who : accessor) (op : operation)
  (timed : bool) (flt : N -> N -> N -> bool) (it : item) : list out :=
  let p := it_path it in
  let tag := it_tag it in
  match op, p_cl p, p_leaf p with
  | Read, _, _ | _, Some _, Some _ =>
      match p_ep p, p_cl p, p_leaf p with
      | Some e, Some c, Some l =>
          match concrete_decision nd fabs who op timed flt e c l with
          | Served t => [out_of tag t]
          | Refused s => [OStatus p tag s]
          | Silent => []
          end
      | _, _, _ => map (out_of tag) (served nd fabs who op timed flt p)
      end
  | _, None, _ => [OStatus p tag SUnsupportedCluster]      (* write / invoke: no cluster wildcard *)
  | _, _, None => [OStatus p tag SUnsupportedAttribute]    (* write / invoke: no leaf wildcard *)
  end.

Definition request_spec (nd : node) (fabs : list fabric) (who : accessor) (op : operation)
  (timed : bool) (flt : N -> N -> N -> bool) (items : list item) : list out :=
  flat_map (item_spec nd fabs who op timed flt) items.

(** the handler is called for exactly the served entries, in order, and is
    told the requester's fabric and (reads) the request's fabric filter;
    writes are always fabric-filtered *)
Definition calls_of (who : accessor) (op : operation) (ff : bool) (outs : list out) : list hcall :=
  flat_map (fun o =>
    match o with
    | OData e c l _ =>
        [match op with
         | Read => HRead e c l (a_fab who) ff
         | Write => HWrite e c l (a_fab who)
         | Invoke => HInvoke e c l (a_fab who)
         end]
    | OStatus _ _ _ => []
    end) outs.

(** ** The timed window *)

(** a timed interaction is open: a TimedRequest preceded and has not expired *)
Definition window_open (win : option N) (elapsed : N) : bool :=
  match win with Some timeout => elapsed <=? timeout | None => false end.

Definition gate_spec (win : option N) (flag : bool) (elapsed : N) : option status :=
  match win, flag with
  | None, true | Some _, false => Some STimedRequestMisMatch
  | None, false => None
  | Some _, true => if window_open win elapsed then None else Some STimeout
  end.

(** ** The response to a whole request on a node that does not change *)

Fixpoint has_dup_invoke (items : list item) : bool :=
  match items with
  | [] => false
  | i :: rest =>
      existsb (fun j => path_eqb (it_path i) (it_path j) || opt_eqb (it_tag i) (it_tag j)) rest
      || has_dup_invoke rest
  end.

Definition invoke_malformed (max_paths : nat) (items : list item) : bool :=
  Nat.ltb max_paths (length items)
  || (Nat.ltb 1 (length items)
      && (existsb (fun i => negb (is_some (it_tag i))) items || has_dup_invoke items)).

Definition spec_response (max_paths : nat) (who : accessor) (nd : node) (fabs : list fabric)
  (rq : imreq) : imresp :=
  let items timed :=
    let outs := request_spec nd fabs who (rq_op rq) timed (fun _ _ _ => true) (rq_items rq) in
    RespItems outs (calls_of who (rq_op rq) (rq_ff rq) outs) in
  match rq_op rq with
  | Read =>
      if existsb (fun it => bad_read_path (it_path it)) (rq_items rq) then RespStatus SInvalidAction
      else items false
  | _ =>
      match gate_spec (rq_win rq) (rq_flag rq) (rq_elapsed rq) with
      | Some s => RespStatus s
      | None =>
          if is_invoke (rq_op rq) && invoke_malformed max_paths (rq_items rq)
          then RespStatus SInvalidAction
          else items (rq_flag rq)
      end
  end.

(** * Part 2 - the monitor *)

Definition status_eqb (a b : status) : bool := status_code a =? status_code b.

Definition out_eqb (a b : out) : bool :=
  match a, b with
  | OData e c l t, OData e' c' l' t' => (e =? e') && (c =? c') && (l =? l') && opt_eqb t t'
  | OStatus p t s, OStatus p' t' s' => path_eqb p p' && opt_eqb t t' && status_eqb s s'
  | _, _ => false
  end.

Definition hcall_eqb (a b : hcall) : bool :=
  match a, b with
  | HRead e c l f ff, HRead e' c' l' f' ff' =>
      (e =? e') && (c =? c') && (l =? l') && (f =? f') && Bool.eqb ff ff'
  | HWrite e c l f, HWrite e' c' l' f' => (e =? e') && (c =? c') && (l =? l') && (f =? f')
  | HInvoke e c l f, HInvoke e' c' l' f' => (e =? e') && (c =? c') && (l =? l') && (f =? f')
  | _, _ => false
  end.

Fixpoint list_eqb {A} (eqb : A -> A -> bool) (a b : list A) : bool :=
  match a, b with
  | [], [] => true
  | x :: a', y :: b' => eqb x y && list_eqb eqb a' b'
  | _, _ => false
  end.

Definition imresp_eqb (a b : imresp) : bool :=
  match a, b with
  | RespStatus s, RespStatus s' => status_eqb s s'
  | RespItems o l, RespItems o' l' => list_eqb out_eqb o o' && list_eqb hcall_eqb l l'
  | _, _ => false
  end.

(** well-formed node: endpoints strictly ascending by id, cluster ids
    distinct within an endpoint, element ids distinct within a cluster *)
Fixpoint strictly_ascending (l : list N) : bool :=
  match l with
  | [] => true
  | x :: rest =>
      match rest with
      | [] => true
      | y :: _ => (x <? y) && strictly_ascending rest
      end
  end.

Fixpoint distinct (l : list N) : bool :=
  match l with
  | [] => true
  | x :: rest => negb (existsb (N.eqb x) rest) && distinct rest
  end.

Definition wf_cluster (c : cluster) : bool :=
  distinct (map l_id (c_attrs c)) && distinct (map l_id (c_cmds c)).

Definition wf_endpoint (e : endpoint) : bool :=
  distinct (map c_id (ep_clusters e)) && forallb wf_cluster (ep_clusters e).

Definition wf_node (nd : node) : bool :=
  strictly_ascending (map ep_id nd) && forallb wf_endpoint nd.

(** the element with these ids is permitted in this configuration *)
Definition permitted_ids (cf : config) (who : accessor) (op : operation) (timed : bool)
  (e c l : N) : bool :=
  existsb (fun t => let '(e', c', l') := cand_ids t in (e' =? e) && (c' =? c) && (l' =? l))
          (permitted (cf_node cf) (cf_fabs cf) who op timed (mkPath (Some e) (Some c) (Some l))).

(** every served entry is permitted in the configuration in force when it
    was served ([n] = handler calls made before it).  Reading of "permitted
    for the requester": an entry that repeats the element served
    immediately before it in the same request ([prev]) is covered by the
    authorisation of that first access (expand.rs [last_authorized], CHIP
    [mLastSuccessfullyWrittenPath]). *)
Fixpoint served_sound (c0 : config) (sw : list (nat * config)) (who : accessor) (op : operation)
  (timed : bool) (n : nat) (prev : option (N * N * N)) (outs : list out) : bool :=
  match outs with
  | [] => true
  | OData e c l _ :: rest =>
      (last_is prev e c l || permitted_ids (config_at c0 sw n) who op timed e c l)
      && served_sound c0 sw who op timed (S n) (Some (e, c, l)) rest
  | OStatus _ _ _ :: rest => served_sound c0 sw who op timed n prev rest
  end.

Definition leaf_eqb (a b : leaf) : bool :=
  (l_id a =? l_id b) && (l_access a =? l_access b) && Bool.eqb (l_on a) (l_on b).

Definition cluster_eqb (a b : cluster) : bool :=
  (c_id a =? c_id b) && list_eqb leaf_eqb (c_attrs a) (c_attrs b)
  && list_eqb leaf_eqb (c_cmds a) (c_cmds b) && list_eqb leaf_eqb (c_events a) (c_events b).

Definition endpoint_eqb (a b : endpoint) : bool :=
  (ep_id a =? ep_id b) && list_eqb N.eqb (ep_dts a) (ep_dts b)
  && list_eqb cluster_eqb (ep_clusters a) (ep_clusters b).

(** the Node invariant of dm/types/node.rs: an endpoint id keeps its shape
    for as long as it is used *)
Definition shape_stable (nodes : list node) : bool :=
  forallb (fun a => forallb (fun b =>
    forallb (fun e => forallb (fun e' =>
      negb (ep_id e =? ep_id e') || endpoint_eqb e e') b) a) nodes) nodes.

Fixpoint no_repeat (outs : list out) : bool :=
  match outs with
  | [] => true
  | o :: rest => negb (existsb (out_eqb o) rest) && no_repeat rest
  end.

(** everything permitted in every configuration of the run is served *)
Definition complete_throughout (c0 : config) (sw : list (nat * config)) (who : accessor)
  (op : operation) (timed : bool) (it : item) (outs : list out) : bool :=
  forallb (fun t =>
    let '(e, c, l) := cand_ids t in
    negb (forallb (fun kc => permitted_ids (snd kc) who op timed e c l) sw)
    || existsb (out_eqb (OData e c l (it_tag it))) outs)
    (permitted (cf_node c0) (cf_fabs c0) who op timed (it_path it)).

Definition holds (max_paths : nat) (who : accessor) (c0 : config) (sw : list (nat * config))
  (rq : imreq) (resp : imresp) : bool :=
  match sw with
  | [] =>
      (* the node does not change: the response and the handler log are exactly the specified ones *)
      if wf_node (cf_node c0) && wf_fabrics (cf_fabs c0)
      then imresp_eqb resp (spec_response max_paths who (cf_node c0) (cf_fabs c0) rq)
      else true
  | _ =>
      match resp, spec_response max_paths who (cf_node c0) (cf_fabs c0) rq with
      | RespStatus s, RespStatus s' => status_eqb s s'
      | RespItems outs log, RespItems _ _ =>
          let timed := match rq_op rq with Read => false | _ => rq_flag rq end in
          list_eqb hcall_eqb log (calls_of who (rq_op rq) (rq_ff rq) outs)
          && (if forallb (fun cf => wf_node (cf_node cf) && wf_fabrics (cf_fabs cf)) (c0 :: map snd sw)
              then served_sound c0 sw who (rq_op rq) timed 0 None outs
                   && match rq_items rq with
                      | [it] => if is_wildcard (it_path it)
                                   && (is_read (rq_op rq)
                                       || (is_some (p_cl (it_path it)) && is_some (p_leaf (it_path it))))
                                   && shape_stable (map cf_node (c0 :: map snd sw))
                                then no_repeat outs
                                     && complete_throughout c0 sw who (rq_op rq) timed it outs
                                else true
                      | _ => true
                      end
              else true)
      | _, _ => false
      end
  end.

(** * A write continued over several chunks *)

(** the specified answers: one per chunk, up to and including the first
    chunk the timed gate refuses *)
Fixpoint spec_write_chunked (max_paths : nat) (who : accessor) (nd : node) (fabs : list fabric)
  (win : option N) (ff : bool) (chunks : list wchunk) : list imresp :=
  match chunks with
  | [] => []
  | ch :: rest =>
      let r := spec_response max_paths who nd fabs (chunk_req win ff ch) in
      match r with
      | RespItems _ _ => r :: spec_write_chunked max_paths who nd fabs win ff rest
      | _ => [r]
      end
  end.

(** the monitor: every chunk's answer satisfies [holds] for that chunk (with
    the chunk's own flag and the clock at that chunk), and nothing follows a
    chunk that was refused as a whole *)
Fixpoint holds_chunked (max_paths : nat) (who : accessor) (c0 : config) (sw : list (nat * config))
  (win : option N) (ff : bool) (chunks : list wchunk) (resps : list imresp) : bool :=
  match chunks, resps with
  | [], [] => true
  | ch :: rest, r :: rs =>
      holds max_paths who c0 sw (chunk_req win ff ch) r
      && match r with
         | RespItems _ _ => holds_chunked max_paths who c0 sw win ff rest rs
         | _ => match rs with [] => true | _ => false end
         end
  | _, _ => false
  end.
