(** Declarative side of property C01 and its executable form (the MONITOR that is extracted and run on
    the implementation's own observations).  No proofs in this file. *)
From RsM Require Export Model.Case.
Open Scope N_scope.

(* ------------------------------------------------------------------ what a sound session is *)

(** The session [s] of node [st] was set up by a FULL handshake as responder, in a run that received
    [m1] (Sigma1) and [m3] (Sigma3) and drew [fr]:
    - the fabric [f] is the one the destination id of [m1] selects among the node's fabrics;
    - a chain [noc; icac?] was presented inside [m3] (decrypted under this run's S3K) that is valid for
      [f]: chain up to [f]'s root under the Matter rules, fabric id of [f] (C19's [case_valid]);
    - the signature in [m3] is the NOC key's signature over (noc, icac, initiator ephemeral key of
      [m1], this run's own ephemeral key);
    - the session is bound to [f], the NOC's node id and the NOC's CATs, and its keys derive from the
      transcript (m1, own Sigma2, m3). *)
Definition responder_full_sound (st : node) (fr : fresh) (m1 m3 : msg) (s : session) : Prop :=
  exists (q : sigma1) (f : fabric) (noc : cert) (icac : option cert) (sig : term) (peer : N) (cats : list N),
    parse_sigma1 m1 = Ok q /\
    get_by_dest_id (n_fabrics st) (g1_random q) (g1_dest q) = Some f /\
    In f (n_fabrics st) /\
    let m2 := build_sigma2 f fr (g1_pub q) (msg_term m1) in   (* the Sigma2 this run sent *)
    let our_pub := TPub (TNonce (fr_eph fr)) in
    let shared := dh (TNonce (fr_eph fr)) (g1_pub q) in
    let s12 := h12 (msg_term m1) (msg_term m2) in
    get_req m3 1 KBytes = Ok (TAead (s3k (f_ipk f) s12 shared) (TNum NONCE_S3) (tbe3_plain noc icac sig)) /\
    case_valid (n_clock st) (f_fid f) (f_root f) noc icac /\
    sig = TSig (TKey (pubkey noc)) (tbs noc icac (g1_pub q) our_pub) /\
    get_node_id noc = Some peer /\ cats_of noc = Ok cats /\
    s_fab s = f_idx f /\ s_peer s = peer /\ s_cats s = cats /\ s_reserved s = false /\
    let hh := h123 (msg_term m1) (msg_term m2) (msg_term m3) in
    s_dec s = sess_key 0 (f_ipk f) hh shared /\ s_enc s = sess_key 1 (f_ipk f) hh shared.

(** ... by a RESUMPTION as responder: a record [r] of the node's cache is named by the resumption id of
    [m1], the Resume1MIC of [m1] is the MIC under that record's secret for this Sigma1's random, a fabric
    with the record's index exists, the peer then confirmed with a success status; identity copied from
    the record. *)
Definition responder_resume_sound (st : node) (m1 : msg) (s : session) : Prop :=
  exists (q : sigma1) (r : record) (rid : term) (f : fabric),
    parse_sigma1 m1 = Ok q /\ g1_rid q = Some rid /\
    In r (n_cache st) /\ r_rid r = rid /\
    g1_mic q = Some (resume_mic INFO_S1RK NONCE_R1 (r_secret r) (g1_random q) (r_rid r)) /\
    get_fabric (r_fab r) (n_fabrics st) = Some f /\
    s_fab s = r_fab r /\ s_peer s = r_peer r /\ s_cats s = r_cats r /\ s_reserved s = false /\
    s_dec s = rsess_key 0 (r_secret r) (g1_random q) (r_rid r) /\
    s_enc s = rsess_key 1 (r_secret r) (g1_random q) (r_rid r).

(** ... by a FULL handshake as initiator on fabric index [fab] towards node [peer]: the Sigma2 [m2]
    carried (under this run's S2K) a chain valid for that fabric whose NOC names [peer], and the NOC
    key's signature over (noc, icac, responder ephemeral key of [m2], own ephemeral key). *)
Definition initiator_full_sound (st : node) (fr : fresh) (fab peer : N) (m1 m2 : msg) (s : session) : Prop :=
  exists (f : fabric) (rr rpub : term) (noc : cert) (icac : option cert) (sig rid : term) (cats : list N),
    get_fabric fab (n_fabrics st) = Some f /\
    get_req m2 1 KBytes = Ok rr /\ get_req m2 3 KBytes = Ok rpub /\
    let own_pub := TPub (TNonce (fr_eph fr)) in
    let shared := dh (TNonce (fr_eph fr)) rpub in
    (* the Sigma3 this run sent *)
    let m3 := build_sigma3 f own_pub rpub (msg_term m1) (msg_term m2) shared in
    get_req m2 4 KBytes = Ok (TAead (s2k (f_ipk f) rr rpub (h1 (msg_term m1)) shared) (TNum NONCE_S2)
                                    (tbe2_plain noc icac sig rid)) /\
    case_valid (n_clock st) (f_fid f) (f_root f) noc icac /\
    get_node_id noc = Some peer /\
    sig = TSig (TKey (pubkey noc)) (tbs noc icac rpub own_pub) /\
    cats_of noc = Ok cats /\
    s_fab s = fab /\ s_peer s = peer /\ s_cats s = cats /\ s_reserved s = false /\
    let hh := h123 (msg_term m1) (msg_term m2) (msg_term m3) in
    s_enc s = sess_key 0 (f_ipk f) hh shared /\ s_dec s = sess_key 1 (f_ipk f) hh shared.

Definition initiator_resume_sound (st : node) (fr : fresh) (fab peer : N) (m2 : msg) (s : session) : Prop :=
  exists (r : record) (new_rid : term) (f : fabric),
    find_by_peer (n_cache st) fab peer = Some r /\
    get_req m2 1 KBytes = Ok new_rid /\
    get_req m2 2 KBytes = Ok (resume_mic INFO_S2RK NONCE_R2 (r_secret r) (TNonce (fr_rand fr)) new_rid) /\
    get_fabric fab (n_fabrics st) = Some f /\
    s_fab s = r_fab r /\ r_fab r = fab /\ s_peer s = r_peer r /\ r_peer r = peer /\
    s_cats s = r_cats r /\ s_reserved s = false /\
    s_enc s = rsess_key 0 (r_secret r) (TNonce (fr_rand fr)) (r_rid r) /\
    s_dec s = rsess_key 1 (r_secret r) (TNonce (fr_rand fr)) (r_rid r).

(** A resumption record is backed by credentials: some NOC valid for the fabric at the record's index
    names the record's peer and CATs. *)
Definition record_backed (st : node) (r : record) : Prop :=
  exists (f : fabric) (noc : cert) (icac : option cert),
    get_fabric (r_fab r) (n_fabrics st) = Some f /\
    case_valid (n_clock st) (f_fid f) (f_root f) noc icac /\
    get_node_id noc = Some (r_peer r) /\ cats_of noc = Ok (r_cats r).

Definition cache_backed (st : node) : Prop := forall r, In r (n_cache st) -> record_backed st r.

(* ------------------------------------------------------------------ the monitor *)

(** what the harness observes of a session: fabric index, peer node id, CATs, and the equality classes
    of its encryption / decryption key among all keys seen in the case *)
Record osess := mkOsess { o_fab : N; o_peer : N; o_cats : list N; o_enc : N; o_dec : N }.
(** one handshake attempt: new sessions at the initiator / at the responder, reserved sessions left *)
Record orun := mkOrun { o_i : list osess; o_r : list osess; o_left : N }.

Definition ident := (N * N * list N)%type.
Definition ident_eqb (a b : ident) : bool :=
  let '(f1, p1, c1) := a in let '(f2, p2, c2) := b in
  (f1 =? f2) && (p1 =? p2) && list_eqb N.eqb c1 c2.
Definition ident_of (s : osess) : ident := (o_fab s, o_peer s, o_cats s).

(** the prover's installed credentials are acceptable to the verifier's fabric (the property's words:
    chain up to the root of that fabric, that fabric's id, possession of the matching private key) *)
Definition presented_ok (t : clock) (verifier prover : fabric) : bool :=
  case_validb t (f_fid verifier) (f_root verifier) (f_noc prover) (f_icac prover) &&
  (f_sk prover =? pubkey (f_noc prover)) &&
  match cats_of (f_noc prover) with Ok _ => true | _ => false end.

(** the pair (initiator fabric, responder fabric) a handshake from [fab] towards [peer] addresses *)
Definition addressed (a b : node) (fab peer : N) : option (fabric * fabric) :=
  match get_fabric fab (n_fabrics a) with
  | None => None
  | Some fa =>
      match get_by_dest_id (n_fabrics b) (TNum 0) (dest_id fa (TNum 0) peer) with
      | Some fb => Some (fa, fb)
      | None => None
      end
  end.

(** the only identity a session at the responder / initiator may carry when the two honest nodes
    [a], [b] are the only holders of keys (the man in the middle of the harness has none) *)
Definition allowed_r (a b : node) (fab peer : N) : option ident :=
  match addressed a b fab peer with
  | Some (fa, fb) =>
      if presented_ok (n_clock b) fb fa then
        match get_node_id (f_noc fa), cats_of (f_noc fa) with
        | Some n, Ok c => Some (f_idx fb, n, c)
        | _, _ => None
        end
      else None
  | None => None
  end.
Definition allowed_i (a b : node) (fab peer : N) : option ident :=
  match addressed a b fab peer with
  | Some (fa, fb) =>
      if presented_ok (n_clock a) fa fb then
        match get_node_id (f_noc fb), cats_of (f_noc fb) with
        | Some n, Ok c => if n =? peer then Some (f_idx fa, peer, c) else None
        | _, _ => None
        end
      else None
  | None => None
  end.

(** violation codes *)
Definition V_UNAUTH_R : N := 1.   (* session at the responder although the presented credentials are not valid for the addressed fabric, or bound to another identity *)
Definition V_UNAUTH_I : N := 2.   (* same at the initiator *)
Definition V_KEYS : N := 3.       (* both ends hold a session of this run and the directional keys differ crosswise *)
Definition V_LEFT : N := 4.       (* a reserved session slot left behind *)
Definition V_TAMPER : N := 5.     (* a session under tampering where the untouched run has none, or with another identity *)
Definition V_MANY : N := 6.       (* more than one session out of one handshake at one end *)
Definition V_KEYS_S3 : N := 7.    (* V_KEYS in a run of the known class [sigma3_alt] *)

(** KNOWN CLASS (finding keys-differ-sigma3-unauthenticated-bytes): the Sigma3 handed to the responder
    carries the encrypted3 element the initiator sent but is not the message the initiator sent (elements
    appended or repeated after it, end-of-container cut off).  The responder's parser ignores the
    difference, the transcript hash does not. *)
Definition opt_term_eqb (a b : res term) : bool :=
  match a, b with Ok x, Ok y => term_eqb x y | _, _ => false end.
Definition sigma3_alt (sent recv : msg) : bool :=
  (m_op sent =? OP_SIGMA3) && (m_op recv =? OP_SIGMA3) &&
  opt_term_eqb (get_req sent 1 KBytes) (get_req recv 1 KBytes) &&
  negb (term_eqb (msg_term sent) (msg_term recv)).

Definition check_end (code : N) (allowed : option ident) (l : list osess) : list N :=
  match l with
  | [] => []
  | s :: _ => match allowed with
              | Some i => if ident_eqb (ident_of s) i then [] else [code]
              | None => [code]
              end
  end.
Definition check_tamper (base mut : list osess) : list N :=
  match mut with
  | [] => []
  | s :: _ => match base with
              | b :: _ => if ident_eqb (ident_of s) (ident_of b) then [] else [V_TAMPER]
              | [] => [V_TAMPER]
              end
  end.
Definition check_keys (s3alt : bool) (i r : list osess) : list N :=
  match i, r with
  | a :: _, b :: _ => if (o_enc a =? o_dec b) && (o_dec a =? o_enc b) then []
                      else [if s3alt then V_KEYS_S3 else V_KEYS]
  | _, _ => []
  end.
Definition check_many (l : list osess) : list N :=
  match l with _ :: _ :: _ => [V_MANY] | _ => [] end.

(** [base]: the same attempt with the network untouched ([None] when the attempt itself is untouched);
    [s3alt]: the run is in the known class *)
Definition monitor_run (al_i al_r : option ident) (s3alt : bool) (base : option orun) (o : orun) : list N :=
  check_end V_UNAUTH_R al_r (o_r o) ++ check_end V_UNAUTH_I al_i (o_i o) ++
  check_keys s3alt (o_i o) (o_r o) ++
  (if 0 <? o_left o then [V_LEFT] else []) ++
  match base with
  | Some b => check_tamper (o_i b) (o_i o) ++ check_tamper (o_r b) (o_r o)
  | None => []
  end ++
  check_many (o_i o) ++ check_many (o_r o).

(** the model's own sessions, observed the same way (used to state that the model passes the monitor) *)
Definition new_sessions (before after : list session) : list session :=
  filter (fun s => negb (s_reserved s) && negb (existsb (fun b => s_id b =? s_id s) before)) after.
