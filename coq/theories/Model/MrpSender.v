(** Model of the sender loop of rs-matter/src/transport/exchange.rs
    ([Sender::tx] / [ExchangeId::wait_tx] / [ExchangeId::init_send]) for one
    reliable message: the application hands the message to [Exchange::send],
    which transmits it, waits for the acknowledgement or the back-off, waits
    for the single TX buffer, re-checks whether a retransmission is still
    pending, retransmits ... The environment (scheduler, network, other
    exchanges) chooses the events.  No proofs in this file. *)
From RsM Require Export Lib.MachInt.
Open Scope N_scope.

Inductive phase :=
| PInitial                      (* [Sender::new]: nothing sent yet *)
| PWantBuf (initial : bool)     (* in [init_send], waiting for the TX buffer *)
| PWaiting (deadline : N)       (* in [wait_tx]: ack | session removed | timer *)
| PDone (ok : bool).            (* [tx] returned None (ok) or an error *)

Record sender_st := mkSnd {
  ph : phase;
  pend : bool;        (* a retransmission entry for the message exists (not acknowledged yet) *)
  cnt : N;            (* transmissions so far *)
  now : N;            (* the clock (ms) *)
  alive : bool;       (* our session is still in the table *)
  txs : list N        (* the times of the transmissions, newest first *)
}.

Definition snd_init (t0 : N) : sender_st := mkSnd PInitial false 0 t0 true [].

Inductive sev :=
| EvPoll               (* the future is polled for the first time *)
| EvBuf                (* the TX buffer is granted *)
| EvAck                (* the peer's acknowledgement of the message is processed *)
| EvTick (d : N)       (* time passes *)
| EvTimer              (* the back-off timer is observed expired (enabled only then) *)
| EvOtherGone          (* ANOTHER session was removed: [wait_session_removed] fires *)
| EvOurGone.           (* OUR session was removed *)

Definition MAX_TX : N := 6.   (* 1 + MRP_MAX_TRANSMISSIONS retransmissions, then TxTimeout *)

Section Sender.
(** [bo k]: the back-off after the (k+1)-th transmission
    ([RetransEntry::backoff_ms] with the entry's counter = k) *)
Variable bo : N -> N.

Definition transmit (s : sender_st) : sender_st :=
  if cnt s <? MAX_TX then
    mkSnd (PWaiting (now s + bo (cnt s))) true (cnt s + 1) (now s) (alive s) (now s :: txs s)
  else
    (* [ReliableMessage::pre_send] gives up: TxTimeout, entry cleared *)
    mkSnd (PDone false) false (cnt s) (now s) (alive s) (txs s).

Definition set_ph (s : sender_st) (p : phase) : sender_st :=
  mkSnd p (pend s) (cnt s) (now s) (alive s) (txs s).

Definition sstep (s : sender_st) (e : sev) : sender_st :=
  match e with
  | EvTick d => mkSnd (ph s) (pend s) (cnt s) (now s + d) (alive s) (txs s)
  | EvOurGone =>
      match ph s with
      | PDone _ => mkSnd (ph s) (pend s) (cnt s) (now s) false (txs s)
      | PWaiting _ => mkSnd (PDone false) (pend s) (cnt s) (now s) false (txs s)
      | _ => mkSnd (ph s) (pend s) (cnt s) (now s) false (txs s)
      end
  | EvAck =>
      match ph s with
      | PWaiting _ => if pend s then mkSnd (PDone true) false (cnt s) (now s) (alive s) (txs s) else s
      | _ => mkSnd (ph s) false (cnt s) (now s) (alive s) (txs s)
      end
  | EvPoll => match ph s with PInitial => set_ph s (PWantBuf true) | _ => s end
  | EvOtherGone => s      (* [wait_tx] loops: the wait goes on with the SAME deadline *)
  | EvTimer =>
      match ph s with
      | PWaiting d =>
          if d <=? now s then (if pend s then set_ph s (PWantBuf false) else set_ph s (PDone true)) else s
      | _ => s
      end
  | EvBuf =>
      match ph s with
      | PWantBuf i =>
          if negb (alive s) then set_ph s (PDone false)
          else if i || pend s then transmit s      (* [initial || pending_retrans] *)
          else set_ph s (PDone true)               (* acknowledged meanwhile: nothing is sent *)
      | _ => s
      end
  end.

Definition srun (s : sender_st) (es : list sev) : sender_st := fold_left sstep es s.

End Sender.
