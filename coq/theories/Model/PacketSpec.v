(** Specification side of C03: what "authentic for that session and direction"
    means, and the executable form of the property (the monitor) that is run on
    the IMPLEMENTATION's outputs.  No proofs in this file. *)
From RsM Require Export Model.Packet.
Open Scope N_scope.

(** The datagram body [ct] is authentic for session [s] with plain header [p]:
    an honest party sealed it under [s]'s receive key, with the nonce made of
    the header's security flags and counter and the node id the session was
    established with, and with the complete encoded plain header as associated
    data. *)
Definition authentic (W : world) (s : psess) (p : plain_hdr) (pt ct : list N) : Prop :=
  In (Aead (ps_dec_key s) (nonce (p_sec p) (p_ctr p) (node_or0 (ps_peer_node s)))
           (plain_encode p) pt, ct) W.

(** the same for a group operational key and the source node id of the header *)
Definition authentic_group (W : world) (c : gcand) (src : N) (p : plain_hdr)
    (pt ct : list N) : Prop :=
  In (Aead (gc_key c) (nonce (p_sec p) (p_ctr p) src) (plain_encode p) pt, ct) W.

(** the datagrams honest parties have produced, byte for byte *)
Definition honest_packets (W : world) : list (list N) :=
  map (fun e => match fst e with Aead _ _ a _ => a ++ snd e end) W.

(** idealisation used by the rejection corollaries: one byte string is the
    sealing of at most one term (different key, nonce, associated data or
    plaintext give different ciphertext-and-tag strings) *)
Definition ct_unique (W : world) : Prop :=
  forall t1 t2 c, In (t1, c) W -> In (t2, c) W -> t1 = t2.

(** decryption is a function: used by the round trip only *)
Definition world_functional (W : world) : Prop :=
  forall k n a p1 p2 c, In (Aead k n a p1, c) W -> In (Aead k n a p2, c) W -> p1 = p2.

(** * Who is a datagram authentic for?  (no state is touched) *)

Inductive auth :=
| AuthNone
| AuthSession (i : nat) (p : plain_hdr) (x : proto_hdr) (payload : list N)
| AuthNewPlain (p : plain_hdr) (x : proto_hdr) (payload : list N)
| AuthGroup (c : gcand) (p : plain_hdr) (x : proto_hdr) (payload : list N).

Definition auth_check (W : world) (st : pstate) (from : addr) (wire : list N) : auth :=
  match plain_decode wire with
  | Ok (p, rest) =>
      let aad := consumed wire rest in
      match find_sess (st_sessions st) from p with
      | Some (i, s) =>
          match decode_remaining W (sess_dec_key s) (node_or0 (ps_peer_node s))
                                 (addr_reliable (ps_addr s)) p aad rest with
          | inr (x, payload) => AuthSession i p x payload
          | inl _ => AuthNone
          end
      | None =>
          if negb (plain_encrypted p) then
            match decode_remaining W None 0 (addr_reliable from) p aad rest with
            | inr (x, payload) =>
                if is_new_session (opclass_of x) then AuthNewPlain p x payload else AuthNone
            | inl _ => AuthNone
            end
          else if plain_group p then
            match plain_get_src p with
            | Some src =>
                if is_none (plain_get_dst_groupcast p) && is_none (plain_get_dst_unicast p)
                then AuthNone
                else if (1280 <? length rest)%nat then AuthNone
                else match group_try W src (addr_reliable from) p aad rest (group_cands st p) with
                     | Some (c, x, payload) => AuthGroup c p x payload
                     | None => AuthNone
                     end
            | None => AuthNone
            end
          else AuthNone
      end
  | _ => AuthNone
  end.

(** * The monitor: the property evaluated on what the implementation did *)

Definition plain_eqb (a b : plain_hdr) : bool :=
  (p_flags a =? p_flags b) && (p_sess a =? p_sess b) && (p_sec a =? p_sec b) &&
  (p_ctr a =? p_ctr b) && (p_src a =? p_src b) && (p_dst a =? p_dst b).
Definition proto_eqb (a b : proto_hdr) : bool :=
  (x_exch a =? x_exch b) && (x_flags a =? x_flags b) && (x_proto a =? x_proto b) &&
  (x_opcode a =? x_opcode b) && (x_vendor a =? x_vendor b) && (x_ack a =? x_ack b).

(** What was observed of one [decode_packet] call on the implementation:
    [ob_ok]: [Some new_exchange] when it returned [Ok], the decoded header fields
    and payload (meaningful then), the table slots whose window / counter /
    exchange slots differ afterwards, whether any pre-existing session's keys,
    identities, mode or address changed or a session vanished, how many
    sessions were appended, and whether the group counter store differs. *)
Record observation := mkObs {
  ob_ok : option bool;
  ob_plain : plain_hdr; ob_proto : proto_hdr; ob_payload : list N;
  ob_changed : list nat;
  ob_ident_changed : bool;
  ob_added : nat;
  ob_gstore_changed : bool }.

Definition fields_match (ob : observation) (p : plain_hdr) (x : proto_hdr) (payload : list N)
  : bool :=
  match ob_ok ob with
  | Some _ => plain_eqb (ob_plain ob) p && proto_eqb (ob_proto ob) x &&
              bytes_eqb (ob_payload ob) payload
  | None => true
  end.

Definition mon_decode (W : world) (st : pstate) (from : addr) (wire : list N)
    (ob : observation) : bool :=
  match auth_check W st from wire with
  | AuthNone =>
      (* not authentic for anybody: rejected, and nothing changes *)
      is_none (ob_ok ob) && (length (ob_changed ob) =? 0)%nat && negb (ob_ident_changed ob) &&
      (ob_added ob =? 0)%nat && negb (ob_gstore_changed ob)
  | AuthSession i p x payload =>
      (* only that session may move; if delivered, exactly the authenticated fields *)
      forallb (fun j => (j =? i)%nat) (ob_changed ob) && negb (ob_ident_changed ob) &&
      (ob_added ob =? 0)%nat &&
      (* only an authentic group data message on its sender's session moves the group counter store *)
      (negb (ob_gstore_changed ob) ||
       match nth_error (st_sessions st) i with
       | Some s => match group_sender s p with Some _ => true | None => false end
       | None => false
       end) &&
      fields_match ob p x payload
  | AuthNewPlain p x payload =>
      (length (ob_changed ob) =? 0)%nat && negb (ob_ident_changed ob) &&
      (ob_added ob <=? 1)%nat && negb (ob_gstore_changed ob) && fields_match ob p x payload
  | AuthGroup c p x payload =>
      (* existing sessions keep their counters/exchanges (eviction may remove one);
         the group counter store may record the sender *)
      (length (ob_changed ob) =? 0)%nat && (ob_added ob <=? 1)%nat && fields_match ob p x payload
  end.

(** round trip: what the peer's decode returned against what was sent
    ([rel]: the receiving session's transport is reliable) *)
Definition mon_roundtrip (rel : bool) (p : plain_hdr) (x : proto_hdr) (payload : list N)
    (ob : observation) : bool :=
  match ob_ok ob with
  | Some _ => plain_eqb (ob_plain ob) p && proto_eqb (ob_proto ob) (adjust_rel rel x) &&
              bytes_eqb (ob_payload ob) payload
  | None => false
  end.

(** * Building the observation from two session-table snapshots *)

Definition rx_eqb (a b : Dedup.rx) : bool :=
  Bool.eqb (synced a) (synced b) && (max_ctr a =? max_ctr b) && (bitmap a =? bitmap b).

Definition role_code (r : role) : N :=
  match r with InitOwned => 0 | InitDropped => 1 | RespPending => 2 | RespOwned => 3 | RespDropped => 4 end.

(** what a snapshot shows of an exchange slot: id, role/state, the counter
    awaiting acknowledgement, the pending acknowledgement *)
Definition exch_obs_eqb (a b : exch) : bool :=
  (e_id a =? e_id b) && (role_code (e_role a) =? role_code (e_role b)) &&
  opt_eqb (option_map r_ctr (rm_retr (e_mrp a))) (option_map r_ctr (rm_retr (e_mrp b))) &&
  match rm_ack (e_mrp a), rm_ack (e_mrp b) with
  | Some x, Some y => (a_ctr x =? a_ctr y) && Bool.eqb (a_acked x) (a_acked y)
  | None, None => true
  | _, _ => false
  end.

Definition slot_obs_eqb (a b : option exch) : bool :=
  match a, b with
  | Some x, Some y => exch_obs_eqb x y
  | None, None => true
  | _, _ => false
  end.

Fixpoint slots_obs_eqb (a b : list (option exch)) : bool :=
  match a, b with
  | [], [] => true
  | x :: a', y :: b' => slot_obs_eqb x y && slots_obs_eqb a' b'
  | _, _ => false
  end.

Definition mode_eqb (a b : smode) : bool :=
  match a, b with
  | MPlain, MPlain => true
  | MPase f, MPase g => f =? g
  | MCase f, MCase g => f =? g
  | MGroup f i, MGroup g j => (f =? g) && (i =? j)
  | _, _ => false
  end.

(** window and exchange slots: what [post_recv] may move *)
Definition dyn_eqb (a b : psess) : bool :=
  rx_eqb (ps_win a) (ps_win b) && slots_obs_eqb (ps_exchs a) (ps_exchs b).

(** everything else: keys, identities, addresses, counters, mode, flags *)
Definition ident_eqb (a b : psess) : bool :=
  addr_eqb (ps_addr a) (ps_addr b) && (ps_local_node a =? ps_local_node b) &&
  opt_eqb (ps_peer_node a) (ps_peer_node b) && (ps_dec_key a =? ps_dec_key b) &&
  (ps_enc_key a =? ps_enc_key b) && (ps_local_sid a =? ps_local_sid b) &&
  (ps_peer_sid a =? ps_peer_sid b) && (ps_msg_ctr a =? ps_msg_ctr b) &&
  mode_eqb (ps_mode a) (ps_mode b) && Bool.eqb (ps_expired a) (ps_expired b) &&
  Bool.eqb (ps_reserved a) (ps_reserved b).

Fixpoint observe (before after : list psess) (i : nat) : list nat * bool :=
  match before, after with
  | [], _ => ([], false)
  | _ :: _, [] => ([], true)
  | b :: bt, a :: at' =>
      let '(ch, idc) := observe bt at' (S i) in
      ((if dyn_eqb b a then ch else i :: ch), idc || negb (ident_eqb b a))
  end.

Definition mk_observation (ok : option bool) (p : plain_hdr) (x : proto_hdr) (payload : list N)
    (before after : list psess) (gstore_changed : bool) : observation :=
  let '(ch, idc) := observe before after 0 in
  mkObs ok p x payload ch idc (length after - length before) gstore_changed.
