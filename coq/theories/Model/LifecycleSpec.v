(** Specification side of property C07 (no proofs inside).

    1. [bound_to_incarnation]: the property as a predicate on states.
    2. Its executable form and the executable form of the frame clause and of the
       two "use" clauses over observations (operation, answer, snapshot after it):
       [monitor].  It is evaluated on the IMPLEMENTATION's own snapshots by the check
       (the harness keeps its own incarnation bookkeeping). *)
From Coq Require Import NArith List Bool.
From RsM Require Import Model.Lifecycle.
(* -- *)
Import ListNotations.
Open Scope N_scope.

(** the incarnation currently living at fabric index [i] *)
Definition cur_inc (l : list fabric) (i : N) : option N :=
  match fget i l with Some f => Some (f_inc f) | None => None end.

(** ** 1. The property *)

(** a usable session refers to a fabric index whose current incarnation is its own *)
Definition sess_bound (st : state) (s : session) : Prop :=
  s_fab s = 0 \/ cur_inc (st_fabs st) (s_fab s) = Some (s_inc s).

(** a record that a [Resume] would accept (its fabric index is in the table) ... *)
Definition rec_bound (fabs : list fabric) (r : rrec) : Prop :=
  forall f, fget (r_fab r) fabs = Some f -> f_inc f = r_inc r.

(** a subscription the reporter would serve (its fabric index is in the table) ... *)
Definition sub_bound (fabs : list fabric) (u : sub) : Prop :=
  forall f, fget (u_fab u) fabs = Some f -> f_inc f = u_inc u.

Definition bound_to_incarnation (st : state) : Prop :=
  (forall s, In s (st_sess st) -> usable s = true -> sess_bound st s) /\
  (forall r, In r (st_recs st) -> rec_bound (st_fabs st) r) /\
  (forall u, In u (st_subs st) -> sub_bound (st_fabs st) u) /\
  (* the persisted records, against the persisted fabrics: what a restart would accept *)
  (forall r, In r (st_kvrecs st) -> rec_bound (st_kvfabs st) r).

(** *** Nothing is left behind (the tight form): every session that is not expired - usable
    now, or a slot reserved by a handshake that may still complete - sits on index 0 or on a
    live fabric of its own incarnation; every resumption record and every subscription refers
    to a live fabric of its own incarnation (not merely: if the index is populated). *)
Definition live_at (fabs : list fabric) (i c : N) : Prop :=
  exists f, fget i fabs = Some f /\ f_inc f = c.

Definition nothing_left_behind (st : state) : Prop :=
  (forall s, In s (st_sess st) -> s_exp s = false -> s_fab s <> 0 ->
             live_at (st_fabs st) (s_fab s) (s_inc s)) /\
  (forall r, In r (st_recs st) -> live_at (st_fabs st) (r_fab r) (r_inc r)) /\
  (forall u, In u (st_subs st) -> live_at (st_fabs st) (u_fab u) (u_inc u)).

(** *** ... not in the store either: every persisted fabric is in the RAM table with the same
    incarnation (a removed fabric leaves no stored copy that an expiry or a restart would bring
    back), and every persisted resumption record refers to a live fabric of its own incarnation. *)
Definition store_tight (st : state) : Prop :=
  (forall kf, In kf (st_kvfabs st) -> live_at (st_fabs st) (f_idx kf) (f_inc kf)) /\
  (forall r, In r (st_kvrecs st) -> live_at (st_fabs st) (r_fab r) (r_inc r)).

(** incarnation [c] is gone from the node *)
Definition gone (st : state) (c : N) : Prop :=
  c < st_ninc st /\ forall f, In f (st_fabs st) -> f_inc f <> c.

(** nothing usable refers to incarnation [c] *)
Definition unreferenced (st : state) (c : N) : Prop :=
  (forall s, In s (st_sess st) -> usable s = true -> s_fab s <> 0 -> s_inc s <> c) /\
  (forall r, In r (st_recs st) -> r_inc r <> c) /\
  (forall u, In u (st_subs st) -> u_inc u <> c).

(** ** 2. Executable forms *)
Definition opt_eqb (a : option N) (b : N) : bool :=
  match a with Some x => x =? b | None => false end.

Definition sess_bound_b (fabs : list fabric) (s : session) : bool :=
  (s_fab s =? 0) || opt_eqb (cur_inc fabs (s_fab s)) (s_inc s).

Definition rec_bound_b (fabs : list fabric) (r : rrec) : bool :=
  match fget (r_fab r) fabs with Some f => f_inc f =? r_inc r | None => true end.

Definition sub_bound_b (fabs : list fabric) (u : sub) : bool :=
  match fget (u_fab u) fabs with Some f => f_inc f =? u_inc u | None => true end.

Definition sessions_ok (st : state) : bool :=
  forallb (fun s => negb (usable s) || sess_bound_b (st_fabs st) s) (st_sess st).
Definition records_ok (st : state) : bool := forallb (rec_bound_b (st_fabs st)) (st_recs st).
Definition subs_ok (st : state) : bool := forallb (sub_bound_b (st_fabs st)) (st_subs st).
Definition kvrecords_ok (st : state) : bool := forallb (rec_bound_b (st_kvfabs st)) (st_kvrecs st).

(** tight forms *)
Definition live_at_b (fabs : list fabric) (i c : N) : bool := opt_eqb (cur_inc fabs i) c.
Definition sessions_tight (st : state) : bool :=
  forallb (fun s => s_exp s || (s_fab s =? 0) || live_at_b (st_fabs st) (s_fab s) (s_inc s))
          (st_sess st).
Definition records_tight (st : state) : bool :=
  forallb (fun r => live_at_b (st_fabs st) (r_fab r) (r_inc r)) (st_recs st).
Definition subs_tight (st : state) : bool :=
  forallb (fun u => live_at_b (st_fabs st) (u_fab u) (u_inc u)) (st_subs st).
Definition tight_b (st : state) : bool :=
  sessions_tight st && records_tight st && subs_tight st.

Definition kvfabs_tight (st : state) : bool :=
  forallb (fun kf => live_at_b (st_fabs st) (f_idx kf) (f_inc kf)) (st_kvfabs st).
Definition kvrecs_tight (st : state) : bool :=
  forallb (fun r => live_at_b (st_fabs st) (r_fab r) (r_inc r)) (st_kvrecs st).
Definition store_tight_b (st : state) : bool := kvfabs_tight st && kvrecs_tight st.

Definition bound_b (st : state) : bool :=
  sessions_ok st && records_ok st && subs_ok st && kvrecords_ok st.

(** *** Frame: what an operation that makes fabric index [i] disappear may touch *)
Definition sess_eqb (a b : session) : bool :=
  (s_id a =? s_id b) && (s_fab a =? s_fab b) && (s_node a =? s_node b) &&
  Bool.eqb (s_exp a) (s_exp b) && Bool.eqb (s_res a) (s_res b) && (s_inc a =? s_inc b) &&
  match s_mode a, s_mode b with
  | MPase, MPase | MCase, MCase | MGroup, MGroup => true
  | _, _ => false
  end.
Definition rec_eqb (a b : rrec) : bool :=
  (r_id a =? r_id b) && (r_fab a =? r_fab b) && (r_node a =? r_node b) && (r_inc a =? r_inc b).
Definition sub_eqb (a b : sub) : bool :=
  (u_id a =? u_id b) && (u_fab a =? u_fab b) && (u_node a =? u_node b) && (u_inc a =? u_inc b).
Definition fab_eqb (a b : fabric) : bool :=
  (f_idx a =? f_idx b) && (f_inc a =? f_inc b) && (f_root a =? f_root b) && (f_acl a =? f_acl b).

Fixpoint list_eqb {A} (eq : A -> A -> bool) (a b : list A) : bool :=
  match a, b with
  | [], [] => true
  | x :: r, y :: s => eq x y && list_eqb eq r s
  | _, _ => false
  end.

(** the sessions / records / subscriptions / fabrics that are not on index [i]
    ([pase]: PASE sessions are not looked at either - an expiry drops them all) *)
Definition others_sess (i : N) (pase : bool) (l : list session) : list session :=
  filter (fun s => negb (s_fab s =? i) && negb (pase && is_pase s)) l.
Definition others_recs (i : N) (l : list rrec) : list rrec :=
  filter (fun r => negb (r_fab r =? i)) l.
Definition others_subs (i : N) (l : list sub) : list sub :=
  filter (fun u => negb (u_fab u =? i)) l.

Definition frame_ok (i : N) (pase : bool) (a b : state) : bool :=
  list_eqb sess_eqb (others_sess i pase (st_sess a)) (others_sess i pase (st_sess b)) &&
  list_eqb rec_eqb (others_recs i (st_recs a)) (others_recs i (st_recs b)) &&
  list_eqb sub_eqb (others_subs i (st_subs a)) (others_subs i (st_subs b)) &&
  list_eqb fab_eqb (fdel i (st_fabs a)) (fdel i (st_fabs b)) &&
  list_eqb fab_eqb (fdel i (st_kvfabs a)) (fdel i (st_kvfabs b)).

(** the fabric index an operation answered OK can make disappear (and whether it is an
    expiry, which also drops the PASE sessions), read off the state BEFORE it *)
Definition removes (st : state) (o : op) : option (N * bool) :=
  match o with
  | ORemove _ i => Some (i, false)
  | OTimeout | OArm0 _ | ORevoke _ =>
    match st_fs st with
    | Armed f _ => Some (f, true)
    | Idle => None
    end
  | _ => None
  end.

Definition status_ok (r : status) : bool := match r with StOk => true | _ => false end.

(** *** Use clauses, on the state BEFORE the operation *)
(** a request answered OK travelled on a usable session bound to the current incarnation *)
Definition request_ok (st : state) (sid : N) : bool :=
  match sget sid (st_sess st) with
  | Some s => usable s && negb (s_fab s =? 0) && sess_bound_b (st_fabs st) s
  | None => false
  end.

(** a resumption answered OK used a record bound to the current incarnation *)
Definition resume_ok (st : state) (k : N) : bool :=
  match rget k (st_recs st) with
  | Some r => match fget (r_fab r) (st_fabs st) with
              | Some f => f_inc f =? r_inc r
              | None => false
              end
  | None => false
  end.

(** Verdict for one step: the clause numbers that fail.
      1 session-outlives-fabric (a usable session or a reserved handshake slot)
      2 resumption-record-outlives-fabric  3 subscription-outlives-fabric
        (1-3 in the tight form [nothing_left_behind]: the fabric must be there, same incarnation)
      4 persisted-record-outlives-fabric (tight, against the RAM table; and against the
        persisted fabrics: what a restart would accept)
      8 persisted-fabric-outlives-fabric   9 removed-incarnation-returns (trace clause, [monitor])
      5 other-fabrics-affected             6 request-served-on-stale-session
      7 stale-record-resumed *)
Definition step_verdict (pre : state) (o : op) (r : status) (post : state) : list N :=
  (if sessions_tight post then [] else [1]) ++
  (if records_tight post then [] else [2]) ++
  (if subs_tight post then [] else [3]) ++
  (if kvrecs_tight post && kvrecords_ok post then [] else [4]) ++
  (if kvfabs_tight post then [] else [8]) ++
  (match removes pre o with
   | Some (i, pase) => if negb (status_ok r) || frame_ok i pase pre post then [] else [5]
   | None => []
   end) ++
  (match o with
   | ORequest sid _ => if negb (status_ok r) || request_ok pre sid then [] else [6]
   | OResume k | OResumeBegin k => if negb (status_ok r) || resume_ok pre k then [] else [7]
   | _ => []
   end).

(** *** Trace clause: an incarnation never comes back.  [seen] = the incarnations that were in
    the fabric table (RAM or persisted) of any earlier state.  A fabric of the table after an
    operation is either one of the table before it or a new incarnation. *)
Definition incs (l : list fabric) : list N := map f_inc l.
Definition memN (x : N) (l : list N) : bool := existsb (N.eqb x) l.

Definition returns_b (seen : list N) (pre post : state) : bool :=
  existsb (fun f => memN (f_inc f) seen && negb (memN (f_inc f) (incs (st_fabs pre))))
          (st_fabs post).

Fixpoint monitor_from (seen : list N) (pre : state) (tr : list (op * (status * state))) : list N :=
  match tr with
  | [] => []
  | (o, (r, post)) :: rest =>
    step_verdict pre o r post ++
    (if returns_b seen pre post then [9] else []) ++
    monitor_from (seen ++ incs (st_fabs post)) post rest
  end.

Definition monitor (pre : state) (tr : list (op * (status * state))) : list N :=
  monitor_from (incs (st_fabs pre) ++ incs (st_kvfabs pre)) pre tr.
