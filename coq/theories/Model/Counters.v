(** Model of the three durable epoch counters of rs-matter (property C12):

    - the global group data message counter
      ([transport/session.rs]: [reserve/unreserve/resume_global_group_data_ctr],
      [load_persist]; caller [Exchange::initiate_group] in [transport/exchange.rs]),
    - the event number ([im/events.rs]: [next_event_number], [load_persist]),
    - the check-in counter ([sc/checkin.rs]: [CheckInCounter]; its KV glue
      [Icd::{advance,persist,load,invalidate}_counter] in
      [dm/clusters/icd_mgmt.rs]).

    Each one is a state machine over RAM + one durable KV cell.  Operations
    of a schedule: use, store succeeds / fails, restart - placed anywhere.
    Transcribed operator by operator.  No proofs in this file. *)
From RsM Require Export Lib.MachInt.
Open Scope N_scope.

(** * Observations, common to the three machines *)
Inductive cev :=
| EvNop                            (* the op is not enabled in this state: nothing happened *)
| EvYield (v : N) (kv : option N)  (* value [v] handed out for the wire while the KV cell held [kv] *)
| EvPend (b : N)                   (* a boundary [b] was computed and is waiting to be stored *)
| EvFail                           (* the store failed, the call returned an error *)
| EvDone                           (* the op completed, nothing handed out *)
| EvBoot.                          (* restart: RAM rebuilt from the KV cell *)

Fixpoint run_gen {St Op : Type} (step : St -> Op -> St * cev) (s : St) (l : list Op)
  : list cev * St :=
  match l with
  | [] => ([], s)
  | op :: t =>
      let '(s', e) := step s op in
      let '(es, sf) := run_gen step s' t in (e :: es, sf)
  end.

(** A schedule all of whose ops are allowed in the state they are issued in. *)
Fixpoint sched_ok {St Op : Type} (step : St -> Op -> St * cev)
  (allowed : St -> Op -> bool) (s : St) (l : list Op) : bool :=
  match l with
  | [] => true
  | op :: t => allowed s op && sched_ok step allowed (fst (step s op)) t
  end.

Fixpoint travel_gen {Op : Type} (cost : Op -> N) (l : list Op) : N :=
  match l with
  | [] => 0
  | op :: t => cost op + travel_gen cost t
  end.

(** * (a) Global group data message counter *)

Definition G_MASK : N := 268435455.      (* MATTER_MSG_CTR_RANGE = 0x0fff_ffff *)
Definition G_EPOCH : N := 1000.          (* GROUP_DATA_CTR_EPOCH *)

(** [advance_group_data_ctr]: [value.wrapping_add(delta) & RANGE], 0 |-> 1 *)
Definition g_adv (v d : N) : N :=
  let n := N.land (wrap32 (v + d)) G_MASK in
  if n =? 0 then 1 else n.

(** [global_group_data_ctr], [group_data_ctr_boundary] *)
Record gram := mkGRam { g_ctr : N; g_bnd : N }.

(** [set_global_group_data_ctr] *)
Definition g_set (v : N) : gram := mkGRam v v.

(** [resume_global_group_data_ctr] *)
Definition g_resume (start : N) : gram := g_set (if start =? 0 then 1 else start).

(** [get_or_init_global_group_data_ctr]; [rand] is the [next_u32()] draw,
    consumed only when the counter is not initialised. *)
Definition g_get_or_init (m : gram) (rand : N) : gram :=
  if g_ctr m =? 0 then
    let c := N.land rand G_MASK in
    g_set (if c =? 0 then 1 else c)
  else m.

(** [reserve_global_group_data_ctr]: new RAM, value, boundary to persist *)
Definition g_reserve (m : gram) (rand : N) : gram * N * option N :=
  let m1 := g_get_or_init m rand in
  let v := g_ctr m1 in
  if v =? g_bnd m1 then
    let b := g_adv v G_EPOCH in
    (mkGRam (g_adv v 1) b, v, Some b)
  else (mkGRam (g_adv v 1) (g_bnd m1), v, None).

(** [unreserve_global_group_data_ctr] *)
Definition g_unreserve (v : N) : gram := g_set v.

(** [Sessions::new] followed by [load_persist] *)
Definition g_load (kv : option N) : gram :=
  match kv with
  | Some b => g_resume b
  | None => mkGRam 0 0
  end.

(** [gs_pend = Some (v, b)]: inside [initiate_group], between the
    reservation of [v] and the store of the boundary [b]. *)
Record gstate := mkGS { gs_ram : gram; gs_kv : option N; gs_pend : option (N * N) }.

Definition g_init (kv : option N) : gstate := mkGS (g_load kv) kv None.

Inductive gop :=
| GSync (rand : N)        (* MsgCounterSyncRsp: get_or_init_global_group_data_ctr reports the counter *)
| GReserve (rand : N)     (* initiate_group up to the store (or to its end if no store is due) *)
| GStore (ok : bool)      (* the store inside initiate_group succeeds / fails; the call ends *)
| GReset                  (* Matter::reset_transport -> Sessions::reset: sessions cleared,
                             the global group data counter and its boundary kept *)
| GCrash.                 (* restart *)

(** [rb]: the caller takes the reservation back when the store fails
    (the repaired [initiate_group]); [rb = false] is the code before the
    repair. *)
Definition g_step (rb : bool) (s : gstate) (op : gop) : gstate * cev :=
  match op with
  | GSync r => (mkGS (g_get_or_init (gs_ram s) r) (gs_kv s) (gs_pend s), EvDone)
  | GReserve r =>
      match gs_pend s with
      | Some _ => (s, EvNop)
      | None =>
          let '(m, v, tp) := g_reserve (gs_ram s) r in
          match tp with
          | Some b => (mkGS m (gs_kv s) (Some (v, b)), EvPend b)
          | None => (mkGS m (gs_kv s) None, EvYield v (gs_kv s))
          end
      end
  | GStore ok =>
      match gs_pend s with
      | None => (s, EvNop)
      | Some (v, b) =>
          if ok then (mkGS (gs_ram s) (Some b) None, EvYield v (Some b))
          else (mkGS (if rb then g_unreserve v else gs_ram s) (gs_kv s) None, EvFail)
      end
  | GReset => (s, EvDone)
  | GCrash => (g_init (gs_kv s), EvBoot)
  end.

Definition g_run (rb : bool) := run_gen (g_step rb).

(** * (b) Event numbers *)

Definition E_EPOCH : N := 10000.         (* EVENT_NUMBER_EPOCH_SIZE *)

(** [event_number.wrapping_add(1).max(1)] *)
Definition e_succ (n : N) : N := N.max (wrap64 (n + 1)) 1.

(** [event_number == 1 || event_number.is_multiple_of(EPOCH)] *)
Definition e_trigger (n : N) : bool := (n =? 1) || (n mod E_EPOCH =? 0).

(** the value stored at a trigger; [wf = true]: the repaired code
    ([checked_add(EPOCH).unwrap_or(1)]), [wf = false]: before the repair
    ([wrapping_add(EPOCH).max(1)]). *)
Definition e_boundary (wf : bool) (n : N) : N :=
  if n =? 1 then E_EPOCH
  else if wf then (if n + E_EPOCH <? two64 then n + E_EPOCH else 1)
  else N.max (wrap64 (n + E_EPOCH)) 1.

Record estate := mkES { e_next : N; e_kv : option N }.

(** [reset] then [load] *)
Definition e_init (kv : option N) : estate :=
  mkES (match kv with Some n => n | None => 1 end) kv.

Inductive eop :=
| EPush (ok : bool)      (* Events::push; [ok]: outcome of the store if one is due *)
| ECrash.

Definition e_step (wf : bool) (s : estate) (op : eop) : estate * cev :=
  match op with
  | EPush ok =>
      let n := e_next s in
      if e_trigger n then
        if ok then
          let b := e_boundary wf n in
          (mkES (e_succ n) (Some b), EvYield n (Some b))
        else (s, EvFail)
      else (mkES (e_succ n) (e_kv s), EvYield n (e_kv s))
  | ECrash => (e_init (e_kv s), EvBoot)
  end.

Definition e_run (wf : bool) := run_gen (e_step wf).

(** * (c) Check-in counter *)

Record cctr := mkCC { c_value : N; c_next_epoch : N; c_epoch : N }.

(** [CheckInCounter::new] *)
Definition c_new (start epoch : N) : cctr :=
  mkCC start (wrap32 (start + epoch)) epoch.

(** [next] *)
Definition c_next (c : cctr) : N := wrap32 (c_value c + 1).

(** [advance] *)
Definition c_advance (c : cctr) : cctr * option N :=
  let v := wrap32 (c_value c + 1) in
  if v =? c_next_epoch c then
    let ne := wrap32 (c_next_epoch c + c_epoch c) in
    (mkCC v ne (c_epoch c), Some ne)
  else (mkCC v (c_next_epoch c) (c_epoch c), None).

(** [advance_by] *)
Definition c_advance_by (c : cctr) (delta : N) : cctr * option N :=
  let dist := wsub32 (c_next_epoch c) (c_value c) in
  let v := wrap32 (c_value c + delta) in
  if dist <=? delta then
    let ne := wrap32 (v + c_epoch c) in
    (mkCC v ne (c_epoch c), Some ne)
  else (mkCC v (c_next_epoch c) (c_epoch c), None).

(** [persist_value] *)
Definition c_persist_value (c : cctr) : N := c_next_epoch c.

(** The counter behind the [Icd] glue with its KV cell.  [k_owed]: the
    interface has told the application to store a boundary ([new],
    [advance] returning [Some], [advance_by] returning [Some]) and no
    store has succeeded since. *)
Record kstate := mkKS { k_ctr : cctr; k_kv : option N; k_owed : bool }.

(** start of a run: [Icd::new(CheckInCounter::new(r, epoch))], [load_counter] *)
Definition k_boot (kv : option N) (r epoch : N) : kstate :=
  mkKS (c_new (match kv with Some b => b | None => wrap32 r end) epoch) kv true.

Inductive kop :=
| KSend (ok : bool)       (* send_check_in: next_counter, send, advance_counter ([ok]: its store, if due) *)
| KPersist (ok : bool)    (* persist_counter *)
| KInvalidate (d : N)     (* invalidate_counter *)
| KCrash (r : N).         (* restart; [r] is the start value the application picks if nothing is stored *)

Definition k_step (s : kstate) (op : kop) : kstate * cev :=
  match op with
  | KSend ok =>
      let v := c_next (k_ctr s) in
      let '(c', tp) := c_advance (k_ctr s) in
      match tp with
      | Some b =>
          if ok then (mkKS c' (Some b) false, EvYield v (k_kv s))
          else (mkKS c' (k_kv s) true, EvYield v (k_kv s))
      | None => (mkKS c' (k_kv s) (k_owed s), EvYield v (k_kv s))
      end
  | KPersist ok =>
      if ok then (mkKS (k_ctr s) (Some (c_persist_value (k_ctr s))) false, EvDone)
      else (s, EvFail)
  | KInvalidate d =>
      let '(c', tp) := c_advance_by (k_ctr s) (wrap32 d) in
      match tp with
      | Some b => (mkKS c' (k_kv s) true, EvPend b)
      | None => (mkKS c' (k_kv s) (k_owed s), EvDone)
      end
  | KCrash r => (k_boot (k_kv s) r (c_epoch (k_ctr s)), EvBoot)
  end.

Definition k_run := run_gen k_step.

(** The application does what the interface tells it to: no check-in is
    sent while a store is owed. *)
Definition k_allowed (s : kstate) (op : kop) : bool :=
  match op with
  | KSend _ => negb (k_owed s)
  | _ => true
  end.

Definition k_obedient (s : kstate) (l : list kop) : bool := sched_ok k_step k_allowed s l.
