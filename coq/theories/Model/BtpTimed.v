(** Time on top of the two-party system: the scheduler may let time pass
    ([TTick]); the ACK timer of a poll is no longer chosen by the scheduler but
    read off the clock with the deadlines of btp/session.rs
    (BTP_ACK_TIMEOUT_SECS = 15, BTP_CONN_IDLE_TIMEOUT_SECS = 30).
    [received_at] / [sent_at] of each end are kept next to the untimed system
    state exactly as RecvWindow / SendWindow update them.  No proofs here. *)
From RsM Require Export Lib.MachInt Model.Btp Model.BtpSpec.
Open Scope N_scope.

Definition ACK_TIMEOUT : N := 15.     (* BTP_ACK_TIMEOUT_SECS = BTP_CONN_IDLE_TIMEOUT_SECS / 2 *)
Definition IDLE_TIMEOUT : N := 30.    (* BTP_CONN_IDLE_TIMEOUT_SECS *)

(** [None] = Instant::MAX *)
Record clk := mkClk { received_at : option N; sent_at : option N }.
Record tsys := mkT { t_sys : sys; t_now : N; t_clkA : clk; t_clkB : clk }.

Definition clk_of (t : tsys) (x : side) : clk := match x with SA => t_clkA t | SB => t_clkB t end.
Definition set_clk (t : tsys) (x : side) (k : clk) : tsys :=
  match x with
  | SA => mkT (t_sys t) (t_now t) k (t_clkB t)
  | SB => mkT (t_sys t) (t_now t) (t_clkA t) k
  end.

(** [Session::is_ack_due]'s clock test: received_at + timeout <= now *)
Definition ack_timer_expired (t : tsys) (x : side) : bool :=
  match received_at (clk_of t x) with Some r => r + ACK_TIMEOUT <=? t_now t | None => false end.

(** [Session::is_timed_out]: sent_at + timeout < now *)
Definition timed_out (t : tsys) (x : side) : bool :=
  match sent_at (clk_of t x) with Some s => s + IDLE_TIMEOUT <? t_now t | None => false end.

Inductive top :=
| TTick (d : N)                  (* time passes *)
| TSubmit (x : side) (d : bytes)
| TPoll (x : side)               (* the ACK timer is read off the clock *)
| TDeliver (x : side)
| TFetch (x : side).

(** the untimed operation a timed one stands for in state [t] *)
Definition untimed (t : tsys) (o : top) : option sop :=
  match o with
  | TTick _ => None
  | TSubmit x d => Some (SSubmit x d)
  | TPoll x => Some (SPoll x (ack_timer_expired t x))
  | TDeliver x => Some (SDeliver x)
  | TFetch x => Some (SFetch x)
  end.

Definition sendw_of (s : sys) (x : side) : sendw := send (sess (ep s x)).

(** clock updates, as SendWindow::post_send / accept_incoming and
    RecvWindow::accept_incoming / Session::setup do them *)
Definition clk_after (c : cfg) (t : tsys) (o : top) (s' : sys) (r : out) : tsys :=
  let t1 := mkT s' (t_now t) (t_clkA t) (t_clkB t) in
  match o, r with
  | TPoll x, RBytes (_ :: _) =>
      set_clk t1 x (mkClk (received_at (clk_of t x)) (Some (t_now t)))
  | TDeliver x, RUnit =>
      match ch_to (t_sys t) x with
      | b :: _ =>
          if is_data_seg b then
            set_clk t1 x
              (mkClk (Some (t_now t))
                     (if seg_has_ack b
                      then (if slevel (sendw_of s' x) =? swin (sendw_of s' x) then None else Some (t_now t))
                      else sent_at (clk_of t x)))
          else
            (* a handshake packet: setup() resets both windows; the initiator then
               records the response as received *)
            set_clk t1 x (mkClk (if initiator (sess (ep s' x)) then Some (t_now t) else None) None)
      | [] => t1
      end
  | _, _ => t1
  end.

Definition tstep (c : cfg) (t : tsys) (o : top) : tsys * option out :=
  match untimed t o with
  | None => (mkT (t_sys t) (t_now t + match o with TTick d => d | _ => 0 end) (t_clkA t) (t_clkB t), None)
  | Some so =>
      let '(s', r) := sys_step c (t_sys t) so in
      (clk_after c t o s' r, Some r)
  end.

Fixpoint trun (c : cfg) (t : tsys) (ops : list top) : tsys * list (option out) :=
  match ops with
  | [] => (t, [])
  | o :: rest =>
      let '(t1, r) := tstep c t o in
      let '(t2, rs) := trun c t1 rest in (t2, r :: rs)
  end.

(** the untimed schedule a timed run performs (ticks dropped, timers resolved) *)
Fixpoint schedule_of (c : cfg) (t : tsys) (ops : list top) : list sop :=
  match ops with
  | [] => []
  | o :: rest =>
      match untimed t o with
      | Some so => so :: schedule_of c (fst (tstep c t o)) rest
      | None => schedule_of c (fst (tstep c t o)) rest
      end
  end.

(** right after the handshake, at time [t0]: the responder has just sent its
    response, the initiator has just recorded it *)
Definition tsys_established (c : cfg) (ver m w : N) (relB : bool) (t0 : N) : tsys :=
  mkT (sys_established c ver m w relB) t0 (mkClk (Some t0) None) (mkClk None (Some t0)).
