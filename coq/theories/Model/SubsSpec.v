(** Executable form of property C13 over the subscription model, the monitor
    that evaluates it on snapshots of the implementation, and the class of the
    known finding.  No proofs in this file. *)
From RsM Require Export Model.Subs.
Open Scope N_scope.

(** * The no-lost-change invariant, executable *)

(** change ids are consistent: the table's counter is one above the number of
    recorded changes, nothing carries an id from the future *)
Definition ids_ok (st : state) : bool :=
  (next_chg st =? nchg st + 1) &&
  forallb (fun e => e_id e <=? nchg st) (tab st) &&
  forallb (fun e => e_id e <=? nchg st) (log st) &&
  forallb (fun s => s_seen s <=? nchg st) (subs st) &&
  forallb (fun x => (s_seen (x_sub x) <=? x_nseen x) && (x_nseen x <=? nchg st)) (ctxs st).

(** a subscription in the table: whatever is stale at the subscriber is still
    covered by a table entry above the subscription's watermark (or the
    subscription is un-primed and will be sent everything) *)
Definition kept_ok (lg tb : list entry) (s : sub) : bool :=
  forallb (fun p => implb (stale lg (s_del s) p)
                          (unprimed s || contains_since tb p (s_seen s))) (s_paths s).

(** a subscription held by a report context (priming or reporting) *)
Definition ctx_ok (lg tb : list entry) (x : ctx) : bool :=
  let s := x_sub x in
  (unprimed s ||
   forallb (fun p => implb (stale lg (s_del s) p) (contains_since tb p (s_seen s))) (s_paths s)) &&
  forallb (fun q => mem_path (fst q) (x_vis x)) (x_pend x) &&
  forallb (fun p =>
    implb (mem_path p (x_vis x))
      match lookup p (x_pend x) with
      | Some w => implb (w <? last_change lg p) (contains_since tb p (x_nseen x))
      | None => negb (unprimed s) &&
                implb (stale lg (s_del s) p) (contains_since tb p (x_nseen x))
      end) (s_paths s).

Definition ev_ok (s : sub) : bool := s_seen_ev s <=? s_dev s.

Definition inv_b (st : state) : bool :=
  ids_ok st &&
  (count st =? N.of_nat (length (subs st) + length (ctxs st))) &&
  forallb (kept_ok (log st) (tab st)) (subs st) &&
  forallb (ctx_ok (log st) (tab st)) (ctxs st) &&
  forallb ev_ok (subs st) &&
  forallb (fun x => ev_ok (x_sub x)) (ctxs st).

(** * Monitor: the invariant on the implementation's own snapshots

    The driver parses a snapshot of the real table (and of the live report
    contexts) into a [state] whose ghost fields are empty; [graft] attaches the
    ghost fields the monitor has accumulated, looked up by subscription id.
    The ghost bookkeeping is advanced with the model's step function on the
    grafted state, using the implementation's emitted/skipped answers. *)

Definition find_sub (g : state) (id : N) : option sub :=
  match find (fun s => s_id s =? id) (subs g) with
  | Some s => Some s
  | None => match find_ctx id (ctxs g) with Some x => Some (x_sub x) | None => None end
  end.

(** ghost of a subscription: from the monitor's state after its step, else (the implementation kept
    a subscription the monitor's step dropped) from its state before the step *)
Definition find_sub2 (g' g : state) (id : N) : option sub :=
  match find_sub g' id with Some s => Some s | None => find_sub g id end.

Definition graft_sub (g' g : state) (s : sub) : sub :=
  match find_sub2 g' g (s_id s) with
  | Some gs => with_core s (s_rep_at s) (s_retry_at s) (s_fail s) (s_seen s) (s_seen_ev s) (s_del gs) (s_dev gs) (s_since gs)
  | None => with_core s (s_rep_at s) (s_retry_at s) (s_fail s) (s_seen s) (s_seen_ev s) [] 0 0
  end.

Definition graft_ctx (g' g : state) (x : ctx) : ctx :=
  let s := graft_sub g' g (x_sub x) in
  match find_ctx (s_id (x_sub x)) (ctxs g') with
  | Some gx => mkCtx s (x_prim x) (x_nseen x) (x_nseen_ev x) (x_now x) (x_pend gx) (x_vis gx)
  | None => mkCtx s (x_prim x) (x_nseen x) (x_nseen_ev x) (x_now x) [] []
  end.

(** [g']: the monitor's state after its own step ([g] before it); [snap]: the implementation *)
Definition graft (g' g snap : state) : state :=
  mkSt (next_sid snap) (count snap) (map (graft_sub g' g) (subs snap)) (tab snap) (next_chg snap)
       (reporting snap) (cancelled snap) (map (graft_ctx g' g) (ctxs snap)) (kv g')
       (log g') (nchg g') (evn g').

Definition mon_step (g : state) (o : op) (ob : option bool) (snap : state) : state :=
  graft (fst (step_gen true true true ob g o)) g snap.

(** * Timing clauses, executable (evaluated by the monitor on every snapshot) *)

(** a subscription that [report] selected at [now] respected the minimum interval and its back-off *)
Definition begin_ok (s : sub) (now : N) : bool :=
  (unprimed s || (IMAX <? s_rep_at s + s_min s * 1000) || (s_rep_at s + s_min s * 1000 <=? now)) &&
  (s_retry_at s <=? now).

(** the liveness point lies within the maximum interval *)
Definition due_ok (s : sub) : bool :=
  unprimed s || (IMAX <? s_rep_at s + s_max s * 1000) || (report_due_at s <=? s_rep_at s + s_max s * 1000).

(** a failed report (set_keep_retry) put the subscription back with the watermarks and the
    last-success time it had, and a back-off that is not in the past *)
Definition retry_ok (x : ctx) (s' : sub) : bool :=
  (s_seen s' =? s_seen (x_sub x)) && (s_seen_ev s' =? s_seen_ev (x_sub x)) &&
  (s_rep_at s' =? s_rep_at (x_sub x)) && (x_now x <=? s_retry_at s') &&
  (s_retry_at s' <=? x_now x + N.max (s_max s') 2 * 1000).

(** a report that was not sent (empty, not the liveness report) leaves the instant the liveness point and
    the expiry are measured from where it was *)
Definition skip_ok (x : ctx) (s' : sub) : bool := s_rep_at s' =? s_rep_at (x_sub x).

(** after the sweep at [now]: no subscription is left whose last success (or, if it has had none
    since the restart, its resumption) lies one maximum interval or more in the past *)
Definition expiry_ok (s : sub) (now : N) : bool :=
  (IMAX <? s_since s + s_max s * 1000) || (now <? s_since s + s_max s * 1000).


(** * End-to-end traces

    When the real reporter task and subscribe path run, the report contexts live on their
    stacks and cannot be observed: only the table (subscriptions, change table, in-flight
    slot) is.  The monitor then keeps the contexts of its own state and takes everything
    else from the implementation's snapshot. *)
Definition graft_e2e (g' g snap : state) : state :=
  mkSt (next_sid snap) (count snap) (map (graft_sub g' g) (subs snap)) (tab snap) (next_chg snap)
       (match reporting snap with
        | Some r => match find_ctx (s_id r) (ctxs g') with Some x => Some (x_sub x) | None => Some r end
        | None => None
        end)
       (cancelled snap) (ctxs g') (kv g')
       (log g') (nchg g') (evn g').

(** monitor step without a snapshot: the monitor's own successor state *)
Definition mon_step_e2e (g : state) (o : op) (ob : option bool) (snap : option state) : state :=
  let g' := fst (step_gen true true true ob g o) in
  match snap with Some s => graft_e2e g' g s | None => g' end.

Definition entry_eqb (a b : entry) : bool :=
  (e_ep a =? e_ep b) && (e_cl a =? e_cl b) && (e_at a =? e_at b) && (e_id a =? e_id b).

Fixpoint list_eqb {A} (f : A -> A -> bool) (a b : list A) : bool :=
  match a, b with
  | [], [] => true
  | x :: a', y :: b' => f x y && list_eqb f a' b'
  | _, _ => false
  end.

(** the observable (non-ghost) fields of a subscription *)
Definition sub_eqb (a b : sub) : bool :=
  (s_id a =? s_id b) && (s_fab a =? s_fab b) && (s_peer a =? s_peer b) &&
  (s_min a =? s_min b) && (s_max a =? s_max b) && (s_rep_at a =? s_rep_at b) && (s_acc a =? s_acc b) &&
  (s_retry_at a =? s_retry_at b) && (s_fail a =? s_fail b) && (s_seen a =? s_seen b) &&
  (s_seen_ev a =? s_seen_ev b) && list_eqb path_eqb (s_paths a) (s_paths b).

(** does the model's predicted state agree with what was observed of the implementation? *)
Definition agree_e2e (m snap : state) : bool :=
  (next_sid m =? next_sid snap) && (count m =? count snap) && (next_chg m =? next_chg snap) &&
  list_eqb entry_eqb (tab m) (tab snap) && list_eqb sub_eqb (subs m) (subs snap) &&
  match reporting m, reporting snap with
  | Some a, Some b => s_id a =? s_id b
  | None, None => true
  | _, _ => false
  end && Bool.eqb (cancelled m) (cancelled snap).

(** an acknowledged subscribe request is in the table (or being reported on) afterwards *)
Definition established_ok (st : state) (sid : N) : bool :=
  existsb (fun s => s_id s =? sid) (subs st) ||
  match reporting st with Some r => s_id r =? sid | None => false end.

(** the subscriber's copy of every subscribed attribute is the device's (versions as numbers) *)
Definition learned_ok (l : list (N * N)) : bool := forallb (fun p => fst p =? snd p) l.
