(** BDX message bodies, rs-matter/src/bdx.rs: TransferInit (SendInit /
    ReceiveInit), TransferAccept (SendAccept / ReceiveAccept), Block (Block /
    BlockEof), BlockQuery (also BlockAck / BlockAckEof), BlockQueryWithSkip.
    [parse] / [write] transcribed read by read; flag bytes written in
    arithmetic form ([b & 0x0f] = [b mod 16], bit k = [(b / 2^k) mod 2]).
    No proofs in this file. *)
From RsM Require Export Lib.MachInt Model.Headers Model.Codecs.
Open Scope N_scope.

Definition bit (b k : N) : bool := (b / 2 ^ k) mod 2 =? 1.
Definition b2n (b : bool) : N := if b then 1 else 0.

(** * Transfer control and range control bytes *)
Record tctl := mkTc { tc_version : N; tc_sender : bool; tc_receiver : bool; tc_async : bool }.
Record rctl := mkRc { rc_def_len : bool; rc_start : bool; rc_wide : bool }.

Definition tc_of_byte (b : N) : tctl := mkTc (b mod 16) (bit b 4) (bit b 5) (bit b 6).
Definition tc_to_byte (t : tctl) : N :=
  tc_version t mod 16 + 16 * b2n (tc_sender t) + 32 * b2n (tc_receiver t) + 64 * b2n (tc_async t).
Definition rc_of_byte (b : N) : rctl := mkRc (bit b 0) (bit b 1) (bit b 4).
Definition rc_to_byte (r : rctl) : N :=
  b2n (rc_def_len r) + 2 * b2n (rc_start r) + 16 * b2n (rc_wide r).
Definition rc_default : rctl := mkRc false false false.

(** an optional 32/64-bit field: present iff [present], 8 bytes iff [wide] *)
Definition take_range (present wide : bool) (b : list N) : res (N * list N) :=
  if present then (if wide then take_le 8 b else take_le 4 b) else Ok (0, b).
Definition put_range (present wide : bool) (v : N) : list N :=
  if present then (if wide then le_bytes 8 v else le_bytes 4 v) else [].
Definition range_ok (present wide : bool) (v : N) : bool :=
  if present then (if wide then v <? two64 else v <? two32) else v =? 0.

(** * TransferInit *)
Record bdx_init := mkInit {
  i_tc : tctl; i_rc : rctl; i_mbs : N; i_start : N; i_len : N;
  i_fd : list N; i_meta : list N }.

Definition init_decode (b : list N) : res bdx_init :=
  let? (tcb, b1) := take_le 1 b in
  let? (rcb, b2) := take_le 1 b1 in
  let rc := rc_of_byte rcb in
  let? (mbs, b3) := take_le 2 b2 in
  let? (start, b4) := take_range (rc_start rc) (rc_wide rc) b3 in
  let? (len, b5) := take_range (rc_def_len rc) (rc_wide rc) b4 in
  let? (fdl, b6) := take_le 2 b5 in
  if Nat.ltb (length b6) (N.to_nat fdl) then Err E_TRUNC else
  Ok (mkInit (tc_of_byte tcb) rc mbs start len
        (firstn (N.to_nat fdl) b6) (skipn (N.to_nat fdl) b6)).

Definition init_encode (m : bdx_init) : list N :=
  [tc_to_byte (i_tc m); rc_to_byte (i_rc m)] ++ le_bytes 2 (i_mbs m) ++
  put_range (rc_start (i_rc m)) (rc_wide (i_rc m)) (i_start m) ++
  put_range (rc_def_len (i_rc m)) (rc_wide (i_rc m)) (i_len m) ++
  le_bytes 2 (N.of_nat (length (i_fd m))) ++ i_fd m ++ i_meta m.

Definition init_wf (m : bdx_init) : bool :=
  (tc_version (i_tc m) <? 16) && (i_mbs m <? two16) &&
  range_ok (rc_start (i_rc m)) (rc_wide (i_rc m)) (i_start m) &&
  range_ok (rc_def_len (i_rc m)) (rc_wide (i_rc m)) (i_len m) &&
  (N.of_nat (length (i_fd m)) <? two16) && bytesb (i_fd m) && bytesb (i_meta m).

(** * TransferAccept; [a_receive] selects the ReceiveAccept wire format *)
Record bdx_accept := mkAccept {
  a_receive : bool; a_tc : tctl; a_rc : rctl; a_mbs : N; a_len : N; a_meta : list N }.

Definition accept_decode (receive : bool) (b : list N) : res bdx_accept :=
  let? (tcb, b1) := take_le 1 b in
  if receive then
    let? (rcb, b2) := take_le 1 b1 in
    let rc := rc_of_byte rcb in
    let? (mbs, b3) := take_le 2 b2 in
    let? (len, b4) := take_range (rc_def_len rc) (rc_wide rc) b3 in
    Ok (mkAccept true (tc_of_byte tcb) rc mbs len b4)
  else
    let? (mbs, b2) := take_le 2 b1 in
    Ok (mkAccept false (tc_of_byte tcb) rc_default mbs 0 b2).

Definition accept_encode (m : bdx_accept) : list N :=
  [tc_to_byte (a_tc m)] ++
  (if a_receive m then
     [rc_to_byte (a_rc m)] ++ le_bytes 2 (a_mbs m) ++
     put_range (rc_def_len (a_rc m)) (rc_wide (a_rc m)) (a_len m)
   else le_bytes 2 (a_mbs m)) ++ a_meta m.

(** in a ReceiveAccept the start-offset bit has no field; it survives the byte *)
Definition accept_wf (m : bdx_accept) : bool :=
  (tc_version (a_tc m) <? 16) && (a_mbs m <? two16) && bytesb (a_meta m) &&
  (if a_receive m then range_ok (rc_def_len (a_rc m)) (rc_wide (a_rc m)) (a_len m)
   else (a_len m =? 0) && negb (rc_def_len (a_rc m)) && negb (rc_start (a_rc m)) &&
        negb (rc_wide (a_rc m))).

(** * Block / BlockEof *)
Definition block_decode (b : list N) : res (N * list N) := take_le 4 b.
Definition block_encode (ctr : N) (data : list N) : list N := le_bytes 4 ctr ++ data.

(** * BlockQuery / BlockAck / BlockAckEof: trailing bytes are ignored *)
Definition query_decode (b : list N) : res N := let? (c, _) := take_le 4 b in Ok c.
Definition query_encode (ctr : N) : list N := le_bytes 4 ctr.

(** * BlockQueryWithSkip *)
Definition skip_decode (b : list N) : res (N * N) :=
  let? (c, b1) := take_le 4 b in
  let? (s, _) := take_le 8 b1 in
  Ok (c, s).
Definition skip_encode (ctr skip : N) : list N := le_bytes 4 ctr ++ le_bytes 8 skip.

(** * Monitors *)
Definition tc_eqb (a b : tctl) : bool :=
  (tc_version a =? tc_version b) && Bool.eqb (tc_sender a) (tc_sender b) &&
  Bool.eqb (tc_receiver a) (tc_receiver b) && Bool.eqb (tc_async a) (tc_async b).
Definition rc_eqb (a b : rctl) : bool :=
  Bool.eqb (rc_def_len a) (rc_def_len b) && Bool.eqb (rc_start a) (rc_start b) &&
  Bool.eqb (rc_wide a) (rc_wide b).
Definition init_eqb (a b : bdx_init) : bool :=
  tc_eqb (i_tc a) (i_tc b) && rc_eqb (i_rc a) (i_rc b) && (i_mbs a =? i_mbs b) &&
  (i_start a =? i_start b) && (i_len a =? i_len b) && list_eqb (i_fd a) (i_fd b) &&
  list_eqb (i_meta a) (i_meta b).
Definition accept_eqb (a b : bdx_accept) : bool :=
  Bool.eqb (a_receive a) (a_receive b) && tc_eqb (a_tc a) (a_tc b) && rc_eqb (a_rc a) (a_rc b) &&
  (a_mbs a =? a_mbs b) && (a_len a =? a_len b) && list_eqb (a_meta a) (a_meta b).

Definition res_ok_with {A} (f : A -> bool) (r : res A) : bool :=
  match r with Ok v => f v | _ => false end.
Definition res_dec_with {A} (f : A -> bool) (r : res A) : bool :=
  match r with Ok v => f v | Err _ => true | Panic _ => false end.

Definition mon_init_rt (m : bdx_init) (dec : res bdx_init) : bool :=
  if init_wf m then res_ok_with (init_eqb m) dec else res_dec_with (fun _ => true) dec.
(** whatever is accepted is well-formed and is reproduced by write + parse; the
    accepted bytes are its encoding up to the reserved bits of the two flag bytes *)
Definition mon_init_dec (input : list N) (dec : res bdx_init) : bool :=
  res_dec_with (fun m => init_wf m && res_ok_with (init_eqb m) (init_decode (init_encode m)) &&
                         list_eqb (skipn 2 (init_encode m)) (skipn 2 input)) dec.
Definition mon_accept_rt (m : bdx_accept) (dec : res bdx_accept) : bool :=
  if accept_wf m then res_ok_with (accept_eqb m) dec else res_dec_with (fun _ => true) dec.
Definition mon_accept_dec (receive : bool) (input : list N) (dec : res bdx_accept) : bool :=
  res_dec_with (fun m => accept_wf m && Bool.eqb (a_receive m) receive &&
                         res_ok_with (accept_eqb m) (accept_decode receive (accept_encode m))) dec.
Definition mon_block_rt (ctr : N) (data : list N) (dec : res (N * list N)) : bool :=
  if (ctr <? two32) && bytesb data
  then res_ok_with (fun r => (fst r =? ctr) && list_eqb (snd r) data) dec
  else res_dec_with (fun _ => true) dec.
Definition mon_block_dec (input : list N) (dec : res (N * list N)) : bool :=
  res_dec_with (fun r => list_eqb (block_encode (fst r) (snd r)) input) dec.
Definition mon_query_dec (input : list N) (dec : res N) : bool :=
  res_dec_with (fun c => list_eqb (query_encode c) (firstn 4 input)) dec.
Definition mon_skip_dec (input : list N) (dec : res (N * N)) : bool :=
  res_dec_with (fun r => list_eqb (skip_encode (fst r) (snd r)) (firstn 12 input)) dec.
