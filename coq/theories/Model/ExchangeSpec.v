(** Executable forms of property C10, evaluated by the check on what the
    IMPLEMENTATION did (tables before / after a step, what it reported).  They
    are written over observable tables only and do not call the model's
    [session_post_recv] / [step].  No proofs in this file. *)
From RsM Require Export Model.Exchange.
Open Scope N_scope.

(** * One Session::post_recv, seen from outside *)

(** result classes as the harness reports them *)
Definition RES_ROUTED : N := 0.     (* Ok(false) *)
Definition RES_NEW : N := 1.        (* Ok(true)  *)
Definition RES_DUP : N := 2.
Definition RES_NOEXCH : N := 3.
Definition RES_NOSESS : N := 4.
Definition RES_NOSPACE : N := 5.

Definition role_eqb (a b : role) : bool :=
  match a, b with
  | InitOwned, InitOwned | InitDropped, InitDropped | RespPending, RespPending
  | RespOwned, RespOwned | RespDropped, RespDropped => true
  | _, _ => false
  end.

Definition view_eqb (a b : option (N * role)) : bool :=
  match a, b with
  | None, None => true
  | Some (i, r), Some (j, q) => (i =? j) && role_eqb r q
  | _, _ => false
  end.

(** a slot identifies the exchange of header (exid, init) *)
Definition view_matches (exid : N) (init : bool) (o : option (N * role)) : bool :=
  match o with
  | Some (i, r) => (i =? exid) && Bool.eqb init (is_responder r)
  | None => false
  end.

Fixpoint nth_view (l : list (option (N * role))) (i : nat) : option (N * role) :=
  match l, i with
  | [], _ => None
  | o :: _, O => o
  | _ :: t, S k => nth_view t k
  end.

Definition views_eq (a b : list (option (N * role))) : bool :=
  forallb (fun k => view_eqb (nth_view a k) (nth_view b k)) (seq 0 (Nat.max (length a) (length b))).

(** [post] is [pre] with exactly one free position turned into (exid, RespPending) *)
Definition opened_one (pre post : list (option (N * role))) (exid : N) : bool :=
  let n := Nat.max (length pre) (length post) in
  existsb (fun i =>
    view_eqb (nth_view pre i) None && view_eqb (nth_view post i) (Some (exid, RespPending)) &&
    forallb (fun j => (j =? i)%nat || view_eqb (nth_view pre j) (nth_view post j)) (seq 0 n)) (seq 0 n).

Definition free_slot (cap : nat) (pre : list (option (N * role))) : bool :=
  (length pre <? cap)%nat || existsb (fun o => view_eqb o None) pre.

(** The gate and the routing rule, in the words of the property:
    - a message is routed only to a slot with its exchange id and role;
    - it opens an exchange only if: initiator flag, opcode may start an
      exchange, session not expired, no slot matches, counter fresh, and then
      exactly one free slot becomes (exid, accept-pending);
    - in every other case the (id, role) table is untouched;
    - an answer (or standalone ack / status report) to an unknown exchange is
      rejected with NoExchange; an opener on an expired session with NoSession;
      an opener with no free slot with NoSpaceExchanges. *)
Definition post_recv_ok (cap : nat) (pre : list (option (N * role))) (expired fresh : bool)
    (exid : N) (init : bool) (op : opclass) (res : N) (post : list (option (N * role))) : bool :=
  let matches := existsb (view_matches exid init) pre in
  let may_open := init && is_new_exchange op in
  if negb fresh then (res =? RES_DUP) && views_eq pre post
  else if matches then
    (* routed to the existing exchange, or refused by its reliability layer; never a new one *)
    negb (res =? RES_NEW) && negb (res =? RES_NOEXCH) && negb (res =? RES_NOSESS) && negb (res =? RES_NOSPACE)
    && views_eq pre post
  else if negb may_open then (res =? RES_NOEXCH) && views_eq pre post
  else if expired then (res =? RES_NOSESS) && views_eq pre post
  else if negb (free_slot cap pre) then (res =? RES_NOSPACE) && views_eq pre post
  else (res =? RES_NEW) && opened_one pre post exid.

(** * One step of the transport, seen from outside

    The check reconstructs a [sys] value from the implementation's snapshot
    before and after each step (tables, RX slot, live Exchange objects) and
    evaluates these clauses on it. *)

Definition oview_b (o : option (option exch)) : option (N * role) :=
  match o with Some (Some e) => Some (e_id e, e_role e) | _ => None end.

(** decidable life cycle of a slot (Proofs/ExchangeLifecycle.v: [lifecycle]) *)
Definition lifecycle_b (l : label) (key : N) (expired : bool) (o o' : option (N * role)) : bool :=
  view_eqb o o' ||
  match l, o, o' with
  | LRx m, None, Some (i, RespPending) =>
      (m_key m =? key) && (m_exid m =? i) && m_init m && is_new_exchange (m_op m) && negb expired
  | LInitiate _ exid, None, Some (i, InitOwned) => exid =? i
  | LAccept, Some (i, RespPending), Some (j, RespOwned) => i =? j
  | LSweepAccept, Some (i, RespPending), Some (j, RespDropped) => i =? j
  | LDropExch _ _, Some (i, r), Some (j, q) => (i =? j) && is_owned r && role_eqb q (set_dropped r)
  | LDropExch _ _, Some (_, r), None => is_owned r
  | LCloseDropped, Some (_, r), None => is_dropped r
  | _, _, _ => false
  end.

Fixpoint slots_lifecycle_b (n : nat) (l : label) (key : N) (expired : bool)
    (a b : list (option exch)) : bool :=
  match n with
  | O => true
  | S k =>
      lifecycle_b l key expired (oview_b (nth_error a k)) (oview_b (nth_error b k))
      && slots_lifecycle_b k l key expired a b
  end.

(** every session after the step is an old one whose slots moved along the
    life cycle, or a brand-new one whose slots were opened by this step *)
Definition sessions_lifecycle_b (l : label) (pre post : list session) : bool :=
  forallb (fun se' =>
    match find_sid pre (s_id se') with
    | Some se =>
        (s_key se' =? s_key se) &&
        slots_lifecycle_b (Nat.max (length (s_exchs se)) (length (s_exchs se'))) l (s_key se) (s_expired se)
                          (s_exchs se) (s_exchs se')
    | None =>
        slots_lifecycle_b (length (s_exchs se')) l (s_key se') false [] (s_exchs se')
    end) post.

(** a delivery reported by the implementation is to the exchange the message names *)
Definition deliver_ok (pre : sys) (sid : N) (idx : nat) (m : msg) : bool :=
  match find_sid (sessions pre) sid with
  | Some se =>
      (s_key se =? m_key m) &&
      match nth_error (s_exchs se) idx with
      | Some (Some e) => exch_is_for_rx e m && is_owned (e_role e)
      | _ => false
      end
  | None => false
  end.

(** the message in the RX slot has no live owner *)
Definition unowned (ss : list session) (m : msg) : bool :=
  match owner_of ss m with
  | None => true
  | Some (_, _, e) => is_dropped (e_role e)
  end.

(** orphan sweeper: fires exactly when the slot holds an unowned message *)
Definition sweep_orphan_ok (pre : sys) (fired : bool) : bool :=
  match rx pre with
  | RxHolding m => Bool.eqb fired (unowned (sessions pre) m)
  | _ => negb fired
  end.

(** accept-timeout sweeper: fires only on an accept-pending owner, not before
    the deadline, and not later than the deadline ([lo], [hi] bound the age of
    the message in ms as measured by the harness around the call) *)
Definition sweep_accept_ok (pre : sys) (fired : bool) (lo hi : N) : bool :=
  match rx pre with
  | RxHolding m =>
      match owner_of (sessions pre) m with
      | Some (_, _, e) =>
          if is_pending (e_role e) then
            if fired then ACCEPT_TIMEOUT_MS <=? hi else lo <? ACCEPT_TIMEOUT_MS
          else negb fired
      | None => negb fired
      end
  | _ => negb fired
  end.

Definition has_dropped (ss : list session) : bool :=
  existsb (fun se => existsb (fun o => match o with Some e => is_dropped (e_role e) | None => false end)
                             (s_exchs se)) ss.

Definition dropped_total (ss : list session) : nat :=
  list_sum (map (fun se => length (filter (fun o => match o with Some e => is_dropped (e_role e) | None => false end)
                                          (s_exchs se))) ss).

(** closer: fires iff some exchange is dropped; closes at least one; sends at
    most one message, a CloseSession only together with removing the session *)
Definition close_ok (pre : sys) (fired : bool) (n_acks n_closes : N) (post : sys) : bool :=
  Bool.eqb fired (has_dropped (sessions pre)) &&
  (if fired then
     (dropped_total (sessions post) <? dropped_total (sessions pre))%nat
     && (n_acks + n_closes <=? 1)
     && (if n_closes =? 1 then (length (sessions post) <? length (sessions pre))%nat
         else (length (sessions post) =? length (sessions pre))%nat
              (* an ephemeral group session goes with its last exchange, silently *)
              || (existsb s_group (sessions pre) && (n_acks =? 0)
                  && (S (length (sessions post)) =? length (sessions pre))%nat))
   else (n_acks + n_closes =? 0)).

(** Exchange::drop: an exchange that still owes an acknowledgement or still has
    a retransmission pending must stay behind as Dropped (so that the closer
    sends the acknowledgement / closes the session); otherwise its slot is freed.
    A dropped Exchange of a vanished session changes nothing. *)
Definition drop_ok (pre post : sys) (sid : N) (idx : nat) : bool :=
  match find_sid (sessions pre) sid with
  | None => true
  | Some se =>
      match nth_error (s_exchs se) idx with
      | Some (Some e) =>
          let after :=
            match find_sid (sessions post) sid with
            | Some se' => match nth_error (s_exchs se') idx with Some o => o | None => None end
            | None => None
            end in
          if retrans_pending e || ack_pending e then
            match after with
            | Some e' => is_dropped (e_role e') && (e_id e' =? e_id e)
            | None => false
            end
          else match after with None => true | Some _ => false end
      | _ => true
      end
  end.

(** accept: only an accept-pending owner of the held message becomes owned *)
Definition accept_ok (pre : sys) (fired : bool) (sid : N) (idx : nat) : bool :=
  match rx pre with
  | RxHolding m =>
      match owner_of (sessions pre) m with
      | Some (se, i, e) =>
          if fired then is_pending (e_role e) && (s_id se =? sid) && (i =? idx)%nat
          else negb (is_pending (e_role e))
      | None => negb fired
      end
  | _ => negb fired
  end.

(** RX: a kept message has an owner in the resulting table that is not dropped...
    (a message for a dropped exchange is kept too: the orphan sweeper takes it) *)
Definition rx_ok (pre : sys) (m : msg) (kept : bool) (post : sys) : bool :=
  if kept then
    match owner_of (sessions post) m with Some _ => true | None => false end
  else true.

(** a peer's CloseSession (not a duplicate) removes the session it arrived on,
    whatever exchange it names *)
Definition peer_close_ok (pre : sys) (m : msg) (dup : bool) (post : sys) : bool :=
  if is_close (m_op m) && negb dup then
    match find_key (sessions pre) (m_key m) with
    | Some se => match find_sid (sessions post) (s_id se) with None => true | Some _ => false end
    | None => true
    end
  else true.

(** ephemeral RX group sessions: always at least one exchange (they come with one
    and go with their last one), and never any reliability state (no MRP on group
    data messages) *)
Definition group_sessions_ok (ss : list session) : bool :=
  forallb (fun se =>
    negb (s_group se) ||
    (existsb (fun o => negb (is_none o)) (s_exchs se) &&
     forallb (fun o => match o with
                       | Some e => negb (retrans_pending e) &&
                                   match rm_ack (e_mrp e) with None => true | Some _ => false end
                       | None => true
                       end) (s_exchs se))) ss.

(** * End-to-end observations *)

(** a handler's log entry: what the payload says it was sent as (session key,
    exchange id, initiator flag) against the exchange that received it *)
Definition delivery_matches (p_key p_exid : N) (p_init : bool) (h_key h_exid : N) (h_resp : bool) : bool :=
  (p_key =? h_key) && (p_exid =? h_exid) && Bool.eqb p_init h_resp.
