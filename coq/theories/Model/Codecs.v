(** Models of the onboarding-payload codecs of rs-matter (property C17):
      utils/codec/base38.rs         base-38 text packing (after the fix that makes
                                    the decoder report malformed input)
      verhoeff crate (1.0.0)        check digit used by the manual pairing code
      pairing/code.rs               BasicCommData::compute_pairing_code
      pairing/qr.rs                 QrPayload::parse_pairing_code, QrPayload::emit_chars /
                                    as_str, QrPayload::parse (fixed 88-bit part + raw tail)
      sc.rs                         StatusReport::read / write
    Strings are lists of character codes, byte strings lists of [N] below 256.
    No proofs in this file. *)
From RsM Require Export Lib.MachInt Model.Headers.
Open Scope N_scope.

Definition E_INVDATA : N := 4.    (* ErrorCode::InvalidData *)
Definition E_OPCODE  : N := 5.    (* ErrorCode::InvalidOpcode *)

(** * Base-38 *)

(** BASE38_CHARS: '0'..'9' 'A'..'Z' '-' '.' *)
Definition B38_CHARS : list N :=
  [48;49;50;51;52;53;54;55;56;57;
   65;66;67;68;69;70;71;72;73;74;75;76;77;78;79;80;81;82;83;84;85;86;87;88;89;90;
   45;46].

(** DECODE_BASE38, indexed by [c - 45]; 255 = UNUSED *)
Definition B38_DECODE : list N :=
  [36;37;255;0;1;2;3;4;5;6;7;8;9;255;255;255;255;255;255;255;
   10;11;12;13;14;15;16;17;18;19;20;21;22;23;24;25;26;27;28;29;30;31;32;33;34;35].

Definition RADIX : N := 38.

Definition b38_char (v : N) : N := nth (N.to_nat v) B38_CHARS 0.

(** [encode_base38(value, repeat)] *)
Fixpoint enc38 (value : N) (repeat : nat) : list N :=
  match repeat with
  | O => []
  | S k =>
      let r := value mod RADIX in
      b38_char r :: enc38 ((value - r) / RADIX) k
  end.

(** [encode]: 3 bytes -> 5 characters, a tail of 2 -> 4, of 1 -> 2.
    ([b << 16 | b << 8 | b] on bytes is the sum below.) *)
Fixpoint b38_encode (bs : list N) : list N :=
  match bs with
  | a :: b :: c :: t => enc38 (c * 65536 + b * 256 + a) 5 ++ b38_encode t
  | [a; b] => enc38 (b * 256 + a) 4
  | [a] => enc38 a 2
  | [] => []
  end.

(** [decode_char] *)
Definition b38_decode_char (c : N) : option N :=
  if (45 <=? c) && (c <=? 90) then
    let v := nth (N.to_nat (c - 45)) B38_DECODE 255 in
    if v =? 255 then None else Some v
  else None.

(** the loop [for c in chars.iter().rev() { value = value * RADIX + v }]:
    the recursion handles the tail first, i.e. the characters in reverse *)
Fixpoint dec38_val (chars : list N) : option N :=
  match chars with
  | [] => Some 0
  | c :: t =>
      match dec38_val t, b38_decode_char c with
      | Some r, Some v => Some (r * RADIX + v)
      | _, _ => None
      end
  end.

(** decoded bytes of a chunk by its length: 5 -> 3, 4 -> 2, 2 -> 1, 0 -> 0 *)
Definition b38_chunk_bytes (len : nat) : option nat :=
  match len with
  | 5%nat => Some 3%nat
  | 4%nat => Some 2%nat
  | 2%nat => Some 1%nat
  | 0%nat => Some 0%nat
  | _ => None
  end.

(** [decode_base38] (repaired): invalid length, a character outside the
    alphabet, or a value that does not fit the chunk's bytes is an error *)
Definition dec38_chunk (chars : list N) : res (list N) :=
  match b38_chunk_bytes (length chars) with
  | None => Err E_INVDATA
  | Some rep =>
      match dec38_val chars with
      | None => Err E_INVDATA
      | Some v =>
          if v / 256 ^ N.of_nat rep =? 0 then Ok (le_bytes rep v)
          else Err E_INVDATA
      end
  end.

(** [decode_vec]: whole chunks of 5 then the remainder; first error wins *)
Fixpoint b38_decode (s : list N) : res (list N) :=
  match s with
  | a :: b :: c :: d :: e :: t =>
      let? x := dec38_chunk [a; b; c; d; e] in
      let? y := b38_decode t in
      Ok (x ++ y)
  | _ => dec38_chunk s
  end.

(** * Verhoeff check digit (tables of the [verhoeff] crate) *)

Definition VH_D : list (list N) :=
  [[0;1;2;3;4;5;6;7;8;9];
   [1;2;3;4;0;6;7;8;9;5];
   [2;3;4;0;1;7;8;9;5;6];
   [3;4;0;1;2;8;9;5;6;7];
   [4;0;1;2;3;9;5;6;7;8];
   [5;9;8;7;6;0;4;3;2;1];
   [6;5;9;8;7;1;0;4;3;2];
   [7;6;5;9;8;2;1;0;4;3];
   [8;7;6;5;9;3;2;1;0;4];
   [9;8;7;6;5;4;3;2;1;0]].

Definition VH_P : list (list N) :=
  [[0;1;2;3;4;5;6;7;8;9];
   [1;5;7;6;2;8;3;0;9;4];
   [5;8;0;3;7;9;6;1;4;2];
   [8;9;1;6;0;4;3;5;2;7];
   [9;4;5;3;1;2;6;8;7;0];
   [4;2;8;6;5;7;3;9;0;1];
   [2;7;9;3;8;0;6;4;1;5];
   [7;0;4;6;9;1;3;2;5;8]].

Definition VH_INV : list N := [0;4;3;2;1;5;6;7;8;9].

Definition tbl2 (t : list (list N)) (i j : N) : N :=
  nth (N.to_nat j) (nth (N.to_nat i) t []) 0.
Definition vh_d (c x : N) : N := tbl2 VH_D c x.
Definition vh_p (i d : N) : N := tbl2 VH_P (i mod 8) d.
Definition vh_inv (c : N) : N := nth (N.to_nat c) VH_INV 0.

(** [for (i, digit) in s.bytes().rev().enumerate() { c = D[c][P[(i+off) % 8][digit]] }]
    over the already reversed digit list, [i] = running index + off *)
Fixpoint vh_fold (rdigits : list N) (i c : N) : N :=
  match rdigits with
  | [] => c
  | d :: t => vh_fold t (i + 1) (vh_d c (vh_p i d))
  end.

Definition is_digit (d : N) : bool := d <? 10.

(** [validate_verhoeff_check_digit] on digit values *)
Definition vh_validate (digits : list N) : bool :=
  forallb is_digit digits && (vh_fold (rev digits) 0 0 =? 0).

(** [calculate_verhoeff_check_digit] on digit values (all below 10) *)
Definition vh_calc (digits : list N) : N := vh_inv (vh_fold (rev digits) 1 0).

(** * Decimal digit groups *)

(** [n] decimal digits of [v], most significant first ([{:0>n}] when [v < 10^n]) *)
Fixpoint dec_digits (n : nat) (v : N) : list N :=
  match n with
  | O => []
  | S k => dec_digits k (v / 10) ++ [v mod 10]
  end.

(** [str::parse::<u32>] of a digit group, most significant first *)
Definition dec_val (ds : list N) : N := fold_left (fun acc d => acc * 10 + d) ds 0.

(** * Manual pairing code *)

(** field extraction written arithmetically:
    [x >> k] = [x / 2^k], [x & (2^k - 1)] = [x mod 2^k],
    [a << k | b] with [b < 2^k] = [a * 2^k + b] *)

(** [BasicCommData::compute_pairing_code]: the ten digits (before the check
    digit).  The [write_unwrap!] into a [heapless::String<10>] panics when
    the three groups need more than ten characters. *)
Definition manual_digits10 (passcode disc : N) : res (list N) :=
  let d1 := disc / 1024 in                                      (* (0 << 2) | (disc >> 10) *)
  let g2 := ((disc / 256) mod 4) * 16384 + passcode mod 16384 in (* ((disc & 0x300) << 6) | (pw & 0x3FFF) *)
  let g3 := passcode / 16384 in                                   (* pw >> 14 *)
  if (d1 <? 10) && (g3 <? 10000) then
    Ok (dec_digits 1 d1 ++ dec_digits 5 g2 ++ dec_digits 4 g3)
  else Panic 1.

Definition manual_encode (passcode disc : N) : res (list N) :=
  let? ds := manual_digits10 passcode disc in
  Ok (ds ++ [vh_calc ds]).

(** the 21-digit layout of the specification (no encoder in rs-matter;
    used to state what the parser accepts) *)
Definition manual_encode_long (passcode disc vid pid : N) : list N :=
  let d1 := 4 + disc / 1024 in
  let g2 := ((disc / 256) mod 4) * 16384 + passcode mod 16384 in
  let g3 := passcode / 16384 in
  let ds := dec_digits 1 d1 ++ dec_digits 5 g2 ++ dec_digits 4 g3 ++
            dec_digits 5 vid ++ dec_digits 5 pid in
  ds ++ [vh_calc ds].

Definition digit_char (d : N) : N := 48 + d.

Record manual_payload := mkManual {
  m_long : bool;          (* 21-digit form *)
  m_short_disc : N;       (* upper 4 bits of the discriminator *)
  m_passcode : N;
  m_vid : N;
  m_pid : N
}.

(** separators removed, characters turned into digit values; a non-digit or
    more than 21 digits is an error *)
Fixpoint manual_strip (code : list N) (acc : list N) : res (list N) :=
  match code with
  | [] => Ok acc
  | ch :: t =>
      if (ch =? 45) || (ch =? 32) then manual_strip t acc
      else if (48 <=? ch) && (ch <=? 57) then
        if Nat.ltb (length acc) 21 then manual_strip t (acc ++ [ch - 48])
        else Err E_INVDATA
      else Err E_INVDATA
  end.

Definition slice (l : list N) (off len : nat) : list N := firstn len (skipn off l).

(** [QrPayload::parse_pairing_code], after the separator-stripping loop *)
Definition manual_parse_digits (digits : list N) : res manual_payload :=
  let? long_form :=
    (if Nat.eqb (length digits) 11 then Ok false
     else if Nat.eqb (length digits) 21 then Ok true
     else Err E_INVDATA) in
  if negb (vh_validate digits) then Err E_INVDATA else
  let digit1 := dec_val (slice digits 0 1) in
  if 7 <? digit1 then Err E_INVDATA else
  let vid_pid_present := digit1 / 4 =? 1 in
  if negb (Bool.eqb vid_pid_present long_form) then Err E_INVDATA else
  let disc_11_10 := digit1 mod 4 in
  let group := dec_val (slice digits 1 5) in
  if 65535 <? group then Err E_INVDATA else
  let disc_9_8 := (group / 16384) mod 4 in
  let pass_low := group mod 16384 in
  let pass_high := dec_val (slice digits 6 4) in
  if 8191 <? pass_high then Err E_INVDATA else
  let passcode := pass_high * 16384 + pass_low in
  let short_disc := disc_11_10 * 4 + disc_9_8 in
  if long_form then
    let vid := dec_val (slice digits 10 5) in
    let pid := dec_val (slice digits 15 5) in
    if (65535 <? vid) || (65535 <? pid) then Err E_INVDATA
    else Ok (mkManual true short_disc passcode vid pid)
  else Ok (mkManual false short_disc passcode 0 0).

Definition manual_parse (code : list N) : res manual_payload :=
  let? digits := manual_strip code [] in
  manual_parse_digits digits.

(** * QR payload: fixed 88-bit part and raw optional tail *)

Record qr_payload := mkQr {
  q_version : N;      (* 3 bits *)
  q_vid : N;          (* 16 *)
  q_pid : N;          (* 16 *)
  q_flow : N;         (* 2: CommFlowType 0..2 *)
  q_caps : N;         (* 8 emitted; DiscoveryCapabilities has bits 0..2 *)
  q_disc : N;         (* 12 *)
  q_pass : N          (* 27 *)
}.

(** [emit_bits(input, len)]: [(input >> i) & 1] for [i] in [0, len) *)
Fixpoint bits_of (len : nat) (v : N) : list bool :=
  match len with
  | O => []
  | S k => N.odd v :: bits_of k (v / 2)
  end.

Fixpoint val_of_bits (bs : list bool) : N :=
  match bs with
  | [] => 0
  | b :: t => (if b then 1 else 0) + 2 * val_of_bits t
  end.

(** every byte of the optional TLV data is emitted as 8 bits *)
Definition bytes_to_bits (bs : list N) : list bool := flat_map (bits_of 8) bs.

(** [PackedBitsIterator] followed by [base38::encode_bits]: groups of 8
    bits, least significant first, become the bytes that are base-38 packed
    three at a time (a final group of fewer than 8 bits would trip the
    [assert!(packed_bits % 8 == 0)]; the stream is 88 + 8k bits long) *)
Fixpoint bits_to_bytes (bs : list bool) : list N :=
  match bs with
  | b0 :: b1 :: b2 :: b3 :: b4 :: b5 :: b6 :: b7 :: t =>
      val_of_bits [b0; b1; b2; b3; b4; b5; b6; b7] :: bits_to_bytes t
  | _ => []
  end.

Definition qr_fixed_bits (p : qr_payload) : list bool :=
  bits_of 3 (q_version p) ++ bits_of 16 (q_vid p) ++ bits_of 16 (q_pid p) ++
  bits_of 2 (q_flow p) ++ bits_of 8 (q_caps p) ++ bits_of 12 (q_disc p) ++
  bits_of 27 (q_pass p) ++ bits_of 4 0.

Definition QR_PREFIX : list N := [77; 84; 58].     (* "MT:" *)

(** [emit_chars] / [as_str]: [tail] is the already serialised optional TLV
    structure (empty when there is no serial number and no optional data) *)
Definition qr_encode (p : qr_payload) (tail : list N) : list N :=
  QR_PREFIX ++ b38_encode (bits_to_bytes (qr_fixed_bits p ++ bytes_to_bits tail)).

(** [emit_optional_tlv_data] with an empty serial number: nothing when there
    is no optional data, else the data wrapped in an anonymous structure *)
Definition qr_tail (data : list N) : list N :=
  match data with
  | [] => []
  | _ => 21 :: data ++ [24]
  end.

Definition qr_valid (p : qr_payload) : bool :=
  (q_version p <? 8) && (q_vid p <? two16) && (q_pid p <? two16) &&
  (q_flow p <? 3) && (q_caps p <? 8) && (q_disc p <? 4096) &&
  (q_pass p <? 134217728).

(** [BitReader::read]: [len] bits at [pos], error when past the end *)
Definition bit_read (bits : list bool) (pos len : nat) : res (N * nat) :=
  if Nat.ltb (length bits) (pos + len) then Err E_INVDATA
  else Ok (val_of_bits (firstn len (skipn pos bits)), (pos + len)%nat).

Fixpoint list_eqb (a b : list N) : bool :=
  match a, b with
  | [], [] => true
  | x :: a', y :: b' => (x =? y) && list_eqb a' b'
  | _, _ => false
  end.

Definition strip_prefix (pre s : list N) : option (list N) :=
  if list_eqb (firstn (length pre) s) pre then Some (skipn (length pre) s) else None.

(** [QrPayload::parse] (the serial-number lookup in the tail is TLV reading
    and belongs to C16; the tail is returned raw) *)
Definition qr_decode (s : list N) : res (qr_payload * list N) :=
  match strip_prefix QR_PREFIX s with
  | None => Err E_INVDATA
  | Some body =>
      let? decoded := b38_decode body in
      if Nat.ltb (length decoded) 11 then Err E_INVDATA else
      let bits := bytes_to_bits decoded in
      let? (version, p1) := bit_read bits 0 3 in
      let? (vid, p2) := bit_read bits p1 16 in
      let? (pid, p3) := bit_read bits p2 16 in
      let? (flow, p4) := bit_read bits p3 2 in
      if 2 <? flow then Err E_INVDATA else
      let? (caps, p5) := bit_read bits p4 8 in
      let? (disc, p6) := bit_read bits p5 12 in
      let? (pass, p7) := bit_read bits p6 27 in
      let? (_, p8) := bit_read bits p7 4 in
      Ok (mkQr version vid pid flow (caps mod 8) disc pass, skipn 11 decoded)
  end.

(** * StatusReport *)

Record status_report := mkSR {
  sr_general : N;      (* GeneralCode 0..16 *)
  sr_proto_id : N;     (* u32 *)
  sr_proto_code : N;   (* u16 *)
  sr_data : list N
}.

Definition sr_encode (r : status_report) : list N :=
  le_bytes 2 (sr_general r) ++ le_bytes 4 (sr_proto_id r) ++
  le_bytes 2 (sr_proto_code r) ++ sr_data r.

Definition sr_decode (b : list N) : res status_report :=
  let? (g, b1) := take_le 2 b in
  if 16 <? g then Err E_OPCODE else
  let? (pid, b2) := take_le 4 b1 in
  let? (pc, b3) := take_le 2 b2 in
  Ok (mkSR g pid pc b3).

Definition sr_valid (r : status_report) : bool :=
  (sr_general r <=? 16) && (sr_proto_id r <? two32) && (sr_proto_code r <? two16) &&
  bytesb (sr_data r).
