(** Model of the mediation of Interaction Model operations in rs-matter:
      rs-matter/src/im/expand.rs      (PathExpander: next, next_for_path, resume_endpoint_index)
      rs-matter/src/dm/types/cluster.rs (check_attr_access, check_cmd_access, attributes(), commands())
      rs-matter/src/im/invoker.rs     (process_read / process_write / process_invoke)
      rs-matter/src/im.rs             (handle, timed, timed_out, validate_read, invoke pre-checks)
    Transcribed loop by loop: the cursor (endpoint anchor id, cluster index,
    leaf index), the [last_authorized] cache, the order of the per-leaf
    checks, which errors a wildcard skips and which a concrete path reports.
    The access-control decision itself is Model/Acl.v ([allow],
    [is_endpoint_accessible]).  No proofs in this file. *)
From RsM Require Export Lib.MachInt Model.Acl Model.AclSpec.
Open Scope N_scope.

(** * Status codes (im/encoding.rs: IMStatusCode), only those the mediation produces *)
Inductive status :=
| SSuccess | SUnsupportedAccess | SUnsupportedEndpoint | SInvalidAction
| SUnsupportedCommand | SUnsupportedAttribute | SUnsupportedWrite | SUnsupportedRead
| STimeout | SUnsupportedCluster | SNeedsTimedInteraction | STimedRequestMisMatch
| SUnsupportedEvent.

Definition status_code (s : status) : N :=
  match s with
  | SSuccess => 0 | SUnsupportedAccess => 0x7E | SUnsupportedEndpoint => 0x7F
  | SInvalidAction => 0x80 | SUnsupportedCommand => 0x81 | SUnsupportedAttribute => 0x86
  | SUnsupportedWrite => 0x88 | SUnsupportedRead => 0x8F | STimeout => 0x94
  | SUnsupportedCluster => 0xC3 | SNeedsTimedInteraction => 0xC6 | STimedRequestMisMatch => 0xC9
  | SUnsupportedEvent => 0xC7
  end.

(** * Node metadata (dm/types/{node,endpoint,cluster,attribute,command}.rs) *)

(** an attribute, a command or an event: id, Access bits, and whether the cluster's
    [with_attrs] / [with_cmds] selector includes it *)
Record leaf := mkLeaf { l_id : N; l_access : N; l_on : bool }.

Record cluster := mkCluster { c_id : N; c_attrs : list leaf; c_cmds : list leaf; c_events : list leaf }.

Record endpoint := mkEndpoint { ep_id : N; ep_dts : list N; ep_clusters : list cluster }.

Definition node := list endpoint.

(** im/encoding.rs: GenericPath; None = wildcard *)
Record gpath := mkPath { p_ep : option N; p_cl : option N; p_leaf : option N }.

Definition is_some {A} (o : option A) : bool := match o with Some _ => true | None => false end.

(** [GenericPath::is_wildcard] *)
Definition is_wildcard (p : gpath) : bool :=
  negb (is_some (p_ep p) && is_some (p_cl p) && is_some (p_leaf p)).

(** [path.x.is_none() || path.x == Some(id)] *)
Definition opt_matches (o : option N) (id : N) : bool :=
  match o with None => true | Some x => x =? id end.

(** the operation kind is [AclSpec.operation]: Read | Write | Invoke *)
Definition is_invoke (op : operation) : bool := match op with Invoke => true | _ => false end.
Definition is_read (op : operation) : bool := match op with Read => true | _ => false end.

(** the slice the leaf id is looked up in by check_*_access ([self.attributes] / [self.commands]) *)
Definition declared (op : operation) (c : cluster) : list leaf :=
  if is_invoke op then c_cmds c else c_attrs c.

(** [Cluster::attributes()] / [Cluster::commands()]: the declared leaves the selector includes *)
Definition leaves (op : operation) (c : cluster) : list leaf := filter l_on (declared op c).

(** [.iter().find(|x| x.id == id).map(|x| x.access).unwrap_or(Access::empty())] *)
Definition find_access (ls : list leaf) (id : N) : N :=
  match find (fun l => l_id l =? id) ls with Some l => l_access l | None => 0 end.

(** * Per-leaf checks (cluster.rs) ; None = Ok(()) *)

Definition check_attr_access (fabs : list fabric) (acc : accessor) (timed : bool)
  (e : endpoint) (c : cluster) (write : bool) (attr_id : N) : option status :=
  let perms := find_access (c_attrs c) attr_id in
  let op := if write then ACC_WRITE else ACC_READ in
  if write && negb timed && bits_contains perms ACC_TIMED_ONLY then Some SNeedsTimedInteraction
  else if negb (bits_contains perms op) then
    Some (if write then SUnsupportedWrite else SUnsupportedRead)
  else if allow fabs acc (mkReq (Some (ep_id e)) (Some (c_id c)) (Some perms) op (ep_dts e))
  then None else Some SUnsupportedAccess.

Definition check_cmd_access (fabs : list fabric) (acc : accessor) (timed : bool)
  (e : endpoint) (c : cluster) (cmd_id : N) : option status :=
  let perms := find_access (c_cmds c) cmd_id in
  if negb timed && bits_contains perms ACC_TIMED_ONLY then Some SNeedsTimedInteraction
  else if bits_contains perms ACC_FAB_SCOPED && (a_fab acc =? 0) then Some SUnsupportedAccess
  else if allow fabs acc (mkReq (Some (ep_id e)) (Some (c_id c)) (Some perms) ACC_WRITE (ep_dts e))
  then None else Some SUnsupportedAccess.

(** * The path expander (expand.rs) *)

(** what is fixed during one expansion run: kind of operation, requester,
    the request's [timed] flag, the (dataver / subscription) filter *)
Record xenv := mkEnv {
  xe_op : operation;
  xe_acc : accessor;
  xe_timed : bool;
  xe_flt : N -> N -> N -> bool
}.

(** the resumable cursor: [endpoint_id], [cluster_index], [leaf_index], [last_authorized] *)
Record xstate := mkX {
  x_anchor : option N;
  x_ci : nat;
  x_li : nat;
  x_last : option (N * N * N)
}.

Definition leaf_check (env : xenv) (fabs : list fabric) (e : endpoint) (c : cluster) (id : N)
  : option status :=
  match xe_op env with
  | Invoke => check_cmd_access fabs (xe_acc env) (xe_timed env) e c id
  | Read => check_attr_access fabs (xe_acc env) (xe_timed env) e c false id
  | Write => check_attr_access fabs (xe_acc env) (xe_timed env) e c true id
  end.

Definition last_is (last : option (N * N * N)) (e c l : N) : bool :=
  match last with
  | Some (e0, c0, l0) => (e0 =? e) && (c0 =? c) && (l0 =? l)
  | None => false
  end.

(** result of the innermost loop ([li] = value of [self.leaf_index] on exit) *)
Inductive lres :=
| LFound (leaf_id : N) (li : nat)        (* Ok(Some(..)), leaf_index already incremented *)
| LNone (li : nat)                       (* concrete path filtered out: Ok(None) *)
| LErr (s : status)                      (* concrete path: Err(status) *)
| LEnd (li : nat).                       (* loop condition false *)

(** [while leaf_index < cluster_leaves_len { .. }]; [rest] is the slice of the
    selected leaves from [leaf_index] on *)
Fixpoint leaves_loop (env : xenv) (fabs : list fabric) (path : gpath) (last : option (N * N * N))
  (e : endpoint) (c : cluster) (rest : list leaf) (li : nat) : lres :=
  match rest with
  | [] => LEnd li
  | l :: rest' =>
      if opt_matches (p_leaf path) (l_id l) then
        if xe_flt env (ep_id e) (c_id c) (l_id l) then
          if last_is last (ep_id e) (c_id c) (l_id l) then LFound (l_id l) (S li)
          else match leaf_check env fabs e c (l_id l) with
               | None => LFound (l_id l) (S li)
               | Some s =>
                   if negb (is_wildcard path) then LErr s
                   else leaves_loop env fabs path last e c rest' (S li)
               end
        else if negb (is_wildcard path) then LNone (S li)
             else leaves_loop env fabs path last e c rest' (S li)
      else leaves_loop env fabs path last e c rest' (S li)
  end.

Inductive cres :=
| CFound (cl_id leaf_id : N) (ci li : nat)
| CNone (ci li : nat)
| CErr (s : status)
| CEnd (li : nat).

(** [while cluster_index < endpoint.clusters.len() { .. }] *)
Fixpoint clusters_loop (env : xenv) (fabs : list fabric) (path : gpath) (last : option (N * N * N))
  (e : endpoint) (rest : list cluster) (ci li : nat) : cres :=
  match rest with
  | [] => CEnd li
  | c :: rest' =>
      if opt_matches (p_cl path) (c_id c) then
        match leaves_loop env fabs path last e c (skipn li (leaves (xe_op env) c)) li with
        | LFound id li' => CFound (c_id c) id ci li'
        | LNone li' => CNone ci li'
        | LErr s => CErr s
        | LEnd _ =>
            if negb (is_wildcard path) then
              CErr (if is_invoke (xe_op env) then SUnsupportedCommand else SUnsupportedAttribute)
            else clusters_loop env fabs path last e rest' (S ci) 0
        end
      else clusters_loop env fabs path last e rest' (S ci) li
  end.

Inductive eres :=
| EFound (e_id cl_id leaf_id : N) (ci li : nat)
| ENone (e_id : N) (ci li : nat)
| EErr (s : status)
| EEnd.

(** [while endpoint_index < node.endpoints.len() { .. }] *)
Fixpoint endpoints_loop (env : xenv) (fabs : list fabric) (path : gpath) (last : option (N * N * N))
  (rest : list endpoint) (ci li : nat) : eres :=
  match rest with
  | [] => EEnd
  | e :: rest' =>
      if opt_matches (p_ep path) (ep_id e) && is_endpoint_accessible fabs (xe_acc env) (ep_id e) then
        match clusters_loop env fabs path last e (skipn ci (ep_clusters e)) ci li with
        | CFound cl id ci' li' => EFound (ep_id e) cl id ci' li'
        | CNone ci' li' => ENone (ep_id e) ci' li'
        | CErr s => EErr s
        | CEnd li' =>
            if negb (is_wildcard path) then EErr SUnsupportedCluster
            else endpoints_loop env fabs path last rest' 0 li'
        end
      else endpoints_loop env fabs path last rest' ci li
  end.

(** [binary_search_by_key(&id, |e| e.id)] on a slice sorted strictly
    ascending (debug-asserted by the caller): index of the first endpoint
    whose id is not below the key, and whether it is the key *)
Fixpoint lower_bound (eps : list endpoint) (id : N) : nat * bool :=
  match eps with
  | [] => (0%nat, false)
  | e :: rest =>
      if id <=? ep_id e then (0%nat, ep_id e =? id)
      else let '(i, f) := lower_bound rest id in (S i, f)
  end.

(** [resume_endpoint_index] *)
Definition resume (nd : node) (st : xstate) : nat * xstate :=
  match x_anchor st with
  | None => (0%nat, st)
  | Some id =>
      let '(i, found) := lower_bound nd id in
      if found then (i, st) else (i, mkX None 0 0 (x_last st))
  end.

Inductive nres :=
| NFound (e_id cl_id leaf_id : N) (st : xstate)
| NExhausted                                   (* Ok(None): the item is dropped *)
| NStatus (s : status).                        (* Err(status): the item is dropped *)

(** [next_for_path] *)
Definition next_for_path (env : xenv) (nd : node) (fabs : list fabric) (st : xstate) (path : gpath) : nres :=
  if negb (is_read (xe_op env)) && negb (is_some (p_cl path)) then NStatus SUnsupportedCluster
  else if negb (is_read (xe_op env)) && negb (is_some (p_leaf path)) then NStatus SUnsupportedAttribute
  else
    let '(idx, st1) := resume nd st in
    match endpoints_loop env fabs path (x_last st1) (skipn idx nd) (x_ci st1) (x_li st1) with
    | EFound e cl id ci li => NFound e cl id (mkX (Some e) ci li (Some (e, cl, id)))
    | ENone _ _ _ => NExhausted
    | EErr s => NStatus s
    | EEnd => if negb (is_wildcard path) then NStatus SUnsupportedEndpoint else NExhausted
    end.

(** a request item: its path and its tag (the CommandRef of an invoke item) *)
Record item := mkItem { it_path : gpath; it_tag : option N }.

(** what one call of [PathExpander::next] hands to the responder *)
Inductive yield :=
| YData (e_id cl_id leaf_id : N) (it : item)   (* Ok(expanded): goes to the handler *)
| YStatus (it : item) (s : status).            (* Err(status): reported, no handler call *)

(** the whole expander: cursor, current item, remaining items *)
Record pstate := mkP { ps_x : xstate; ps_cur : option item; ps_items : list item }.

Definition fresh (last : option (N * N * N)) : xstate := mkX None 0 0 last.

(** the part of [next]'s loop that fetches items until one produces something *)
Fixpoint next_items (env : xenv) (nd : node) (fabs : list fabric) (last : option (N * N * N))
  (items : list item) : option yield * pstate :=
  match items with
  | [] => (None, mkP (fresh last) None [])
  | it :: rest =>
      match next_for_path env nd fabs (fresh last) (it_path it) with
      | NFound e cl id st' =>
          (Some (YData e cl id it),
           mkP st' (if is_wildcard (it_path it) then Some it else None) rest)
      | NExhausted => next_items env nd fabs last rest
      | NStatus s => (Some (YStatus it s), mkP (fresh last) None rest)
      end
  end.

(** [PathExpander::next] *)
Definition next (env : xenv) (nd : node) (fabs : list fabric) (ps : pstate) : option yield * pstate :=
  match ps_cur ps with
  | Some it =>
      match next_for_path env nd fabs (ps_x ps) (it_path it) with
      | NFound e cl id st' =>
          (Some (YData e cl id it),
           mkP st' (if is_wildcard (it_path it) then Some it else None) (ps_items ps))
      | NExhausted => next_items env nd fabs (x_last (ps_x ps)) (ps_items ps)
      | NStatus s => (Some (YStatus it s), mkP (fresh (x_last (ps_x ps))) None (ps_items ps))
      end
  | None => next_items env nd fabs (x_last (ps_x ps)) (ps_items ps)
  end.

(** * The responders (im.rs report_attributes / WriteResponder / InvokeResponder + invoker.rs) *)

(** a call the data-model handler receives *)
Inductive hcall :=
| HRead (e cl attr fab : N) (fab_filter : bool)
| HWrite (e cl attr fab : N)
| HInvoke (e cl cmd fab : N).

(** an entry of the response *)
Inductive out :=
| OData (e cl leaf : N) (tag : option N)            (* served by the handler *)
| OStatus (p : gpath) (tag : option N) (s : status).

(** the node (and the fabric table) in force at a step: the configuration
    is replaced when the number of handler calls made so far reaches the
    next switch point *)
Record config := mkCfg { cf_node : node; cf_fabs : list fabric }.

Fixpoint config_at (c0 : config) (sw : list (nat * config)) (ncalls : nat) : config :=
  match sw with
  | [] => c0
  | (k, c) :: rest => if Nat.leb k ncalls then config_at c rest ncalls else c0
  end.

(** [AttrDetails.fab_idx / fab_filter], [CmdDetails.fab_idx] as built by
    [PathExpansionItem::expand] *)
Definition call_of (env : xenv) (ff : bool) (e cl id : N) : hcall :=
  match xe_op env with
  | Read => HRead e cl id (a_fab (xe_acc env)) ff
  | Write => HWrite e cl id (a_fab (xe_acc env))
  | Invoke => HInvoke e cl id (a_fab (xe_acc env))
  end.

Inductive run_res :=
| RunDone (outs : list out) (log : list hcall)
| RunOutOfFuel.

(** [for item in expand_xxx(..) { process_xxx(item) }]: every [Ok] item is
    one handler call, every [Err] item is reported without one *)
Fixpoint run (fuel : nat) (env : xenv) (ff : bool) (c0 : config) (sw : list (nat * config))
  (ncalls : nat) (ps : pstate) (outs : list out) (log : list hcall) : run_res :=
  match fuel with
  | O => RunOutOfFuel
  | S fuel' =>
      let cf := config_at c0 sw ncalls in
      match next env (cf_node cf) (cf_fabs cf) ps with
      | (None, _) => RunDone (rev outs) (rev log)
      | (Some (YData e cl id it), ps') =>
          run fuel' env ff c0 sw (S ncalls) ps'
              (OData e cl id (it_tag it) :: outs) (call_of env ff e cl id :: log)
      | (Some (YStatus it s), ps') =>
          run fuel' env ff c0 sw ncalls ps' (OStatus (it_path it) (it_tag it) s :: outs) log
      end
  end.

Definition expand_all (fuel : nat) (env : xenv) (ff : bool) (c0 : config) (sw : list (nat * config))
  (items : list item) : run_res :=
  run fuel env ff c0 sw 0 (mkP (fresh None) None items) [] [].

(** * The engine (im.rs: handle / read / write / invoke) *)

(** [Attribute::is_system_attr] *)
Definition is_system_attr (id : N) : bool := (0xFFF8 <=? id) && (id <=? 0xFFFF).

(** [validate_attr_wildcard_path] *)
Definition bad_read_path (p : gpath) : bool :=
  negb (is_some (p_cl p)) && match p_leaf p with Some a => negb (is_system_attr a) | None => false end.

(** [timed_out]: [win] = the timeout (ms) of the TimedRequest that opened
    the exchange, [elapsed] = ms since it was handled *)
Definition timed_gate (win : option N) (flag : bool) (elapsed : N) : option status :=
  if negb (Bool.eqb flag (is_some win)) then Some STimedRequestMisMatch
  else match win with
       | Some timeout => if timeout <? elapsed then Some STimeout else None
       | None => None
       end.

Definition path_eqb (a b : gpath) : bool :=
  opt_eqb (p_ep a) (p_ep b) && opt_eqb (p_cl a) (p_cl b) && opt_eqb (p_leaf a) (p_leaf b).

(** the pairwise uniqueness check of a multi-path invoke *)
Fixpoint invoke_items_bad (items : list item) : bool :=
  match items with
  | [] => false
  | i :: rest =>
      negb (is_some (it_tag i))
      || existsb (fun j => path_eqb (it_path i) (it_path j) || opt_eqb (it_tag i) (it_tag j)) rest
      || invoke_items_bad rest
  end.

Record imreq := mkReqst {
  rq_win : option N;          (* a TimedRequest preceded, with this timeout *)
  rq_elapsed : N;
  rq_op : operation;
  rq_flag : bool;             (* the action's own TimedRequest flag *)
  rq_ff : bool;               (* read: fabricFiltered *)
  rq_items : list item
}.

Inductive imresp :=
| RespStatus (s : status)                                (* a bare StatusResponse, nothing processed *)
| RespItems (outs : list out) (log : list hcall)
| RespOutOfFuel.

Definition im_handle (fuel : nat) (max_paths : nat) (who : accessor) (c0 : config) (sw : list (nat * config))
  (rq : imreq) : imresp :=
  let go (timed : bool) :=
    match expand_all fuel (mkEnv (rq_op rq) who timed (fun _ _ _ => true)) (rq_ff rq) c0 sw (rq_items rq) with
    | RunDone outs log => RespItems outs log
    | RunOutOfFuel => RespOutOfFuel
    end in
  match rq_op rq with
  | Read =>
      if existsb (fun it => bad_read_path (it_path it)) (rq_items rq) then RespStatus SInvalidAction
      else go false
  | Write =>
      match timed_gate (rq_win rq) (rq_flag rq) (rq_elapsed rq) with
      | Some s => RespStatus s
      | None => go (rq_flag rq)
      end
  | Invoke =>
      match timed_gate (rq_win rq) (rq_flag rq) (rq_elapsed rq) with
      | Some s => RespStatus s
      | None =>
          if Nat.ltb max_paths (length (rq_items rq)) then RespStatus SInvalidAction
          else if Nat.ltb 1 (length (rq_items rq)) && invoke_items_bad (rq_items rq)
               then RespStatus SInvalidAction
          else go (rq_flag rq)
      end
  end.

(** * A write continued over several chunks (im.rs: the loop of [write])

    Every chunk is a WriteRequest message of its own on the same exchange:
    its own TimedRequest flag is checked against the (one) TimedRequest that
    opened the exchange and against the clock at the time the chunk is
    handled, it is expanded by a fresh expander (the [last_authorized] cache
    does not span chunks) and answered by its own WriteResponse.  A chunk
    refused by the gate ends the interaction. *)
Record wchunk := mkChunk {
  ch_flag : bool;            (* the chunk's own TimedRequest flag *)
  ch_elapsed : N;            (* ms since the TimedRequest was handled, when this chunk is *)
  ch_items : list item
}.

Definition chunk_req (win : option N) (ff : bool) (ch : wchunk) : imreq :=
  mkReqst win (ch_elapsed ch) Write (ch_flag ch) ff (ch_items ch).

Fixpoint write_chunked (fuel max_paths : nat) (who : accessor) (c0 : config) (sw : list (nat * config))
  (win : option N) (ff : bool) (chunks : list wchunk) : list imresp :=
  match chunks with
  | [] => []
  | ch :: rest =>
      let r := im_handle fuel max_paths who c0 sw (chunk_req win ff ch) in
      match r with
      | RespItems _ _ => r :: write_chunked fuel max_paths who c0 sw win ff rest
      | _ => [r]
      end
  end.
