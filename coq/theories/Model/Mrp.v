(** Model of the Message Reliability Protocol pieces of
    rs-matter/src/transport/mrp.rs, exchange.rs (sender loop), session.rs and
    transport.rs (duplicate => standalone ACK).  No proofs in this file. *)
From RsM Require Export Lib.MachInt Model.Dedup.
Open Scope N_scope.

(** * Back-off arithmetic (mrp.rs: RetransEntry::backoff_ms) *)

Definition MRP_MAX_TRANSMISSIONS : N := 5.

Fixpoint iter_n {A} (n : nat) (f : A -> A) (x : A) : A :=
  match n with O => x | S k => iter_n k f (f x) end.

(** [delay = base*11/10; for _ in 0..counter-1 { delay = delay*16/10 };
     delay + delay*jitter*25/(255*100)] — u64 arithmetic, integer division *)
Definition backoff_ms (base counter jitter : N) : N :=
  let d0 := base * 11 / 10 in
  let d := iter_n (N.to_nat (counter - 1)) (fun d => d * 16 / 10) d0 in
  d + (d * jitter * 25) / (255 * 100).

(** [retransmission_timeout_ms]: sum of the ladder with maximum jitter *)
Fixpoint ladder (n : nat) (counter timeout active idle threshold : N) (active_only : bool) : N :=
  match n with
  | O => timeout
  | S k =>
      let base := if active_only || (timeout <? threshold) then active else idle in
      ladder k (counter + 1) (timeout + backoff_ms base counter 255)
             active idle threshold active_only
  end.

Definition retransmission_timeout_ms (active idle threshold : N) (active_only : bool) : N :=
  ladder 5 0 0 active idle threshold active_only.

(** * ReliableMessage (per exchange) *)

Record retrans := mkRetrans { r_base : N; r_ctr : N; r_count : N }.
Record ackent := mkAck { a_ctr : N; a_acked : bool }.
Record rm := mkRm { rm_retr : option retrans; rm_ack : option ackent; rm_received : bool }.

Definition rm_new : rm := mkRm None None false.

Definition ERR_TX_TIMEOUT : N := 1.
Definition ERR_DUPLICATE : N := 2.
Definition PANIC_RETRANS_EXISTS : N := 1.

(** [RetransEntry::new(base_delay, ctr)]: [Some(0)] / [None] fall back to 300 *)
Definition retrans_new (sai : option N) (ctr : N) : retrans :=
  mkRetrans (match sai with Some v => if 0 <? v then v else 300 | None => 300 end) ctr 0.

(** [ReliableMessage::pre_send]: returns the new state and the acknowledgement
    counter piggy-backed on the outgoing header *)
Definition rm_pre_send (s : rm) (tx_ctr : N) (reliable : bool) (sai : option N)
  : rm * res (option N) :=
  let '(ack', piggy) :=
    match rm_ack s with
    | Some a => (Some (mkAck (a_ctr a) true), Some (a_ctr a))
    | None => (None, None)
    end in
  if reliable then
    match rm_retr s with
    | Some r =>
        if r_ctr r =? tx_ctr then
          if r_count r <? MRP_MAX_TRANSMISSIONS then
            (mkRm (Some (mkRetrans (r_base r) (r_ctr r) (r_count r + 1))) ack' false, Ok piggy)
          else
            (* give up: retrans and ack cleared, received_at untouched *)
            (mkRm None None (rm_received s), Err ERR_TX_TIMEOUT)
        else (s, Panic PANIC_RETRANS_EXISTS)
    | None => (mkRm (Some (retrans_new sai tx_ctr)) ack' false, Ok piggy)
    end
  else (mkRm (rm_retr s) ack' false, Ok piggy).

(** [ReliableMessage::post_recv] *)
Definition rm_post_recv (s : rm) (rx_ctr : N) (rx_ack : option N) (reliable : bool)
  : rm * res unit :=
  let after_ack :=
    match rx_ack, rm_retr s with
    | Some k, Some r =>
        if r_ctr r =? k then Ok (mkRm None None (rm_received s)) else Err ERR_DUPLICATE
    | _, _ => Ok s
    end in
  match after_ack with
  | Ok s1 =>
      let s2 := if reliable then mkRm (rm_retr s1) (Some (mkAck rx_ctr false)) (rm_received s1) else s1 in
      (mkRm (rm_retr s2) (rm_ack s2) true, Ok tt)
  | Err e => (s, Err e)
  | Panic p => (s, Panic p)
  end.

Definition rm_retrans_delay (s : rm) (jitter : N) : option N :=
  match rm_retr s with
  | Some r => Some (backoff_ms (r_base r) (r_count r) jitter)
  | None => None
  end.

(** * One exchange of a secure unicast session under an adversarial network

    A (the sender) submits reliable messages one at a time on an exchange
    ([Exchange::send]: the sender loop of exchange.rs); the session's message
    counter also serves A's other exchanges ([AOther]).  The network holds
    multisets of datagrams in both directions; the adversary picks which one
    to deliver, duplicate or drop next, and when A's back-off timer fires. *)

Inductive kind := Main | Other.

Record sys := mkSys {
  a_next : N;                     (* next fresh message counter of the session *)
  a_retr : option (N * N);        (* pending retransmission entry (ctr, count) *)
  a_results : list (N * bool);    (* finished sends in order: (ctr, Ok?) *)
  a_dead : bool;                  (* the application gave the exchange up after TxTimeout *)
  a_tx : N;                       (* transmissions of the pending message so far *)
  b_win : rx;                     (* B's receive window for this session *)
  b_delivered : list N;           (* counters handed to B's exchange, in order *)
  b_overtaken : list N;           (* main counters acknowledged as duplicates though never delivered *)
  ab : list (N * kind);           (* datagrams in flight A -> B *)
  ba : list (N * kind)            (* acknowledgements in flight B -> A: acked counter, and
                                     whether it is addressed to the main exchange *)
}.

Definition sys_init (c0 : N) : sys :=
  mkSys c0 None [] false 0 rx_unsynced [] [] [] [].

Inductive op :=
| ASend            (* application submits the next message *)
| AOther           (* another exchange of the session sends a message *)
| ATimer           (* the back-off of the pending message elapsed *)
| Deliver (i : nat) | DupAB (i : nat) | DropAB (i : nat)
| DeliverAck (j : nat) | DupBA (j : nat) | DropBA (j : nat).

Fixpoint remove_nth {A} (l : list A) (n : nat) : list A :=
  match l, n with
  | [], _ => []
  | _ :: t, O => t
  | x :: t, S k => x :: remove_nth t k
  end.

Definition mem (c : N) (l : list N) : bool := existsb (N.eqb c) l.

Definition b_receive (s : sys) (c : N) (k : kind) : sys :=
  let '(w', acc) := post_recv (b_win s) c true false in
  match k with
  | Other =>
      (* messages of other exchanges are not tracked, except that the transport
         answers every duplicate (reliable or not) with a standalone ACK, which
         travels to that other exchange *)
      mkSys (a_next s) (a_retr s) (a_results s) (a_dead s) (a_tx s) w'
            (b_delivered s) (b_overtaken s) (ab s)
            (if acc then ba s else ba s ++ [(c, Other)])
  | Main =>
      if acc then
        mkSys (a_next s) (a_retr s) (a_results s) (a_dead s) (a_tx s) w'
              (b_delivered s ++ [c]) (b_overtaken s) (ab s) (ba s ++ [(c, Main)])
      else
        (* duplicate => standalone ACK (transport.rs handle_rx_packet) *)
        mkSys (a_next s) (a_retr s) (a_results s) (a_dead s) (a_tx s) w'
              (b_delivered s)
              (if mem c (b_delivered s) then b_overtaken s else b_overtaken s ++ [c])
              (ab s) (ba s ++ [(c, Main)])
  end.

Definition a_receive_ack (s : sys) (c' : N) (kd : kind) : sys :=
  match kd with Other => s | Main =>
  match a_retr s with
  | Some (c, k) =>
      if c =? c' then
        mkSys (a_next s) None (a_results s ++ [(c, true)]) (a_dead s) 0 (b_win s)
              (b_delivered s) (b_overtaken s) (ab s) (ba s)
      else s
  | None => s
  end end.

Definition step (s : sys) (o : op) : sys :=
  match o with
  | ASend =>
      match a_retr s, a_dead s with
      | None, false =>
          mkSys (a_next s + 1) (Some (a_next s, 0)) (a_results s) false 1 (b_win s)
                (b_delivered s) (b_overtaken s) (ab s ++ [(a_next s, Main)]) (ba s)
      | _, _ => s
      end
  | AOther =>
      mkSys (a_next s + 1) (a_retr s) (a_results s) (a_dead s) (a_tx s) (b_win s)
            (b_delivered s) (b_overtaken s) (ab s ++ [(a_next s, Other)]) (ba s)
  | ATimer =>
      match a_retr s with
      | Some (c, k) =>
          if k <? MRP_MAX_TRANSMISSIONS then
            mkSys (a_next s) (Some (c, k + 1)) (a_results s) (a_dead s) (a_tx s + 1) (b_win s)
                  (b_delivered s) (b_overtaken s) (ab s ++ [(c, Main)]) (ba s)
          else
            mkSys (a_next s) None (a_results s ++ [(c, false)]) true 0 (b_win s)
                  (b_delivered s) (b_overtaken s) (ab s) (ba s)
      | None => s
      end
  | Deliver i =>
      match nth_error (ab s) i with
      | Some (c, k) =>
          b_receive (mkSys (a_next s) (a_retr s) (a_results s) (a_dead s) (a_tx s) (b_win s)
                           (b_delivered s) (b_overtaken s) (remove_nth (ab s) i) (ba s)) c k
      | None => s
      end
  | DupAB i =>
      match nth_error (ab s) i with
      | Some d => mkSys (a_next s) (a_retr s) (a_results s) (a_dead s) (a_tx s) (b_win s)
                        (b_delivered s) (b_overtaken s) (ab s ++ [d]) (ba s)
      | None => s
      end
  | DropAB i =>
      mkSys (a_next s) (a_retr s) (a_results s) (a_dead s) (a_tx s) (b_win s)
            (b_delivered s) (b_overtaken s) (remove_nth (ab s) i) (ba s)
  | DeliverAck j =>
      match nth_error (ba s) j with
      | Some (c', kd) =>
          a_receive_ack (mkSys (a_next s) (a_retr s) (a_results s) (a_dead s) (a_tx s) (b_win s)
                               (b_delivered s) (b_overtaken s) (ab s) (remove_nth (ba s) j)) c' kd
      | None => s
      end
  | DupBA j =>
      match nth_error (ba s) j with
      | Some c' => mkSys (a_next s) (a_retr s) (a_results s) (a_dead s) (a_tx s) (b_win s)
                         (b_delivered s) (b_overtaken s) (ab s) (ba s ++ [c'])
      | None => s
      end
  | DropBA j =>
      mkSys (a_next s) (a_retr s) (a_results s) (a_dead s) (a_tx s) (b_win s)
            (b_delivered s) (b_overtaken s) (ab s) (remove_nth (ba s) j)
  end.

Definition run_sys (s : sys) (ops : list op) : sys := fold_left step ops s.
