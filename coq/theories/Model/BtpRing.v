(** Model of rs-matter/src/utils/storage/ringbuf.rs as the real ring: a buffer
    of fixed length, a start and an end index that wrap around, and the
    [non_empty] flag that tells a full ring from an empty one.  Loop by loop as
    in the Rust code (a push or pop is at most two block copies).  Indices and
    lengths are [nat] (they are bounded by the capacity).  No proofs here. *)
From RsM Require Export Lib.MachInt Model.Btp.
Open Scope N_scope.

Record ring := mkRing { g_buf : bytes; g_start : nat; g_end : nat; g_ne : bool }.

(** [RingBuf::new] *)
Definition ring_new : ring := mkRing [] 0 0 false.

Section Ring.
Variable cap : nat.                  (* the const generic N *)

(** [self.buf.resize_default(N)] *)
Definition g_resize (b : bytes) : bytes :=
  if Nat.ltb (length b) cap then b ++ repeat 0 (cap - length b) else firstn cap b.

(** [wrap] *)
Definition g_wrap (r : ring) : ring :=
  mkRing (g_buf r) (if Nat.eqb (g_start r) (length (g_buf r)) then 0%nat else g_start r)
         (if Nat.eqb (g_end r) (length (g_buf r)) then 0%nat else g_end r) (g_ne r).

(** one turn of the [while] loop of [push]; returns the ring and the data left *)
Definition push_turn (r : ring) (data : bytes) : ring * bytes :=
  let len := Nat.min (length (g_buf r) - g_end r) (length data) in
  let buf' := firstn (g_end r) (g_buf r) ++ firstn len data ++ skipn (g_end r + len) (g_buf r) in
  let start' :=
    if g_ne r && Nat.leb (g_end r) (g_start r) && Nat.ltb (g_start r) (g_end r + len)
    then (g_end r + len)%nat            (* dropping the oldest data *)
    else g_start r in
  let r1 := g_wrap (mkRing buf' start' (g_end r + len) (g_ne r)) in
  (mkRing (g_buf r1) (g_start r1) (g_end r1) true, skipn len data).

Fixpoint push_loop (fuel : nat) (r : ring) (data : bytes) : ring :=
  match fuel with
  | O => r
  | S f =>
      match data with
      | [] => r
      | _ :: _ => let '(r1, rest) := push_turn r data in push_loop f r1 rest
      end
  end.

(** [RingBuf::push] *)
Definition ring_push (r : ring) (data : bytes) : ring :=
  push_loop (S (length data)) (mkRing (g_resize (g_buf r)) (g_start r) (g_end r) (g_ne r)) data.

(** one turn of the loop of [pop] for [want] more bytes; returns the ring and the block copied out *)
Definition pop_turn (r : ring) (want : nat) : ring * bytes :=
  let upto := if Nat.ltb (g_start r) (g_end r) then g_end r else length (g_buf r) in
  let len := Nat.min (upto - g_start r) want in
  let out := firstn len (skipn (g_start r) (g_buf r)) in
  let r1 := g_wrap (mkRing (g_buf r) (g_start r + len) (g_end r) (g_ne r)) in
  (mkRing (g_buf r1) (g_start r1) (g_end r1)
          (if Nat.eqb (g_start r1) (g_end r1) then false else g_ne r1), out).

Fixpoint pop_loop (fuel : nat) (r : ring) (want : nat) : ring * bytes :=
  match fuel with
  | O => (r, [])
  | S f =>
      if Nat.ltb 0 want && g_ne r then
        let '(r1, out) := pop_turn r want in
        let '(r2, out2) := pop_loop f r1 (want - length out) in (r2, out ++ out2)
      else (r, [])
  end.

(** [RingBuf::pop] into a buffer of [want] bytes: the ring and the bytes copied *)
Definition ring_pop (r : ring) (want : nat) : ring * bytes := pop_loop (S want) r want.

(** [RingBuf::len] *)
Definition ring_len (r : ring) : nat :=
  if negb (g_ne r) then 0%nat
  else if Nat.ltb (g_start r) (g_end r) then (g_end r - g_start r)%nat
  else (length (g_buf r) + g_end r - g_start r)%nat.

(** [RingBuf::free] *)
Definition ring_free (r : ring) : nat := (cap - ring_len r)%nat.

(** [RingBuf::is_full] / [RingBuf::is_empty] *)
Definition ring_is_full (r : ring) : bool := Nat.eqb (g_start r) (g_end r) && g_ne r.
Definition ring_is_empty (r : ring) : bool := negb (g_ne r).

(** [RingBuf::clear] *)
Definition ring_clear (r : ring) : ring := mkRing (g_buf r) 0 0 false.

(** what the ring holds, oldest byte first: the queue it implements *)
Definition slice (l : bytes) (a b : nat) : bytes := firstn (b - a) (skipn a l).

Definition ring_contents (r : ring) : bytes :=
  if g_ne r then
    if Nat.ltb (g_start r) (g_end r) then slice (g_buf r) (g_start r) (g_end r)
    else slice (g_buf r) (g_start r) (length (g_buf r)) ++ slice (g_buf r) 0 (g_end r)
  else [].

End Ring.
