(** Model of the secured-message receive and send pipeline of rs-matter:
      transport.rs            decode_packet (header.reset, plain decode, get_for_rx,
                              decode_remaining, post_recv; no-session arms)
      transport/session.rs    Session::{is_for_rx, decode_remaining, encode, pre_send,
                              post_recv}, Sessions::{get_for_rx, add,
                              get_or_create_for_group_rx, try_group_decrypt}
      transport/packet.rs     PacketHdr::{decode_remaining, encode}
      transport/proto_hdr.rs  get_iv, encrypt_in_place, decrypt_in_place, adjust_reliability
      transport/network.rs    Address::{canonical, is_reliable}
    on top of the byte-level headers of [Model/Headers.v] (C17), the receive
    window of [Model/Dedup.v] (C04) and the exchange routing of
    [Model/Exchange.v] / [Model/Mrp.v] (C10, C09).  No proofs in this file.

    AEAD is IDEAL (symbolic): a [world] records which terms
    [Aead key nonce aad plaintext] honest parties have sealed, together with the
    byte string each of them occupies on the wire.  Opening succeeds exactly on a
    byte string recorded for a term with the same key, nonce and associated data;
    every other byte string (a flipped, truncated, extended or transplanted one)
    fails.  Keys are symbolic identities ([N]). *)
From RsM Require Export Lib.MachInt Model.Headers Model.Dedup Model.Mrp Model.Exchange.
Open Scope N_scope.

(** * Ideal AEAD *)

Inductive term := Aead (key : N) (nonce aad pt : list N).
Definition world := list (term * list N).

Fixpoint bytes_eqb (a b : list N) : bool :=
  match a, b with
  | [], [] => true
  | x :: a', y :: b' => (x =? y) && bytes_eqb a' b'
  | _, _ => false
  end.

Definition term_eqb (t u : term) : bool :=
  match t, u with
  | Aead k n a p, Aead k' n' a' p' =>
      (k =? k') && bytes_eqb n n' && bytes_eqb a a' && bytes_eqb p p'
  end.

(** does entry [e] record the byte string [c] under (key, nonce, aad)? *)
Definition entry_opens (k : N) (n a c : list N) (e : term * list N) : bool :=
  match fst e with
  | Aead k' n' a' _ => (k' =? k) && bytes_eqb n' n && bytes_eqb a' a && bytes_eqb (snd e) c
  end.

(** [AeadCipher::decrypt_in_place]: [Some plaintext] or authentication failure *)
Definition aead_open (W : world) (k : N) (n a c : list N) : option (list N) :=
  match find (entry_opens k n a c) W with
  | Some (Aead _ _ _ pt, _) => Some pt
  | None => None
  end.

(** [AeadCipher::encrypt_in_place]: the bytes the world records for the term *)
Definition aead_seal (W : world) (t : term) : option (list N) :=
  match find (fun e => term_eqb (fst e) t) W with
  | Some (_, c) => Some c
  | None => None
  end.

(** [get_iv]: security flags (1) ++ message counter (4, LE) ++ node id (8, LE) *)
Definition nonce (secflags ctr node : N) : list N :=
  le_bytes 1 secflags ++ le_bytes 4 ctr ++ le_bytes 8 node.

(** * Addresses (network.rs) *)

(** [a_kind]: 0 UDP, 1 TCP, 2 BTP.  For BTP [a_ip] is the 48-bit device
    address; flow label and scope id of IPv6 socket addresses are not modelled
    (always 0 in the harness). *)
Record addr := mkAddr { a_kind : N; a_v6 : bool; a_ip : N; a_port : N }.

(** [Address::canonical]: [::ffff:a.b.c.d] becomes [a.b.c.d] *)
Definition canonical (a : addr) : addr :=
  if a_kind a =? 2 then a
  else if a_v6 a && (a_ip a / two32 =? 65535) then
    mkAddr (a_kind a) false (a_ip a mod two32) (a_port a)
  else a.

Definition addr_eqb (a b : addr) : bool :=
  (a_kind a =? a_kind b) && Bool.eqb (a_v6 a) (a_v6 b) && (a_ip a =? a_ip b) &&
  (a_port a =? a_port b).

(** [Address::is_reliable] *)
Definition addr_reliable (a : addr) : bool := negb (a_kind a =? 0).

(** * Sessions (session.rs) *)

Inductive smode := MPlain | MPase (fab : N) | MCase (fab : N) | MGroup (fab gid : N).

(** [Session::is_encrypted] *)
Definition mode_enc (m : smode) : bool :=
  match m with MPlain => false | _ => true end.
Definition mode_is_group (m : smode) : bool :=
  match m with MGroup _ _ => true | _ => false end.

Record psess := mkPS {
  ps_id : N;                       (* unique id *)
  ps_addr : addr;                  (* peer_addr *)
  ps_local_node : N;
  ps_peer_node : option N;
  ps_dec_key : N;
  ps_enc_key : N;
  ps_local_sid : N;
  ps_peer_sid : N;
  ps_msg_ctr : N;
  ps_win : Dedup.rx;                     (* rx_ctr_state *)
  ps_mode : smode;
  ps_exchs : list (option exch);
  ps_expired : bool;
  ps_reserved : bool }.

(** [get_dec_key] / [get_enc_key] *)
Definition sess_dec_key (s : psess) : option N :=
  if mode_enc (ps_mode s) then Some (ps_dec_key s) else None.
Definition sess_enc_key (s : psess) : option N :=
  if mode_enc (ps_mode s) then Some (ps_enc_key s) else None.

Definition node_or0 (o : option N) : N := match o with Some v => v | None => 0 end.

Definition opt_eqb (a b : option N) : bool :=
  match a, b with
  | Some x, Some y => x =? y
  | None, None => true
  | _, _ => false
  end.

(** [PlainHdr::is_encrypted]: session id non-zero or the group flag *)
Definition plain_group (p : plain_hdr) : bool := has_bit (p_sec p) 0.
Definition plain_control (p : plain_hdr) : bool := has_bit (p_sec p) 6.
Definition plain_encrypted (p : plain_hdr) : bool :=
  negb (p_sess p =? 0) || plain_group p.

(** [Session::is_for_rx] *)
Definition is_for_rx (s : psess) (from : addr) (p : plain_hdr) : bool :=
  let src := plain_get_src p in
  let nodeid_matches :=
    is_none (ps_peer_node s) || is_none src || opt_eqb (ps_peer_node s) src in
  let dstu := plain_get_dst_unicast p in
  let dest_matches :=
    mode_enc (ps_mode s) || (ps_local_node s =? 0) || is_none dstu ||
    opt_eqb dstu (Some (ps_local_node s)) in
  (* a Group-mode session stands for one group: a groupcast message for another
     group is not for it (a2da8bb); messages naming no group still match *)
  let group_matches :=
    match ps_mode s with
    | MGroup _ gid =>
        match plain_get_dst_groupcast p with Some g => g =? gid | None => true end
    | _ => true
    end in
  nodeid_matches && dest_matches && group_matches && (ps_local_sid s =? p_sess p) &&
  addr_eqb (canonical (ps_addr s)) (canonical from) &&
  Bool.eqb (mode_enc (ps_mode s)) (plain_encrypted p) && negb (ps_reserved s).

(** [Sessions::get_for_rx]: first match in table order (touches [last_use],
    which is not part of the model) *)
Definition find_sess (l : list psess) (from : addr) (p : plain_hdr) : option (nat * psess) :=
  match find_index (fun s => is_for_rx s from p) l with
  | Some i => match nth_error l i with Some s => Some (i, s) | None => None end
  | None => None
  end.

(** ** the part of a session [Session::post_recv] works on *)

Definition core (s : psess) : session :=
  mkSess (ps_id s) 0 (mode_enc (ps_mode s)) (mode_is_group (ps_mode s)) (ps_expired s) (ps_win s) (ps_exchs s).

Definition with_core (s : psess) (c : session) : psess :=
  mkPS (ps_id s) (ps_addr s) (ps_local_node s) (ps_peer_node s) (ps_dec_key s) (ps_enc_key s)
       (ps_local_sid s) (ps_peer_sid s) (ps_msg_ctr s) (s_win c) (ps_mode s) (s_exchs c)
       (ps_expired s) (ps_reserved s).

(** [MessageMeta::from] and its opcode tests: Secure Channel is protocol 0;
    MRPStandAloneAck 0x10, StatusReport 0x40, PBKDFParamRequest 0x20,
    CASESigma1 0x30, MsgCounterSyncReq/Resp 0x00/0x01 *)
Definition opclass_of (x : proto_hdr) : opclass :=
  if x_proto x =? 0 then
    if x_opcode x =? 16 then OpStandaloneAck
    else if x_opcode x =? 64 then OpScStatus
    else if (x_opcode x =? 32) || (x_opcode x =? 48) then OpNewSession
    else OpOrdinary
  else OpOrdinary.

Definition is_control_meta (x : proto_hdr) : bool :=
  (x_proto x =? 0) && ((x_opcode x =? 0) || (x_opcode x =? 1)).

Definition proto_initiator (x : proto_hdr) : bool := has_bit (x_flags x) 0.
Definition proto_reliable (x : proto_hdr) : bool := has_bit (x_flags x) 2.

Definition msg_of (p : plain_hdr) (x : proto_hdr) : msg :=
  mkMsg 0 (plain_encrypted p) (plain_group p) (plain_control p) (p_ctr p) (x_exch x) (proto_initiator x) (opclass_of x)
        (proto_reliable x) (proto_get_ack x).

(** [Session::post_recv] *)
Definition sess_post_recv (s : psess) (p : plain_hdr) (x : proto_hdr) : psess * res bool :=
  let '(c, r) := session_post_recv (core s) (msg_of p x) 0 in (with_core s c, r).

(** * Decoding *)

(** [ProtoHdr::adjust_reliability]: over a reliable transport the R flag and the
    acknowledgement are dropped *)
Definition proto_with_flags (x : proto_hdr) (fl : N) : proto_hdr :=
  mkProto (x_exch x) fl (x_proto x) (x_opcode x) (x_vendor x) (x_ack x).
Definition adjust_rel (reliable_transport : bool) (x : proto_hdr) : proto_hdr :=
  if reliable_transport then proto_set_ack (proto_with_flags x (clr_bit (x_flags x) 2)) None
  else x.

(** [ParseBuf::parsed_as_slice]: what the plain-header decoder consumed *)
Definition consumed (wire rest : list N) : list N :=
  firstn (length wire - length rest) wire.

(** Outcome classes.  [Routed i r]: [Session::post_recv] ran on the session in
    table slot [i] and returned [r]; every other verdict is returned before
    [post_recv] is reached. *)
Inductive verdict :=
| RejPlain (e : N)        (* plain header: TruncatedPacket / Invalid *)
| RejNoSession            (* no session (and no group key) for this packet *)
| RejAuth                 (* AEAD open failed under the session key: InvalidData *)
| RejGroupAuth            (* group: candidate keys existed, none opened and decoded: InvalidSignature *)
| RejProto (e : N)        (* protocol header after decryption: TruncatedPacket / Invalid *)
| RejGroupMalformed       (* group packet without source / destination id: InvalidData *)
| RejTooBig               (* group packet with more than 1280 encrypted bytes: BufferTooSmall *)
| RejGroupDup             (* group counter store: Duplicate (after authentication) *)
| RejNoSpace              (* session table full: NoSpaceSessions *)
| Routed (i : nat) (r : res bool).

Record outcome := mkOut {
  o_verdict : verdict; o_plain : plain_hdr; o_proto : proto_hdr; o_payload : list N }.

(** [PacketHdr::decode_remaining] + [adjust_reliability]: optional AEAD open with
    nonce (security flags, counter, [node]) and the consumed header bytes as
    associated data, then the protocol header *)
Definition decode_remaining (W : world) (key : option N) (node : N) (rel : bool)
    (p : plain_hdr) (aad rest : list N) : verdict + (proto_hdr * list N) :=
  match (match key with
         | Some k => aead_open W k (nonce (p_sec p) (p_ctr p) node) aad rest
         | None => Some rest
         end) with
  | None => inl RejAuth
  | Some pt =>
      match proto_decode pt with
      | Ok (x, payload) => inr (adjust_rel rel x, payload)
      | Err e => inl (RejProto e)
      | Panic _ => inl (RejProto 0)
      end
  end.

(** ** Group keys (fabric.rs groups, group_keys.rs): the candidate operational
    keys in the order [get_or_create_for_group_rx] tries them (fabrics, key-map
    entries, epoch keys), each with the fabric's node id, the mapped group id
    and the group session id derived from the key. *)
Record gcand := mkGC { gc_fab : N; gc_node : N; gc_gid : N; gc_key : N; gc_sid : N }.

Definition MAX_SESSIONS : nat := 16.

Record pstate := mkSt {
  st_sessions : list psess;
  st_groups : list gcand;
  st_gstore : gstore;            (* group counter store (C04) *)
  st_next_id : N }.              (* next_sess_unique_id *)

Definition set_sessions (st : pstate) (l : list psess) : pstate :=
  mkSt l (st_groups st) (st_gstore st) (st_next_id st).

(** What the environment decides: the random start of a new session's message
    counter, and which session [get_session_for_eviction] picks (it depends on
    [last_use], which is outside the model). *)
Record oracle := mkOr { or_rand : N; or_evict : option nat }.

(** [Session::new] as used by [Sessions::add] *)
Definition new_psess (id rnd : N) (reserved : bool) (a : addr) (peer : option N) : psess :=
  mkPS id a 0 peer 0 0 0 0 (rnd mod two28) rx_unsynced MPlain [] false reserved.

(** [Sessions::add]: the unique id advances even when the table is full *)
Definition sessions_add (st : pstate) (rnd : N) (reserved : bool) (a : addr) (peer : option N)
  : pstate * option nat :=
  let id := st_next_id st in
  let nid := if 268435455 <? id + 1 then 0 else id + 1 in
  if (length (st_sessions st) <? MAX_SESSIONS)%nat then
    (mkSt (st_sessions st ++ [new_psess id rnd reserved a peer]) (st_groups st) (st_gstore st) nid,
     Some (length (st_sessions st)))
  else (mkSt (st_sessions st) (st_groups st) (st_gstore st) nid, None).

Definition rej (v : verdict) (p : plain_hdr) : outcome := mkOut v p proto_new [].

(** run [Session::post_recv] on slot [i] *)
Definition route (st : pstate) (i : nat) (s : psess) (p : plain_hdr) (x : proto_hdr)
    (payload : list N) : pstate * outcome :=
  let '(s', r) := sess_post_recv s p x in
  (set_sessions st (set_nth (st_sessions st) i s'), mkOut (Routed i r) p x payload).

(** [decode_packet], existing-session path after [decode_remaining] succeeded
    (repair 6198879): an authenticated group DATA message that reached its
    sender's (ephemeral) Group-mode session first goes through the sender's entry
    in the group counter store - [Duplicate] if it refuses - and only then
    through [Session::post_recv]. *)
Definition group_sender (s : psess) (p : plain_hdr) : option (N * N) :=
  match ps_mode s, ps_peer_node s with
  | MGroup fab _, Some src => if plain_control p then None else Some (fab, src)
  | _, _ => None
  end.

Definition route_existing (st : pstate) (i : nat) (s : psess) (p : plain_hdr) (x : proto_hdr)
    (payload : list N) : pstate * outcome :=
  match group_sender s p with
  | Some (fab, src) =>
      let '(gs, fresh) := g_post_recv (st_gstore st) fab src (p_ctr p) in
      let st1 := mkSt (st_sessions st) (st_groups st) gs (st_next_id st) in
      if fresh then route st1 i s p x payload else (st1, mkOut RejGroupDup p x payload)
  | None => route st i s p x payload
  end.

(** the candidate keys tried for a group packet *)
Definition group_cands (st : pstate) (p : plain_hdr) : list gcand :=
  filter (fun c =>
    (match plain_get_dst_unicast p with Some d => gc_node c =? d | None => true end) &&
    (match plain_get_dst_groupcast p with Some g => gc_gid c =? g | None => true end) &&
    (gc_sid c =? p_sess p)) (st_groups st).

(** [try_group_decrypt] over the candidates: first key that opens AND decodes *)
Fixpoint group_try (W : world) (src : N) (rel : bool) (p : plain_hdr) (aad rest : list N)
    (l : list gcand) : option (gcand * proto_hdr * list N) :=
  match l with
  | [] => None
  | c :: t =>
      match decode_remaining W (Some (gc_key c)) src rel p aad rest with
      | inr (x, payload) => Some (c, x, payload)
      | inl _ => group_try W src rel p aad rest t
      end
  end.

Definition group_session (s : psess) (c : gcand) (sid : N) : psess :=
  mkPS (ps_id s) (ps_addr s) (gc_node c) (ps_peer_node s) (gc_key c) (gc_key c) sid sid
       (ps_msg_ctr s) (ps_win s) (MGroup (gc_fab c) (gc_gid c)) (ps_exchs s)
       (ps_expired s) (ps_reserved s).

(** [Sessions::get_or_create_for_group_rx] followed by [post_recv] *)
Definition group_rx (W : world) (o : oracle) (st : pstate) (from : addr) (p : plain_hdr)
    (aad rest : list N) : pstate * outcome :=
  match plain_get_src p with
  | None => (st, rej RejGroupMalformed p)
  | Some src =>
      if is_none (plain_get_dst_groupcast p) && is_none (plain_get_dst_unicast p) then
        (st, rej RejGroupMalformed p)
      else if (1280 <? length rest)%nat then (st, rej RejTooBig p)
      else
        let cands := group_cands st p in
        match group_try W src (addr_reliable from) p aad rest cands with
        | None =>
            (st, rej (match cands with [] => RejNoSession | _ => RejGroupAuth end) p)
        | Some (c, x, payload) =>
            let '(gs, fresh) :=
              if plain_control p then (st_gstore st, true)
              else g_post_recv (st_gstore st) (gc_fab c) src (p_ctr p) in
            let st1 := mkSt (st_sessions st) (st_groups st) gs (st_next_id st) in
            if negb fresh then (st1, rej RejGroupDup p) else
            let '(st2, slot) := sessions_add st1 (or_rand o) false from (Some src) in
            let '(st3, slot3) :=
              match slot with
              | Some i => (st2, Some i)
              | None =>
                  match or_evict o with
                  | Some k =>
                      sessions_add (set_sessions st2 (swap_remove (st_sessions st2) k))
                                   (or_rand o) false from (Some src)
                  | None => (st2, None)
                  end
              end in
            match slot3 with
            | None => (st3, rej RejNoSpace p)
            | Some i =>
                match nth_error (st_sessions st3) i with
                | Some s0 => route st3 i (group_session s0 c (p_sess p)) p x payload
                | None => (st3, rej RejNoSpace p)
                end
            end
        end
  end.

(** [TransportRunner::decode_packet] on a datagram [wire] received from [from] *)
Definition decode_packet (W : world) (o : oracle) (st : pstate) (from : addr) (wire : list N)
  : pstate * outcome :=
  match plain_decode wire with
  | Err e => (st, rej (RejPlain e) plain_new)
  | Panic _ => (st, rej (RejPlain 0) plain_new)
  | Ok (p, rest) =>
      let aad := consumed wire rest in
      match find_sess (st_sessions st) from p with
      | Some (i, s) =>
          match decode_remaining W (sess_dec_key s) (node_or0 (ps_peer_node s))
                                 (addr_reliable (ps_addr s)) p aad rest with
          | inl v => (st, rej v p)
          | inr (x, payload) => route_existing st i s p x payload
          end
      | None =>
          if negb (plain_encrypted p) then
            match decode_remaining W None 0 (addr_reliable from) p aad rest with
            | inl v => (st, rej v p)
            | inr (x, payload) =>
                if is_new_session (opclass_of x) then
                  let '(st1, slot) := sessions_add st (or_rand o) false from (plain_get_src p) in
                  match slot with
                  | Some i =>
                      match nth_error (st_sessions st1) i with
                      | Some s0 => route st1 i s0 p x payload
                      | None => (st1, mkOut RejNoSpace p x payload)
                      end
                  | None => (st1, mkOut RejNoSpace p x payload)
                  end
                else (st, mkOut RejNoSession p x payload)
            end
          else if plain_group p then group_rx W o st from p aad rest
          else (st, rej RejNoSession p)
      end
  end.

(** * Encoding *)

Definition E_INVALID_STATE : N := 4.
Definition E_NO_WORLD : N := 5.      (* the world has no bytes for the sealed term *)
Definition PANIC_CTR_OVERFLOW : N := 2.
Definition PANIC_NO_EXCH : N := 3.

Definition plain_with (p : plain_hdr) (sess sec ctr : N) : plain_hdr :=
  mkPlain (p_flags p) sess sec ctr (p_src p) (p_dst p).

(** [ExchangeState::pre_send] + [ReliableMessage::pre_send] on slot [i] *)
Definition exch_pre_send (e : exch) (ctr : N) (x : proto_hdr) (sai : option N)
  : exch * res proto_hdr :=
  let fl := if is_responder (e_role e) then clr_bit (x_flags x) 0 else set_bit (x_flags x) 0 in
  let x1 := mkProto (e_id e) fl (x_proto x) (x_opcode x) (x_vendor x) (x_ack x) in
  let '(m', r) := rm_pre_send (e_mrp e) ctr (proto_reliable x1) sai in
  let e' := mkExch (e_id e) (e_role e) m' (e_rat e) in
  match r with
  | Ok (Some a) => (e', Ok (proto_set_ack x1 (Some a)))
  | Ok None => (e', Ok x1)
  | Err c => (e', Err c)
  | Panic s => (e', Panic s)
  end.

Definition set_msg_ctr (s : psess) (c : N) : psess :=
  mkPS (ps_id s) (ps_addr s) (ps_local_node s) (ps_peer_node s) (ps_dec_key s) (ps_enc_key s)
       (ps_local_sid s) (ps_peer_sid s) c (ps_win s) (ps_mode s) (ps_exchs s)
       (ps_expired s) (ps_reserved s).
Definition set_pexchs (s : psess) (l : list (option exch)) : psess :=
  mkPS (ps_id s) (ps_addr s) (ps_local_node s) (ps_peer_node s) (ps_dec_key s) (ps_enc_key s)
       (ps_local_sid s) (ps_peer_sid s) (ps_msg_ctr s) (ps_win s) (ps_mode s) l
       (ps_expired s) (ps_reserved s).
Definition set_pexpired (s : psess) : psess :=
  mkPS (ps_id s) (ps_addr s) (ps_local_node s) (ps_peer_node s) (ps_dec_key s) (ps_enc_key s)
       (ps_local_sid s) (ps_peer_sid s) (ps_msg_ctr s) (ps_win s) (ps_mode s) (ps_exchs s)
       true (ps_reserved s).

(** [Session::pre_send] with the plain header reset by [write_packet].
    [ei]: the exchange slot; [gctr]: the group data counter reserved on that
    exchange ([group_data_ctr.take()]); [x]: protocol id, opcode, R flag and
    vendor as set by the caller. *)
Definition pre_send (s : psess) (ei : option nat) (gctr : option N) (sai : option N)
    (x : proto_hdr) : psess * res (plain_hdr * proto_hdr) :=
  let eo := match ei with
            | Some i => match nth_error (ps_exchs s) i with Some (Some e) => Some (i, e) | _ => None end
            | None => None
            end in
  match ei, eo with
  | Some _, None => (s, Panic PANIC_NO_EXCH)
  | _, _ =>
  let retr := match eo with
              | Some (_, e) => match rm_retr (e_mrp e) with Some r => Some (r_ctr r) | None => None end
              | None => None
              end in
  let is_group := mode_is_group (ps_mode s) in
  let is_control := is_group && is_control_meta x in
  let pick : res (N * psess) :=
    match retr with
    | Some c => Ok (c, s)
    | None =>
        if is_group && negb is_control then
          match gctr with Some c => Ok (c, s) | None => Err E_INVALID_STATE end
        else if ps_msg_ctr s + 1 <? two32 then Ok (ps_msg_ctr s, set_msg_ctr s (ps_msg_ctr s + 1))
        else Panic PANIC_CTR_OVERFLOW
    end in
  match pick with
  | Err c => (s, Err c)
  | Panic c => (s, Panic c)
  | Ok (ctr, s1) =>
      let p0 := plain_with plain_new (ps_peer_sid s) 0 ctr in
      let p1 := plain_set_src p0
                  (if (negb (mode_enc (ps_mode s)) || is_group) && negb (ps_local_node s =? 0)
                   then Some (ps_local_node s) else None) in
      let p2 :=
        if negb (mode_enc (ps_mode s)) || is_control then plain_set_dst_unicast p1 (ps_peer_node s)
        else match ps_mode s with
             | MGroup _ gid => plain_set_dst_groupcast p1 (Some gid)
             | _ => plain_set_dst_unicast p1 None
             end in
      let p3 :=
        if is_group then
          plain_with p2 (p_sess p2)
            (let sf := set_bit (p_sec p2) 0 in if is_control then set_bit sf 6 else clr_bit sf 6)
            (p_ctr p2)
        else p2 in
      let x1 := adjust_rel (addr_reliable (ps_addr s)) x in
      let x2 := if is_group && negb is_control
                then proto_set_ack (proto_with_flags x1 (clr_bit (x_flags x1) 2)) None else x1 in
      match eo with
      | None => (s1, Ok (p3, x2))
      | Some (i, e) =>
          let '(e', r) := exch_pre_send e ctr x2 sai in
          let s2 := set_pexchs s1 (set_nth (ps_exchs s1) i (Some e')) in
          match r with
          | Ok x3 => (s2, Ok (p3, x3))
          | Err c =>
              ((if (c =? ERR_TX_TIMEOUT) && (match ps_mode s with MCase _ => true | _ => false end)
                   && negb (ps_expired s)
                then set_pexpired s2 else s2), Err c)
          | Panic c => (s2, Panic c)
          end
      end
  end
  end.

(** [Session::encode] = [PacketHdr::encode]: protocol header and payload are
    sealed under the encryption key with nonce (security flags, counter, LOCAL
    node id) and the encoded plain header as associated data *)
Definition sealed_term (s : psess) (p : plain_hdr) (x : proto_hdr) (payload : list N) : term :=
  Aead (ps_enc_key s) (nonce (p_sec p) (p_ctr p) (ps_local_node s)) (plain_encode p)
       (proto_encode x ++ payload).

Definition session_encode (W : world) (s : psess) (p : plain_hdr) (x : proto_hdr)
    (payload : list N) : res (list N) :=
  match sess_enc_key s with
  | Some _ =>
      match aead_seal W (sealed_term s p x payload) with
      | Some c => Ok (plain_encode p ++ c)
      | None => Err E_NO_WORLD
      end
  | None => Ok (plain_encode p ++ proto_encode x ++ payload)
  end.
