(** BLE advertisement payloads, rs-matter/src/transport/network/btp/gatt.rs:
    [AdvData] (commissionable, OpCode 0) and [RecoveryAdvData] (network recovery,
    OpCode 1): [iter] (AD1 flags record + AD2 service-data record),
    [parse_adv] (walk over the AD structures, [matter_service_data]) and
    [parse_service_data].  No proofs in this file. *)
From RsM Require Export Lib.MachInt Model.Headers Model.Codecs.
Open Scope N_scope.

Record adv := mkAdv { a_vid : N; a_pid : N; a_disc : N; a_additional : bool }.
Record radv := mkRAdv { r_id : list N; r_additional : bool }.     (* 8-byte recovery id *)

Definition b2n1 (b : bool) : N := if b then 1 else 0.

(** [service_payload_iter] *)
Definition adv_payload (a : adv) : list N :=
  [0] ++ le_bytes 2 (a_disc a) ++ le_bytes 2 (a_vid a) ++ le_bytes 2 (a_pid a) ++
  [b2n1 (a_additional a)].
Definition radv_payload (r : radv) : list N :=
  [1; 0] ++ r_id r ++ [b2n1 (r_additional r)].

(** [iter]: AD1 = len 2, type 0x01, flags; AD2 = len, type 0x16, UUID16 0xFFF6 LE, payload.
    The length byte is [count as u8 + 3]. *)
Definition ad_records (flags : N) (payload : list N) : list N :=
  [2; 1; flags] ++ [(N.of_nat (length payload) + 3) mod 256; 22; 246; 255] ++ payload.
Definition adv_encode (a : adv) : list N := ad_records 6 (adv_payload a).
Definition radv_encode (r : radv) : list N := ad_records 5 (radv_payload r).

(** [matter_service_data]: the [AdStructures] iterator stops at a zero length or
    at a structure running past the end; structures that are not service data
    of UUID 0xFFF6 (or too short to hold a UUID) are skipped *)
Fixpoint ad_find (fuel : nat) (adv : list N) : option (list N) :=
  match fuel with
  | O => None
  | S fuel' =>
      match adv with
      | [] => None
      | len :: rest =>
          if (len =? 0) || Nat.ltb (length rest) (N.to_nat len) then None else
          let structure := firstn (N.to_nat len) rest in
          let rest' := skipn (N.to_nat len) rest in
          match structure with
          | [] => None
          | ty :: payload =>
              if ty =? 22 then
                match payload with
                | u0 :: u1 :: service_data =>
                    if u0 + 256 * u1 =? 65526 then Some service_data else ad_find fuel' rest'
                | _ => ad_find fuel' rest'
                end
              else ad_find fuel' rest'
          end
      end
  end.

Definition matter_service_data (adv : list N) : option (list N) := ad_find (length adv) adv.

(** [AdvData::parse_service_data] *)
Definition adv_parse_service (p : list N) : option adv :=
  if Nat.ltb (length p) 8 then None else
  if negb (nth 0 p 0 =? 0) then None else
  Some (mkAdv (nth 3 p 0 + 256 * nth 4 p 0) (nth 5 p 0 + 256 * nth 6 p 0)
              ((nth 1 p 0 + 256 * nth 2 p 0) mod 4096) ((nth 7 p 0) mod 2 =? 1)).

(** [RecoveryAdvData::parse_service_data] *)
Definition radv_parse_service (p : list N) : option radv :=
  if Nat.ltb (length p) 11 then None else
  if negb (nth 0 p 0 =? 1) then None else
  Some (mkRAdv (firstn 8 (skipn 2 p)) ((nth 10 p 0) mod 2 =? 1)).

Definition adv_parse (advb : list N) : option adv :=
  match matter_service_data advb with Some sd => adv_parse_service sd | None => None end.
Definition radv_parse (advb : list N) : option radv :=
  match matter_service_data advb with Some sd => radv_parse_service sd | None => None end.

Definition adv_valid (a : adv) : bool :=
  (a_vid a <? two16) && (a_pid a <? two16) && (a_disc a <? 4096).
Definition radv_valid (r : radv) : bool := Nat.eqb (length (r_id r)) 8 && bytesb (r_id r).

(** monitors; the implementation reports [None] as "none" *)
Definition adv_eqb (a b : adv) : bool :=
  (a_vid a =? a_vid b) && (a_pid a =? a_pid b) && (a_disc a =? a_disc b) &&
  Bool.eqb (a_additional a) (a_additional b).
Definition radv_eqb (a b : radv) : bool :=
  list_eqb (r_id a) (r_id b) && Bool.eqb (r_additional a) (r_additional b).

Definition mon_adv_rt (a : adv) (parsed_adv parsed_sd : option adv) : bool :=
  if adv_valid a then
    match parsed_adv, parsed_sd with
    | Some x, Some y => adv_eqb a x && adv_eqb a y
    | _, _ => false
    end
  else true.
(** what is accepted is in range, and a commissionable payload never parses as a recovery one *)
Definition mon_adv_dec (parsed : option adv) (parsed_r : option radv) : bool :=
  match parsed with Some a => adv_valid a | None => true end &&
  match parsed_r with Some r => radv_valid r | None => true end &&
  match parsed, parsed_r with Some _, Some _ => false | _, _ => true end.
Definition mon_radv_rt (r : radv) (parsed_adv parsed_sd : option radv) : bool :=
  if radv_valid r then
    match parsed_adv, parsed_sd with
    | Some x, Some y => radv_eqb r x && radv_eqb r y
    | _, _ => false
    end
  else true.
