(** Model for property C08 - commissioning under the fail-safe is
    all-or-nothing.  Executable definitions only (no proofs).

    Transcribed from rs-matter (with the repair "persist before disarm" of
    [handle_commissioning_complete], see design.d/C08.md):
      failsafe.rs           FailSafe / check_state / arm / check_disarm / disarm /
                            expire / add_csr_req / update_csr_req /
                            add_trusted_root_cert / add_noc / update_noc
      dm/clusters/gen_comm.rs   with_armed_failsafe, ArmFailSafe, CommissioningComplete
      dm/clusters/noc.rs        CSRRequest, AddTrustedRootCertificate, AddNOC, UpdateNOC
      dm/clusters/acl.rs        ACL write (store unless the fail-safe is armed for that fabric)
      dm/clusters/net_comm.rs   AddOrUpdateWiFiNetwork / RemoveNetwork (staged in RAM)
      dm/clusters/adm_comm.rs   RevokeCommissioning
      fabric.rs, persist.rs, im.rs   fabric table, one key per fabric, NETWORKS key, boot

    A node is RAM (fail-safe context, breadcrumb, window, PASE session, fabric
    table, networks) plus a key-value store.  Every handler is written as the
    sequence of its effects in code order; the only durable effects are the
    key-value operations, which are returned as a log so that a power loss can
    be placed after any of them ([OCompleteCut]) and a store can be made to
    fail leaving the old value ([OComplete _ 1|2], [OAclW _ _ true]).

    Abstractions: certificates and keys are tokens (root id, node id, key id);
    the controller mints each NOC for the last CSR the node answered, under
    the last root the node accepted (so the chain and key checks of AddNOC /
    UpdateNOC pass whenever the flag checks pass); access control entries are
    their subject node ids, the administrator [ADMIN] is the subject of the
    first entry of every list the model ever builds; the fabric table is
    looked up by index only (its order is not observable). *)
From Coq Require Import NArith List Bool.
Import ListNotations.
Open Scope N_scope.

(** ** Constants of the build under test *)
Definition ADMIN : N := 4369.        (* 0x1111: controller node id, CaseAdminSubject *)
Definition MAX_FABRICS : nat := 5.
Definition MAX_NETS : nat := 3.
Definition VENDOR : N := 65521.      (* 0xFFF1: AdminVendorId of every AddNOC *)

(** ** NocFlags *)
Record flags := mkFlags {
  fl_add_csr : bool;   (* 0x01 *)
  fl_upd_csr : bool;   (* 0x02 *)
  fl_root    : bool;   (* 0x04 *)
  fl_add_noc : bool;   (* 0x08 *)
  fl_upd_noc : bool    (* 0x10 *)
}.

Definition fl_empty := mkFlags false false false false false.
Definition FL_ADD_CSR := mkFlags true false false false false.
Definition FL_UPD_CSR := mkFlags false true false false false.
Definition FL_ROOT    := mkFlags false false true false false.
Definition FL_ADD_NOC := mkFlags false false false true false.
Definition FL_UPD_NOC := mkFlags false false false false true.

Definition fl_union (a b : flags) : flags :=
  mkFlags (fl_add_csr a || fl_add_csr b) (fl_upd_csr a || fl_upd_csr b)
          (fl_root a || fl_root b) (fl_add_noc a || fl_add_noc b)
          (fl_upd_noc a || fl_upd_noc b).

(** [flags.contains(p)] *)
Definition fl_contains (f p : flags) : bool :=
  implb (fl_add_csr p) (fl_add_csr f) && implb (fl_upd_csr p) (fl_upd_csr f) &&
  implb (fl_root p) (fl_root f) && implb (fl_add_noc p) (fl_add_noc f) &&
  implb (fl_upd_noc p) (fl_upd_noc f).

(** [flags.intersects(a)] *)
Definition fl_intersects (f a : flags) : bool :=
  (fl_add_csr f && fl_add_csr a) || (fl_upd_csr f && fl_upd_csr a) ||
  (fl_root f && fl_root a) || (fl_add_noc f && fl_add_noc a) ||
  (fl_upd_noc f && fl_upd_noc a).

Definition fl_bits (f : flags) : N :=
  (if fl_add_csr f then 1 else 0) + (if fl_upd_csr f then 2 else 0) +
  (if fl_root f then 4 else 0) + (if fl_add_noc f then 8 else 0) +
  (if fl_upd_noc f then 16 else 0).

(** ** Data *)
Record fabric := mkFabric {
  f_idx  : N;          (* local fabric index, 1..254 *)
  f_root : N;          (* which root certificate (also determines the fabric id) *)
  f_nid  : N;          (* node id in the NOC *)
  f_key  : N;          (* which operational key *)
  f_acl  : list N;     (* subjects of the access control entries *)
  f_label : N;         (* fabric label (0 = empty) *)
  f_vid  : N           (* vendor id *)
}.

Record nets := mkNets {
  n_managed : bool;
  n_ids : list N
}.

Definition nets_reset := mkNets false [].

(** The key-value store: one key per fabric index, one key for the networks. *)
Record kvs := mkKv {
  k_fabs : list fabric;
  k_net  : option nets
}.

Inductive fs :=
| Idle
| Armed (fab : N) (fl : flags).

(** The PASE session of the commissioner.  (The CASE sessions, one per fabric index, are
    live unless [s_case] says otherwise: a rollback that removes a fabric drops its sessions.) *)
Inductive pase_st :=
| PAbsent
| PLive (fab : N)
| PExpired (fab : N).

Record state := mkState {
  s_fs    : fs;
  s_bc    : N;           (* breadcrumb *)
  s_win   : bool;        (* commissioning window open *)
  s_pase  : pase_st;
  s_fabs  : list fabric; (* RAM fabric table *)
  s_nets  : nets;        (* RAM networks *)
  s_kv    : kvs;
  s_key   : N;           (* staged operational key = key of the last CSR answered *)
  s_root  : N;           (* staged root = last root accepted *)
  s_nkeys : N;           (* CSRs answered so far (names the keys) *)
  s_case  : list (N * bool)
    (* the administrator's CASE sessions that are no longer usable: (fabric index, true) =
       still in the table but marked expired, (fabric index, false) = removed; no entry = live *)
}.

(** sessions a command can arrive on *)
Inductive sess :=
| SP               (* the PASE session *)
| SC (fab : N).    (* a CASE session of the administrator on fabric [fab] *)

Inductive op :=
| OArm (s : sess) (t bc : N)             (* ArmFailSafe(expiry, breadcrumb); t = 0: forced expiry *)
| OCsr (s : sess) (upd : bool)           (* CSRRequest(isForUpdateNOC) *)
| ORoot (s : sess) (r : N)               (* AddTrustedRootCertificate *)
| OAddNoc (s : sess) (nid : N)
| OUpdNoc (s : sess) (nid : N)
| OAclW (s : sess) (k : N) (fail : bool) (* ACL := [admin; k]; fail: the store (if any) fails *)
| OLabel (s : sess) (l : N) (fail : bool)  (* UpdateFabricLabel *)
| OVid (s : sess) (v : N) (fail : bool)    (* SetVIDVerificationStatement(vendor id) *)
| ONetAdd (s : sess) (k : N) (bc : option N)
| ONetDel (s : sess) (k : N)
| OComplete (s : sess) (fault : N)       (* 0 none; 1 / 2: the first / second store fails *)
| OCompleteCut (s : sess) (j : N)        (* power loss after the j-th store of the command *)
| ORevoke (s : sess)
| OTimeout                               (* the fail-safe timer fires *)
| ORestart
| ONewPase                               (* a fresh PASE session is established *)
| ONewCase (f : N).                      (* a fresh CASE session of the administrator on fabric f *)

Inductive status :=
| StOk | StGone | StAccess | StFsReq | StBusy | StAuth | StFail | StConstraint
| StInvCmd | StMissingCsr | StConflict | StTableFull | StNotFound
| StBounds | StIdNotFound | StLabelConflict | StCut (j : N).

(** ** Fabric table: lookups by index *)
Definition fget (i : N) (l : list fabric) : option fabric :=
  find (fun f => f_idx f =? i) l.
Definition fdel (i : N) (l : list fabric) : list fabric :=
  filter (fun f => negb (f_idx f =? i)) l.
Definition fset (f : fabric) (l : list fabric) : list fabric :=
  f :: fdel (f_idx f) l.

Definition fmax (l : list fabric) : N :=
  fold_right (fun f m => N.max (f_idx f) m) 0 l.

(** [Fabrics::add_with_post_init]: max + 1 while below 254, else the first free index *)
Definition first_free (l : list fabric) : option N :=
  find (fun i => match fget i l with None => true | Some _ => false end)
       (map N.of_nat (seq 1 254)).

Definition next_idx (l : list fabric) : option N :=
  if fmax l <? 254 then Some (fmax l + 1) else first_free l.

(** ** Sessions *)
Definition cget (f : N) (l : list (N * bool)) : option bool :=
  match find (fun e => fst e =? f) l with Some e => Some (snd e) | None => None end.
Definition cdel (f : N) (l : list (N * bool)) : list (N * bool) :=
  filter (fun e => negb (fst e =? f)) l.
Definition cset (f : N) (b : bool) (l : list (N * bool)) : list (N * bool) :=
  (f, b) :: cdel f l.

Definition sess_ctx (st : state) (s : sess) : option (N * bool) :=
  (* Some (fabric index of the session mode, is it PASE) when the session is usable *)
  match s with
  | SP => match s_pase st with PLive f => Some (f, true) | _ => None end
  | SC f => match cget f (s_case st) with None => Some (f, false) | Some _ => None end
  end.

(** Access control as far as these commands need it (all need Administer, which the
    administrator's entry grants; PASE is granted implicitly). *)
Definition allowed (st : state) (fab : N) (is_pase : bool) : bool :=
  if is_pase then true
  else match fget fab (s_fabs st) with
       | Some f => existsb (N.eqb ADMIN) (f_acl f)
       | None => false
       end.

(** ** FailSafe::check_state for an armed context and a non-plaintext session.
    [op_upd_noc]: the command is UpdateNOC. *)
Inductive cs_result := CsOk | CsAuth | CsFabIdx | CsMissingCsr | CsConstraint.

Definition check_state (ctx_fab : N) (fl : flags) (sfab : N) (is_pase : bool)
           (present absent : flags) (op_noc op_upd_noc : bool) : cs_result :=
  if op_upd_noc && is_pase then CsAuth
  else if negb (ctx_fab =? sfab) then CsFabIdx
  else if negb (fl_contains fl present) then
    if op_noc && negb (fl_add_csr fl || fl_upd_csr fl) then CsMissingCsr else CsConstraint
  else if fl_intersects fl absent then CsConstraint
  else CsOk.

(** [GenCommHandler::with_armed_failsafe]: [check_armed], fabric mismatch reported as
    invalid authentication. *)
Inductive armed_result := ArOk (ctx_fab : N) (fl : flags) | ArNoFs | ArAuth.

Definition with_armed (st : state) (sfab : N) : armed_result :=
  match s_fs st with
  | Idle => ArNoFs
  | Armed f fl => if f =? sfab then ArOk f fl else ArAuth
  end.

(** ** FailSafe::expire.  [caller]: the session the triggering command arrived on ([None]: the
    timer).  The fabric of the context is dropped from the table (if it is there) and reloaded
    from the store; networks reloaded or reset; every PASE session is removed and, when the
    reload left no fabric at that index, so is the CASE session on it - except that the
    caller's own session, if it is one of those, is kept, marked expired, for the answer. *)
Definition set_fs (st : state) (x : fs) : state :=
  mkState x (s_bc st) (s_win st) (s_pase st) (s_fabs st) (s_nets st) (s_kv st)
          (s_key st) (s_root st) (s_nkeys st) (s_case st).
Definition set_bc (st : state) (x : N) : state :=
  mkState (s_fs st) x (s_win st) (s_pase st) (s_fabs st) (s_nets st) (s_kv st)
          (s_key st) (s_root st) (s_nkeys st) (s_case st).
Definition set_win (st : state) (x : bool) : state :=
  mkState (s_fs st) (s_bc st) x (s_pase st) (s_fabs st) (s_nets st) (s_kv st)
          (s_key st) (s_root st) (s_nkeys st) (s_case st).
Definition set_pase (st : state) (x : pase_st) : state :=
  mkState (s_fs st) (s_bc st) (s_win st) x (s_fabs st) (s_nets st) (s_kv st)
          (s_key st) (s_root st) (s_nkeys st) (s_case st).
Definition set_fabs (st : state) (x : list fabric) : state :=
  mkState (s_fs st) (s_bc st) (s_win st) (s_pase st) x (s_nets st) (s_kv st)
          (s_key st) (s_root st) (s_nkeys st) (s_case st).
Definition set_nets (st : state) (x : nets) : state :=
  mkState (s_fs st) (s_bc st) (s_win st) (s_pase st) (s_fabs st) x (s_kv st)
          (s_key st) (s_root st) (s_nkeys st) (s_case st).
Definition set_kv (st : state) (x : kvs) : state :=
  mkState (s_fs st) (s_bc st) (s_win st) (s_pase st) (s_fabs st) (s_nets st) x
          (s_key st) (s_root st) (s_nkeys st) (s_case st).
Definition set_case (st : state) (x : list (N * bool)) : state :=
  mkState (s_fs st) (s_bc st) (s_win st) (s_pase st) (s_fabs st) (s_nets st) (s_kv st)
          (s_key st) (s_root st) (s_nkeys st) x.

Definition load_nets (kv : kvs) : nets :=
  match k_net kv with Some n => n | None => nets_reset end.

Definition remove_pase (p : pase_st) (keep : bool) : pase_st :=
  if keep then match p with PLive f => PExpired f | q => q end
  else PAbsent.

Definition is_sp (c : option sess) : bool := match c with Some SP => true | _ => false end.
Definition is_sc (c : option sess) (f : N) : bool :=
  match c with Some (SC g) => g =? f | _ => false end.

Definition expire (st : state) (caller : option sess) : state :=
  match s_fs st with
  | Idle => st
  | Armed f _ =>
    let reloaded := fget f (k_fabs (s_kv st)) in
    let fabs' :=
      if f =? 0 then s_fabs st
      else let l := fdel f (s_fabs st) in
           match reloaded with Some kf => fset kf l | None => l end in
    let removed := negb (f =? 0) && match reloaded with None => true | Some _ => false end in
    let case' :=
      if removed then
        match cget f (s_case st) with
        | Some false => s_case st                       (* no such session any more *)
        | _ => cset f (is_sc caller f) (s_case st)
        end
      else s_case st in
    mkState Idle 0 (s_win st) (remove_pase (s_pase st) (is_sp caller)) fabs'
            (load_nets (s_kv st)) (s_kv st) (s_key st) (s_root st) (s_nkeys st) case'
  end.

(** ** Boot: RAM := load(KV).  After a restart the administrator's
    CASE sessions are established afresh.  The controller-side memory (which root was accepted last,
    how many CSRs were answered) survives; it only names tokens. *)
Definition boot (kv : kvs) (key root nkeys : N) : state :=
  mkState Idle 0 false PAbsent (k_fabs kv) (load_nets kv) kv key root nkeys [].

(** ** Key-value operations of a command, in order (successful ones only) *)
Inductive kvop :=
| KStoreFab (f : fabric)
| KStoreNet (n : nets).

Definition kv_apply (kv : kvs) (o : kvop) : kvs :=
  match o with
  | KStoreFab f => mkKv (fset f (k_fabs kv)) (k_net kv)
  | KStoreNet n => mkKv (k_fabs kv) (Some n)
  end.

Definition kv_replay (kv : kvs) (l : list kvop) : kvs := fold_left kv_apply l kv.

(** ** CommissioningComplete after the access checks, as (new state, status, log).
    Order of effects (repaired code): checks; store fabric; networks managed := true,
    store networks (on failure managed restored); disarm; close window; drop PASE. *)
Definition complete_body (st : state) (sfab : N) (is_pase : bool) (fault : N)
  : state * status * list kvop :=
  match with_armed st sfab with
  | ArNoFs => (st, StFsReq, [])
  | ArAuth => (st, StAuth, [])
  | ArOk _ _ =>
    if is_pase then (st, StAuth, [])            (* check_disarm: has to be a CASE session *)
    else match fget sfab (s_fabs st) with
    | None => (st, StNotFound, [])
    | Some fb =>
      if fault =? 1 then (st, StFail, [])
      else
        let kv1 := kv_apply (s_kv st) (KStoreFab fb) in
        let st1 := set_kv st kv1 in
        if fault =? 2 then (st1, StFail, [KStoreFab fb])
        else
          let n := mkNets true (n_ids (s_nets st)) in
          let kv2 := kv_apply kv1 (KStoreNet n) in
          (mkState Idle 0 false PAbsent (s_fabs st) n kv2
                   (s_key st) (s_root st) (s_nkeys st) (s_case st),
           StOk, [KStoreFab fb; KStoreNet n])
    end
  end.

Definition mem (k : N) (l : list N) : bool := existsb (N.eqb k) l.

(** ** One operation *)
Definition step (st : state) (o : op) : state * status :=
  match o with
  | OTimeout => (expire st None, StOk)
  | ORestart => (boot (s_kv st) (s_key st) (s_root st) (s_nkeys st), StOk)
  | ONewPase => (set_pase st (PLive 0), StOk)
  | ONewCase f => (set_case st (cdel f (s_case st)), StOk)
  | OArm s t bc =>
    match sess_ctx st s with
    | None => (st, StGone)
    | Some (sfab, is_pase) =>
      if negb (allowed st sfab is_pase) then (st, StAccess)
      else if t =? 0 then (expire st (Some s), StOk)
      else match s_fs st with
      | Idle =>
        if negb is_pase && s_win st then (st, StBusy)
        else (set_bc (set_fs st (Armed sfab fl_empty)) bc, StOk)
      | Armed f fl =>
        if f =? sfab then (set_bc st bc, StOk) else (st, StBusy)
      end
    end
  | OCsr s upd =>
    match sess_ctx st s with
    | None => (st, StGone)
    | Some (sfab, is_pase) =>
      if negb (allowed st sfab is_pase) then (st, StAccess)
      else match with_armed st sfab with
      | ArNoFs => (st, StFsReq)
      | ArAuth => (st, StFail)
      | ArOk f fl =>
        if upd && is_pase then (st, StInvCmd)
        else match check_state f fl sfab is_pase fl_empty
                               (fl_union FL_ADD_CSR FL_UPD_CSR) false false with
        | CsOk =>
          let k := s_nkeys st + 1 in
          (mkState (Armed f (fl_union fl (if upd then FL_UPD_CSR else FL_ADD_CSR)))
                   (s_bc st) (s_win st) (s_pase st) (s_fabs st) (s_nets st) (s_kv st)
                   k (s_root st) k (s_case st), StOk)
        | CsConstraint | CsMissingCsr => (st, StConstraint)
        | CsAuth | CsFabIdx => (st, StFail)
        end
      end
    end
  | ORoot s r =>
    match sess_ctx st s with
    | None => (st, StGone)
    | Some (sfab, is_pase) =>
      if negb (allowed st sfab is_pase) then (st, StAccess)
      else match with_armed st sfab with
      | ArNoFs => (st, StFsReq)
      | ArAuth => (st, StFail)
      | ArOk f fl =>
        match check_state f fl sfab is_pase fl_empty FL_ROOT false false with
        | CsOk =>
          (mkState (Armed f (fl_union fl FL_ROOT))
                   (s_bc st) (s_win st) (s_pase st) (s_fabs st) (s_nets st) (s_kv st)
                   (s_key st) r (s_nkeys st) (s_case st), StOk)
        | CsConstraint | CsMissingCsr => (st, StConstraint)
        | CsAuth | CsFabIdx => (st, StFail)
        end
      end
    end
  | OAddNoc s nid =>
    match sess_ctx st s with
    | None => (st, StGone)
    | Some (sfab, is_pase) =>
      if negb (allowed st sfab is_pase) then (st, StAccess)
      else match with_armed st sfab with
      | ArNoFs => (st, StFsReq)
      | ArAuth => (st, StFail)
      | ArOk f fl =>
        match check_state f fl sfab is_pase (fl_union FL_ROOT FL_ADD_CSR)
                          (fl_union FL_ADD_NOC (fl_union FL_UPD_CSR FL_UPD_NOC)) true false with
        | CsMissingCsr => (st, StMissingCsr)
        | CsConstraint => (st, StConstraint)
        | CsAuth | CsFabIdx => (st, StFail)
        | CsOk =>
          (* same fabric id and root public key as an existing fabric *)
          if existsb (fun g => f_root g =? s_root st) (s_fabs st) then (st, StConflict)
          else match next_idx (s_fabs st) with
          | None => (st, StTableFull)
          | Some idx =>
            if Nat.leb MAX_FABRICS (length (s_fabs st)) then (st, StTableFull)
            else
              let nf := mkFabric idx (s_root st) nid (s_key st) [ADMIN] 0 VENDOR in
              let fl' := fl_union fl FL_ADD_NOC in
              if is_pase then
                (* [upgrade_fabric_idx]: only a PASE session still on fabric 0 *)
                if sfab =? 0 then
                  (mkState (Armed idx fl') (s_bc st) (s_win st) (PLive idx)
                           (fset nf (s_fabs st)) (s_nets st) (s_kv st)
                           (s_key st) (s_root st) (s_nkeys st) (s_case st), StOk)
                else
                  (* the scope guard removes the fabric again; flags and context stay *)
                  (set_fs st (Armed idx fl'), StFail)
              else
                (mkState (Armed idx fl') (s_bc st) (s_win st) (s_pase st)
                         (fset nf (s_fabs st)) (s_nets st) (s_kv st)
                         (s_key st) (s_root st) (s_nkeys st) (s_case st), StOk)
          end
        end
      end
    end
  | OUpdNoc s nid =>
    match sess_ctx st s with
    | None => (st, StGone)
    | Some (sfab, is_pase) =>
      if sfab =? 0 then (st, StAccess)               (* fabric-scoped command *)
      else if negb (allowed st sfab is_pase) then (st, StAccess)
      else match with_armed st sfab with
      | ArNoFs => (st, StFsReq)
      | ArAuth => (st, StFail)
      | ArOk f fl =>
        match check_state f fl sfab is_pase FL_UPD_CSR
                (fl_union FL_ROOT (fl_union FL_ADD_NOC (fl_union FL_ADD_CSR FL_UPD_NOC)))
                true true with
        | CsMissingCsr => (st, StMissingCsr)
        | CsConstraint => (st, StConstraint)
        | CsAuth | CsFabIdx => (st, StFail)
        | CsOk =>
          match fget sfab (s_fabs st) with
          | None => (st, StNotFound)
          | Some fb =>
            let nf := mkFabric (f_idx fb) (f_root fb) nid (s_key st) (f_acl fb) (f_label fb) (f_vid fb) in
            (mkState (Armed sfab (fl_union fl FL_UPD_NOC)) (s_bc st) (s_win st) (s_pase st)
                     (fset nf (s_fabs st)) (s_nets st) (s_kv st)
                     (s_key st) (s_root st) (s_nkeys st) (s_case st), StOk)
          end
        end
      end
    end
  | OAclW s k fail =>
    match sess_ctx st s with
    | None => (st, StGone)
    | Some (sfab, is_pase) =>
      if sfab =? 0 then (st, StAccess)               (* fabric-scoped attribute *)
      else if negb (allowed st sfab is_pase) then (st, StAccess)
      else match fget sfab (s_fabs st) with
      | None => (st, StNotFound)
      | Some fb =>
        let nf := mkFabric (f_idx fb) (f_root fb) (f_nid fb) (f_key fb) [ADMIN; k]
                           (f_label fb) (f_vid fb) in
        let st1 := set_fabs st (fset nf (s_fabs st)) in
        let armed_for := match s_fs st with Armed f _ => f =? sfab | Idle => false end in
        if armed_for then (st1, StOk)
        else if fail then (st1, StFail)
        else (set_kv st1 (kv_apply (s_kv st) (KStoreFab nf)), StOk)
      end
    end
  | OLabel s l fail =>
    (* fabric.rs update_label, noc.rs handle_update_fabric_label: same store rule as the ACL *)
    match sess_ctx st s with
    | None => (st, StGone)
    | Some (sfab, is_pase) =>
      if sfab =? 0 then (st, StAccess)               (* fabric-scoped command *)
      else if negb (allowed st sfab is_pase) then (st, StAccess)
      else if existsb (fun g => negb (f_idx g =? sfab) && negb (f_label g =? 0) && (f_label g =? l))
                      (s_fabs st) then (st, StLabelConflict)
      else match fget sfab (s_fabs st) with
      | None => (st, StNotFound)
      | Some fb =>
        let nf := mkFabric (f_idx fb) (f_root fb) (f_nid fb) (f_key fb) (f_acl fb) l (f_vid fb) in
        let st1 := set_fabs st (fset nf (s_fabs st)) in
        let armed_for := match s_fs st with Armed f _ => f =? sfab | Idle => false end in
        if armed_for then (st1, StOk)
        else if fail then (st1, StFail)
        else (set_kv st1 (kv_apply (s_kv st) (KStoreFab nf)), StOk)
      end
    end
  | OVid s v fail =>
    (* noc.rs handle_set_vid_verification_statement: staged only while an AddNOC / UpdateNOC of the
       fail-safe context is pending for this fabric ([has_pending_noc_for]); otherwise the WHOLE
       in-memory fabric is stored at once *)
    match sess_ctx st s with
    | None => (st, StGone)
    | Some (sfab, is_pase) =>
      if sfab =? 0 then (st, StAccess)               (* fabric-scoped command *)
      else if negb (allowed st sfab is_pase) then (st, StAccess)
      else match fget sfab (s_fabs st) with
      | None => (st, StNotFound)
      | Some fb =>
        let nf := mkFabric (f_idx fb) (f_root fb) (f_nid fb) (f_key fb) (f_acl fb) (f_label fb) v in
        let st1 := set_fabs st (fset nf (s_fabs st)) in
        let pending :=
          match s_fs st with
          | Armed f fl => (f =? sfab) && (fl_add_noc fl || fl_upd_noc fl)
          | Idle => false
          end in
        if pending then (st1, StOk)
        else if fail then (st1, StFail)
        else (set_kv st1 (kv_apply (s_kv st) (KStoreFab nf)), StOk)
      end
    end
  | ONetAdd s k bc =>
    match sess_ctx st s with
    | None => (st, StGone)
    | Some (sfab, is_pase) =>
      if negb (allowed st sfab is_pase) then (st, StAccess)
      else match with_armed st sfab with
      | ArNoFs => (st, StFsReq)
      | ArAuth => (st, StFail)
      | ArOk _ _ =>
        let ids := n_ids (s_nets st) in
        if negb (mem k ids) && Nat.leb MAX_NETS (length ids) then (st, StBounds)
        else
          let ids' := if mem k ids then ids else ids ++ [k] in
          let st1 := set_nets st (mkNets false ids') in
          (match bc with Some b => set_bc st1 b | None => st1 end, StOk)
      end
    end
  | ONetDel s k =>
    match sess_ctx st s with
    | None => (st, StGone)
    | Some (sfab, is_pase) =>
      if negb (allowed st sfab is_pase) then (st, StAccess)
      else match with_armed st sfab with
      | ArNoFs => (st, StFsReq)
      | ArAuth => (st, StFail)
      | ArOk _ _ =>
        let ids := n_ids (s_nets st) in
        if mem k ids then
          (set_nets st (mkNets false (filter (fun x => negb (x =? k)) ids)), StOk)
        else (st, StIdNotFound)
      end
    end
  | OComplete s fault =>
    match sess_ctx st s with
    | None => (st, StGone)
    | Some (sfab, is_pase) =>
      if sfab =? 0 then (st, StAccess)               (* fabric-scoped command *)
      else if negb (allowed st sfab is_pase) then (st, StAccess)
      else let '(st', r, _) := complete_body st sfab is_pase fault in (st', r)
    end
  | OCompleteCut s j =>
    match sess_ctx st s with
    | None => (boot (s_kv st) (s_key st) (s_root st) (s_nkeys st), StGone)
    | Some (sfab, is_pase) =>
      let log :=
        if sfab =? 0 then []
        else if negb (allowed st sfab is_pase) then []
        else let '(_, _, l) := complete_body st sfab is_pase 0 in l in
      let j' := N.min j (N.of_nat (length log)) in
      (boot (kv_replay (s_kv st) (firstn (N.to_nat j') log))
            (s_key st) (s_root st) (s_nkeys st), StCut j')
    end
  | ORevoke s =>
    match sess_ctx st s with
    | None => (st, StGone)
    | Some (sfab, is_pase) =>
      if negb (allowed st sfab is_pase) then (st, StAccess)
      else (set_win (expire st (Some s)) false, StOk)
    end
  end.

Fixpoint run (st : state) (l : list op) : state * list (status * state) :=
  match l with
  | [] => (st, [])
  | o :: r =>
    let '(st1, r1) := step st o in
    let '(st2, tr) := run st1 r in
    (st2, (r1, st1) :: tr)
  end.

Definition exec (st : state) (l : list op) : state := fst (run st l).

(** ** Initial states used by the correspondence cases *)
Definition fab_init (i : N) : fabric := mkFabric i (i - 1) (8737 + i) (100 + i) [ADMIN] 0 VENDOR.

Definition init_state (window with_nets : bool) (nfab : N) (with_pase : bool) : state :=
  let fabs := if nfab =? 2 then [fab_init 1; fab_init 2] else [fab_init 1] in
  let n := if with_nets then Some (mkNets true [7]) else None in
  let kv := mkKv fabs n in
  mkState Idle 0 window (if with_pase then PLive 0 else PAbsent) fabs (load_nets kv) kv 0 0 0 [].
