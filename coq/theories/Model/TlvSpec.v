(** Executable forms used by the C16 check:
    - [probe_all]: every public accessor of [TLVElement] / [TLVSequence] /
      the two iterators run on one byte string (the harness runs the same
      list on the real code, the driver prints both in the same format,
      and [C16_total] is a statement about this very function);
    - the monitors evaluated on the implementation's outputs.
    No proofs in this file. *)
From Coq Require Import NArith ZArith List Bool.
From RsM Require Import Model.Tlv.
Import ListNotations.
Open Scope N_scope.

(** values an accessor can return, in one type so that they can be listed *)
Inductive outv :=
| OUnit
| OB (b : bool)
| ON (n : N)
| OZ (z : Z)
| OBy (s : bytes)
| OEl (e : bytes)
| OCtl (c : control_t)
| OTag (t : tag)
| OVal (v : tval)
| OTlv (x : tag * tval)
| OOptN (o : option N)
| OItems (l : list (bytes + N))
| OTlvs (l : list ((tag * tval) + N))
| OTree (t : tree)
| OScan (e : bytes) (rest : list (bytes + N)).

Definition pr {A} (f : A -> outv) (r : rres A) : rres outv := rmap f r.

(** context ids looked up in a sequence: fixed ones and two taken from the input *)
Definition ctx_keys (s : bytes) : list N := [0; 1; 2; 255; nth 1 s 0; nth 2 s 7].

(** accessors of [TLVElement::new(s)], in the order the harness runs them *)
Definition probe_el (s : bytes) : list (rres outv) :=
  [ pr OCtl (el_control s);
    pr OTag (el_tag s);
    pr OVal (el_value s);
    pr OTlv (el_tlv s);
    pr OBy (el_raw_value s);
    pr OZ (el_i8 s); pr OZ (el_i16 s); pr OZ (el_i32 s); pr OZ (el_i64 s);
    pr ON (el_u8 s); pr ON (el_u16 s); pr ON (el_u32 s); pr ON (el_u64 s);
    pr ON (el_f32 s); pr ON (el_f64 s);
    pr OBy (el_str s); pr OBy (el_utf8 s); pr OBy (el_octets s);
    pr OB (el_bool s);
    pr OB (el_is_container s);
    pr (fun _ => OUnit) (el_null s);
    pr (fun _ => OUnit) (el_struct s);
    pr (fun _ => OUnit) (el_array s);
    pr (fun _ => OUnit) (el_list s);
    pr (fun _ => OUnit) (el_container s);
    pr (fun _ => OUnit) (el_confirm_anon s);
    pr ON (el_ctx s);
    pr OOptN (el_try_ctx s);
    pr OTree (decode s);
    pr OBy (let! t := el_tag s in el_to_tlv t s) ].

(** accessors of the [TLVSequence] over [s] (the harness obtains it as
    [TLVElement::new(0x15 :: s).structure()]) *)
Definition probe_scan (s : bytes) (k : N) : rres outv :=
  let! r := seq_scan_ctx s k in
  let! rest := seq_iter_all (snd r) in
  ROk (OScan (fst r) rest).

Definition probe_seq (s : bytes) : list (rres outv) :=
  [ pr OItems (seq_iter_all s);
    pr OTlvs (tlv_iter_all s);
    pr OBy (seq_raw_value s) ]
  ++ map (fun k => pr OEl (seq_find_ctx s k)) (ctx_keys s)
  ++ map (fun k => pr OEl (seq_ctx s k)) (ctx_keys s)
  ++ map (probe_scan s) (ctx_keys s).

Definition probe_all (s : bytes) : list (rres outv) := probe_el s ++ probe_seq s.

(** * Monitors (run on the implementation's outputs) *)

Inductive ocl := CValue | CError | CPanic | CFuel.

Definition ocl_of {A} (r : rres A) : ocl :=
  match r with ROk _ => CValue | RErr _ => CError | RPanic _ => CPanic | RFuel => CFuel end.

(** "a value or an error - never a panic, never an unbounded loop" *)
Definition ocl_ok (o : ocl) : bool :=
  match o with CValue | CError => true | _ => false end.
Definition mon_no_panic (l : list ocl) : bool := forallb ocl_ok l.

Fixpoint bytes_eqb (a b : bytes) : bool :=
  match a, b with
  | [], [] => true
  | x :: a', y :: b' => (x =? y) && bytes_eqb a' b'
  | _, _ => false
  end.

(** "the length reported for an element lies within the input": the value
    slice returned for the element is the piece of the input that starts
    after its header ([off] bytes) *)
Definition mon_within (input : bytes) (off : N) (reported : bytes) : bool :=
  (off + blen reported <=? blen input)
  && bytes_eqb reported (firstn (length reported) (skipn (N.to_nat off) input)).

Definition tag_eqb (a b : tag) : bool :=
  match a, b with
  | TgAnon, TgAnon => true
  | TgCtx x, TgCtx y | TgC16 x, TgC16 y | TgC32 x, TgC32 y
  | TgI16 x, TgI16 y | TgI32 x, TgI32 y => x =? y
  | TgF48 a1 a2 a3, TgF48 b1 b2 b3 | TgF64 a1 a2 a3, TgF64 b1 b2 b3 =>
      (a1 =? b1) && (a2 =? b2) && (a3 =? b3)
  | _, _ => false
  end.

Definition width_eqb (a b : width) : bool := widx a =? widx b.
Definition ckind_eqb (a b : ckind) : bool := code_of_ckind a =? code_of_ckind b.

Definition tval_eqb (a b : tval) : bool :=
  match a, b with
  | VS w x, VS w' y => width_eqb w w' && (x =? y)%Z
  | VU w x, VU w' y => width_eqb w w' && (x =? y)
  | VBool x, VBool y => Bool.eqb x y
  | VF32 x, VF32 y | VF64 x, VF64 y => x =? y
  | VUtf w x, VUtf w' y | VStr w x, VStr w' y => width_eqb w w' && bytes_eqb x y
  | VNull, VNull | VEnd, VEnd => true
  | VCont k, VCont k' => ckind_eqb k k'
  | _, _ => false
  end.

Fixpoint tree_eqb (a b : tree) : bool :=
  match a, b with
  | Leaf t v, Leaf t' v' => tag_eqb t t' && tval_eqb v v'
  | Node t k cs, Node t' k' cs' =>
      tag_eqb t t' && ckind_eqb k k' &&
      (fix go (l l' : list tree) : bool :=
         match l, l' with
         | [], [] => true
         | x :: r, y :: r' => tree_eqb x y && go r r'
         | _, _ => false
         end) cs cs'
  | _, _ => false
  end.

(** "a written tree decodes back to an equal value": [written] are the
    bytes the real writer produced for [t] *)
Definition mon_roundtrip (t : tree) (written : bytes) : bool :=
  match decode written with
  | ROk t' => tree_eqb t t'
  | _ => false
  end.

(** a single call of the minimal-width writer API reads back, through the
    matching typed accessor, as the value that was written *)
Definition res_is {A} (eqb : A -> A -> bool) (r : rres A) (x : A) : bool :=
  match r with ROk y => eqb x y | _ => false end.

Definition mon_scalar (o : wop) (written : bytes) : bool :=
  match o with
  | OpTlv t v => res_is tag_eqb (el_tag written) t && res_is tval_eqb (el_value written) v
  | OpI _ t z => res_is tag_eqb (el_tag written) t && res_is Z.eqb (el_i64 written) z
  | OpU _ t n => res_is tag_eqb (el_tag written) t && res_is N.eqb (el_u64 written) n
  | OpF32 t b => res_is tag_eqb (el_tag written) t && res_is N.eqb (el_f32 written) b
  | OpF64 t b => res_is tag_eqb (el_tag written) t && res_is N.eqb (el_f64 written) b
  | OpStr t d => res_is tag_eqb (el_tag written) t && res_is bytes_eqb (el_str written) d
  | OpUtf8 t d => res_is tag_eqb (el_tag written) t && res_is bytes_eqb (el_utf8 written) d
  | OpBool t b => res_is tag_eqb (el_tag written) t && res_is Bool.eqb (el_bool written) b
  | OpNull t => res_is tag_eqb (el_tag written) t && res_is (fun _ _ => true) (el_null written) tt
  | OpStart _ _ | OpEnd => true
  end.

(** "re-encoding a decoded element reproduces its bytes": [reenc] is what
    the implementation's [to_tlv] produced for the element over [input] *)
Definition mon_reencode (input reenc : bytes) : bool :=
  bytes_eqb reenc (firstn (length reenc) input).

(** [ToTLV for TLVElement::tlv_iter(tag)] followed by [TLV::bytes_iter]:
    re-encode a decoded element through the iterator encoder.  The
    element's own [value()] under [tag], then - for a container - every
    [TLV] that [tlv_iter] of its content yields, then the end marker. *)
Fixpoint tlvs_bytes (l : list ((tag * tval) + N)) : rres bytes :=
  match l with
  | [] => ROk []
  | inl (t, v) :: r => let! b := tlvs_bytes r in ROk (w_tlv t v ++ b)
  | inr c :: _ => RErr c
  end.

Definition el_reencode_iter (t : tag) (s : bytes) : rres bytes :=
  if is_nil s then ROk []
  else
    let! v := el_value s in
    match el_container s with
    | ROk sq =>
        let! items := tlv_iter_all sq in
        let! body := tlvs_bytes items in
        ROk (w_tlv t v ++ body ++ w_end)
    | _ => ROk (w_tlv t v)
    end.

(** "decode (encode v) = v" evaluated on the implementation's own read-back:
    [readback] is the tree the real reader returned for the bytes the real
    writer produced for [t] ([tag()], [value()], [container()?.iter()]), and
    [reenc] what re-encoding that element through [tlv_iter] produced *)
Definition mon_read_back (t readback : tree) (written reenc : bytes) : bool :=
  tree_eqb t readback && bytes_eqb reenc written.
