(** Mediation of event reads (and of the priming report of a subscription)
    in rs-matter:
      rs-matter/src/im.rs               (report_events, validate_subscribe)
      rs-matter/src/im/events.rs        (EventReader::process_read, matches_fabric, matches_paths,
                                         matches_path, matches_access)
      rs-matter/src/dm/types/node.rs    (validate_event_path, validate_cluster_path)
      rs-matter/src/dm/types/cluster.rs (check_event_access, event(), events())
    Part 1: the model, transcribed.  Part 2: the specification
    [permitted_events] in the vocabulary of the property.  Part 3: the
    monitor.  No proofs in this file.

    The model is that of the repaired code (design.d/C06.md, finding
    C06-event-fabric-filter): an event whose payload carries the fabric
    index of another fabric is never reported, whatever the request's
    fabricFiltered flag. *)
From RsM Require Export Lib.MachInt Model.Acl Model.AclSpec Model.Im Model.ImSpec.
Open Scope N_scope.

(** * Part 1 - the model *)

(** an event in the queue: where it was emitted and the FabricIndex field
    (context tag 254) of its payload, if it has one *)
Record qevent := mkQEvent { qe_ep : N; qe_cl : N; qe_id : N; qe_fab : option N }.

Definition qe_path (ev : qevent) : gpath := mkPath (Some (qe_ep ev)) (Some (qe_cl ev)) (Some (qe_id ev)).

(** [Cluster::events()]: the declared events the selector includes; [Cluster::event(id)] finds in it *)
Definition ev_enabled (c : cluster) : list leaf := filter l_on (c_events c).

(** [check_event_access]: access bits by first id match in the declared slice, then the ACL with READ *)
Definition check_event_access (fabs : list fabric) (acc : accessor) (e : endpoint) (c : cluster)
  (ev_id : N) : option status :=
  let perms := find_access (c_events c) ev_id in
  if allow fabs acc (mkReq (Some (ep_id e)) (Some (c_id c)) (Some perms) ACC_READ (ep_dts e))
  then None else Some SUnsupportedAccess.

(** [Node::validate_event_path] for a path without node id ([validate_cluster_path] inlined):
    None = Ok(()) *)
Definition validate_event_path (fabs : list fabric) (acc : accessor) (nd : node) (p : gpath)
  : option status :=
  match p_ep p with
  | None => None
  | Some e =>
      match find (fun x => ep_id x =? e) nd with
      | None => Some SUnsupportedEndpoint
      | Some ep =>
          match p_cl p with
          | None => None
          | Some c =>
              match find (fun x => c_id x =? c) (ep_clusters ep) with
              | None => Some SUnsupportedCluster
              | Some cl =>
                  match p_leaf p with
                  | None => None
                  | Some id =>
                      match find (fun l => l_id l =? id) (ev_enabled cl) with
                      | None => Some SUnsupportedEvent
                      | Some evl => check_event_access fabs acc ep cl (l_id evl)
                      end
                  end
              end
          end
      end
  end.

(** report_events, first loop: a status for every concrete path that does
    not validate - except UnsupportedEvent, which is skipped silently *)
Fixpoint event_statuses (fabs : list fabric) (acc : accessor) (nd : node) (paths : list gpath)
  : list out :=
  match paths with
  | [] => []
  | p :: rest =>
      (if negb (is_wildcard p) then
         match validate_event_path fabs acc nd p with
         | None | Some SUnsupportedEvent => []
         | Some s => [OStatus p None s]
         end
       else []) ++ event_statuses fabs acc nd rest
  end.

(** [EventReader::matches_fabric] *)
Definition matches_fabric (acc : accessor) (ev : qevent) : bool :=
  match qe_fab ev with None => true | Some f => f =? a_fab acc end.

(** [EventReader::matches_path]: the request path validates and its fields match the event's *)
Definition ev_matches_path (fabs : list fabric) (acc : accessor) (nd : node) (p : gpath) (ev : qevent)
  : bool :=
  match validate_event_path fabs acc nd p with
  | Some _ => false
  | None =>
      opt_matches (p_ep p) (qe_ep ev) && opt_matches (p_cl p) (qe_cl ev) && opt_matches (p_leaf p) (qe_id ev)
  end.

(** [EventReader::do_process_read] (event number window and event filters not modelled) *)
Definition event_reported (fabs : list fabric) (acc : accessor) (nd : node) (paths : list gpath)
  (ev : qevent) : bool :=
  if negb (matches_fabric acc ev) then false
  else existsb (fun p => ev_matches_path fabs acc nd p ev) paths
       && match validate_event_path fabs acc nd (qe_path ev) with None => true | Some _ => false end.

(** the tag of a data entry carries the event's fabric index *)
Definition event_out (ev : qevent) : out := OData (qe_ep ev) (qe_cl ev) (qe_id ev) (qe_fab ev).

(** a ReadRequest with event paths only: the EventReports of the answer *)
Definition read_events (fabs : list fabric) (acc : accessor) (nd : node) (paths : list gpath)
  (queue : list qevent) : imresp :=
  RespItems (event_statuses fabs acc nd paths
             ++ map event_out (filter (event_reported fabs acc nd paths) queue)) [].

(** a SubscribeRequest with event paths only: [validate_subscribe], then the priming report *)
Definition subscribe_events (fabs : list fabric) (acc : accessor) (nd : node) (paths : list gpath)
  (queue : list qevent) : imresp :=
  match paths with
  | [] => RespStatus SInvalidAction
  | _ =>
      if existsb (fun p => negb (is_wildcard p)
                           && match validate_event_path fabs acc nd p with None => false | Some _ => true end) paths
      then RespStatus SInvalidAction
      else read_events fabs acc nd paths queue
  end.

(** * Part 2 - the specification *)

(** the element an event comes from, if it (still) exists on the node *)
Definition event_source (nd : node) (ev : qevent) : option cand :=
  match find (fun x => ep_id x =? qe_ep ev) nd with
  | None => None
  | Some e =>
      match find (fun x => c_id x =? qe_cl ev) (ep_clusters e) with
      | None => None
      | Some c =>
          match find (fun l => l_id l =? qe_id ev) (filter l_on (c_events c)) with
          | None => None
          | Some l => Some (e, c, l)
          end
      end
  end.

(** the access-control decision for reading an event of that element (C05, declarative) *)
Definition event_granted (fabs : list fabric) (who : accessor) (t : cand) : bool :=
  let '(e, c, l) := t in
  spec_allow fabs who Read (mkReq (Some (ep_id e)) (Some (c_id c)) (Some (l_access l)) ACC_READ (ep_dts e)).

(** a fabric-sensitive event (one that names a fabric) is visible to that fabric only *)
Definition event_visible (who : accessor) (ev : qevent) : bool :=
  match qe_fab ev with None => true | Some f => f =? a_fab who end.

Definition event_matches (p : gpath) (ev : qevent) : bool :=
  wild_or (p_ep p) (qe_ep ev) && wild_or (p_cl p) (qe_cl ev) && wild_or (p_leaf p) (qe_id ev).

(** the events a request may see: visible to the requester's fabric, from an
    element that exists and that the requester may read, and matching one of
    the requested paths - in queue order *)
Definition permitted_events (nd : node) (fabs : list fabric) (who : accessor) (paths : list gpath)
  (queue : list qevent) : list qevent :=
  filter (fun ev =>
    event_visible who ev
    && match event_source nd ev with Some t => event_granted fabs who t | None => false end
    && existsb (fun p => event_matches p ev) paths) queue.

(** the decision table of a concrete event path, as the property states it ("a concrete path
    that is absent or not permitted yields the corresponding status"); None = no status entry *)
Definition event_path_status (nd : node) (fabs : list fabric) (who : accessor) (e c id : N)
  : option status :=
  match find (fun x => ep_id x =? e) nd with
  | None => Some SUnsupportedEndpoint
  | Some ep =>
      match find (fun x => c_id x =? c) (ep_clusters ep) with
      | None => Some SUnsupportedCluster
      | Some cl =>
          match find (fun l => l_id l =? id) (filter l_on (c_events cl)) with
          | None => Some SUnsupportedEvent     (* the property: an absent concrete path yields its status *)
          | Some l => if event_granted fabs who (ep, cl, l) then None else Some SUnsupportedAccess
          end
      end
  end.

Definition spec_event_statuses (nd : node) (fabs : list fabric) (who : accessor) (paths : list gpath)
  : list out :=
  flat_map (fun p =>
    match p_ep p, p_cl p, p_leaf p with
    | Some e, Some c, Some id =>
        match event_path_status nd fabs who e c id with
        | Some s => [OStatus p None s]
        | None => []
        end
    | _, _, _ => []
    end) paths.

Definition spec_read_events (nd : node) (fabs : list fabric) (who : accessor) (paths : list gpath)
  (queue : list qevent) : imresp :=
  RespItems (spec_event_statuses nd fabs who paths
             ++ map event_out (permitted_events nd fabs who paths queue)) [].

(** a subscription is refused as a whole when a concrete event path names
    something absent (here an absent event id counts) or not permitted *)
Definition concrete_event_path_ok (nd : node) (fabs : list fabric) (who : accessor) (p : gpath) : bool :=
  match p_ep p, p_cl p, p_leaf p with
  | Some e, Some c, Some id =>
      match event_source nd (mkQEvent e c id None) with
      | Some t => event_granted fabs who t
      | None => false
      end
  | _, _, _ => true
  end.

Definition spec_subscribe_events (nd : node) (fabs : list fabric) (who : accessor) (paths : list gpath)
  (queue : list qevent) : imresp :=
  match paths with
  | [] => RespStatus SInvalidAction
  | _ =>
      if forallb (concrete_event_path_ok nd fabs who) paths
      then spec_read_events nd fabs who paths queue
      else RespStatus SInvalidAction
  end.

(** ** Known finding [absent-event-no-status]

    The code deliberately answers a ReadRequest's concrete event path whose
    cluster exists on the endpoint but whose event id is not among the
    cluster's events with nothing at all instead of an UnsupportedEvent
    status (im.rs report_events: "TODO: Look at TestEventsById.yaml").  The
    class of requests on which this shows, and what the code answers. *)
Definition absent_event_path (nd : node) (p : gpath) : bool :=
  match p_ep p, p_cl p, p_leaf p with
  | Some e, Some c, Some id =>
      match find (fun x => ep_id x =? e) nd with
      | None => false
      | Some ep =>
          match find (fun x => c_id x =? c) (ep_clusters ep) with
          | None => false
          | Some cl =>
              match find (fun l => l_id l =? id) (filter l_on (c_events cl)) with
              | None => true
              | Some _ => false
              end
          end
      end
  | _, _, _ => false
  end.

Definition known_absent_event_no_status (nd : node) (paths : list gpath) : bool :=
  existsb (absent_event_path nd) paths.

Definition is_unsupported_event_status (o : out) : bool :=
  match o with OStatus _ _ SUnsupportedEvent => true | _ => false end.

(** an answer with its UnsupportedEvent status entries removed *)
Definition strip_known (r : imresp) : imresp :=
  match r with
  | RespItems outs log => RespItems (filter (fun o => negb (is_unsupported_event_status o)) outs) log
  | _ => r
  end.

(** well-formed for events: event ids distinct within a cluster *)
Definition wf_node_events (nd : node) : bool :=
  forallb (fun e => forallb (fun c => distinct (map l_id (c_events c))) (ep_clusters e)) nd.

(** * Part 3 - the monitor *)

Definition holds_events (subscribe : bool) (who : accessor) (nd : node) (fabs : list fabric)
  (paths : list gpath) (queue : list qevent) (resp : imresp) : bool :=
  if wf_node_events nd && wf_fabrics fabs then
    imresp_eqb resp (if subscribe then spec_subscribe_events nd fabs who paths queue
                     else spec_read_events nd fabs who paths queue)
  else true.

(** the answer violates the property in the known way only: the request is a read in the
    class and the answer is the specified one without its UnsupportedEvent entries *)
Definition holds_events_known (subscribe : bool) (who : accessor) (nd : node) (fabs : list fabric)
  (paths : list gpath) (queue : list qevent) (resp : imresp) : bool :=
  negb subscribe && known_absent_event_no_status nd paths
  && wf_node_events nd && wf_fabrics fabs
  && imresp_eqb resp (strip_known (spec_read_events nd fabs who paths queue)).

(** a group requester's write / invoke is not answered: the handler log is all
    that can be observed, and must be the specified one *)
Definition holds_group (max_paths : nat) (who : accessor) (nd : node) (fabs : list fabric)
  (rq : imreq) (log : list hcall) : bool :=
  if wf_node nd && wf_fabrics fabs then
    match spec_response max_paths who nd fabs rq with
    | RespItems _ l => list_eqb hcall_eqb log l
    | RespStatus _ => match log with [] => true | _ => false end
    | RespOutOfFuel => false
    end
  else true.
