(** Model of the PASE responder and the commissioning window:
    rs-matter/src/sc/pase.rs (Pase, CommWindow, SessionEstTimeout) and
    rs-matter/src/sc/pase/responder.rs (PaseResponder::handle / handle_inner),
    as repaired by the two `fix:` commits of branch verif-c02 (window re-checked
    with its expiry at PASEPake3; closing the window forgets the handshake in
    progress).  SPAKE2+ is symbolic (DESIGN.md section 3).  No proofs here. *)
From Coq Require Import NArith List Bool.
Import ListNotations.
Open Scope N_scope.

(** * Symbolic SPAKE2+ terms *)

(** What a window's verifier is a function of.  An enhanced window stores
    (w0, L) = f(passcode, salt, iterations); a basic window stores the passcode
    and derives the same at PASEPake1. *)
Record verifier := mkVf { vf_pw : N; vf_salt : N; vf_saltlen : N; vf_iters : N }.

(** The prover share pA as received. *)
Inductive point :=
| PtValid (id : N)      (* a point on the curve, not the identity *)
| PtIdentity            (* the identity / all-zero encoding *)
| PtOffCurve            (* 65 bytes, not on the curve or coordinate out of range *).

(** The transcript as the responder sees it: request bytes, response bytes
    (named by the fresh number drawn for the responder random), pA, and pB
    (named by the fresh number drawn for y). *)
Record transcript := mkTr { tr_req : N; tr_resp : N; tr_pa : point; tr_pb : N }.

(** A 32-byte confirmation value: either the HMAC the protocol defines for a
    verifier and a transcript, or any other value (bit-flipped, zero, random). *)
Inductive conf :=
| Ca (v : verifier) (t : transcript)
| CaOther (n : N).

Definition vf_eqb (a b : verifier) : bool :=
  (vf_pw a =? vf_pw b) && (vf_salt a =? vf_salt b) &&
  (vf_saltlen a =? vf_saltlen b) && (vf_iters a =? vf_iters b).

Definition point_eqb (a b : point) : bool :=
  match a, b with
  | PtValid x, PtValid y => x =? y
  | PtIdentity, PtIdentity => true
  | PtOffCurve, PtOffCurve => true
  | _, _ => false
  end.

Definition tr_eqb (a b : transcript) : bool :=
  (tr_req a =? tr_req b) && (tr_resp a =? tr_resp b) &&
  point_eqb (tr_pa a) (tr_pa b) && (tr_pb a =? tr_pb b).

(** [ct_eq] of the received cA with the computed one. *)
Definition conf_eqb (a b : conf) : bool :=
  match a, b with
  | Ca v t, Ca v' t' => vf_eqb v v' && tr_eqb t t'
  | CaOther x, CaOther y => x =? y
  | _, _ => false
  end.

(** [EcPoint::is_valid_pubkey] *)
Definition point_valid (p : point) : bool :=
  match p with PtValid _ => true | _ => false end.

(** * Messages *)

(** PBKDFParamRequest as received. *)
Inductive reqclass :=
| RqOk             (* parses, passcode_id = 0, 32-byte random *)
| RqOkHasParams    (* same with has_params = true: the response omits salt and iterations *)
| RqPid            (* passcode_id <> 0 *)
| RqBadRandom      (* initiator random not 32 bytes *)
| RqUnparsable.    (* FromTLV fails *)

Record reqmsg := mkReq { rq_bytes : N; rq_class : reqclass; rq_ssid : N }.

Inductive p1payload :=
| P1Point (p : point)   (* well-formed TLV, 65-byte octet string *)
| P1Malformed.          (* FromTLV fails or the string is not 65 bytes *)

Inductive p3payload :=
| P3Conf (c : conf)     (* well-formed TLV, 32-byte octet string *)
| P3Malformed.

Inductive msg :=
| MReq (r : reqmsg)
| MP1 (p : p1payload)
| MP3 (p : p3payload)
| MStatus               (* a StatusReport from the initiator *)
| MAck.                 (* a stand-alone acknowledgement *)

Inductive status := StSuccess | StInvalidParameter | StBusy | StSessionNotFound.

Inductive out :=
| ONone                                   (* nothing is sent *)
| OOk | OBusy | OInvalidCommand | OConstraint   (* results of Open *)
| OClosed (b : bool)                       (* results of Close / Poll *)
| OResp (n : N) (params : option verifier) (* PBKDFParamResponse *)
| OPake2 (n : N)                           (* PASEPake2 *)
| OStatus (s : status).

(** * State *)

Record window := mkWin {
  w_vf : verifier;
  w_basic : bool;
  w_expiry : N;      (* ms *)
  w_fail : N;        (* pake_failures: u8 *)
  w_gen : N          (* ghost: which Open created this window *)
}.

(** The handler coroutine of one exchange, between two messages. *)
Inductive stage :=
| AwaitP1 (req resp psid : N)
| AwaitP3 (vf : verifier) (g : N) (tr : transcript) (psid : N)
| AwaitAck (ok : bool).      (* the final StatusReport is waiting for its ack *)

(** A session the responder has committed ([session.complete()]); it is usable
    ([reserved = false]) once the handler has returned. *)
Record sess := mkSess {
  s_peer : N; s_vf : verifier; s_tr : transcript; s_exch : N; s_live : bool }.

Record st := mkSt {
  now : N;                         (* ms *)
  win : option window;
  marker : option (N * N);         (* session_timeout: exchange, deadline *)
  hs : list (N * stage);
  sessions : list sess;
  nonce : N;
  gen : N;
  fs_armed : bool;
  since_poll : N                   (* ghost: time since the last periodic check *)
}.

Definition init : st := mkSt 0 None None [] [] 1 1 false 0.

Definition set_win (s : st) (w : option window) : st :=
  mkSt (now s) w (marker s) (hs s) (sessions s) (nonce s) (gen s) (fs_armed s) (since_poll s).
Definition set_marker (s : st) (m : option (N * N)) : st :=
  mkSt (now s) (win s) m (hs s) (sessions s) (nonce s) (gen s) (fs_armed s) (since_poll s).
Definition set_hs (s : st) (h : list (N * stage)) : st :=
  mkSt (now s) (win s) (marker s) h (sessions s) (nonce s) (gen s) (fs_armed s) (since_poll s).
Definition set_nonce (s : st) (n : N) : st :=
  mkSt (now s) (win s) (marker s) (hs s) (sessions s) n (gen s) (fs_armed s) (since_poll s).

Fixpoint hs_get (e : N) (l : list (N * stage)) : option stage :=
  match l with
  | [] => None
  | (k, v) :: t => if k =? e then Some v else hs_get e t
  end.

Fixpoint hs_del (e : N) (l : list (N * stage)) : list (N * stage) :=
  match l with
  | [] => []
  | (k, v) :: t => if k =? e then hs_del e t else (k, v) :: hs_del e t
  end.

Definition hs_put (e : N) (v : stage) (l : list (N * stage)) : list (N * stage) :=
  (e, v) :: hs_del e l.

Definition del (s : st) (e : N) : st := set_hs s (hs_del e (hs s)).
Definition put (s : st) (e : N) (v : stage) : st := set_hs s (hs_put e v (hs s)).

(** * Window operations (pase.rs) *)

Definition MIN_TIMEOUT : N := 180.
Definition MAX_TIMEOUT : N := 900.
Definition BASIC_ITERS : N := 2000.     (* SPAKE2P_ITERATION_COUNT *)
Definition EST_TIMEOUT_MS : N := 60000. (* PASE_SESSION_EST_TIMEOUT_SECS *)
Definition MAX_FAILURES : N := 20.

(** [close_comm_window]: also forgets the handshake in progress (fix). *)
Definition close (s : st) : st * bool :=
  match win s with
  | Some _ => (set_marker (set_win s None) None, true)
  | None => (s, false)
  end.

(** [check_comm_window_timeout] *)
Definition check_timeout (s : st) : st * bool :=
  match win s with
  | Some w => if w_expiry w <? now s then close s else (s, false)
  | None => (s, false)
  end.

(** [open_basic_comm_window] / [open_comm_window] *)
Definition open (s : st) (basic : bool) (v : verifier) (timeout_s : N) : st * out :=
  match win s with
  | Some _ => (s, OBusy)
  | None =>
      if (timeout_s <? MIN_TIMEOUT) || (MAX_TIMEOUT <? timeout_s) then (s, OInvalidCommand)
      else if (vf_saltlen v <? 16) || (32 <? vf_saltlen v) then (s, OConstraint)
      else
        let v' := if basic then mkVf (vf_pw v) (vf_salt v) (vf_saltlen v) BASIC_ITERS else v in
        let w := mkWin v' basic (now s + timeout_s * 1000) 0 (gen s) in
        (mkSt (now s) (Some w) (marker s) (hs s) (sessions s) (nonce s) (gen s + 1)
              (fs_armed s) (since_poll s), OOk)
  end.

(** [record_pake_failure] *)
Definition record_failure (s : st) : st :=
  let s1 := set_marker s None in
  match win s1 with
  | Some w =>
      let f := N.min (w_fail w + 1) 255 in
      if MAX_FAILURES <=? f then fst (close s1)
      else set_win s1 (Some (mkWin (w_vf w) (w_basic w) (w_expiry w) f (w_gen w)))
  | None => s1
  end.

(** * The responder (responder.rs) *)

(** [update_session_timeout]: [None] = go on, [Some status] = reply with it and stop. *)
Definition update_marker (s : st) (e : N) (new : bool) : st * option status :=
  let s1 := match marker s with
            | Some (_, d) => if d <? now s then set_marker s None else s
            | None => s
            end in
  match marker s1 with
  | Some (e', _) =>
      if e' =? e then (set_marker s1 (Some (e, now s1 + EST_TIMEOUT_MS)), None)
      else (s1, Some StBusy)
  | None =>
      if new then (set_marker s1 (Some (e, now s1 + EST_TIMEOUT_MS)), None)
      else (s1, Some StSessionNotFound)
  end.

Definition clear_marker (s : st) : st := set_marker s None.

(** A PBKDFParamRequest opening a new exchange. *)
Definition step_req (s : st) (e : N) (r : reqmsg) : st * out :=
  let '(s1, b) := update_marker s e true in
  match b with
  | Some x => (s1, OStatus x)
  | None =>
      let s2 := fst (check_timeout s1) in
      match win s2 with
      | None => (clear_marker s2, ONone)
      | Some w =>
          match rq_class r with
          | RqOk | RqOkHasParams =>
              let n := nonce s2 in
              (set_nonce (put s2 e (AwaitP1 (rq_bytes r) n (rq_ssid r))) (n + 1),
               OResp n (match rq_class r with RqOk => Some (w_vf w) | _ => None end))
          | _ => (record_failure s2, ONone)
          end
      end
  end.

(** The message after the PBKDFParamResponse. *)
Definition step_p1 (s : st) (e : N) (rq rs psid : N) (m : msg) : st * out :=
  let '(s1, b) := update_marker s e false in
  match b with
  | Some x => (del s1 e, OStatus x)
  | None =>
      match m with
      | MP1 (P1Point pt) =>
          let s2 := fst (check_timeout s1) in
          match win s2 with
          | None => (clear_marker (del s2 e), ONone)
          | Some w =>
              if point_valid pt then
                let n := nonce s2 in
                (set_nonce (put s2 e (AwaitP3 (w_vf w) (w_gen w) (mkTr rq rs pt n) psid)) (n + 1),
                 OPake2 n)
              else (record_failure (del s2 e), ONone)
          end
      | MP1 P1Malformed => (record_failure (del s1 e), ONone)
      | MStatus => (record_failure (del s1 e), ONone)
      | _ => (put s1 e (AwaitAck false), OStatus StInvalidParameter)   (* wrong opcode: reported reliably, then [Err] *)
      end
  end.

(** The message after PASEPake2. *)
Definition step_p3 (s : st) (e : N) (vf : verifier) (g : N) (tr : transcript) (psid : N)
    (m : msg) : st * out :=
  let '(s1, b) := update_marker s e false in
  match b with
  | Some x => (del s1 e, OStatus x)
  | None =>
      match m with
      | MP3 (P3Conf c) =>
          let s2 := fst (check_timeout s1) in
          match win s2 with
          | None => (clear_marker (del s2 e), ONone)
          | Some _ =>
              if conf_eqb c (Ca vf tr) then
                (mkSt (now s2) (win s2) (marker s2) (hs_put e (AwaitAck true) (hs s2))
                      (sessions s2 ++ [mkSess psid vf tr e false]) (nonce s2) (gen s2) true
                      (since_poll s2),
                 OStatus StSuccess)
              else (put s2 e (AwaitAck false), OStatus StInvalidParameter)
          end
      | MP3 P3Malformed => (record_failure (del s1 e), ONone)
      | MStatus => (record_failure (del s1 e), ONone)
      | _ => (put s1 e (AwaitAck false), OStatus StInvalidParameter)   (* wrong opcode: reported reliably, then [Err] *)
      end
  end.

(** The handler returns: its reserved session becomes usable if it was completed. *)
Definition make_live (l : list sess) (e : N) : list sess :=
  map (fun x => if (s_exch x =? e) && negb (s_live x)
                then mkSess (s_peer x) (s_vf x) (s_tr x) (s_exch x) true else x) l.

Definition set_sessions (s : st) (l : list sess) : st :=
  mkSt (now s) (win s) (marker s) (hs s) l (nonce s) (gen s) (fs_armed s) (since_poll s).

(** The final StatusReport has been acknowledged. *)
Definition step_ack (s : st) (e : N) (ok : bool) : st * out :=
  if ok then (clear_marker (set_sessions (del s e) (make_live (sessions s) e)), ONone)
  else (record_failure (del s e), ONone).

Definition step_msg (s : st) (e : N) (m : msg) : st * out :=
  match hs_get e (hs s) with
  | None =>
      match m with
      | MReq r => step_req s e r
      | _ => (s, ONone)          (* not the start of a PASE handshake *)
      end
  | Some (AwaitP1 rq rs psid) =>
      match m with MAck => (s, ONone) | _ => step_p1 s e rq rs psid m end
  | Some (AwaitP3 vf g tr psid) =>
      match m with MAck => (s, ONone) | _ => step_p3 s e vf g tr psid m end
  | Some (AwaitAck ok) => step_ack s e ok
  end.

(** The pending send / receive of the handler fails (retransmissions exhausted,
    exchange or session dropped): [handle_inner] returns [Err]. *)
Definition step_abort (s : st) (e : N) : st :=
  match hs_get e (hs s) with
  | None => s
  | Some (AwaitAck true) =>
      record_failure (set_sessions (del s e) (make_live (sessions s) e))
  | Some _ => record_failure (del s e)
  end.

Inductive op :=
| Open (basic : bool) (v : verifier) (timeout_s : N)
| Close
| Poll
| Advance (d : N)
| Msg (e : N) (m : msg)
| Abort (e : N).

Definition step (s : st) (o : op) : st * out :=
  match o with
  | Open basic v t => open s basic v t
  | Close => let '(s', b) := close s in (s', OClosed b)
  | Poll =>
      let '(s', b) := check_timeout s in
      (mkSt (now s') (win s') (marker s') (hs s') (sessions s') (nonce s') (gen s')
            (fs_armed s') 0, OClosed b)
  | Advance d =>
      (mkSt (now s + d) (win s) (marker s) (hs s) (sessions s) (nonce s) (gen s)
            (fs_armed s) (since_poll s + d), ONone)
  | Msg e m => step_msg s e m
  | Abort e => (step_abort s e, ONone)
  end.

Fixpoint run (s : st) (l : list op) : st :=
  match l with
  | [] => s
  | o :: t => run (fst (step s o)) t
  end.

(** The mDNS view ([Matter::mdns_services]): the commissionable service is
    published iff a window is present. *)
Definition advertised (s : st) : bool :=
  match win s with Some _ => true | None => false end.

(** The committed sessions without the usability flag. *)
Definition core (x : sess) : N * verifier * transcript * N :=
  (s_peer x, s_vf x, s_tr x, s_exch x).
Definition commits (s : st) := map core (sessions s).
